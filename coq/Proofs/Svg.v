(* Proofs/Svg.v -- lemmas for C14 (SVG rendering): the escaping round trip, the
   well-formedness of the printed template, the line splitting against the
   specification, the class lists and the colour sheet. *)
From Coq Require Import NArith List Bool Lia.
From AV Require Import Generated.Table Generated.Style Generated.Palette Generated.Svg
  Spec.Vt Spec.Sgr Spec.Lossy Spec.SvgSpec
  Model.Base Model.Parser Model.Strip Model.Wincon Model.Lossy Model.Svg
  Proofs.TableFacts Proofs.Lossy.
Import ListNotations.
Local Open Scope N_scope.

(* ======================================================================== *)
(* A. escaping                                                              *)

Lemma svg_unescape_skip : forall p r, xml_unescape_go (length p) (p ++ r) = xml_unescape_go 0 r.
Proof. induction p as [|c p IH]; intros r; [reflexivity | exact (IH r)]. Qed.

Lemma svg_encode_cons c r :
  svg_encode_text (c :: r) =
  (if c =? 38 then [38; 97; 109; 112; 59] else if c =? 60 then [38; 108; 116; 59] else if c =? 62 then [38; 103; 116; 59] else [c])
  ++ svg_encode_text r.
Proof. reflexivity. Qed.

Lemma svg_escape_roundtrip : forall t, xml_unescape (svg_encode_text t) = t.
Proof.
  unfold xml_unescape. induction t as [|c r IH]; [reflexivity|].
  rewrite svg_encode_cons.
  destruct (c =? 38) eqn:E38; [apply N.eqb_eq in E38; subst c|].
  { change (xml_unescape_go 0 (38 :: [97; 109; 112; 59] ++ svg_encode_text r) = 38 :: r).
    cbn [xml_unescape_go]. change (38 =? xml_amp) with true. cbv iota.
    replace (svg_starts_with [97; 109; 112; 59] ([97; 109; 112; 59] ++ svg_encode_text r)) with true by reflexivity.
    f_equal. rewrite (svg_unescape_skip [97; 109; 112; 59]). exact IH. }
  destruct (c =? 60) eqn:E60; [apply N.eqb_eq in E60; subst c|].
  { change (xml_unescape_go 0 (38 :: [108; 116; 59] ++ svg_encode_text r) = 60 :: r).
    cbn [xml_unescape_go]. change (38 =? xml_amp) with true. cbv iota.
    replace (svg_starts_with [97; 109; 112; 59] ([108; 116; 59] ++ svg_encode_text r)) with false by reflexivity.
    replace (svg_starts_with [108; 116; 59] ([108; 116; 59] ++ svg_encode_text r)) with true by reflexivity.
    f_equal. rewrite (svg_unescape_skip [108; 116; 59]). exact IH. }
  destruct (c =? 62) eqn:E62; [apply N.eqb_eq in E62; subst c|].
  { change (xml_unescape_go 0 (38 :: [103; 116; 59] ++ svg_encode_text r) = 62 :: r).
    cbn [xml_unescape_go]. change (38 =? xml_amp) with true. cbv iota.
    replace (svg_starts_with [97; 109; 112; 59] ([103; 116; 59] ++ svg_encode_text r)) with false by reflexivity.
    replace (svg_starts_with [108; 116; 59] ([103; 116; 59] ++ svg_encode_text r)) with false by reflexivity.
    replace (svg_starts_with [103; 116; 59] ([103; 116; 59] ++ svg_encode_text r)) with true by reflexivity.
    f_equal. rewrite (svg_unescape_skip [103; 116; 59]). exact IH. }
  change ([c] ++ svg_encode_text r) with (c :: svg_encode_text r).
  cbn [xml_unescape_go]. unfold xml_amp. rewrite E38. f_equal. exact IH.
Qed.

Lemma svg_encoded_escaped : forall t, XEscaped (svg_encode_text t).
Proof.
  induction t as [|c r IH]; [constructor|].
  rewrite svg_encode_cons.
  destruct (c =? 38) eqn:E38; [apply XS_ref; unfold xml_is_ref; auto|].
  destruct (c =? 60) eqn:E60; [apply XS_ref; unfold xml_is_ref; auto|].
  destruct (c =? 62) eqn:E62; [apply XS_ref; unfold xml_is_ref; auto|].
  apply XS_char; auto; unfold xml_lt, xml_amp; intros ->; discriminate.
Qed.

Lemma svg_encoded_no_lt : forall t, ~ In 60 (svg_encode_text t).
Proof.
  induction t as [|c r IH]; [intros []|].
  rewrite svg_encode_cons. intros H. apply in_app_or in H. destruct H as [H|H]; [|exact (IH H)].
  destruct (c =? 38); [cbn in H; intuition discriminate|].
  destruct (c =? 60) eqn:E60; [cbn in H; intuition discriminate|].
  destruct (c =? 62); [cbn in H; intuition discriminate|].
  cbn in H. destruct H as [H|[]]. subst c. discriminate.
Qed.

(* ---- the foreground fragment: encode_text, then CR -> &#13; ---------------- *)

Definition svg_fg_piece (c : N) : list N :=
  if c =? 38 then [38; 97; 109; 112; 59] else if c =? 60 then [38; 108; 116; 59] else if c =? 62 then [38; 103; 116; 59]
  else if c =? 13 then [38; 35; 49; 51; 59] else [c].

Lemma svg_encode_fg_cons c r : svg_encode_fg (c :: r) = svg_fg_piece c ++ svg_encode_fg r.
Proof.
  unfold svg_encode_fg. rewrite svg_encode_cons. unfold svg_replace_cr. rewrite flat_map_app. f_equal. unfold svg_fg_piece.
  destruct (c =? 38) eqn:E38; [reflexivity|].
  destruct (c =? 60) eqn:E60; [reflexivity|].
  destruct (c =? 62) eqn:E62; [reflexivity|].
  cbn [flat_map]. rewrite app_nil_r. reflexivity.
Qed.

Lemma svg_fg_piece_cases c :
  (svg_fg_piece c = [c] /\ c <> 38 /\ c <> 60 /\ c <> 62 /\ c <> 13)
  \/ (c = 38 /\ svg_fg_piece c = xml_ent_amp) \/ (c = 60 /\ svg_fg_piece c = xml_ent_lt)
  \/ (c = 62 /\ svg_fg_piece c = xml_ent_gt) \/ (c = 13 /\ svg_fg_piece c = xml_ref_cr).
Proof.
  unfold svg_fg_piece.
  destruct (c =? 38) eqn:E38; [apply N.eqb_eq in E38; subst; auto|].
  destruct (c =? 60) eqn:E60; [apply N.eqb_eq in E60; subst; auto|].
  destruct (c =? 62) eqn:E62; [apply N.eqb_eq in E62; subst; auto 6|].
  destruct (c =? 13) eqn:E13; [apply N.eqb_eq in E13; subst; auto 6|].
  apply N.eqb_neq in E38, E60, E62, E13. auto 6.
Qed.

Lemma svg_fg_unescape : forall t, xml_unescape (svg_encode_fg t) = t.
Proof.
  unfold xml_unescape. induction t as [|c r IH]; [reflexivity|].
  rewrite svg_encode_fg_cons.
  destruct (svg_fg_piece_cases c) as [(-> & H38 & _)|[(-> & ->)|[(-> & ->)|[(-> & ->)|(-> & ->)]]]].
  - cbn [app xml_unescape_go]. unfold xml_amp. apply N.eqb_neq in H38. rewrite H38. f_equal. exact IH.
  - change (xml_unescape_go 0 (38 :: [97; 109; 112; 59] ++ svg_encode_fg r) = 38 :: r).
    cbn [xml_unescape_go]. change (38 =? xml_amp) with true. cbv iota.
    replace (svg_starts_with [97; 109; 112; 59] ([97; 109; 112; 59] ++ svg_encode_fg r)) with true by reflexivity.
    f_equal. rewrite (svg_unescape_skip [97; 109; 112; 59]). exact IH.
  - change (xml_unescape_go 0 (38 :: [108; 116; 59] ++ svg_encode_fg r) = 60 :: r).
    cbn [xml_unescape_go]. change (38 =? xml_amp) with true. cbv iota.
    replace (svg_starts_with [97; 109; 112; 59] ([108; 116; 59] ++ svg_encode_fg r)) with false by reflexivity.
    replace (svg_starts_with [108; 116; 59] ([108; 116; 59] ++ svg_encode_fg r)) with true by reflexivity.
    f_equal. rewrite (svg_unescape_skip [108; 116; 59]). exact IH.
  - change (xml_unescape_go 0 (38 :: [103; 116; 59] ++ svg_encode_fg r) = 62 :: r).
    cbn [xml_unescape_go]. change (38 =? xml_amp) with true. cbv iota.
    replace (svg_starts_with [97; 109; 112; 59] ([103; 116; 59] ++ svg_encode_fg r)) with false by reflexivity.
    replace (svg_starts_with [108; 116; 59] ([103; 116; 59] ++ svg_encode_fg r)) with false by reflexivity.
    replace (svg_starts_with [103; 116; 59] ([103; 116; 59] ++ svg_encode_fg r)) with true by reflexivity.
    f_equal. rewrite (svg_unescape_skip [103; 116; 59]). exact IH.
  - change (xml_unescape_go 0 (38 :: [35; 49; 51; 59] ++ svg_encode_fg r) = 13 :: r).
    cbn [xml_unescape_go]. change (38 =? xml_amp) with true. cbv iota.
    replace (svg_starts_with [97; 109; 112; 59] ([35; 49; 51; 59] ++ svg_encode_fg r)) with false by reflexivity.
    replace (svg_starts_with [108; 116; 59] ([35; 49; 51; 59] ++ svg_encode_fg r)) with false by reflexivity.
    replace (svg_starts_with [103; 116; 59] ([35; 49; 51; 59] ++ svg_encode_fg r)) with false by reflexivity.
    replace (svg_starts_with [35; 49; 51; 59] ([35; 49; 51; 59] ++ svg_encode_fg r)) with true by reflexivity.
    f_equal. rewrite (svg_unescape_skip [35; 49; 51; 59]). exact IH.
Qed.

Lemma svg_fg_escaped : forall t, XEscaped (svg_encode_fg t) /\ ~ In 60 (svg_encode_fg t) /\ ~ In 13 (svg_encode_fg t).
Proof.
  induction t as [|c r (IH1 & IH2 & IH3)]; [repeat split; [constructor | intros [] | intros []]|].
  rewrite svg_encode_fg_cons.
  destruct (svg_fg_piece_cases c) as [(-> & H38 & H60 & _ & H13)|[(-> & ->)|[(-> & ->)|[(-> & ->)|(-> & ->)]]]].
  - repeat split; [apply XS_char; assumption | |]; intros [E|E]; auto.
  - repeat split; [apply XS_ref; unfold xml_is_ref; auto | |]; intros E; apply in_app_or in E; destruct E as [E|E]; auto; cbn in E; intuition discriminate.
  - repeat split; [apply XS_ref; unfold xml_is_ref; auto | |]; intros E; apply in_app_or in E; destruct E as [E|E]; auto; cbn in E; intuition discriminate.
  - repeat split; [apply XS_ref; unfold xml_is_ref; auto | |]; intros E; apply in_app_or in E; destruct E as [E|E]; auto; cbn in E; intuition discriminate.
  - repeat split; [apply XS_ref; unfold xml_is_ref; auto | |]; intros E; apply in_app_or in E; destruct E as [E|E]; auto; cbn in E; intuition discriminate.
Qed.

Lemma svg_eol_id : forall x, ~ In 13 x -> xml_eol_go false x = x.
Proof.
  induction x as [|c r IH]; intros H; [reflexivity|].
  cbn [xml_eol_go]. destruct (c =? 13) eqn:E; [apply N.eqb_eq in E; subst c; exfalso; apply H; left; reflexivity|].
  rewrite andb_false_r. f_equal. apply IH. intros Hr. apply H. right. exact Hr.
Qed.

(* what an XML processor hands over for a foreground fragment is the fragment *)
Lemma svg_parsed_text_roundtrip : forall t, xml_text_value (svg_encode_fg t) = t.
Proof.
  intros t. unfold xml_text_value, xml_eol. rewrite svg_eol_id by apply svg_fg_escaped. apply svg_fg_unescape.
Qed.

(* why the CR has to be a reference: written literally it comes back as LF *)
Lemma svg_parsed_text_cr_witness : xml_text_value (svg_encode_text [97; 13; 98]) = [97; 10; 98].
Proof. vm_compute. reflexivity. Qed.

(* ======================================================================== *)
(* B. the printed template is well-formed                                    *)

Lemma svg_XContent_app : forall a b, XContent a -> XContent b -> XContent (a ++ b).
Proof.
  intros a b Ha Hb. induction Ha as [|c r Hc Hr IH|e r He Hr IH|e r He Hr IH].
  - exact Hb.
  - cbn [app]. apply XC_char; assumption.
  - rewrite <- app_assoc. apply XC_ref; assumption.
  - rewrite <- app_assoc. apply XC_elem; assumption.
Qed.

Lemma svg_XContent_chars : forall t, forallb xml_text_char t = true -> XContent t.
Proof.
  induction t as [|c r IH]; intros H; [constructor|].
  cbn [forallb] in H. apply andb_true_iff in H. destruct H as [Hc Hr]. apply XC_char; auto.
Qed.

Lemma svg_xml_char_text c : xml_char c = true -> (c =? 38) = false -> (c =? 60) = false -> (c =? 62) = false -> xml_text_char c = true.
Proof. intros H A B C. unfold xml_text_char, xml_lt, xml_amp, xml_gt. rewrite H, A, B, C. reflexivity. Qed.

Lemma svg_XContent_encode : forall t, forallb xml_char t = true -> XContent (svg_encode_fg t).
Proof.
  induction t as [|c r IH]; intros H; [constructor|].
  cbn [forallb] in H. apply andb_true_iff in H. destruct H as [Hc Hr].
  rewrite svg_encode_fg_cons.
  destruct (svg_fg_piece_cases c) as [(-> & H38 & H60 & H62 & _)|[(-> & ->)|[(-> & ->)|[(-> & ->)|(-> & ->)]]]].
  - apply XC_char; auto. apply svg_xml_char_text; auto; apply N.eqb_neq; assumption.
  - apply XC_ref; [unfold xml_is_ref; auto | auto].
  - apply XC_ref; [unfold xml_is_ref; auto | auto].
  - apply XC_ref; [unfold xml_is_ref; auto | auto].
  - apply XC_ref; [unfold xml_is_ref; auto | auto].
Qed.

Lemma svg_elem_wf n atts c : xml_name n = true -> xml_atts_ok atts -> XContent c -> XElement (svg_elem n atts c).
Proof. intros Hn Ha Hc. exact (XE_full n atts c Hn Ha Hc). Qed.

Lemma svg_empty_elem_wf n atts : xml_name n = true -> xml_atts_ok atts -> XElement (svg_empty_elem n atts).
Proof. intros Hn Ha. exact (XE_empty n atts true Hn Ha). Qed.

(* character classes *)
Definition svg_is_digit (c : N) : bool := (48 <=? c) && (c <=? 57).

Lemma svg_name_char_range c : xml_name_char c = true -> 45 <= c <= 122.
Proof.
  unfold xml_name_char, xml_name_start, svg_in_rng. rewrite !orb_true_iff, !andb_true_iff, !N.leb_le, !N.eqb_eq. intros H. lia.
Qed.

Lemma svg_range_chars c : 39 <= c <= 122 -> c <> 60 -> c <> 62 -> xml_text_char c = true /\ xml_att_char c = true.
Proof.
  intros H A B. unfold xml_text_char, xml_att_char, xml_char, svg_in_rng, xml_lt, xml_gt, xml_amp, xml_quot.
  assert ((32 <=? c) && (c <=? 55295) = true) as -> by (rewrite andb_true_iff, !N.leb_le; lia).
  rewrite !orb_true_r. cbn [orb andb].
  assert ((c =? 60) = false) as -> by (apply N.eqb_neq; exact A).
  assert ((c =? 62) = false) as -> by (apply N.eqb_neq; exact B).
  assert ((c =? 38) = false) as -> by (apply N.eqb_neq; lia).
  assert ((c =? 34) = false) as -> by (apply N.eqb_neq; lia).
  split; reflexivity.
Qed.

Lemma svg_name_char_ok c : xml_name_char c = true -> xml_text_char c = true /\ xml_att_char c = true.
Proof.
  intros H. pose proof (svg_name_char_range c H) as R.
  apply svg_range_chars; [lia| |].
  - intros ->. vm_compute in H. discriminate.
  - intros ->. vm_compute in H. discriminate.
Qed.

Lemma svg_digit_name_char c : svg_is_digit c = true -> xml_name_char c = true.
Proof.
  unfold svg_is_digit, xml_name_char, svg_in_rng. intros H. rewrite H. rewrite orb_true_r. reflexivity.
Qed.

Lemma svg_forallb_impl {A} (P Q : A -> bool) l : (forall x, P x = true -> Q x = true) -> forallb P l = true -> forallb Q l = true.
Proof.
  intros H. induction l as [|x r IH]; [reflexivity|]. cbn [forallb]. rewrite !andb_true_iff. intros [A1 B1]. auto.
Qed.

Lemma svg_forallb_flat_map {A} (P : N -> bool) (f : A -> list N) l :
  (forall x, In x l -> forallb P (f x) = true) -> forallb P (flat_map f l) = true.
Proof.
  induction l as [|x r IH]; intros H; [reflexivity|].
  cbn [flat_map]. rewrite forallb_app, andb_true_iff. split; [apply H; left; reflexivity|].
  apply IH. intros y Hy. apply H. right. exact Hy.
Qed.

(* decimal numerals *)
Lemma svg_dec_go_digits : forall fuel n acc, forallb svg_is_digit acc = true -> forallb svg_is_digit (svg_dec_go fuel n acc) = true.
Proof.
  induction fuel as [|f IH]; intros n acc H; [exact H|].
  cbn [svg_dec_go].
  assert (forallb svg_is_digit ((48 + n mod 10) :: acc) = true) as H1.
  { cbn [forallb]. rewrite H, andb_true_r. unfold svg_is_digit.
    pose proof (N.mod_lt n 10 ltac:(lia)) as L. generalize dependent (n mod 10). intros m L.
    rewrite andb_true_iff, !N.leb_le. lia. }
  destruct (n <? 10); [exact H1 | apply IH; exact H1].
Qed.

Lemma svg_dec_digits n : forallb svg_is_digit (svg_dec n) = true.
Proof. unfold svg_dec. apply svg_dec_go_digits. reflexivity. Qed.

Lemma svg_px_att n : forallb xml_att_char (svg_px n) = true.
Proof.
  unfold svg_px. rewrite forallb_app, andb_true_iff. split; [|reflexivity].
  eapply svg_forallb_impl; [|apply svg_dec_digits].
  intros c Hc. apply svg_name_char_ok, svg_digit_name_char, Hc.
Qed.

Lemma svg_px_text n : forallb xml_text_char (svg_px n) = true.
Proof.
  unfold svg_px. rewrite forallb_app, andb_true_iff. split; [|reflexivity].
  eapply svg_forallb_impl; [|apply svg_dec_digits].
  intros c Hc. apply svg_name_char_ok, svg_digit_name_char, Hc.
Qed.

(* what [c14_print_doc_wf] asks of a document: texts are XML characters, class
   names are name characters, colour values are plain text *)
Definition svg_class_ok (c : list N) : bool := forallb xml_name_char c.
Definition svg_span_ok (sp : svg_span) : bool := forallb svg_class_ok (fst sp) && forallb xml_char (snd sp).
Definition svg_line_ok (l : svg_line) : bool :=
  match svg_l_bg l with Some bg => forallb (fun sp => forallb svg_class_ok (fst sp)) bg | None => true end
  && forallb svg_span_ok (svg_l_fg l).
Definition svg_css_ok (v : list N) : bool := forallb xml_text_char v.
Definition svg_doc_ok (d : svg_document) : bool :=
  svg_css_ok (svg_d_fg d) && svg_css_ok (svg_d_bg d)
  && forallb (fun e => svg_class_ok (fst e) && svg_css_ok (snd e)) (svg_d_sheet d)
  && forallb svg_line_ok (svg_d_lines d).

Lemma svg_join_att : forall cl, forallb svg_class_ok cl = true -> forallb xml_att_char (svg_join [32] cl) = true.
Proof.
  induction cl as [|x r IH]; intros H; [reflexivity|].
  cbn [forallb] in H. apply andb_true_iff in H. destruct H as [Hx Hr].
  assert (forallb xml_att_char x = true) as Hx'.
  { eapply svg_forallb_impl; [|exact Hx]. intros c Hc. apply svg_name_char_ok, Hc. }
  destruct r as [|y r']; [exact Hx'|].
  change (svg_join [32] (x :: y :: r')) with (x ++ [32] ++ svg_join [32] (y :: r')).
  rewrite !forallb_app, Hx', (IH Hr). reflexivity.
Qed.

Lemma svg_class_attr_ok cl : forallb svg_class_ok cl = true -> xml_atts_ok (svg_class_attr cl).
Proof.
  intros H. unfold svg_class_attr. destruct cl as [|x r]; cbn [svg_is_nil].
  - split; constructor.
  - split; [repeat constructor; intros []|]. constructor; [|constructor]. split; [reflexivity|].
    apply svg_join_att, H.
Qed.

Lemma svg_fg_span_wf sp : svg_span_ok sp = true -> XElement (svg_print_fg_span sp).
Proof.
  unfold svg_span_ok. rewrite andb_true_iff. intros [Hc Ht]. unfold svg_print_fg_span.
  apply svg_elem_wf; [reflexivity | apply svg_class_attr_ok, Hc | apply svg_XContent_encode, Ht].
Qed.

Lemma svg_repeat_text c n : xml_text_char c = true -> forallb xml_text_char (repeat c n) = true.
Proof. intros H. induction n as [|n IH]; [reflexivity|]. cbn [repeat forallb]. rewrite H, IH. reflexivity. Qed.

Lemma svg_bg_span_wf wf sp : forallb svg_class_ok (fst sp) = true -> XElement (svg_print_bg_span wf sp).
Proof.
  intros Hc. unfold svg_print_bg_span.
  apply svg_elem_wf; [reflexivity | apply svg_class_attr_ok, Hc |].
  apply svg_XContent_chars, svg_repeat_text. destruct (svg_is_nil (fst sp)); reflexivity.
Qed.

Lemma svg_flat_map_elems {A} (f : A -> list N) l : (forall x, In x l -> XElement (f x)) -> XContent (flat_map f l).
Proof.
  induction l as [|x r IH]; intros H; [constructor|].
  cbn [flat_map]. apply XC_elem; [apply H; left; reflexivity|]. apply IH. intros y Hy. apply H. right. exact Hy.
Qed.

Lemma svg_row_wf y spans : XContent spans -> XContent (svg_print_row y spans).
Proof.
  intros H. unfold svg_print_row.
  apply svg_XContent_app; [apply svg_XContent_chars; reflexivity|].
  apply XC_elem; [|apply svg_XContent_chars; reflexivity].
  apply svg_elem_wf; [reflexivity| |].
  - split; [repeat constructor; cbn; intuition discriminate|].
    repeat constructor; cbn [fst snd]; try reflexivity; apply svg_px_att.
  - apply svg_XContent_app; [exact H | apply svg_XContent_chars; reflexivity].
Qed.

Lemma svg_line_wf wf y l : svg_line_ok l = true -> XContent (svg_print_line wf y l).
Proof.
  unfold svg_line_ok. rewrite andb_true_iff. intros [Hb Hf]. unfold svg_print_line.
  apply svg_XContent_app.
  - destruct (svg_l_bg l) as [bg|]; [|constructor].
    apply svg_row_wf, svg_flat_map_elems. intros sp Hsp. apply svg_bg_span_wf.
    rewrite forallb_forall in Hb. exact (Hb sp Hsp).
  - apply svg_row_wf, svg_flat_map_elems. intros sp Hsp. apply svg_fg_span_wf.
    rewrite forallb_forall in Hf. exact (Hf sp Hsp).
Qed.

Lemma svg_lines_wf wf : forall ls y, forallb svg_line_ok ls = true -> XContent (svg_print_lines wf y ls).
Proof.
  induction ls as [|l r IH]; intros y H; [constructor|].
  cbn [forallb] in H. apply andb_true_iff in H. destruct H as [Hl Hr].
  cbn [svg_print_lines]. apply svg_XContent_app; [apply svg_line_wf, Hl | apply IH, Hr].
Qed.

(* the style sheet is plain character data *)
Lemma svg_rule_text name body :
  svg_class_ok name = true -> forallb xml_text_char body = true -> forallb xml_text_char (svg_rule name body) = true.
Proof.
  intros Hn Hb. unfold svg_rule. rewrite !forallb_app, Hb.
  assert (forallb xml_text_char name = true) as ->.
  { eapply svg_forallb_impl; [|exact Hn]. intros c Hc. apply svg_name_char_ok, Hc. }
  reflexivity.
Qed.

Lemma svg_sheet_entry_text e :
  svg_class_ok (fst e) = true -> svg_css_ok (snd e) = true -> forallb xml_text_char (svg_print_sheet_entry e) = true.
Proof.
  destruct e as [name rgb]. cbn [fst snd]. unfold svg_css_ok. intros Hn Hv. unfold svg_print_sheet_entry.
  rewrite !forallb_app, !andb_true_iff. repeat split.
  - destruct (svg_starts svg_fg_prefix name); [|reflexivity]. apply svg_rule_text; [exact Hn|].
    rewrite forallb_app, Hv. reflexivity.
  - destruct (svg_starts svg_bg_prefix name); [|reflexivity]. apply svg_rule_text; [exact Hn|].
    rewrite !forallb_app, Hv. reflexivity.
  - destruct (svg_starts svg_underline_prefix name); [|reflexivity]. apply svg_rule_text; [exact Hn|].
    rewrite forallb_app, Hv. reflexivity.
Qed.

Lemma svg_effect_rules_text e : forallb xml_text_char (flat_map (svg_print_effect_rule e) svg_effect_rules) = true.
Proof.
  apply svg_forallb_flat_map. intros r Hr.
  assert (forallb (fun r => forallb xml_text_char (svg_rule (snd (fst r)) (snd r))) svg_effect_rules = true) as H by (vm_compute; reflexivity).
  rewrite forallb_forall in H. specialize (H r Hr). destruct r as [[m name] body]. cbn [fst snd] in H.
  unfold svg_print_effect_rule. destruct (svg_contains e m); [exact H | reflexivity].
Qed.

Lemma svg_style_text_ok d : svg_doc_ok d = true -> forallb xml_text_char (svg_style_text d) = true.
Proof.
  unfold svg_doc_ok. rewrite !andb_true_iff. intros [[[Hfg Hbg] Hsheet] _]. unfold svg_style_text.
  rewrite !forallb_app, !andb_true_iff.
  repeat split; try apply svg_px_text; try apply svg_effect_rules_text; try reflexivity.
  - apply svg_rule_text; [reflexivity|]. rewrite forallb_app. unfold svg_css_ok in Hfg. rewrite Hfg. reflexivity.
  - apply svg_rule_text; [reflexivity|]. rewrite forallb_app. unfold svg_css_ok in Hbg. rewrite Hbg. reflexivity.
  - apply svg_forallb_flat_map. intros e He. rewrite forallb_forall in Hsheet. specialize (Hsheet e He).
    apply andb_true_iff in Hsheet. destruct Hsheet. apply svg_sheet_entry_text; assumption.
Qed.

Lemma svg_rect_wf : XElement svg_rect.
Proof.
  unfold svg_rect. apply svg_empty_elem_wf; [reflexivity|].
  split; [repeat constructor; cbn; intuition discriminate|].
  repeat constructor; reflexivity.
Qed.

Theorem svg_print_doc_wf : forall width_px wf d, svg_doc_ok d = true -> WF (svg_print width_px wf d).
Proof.
  intros W wf d Hd. unfold svg_print, WF. eexists. exists [10]. split; [reflexivity|]. split; [|reflexivity].
  apply svg_elem_wf; [reflexivity| |].
  - split; [repeat constructor; cbn; intuition discriminate|].
    repeat constructor; cbn [fst snd]; try reflexivity; apply svg_px_att.
  - apply svg_XContent_app; [apply svg_XContent_chars; reflexivity|].
    apply svg_XContent_app; [apply svg_XContent_chars; reflexivity|].
    apply XC_elem.
    { apply svg_elem_wf; [reflexivity | split; constructor | apply svg_XContent_chars, svg_style_text_ok, Hd]. }
    apply svg_XContent_app; [apply svg_XContent_chars; reflexivity|].
    apply svg_XContent_app; [apply svg_XContent_chars; reflexivity|].
    apply svg_XContent_app.
    { destruct (svg_d_background d); [|constructor].
      apply svg_XContent_app; [apply svg_XContent_chars; reflexivity|].
      apply XC_elem; [apply svg_rect_wf | apply svg_XContent_chars; reflexivity]. }
    apply svg_XContent_app; [apply svg_XContent_chars; reflexivity|].
    apply XC_elem; [|apply svg_XContent_chars; reflexivity].
    apply svg_elem_wf; [reflexivity| |].
    + split; [repeat constructor; cbn; intuition discriminate|].
      repeat constructor; reflexivity.
    + apply svg_XContent_app; [apply svg_XContent_chars; reflexivity|].
      apply svg_XContent_app; [|apply svg_XContent_chars; reflexivity].
      apply svg_lines_wf. unfold svg_doc_ok in Hd. rewrite !andb_true_iff in Hd. apply Hd.
Qed.

(* ======================================================================== *)
(* C. split_lines against the specification                                  *)

Definition svg_txt (l : list (sstyle * list N)) : list N := List.concat (map snd l).

Lemma svg_txt_app a b : svg_txt (a ++ b) = svg_txt a ++ svg_txt b.
Proof. unfold svg_txt. rewrite map_app, concat_app. reflexivity. Qed.

Lemma svg_strip_is_drop : forall t, svg_strip_cr t = svg_drop_cr t.
Proof. induction t as [|c r IH]; [reflexivity|]. cbn [svg_strip_cr svg_drop_cr]. destruct r; [reflexivity|]. rewrite IH. reflexivity. Qed.

Lemma svg_drop_cr_app : forall a b, b <> [] -> svg_drop_cr (a ++ b) = a ++ svg_drop_cr b.
Proof.
  induction a as [|c a IH]; intros b Hb; [reflexivity|].
  cbn [app svg_drop_cr]. destruct (a ++ b) eqn:E.
  - apply app_eq_nil in E. destruct E as [_ E]. contradiction.
  - rewrite <- E, IH by exact Hb. reflexivity.
Qed.

Lemma svg_drop_cr_cases : forall t, svg_drop_cr t = t \/ t = svg_drop_cr t ++ [13].
Proof.
  induction t as [|c r IH]; [left; reflexivity|].
  cbn [svg_drop_cr]. destruct r as [|c' r'].
  - destruct (c =? 13) eqn:E; [right; apply N.eqb_eq in E; subst; reflexivity | left; reflexivity].
  - destruct IH as [IH|IH]; [left; rewrite IH; reflexivity | right; cbn [app]; rewrite <- IH; reflexivity].
Qed.

Lemma svg_drop_cr_snoc13 t : svg_drop_cr (t ++ [13]) = t.
Proof. rewrite svg_drop_cr_app by discriminate. cbn. apply app_nil_r. Qed.

Lemma svg_strip_nil_cases t : svg_strip_cr t = [] -> t = [] \/ t = [13].
Proof.
  destruct t as [|c r]; [left; reflexivity|]. cbn [svg_strip_cr]. destruct r as [|c' r'].
  - destruct (c =? 13) eqn:E; [intros _; right; apply N.eqb_eq in E; subst; reflexivity | discriminate].
  - discriminate.
Qed.

(* every fragment of a line except the first is non-empty *)
Definition svg_J (cl : list (sstyle * list N)) : Prop :=
  match cl with [] => True | _ :: tl => Forall (fun p => snd p <> []) tl end.

Lemma svg_strip_last_txt : forall cl, svg_J cl -> svg_txt (svg_strip_last cl) = svg_drop_cr (svg_txt cl).
Proof.
  induction cl as [|x r IH]; intros HJ; [reflexivity|].
  cbn [svg_strip_last]. destruct r as [|y r'].
  - unfold svg_txt. cbn. rewrite !app_nil_r. apply svg_strip_is_drop.
  - change (svg_txt (x :: svg_strip_last (y :: r'))) with (snd x ++ svg_txt (svg_strip_last (y :: r'))).
    change (svg_txt (x :: y :: r')) with (snd x ++ svg_txt (y :: r')).
    cbn [svg_J] in HJ. rewrite IH.
    + symmetry. apply svg_drop_cr_app. inversion HJ as [|? ? Hy _]. subst.
      change (svg_txt (y :: r')) with (snd y ++ svg_txt r'). intros E. apply app_eq_nil in E. destruct E. contradiction.
    + cbn [svg_J]. inversion HJ. assumption.
Qed.

(* the specification, run by run: (lines closed so far, current line) *)
Fixpoint svg_part (cur t : list N) : list (list N) * list N :=
  match t with
  | [] => ([], cur)
  | c :: r => if c =? 10 then (svg_drop_cr cur :: fst (svg_part [] r), snd (svg_part [] r)) else svg_part (cur ++ [c]) r
  end.

Lemma svg_part_app : forall a cur b,
  svg_part cur (a ++ b) = (fst (svg_part cur a) ++ fst (svg_part (snd (svg_part cur a)) b), snd (svg_part (snd (svg_part cur a)) b)).
Proof.
  induction a as [|c a IH]; intros cur b.
  - cbn [app svg_part fst snd]. destruct (svg_part cur b); reflexivity.
  - cbn [app svg_part]. destruct (c =? 10).
    + rewrite (IH [] b). reflexivity.
    + apply IH.
Qed.

Lemma svg_split_acc_part : forall t cur, svg_split_acc cur t = fst (svg_part cur t) ++ [snd (svg_part cur t)].
Proof.
  induction t as [|c r IH]; intros cur; [reflexivity|].
  cbn [svg_split_acc svg_part]. destruct (c =? 10).
  - cbn [fst snd app]. rewrite IH. reflexivity.
  - apply IH.
Qed.

Lemma svg_run_loop_spec style : forall next cur cl lines,
  svg_J cl -> (cur <> [] \/ cl = [] \/ next <> []) ->
  map svg_txt (fst (svg_run_loop style next cur cl lines)) = map svg_txt lines ++ fst (svg_part (svg_txt cl ++ cur) next)
  /\ svg_txt (snd (svg_run_loop style next cur cl lines)) = snd (svg_part (svg_txt cl ++ cur) next)
  /\ svg_J (snd (svg_run_loop style next cur cl lines))
  /\ snd (svg_run_loop style next cur cl lines) <> [].
Proof.
  induction next as [|c r IH]; intros cur cl lines HJ HQ.
  - cbn [svg_run_loop svg_part fst snd]. rewrite app_nil_r, svg_txt_app. repeat split.
    + unfold svg_txt at 2. cbn. rewrite app_nil_r. reflexivity.
    + destruct cl as [|x tl]; [cbn; constructor|]. cbn [app svg_J]. cbn [svg_J] in HJ.
      apply Forall_app. split; [exact HJ|]. constructor; [|constructor]. cbn [snd].
      destruct HQ as [HQ|[HQ|HQ]]; [exact HQ | discriminate | contradiction].
    + intros E. apply app_eq_nil in E. destruct E as [_ E]. discriminate.
  - cbn [svg_run_loop svg_part] in *. destruct (c =? 10) eqn:E10.
    + specialize (IH [] [] (lines ++ [(if svg_is_nil cur then svg_strip_last cl else cl) ++ [(style, svg_strip_cr cur)]])
                    I (or_intror (or_introl eq_refl))).
      destruct IH as (A & B & C & D). cbn [svg_txt map List.concat app] in A, B.
      repeat split; [|exact B|exact C|exact D].
      rewrite A. rewrite map_app. cbn [map fst]. rewrite <- app_assoc. cbn [app]. f_equal. f_equal.
      rewrite svg_txt_app. unfold svg_txt at 2. cbn [map snd List.concat]. rewrite app_nil_r.
      destruct cur as [|x cur']; cbn [svg_is_nil].
      * cbn [svg_strip_cr]. rewrite !app_nil_r. apply svg_strip_last_txt, HJ.
      * rewrite svg_strip_is_drop. symmetry. apply svg_drop_cr_app. discriminate.
    + specialize (IH (cur ++ [c]) cl lines HJ).
      rewrite !app_assoc in IH. apply IH. left. intros E. apply app_eq_nil in E. destruct E. discriminate.
Qed.

Lemma svg_split_go_spec : forall styled cl lines,
  Forall (fun p => snd p <> []) styled -> svg_J cl ->
  map svg_txt (svg_split_go styled cl lines)
  = map svg_txt lines ++ fst (svg_part (svg_txt cl) (svg_visible styled))
    ++ (if svg_is_nil cl && svg_is_nil styled then [] else [snd (svg_part (svg_txt cl) (svg_visible styled))]).
Proof.
  induction styled as [|[s t] rest IH]; intros cl lines Hne HJ.
  - cbn [svg_split_go svg_visible map List.concat svg_part fst snd]. destruct cl; cbn [svg_is_nil andb app].
    + rewrite app_nil_r. reflexivity.
    + rewrite map_app. reflexivity.
  - cbn [svg_split_go]. inversion Hne as [|? ? Ht Hrest]. subst. cbn [snd] in Ht.
    change (svg_visible ((s, t) :: rest)) with (t ++ svg_visible rest) in *.
    pose proof (svg_run_loop_spec s t [] cl lines HJ (or_intror (or_intror Ht))) as R.
    rewrite app_nil_r in R. destruct R as (A & B & C & D).
    destruct (svg_run_loop s t [] cl lines) as [lines1 cl1]. cbn [fst snd] in A, B, C, D.
    rewrite (IH cl1 lines1 Hrest C).
    rewrite A, svg_part_app, B. cbn [fst snd]. rewrite <- !app_assoc.
    destruct cl1; [contradiction|]. cbn [svg_is_nil andb]. rewrite andb_false_r. reflexivity.
Qed.

Lemma svg_split_lines_spec styled :
  Forall (fun p => snd p <> []) styled ->
  map svg_txt (svg_split_lines styled) = svg_split_nl_dropping_cr (svg_visible styled).
Proof.
  intros Hne. unfold svg_split_lines.
  rewrite svg_split_go_spec; [|exact Hne|exact I].
  cbn [map app svg_txt List.concat svg_is_nil andb].
  destruct styled as [|[s t] rest]; [reflexivity|].
  cbn [svg_is_nil]. unfold svg_split_nl_dropping_cr.
  inversion Hne as [|? ? Ht _]. subst. cbn [snd] in Ht.
  change (svg_visible ((s, t) :: rest)) with (t ++ svg_visible rest).
  destruct (t ++ svg_visible rest) eqn:E; [apply app_eq_nil in E; destruct E; contradiction|].
  rewrite <- E. symmetry. apply svg_split_acc_part.
Qed.

(* ======================================================================== *)
(* D. the runs of the wincon model: non-empty texts, colours in range         *)

Definition svg_colour_ok (c : colour) : bool :=
  match c with
  | CAnsi a => a <? 16
  | CIdx i => i <? 256
  | CRgb r g b => (r <? 256) && (g <? 256) && (b <? 256)
  end.
Definition svg_ocol_ok (c : option colour) : bool := match c with None => true | Some c => svg_colour_ok c end.
Definition svg_style_ok (s : sstyle) : bool := svg_ocol_ok (s_fg s) && svg_ocol_ok (s_bg s) && svg_ocol_ok (s_ul s).

Lemma svg_style_ok_intro f b u e : svg_ocol_ok f = true -> svg_ocol_ok b = true -> svg_ocol_ok u = true -> svg_style_ok (mkStyle f b u e) = true.
Proof. intros A B C. unfold svg_style_ok. cbn [s_fg s_bg s_ul]. rewrite A, B, C. reflexivity. Qed.

Lemma svg_style_ok_elim s : svg_style_ok s = true -> svg_ocol_ok (s_fg s) = true /\ svg_ocol_ok (s_bg s) = true /\ svg_ocol_ok (s_ul s) = true.
Proof. unfold svg_style_ok. rewrite !andb_true_iff. tauto. Qed.

Lemma svg_ok_set_target t s c : svg_style_ok s = true -> svg_ocol_ok c = true -> svg_style_ok (set_target t s c) = true.
Proof.
  intros Hs Hc. apply svg_style_ok_elim in Hs. destruct Hs as (A & B & C).
  destruct t; cbn [set_target set_fg set_bg set_ulc]; apply svg_style_ok_intro; assumption.
Qed.

Lemma svg_to_ansi_color_ok x c : to_ansi_color x = Some c -> c <= 7.
Proof. unfold to_ansi_color. destruct (x <=? 7) eqn:E; [|discriminate]. intros H. injection H as <-. apply N.leb_le, E. Qed.

Lemma svg_value_step_ok d v d' b :
  svg_style_ok (d_style d) = true -> value_step d v = Some (d', b) -> svg_style_ok (d_style d') = true.
Proof.
  intros Hs H. pose proof (svg_style_ok_elim _ Hs) as (A & B & C). unfold value_step in H.
  destruct (d_state d);
    repeat match type of H with
           | context [if ?c then _ else _] => destruct c eqn:?
           | context [match csub ?a ?b with _ => _ end] => destruct (csub a b) eqn:?
           | context [match to_ansi_color ?a with _ => _ end] => destruct (to_ansi_color a) eqn:?
           | context [match d_r ?d with _ => _ end] => destruct (d_r d) eqn:?
           | context [match d_g ?d with _ => _ end] => destruct (d_g d) eqn:?
           end;
    try discriminate; inversion H; subst; clear H; cbn [d_style set_d];
    try exact Hs; try reflexivity;
    try (unfold st_insert, st_remove; apply svg_style_ok_intro; assumption);
    try (apply (svg_ok_set_target TFg); [exact Hs|]);
    try (apply (svg_ok_set_target TBg); [exact Hs|]);
    try (apply svg_ok_set_target; [exact Hs|]);
    try reflexivity;
    cbn [svg_ocol_ok svg_colour_ok];
    try (match goal with Hc : to_ansi_color _ = Some ?c |- _ => pose proof (svg_to_ansi_color_ok _ _ Hc) end; apply N.ltb_lt; lia);
    rewrite ?andb_true_iff, ?N.ltb_lt; repeat split; apply N.mod_lt; discriminate.
Qed.

Lemma svg_values_loop_ok : forall vs d d', svg_style_ok (d_style d) = true -> values_loop d vs = Some d' -> svg_style_ok (d_style d') = true.
Proof.
  induction vs as [|v rest IH]; intros d d' Hs H; cbn [values_loop] in H.
  - injection H as <-. exact Hs.
  - destruct (value_step d v) as [[d1 brk]|] eqn:E; [|discriminate].
    pose proof (svg_value_step_ok _ _ _ _ Hs E) as H1.
    destruct brk; [injection H as <-; exact H1 | eapply IH; eauto].
Qed.

Lemma svg_params_loop_ok : forall ps d d', svg_style_ok (d_style d) = true -> params_loop d ps = Some d' -> svg_style_ok (d_style d') = true.
Proof.
  induction ps as [|p rest IH]; intros d d' Hs H; cbn [params_loop] in H.
  - injection H as <-. exact Hs.
  - destruct (values_loop d p) as [d1|] eqn:E; [|discriminate].
    pose proof (svg_values_loop_ok _ _ _ Hs E) as H1.
    eapply IH; [|exact H]. destruct (d_state d1); cbn [d_style set_d]; exact H1.
Qed.

Lemma svg_sgr_dispatch_ok s ps s' : svg_style_ok s = true -> sgr_dispatch s ps = Some s' -> svg_style_ok s' = true.
Proof.
  intros Hs H. unfold sgr_dispatch in H.
  destruct (params_loop (mkD s WNormal None None TFg) ps) as [d|] eqn:E; [|discriminate].
  injection H as <-. eapply svg_params_loop_ok; [|exact E]. exact Hs.
Qed.

Definition svg_cap_ok (c : capture) : Prop :=
  svg_style_ok (c_style c) = true /\ match c_ready c with Some s => svg_style_ok s = true | None => True end.

Lemma svg_capture_event_ok c e c' : svg_cap_ok c -> capture_event c e = Some c' -> svg_cap_ok c'.
Proof.
  intros [Hs Hr] H. destruct e; cbn [capture_event] in H;
    try (injection H as <-; split; assumption).
  - destruct (is_ascii_whitespace b); injection H as <-; split; assumption.
  - destruct ign; [injection H as <-; split; assumption|].
    destruct (negb (b =? 109)); [injection H as <-; split; assumption|].
    destruct (negb match ints with [] => true | _ :: _ => false end); [injection H as <-; split; assumption|].
    destruct (sgr_dispatch (c_style c) ps) as [style|] eqn:E; [|discriminate].
    injection H as <-. split; cbn [c_style c_ready].
    + eapply svg_sgr_dispatch_ok; eauto.
    + destruct (negb (style_eqb style (c_style c)) && negb match c_printable c with [] => true | _ :: _ => false end); assumption.
Qed.

Lemma svg_capture_events_ok : forall es c c', svg_cap_ok c -> capture_events c es = Some c' -> svg_cap_ok c'.
Proof.
  induction es as [|e rest IH]; intros c c' Hc H; cbn [capture_events] in H.
  - injection H as <-. exact Hc.
  - destruct (capture_event c e) as [c1|] eqn:E; [|discriminate]. eapply IH; [|exact H]. eapply svg_capture_event_ok; eauto.
Qed.

Lemma svg_wn_loop_ok : forall bs p c bs' p' c', svg_cap_ok c -> wn_loop bs p c = Some (bs', p', c') -> svg_cap_ok c'.
Proof.
  induction bs as [|b rest IH]; intros p c bs' p' c' Hc H.
  - cbn [wn_loop] in H. destruct (c_ready c); injection H as <- <- <-; exact Hc.
  - cbn [wn_loop] in H. destruct (c_ready c) eqn:Er; [injection H as <- <- <-; exact Hc|].
    destruct (advance cfg_default p b) as [[p1 evs]|]; [|discriminate].
    destruct (capture_events c evs) as [c1|] eqn:E; [|discriminate].
    eapply IH; [|exact H]. eapply svg_capture_events_ok; eauto.
Qed.

Lemma svg_wincon_next_ok bs p c item bs' p' c' :
  svg_cap_ok c -> wincon_next bs p c = Some (item, bs', p', c') ->
  svg_cap_ok c' /\ match item with Some it => svg_style_ok (fst it) = true /\ snd it <> [] | None => True end.
Proof.
  intros [Hs Hr] H. unfold wincon_next in H.
  destruct (wn_loop bs p (mkCap (c_style c) (c_printable c) None)) as [[[bs1 p1] c1]|] eqn:E; [|discriminate].
  assert (svg_cap_ok c1) as [Hs1 Hr1] by (eapply svg_wn_loop_ok; [|exact E]; split; [exact Hs | exact I]).
  destruct (c_printable c1) as [|x txt] eqn:Ep.
  - injection H as <- <- <- <-. split; [split; assumption | exact I].
  - injection H as <- <- <- <-. split; [split; assumption|]. cbn [fst snd]. split; [|discriminate].
    destruct (c_ready c1); assumption.
Qed.

Lemma svg_wincon_iter_ok : forall fuel bs p c its p' c',
  svg_cap_ok c -> wincon_iter fuel bs p c = Some (its, p', c') ->
  Forall (fun it => svg_style_ok (fst it) = true /\ snd it <> []) its.
Proof.
  induction fuel as [|f IH]; intros bs p c its p' c' Hc H; [discriminate|].
  cbn [wincon_iter] in H.
  destruct (wincon_next bs p c) as [[[[item bs1] p1] c1]|] eqn:E; [|discriminate].
  destruct (svg_wincon_next_ok _ _ _ _ _ _ _ Hc E) as [Hc1 Hi].
  destruct item as [it|].
  - destruct (wincon_iter f bs1 p1 c1) as [[[its2 p2] c2]|] eqn:E2; [|discriminate].
    injection H as <- <- <-. constructor; [exact Hi | eapply IH; eauto].
  - injection H as <- <- <-. constructor.
Qed.

Lemma svg_extract_next_ok bs its p' c' :
  extract_next bs parser_new capture_default = Some (its, p', c') ->
  Forall (fun it => svg_style_ok (fst it) = true /\ snd it <> []) its.
Proof.
  unfold extract_next. apply svg_wincon_iter_ok. split; [reflexivity | exact I].
Qed.

(* ======================================================================== *)
(* E. the abstract document                                                  *)

Lemma svg_spans_text cls : forall line sp, svg_spans cls line = Some sp -> svg_line_text sp = svg_txt line.
Proof.
  induction line as [|[s t] rest IH]; intros sp H; cbn [svg_spans] in H.
  - injection H as <-. reflexivity.
  - change (svg_txt ((s, t) :: rest)) with (t ++ svg_txt rest).
    destruct t as [|x t']; cbn [svg_is_nil] in H; [cbn [app]; apply IH, H|].
    destruct (cls s) as [cl|]; [|discriminate]. destruct (svg_spans cls rest) as [r|]; [|discriminate].
    injection H as <-. change (svg_line_text ((cl, x :: t') :: r)) with ((x :: t') ++ svg_line_text r).
    rewrite (IH r eq_refl). reflexivity.
Qed.

Lemma svg_lines_of_text : forall lines ls, svg_lines_of lines = Some ls -> map (fun l => svg_line_text (svg_l_fg l)) ls = map svg_txt lines.
Proof.
  induction lines as [|l rest IH]; intros ls H; cbn [svg_lines_of] in H.
  - injection H as <-. reflexivity.
  - destruct (svg_line_of l) as [x|] eqn:E; [|discriminate]. destruct (svg_lines_of rest) as [r|]; [|discriminate].
    injection H as <-. cbn [map]. rewrite (IH r eq_refl). f_equal.
    unfold svg_line_of in E. destruct (svg_spans svg_fg_classes l) as [fg|] eqn:Ef; [|discriminate].
    destruct (svg_has_bg l); [destruct (svg_spans svg_bg_classes l); [|discriminate]|]; injection E as <-; cbn [svg_l_fg];
      eapply svg_spans_text; eauto.
Qed.

(* the pieces of svg_doc *)
Definition svg_inverted (t : svg_term) (runs : list (sstyle * list N)) : list (sstyle * list N) :=
  map (fun p => (svg_invert t (fst p), snd p)) runs.

Lemma svg_doc_parts t input d runs p c :
  extract_next input parser_new capture_default = Some (runs, p, c) -> svg_doc t input = Some d ->
  svg_lines_of (svg_split_lines (svg_inverted t runs)) = Some (svg_d_lines d)
  /\ svg_color_styles (svg_inverted t runs) (svg_t_palette t) [] = Some (svg_d_sheet d)
  /\ svg_d_height d = N.of_nat (length (svg_split_lines (svg_inverted t runs))) * svg_line_height + svg_padding * 2
  /\ svg_rgb_value (svg_t_fg t) (svg_t_palette t) = Some (svg_d_fg d)
  /\ svg_rgb_value (svg_t_bg t) (svg_t_palette t) = Some (svg_d_bg d)
  /\ svg_d_effects d = svg_effects_in_use (svg_inverted t runs)
  /\ svg_d_background d = svg_t_background t.
Proof.
  intros He H. unfold svg_doc, svg_styled in H. rewrite He in H. fold (svg_inverted t runs) in H.
  destruct (svg_rgb_value (svg_t_fg t) (svg_t_palette t)) as [fgc|]; [|discriminate].
  destruct (svg_rgb_value (svg_t_bg t) (svg_t_palette t)) as [bgc|]; [|discriminate].
  destruct (svg_color_styles (svg_inverted t runs) (svg_t_palette t) []) as [sheet|]; [|discriminate].
  destruct (svg_lines_of (svg_split_lines (svg_inverted t runs))) as [lines|]; [|discriminate].
  injection H as <-. cbn. repeat split; reflexivity.
Qed.

Lemma svg_inverted_visible t runs : svg_visible (svg_inverted t runs) = svg_visible runs.
Proof. unfold svg_visible, svg_inverted. rewrite map_map. reflexivity. Qed.

Lemma svg_inverted_nonempty t runs :
  Forall (fun it => svg_style_ok (fst it) = true /\ snd it <> []) runs -> Forall (fun p => snd p <> []) (svg_inverted t runs).
Proof.
  intros H. unfold svg_inverted. apply Forall_map. eapply Forall_impl; [|exact H]. intros a [_ Ha]. exact Ha.
Qed.

Theorem svg_text_preserved t input d runs p c :
  extract_next input parser_new capture_default = Some (runs, p, c) -> svg_doc t input = Some d ->
  map svg_line_text (svg_fg_lines d) = svg_split_nl_dropping_cr (svg_visible runs).
Proof.
  intros He Hd. destruct (svg_doc_parts _ _ _ _ _ _ He Hd) as (Hl & _).
  unfold svg_fg_lines. rewrite map_map. rewrite (svg_lines_of_text _ _ Hl).
  rewrite <- (svg_inverted_visible t runs). apply svg_split_lines_spec.
  apply svg_inverted_nonempty. eapply svg_extract_next_ok; eauto.
Qed.

(* the corner repaired last: a CR, a style change, CR LF keeps the first CR *)
Lemma svg_text_two_cr_example :
  exists d, svg_doc svg_term_new [97; 13; 27; 91; 51; 49; 109; 13; 10; 98] = Some d /\
    map svg_line_text (svg_fg_lines d) = [[97; 13]; [98]].
Proof. eexists. split; vm_compute; reflexivity. Qed.

Lemma svg_lines_of_length : forall lines ls, svg_lines_of lines = Some ls -> length ls = length lines.
Proof.
  induction lines as [|l rest IH]; intros ls H; cbn [svg_lines_of] in H.
  - injection H as <-. reflexivity.
  - destruct (svg_line_of l); [|discriminate]. destruct (svg_lines_of rest) as [r|]; [|discriminate].
    injection H as <-. cbn [length]. rewrite (IH r eq_refl). reflexivity.
Qed.

Theorem svg_height_counts_lines t input d runs p c :
  extract_next input parser_new capture_default = Some (runs, p, c) -> svg_doc t input = Some d ->
  svg_d_height d = N.of_nat (length (svg_d_lines d)) * svg_line_height + svg_padding * 2
  /\ length (svg_d_lines d) = length (svg_split_nl_dropping_cr (svg_visible runs)).
Proof.
  intros He Hd. destruct (svg_doc_parts _ _ _ _ _ _ He Hd) as (Hl & _ & Hh & _). split.
  - rewrite Hh, (svg_lines_of_length _ _ Hl). reflexivity.
  - rewrite <- (svg_text_preserved _ _ _ _ _ _ He Hd). unfold svg_fg_lines. rewrite !map_length. reflexivity.
Qed.

(* ---- where a fragment comes from ------------------------------------------ *)

Definition svg_sub (frag t0 : list N) : Prop := exists pre post, t0 = pre ++ frag ++ post.
Definition svg_from (styled : list (sstyle * list N)) (f : sstyle * list N) : Prop :=
  exists t0, In (fst f, t0) styled /\ svg_sub (snd f) t0.

Lemma svg_strip_prefix t : exists x, t = svg_strip_cr t ++ x.
Proof.
  rewrite svg_strip_is_drop. destruct (svg_drop_cr_cases t) as [H|H].
  - exists []. rewrite H, app_nil_r. reflexivity.
  - exists [13]. exact H.
Qed.

Lemma svg_sub_strip f t0 : svg_sub f t0 -> svg_sub (svg_strip_cr f) t0.
Proof.
  intros (pre & post & ->). destruct (svg_strip_prefix f) as [x Hx].
  exists pre, (x ++ post). rewrite Hx at 1. rewrite <- app_assoc. reflexivity.
Qed.

Lemma svg_strip_last_from styled : forall cl, Forall (svg_from styled) cl -> Forall (svg_from styled) (svg_strip_last cl).
Proof.
  induction cl as [|x r IH]; intros H; [constructor|].
  inversion H as [|? ? Hx Hr]. subst. cbn [svg_strip_last]. destruct r as [|y r'].
  - constructor; [|constructor]. destruct Hx as (t0 & Hin & Hs). exists t0. split; [exact Hin | apply svg_sub_strip, Hs].
  - constructor; [exact Hx | apply IH, Hr].
Qed.

Lemma svg_run_loop_from styled style : forall next cur cl lines pre,
  In (style, pre ++ cur ++ next) styled -> Forall (svg_from styled) cl -> Forall (Forall (svg_from styled)) lines ->
  Forall (Forall (svg_from styled)) (fst (svg_run_loop style next cur cl lines))
  /\ Forall (svg_from styled) (snd (svg_run_loop style next cur cl lines)).
Proof.
  induction next as [|c r IH]; intros cur cl lines pre Hin Hcl Hl.
  - cbn [svg_run_loop fst snd]. split; [exact Hl|]. apply Forall_app. split; [exact Hcl|].
    constructor; [|constructor]. exists (pre ++ cur ++ []). split; [exact Hin|]. exists pre, []. reflexivity.
  - cbn [svg_run_loop]. destruct (c =? 10) eqn:E.
    + apply N.eqb_eq in E. subst c. apply (IH [] [] _ (pre ++ cur ++ [10])).
      * rewrite <- !app_assoc. exact Hin.
      * constructor.
      * apply Forall_app. split; [exact Hl|]. constructor; [|constructor].
        apply Forall_app. split.
        -- destruct (svg_is_nil cur); [apply svg_strip_last_from|]; exact Hcl.
        -- constructor; [|constructor]. exists (pre ++ cur ++ 10 :: r). split; [exact Hin|].
           apply svg_sub_strip. exists pre, (10 :: r). reflexivity.
    + apply (IH (cur ++ [c]) cl lines pre); [|exact Hcl|exact Hl]. rewrite <- app_assoc. exact Hin.
Qed.

Lemma svg_split_go_from styled : forall rem cl lines,
  incl rem styled -> Forall (svg_from styled) cl -> Forall (Forall (svg_from styled)) lines ->
  Forall (Forall (svg_from styled)) (svg_split_go rem cl lines).
Proof.
  induction rem as [|[s t] rest IH]; intros cl lines Hinc Hcl Hl.
  - cbn [svg_split_go]. destruct (svg_is_nil cl); [exact Hl|]. apply Forall_app. split; [exact Hl|]. constructor; [exact Hcl|constructor].
  - cbn [svg_split_go].
    assert (In (s, [] ++ [] ++ t) styled) as Hin by (apply Hinc; left; reflexivity).
    destruct (svg_run_loop_from styled s t [] cl lines [] Hin Hcl Hl) as [A B].
    destruct (svg_run_loop s t [] cl lines) as [lines1 cl1]. cbn [fst snd] in A, B.
    apply IH; [|exact B|exact A]. intros x Hx. apply Hinc. right. exact Hx.
Qed.

Lemma svg_split_lines_from styled : Forall (Forall (svg_from styled)) (svg_split_lines styled).
Proof. apply svg_split_go_from; [apply incl_refl | constructor | constructor]. Qed.

Lemma svg_spans_from cls : forall line sp, svg_spans cls line = Some sp ->
  Forall (fun span => snd span <> [] /\ exists s, In (s, snd span) line /\ cls s = Some (fst span)) sp.
Proof.
  induction line as [|[s t] rest IH]; intros sp H; cbn [svg_spans] in H.
  - injection H as <-. constructor.
  - destruct t as [|x t']; cbn [svg_is_nil] in H.
    + eapply Forall_impl; [|apply IH, H]. intros a (A & s' & Hin & Hc). split; [exact A|]. exists s'. split; [right; exact Hin | exact Hc].
    + destruct (cls s) as [cl|] eqn:Ec; [|discriminate]. destruct (svg_spans cls rest) as [r|]; [|discriminate].
      injection H as <-. constructor.
      * cbn [fst snd]. split; [discriminate|]. exists s. split; [left; reflexivity | exact Ec].
      * eapply Forall_impl; [|apply IH; reflexivity]. intros a (A & s' & Hin & Hc). split; [exact A|]. exists s'. split; [right; exact Hin | exact Hc].
Qed.

Lemma svg_lines_of_spans : forall lines ls, svg_lines_of lines = Some ls ->
  forall l, In l ls -> exists line, In line lines /\ svg_spans svg_fg_classes line = Some (svg_l_fg l)
    /\ match svg_l_bg l with Some bg => svg_spans svg_bg_classes line = Some bg | None => True end.
Proof.
  induction lines as [|x rest IH]; intros ls H l Hl; cbn [svg_lines_of] in H.
  - injection H as <-. destruct Hl.
  - destruct (svg_line_of x) as [y|] eqn:E; [|discriminate]. destruct (svg_lines_of rest) as [r|]; [|discriminate].
    injection H as <-. destruct Hl as [<-|Hl].
    + exists x. split; [left; reflexivity|]. unfold svg_line_of in E.
      destruct (svg_spans svg_fg_classes x) as [fg|]; [|discriminate].
      destruct (svg_has_bg x); [destruct (svg_spans svg_bg_classes x) as [bg|] eqn:Eb; [|discriminate]|];
        injection E as <-; cbn [svg_l_fg svg_l_bg]; auto.
    + destruct (IH r eq_refl l Hl) as (line & A & B). exists line. split; [right; exact A | exact B].
Qed.

(* ---- the image of a style --------------------------------------------------- *)

Definition svg_name_of (prefix : list N) (c : colour) : list N :=
  match svg_color_name prefix c with Some n => n | None => [] end.
Definition svg_tuple (s : sstyle) : option colour * option colour * option colour * N := (s_fg s, s_bg s, s_ul s, s_eff s).

(* the style the renderer draws a run with: INVERT swapped against the defaults *)
Definition svg_drawn (t : svg_term) (s : sstyle) : option colour * option colour * option colour * N :=
  svg_spec_invert colour eff_invert (svg_t_fg t) (svg_t_bg t) (svg_tuple s).

Lemma svg_invert_image t s : svg_tuple (svg_invert t s) = svg_drawn t s.
Proof.
  unfold svg_drawn, svg_tuple, svg_invert, svg_spec_invert, svg_has_effect, svg_contains.
  destruct (N.land (s_eff s) eff_invert =? eff_invert); reflexivity.
Qed.

Lemma svg_fg_classes_image s cl :
  svg_fg_classes s = Some cl ->
  cl = svg_spec_classes colour (svg_name_of svg_fg_prefix) (svg_name_of svg_underline_prefix) svg_effect_classes (svg_tuple s).
Proof.
  unfold svg_fg_classes, svg_opt_class, svg_spec_classes, svg_tuple, svg_name_of. intros H.
  destruct (s_fg s) as [f|]; [destruct (svg_color_name svg_fg_prefix f); [|discriminate]|];
    (destruct (s_ul s) as [u|]; [destruct (svg_color_name svg_underline_prefix u); [|discriminate]|]);
    injection H as <-; reflexivity.
Qed.

Lemma svg_bg_classes_image s cl :
  svg_bg_classes s = Some cl ->
  cl = match s_bg s with Some c => [svg_name_of svg_bg_prefix c] | None => [] end.
Proof.
  unfold svg_bg_classes, svg_opt_class, svg_name_of. intros H.
  destruct (s_bg s) as [b|]; [destruct (svg_color_name svg_bg_prefix b); [|discriminate]|]; injection H as <-; reflexivity.
Qed.

Lemma svg_inverted_in t runs s x : In (s, x) (svg_inverted t runs) -> exists s0, In (s0, x) runs /\ s = svg_invert t s0.
Proof.
  unfold svg_inverted. rewrite in_map_iff. intros ([s0 x0] & E & Hin). cbn [fst snd] in E. injection E as <- <-.
  exists s0. split; [exact Hin | reflexivity].
Qed.

(* a span of the document: which run it shows, and with which style *)
Lemma svg_span_origin t input d runs p c :
  extract_next input parser_new capture_default = Some (runs, p, c) -> svg_doc t input = Some d ->
  forall l, In l (svg_d_lines d) ->
  (forall span, In span (svg_l_fg l) ->
     snd span <> [] /\ exists s0 t0, In (s0, t0) runs /\ svg_sub (snd span) t0 /\ svg_fg_classes (svg_invert t s0) = Some (fst span))
  /\ (forall bg span, svg_l_bg l = Some bg -> In span bg ->
     snd span <> [] /\ exists s0 t0, In (s0, t0) runs /\ svg_sub (snd span) t0 /\ svg_bg_classes (svg_invert t s0) = Some (fst span)).
Proof.
  intros He Hd l Hl. destruct (svg_doc_parts _ _ _ _ _ _ He Hd) as (Hlines & _).
  destruct (svg_lines_of_spans _ _ Hlines l Hl) as (line & Hline & Hfg & Hbg).
  pose proof (svg_split_lines_from (svg_inverted t runs)) as Hfrom. rewrite Forall_forall in Hfrom.
  specialize (Hfrom line Hline). rewrite Forall_forall in Hfrom.
  assert (forall cls sp span, svg_spans cls line = Some sp -> In span sp ->
            snd span <> [] /\ exists s0 t0, In (s0, t0) runs /\ svg_sub (snd span) t0 /\ cls (svg_invert t s0) = Some (fst span)) as K.
  { intros cls sp span Hsp Hin. pose proof (svg_spans_from cls line sp Hsp) as F. rewrite Forall_forall in F.
    destruct (F span Hin) as (Hne & s & Hs & Hc). split; [exact Hne|].
    destruct (Hfrom (s, snd span) Hs) as (t0 & Hin0 & Hsub). cbn [fst snd] in Hin0, Hsub.
    destruct (svg_inverted_in _ _ _ _ Hin0) as (s0 & Hr & ->). exists s0, t0. auto. }
  split.
  - intros span Hin. eapply K; eauto.
  - intros bg span Eb Hin. rewrite Eb in Hbg. eapply K; eauto.
Qed.

Theorem svg_classes_denote_style t input d runs p c :
  extract_next input parser_new capture_default = Some (runs, p, c) -> svg_doc t input = Some d ->
  forall l, In l (svg_d_lines d) ->
  (forall span, In span (svg_l_fg l) ->
     exists s0 t0, In (s0, t0) runs /\ svg_sub (snd span) t0 /\ snd span <> [] /\
       fst span = svg_spec_classes colour (svg_name_of svg_fg_prefix) (svg_name_of svg_underline_prefix) svg_effect_classes (svg_drawn t s0))
  /\ (forall bg span, svg_l_bg l = Some bg -> In span bg ->
     exists s0 t0, In (s0, t0) runs /\ svg_sub (snd span) t0 /\ snd span <> [] /\
       fst span = match snd (fst (fst (svg_drawn t s0))) with Some col => [svg_name_of svg_bg_prefix col] | None => [] end).
Proof.
  intros He Hd l Hl. destruct (svg_span_origin _ _ _ _ _ _ He Hd l Hl) as [F B]. split.
  - intros span Hin. destruct (F span Hin) as (Hne & s0 & t0 & Hr & Hs & Hc). exists s0, t0. repeat split; auto.
    rewrite <- svg_invert_image. apply svg_fg_classes_image, Hc.
  - intros bg span Eb Hin. destruct (B bg span Eb Hin) as (Hne & s0 & t0 & Hr & Hs & Hc). exists s0, t0. repeat split; auto.
    rewrite <- svg_invert_image. apply svg_bg_classes_image, Hc.
Qed.

(* ======================================================================== *)
(* F. class names are injective; the colour sheet                            *)

Fixpoint svg_list_eqb (a b : list N) : bool :=
  match a, b with
  | [], [] => true
  | x :: a', y :: b' => (x =? y) && svg_list_eqb a' b'
  | _, _ => false
  end.

Lemma svg_list_eqb_refl : forall a, svg_list_eqb a a = true.
Proof. induction a as [|x a IH]; [reflexivity|]. cbn [svg_list_eqb]. rewrite N.eqb_refl, IH. reflexivity. Qed.

Lemma svg_inj_bytes (f : N -> list N) :
  forallb (fun i => forallb (fun j => implb (svg_list_eqb (f i) (f j)) (i =? j)) all_bytes) all_bytes = true ->
  forall i j, i < 256 -> j < 256 -> f i = f j -> i = j.
Proof.
  intros H i j Hi Hj E. pose proof (forall_bytes _ H i Hi) as H1. cbv beta in H1.
  pose proof (forall_bytes _ H1 j Hj) as H2. cbv beta in H2. rewrite E, svg_list_eqb_refl in H2.
  apply N.eqb_eq. exact H2.
Qed.

Lemma svg_dec3_inj : forall i j, i < 256 -> j < 256 -> svg_dec3 i = svg_dec3 j -> i = j.
Proof. apply svg_inj_bytes. vm_compute. reflexivity. Qed.

Lemma svg_hex2_inj : forall i j, i < 256 -> j < 256 -> svg_hex2 i = svg_hex2 j -> i = j.
Proof. apply svg_inj_bytes. vm_compute. reflexivity. Qed.

(* what follows `<prefix>-` *)
Definition svg_ansi_name (a : N) : option (list N) := index <- from_ansi a ;; aget svg_ansi_names index.
Definition svg_name_rest (c : colour) : option (list N) :=
  match c with
  | CAnsi a => svg_ansi_name a
  | CIdx i => Some ([97; 110; 115; 105; 50; 53; 54; 45] ++ svg_dec3 i)
  | CRgb r g b => Some ([114; 103; 98; 45] ++ svg_hex2 r ++ svg_hex2 g ++ svg_hex2 b)
  end.

Lemma svg_color_name_shape p c k : svg_color_name p c = Some k -> exists rest, k = p ++ 45 :: rest /\ svg_name_rest c = Some rest.
Proof.
  destruct c as [a|i|r g b]; cbn [svg_color_name svg_name_rest]; intros H.
  - unfold svg_ansi_name. destruct (from_ansi a) as [ix|]; [|discriminate]. destruct (aget svg_ansi_names ix) as [nm|]; [|discriminate].
    injection H as <-. exists nm. split; reflexivity.
  - injection H as <-. eexists. split; reflexivity.
  - injection H as <-. eexists. split; reflexivity.
Qed.

Definition svg_ansi16 : list N := range_from 0 16.

Lemma svg_ansi16_In a : a < 16 -> In a svg_ansi16.
Proof. intros H. apply range_from_In. cbn. lia. Qed.

Definition svg_opt_list_eqb (a b : option (list N)) : bool :=
  match a, b with Some x, Some y => svg_list_eqb x y | _, _ => false end.

Lemma svg_ansi_name_inj a b n : a < 16 -> b < 16 -> svg_ansi_name a = Some n -> svg_ansi_name b = Some n -> a = b.
Proof.
  intros Ha Hb Ea Eb.
  assert (forallb (fun i => forallb (fun j => implb (svg_opt_list_eqb (svg_ansi_name i) (svg_ansi_name j)) (i =? j)) svg_ansi16) svg_ansi16 = true) as H
    by (vm_compute; reflexivity).
  rewrite forallb_forall in H. specialize (H a (svg_ansi16_In a Ha)). cbv beta in H.
  rewrite forallb_forall in H. specialize (H b (svg_ansi16_In b Hb)). cbv beta in H.
  rewrite Ea, Eb in H. cbn [svg_opt_list_eqb] in H. rewrite svg_list_eqb_refl in H. apply N.eqb_eq. exact H.
Qed.

Lemma svg_starts_app : forall p x, svg_starts p (p ++ x) = true.
Proof. induction p as [|c p IH]; intros x; [reflexivity|]. cbn [app svg_starts]. rewrite N.eqb_refl, IH. reflexivity. Qed.

Lemma svg_ansi_name_not_other a n : a < 16 -> svg_ansi_name a = Some n ->
  svg_starts [97; 110; 115; 105; 50; 53; 54; 45] n = false /\ svg_starts [114; 103; 98; 45] n = false.
Proof.
  intros Ha E.
  assert (forallb (fun i => match svg_ansi_name i with
                           | Some n => negb (svg_starts [97; 110; 115; 105; 50; 53; 54; 45] n) && negb (svg_starts [114; 103; 98; 45] n)
                           | None => true end) svg_ansi16 = true) as H by (vm_compute; reflexivity).
  rewrite forallb_forall in H. specialize (H a (svg_ansi16_In a Ha)). cbv beta in H. rewrite E in H.
  apply andb_true_iff in H. destruct H as [A B]. apply negb_true_iff in A, B. auto.
Qed.

Lemma svg_name_rest_inj c c' rest :
  svg_colour_ok c = true -> svg_colour_ok c' = true -> svg_name_rest c = Some rest -> svg_name_rest c' = Some rest -> c = c'.
Proof.
  intros Hc Hc' E E'.
  destruct c as [a|i|r g b], c' as [a'|i'|r' g' b']; cbn [svg_name_rest svg_colour_ok] in *.
  - apply N.ltb_lt in Hc, Hc'. f_equal. eapply svg_ansi_name_inj; eauto.
  - apply N.ltb_lt in Hc. destruct (svg_ansi_name_not_other a rest Hc E) as [A _]. injection E' as <-. cbn in A. discriminate.
  - apply N.ltb_lt in Hc. destruct (svg_ansi_name_not_other a rest Hc E) as [_ B]. injection E' as <-. cbn in B. discriminate.
  - apply N.ltb_lt in Hc'. destruct (svg_ansi_name_not_other a' rest Hc' E') as [A _]. injection E as <-. cbn in A. discriminate.
  - apply N.ltb_lt in Hc, Hc'. injection E as <-. cbn [app] in E'.
    remember (svg_dec3 i) as x eqn:Ex. remember (svg_dec3 i') as x' eqn:Ex'. injection E' as E'. subst x x'.
    f_equal. symmetry. apply svg_dec3_inj; assumption.
  - injection E as <-. cbn [app] in E'. discriminate.
  - apply N.ltb_lt in Hc'. destruct (svg_ansi_name_not_other a' rest Hc' E') as [_ B]. injection E as <-. cbn in B. discriminate.
  - injection E as <-. cbn [app] in E'. discriminate.
  - rewrite !andb_true_iff, !N.ltb_lt in Hc, Hc'. destruct Hc as [[Hr Hg] Hb], Hc' as [[Hr' Hg'] Hb'].
    injection E as <-. unfold svg_hex2 in E'. cbn [app] in E'.
    injection E' as E1 E2 E3 E4 E5 E6.
    assert (svg_hex2 r' = svg_hex2 r) as Er by (unfold svg_hex2; rewrite E1, E2; reflexivity).
    assert (svg_hex2 g' = svg_hex2 g) as Eg by (unfold svg_hex2; rewrite E3, E4; reflexivity).
    assert (svg_hex2 b' = svg_hex2 b) as Eb by (unfold svg_hex2; rewrite E5, E6; reflexivity).
    apply svg_hex2_inj in Er, Eg, Eb; try assumption. subst. reflexivity.
Qed.

Definition svg_prefixes : list (list N) := [svg_fg_prefix; svg_bg_prefix; svg_underline_prefix].

Lemma svg_color_name_inj p p' c c' k :
  In p svg_prefixes -> In p' svg_prefixes -> svg_colour_ok c = true -> svg_colour_ok c' = true ->
  svg_color_name p c = Some k -> svg_color_name p' c' = Some k -> p = p' /\ c = c'.
Proof.
  intros Hp Hp' Hc Hc' E E'.
  destruct (svg_color_name_shape _ _ _ E) as (rest & -> & R).
  destruct (svg_color_name_shape _ _ _ E') as (rest' & K & R').
  assert (p = p' /\ rest = rest') as [-> ->].
  { cbn [svg_prefixes In] in Hp, Hp'.
    destruct Hp as [<-|[<-|[<-|[]]]], Hp' as [<-|[<-|[<-|[]]]];
      first [ apply app_inv_head in K; injection K as ->; split; reflexivity | cbn in K; discriminate ]. }
  split; [reflexivity|]. eapply svg_name_rest_inj; eauto.
Qed.

(* ---- the BTreeMap --------------------------------------------------------- *)

Lemma svg_cmp_eq : forall a b, svg_cmp a b = Eq -> a = b.
Proof.
  induction a as [|x a IH]; intros [|y b] H; cbn [svg_cmp] in H; try discriminate; [reflexivity|].
  destruct (x ?= y) eqn:E; try discriminate. apply N.compare_eq in E. subst. f_equal. apply IH, H.
Qed.

Lemma svg_insert_in k v : forall m, In (k, v) (svg_map_insert k v m).
Proof.
  induction m as [|[k' v'] r IH]; cbn [svg_map_insert]; [left; reflexivity|].
  destruct (svg_cmp k k'); [left; reflexivity | left; reflexivity | right; exact IH].
Qed.

Lemma svg_insert_sub k v : forall m e, In e (svg_map_insert k v m) -> e = (k, v) \/ In e m.
Proof.
  induction m as [|[k' v'] r IH]; intros e H; cbn [svg_map_insert] in H.
  - destruct H as [<-|[]]. left. reflexivity.
  - destruct (svg_cmp k k').
    + destruct H as [<-|H]; [left; reflexivity | right; right; exact H].
    + destruct H as [<-|H]; [left; reflexivity | right; exact H].
    + destruct H as [<-|H]; [right; left; reflexivity|]. destruct (IH e H) as [->|H1]; [left; reflexivity | right; right; exact H1].
Qed.

Definition svg_good (pal : list rgb) (kv : list N * list N) : Prop :=
  exists p c, In p svg_prefixes /\ svg_colour_ok c = true /\ svg_color_name p c = Some (fst kv) /\ svg_rgb_value c pal = Some (snd kv).

Lemma svg_good_unique pal k v v' : svg_good pal (k, v) -> svg_good pal (k, v') -> v = v'.
Proof.
  intros (p & c & Hp & Hc & En & Ev) (p' & c' & Hp' & Hc' & En' & Ev'). cbn [fst snd] in *.
  destruct (svg_color_name_inj _ _ _ _ _ Hp Hp' Hc Hc' En En') as [_ <-]. rewrite Ev in Ev'. injection Ev' as <-. reflexivity.
Qed.

Lemma svg_insert_keeps pal k v : svg_good pal (k, v) ->
  forall m, Forall (svg_good pal) m -> forall e, In e m -> In e (svg_map_insert k v m).
Proof.
  intros Hg. induction m as [|[k' v'] r IH]; intros Hm e He; [destruct He|].
  inversion Hm as [|? ? Hh Hr]. subst. cbn [svg_map_insert]. destruct (svg_cmp k k') eqn:E.
  - apply svg_cmp_eq in E. subst k'. destruct He as [<-|He]; [|right; exact He].
    left. f_equal. eapply svg_good_unique; eauto.
  - right. exact He.
  - destruct He as [<-|He]; [left; reflexivity | right; apply IH; assumption].
Qed.

Lemma svg_insert_good pal k v m : svg_good pal (k, v) -> Forall (svg_good pal) m -> Forall (svg_good pal) (svg_map_insert k v m).
Proof.
  intros Hg Hm. apply Forall_forall. intros e He. destruct (svg_insert_sub _ _ _ _ He) as [->|H]; [exact Hg|].
  rewrite Forall_forall in Hm. apply Hm, H.
Qed.

Lemma svg_insert_colour_spec pal p c m m' :
  In p svg_prefixes -> svg_ocol_ok c = true -> Forall (svg_good pal) m -> svg_insert_colour pal p c m = Some m' ->
  Forall (svg_good pal) m' /\ (forall e, In e m -> In e m')
  /\ match c with Some col => exists k v, svg_color_name p col = Some k /\ svg_rgb_value col pal = Some v /\ In (k, v) m' | None => True end.
Proof.
  intros Hp Hc Hm H. unfold svg_insert_colour in H. destruct c as [col|]; [|injection H as <-; auto].
  destruct (svg_color_name p col) as [k|] eqn:Ek; [|discriminate].
  destruct (svg_rgb_value col pal) as [v|] eqn:Ev; [|discriminate]. injection H as <-.
  assert (svg_good pal (k, v)) as Hg by (exists p, col; auto).
  split; [apply svg_insert_good; assumption|]. split; [apply (svg_insert_keeps pal); assumption|].
  exists k, v. split; [reflexivity|]. split; [reflexivity|]. apply svg_insert_in.
Qed.

Lemma svg_color_styles_spec pal : forall styled m m',
  Forall (fun p => svg_style_ok (fst p) = true) styled -> Forall (svg_good pal) m -> svg_color_styles styled pal m = Some m' ->
  Forall (svg_good pal) m' /\ (forall e, In e m -> In e m')
  /\ (forall s x, In (s, x) styled -> forall p col,
        In (p, Some col) [(svg_fg_prefix, s_fg s); (svg_bg_prefix, s_bg s); (svg_underline_prefix, s_ul s)] ->
        exists k v, svg_color_name p col = Some k /\ svg_rgb_value col pal = Some v /\ In (k, v) m').
Proof.
  induction styled as [|[s x] rest IH]; intros m m' Hs Hm H; cbn [svg_color_styles] in H.
  - injection H as <-. split; [exact Hm|]. split; [auto|]. intros ? ? [].
  - inversion Hs as [|? ? Hs1 Hsr]. subst. cbn [fst] in Hs1. apply svg_style_ok_elim in Hs1. destruct Hs1 as (Of & Ob & Ou).
    destruct (svg_insert_colour pal svg_fg_prefix (s_fg s) m) as [m1|] eqn:E1; [|discriminate].
    destruct (svg_insert_colour pal svg_bg_prefix (s_bg s) m1) as [m2|] eqn:E2; [|discriminate].
    destruct (svg_insert_colour pal svg_underline_prefix (s_ul s) m2) as [m3|] eqn:E3; [|discriminate].
    destruct (svg_insert_colour_spec pal svg_fg_prefix _ _ _ ltac:(cbn; auto) Of Hm E1) as (G1 & K1 & P1).
    destruct (svg_insert_colour_spec pal svg_bg_prefix _ _ _ ltac:(cbn; auto) Ob G1 E2) as (G2 & K2 & P2).
    destruct (svg_insert_colour_spec pal svg_underline_prefix _ _ _ ltac:(cbn; auto) Ou G2 E3) as (G3 & K3 & P3).
    destruct (IH m3 m' Hsr G3 H) as (G & K & P).
    split; [exact G|]. split; [auto|].
    intros s' x' [E|Hin] p col Hpc; [|eapply P; eauto].
    injection E as <- <-. cbn [In] in Hpc. destruct Hpc as [E|[E|[E|[]]]]; injection E as <- E.
    + rewrite E in P1. destruct P1 as (k & v & A & B & C). exists k, v. split; [exact A|]. split; [exact B|]. apply K, K3, K2, C.
    + rewrite E in P2. destruct P2 as (k & v & A & B & C). exists k, v. split; [exact A|]. split; [exact B|]. apply K, K3, C.
    + rewrite E in P3. destruct P3 as (k & v & A & B & C). exists k, v. split; [exact A|]. split; [exact B|]. apply K, C.
Qed.

Lemma svg_invert_ok t s :
  svg_colour_ok (svg_t_fg t) = true -> svg_colour_ok (svg_t_bg t) = true -> svg_style_ok s = true -> svg_style_ok (svg_invert t s) = true.
Proof.
  intros Hf Hb Hs. apply svg_style_ok_elim in Hs. destruct Hs as (A & B & C). unfold svg_invert.
  destruct (svg_contains (s_eff s) eff_invert); [|unfold svg_style_ok; rewrite A, B, C; reflexivity].
  apply svg_style_ok_intro; [destruct (s_bg s); assumption | destruct (s_fg s); assumption | assumption].
Qed.

Definition svg_is_colour_class (cls : list N) : bool := existsb (fun p => svg_starts (p ++ [45]) cls) svg_prefixes.

Lemma svg_effect_class_not_colour cls : In cls (map snd svg_effect_classes) -> svg_is_colour_class cls = false.
Proof.
  intros H. assert (forallb (fun c => negb (svg_is_colour_class c)) (map snd svg_effect_classes) = true) as K by (vm_compute; reflexivity).
  rewrite forallb_forall in K. apply negb_true_iff, K, H.
Qed.

Lemma svg_fg_classes_mem s cl cls : svg_fg_classes s = Some cl -> In cls cl ->
  (exists f, s_fg s = Some f /\ svg_color_name svg_fg_prefix f = Some cls)
  \/ (exists u, s_ul s = Some u /\ svg_color_name svg_underline_prefix u = Some cls)
  \/ In cls (map snd svg_effect_classes).
Proof.
  unfold svg_fg_classes. remember (filter (fun p => svg_contains (s_eff s) (fst p)) svg_effect_classes) as fl eqn:Efl. intros H Hin.
  destruct (svg_opt_class svg_fg_prefix (s_fg s)) as [fgc|] eqn:Ef; [|discriminate].
  destruct (svg_opt_class svg_underline_prefix (s_ul s)) as [ulc|] eqn:Eu; [|discriminate].
  injection H as <-. apply in_app_or in Hin. destruct Hin as [Hin|Hin].
  - left. unfold svg_opt_class in Ef. destruct (s_fg s) as [f|]; [|injection Ef as <-; destruct Hin].
    destruct (svg_color_name svg_fg_prefix f) as [n|] eqn:En; [|discriminate]. injection Ef as <-.
    destruct Hin as [<-|[]]. exists f. auto.
  - apply in_app_or in Hin. destruct Hin as [Hin|Hin].
    + right. left. unfold svg_opt_class in Eu. destruct (s_ul s) as [u|]; [|injection Eu as <-; destruct Hin].
      destruct (svg_color_name svg_underline_prefix u) as [n|] eqn:En; [|discriminate]. injection Eu as <-.
      destruct Hin as [<-|[]]. exists u. auto.
    + right. right. apply in_map_iff in Hin. destruct Hin as (q & Eq & Hq). apply in_map_iff. exists q. split; [exact Eq|].
      subst fl. apply filter_In in Hq. apply Hq.
Qed.

Theorem svg_classes_defined t input d runs p c :
  svg_colour_ok (svg_t_fg t) = true -> svg_colour_ok (svg_t_bg t) = true ->
  extract_next input parser_new capture_default = Some (runs, p, c) -> svg_doc t input = Some d ->
  forall l span, In l (svg_d_lines d) ->
  (In span (svg_l_fg l) \/ exists bg, svg_l_bg l = Some bg /\ In span bg) ->
  forall cls, In cls (fst span) -> svg_is_colour_class cls = true ->
  exists prefix col v,
    In prefix svg_prefixes /\ svg_color_name prefix col = Some cls
    /\ color_to_rgb (svg_to_color col) (svg_t_palette t) = Some v
    /\ In (cls, svg_rgb_hex v) (svg_d_sheet d)
    /\ forall v', In (cls, v') (svg_d_sheet d) -> v' = svg_rgb_hex v.
Proof.
  intros Hdf Hdb He Hd l span Hl Hspan cls Hcls Hcol.
  destruct (svg_doc_parts _ _ _ _ _ _ He Hd) as (_ & Hsheet & _).
  pose proof (svg_extract_next_ok _ _ _ _ He) as Hruns.
  assert (Forall (fun q => svg_style_ok (fst q) = true) (svg_inverted t runs)) as Hinv.
  { unfold svg_inverted. apply Forall_map. eapply Forall_impl; [|exact Hruns]. intros a [Ha _]. cbn [fst]. apply svg_invert_ok; assumption. }
  destruct (svg_color_styles_spec _ _ _ _ Hinv (Forall_nil _) Hsheet) as (G & _ & P).
  destruct (svg_span_origin _ _ _ _ _ _ He Hd l Hl) as [F B].
  assert (forall s0 t0 prefix col, In (s0, t0) runs ->
            In (prefix, Some col) [(svg_fg_prefix, s_fg (svg_invert t s0)); (svg_bg_prefix, s_bg (svg_invert t s0)); (svg_underline_prefix, s_ul (svg_invert t s0))] ->
            svg_color_name prefix col = Some cls ->
            exists prefix col v, In prefix svg_prefixes /\ svg_color_name prefix col = Some cls
              /\ color_to_rgb (svg_to_color col) (svg_t_palette t) = Some v /\ In (cls, svg_rgb_hex v) (svg_d_sheet d)
              /\ forall v', In (cls, v') (svg_d_sheet d) -> v' = svg_rgb_hex v) as Main.
  { intros s0 t0 prefix col Hr Hslot Hname.
    assert (In (svg_invert t s0, t0) (svg_inverted t runs)) as Hi.
    { unfold svg_inverted. apply in_map_iff. exists (s0, t0). split; [reflexivity | exact Hr]. }
    destruct (P _ _ Hi prefix col Hslot) as (k & v' & A & Bv & C). rewrite Hname in A. injection A as <-.
    unfold svg_rgb_value in Bv. destruct (color_to_rgb (svg_to_color col) (svg_t_palette t)) as [v|] eqn:Ev; [|discriminate].
    injection Bv as <-. exists prefix, col, v.
    assert (In prefix svg_prefixes) as Hpre.
    { cbn [In] in Hslot. destruct Hslot as [E|[E|[E|[]]]]; injection E as <- _; cbn; auto. }
    repeat split; auto.
    intros v' Hv'. rewrite Forall_forall in G. eapply svg_good_unique; [apply G, Hv' | apply G, C]. }
  destruct Hspan as [Hfg | (bg & Eb & Hbg)].
  - destruct (F span Hfg) as (_ & s0 & t0 & Hr & _ & Hc).
    destruct (svg_fg_classes_mem _ _ _ Hc Hcls) as [(f & Ef & En)|[(u & Eu & En)|K]].
    + eapply (Main s0 t0); [exact Hr | | exact En]. rewrite Ef. cbn; auto.
    + eapply (Main s0 t0); [exact Hr | | exact En]. rewrite Eu. cbn; auto.
    + rewrite (svg_effect_class_not_colour _ K) in Hcol. discriminate.
  - destruct (B bg span Eb Hbg) as (_ & s0 & t0 & Hr & _ & Hc).
    unfold svg_bg_classes, svg_opt_class in Hc.
    destruct (s_bg (svg_invert t s0)) as [b|] eqn:Ebg; [destruct (svg_color_name svg_bg_prefix b) as [nb|] eqn:Enb; [|discriminate]|];
      injection Hc as Hc; rewrite <- Hc in Hcls; cbn [In] in Hcls; [|destruct Hcls].
    destruct Hcls as [Hcls|[]]. subst cls. eapply (Main s0 t0); [exact Hr | | eassumption]. rewrite Ebg. cbn; auto.
Qed.

(* ======================================================================== *)
(* G. the document of svg_doc satisfies the premises of svg_print_doc_wf      *)

Lemma svg_bytes_class_ok (f : N -> list N) :
  forallb (fun i => svg_class_ok (f i)) all_bytes = true -> forall i, i < 256 -> svg_class_ok (f i) = true.
Proof. intros H i Hi. exact (forall_bytes _ H i Hi). Qed.

Lemma svg_color_name_class_ok p c k :
  In p svg_prefixes -> svg_colour_ok c = true -> svg_color_name p c = Some k -> svg_class_ok k = true.
Proof.
  intros Hp Hc H. destruct (svg_color_name_shape _ _ _ H) as (rest & -> & R).
  unfold svg_class_ok. rewrite forallb_app. apply andb_true_iff. split.
  - cbn [svg_prefixes In] in Hp. destruct Hp as [<-|[<-|[<-|[]]]]; reflexivity.
  - cbn [forallb]. apply andb_true_iff. split; [reflexivity|].
    destruct c as [a|i|r g b]; cbn [svg_name_rest svg_colour_ok] in *.
    + apply N.ltb_lt in Hc.
      assert (forallb (fun i => match svg_ansi_name i with Some n => forallb xml_name_char n | None => true end) svg_ansi16 = true) as K
        by (vm_compute; reflexivity).
      rewrite forallb_forall in K. specialize (K a (svg_ansi16_In a Hc)). cbv beta in K. rewrite R in K. exact K.
    + apply N.ltb_lt in Hc. assert (rest = [97; 110; 115; 105; 50; 53; 54; 45] ++ svg_dec3 i) as -> by congruence.
      rewrite forallb_app. apply andb_true_iff. split; [reflexivity|].
      apply (svg_bytes_class_ok svg_dec3); [vm_compute; reflexivity | exact Hc].
    + rewrite !andb_true_iff, !N.ltb_lt in Hc. destruct Hc as [[Hr Hg] Hb].
      assert (rest = [114; 103; 98; 45] ++ svg_hex2 r ++ svg_hex2 g ++ svg_hex2 b) as -> by congruence.
      rewrite !forallb_app, !andb_true_iff.
      assert (forallb (fun i => svg_class_ok (svg_hex2 i)) all_bytes = true) as K by (vm_compute; reflexivity).
      repeat split; try reflexivity; apply (svg_bytes_class_ok svg_hex2 K); assumption.
Qed.

Lemma svg_colour_ok_color c : svg_colour_ok c = true -> color_ok (svg_to_color c).
Proof.
  destruct c as [a|i|r g b]; cbn [svg_colour_ok svg_to_color color_ok rgb_ok]; rewrite ?andb_true_iff, ?N.ltb_lt; tauto.
Qed.

Lemma svg_rgb_hex_css v : rgb_ok v -> svg_css_ok (svg_rgb_hex v) = true.
Proof.
  destruct v as [[r g] b]. cbn [rgb_ok]. intros (Hr & Hg & Hb). unfold svg_css_ok, svg_rgb_hex.
  assert (forallb (fun i => forallb xml_text_char (svg_hex2 i)) all_bytes = true) as K by (vm_compute; reflexivity).
  rewrite !forallb_app, !andb_true_iff. repeat split; try reflexivity; apply (forall_bytes _ K); assumption.
Qed.

Lemma svg_rgb_value_css pal c v : palette_ok pal -> svg_colour_ok c = true -> svg_rgb_value c pal = Some v -> svg_css_ok v = true.
Proof.
  intros Hp Hc H. unfold svg_rgb_value in H.
  destruct (conversions_total _ _ (svg_colour_ok_color _ Hc) Hp) as ((r & Er & Hr) & _). rewrite Er in H. injection H as <-.
  apply svg_rgb_hex_css, Hr.
Qed.

Lemma svg_effect_class_ok cls : In cls (map snd svg_effect_classes) -> svg_class_ok cls = true.
Proof.
  intros H. assert (forallb svg_class_ok (map snd svg_effect_classes) = true) as K by (vm_compute; reflexivity).
  rewrite forallb_forall in K. apply K, H.
Qed.

Lemma svg_sub_forallb (P : N -> bool) f t0 : svg_sub f t0 -> forallb P t0 = true -> forallb P f = true.
Proof. intros (pre & post & ->). rewrite !forallb_app, !andb_true_iff. tauto. Qed.

Lemma svg_visible_forallb (P : N -> bool) : forall runs s t0, forallb P (svg_visible runs) = true -> In (s, t0) runs -> forallb P t0 = true.
Proof.
  induction runs as [|[s' x] rest IH]; intros s t0 H Hin; [destruct Hin|].
  change (svg_visible ((s', x) :: rest)) with (x ++ svg_visible rest) in H. rewrite forallb_app, andb_true_iff in H.
  destruct Hin as [E|Hin]; [injection E as <- <-; apply H | eapply IH; [apply H | exact Hin]].
Qed.

Theorem svg_doc_is_ok t input d runs p c :
  palette_ok (svg_t_palette t) -> svg_colour_ok (svg_t_fg t) = true -> svg_colour_ok (svg_t_bg t) = true ->
  extract_next input parser_new capture_default = Some (runs, p, c) -> svg_doc t input = Some d ->
  forallb xml_char (svg_visible runs) = true ->
  svg_doc_ok d = true.
Proof.
  intros Hpal Hdf Hdb He Hd Hx.
  destruct (svg_doc_parts _ _ _ _ _ _ He Hd) as (_ & Hsheet & _ & Hfg & Hbg & _).
  pose proof (svg_extract_next_ok _ _ _ _ He) as Hruns.
  assert (Forall (fun q => svg_style_ok (fst q) = true) (svg_inverted t runs)) as Hinv.
  { unfold svg_inverted. apply Forall_map. eapply Forall_impl; [|exact Hruns]. intros a [Ha _]. cbn [fst]. apply svg_invert_ok; assumption. }
  destruct (svg_color_styles_spec _ _ _ _ Hinv (Forall_nil _) Hsheet) as (G & _ & _).
  unfold svg_doc_ok. rewrite !andb_true_iff. split; [split; [split|]|].
  - exact (svg_rgb_value_css _ _ _ Hpal Hdf Hfg).
  - exact (svg_rgb_value_css _ _ _ Hpal Hdb Hbg).
  - apply forallb_forall. intros [k v] Hkv. rewrite Forall_forall in G. destruct (G _ Hkv) as (pf & col & Hp & Hc & En & Ev).
    cbn [fst snd] in *. apply andb_true_iff. split; [eapply svg_color_name_class_ok; eauto | eapply svg_rgb_value_css; eauto].
  - apply forallb_forall. intros l Hl. destruct (svg_span_origin _ _ _ _ _ _ He Hd l Hl) as [F B].
    assert (forall s0 t0, In (s0, t0) runs -> svg_style_ok (svg_invert t s0) = true) as Hok.
    { intros s0 t0 Hr. rewrite Forall_forall in Hruns. destruct (Hruns _ Hr) as [A _]. apply svg_invert_ok; assumption. }
    unfold svg_line_ok. apply andb_true_iff. split.
    + destruct (svg_l_bg l) as [bg|] eqn:Eb; [|reflexivity]. apply forallb_forall. intros span Hin.
      destruct (B bg span eq_refl Hin) as (_ & s0 & t0 & Hr & _ & Hc).
      pose proof (svg_style_ok_elim _ (Hok _ _ Hr)) as (_ & Ob & _).
      unfold svg_bg_classes, svg_opt_class in Hc. destruct (s_bg (svg_invert t s0)) as [b|]; [|injection Hc as <-; reflexivity].
      destruct (svg_color_name svg_bg_prefix b) as [n|] eqn:En; [|discriminate]. injection Hc as <-.
      cbn [forallb]. rewrite andb_true_r. eapply svg_color_name_class_ok; [|exact Ob|exact En]. cbn; auto.
    + apply forallb_forall. intros span Hin. destruct (F span Hin) as (_ & s0 & t0 & Hr & Hs & Hc).
      pose proof (svg_style_ok_elim _ (Hok _ _ Hr)) as (Of & _ & Ou).
      unfold svg_span_ok. apply andb_true_iff. split.
      * apply forallb_forall. intros cls Hcls.
        destruct (svg_fg_classes_mem _ _ _ Hc Hcls) as [(f & Ef & En)|[(u & Eu & En)|K]].
        -- rewrite Ef in Of. eapply svg_color_name_class_ok; [|exact Of|exact En]. cbn; auto.
        -- rewrite Eu in Ou. eapply svg_color_name_class_ok; [|exact Ou|exact En]. cbn; auto.
        -- apply svg_effect_class_ok, K.
      * eapply svg_sub_forallb; [exact Hs|]. eapply svg_visible_forallb; eauto.
Qed.

(* the rendered document of an XML-representable text is well-formed, whatever
   unicode_width answers *)
Theorem svg_rendered_wf t input d runs p c :
  palette_ok (svg_t_palette t) -> svg_colour_ok (svg_t_fg t) = true -> svg_colour_ok (svg_t_bg t) = true ->
  extract_next input parser_new capture_default = Some (runs, p, c) -> svg_doc t input = Some d ->
  forallb xml_char (svg_visible runs) = true ->
  forall width_px wf, WF (svg_print width_px wf d).
Proof. intros. apply svg_print_doc_wf. eapply svg_doc_is_ok; eauto. Qed.

(* ======================================================================== *)
(* H. the colour sheet is in strictly ascending key order (BTreeMap iteration) *)

Lemma svg_cmp_antisym : forall a b, svg_cmp a b = CompOpp (svg_cmp b a).
Proof.
  induction a as [|x a IH]; intros [|y b]; cbn [svg_cmp]; try reflexivity.
  rewrite (N.compare_antisym y x). destruct (y ?= x); cbn [CompOpp]; [apply IH | reflexivity | reflexivity].
Qed.

Lemma svg_cmp_trans : forall a b c, svg_cmp a b = Lt -> svg_cmp b c = Lt -> svg_cmp a c = Lt.
Proof.
  induction a as [|x a IH]; intros [|y b] [|z c]; cbn [svg_cmp]; try discriminate; try reflexivity.
  destruct (x ?= y) eqn:Exy; try discriminate.
  - apply N.compare_eq in Exy. subst y. destruct (x ?= z); try discriminate; [apply IH | reflexivity].
  - intros _. destruct (y ?= z) eqn:Eyz; try discriminate.
    + apply N.compare_eq in Eyz. subst z. rewrite Exy. reflexivity.
    + intros _. rewrite N.compare_lt_iff in *. assert (x < z) as H by lia. apply N.compare_lt_iff in H. rewrite H. reflexivity.
Qed.

Fixpoint svg_sorted (m : list (list N * list N)) : Prop :=
  match m with
  | [] => True
  | e :: r => (forall e', In e' r -> svg_cmp (fst e) (fst e') = Lt) /\ svg_sorted r
  end.

Lemma svg_insert_sorted k v : forall m, svg_sorted m -> svg_sorted (svg_map_insert k v m).
Proof.
  induction m as [|[k' v'] r IH]; intros H; cbn [svg_map_insert]; [split; [intros ? []|exact I]|].
  destruct H as [Hb Hr]. cbn [fst] in Hb. destruct (svg_cmp k k') eqn:E.
  - apply svg_cmp_eq in E. subst k'. split; [exact Hb | exact Hr].
  - split; [|split; assumption]. cbn [fst]. intros e' [<-|He']; [exact E|]. eapply svg_cmp_trans; [exact E | apply Hb, He'].
  - split; [|apply IH, Hr]. cbn [fst]. intros e' He'. destruct (svg_insert_sub _ _ _ _ He') as [->|H1]; [|apply Hb, H1].
    cbn [fst]. rewrite svg_cmp_antisym, E. reflexivity.
Qed.

Lemma svg_insert_colour_sorted pal p c m m' : svg_sorted m -> svg_insert_colour pal p c m = Some m' -> svg_sorted m'.
Proof.
  intros Hm H. unfold svg_insert_colour in H. destruct c as [col|]; [|injection H as <-; exact Hm].
  destruct (svg_color_name p col); [|discriminate]. destruct (svg_rgb_value col pal); [|discriminate].
  injection H as <-. apply svg_insert_sorted, Hm.
Qed.

Lemma svg_color_styles_sorted pal : forall styled m m', svg_sorted m -> svg_color_styles styled pal m = Some m' -> svg_sorted m'.
Proof.
  induction styled as [|[s x] rest IH]; intros m m' Hm H; cbn [svg_color_styles] in H; [injection H as <-; exact Hm|].
  destruct (svg_insert_colour pal svg_fg_prefix (s_fg s) m) as [m1|] eqn:E1; [|discriminate].
  destruct (svg_insert_colour pal svg_bg_prefix (s_bg s) m1) as [m2|] eqn:E2; [|discriminate].
  destruct (svg_insert_colour pal svg_underline_prefix (s_ul s) m2) as [m3|] eqn:E3; [|discriminate].
  eapply IH; [|exact H]. eauto using svg_insert_colour_sorted.
Qed.

Theorem svg_sheet_sorted t input d : svg_doc t input = Some d -> svg_sorted (svg_d_sheet d).
Proof.
  intros H. unfold svg_doc in H. destruct (svg_styled t input) as [styled|]; [|discriminate].
  destruct (svg_rgb_value (svg_t_fg t) (svg_t_palette t)); [|discriminate].
  destruct (svg_rgb_value (svg_t_bg t) (svg_t_palette t)); [|discriminate].
  destruct (svg_color_styles styled (svg_t_palette t) []) as [sheet|] eqn:E; [|discriminate].
  destruct (svg_lines_of (svg_split_lines styled)); [|discriminate]. injection H as <-. cbn [svg_d_sheet].
  eapply svg_color_styles_sorted; [|exact E]. exact I.
Qed.

(* ======================================================================== *)
(* I. the classes against the concrete specification (Spec/SvgSpec
   svg_spec_fg_classes / svg_spec_bg_class)                                  *)

Lemma svg_contains_bit e k : svg_contains e (N.shiftl 1 k) = N.testbit e k.
Proof.
  unfold svg_contains. rewrite N.shiftl_1_l. destruct (N.testbit e k) eqn:T.
  - apply N.eqb_eq. apply N.bits_inj. intros n. rewrite N.land_spec, N.pow2_bits_eqb.
    destruct (N.eqb_spec k n) as [<-|_]; [rewrite T; reflexivity | apply andb_false_r].
  - apply N.eqb_neq. intros H.
    assert (N.testbit (N.land e (2 ^ k)) k = N.testbit (2 ^ k) k) as H0 by (rewrite H; reflexivity).
    rewrite N.land_spec, N.pow2_bits_true, T in H0. discriminate.
Qed.

Lemma svg_contains_bit_ldiff e k : k <> 9 -> svg_contains (N.ldiff e eff_invert) (N.shiftl 1 k) = N.testbit e k.
Proof.
  intros Hk. rewrite svg_contains_bit, N.ldiff_spec. unfold eff_invert. rewrite N.shiftl_1_l, N.pow2_bits_eqb.
  destruct (N.eqb_spec 9 k) as [E|_]; [symmetry in E; contradiction | apply andb_true_r].
Qed.

(* the generated effect list of write_fg_span is the documented one *)
Definition svg_effect_rel (a b : N * list N) : Prop := snd a = snd b /\ fst a = N.shiftl 1 (fst b) /\ fst b <> 9.

Lemma svg_effect_tables : Forall2 svg_effect_rel svg_effect_classes svg_spec_effect_table.
Proof. repeat constructor; cbn; discriminate. Qed.

Lemma svg_effect_filter (f : N -> N) e :
  (forall k, k <> 9 -> svg_contains (f e) (N.shiftl 1 k) = N.testbit e k) ->
  forall t1 t2, Forall2 svg_effect_rel t1 t2 ->
  map snd (filter (fun p => svg_contains (f e) (fst p)) t1) = map snd (filter (fun p => N.testbit e (fst p)) t2).
Proof.
  intros Hf t1 t2 H. induction H as [|a b t1 t2 (Hs & Hm & Hk) _ IH]; [reflexivity|].
  cbn [filter]. rewrite Hm, (Hf _ Hk). destruct (N.testbit e (fst b)); cbn [map]; rewrite IH, ?Hs; reflexivity.
Qed.

Lemma svg_spec_name_agrees prefix c :
  In prefix svg_prefixes -> svg_colour_ok c = true -> svg_color_name prefix c = Some (svg_spec_colour_name prefix c).
Proof.
  intros Hp Hc. destruct c as [a|i|r g b].
  - cbn [svg_colour_ok] in Hc. apply N.ltb_lt in Hc.
    assert (forallb (fun p => forallb (fun a => svg_opt_list_eqb (svg_color_name p (CAnsi a)) (Some (svg_spec_colour_name p (CAnsi a)))) svg_ansi16) svg_prefixes = true) as K
      by (vm_compute; reflexivity).
    rewrite forallb_forall in K. specialize (K prefix Hp). cbv beta in K.
    rewrite forallb_forall in K. specialize (K a (svg_ansi16_In a Hc)). cbv beta in K.
    destruct (svg_color_name prefix (CAnsi a)) as [n|]; [|discriminate]. cbn [svg_opt_list_eqb] in K. f_equal.
    revert K. generalize (svg_spec_colour_name prefix (CAnsi a)). clear. induction n as [|x n IH]; intros [|y m] H; cbn in H; try discriminate; [reflexivity|].
    apply andb_true_iff in H. destruct H as [H1 H2]. apply N.eqb_eq in H1. subst. f_equal. apply IH, H2.
  - reflexivity.
  - reflexivity.
Qed.

Lemma svg_invert_cases t s :
  (N.testbit (s_eff s) INVERT = true
   /\ svg_invert t s = mkStyle (Some (match s_bg s with Some c => c | None => svg_t_bg t end))
                               (Some (match s_fg s with Some c => c | None => svg_t_fg t end))
                               (s_ul s) (N.ldiff (s_eff s) eff_invert))
  \/ (N.testbit (s_eff s) INVERT = false /\ svg_invert t s = s).
Proof.
  unfold svg_invert. replace (svg_contains (s_eff s) eff_invert) with (N.testbit (s_eff s) INVERT)
    by (symmetry; exact (svg_contains_bit (s_eff s) 9)).
  destruct (N.testbit (s_eff s) INVERT); [left | right]; split; reflexivity.
Qed.

Lemma svg_fg_classes_spec t s cl :
  svg_colour_ok (svg_t_fg t) = true -> svg_colour_ok (svg_t_bg t) = true -> svg_style_ok s = true ->
  svg_fg_classes (svg_invert t s) = Some cl -> cl = svg_spec_fg_classes (svg_t_fg t) (svg_t_bg t) s.
Proof.
  intros Hdf Hdb Hs H. pose proof (svg_style_ok_elim _ (svg_invert_ok t s Hdf Hdb Hs)) as (Of & _ & Ou).
  unfold svg_fg_classes, svg_opt_class in H. unfold svg_spec_fg_classes, svg_spec_drawn_fg.
  destruct (svg_invert_cases t s) as [[T E]|[T E]]; rewrite E in H, Of, Ou; rewrite T; cbn [s_fg s_ul s_eff] in H, Of, Ou.
  - rewrite (svg_effect_filter (fun e => N.ldiff e eff_invert) (s_eff s) (fun k Hk => svg_contains_bit_ldiff _ k Hk) _ _ svg_effect_tables) in H.
    rewrite (svg_spec_name_agrees svg_fg_prefix _ ltac:(cbn; auto) Of) in H.
    destruct (s_ul s) as [u|]; [rewrite (svg_spec_name_agrees svg_underline_prefix u ltac:(cbn; auto 4) Ou) in H|];
      injection H as <-; reflexivity.
  - rewrite (svg_effect_filter (fun e => e) (s_eff s) (fun k _ => svg_contains_bit _ k) _ _ svg_effect_tables) in H.
    destruct (s_fg s) as [f|]; [rewrite (svg_spec_name_agrees svg_fg_prefix f ltac:(cbn; auto) Of) in H|];
      (destruct (s_ul s) as [u|]; [rewrite (svg_spec_name_agrees svg_underline_prefix u ltac:(cbn; auto 4) Ou) in H|]);
      injection H as <-; reflexivity.
Qed.

Lemma svg_bg_classes_spec t s cl :
  svg_colour_ok (svg_t_fg t) = true -> svg_colour_ok (svg_t_bg t) = true -> svg_style_ok s = true ->
  svg_bg_classes (svg_invert t s) = Some cl ->
  cl = match svg_spec_bg_class (svg_t_fg t) (svg_t_bg t) s with Some c => [c] | None => [] end.
Proof.
  intros Hdf Hdb Hs H. pose proof (svg_style_ok_elim _ (svg_invert_ok t s Hdf Hdb Hs)) as (_ & Ob & _).
  unfold svg_bg_classes, svg_opt_class in H. unfold svg_spec_bg_class, svg_spec_drawn_bg.
  destruct (svg_invert_cases t s) as [[T E]|[T E]]; rewrite E in H, Ob; rewrite T; cbn [s_bg] in H, Ob.
  - rewrite (svg_spec_name_agrees svg_bg_prefix _ ltac:(cbn; auto) Ob) in H. injection H as <-. reflexivity.
  - destruct (s_bg s) as [b|]; [rewrite (svg_spec_name_agrees svg_bg_prefix b ltac:(cbn; auto) Ob) in H|]; injection H as <-; reflexivity.
Qed.

Theorem svg_classes_denote_spec_style t input d runs p c :
  svg_colour_ok (svg_t_fg t) = true -> svg_colour_ok (svg_t_bg t) = true ->
  extract_next input parser_new capture_default = Some (runs, p, c) -> svg_doc t input = Some d ->
  forall l, In l (svg_d_lines d) ->
  (forall span, In span (svg_l_fg l) ->
     exists s0 t0, In (s0, t0) runs /\ svg_sub (snd span) t0 /\ snd span <> [] /\
       fst span = svg_spec_fg_classes (svg_t_fg t) (svg_t_bg t) s0)
  /\ (forall bg span, svg_l_bg l = Some bg -> In span bg ->
     exists s0 t0, In (s0, t0) runs /\ svg_sub (snd span) t0 /\ snd span <> [] /\
       fst span = match svg_spec_bg_class (svg_t_fg t) (svg_t_bg t) s0 with Some cls => [cls] | None => [] end).
Proof.
  intros Hdf Hdb He Hd l Hl. destruct (svg_span_origin _ _ _ _ _ _ He Hd l Hl) as [F B].
  pose proof (svg_extract_next_ok _ _ _ _ He) as Hruns. rewrite Forall_forall in Hruns.
  split.
  - intros span Hin. destruct (F span Hin) as (Hne & s0 & t0 & Hr & Hs & Hc). exists s0, t0. repeat split; auto.
    destruct (Hruns _ Hr) as [Hok _]. eapply svg_fg_classes_spec; eauto.
  - intros bg span Eb Hin. destruct (B bg span Eb Hin) as (Hne & s0 & t0 & Hr & Hs & Hc). exists s0, t0. repeat split; auto.
    destruct (Hruns _ Hr) as [Hok _]. eapply svg_bg_classes_spec; eauto.
Qed.
