(* Proofs/TableFacts.v -- finite facts about the generated state table, each by
   complete enumeration of states x 256 bytes inside the kernel. *)
From Coq Require Import NArith List Bool Lia.
From AV Require Import Generated.Table Spec.Utf8 Spec.Vt Model.Base Model.Parser.
Import ListNotations.
Local Open Scope N_scope.

(* ---- bytes -------------------------------------------------------------- *)

Lemma range_from_In : forall n a x, In x (range_from a n) <-> a <= x < a + N.of_nat n.
Proof.
  induction n as [|n IH]; intros a x; cbn [range_from].
  - split; [intros [] | lia].
  - rewrite Nat2N.inj_succ. cbn [In]. rewrite IH. lia.
Qed.

Lemma all_bytes_In : forall b, b < 256 <-> In b all_bytes.
Proof. intros b. unfold all_bytes. rewrite range_from_In. cbn. lia. Qed.

Lemma forall_bytes (P : N -> bool) :
  forallb P all_bytes = true -> forall b, b < 256 -> P b = true.
Proof.
  intros H b Hb. rewrite forallb_forall in H. apply H. now apply all_bytes_In.
Qed.

Lemma all_states_In : forall s, In s all_states.
Proof. intros []; cbn; tauto. Qed.

Lemma forall_states (P : state -> bool) :
  forallb P all_states = true -> forall s, P s = true.
Proof. intros H s. rewrite forallb_forall in H. apply H, all_states_In. Qed.

Lemma forall_states_bytes (P : state -> N -> bool) :
  forallb (fun s => forallb (P s) all_bytes) all_states = true ->
  forall s b, b < 256 -> P s b = true.
Proof.
  intros H s b Hb.
  pose proof (forall_states _ H s) as Hs. cbv beta in Hs.
  now apply (forall_bytes _ Hs).
Qed.

(* ---- the table against the by-range specification ----------------------- *)

Definition vstate_eqb (a b : vstate) : bool :=
  match a, b with
  | VGround, VGround | VEscape, VEscape | VEscInt, VEscInt
  | VCsiEntry, VCsiEntry | VCsiParam, VCsiParam | VCsiInt, VCsiInt | VCsiIgnore, VCsiIgnore
  | VDcsEntry, VDcsEntry | VDcsParam, VDcsParam | VDcsInt, VDcsInt | VDcsPass, VDcsPass
  | VDcsIgnore, VDcsIgnore | VOsc, VOsc | VSos, VSos => true
  | _, _ => false
  end.

Lemma vstate_eqb_eq a b : vstate_eqb a b = true <-> a = b.
Proof. destruct a, b; cbn; split; intros H; try reflexivity; try discriminate. Qed.

Definition vact_eqb (a b : vact) : bool :=
  match a, b with
  | TNone, TNone | TIgnore, TIgnore | TPrint, TPrint | TExecute, TExecute | TCollect, TCollect
  | TParam, TParam | TEscDispatch, TEscDispatch | TCsiDispatch, TCsiDispatch | TPut, TPut
  | TOscPut, TOscPut | TUtf8, TUtf8 => true
  | _, _ => false
  end.

Lemma vact_eqb_eq a b : vact_eqb a b = true <-> a = b.
Proof. destruct a, b; cbn; split; intros H; try reflexivity; try discriminate. Qed.

(* the 14 parser states of the diagram; Anywhere is the table's "no change"
   marker and Utf8 is the out-of-band sub-state *)
Definition abs_state (s : state) : option vstate :=
  match s with
  | Ground => Some VGround | Escape => Some VEscape | EscapeIntermediate => Some VEscInt
  | CsiEntry => Some VCsiEntry | CsiParam => Some VCsiParam | CsiIntermediate => Some VCsiInt
  | CsiIgnore => Some VCsiIgnore
  | DcsEntry => Some VDcsEntry | DcsParam => Some VDcsParam | DcsIntermediate => Some VDcsInt
  | DcsPassthrough => Some VDcsPass | DcsIgnore => Some VDcsIgnore
  | OscString => Some VOsc | SosPmApcString => Some VSos
  | Anywhere | Utf8 => None
  end.

(* the actions that may label a transition (entry / exit actions never do) *)
Definition abs_action (a : action) : option vact :=
  match a with
  | ANop => Some TNone | AIgnore => Some TIgnore | APrint => Some TPrint | AExecute => Some TExecute
  | ACollect => Some TCollect | AParam => Some TParam | AEscDispatch => Some TEscDispatch
  | ACsiDispatch => Some TCsiDispatch | APut => Some TPut | AOscPut => Some TOscPut
  | ABeginUtf8 => Some TUtf8
  | AClear | AHook | AUnhook | AOscStart | AOscEnd => None
  end.

Definition opt_vstate_eqb (a b : option vstate) : bool :=
  match a, b with
  | None, None => true
  | Some x, Some y => vstate_eqb x y
  | _, _ => false
  end.

Definition opt_vact_eqb (a : option vact) (b : vact) : bool :=
  match a with Some x => vact_eqb x b | None => false end.

Definition trans_matches (s : state) (b : N) : bool :=
  match abs_state s with
  | None => true
  | Some v =>
      match state_change s b with
      | None => false
      | Some (s', a) =>
          let '(tgt, va) := vt_trans v b in
          match s' with
          | Anywhere => opt_vstate_eqb tgt None && opt_vact_eqb (abs_action a) va
          | Utf8 => opt_vstate_eqb tgt None && opt_vact_eqb (abs_action a) va && vact_eqb va TUtf8
          | _ => opt_vstate_eqb tgt (abs_state s') && opt_vact_eqb (abs_action a) va
          end
      end
  end.

Lemma table_matches_all :
  forallb (fun s => forallb (trans_matches s) all_bytes) all_states = true.
Proof. vm_compute. reflexivity. Qed.

Lemma table_is_williams : forall s b, b < 256 -> trans_matches s b = true.
Proof. exact (forall_states_bytes _ table_matches_all). Qed.

(* unpack is total on every table entry: both nibbles name a state / an action,
   so the transmute in definitions.rs is only ever applied to valid discriminants *)
Definition change_defined (s : state) (b : N) : bool :=
  match state_change s b with Some _ => true | None => false end.

Lemma state_change_total_all :
  forallb (fun s => forallb (change_defined s) all_bytes) all_states = true.
Proof. vm_compute. reflexivity. Qed.

Lemma state_change_total : forall s b, b < 256 -> exists s' a, state_change s b = Some (s', a).
Proof.
  intros s b Hb. pose proof (forall_states_bytes _ state_change_total_all s b Hb) as H.
  unfold change_defined in H. destruct (state_change s b) as [[s' a]|]; [eauto | discriminate].
Qed.

(* BeginUtf8 / Print occur only in Ground; the Utf8 state is entered only by BeginUtf8 *)
Definition utf8_only_ground (s : state) (b : N) : bool :=
  match state_change s b with
  | Some (s', a) =>
      (if action_eqb a ABeginUtf8 then state_eqb s Ground && state_eqb s' Utf8 else negb (state_eqb s' Utf8))
      && (if action_eqb a APrint then state_eqb s Ground else true)
  | None => false
  end.

Lemma utf8_only_ground_all :
  forallb (fun s => forallb (utf8_only_ground s) all_bytes) all_states = true.
Proof. vm_compute. reflexivity. Qed.

(* CAN and SUB lead to Ground with Execute from every state *)
Definition cancel_to_ground (s : state) : bool :=
  match state_change s 24, state_change s 26 with
  | Some (Ground, AExecute), Some (Ground, AExecute) => true
  | _, _ => false
  end.

Lemma cancel_to_ground_all : forallb cancel_to_ground all_states = true.
Proof. vm_compute. reflexivity. Qed.
