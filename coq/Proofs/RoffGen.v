From Coq Require Import NArith List Bool Lia.
From AV Require Import Generated.Style Model.Style Generated.Palette Spec.Lossy Model.Lossy Generated.Roff Model.Roff Model.Base Model.Imp Generated.RoffFn.
Import ListNotations.
Local Open Scope N_scope.
