(* Proofs/RoffGen.v -- the functions of crates/anstyle-roff/src/{lib.rs,styled_str.rs} as TRANSLATED by
   tools/gen_fn_roff.py (Generated/RoffFn.v) are extensionally equal to the hand model (Model/Roff.v)
   the theorems of C15 are about.

   The outer [option] of a translation is "the Rust code panics" (never, on well-typed input); the hand
   model is total where Rust is.  Well-typedness of the inputs -- an AnsiColor / cansi::Color number is
   below 16, an Ansi256Color / RgbColor component is a u8 -- is a hypothesis where the representation
   by [N] is wider than the Rust type ([rf_sgr_wf], [color_ok]); the entry point [g_to_roff] needs none:
   the hand model of cansi only produces well-typed values ([rf_categorise_wf]). *)
From Coq Require Import NArith List Bool Lia.
From AV Require Import Generated.Style Model.Style Generated.Palette Spec.Lossy Model.Lossy Generated.Roff Model.Roff
  Model.Base Model.Imp Generated.RoffFn Spec.RoffSpec Proofs.Roff.
Import ListNotations.
Local Open Scope N_scope.

(* ---- well-typed values of the third-party model ---------------------------------- *)

Definition rf_opt_lt (n : N) (o : option N) : Prop := match o with Some k => k < n | None => True end.

(* cansi::Color has 16 variants *)
Definition rf_sgr_wf (g : rf_sgr) : Prop := rf_opt_lt 16 (cs_fg g) /\ rf_opt_lt 16 (cs_bg g).

Definition rf_action_wf (a : rf_cansi_action) : Prop :=
  match a with RfCaFg c | RfCaBg c => c < 16 | _ => True end.

Lemma rf_cansi_arms_wf : Forall rf_action_wf (map snd rf_cansi_arms).
Proof. unfold rf_cansi_arms. cbn [map snd]. repeat constructor; cbn [rf_action_wf]; lia. Qed.

Lemma rf_cansi_lookup_in seq : forall arms a, rf_cansi_lookup seq arms = Some a -> In a (map snd arms).
Proof.
  induction arms as [|[c x] rest IH]; intros a H; cbn [rf_cansi_lookup] in H; [discriminate|].
  destruct (rf_eqb seq (rf_code_str c)).
  - inversion H; subst. left. reflexivity.
  - right. apply IH. exact H.
Qed.

Lemma rf_sgr_default_wf : rf_sgr_wf rf_sgr_default.
Proof. split; exact I. Qed.

Lemma rf_adjust_sgr_wf g seq : rf_sgr_wf g -> rf_sgr_wf (rf_adjust_sgr g seq).
Proof.
  intros [Hf Hb]. unfold rf_adjust_sgr. destruct (rf_cansi_lookup seq rf_cansi_arms) as [a|] eqn:E; [|split; assumption].
  pose proof (proj1 (Forall_forall _ _) rf_cansi_arms_wf a (rf_cansi_lookup_in _ _ _ E)) as Ha.
  destruct a; cbn [rf_cansi_apply]; try (split; assumption); try exact rf_sgr_default_wf;
    split; cbn [cs_fg cs_bg rf_opt_lt]; assumption.
Qed.

Lemma rf_handle_seq_wf ps : rf_sgr_wf (rf_handle_seq ps).
Proof.
  unfold rf_handle_seq. generalize (rf_split 59 ps) as l. generalize rf_sgr_default_wf. generalize rf_sgr_default as g.
  intros g Hg l. revert g Hg. induction l as [|x l IH]; intros g Hg; cbn [fold_left]; [exact Hg|].
  apply IH. apply rf_adjust_sgr_wf. exact Hg.
Qed.

Definition rf_slice_wf (c : rf_sgr * list N) : Prop := rf_sgr_wf (fst c).

Lemma rf_flush_wf g pend : rf_sgr_wf g -> Forall rf_slice_wf (rf_flush g pend).
Proof. intros H. unfold rf_flush. destruct pend; [apply Forall_nil|apply Forall_cons; [exact H|apply Forall_nil]]. Qed.

Lemma rf_cat_go_wf s : forall st g pend, rf_sgr_wf g -> Forall rf_slice_wf (rf_cat_go st g pend s).
Proof.
  induction s as [|b t IH]; intros st g pend Hg; cbn [rf_cat_go].
  - destruct st; apply rf_flush_wf; exact Hg.
  - destruct st as [| |acc].
    + destruct (b =? 27); apply IH; exact Hg.
    + destruct (b =? 91); [apply IH; exact Hg|]. destruct (b =? 27); apply IH; exact Hg.
    + destruct (rf_terminated b); [|apply IH; exact Hg].
      apply Forall_app. split; [apply rf_flush_wf; exact Hg|]. apply IH. apply rf_handle_seq_wf.
Qed.

(* cansi::v3::categorise_text (hand model) only yields colours of cansi::Color *)
Lemma rf_categorise_wf text : Forall rf_slice_wf (rf_categorise text).
Proof. apply rf_cat_go_wf. exact rf_sgr_default_wf. Qed.

(* ---- styled_str.rs ------------------------------------------------------------------ *)

Lemma g_is_bold_eq o : g_is_bold o = Some (match o with Some j => j =? 1 | None => false end).
Proof. unfold g_is_bold. destruct o as [j|]; [|reflexivity]. destruct (N.eqb j 1); reflexivity. Qed.

Lemma g_is_faint_eq o : g_is_faint o = Some (match o with Some j => j =? 2 | None => false end).
Proof. unfold g_is_faint. destruct o as [j|]; [|reflexivity]. destruct (N.eqb j 2); reflexivity. Qed.

Lemma g_cansi_to_anstyle_color_eq c : rf_opt_lt 16 c ->
  g_cansi_to_anstyle_color c = Some (rf_cansi_to_anstyle c).
Proof.
  destruct c as [k|]; [|reflexivity]. cbn [rf_opt_lt]. intros H.
  pose proof (rf_lt16_In k H) as HI. cbn [In] in HI.
  repeat (destruct HI as [<-|HI]; [reflexivity|]). destruct HI.
Qed.

Lemma g_create_effects_eq cat : g_create_effects cat = Some (rf_create_effects (fst cat)).
Proof.
  unfold g_create_effects. rewrite g_is_bold_eq, g_is_faint_eq. reflexivity.
Qed.

Definition rf_styled_of (c : rf_sgr * list N) : rf_styled := mkRfStyled (snd c) (rf_style_of (fst c)).

Lemma g_styled_from_eq cat : rf_slice_wf cat -> g_styled_from cat = Some (rf_styled_of cat).
Proof.
  intros [Hf Hb]. unfold g_styled_from. cbv zeta. unfold rf_cslice_fg, rf_cslice_bg.
  rewrite !g_cansi_to_anstyle_color_eq by assumption. rewrite g_create_effects_eq. reflexivity.
Qed.

Lemma rf_map_m_pointwise {A B} (f : A -> option B) (h : A -> B) (P : A -> Prop) l :
  (forall x, P x -> f x = Some (h x)) -> Forall P l -> rf_map_m f l = Some (map h l).
Proof.
  intros Hf H. induction H as [|x l Hx Hl IH]; [reflexivity|].
  cbn [rf_map_m map]. rewrite (Hf x Hx), IH. reflexivity.
Qed.

Lemma g_styled_stream_eq text : g_styled_stream text = Some (map rf_styled_of (rf_categorise text)).
Proof.
  unfold g_styled_stream. cbv zeta.
  rewrite (rf_map_m_pointwise _ rf_styled_of rf_slice_wf (rf_categorise text)).
  - reflexivity.
  - intros x Hx. rewrite (g_styled_from_eq x Hx). reflexivity.
  - apply rf_categorise_wf.
Qed.

(* ---- lib.rs ------------------------------------------------------------------------- *)

Lemma g_consts_eq : g_CREATE_COLOR = rf_req_defcolor /\ g_FOREGROUND = rf_req_fg /\ g_BACKGROUND = rf_req_bg.
Proof. repeat split; reflexivity. Qed.

Definition rf_color_opt_ok (c : option color) : Prop := match c with Some c => color_ok c | None => True end.

(* Whatever the spelling (`if let` + `matches!` = a boolean of N.eqb tests under the constructor; one nested `matches!` = an `if` on
   the same tests; anstyle's own `color.is_bright()` inlined = a 16-arm if-chain that answers [None] above 15): decided per colour,
   by computation.  As everywhere in this area the lemma carries the typing of the argument ([color_ok]: an AnsiColor is below 16);
   the entry point needs none ([rf_style_of_ok]). *)
Lemma g_is_bright_eq c : color_ok c -> g_is_bright c = Some (rf_is_bright c).
Proof.
  intros Hc. unfold g_is_bright. destruct c as [a|i|c]; try reflexivity. cbn [rf_is_bright]. cbn [color_ok] in Hc.
  pose proof (rf_lt16_In a Hc) as HI. cbn [In] in HI.
  repeat (destruct HI as [<-|HI]; [reflexivity|]). destruct HI.
Qed.

(* `.as_ref().map(is_bright).unwrap_or(false)` | `matches!(.., Some(c) if is_bright(&c))` | a `match`: the slot is destructed, the
   call rewritten, the rest is a case analysis on its answer *)
Lemma g_has_bright_fg_eq st : rf_color_opt_ok (ry_fg st) -> g_has_bright_fg st = Some (rf_has_bright_fg st).
Proof.
  intros H. unfold g_has_bright_fg, rf_has_bright_fg. cbv zeta. destruct (ry_fg st) as [c|]; cbn [rf_opt_map_m]; [|reflexivity].
  cbn [rf_color_opt_ok] in H. rewrite (g_is_bright_eq c H). destruct (rf_is_bright c); reflexivity.
Qed.

Lemma g_ansi_color_to_roff_eq a : a < 16 -> g_ansi_color_to_roff a = Some (rf_ansi_name a).
Proof.
  intros H. pose proof (rf_lt16_In a H) as HI. cbn [In] in HI.
  repeat (destruct HI as [<-|HI]; [reflexivity|]). destruct HI.
Qed.

Lemma g_to_hex_eq c : rgb_ok c -> g_to_hex c = rf_to_hex c.
Proof.
  destruct c as [[r g] b]. intros [Hr [Hg Hb]]. unfold g_to_hex, rf_to_hex. cbn [rgb_f0 rgb_f1 rgb_f2]. cbv zeta.
  rewrite !N.shiftl_mul_pow2. change (2 ^ 16) with 65536. change (2 ^ 8) with 256.
  rewrite !N.mod_small by lia. reflexivity.
Qed.

Lemma g_rgb_name_eq c : rgb_ok c -> g_rgb_name c = rf_rgb_name c.
Proof. intros H. unfold g_rgb_name, rf_rgb_name. rewrite (g_to_hex_eq c H). reflexivity. Qed.

Lemma g_xterm_to_ansi_or_rgb_eq i : g_xterm_to_ansi_or_rgb i = rf_xterm_to_ansi_or_rgb i.
Proof.
  unfold g_xterm_to_ansi_or_rgb, rf_xterm_to_ansi_or_rgb. cbv zeta.
  destruct (into_ansi i); [reflexivity|]. destruct (xterm_to_rgb i vga); reflexivity.
Qed.

(* the document after the call = the document before ++ the lines the hand model answers *)
Definition rf_push (doc : list rf_line) (o : option (list rf_line)) : option (list rf_line) :=
  match o with Some ls => Some (doc ++ ls) | None => None end.

Lemma g_add_color_direct_eq fuel doc req c :
  match c with Some (Ansi256 _) => False | _ => rf_color_opt_ok c end ->
  g_add_color_to_roff_rec (S fuel) doc req c = Some (doc ++ rf_add_color_direct req c).
Proof.
  intros H. cbn [g_add_color_to_roff_rec]. destruct c as [[a|i|c]|]; cbn [rf_add_color_direct rf_color_opt_ok color_ok] in *.
  - rewrite (g_ansi_color_to_roff_eq a H). reflexivity.
  - destruct H.
  - cbv zeta. rewrite (g_rgb_name_eq c H), (g_to_hex_eq c H). unfold rf_roff_control. rewrite <- app_assoc. reflexivity.
  - reflexivity.
Qed.

(* the Ansi256 arm: one more level *)
Lemma g_add_color_rec_256 fuel doc req i :
  g_add_color_to_roff_rec (S fuel) doc req (Some (Ansi256 i)) =
  c <- g_xterm_to_ansi_or_rgb i ;; g_add_color_to_roff_rec fuel doc req (Some c).
Proof.
  cbn [g_add_color_to_roff_rec]. destruct (g_xterm_to_ansi_or_rgb i) as [c|]; [|reflexivity].
  destruct (g_add_color_to_roff_rec fuel doc req (Some c)); reflexivity.
Qed.

Lemma g_add_color_to_roff_eq doc req c : rf_color_opt_ok c ->
  g_add_color_to_roff doc req c = rf_push doc (rf_add_color req c).
Proof.
  intros H. unfold g_add_color_to_roff.
  destruct c as [[a|i|c]|]; try (rewrite g_add_color_direct_eq by exact H; reflexivity).
  cbn [rf_color_opt_ok color_ok] in H. cbn [rf_add_color].
  rewrite g_add_color_rec_256, g_xterm_to_ansi_or_rgb_eq.
  pose proof (proj1 (forallb_forall _ _) rf_xterm_all i (rf_range_In 256 0 i ltac:(cbn; lia))) as Hx.
  unfold rf_xterm_okb in Hx.
  destruct (rf_xterm_to_ansi_or_rgb i) as [[a|j|[[r g] b]]|]; try discriminate.
  - apply andb_true_iff in Hx as [H1 H2]. apply N.eqb_eq in H2. apply N.ltb_lt in H1. subst a.
    rewrite g_add_color_direct_eq by exact H1. reflexivity.
  - repeat match goal with E : (_ && _) = true |- _ => apply andb_true_iff in E as [E ?] end.
    repeat match goal with E : (_ <? _) = true |- _ => apply N.ltb_lt in E end.
    rewrite g_add_color_direct_eq by (cbn; repeat split; assumption). reflexivity.
Qed.

(* set_color is a private helper: HOW it receives the two colours is the maintainers' business (the pair of references of the
   `ColorSet` alias | the style itself | two arguments).  The lemma is about the helper AS to_roff CALLS IT for a style: the first
   of the call conventions that typechecks against the translation (the statement is the same term as before for the pair). *)
Definition g_set_color_call (st : rf_style) (doc : list rf_line) : option (list rf_line) :=
  ltac:(first [ exact (g_set_color (ry_fg st, ry_bg st) doc)
              | exact (g_set_color st doc)
              | exact (g_set_color (ry_fg st) (ry_bg st) doc) ]).

Lemma g_set_color_eq st doc : rf_color_opt_ok (ry_fg st) -> rf_color_opt_ok (ry_bg st) ->
  g_set_color_call st doc = rf_push doc (rf_set_color st).
Proof.
  intros Hf Hb. unfold g_set_color_call, g_set_color, rf_set_color. cbn [fst snd]. destruct g_consts_eq as [_ [-> ->]].
  rewrite (g_add_color_to_roff_eq _ _ _ Hf). destruct (rf_add_color rf_req_fg (ry_fg st)) as [a|]; [|reflexivity].
  cbn [rf_push]. cbv zeta. rewrite (g_add_color_to_roff_eq _ _ _ Hb).
  destruct (rf_add_color rf_req_bg (ry_bg st)) as [b|]; [|reflexivity].
  cbn [rf_push]. rewrite app_assoc. reflexivity.
Qed.

Lemma g_set_effects_and_text_eq s doc : rf_color_opt_ok (ry_fg (rfs_style s)) ->
  g_set_effects_and_text s doc = Some (doc ++ [rf_effects_and_text (rfs_style s) (rfs_text s)]).
Proof.
  intros Hfg.
  (* three `doc.text(..)` calls in an if-chain | one call on an `if` expression; `|` (has_bright_fg always called) | `||` (called
     when not bold): the call is rewritten wherever it stands, then the three booleans decide *)
  unfold g_set_effects_and_text, rf_effects_and_text. cbv zeta. rewrite ?(g_has_bright_fg_eq _ Hfg).
  destruct (e_contains (ry_effects (rfs_style s)) eff_bold); destruct (rf_has_bright_fg (rfs_style s));
    destruct (e_contains (ry_effects (rfs_style s)) eff_italic); reflexivity.
Qed.

(* the colours a styled slice of the hand model carries are AnsiColor values *)
Lemma rf_style_of_ok g : rf_sgr_wf g ->
  rf_color_opt_ok (ry_fg (rf_style_of g)) /\ rf_color_opt_ok (ry_bg (rf_style_of g)).
Proof.
  assert (K : forall c, rf_opt_lt 16 c -> rf_color_opt_ok (rf_cansi_to_anstyle c)).
  { intros [k|] Hk; [|exact I]. cbn [rf_opt_lt] in Hk. pose proof (rf_lt16_In k Hk) as HI. cbn [In] in HI.
    repeat (destruct HI as [<-|HI]; [cbn; lia|]). destruct HI. }
  intros [Hf Hb]. unfold rf_style_of. cbn [ry_fg ry_bg]. split; apply K; assumption.
Qed.

(* to_roff: the lines pushed for the whole input *)
Theorem g_to_roff_eq input : g_to_roff input = rf_doc_lines (rf_categorise input).
Proof.
  unfold g_to_roff. cbv zeta. rewrite g_styled_stream_eq.
  match goal with |- context [for_list0 ?f _ _] => set (step := f) end.
  assert (L : forall slices doc, Forall rf_slice_wf slices ->
              for_list0 step (map rf_styled_of slices) doc = rf_push doc (rf_doc_lines slices)).
  { induction slices as [|[g text] rest IH]; intros doc Hwf.
    - cbn [map for_list0 rf_doc_lines rf_push]. rewrite app_nil_r. reflexivity.
    - inversion Hwf as [|x l Hx Hl]; subst. destruct (rf_style_of_ok g Hx) as [Hf Hb].
      cbn [map for_list0 rf_doc_lines]. set (R := map rf_styled_of rest). unfold step at 1.
      unfold rf_styled_of. cbn [fst snd rfs_style rfs_text].      (* every use of the head slice, however many the body makes *)
      match goal with |- context [g_set_color ?a ?d] => change (g_set_color a d) with (g_set_color_call (rf_style_of g) d) end.
      rewrite (g_set_color_eq (rf_style_of g) doc Hf Hb).
      destruct (rf_set_color (rf_style_of g)) as [cl|]; [|reflexivity]. cbn [rf_push]. cbv zeta.
      rewrite g_set_effects_and_text_eq by (cbn [rfs_style]; exact Hf). cbn [rfs_style rfs_text].
      subst R. rewrite (IH _ Hl). destruct (rf_doc_lines rest) as [tl|]; [|reflexivity].
      cbn [rf_push]. rewrite <- !app_assoc. reflexivity. }
  rewrite (L _ _ (rf_categorise_wf input)). unfold rf_roff_new.
  destruct (rf_doc_lines (rf_categorise input)); reflexivity.
Qed.

(* ---- entry points --------------------------------------------------------------------- *)

(* anstyle_roff::to_roff(text).to_roff(): the translated to_roff followed by roff's renderer (third party,
   hand model rf_render) is the hand model the theorems of C15 are about *)
Theorem translated_to_roff_is_model : forall input : list N,
  (ls <- g_to_roff input ;; Some (rf_render ls)) = rf_to_roff input.
Proof. intros input. rewrite g_to_roff_eq. reflexivity. Qed.

(* add_color_to_roff alone on an empty document, rendered (c15_rgb_branch_correct is about rf_color_requests) *)
Theorem translated_color_requests_is_model : forall (req : list N) (c : option color),
  rf_color_opt_ok c ->
  (ls <- g_add_color_to_roff [] req c ;; Some (rf_render ls)) = rf_color_requests req c.
Proof.
  intros req c H. rewrite (g_add_color_to_roff_eq [] req c H). unfold rf_color_requests.
  destruct (rf_add_color req c); reflexivity.
Qed.

(* styled_str.rs: the slices cansi yields, converted *)
Theorem translated_styled_stream_is_model : forall text : list N,
  g_styled_stream text = Some (map (fun c => mkRfStyled (snd c) (rf_style_of (fst c))) (rf_categorise text)).
Proof. exact g_styled_stream_eq. Qed.

(* with the property theorem of C15: the translated code computes the specification on D *)
Theorem translated_document_shape : forall segs : list rf_seg,
  rf_D segs ->
  Forall (fun s => rf_bold_and_faint s = false) segs ->
  (ls <- g_to_roff (rf_print_D segs) ;; Some (rf_render ls)) = Some (rf_spec_doc segs).
Proof. intros segs HD Hbf. rewrite translated_to_roff_is_model. exact (rf_document_shape segs HD Hbf). Qed.
