(* Proofs/CansiGen.v -- cansi 2.2.1 (third party; src/{parsing.rs,categorise.rs,lib.rs} of the cargo registry copy pinned
   by Cargo.lock) as TRANSLATED by tools/gen_fn_cansi.py (Generated/CansiFn.v) is extensionally equal to the hand model
   [rf_categorise] (Model/Roff.v) the theorems of C15 are about.

   The hand model is ONE left-to-right pass over the bytes (a three-state machine); the crate works in two passes
   over byte OFFSETS: parse finds the CSI sequences (Match { start, end, text }), stepping over one char at a time
   elsewhere; categorise_text_v3 cuts the text between the matches and reads every sequence with handle_seq / adjust_sgr.
   [rf_matches] below is the list of matches as a structural function of the remaining text; the parse loops are proved
   equal to it for EVERY byte string; the categorise loop over [rf_matches] is proved equal to the state machine for
   every string that is a sequence of UTF-8 shaped chars ([rf_utf8_ok]: what a Rust &str holds) -- stepping by chars
   and stepping by bytes differ on other byte strings (a lead byte directly followed by ESC). *)
From Coq Require Import NArith Arith List Bool Lia.
From AV Require Model.Text.
From AV Require Import Model.Base Model.Imp Generated.Roff Model.Roff Generated.CansiFn Proofs.CansiSgr.
Import ListNotations.
Local Open Scope N_scope.

(* ---- list / slice geometry ------------------------------------------------------------------------ *)

Lemma len_app {A} (a b : list A) : len (a ++ b) = len a + len b.
Proof. unfold len. rewrite app_length. lia. Qed.

Lemma slice_mid {A} (text pre mid post : list A) a b :
  text = pre ++ mid ++ post -> a = len pre -> b = len pre + len mid -> slice text a b = Some mid.
Proof.
  intros -> -> ->. unfold slice, len. rewrite !app_length.
  replace ((N.of_nat (length pre) <=? N.of_nat (length pre) + N.of_nat (length mid)) &&
           (N.of_nat (length pre) + N.of_nat (length mid) <=? N.of_nat (length pre + (length mid + length post)))) with true
    by (symmetry; apply andb_true_iff; split; apply N.leb_le; lia).
  rewrite N.add_comm, N.add_sub, !Nat2N.id.
  rewrite skipn_app, skipn_all, Nat.sub_diag. cbn [skipn app].
  rewrite firstn_app, firstn_all, Nat.sub_diag. cbn [firstn]. rewrite app_nil_r. reflexivity.
Qed.

Lemma aget_mid {A} (pre : list A) b t : aget (pre ++ b :: t) (len pre) = Some b.
Proof. unfold aget, len. rewrite Nat2N.id. rewrite nth_error_app2 by lia. rewrite Nat.sub_diag. reflexivity. Qed.

Lemma fold_left_ext {A B} (f g : A -> B -> A) (H : forall a b, f a b = g a b) l : forall a, fold_left f l a = fold_left g l a.
Proof. induction l as [|x l IH]; intros a; cbn [fold_left]; [reflexivity|]. rewrite H. apply IH. Qed.

(* ---- terminated_byte, handle_seq ------------------------------------------------------------------ *)

Lemma g_cansi_terminated_byte_eq b : g_cansi_terminated_byte b = rf_terminated b.
Proof. reflexivity. Qed.

(* a Match as parse records it: ESC [ <parameter bytes> <terminating byte> *)
Lemma g_cansi_handle_seq_eq a e p tb :
  g_cansi_handle_seq (mkRfMatch a e (27 :: 91 :: p ++ [tb])) = Some (rf_handle_seq p).
Proof.
  unfold g_cansi_handle_seq. cbn [rfm_text].
  replace (len (27 :: 91 :: p ++ [tb])) with (len p + 3)
    by (unfold len; cbn [length]; rewrite app_length; cbn [length]; lia).
  unfold csub. replace (1 <=? len p + 3) with true by (symmetry; apply N.leb_le; lia).
  rewrite (slice_mid (27 :: 91 :: p ++ [tb]) [27; 91] p [tb]); [|reflexivity|reflexivity|unfold len; cbn [length]; lia].
  unfold rf_handle_seq, g_cansi_SEPARATOR. f_equal. apply fold_left_ext. exact g_cansi_adjust_sgr_eq.
Qed.

(* ---- parse ------------------------------------------------------------------------------------------ *)

(* the parameter bytes up to the first terminating byte, that byte, the rest *)
Fixpoint rf_csi_scan (r : list N) : option (list N * N * list N) :=
  match r with
  | [] => None
  | b :: t => if rf_terminated b then Some ([], b, t)
              else match rf_csi_scan t with Some (p, tb, r') => Some (b :: p, tb, r') | None => None end
  end.

Lemma rf_csi_scan_some r : forall p tb r', rf_csi_scan r = Some (p, tb, r') -> r = p ++ tb :: r' /\ rf_terminated tb = true.
Proof.
  induction r as [|b t IH]; intros p tb r' H; cbn [rf_csi_scan] in H; [discriminate|].
  destruct (rf_terminated b) eqn:T.
  - inversion H; subst. split; [reflexivity|exact T].
  - destruct (rf_csi_scan t) as [[[p0 tb0] r0]|]; [|discriminate]. inversion H; subst.
    destruct (IH _ _ _ eq_refl) as [-> HT]. split; [reflexivity|exact HT].
Qed.

(* the matches of parse as a function of the text that is left ([off] = its offset); [n] bounds the number of steps *)
Fixpoint rf_matches (n : nat) (off : N) (s : list N) : list rf_match :=
  match n with
  | O => []
  | S n' =>
      if rf_starts_with s [27; 91] then
        match rf_csi_scan (skipn 2 s) with
        | Some (p, tb, r') =>
            let e := off + 2 + len p + 1 in
            mkRfMatch off e (27 :: 91 :: p ++ [tb]) :: rf_matches n' e r'
        | None => []
        end
      else
        match rf_chars_next s with
        | Some c => rf_matches n' (off + len c) (skipn (length c) s)
        | None => []
        end
  end.

Lemma rf_starts_with_csi s : rf_starts_with s [27; 91] = true -> exists r, s = 27 :: 91 :: r.
Proof.
  destruct s as [|a [|b r]]; cbn [rf_starts_with]; intros H; try discriminate.
  - rewrite andb_false_r in H. discriminate.
  - apply andb_true_iff in H as [H1 H2]. apply andb_true_iff in H2 as [H2 _]. apply N.eqb_eq in H1, H2. subst. exists r. reflexivity.
Qed.

Lemma rf_utf8_width_pos b : exists k, N.to_nat (rf_utf8_width b) = S k.
Proof. unfold rf_utf8_width. destruct (b <? 128); [exists 0%nat; reflexivity|]. destruct (b <? 224); [exists 1%nat; reflexivity|]. destruct (b <? 240); [exists 2%nat|exists 3%nat]; reflexivity. Qed.

(* the inner loop: `while end < text.len() && !terminated_byte(text.as_bytes()[end]) { end += 1 }` *)
Lemma cansi_inner_loop text F :
  (forall e, F e = (v <- (if e <? len text then el <- aget text e ;; Some (negb (g_cansi_terminated_byte el)) else Some false) ;;
                    if v then Some (BNext (e + 1)) else Some (BBreak e))) ->
  forall r pre fuel, text = pre ++ r -> (length r < fuel)%nat ->
  while_fuel0 fuel F (len pre) =
  Some (match rf_csi_scan r with Some (p, _, _) => len pre + len p | None => len text end).
Proof.
  intros HF. induction r as [|b t IH]; intros pre fuel Ht Hf; (destruct fuel as [|fuel]; [lia|]); cbn [while_fuel0]; rewrite HF.
  - subst text. rewrite app_nil_r, N.ltb_irrefl. cbn [rf_csi_scan]. reflexivity.
  - replace (len pre <? len text) with true by (symmetry; apply N.ltb_lt; subst text; rewrite len_app; unfold len; cbn [length]; lia).
    subst text. rewrite aget_mid. cbn [rf_csi_scan]. rewrite g_cansi_terminated_byte_eq.
    destruct (rf_terminated b); cbn [negb].
    + unfold len at 3. cbn [length]. rewrite N.add_0_r. reflexivity.
    + replace (len pre + 1) with (len (pre ++ [b])) by (rewrite len_app; reflexivity).
      rewrite (IH (pre ++ [b]) fuel) by (rewrite <- ?app_assoc; cbn [app length] in *; try reflexivity; lia).
      destruct (rf_csi_scan t) as [[[p tb] r']|]; [|reflexivity].
      rewrite len_app. unfold len. cbn [length]. f_equal. lia.
Qed.

Lemma cansi_inner_loop' text F :
  (forall e, F e = (v <- (if e <? len text then el <- aget text e ;; Some (negb (g_cansi_terminated_byte el)) else Some false) ;;
                    if v then Some (BNext (e + 1)) else Some (BBreak e))) ->
  forall r pre fuel e0, text = pre ++ r -> e0 = len pre -> (length r < fuel)%nat ->
  while_fuel0 fuel F e0 =
  Some (match rf_csi_scan r with Some (p, _, _) => e0 + len p | None => len text end).
Proof. intros HF r pre fuel e0 Ht -> Hf. exact (cansi_inner_loop text F HF r pre fuel Ht Hf). Qed.

Lemma rf_matches_short n off s : (length s < 2)%nat -> rf_matches n off s = [].
Proof.
  intros H. destruct n as [|n]; [reflexivity|]. destruct s as [|b [|c s]]; cbn [length] in H; try lia.
  - reflexivity.
  - cbn [rf_matches rf_starts_with]. rewrite andb_false_r. cbn [rf_chars_next].
    destruct (rf_utf8_width_pos b) as [k ->]. cbn [firstn length skipn]. destruct k; cbn [firstn length skipn];
      (destruct n as [|n]; reflexivity).
Qed.

Definition parse_v (st : list rf_match * list N * N * N) : list rf_match := fst (fst (fst st)).

Theorem g_cansi_parse_eq text : g_cansi_parse text = Some (rf_matches (S (S (length text))) 0 text).
Proof.
  unfold g_cansi_parse. cbv zeta.
  match goal with |- context [while_fuel0 _ ?f ([], text, 0, _)] => set (step := f) end.
  assert (L : forall fuel v pre s a, text = pre ++ s -> a = len pre -> (length s < fuel)%nat ->
              option_map parse_v (while_fuel0 fuel step (v, s, a, a + 2)) = Some (v ++ rf_matches fuel a s)).
  { induction fuel as [|f IH]; intros v pre s a Ht Ha Hf; [lia|].
    cbn [while_fuel0]. unfold step at 1. cbv zeta.
    assert (Hlen : len text = a + len s) by (subst text a; apply len_app).
    destruct (a + 2 <=? len text) eqn:E2.
    2:{ cbn [option_map parse_v fst]. apply N.leb_gt in E2.
        rewrite rf_matches_short by (unfold len in *; lia). rewrite app_nil_r. reflexivity. }
    apply N.leb_le in E2. change g_cansi_CSI with [27; 91]. change (len [27; 91]) with 2.
    destruct (rf_starts_with s [27; 91]) eqn:ES.
    - destruct (rf_starts_with_csi s ES) as [r ->].
      match goal with |- context [while_fuel0 _ ?F (a + 2)] =>
        rewrite (cansi_inner_loop' text F (fun _ => eq_refl) r (pre ++ [27; 91]) (S (length text)) (a + 2))
      end.
      2:{ rewrite <- app_assoc. exact Ht. }
      2:{ rewrite len_app, Ha. reflexivity. }
      2:{ subst text. rewrite app_length. cbn [length]. lia. }
      cbn [rf_matches]. rewrite ES. cbn [skipn].
      destruct (rf_csi_scan r) as [[[p tb] r']|] eqn:SC.
      + destruct (rf_csi_scan_some r p tb r' SC) as [-> _].
        assert (Hl2 : len text = a + 2 + len p + 1 + len r').
        { rewrite Hlen. unfold len. cbn [length]. rewrite app_length. cbn [length]. lia. }
        replace (len text <? a + 2 + len p + 1) with false by (symmetry; apply N.ltb_ge; lia).
        rewrite (slice_mid text pre (27 :: 91 :: p ++ [tb]) r' a (a + 2 + len p + 1)).
        2:{ rewrite Ht. cbn [app]. rewrite <- app_assoc. reflexivity. }
        2:{ exact Ha. }
        2:{ subst a. unfold len. cbn [length]. rewrite app_length. cbn [length]. lia. }
        rewrite (slice_mid text (pre ++ 27 :: 91 :: p ++ [tb]) r' [] (a + 2 + len p + 1) (len text)).
        2:{ rewrite Ht, app_nil_r, <- app_assoc. cbn [app]. rewrite <- app_assoc. reflexivity. }
        2:{ subst a. rewrite len_app. unfold len. cbn [length]. rewrite app_length. cbn [length]. lia. }
        2:{ rewrite Hl2, len_app. subst a. unfold len. cbn [length]. rewrite app_length. cbn [length]. lia. }
        rewrite (IH (v ++ [mkRfMatch a (a + 2 + len p + 1) (27 :: 91 :: p ++ [tb])]) (pre ++ 27 :: 91 :: p ++ [tb]) r' (a + 2 + len p + 1)).
        * rewrite <- app_assoc. reflexivity.
        * rewrite Ht, <- app_assoc. cbn [app]. rewrite <- app_assoc. reflexivity.
        * subst a. rewrite len_app. unfold len. cbn [length]. rewrite app_length. cbn [length]. lia.
        * cbn [length] in Hf. rewrite app_length in Hf. cbn [length] in Hf. lia.
      + replace (len text <? len text + 1) with true by (symmetry; apply N.ltb_lt; lia).
        cbn [option_map parse_v fst]. rewrite app_nil_r. reflexivity.
    - destruct s as [|b t]; [unfold len in *; cbn [length] in *; lia|].
      cbn [rf_matches]. rewrite ES. cbn [rf_chars_next]. set (c := firstn (N.to_nat (rf_utf8_width b)) (b :: t)).
      assert (Hc : b :: t = c ++ skipn (length c) (b :: t)).
      { unfold c. rewrite firstn_length. rewrite <- (firstn_skipn (N.to_nat (rf_utf8_width b)) (b :: t)) at 1.
        f_equal. destruct (Nat.min_spec (N.to_nat (rf_utf8_width b)) (length (b :: t))) as [[_ ->]|[Hge ->]]; [reflexivity|].
        rewrite !skipn_all2 by lia. reflexivity. }
      assert (Hcpos : (1 <= length c)%nat).
      { unfold c. destruct (rf_utf8_width_pos b) as [k ->]. cbn [firstn length]. lia. }
      unfold rf_char_len_utf8. fold (len c).
      rewrite (slice_mid text (pre ++ c) (skipn (length c) (b :: t)) [] (a + len c) (len text)).
      2:{ rewrite Ht, app_nil_r, <- app_assoc, <- Hc. reflexivity. }
      2:{ rewrite len_app, Ha. reflexivity. }
      2:{ rewrite Hlen, len_app. rewrite Hc at 1. rewrite len_app. lia. }
      rewrite (IH v (pre ++ c) (skipn (length c) (b :: t)) (a + len c)).
      * reflexivity.
      * rewrite Ht, <- app_assoc, <- Hc. reflexivity.
      * rewrite len_app, Ha. reflexivity.
      * rewrite skipn_length. cbn [length] in Hf |- *. lia. }
  specialize (L (S (S (length text))) [] [] text 0 eq_refl eq_refl ltac:(lia)).
  change (0 + len g_cansi_CSI) with (0 + 2).
  destruct (while_fuel0 (S (S (length text))) step ([], text, 0, 0 + 2)) as [[[[v6 s4] a] b]|]; cbn [option_map parse_v fst] in L; [|discriminate].
  inversion L. reflexivity.
Qed.

(* ---- the byte machine of the hand model, seen char by char -------------------------------------------- *)

(* a string of UTF-8 shaped chars: every char is a lead byte announcing its width followed by width - 1 bytes >= 80
   (implied by UTF-8 validity, hence by the type &str) *)
Inductive rf_utf8_ok : list N -> Prop :=
  | U8nil : rf_utf8_ok []
  | U8char b cs t : length (b :: cs) = N.to_nat (rf_utf8_width b) -> Forall (fun c => 128 <= c) cs ->
                    rf_utf8_ok t -> rf_utf8_ok (b :: cs ++ t).

Lemma rf_utf8_ascii b cs : length (b :: cs) = N.to_nat (rf_utf8_width b) -> b < 128 -> cs = [].
Proof.
  unfold rf_utf8_width. intros H Hb. apply N.ltb_lt in Hb. rewrite Hb in H. cbn [length] in H.
  destruct cs; [reflexivity|cbn [length] in H; lia].
Qed.

(* an ASCII byte is a char of its own: what follows it is again a string of chars *)
Lemma rf_utf8_ok_after_ascii l : rf_utf8_ok l -> forall p b t, l = p ++ b :: t -> b < 128 -> rf_utf8_ok t.
Proof.
  induction 1 as [|b0 cs t0 Hw Hcs Hok IH]; intros p b t E Hb.
  - destruct p; discriminate.
  - destruct p as [|x p]; cbn [app] in E; injection E as E1 E2.
    + subst b0. rewrite (rf_utf8_ascii b cs Hw Hb) in E2. cbn [app] in E2. subst t0. exact Hok.
    + apply app_eq_app in E2 as [l [[Ea Eb]|[Ea Eb]]].
      * destruct l as [|y l].
        -- cbn [app] in Eb. apply (IH [] b t); [symmetry; exact Eb|exact Hb].
        -- cbn [app] in Eb. inversion Eb; subst. apply Forall_app in Hcs as [_ Hcs]. inversion Hcs; subst. lia.
      * exact (IH l b t Eb Hb).
Qed.

Lemma cat_go_high sgr cs : forall pend t, Forall (fun c => 128 <= c) cs ->
  rf_cat_go RfInText sgr pend (cs ++ t) = rf_cat_go RfInText sgr (rev cs ++ pend) t.
Proof.
  induction cs as [|c cs IH]; intros pend t H; [reflexivity|]. inversion H; subst.
  cbn [app rf_cat_go rev]. replace (c =? 27) with false by (symmetry; apply N.eqb_neq; lia).
  rewrite IH by assumption. rewrite <- app_assoc. reflexivity.
Qed.

Lemma cat_go_saw_esc sgr pend t : rf_starts_with (27 :: t) [27; 91] = false ->
  rf_cat_go RfSawEsc sgr pend t = rf_cat_go RfInText sgr (27 :: pend) t.
Proof.
  destruct t as [|b t]; [reflexivity|]. cbn [rf_cat_go]. intros H. destruct (b =? 91) eqn:E.
  - apply N.eqb_eq in E. subst b. cbn [rf_starts_with] in H. rewrite !N.eqb_refl in H. destruct t; discriminate H.
  - destruct (b =? 27); reflexivity.
Qed.

Lemma cat_go_csi sgr pend r : forall acc,
  rf_cat_go (RfInCsi acc) sgr pend r =
  match rf_csi_scan r with
  | Some (p, _, r') => rf_flush sgr pend ++ rf_cat_go RfInText (rf_handle_seq (rev (rev p ++ acc))) [] r'
  | None => rf_flush sgr (rev r ++ acc ++ 91 :: 27 :: pend)
  end.
Proof.
  induction r as [|b t IH]; intros acc; cbn [rf_cat_go rf_csi_scan]; [reflexivity|].
  destruct (rf_terminated b); [reflexivity|]. rewrite IH.
  destruct (rf_csi_scan t) as [[[p tb] r']|]; cbn [rev]; rewrite <- app_assoc; reflexivity.
Qed.

(* ---- categorise_text_v3 ---------------------------------------------------------------------------------- *)

Lemma g_cansi_with_sgr_eq sgr text a b : g_cansi_with_sgr sgr text a b = (sgr, text).
Proof. destruct sgr. reflexivity. Qed.

(* the tail of categorise_text_v3: the text after the last match *)
Definition cat_fin (text : list N) (o : option (rf_sgr * N * list rf_cat)) : option (list rf_cat) :=
  match o with
  | None => None
  | Some (sgr, lo, slices) =>
      if negb (lo =? len text) then sl <- slice text lo (len text) ;; Some (slices ++ [(sgr, sl)]) else Some slices
  end.

Lemma rf_flush_rev sgr q : rf_flush sgr (rev q) = match q with [] => [] | _ => [(sgr, q)] end.
Proof.
  destruct q as [|x q]; [reflexivity|]. unfold rf_flush. rewrite rev_involutive.
  destruct (rev (x :: q)) eqn:E; [|reflexivity]. apply (f_equal (@length N)) in E. rewrite rev_length in E. discriminate.
Qed.

Lemma len_cons_ne {A} (x : A) q a : a + len (x :: q) =? a = false.
Proof. apply N.eqb_neq. unfold len. cbn [length]. lia. Qed.

Theorem g_cansi_categorise_text_eq text : rf_utf8_ok text -> g_cansi_categorise_text text = Some (rf_categorise text).
Proof.
  intros Hok. unfold g_cansi_categorise_text. rewrite g_cansi_parse_eq. cbv zeta.
  match goal with |- context [for_list0 ?f _ _] => set (step := f) end.
  assert (C : forall n s pre q sgr slices lo off, text = pre ++ q ++ s -> rf_utf8_ok s -> (length s < n)%nat ->
              lo = len pre -> off = len pre + len q ->
              cat_fin text (for_list0 step (rf_matches n off s) (sgr, lo, slices)) =
              Some (slices ++ rf_cat_go RfInText sgr (rev q) s)).
  { induction n as [|n IH]; intros s pre q sgr slices lo off Ht Hs Hn -> ->; [lia|].
    inversion Hs as [|b cs t Hw Hcs Ht0]; subst s.
    - (* the end of the text *)
      cbn [rf_matches rf_starts_with rf_chars_next for_list0 cat_fin rf_cat_go]. rewrite rf_flush_rev.
      rewrite app_nil_r in Ht. destruct q as [|x q].
      + rewrite app_nil_r in Ht. subst text. rewrite N.eqb_refl. cbn [negb]. rewrite app_nil_r. reflexivity.
      + replace (len pre =? len text) with false by (symmetry; apply N.eqb_neq; subst text; rewrite len_app; unfold len; cbn [length]; lia).
        cbn [negb]. rewrite (slice_mid text pre (x :: q) [] (len pre) (len text)).
        * reflexivity.
        * rewrite app_nil_r. exact Ht.
        * reflexivity.
        * subst text. apply len_app.
    - cbn [rf_matches]. destruct (rf_starts_with (b :: cs ++ t) [27; 91]) eqn:ES.
      + (* a CSI sequence *)
        destruct (rf_starts_with_csi _ ES) as [r Er]. inversion Er as [[Eb Er']]. subst b.
        rewrite (rf_utf8_ascii 27 cs Hw) in * by lia. cbn [app] in *. subst t. cbn [skipn].
        cbn [rf_cat_go]. rewrite N.eqb_refl. cbn [rf_cat_go]. rewrite N.eqb_refl. rewrite cat_go_csi.
        destruct (rf_csi_scan r) as [[[p tb] r']|] eqn:SC.
        * destruct (rf_csi_scan_some r p tb r' SC) as [-> HT]. rewrite app_nil_r, rev_involutive.
          cbn [for_list0]. unfold step at 1. cbn [rfm_start rfm_end].
          rewrite g_cansi_handle_seq_eq.
          assert (Hpush : (if negb (len pre + len q =? len pre)
                           then sl <- slice text (len pre) (len pre + len q) ;;
                                Some (slices ++ [g_cansi_with_sgr sgr sl (len pre) (len pre + len q)])
                           else Some slices) = Some (slices ++ rf_flush sgr (rev q))).
          { rewrite rf_flush_rev. destruct q as [|x q].
            - change (len (@nil N)) with 0. rewrite N.add_0_r, N.eqb_refl. cbn [negb]. rewrite app_nil_r. reflexivity.
            - rewrite len_cons_ne. cbn [negb].
              rewrite (slice_mid text pre (x :: q) (27 :: 91 :: (p ++ tb :: r')) (len pre) (len pre + len (x :: q)) Ht eq_refl eq_refl).
              rewrite g_cansi_with_sgr_eq. reflexivity. }
          rewrite Hpush. clear Hpush.
          assert (Hok' : rf_utf8_ok r').
          { apply (rf_utf8_ok_after_ascii _ Ht0 (91 :: p) tb r' eq_refl). unfold rf_terminated in HT.
            apply andb_true_iff in HT as [_ HT]. apply N.leb_le in HT. lia. }
          assert (Hn' : (length r' < n)%nat).
          { cbn [length] in Hn. rewrite app_length in Hn. cbn [length] in Hn. lia. }
          assert (Ht' : text = (pre ++ q ++ 27 :: 91 :: p ++ [tb]) ++ [] ++ r').
          { rewrite Ht. cbn [app]. rewrite <- !app_assoc. cbn [app]. rewrite <- app_assoc. reflexivity. }
          assert (He : len pre + len q + 2 + len p + 1 = len (pre ++ q ++ 27 :: 91 :: p ++ [tb])).
          { rewrite !len_app. unfold len. cbn [length]. rewrite app_length. cbn [length]. lia. }
          rewrite (IH r' _ [] _ _ _ _ Ht' Hok' Hn' He).
          -- cbn [rev app]. rewrite <- app_assoc. reflexivity.
          -- rewrite He. change (len (@nil N)) with 0. lia.
        * (* never terminated: all of it is text *)
          cbn [for_list0 cat_fin app].
          replace (len pre =? len text) with false
            by (symmetry; apply N.eqb_neq; subst text; rewrite !len_app; unfold len; cbn [length]; lia).
          cbn [negb]. rewrite (slice_mid text pre (q ++ 27 :: 91 :: r) [] (len pre) (len text)).
          -- f_equal. f_equal. unfold rf_flush.
             destruct (rev r ++ 91 :: 27 :: rev q) eqn:E; [destruct (rev r); discriminate|]. rewrite <- E.
             rewrite rev_app_distr. cbn [rev]. rewrite rev_involutive, rev_involutive, <- !app_assoc. reflexivity.
          -- rewrite app_nil_r. exact Ht.
          -- reflexivity.
          -- subst text. apply len_app.
      + (* one char of text *)
        assert (Hc : firstn (N.to_nat (rf_utf8_width b)) (b :: cs ++ t) = b :: cs).
        { rewrite <- Hw. change (b :: cs ++ t) with ((b :: cs) ++ t). rewrite firstn_app, firstn_all, Nat.sub_diag. cbn [firstn]. apply app_nil_r. }
        cbn [rf_chars_next]. rewrite Hc. change (b :: cs ++ t) with ((b :: cs) ++ t) at 1.
        rewrite skipn_app, skipn_all, Nat.sub_diag. cbn [skipn app].
        rewrite (IH t pre (q ++ b :: cs) _ _ (len pre) _).
        * f_equal. f_equal. rewrite rev_app_distr. cbn [rev]. rewrite <- app_assoc. cbn [app rf_cat_go].
          destruct (b =? 27) eqn:Eb.
          -- apply N.eqb_eq in Eb. subst b. rewrite (rf_utf8_ascii 27 cs Hw) in * by lia. cbn [app rev] in *.
             symmetry. apply cat_go_saw_esc. exact ES.
          -- symmetry. apply cat_go_high. exact Hcs.
        * rewrite Ht, <- !app_assoc. reflexivity.
        * exact Ht0.
        * cbn [length] in Hn. rewrite app_length in Hn. lia.
        * reflexivity.
        * rewrite len_app. lia. }
  specialize (C (S (S (length text))) text [] [] rf_sgr_default [] 0 0 eq_refl Hok ltac:(lia) eq_refl eq_refl).
  destruct (for_list0 step (rf_matches (S (S (length text))) 0 text) (rf_sgr_default, 0, [])) as [[[sg lo] sl]|];
    cbn [cat_fin] in C; [|discriminate].
  unfold rf_categorise. cbn [rev app] in C.
  destruct (negb (lo =? len text)).
  - destruct (slice text lo (len text)) as [x|]; [|discriminate]. rewrite g_cansi_with_sgr_eq. exact C.
  - exact C.
Qed.

(* ---- the hypothesis is what a &str satisfies ------------------------------------------------------------ *)

(* the UTF-8 encoding of ANY list of code points (Model/Text.v [str_bytes], the development's notion of the bytes of
   a Rust string) is a string of UTF-8 shaped chars *)
Ltac dlia := repeat match goal with |- context [?a / ?b] => let d := fresh "d" in set (d := a / b) in *; clearbody d end; lia.

Lemma rf_utf8_ok_encode c t : rf_utf8_ok t -> rf_utf8_ok (Model.Text.utf8_encode c ++ t).
Proof.
  intros Ht. unfold Model.Text.utf8_encode.
  destruct (c <? 128) eqn:E1.
  - apply (U8char c [] t); [|constructor|exact Ht]. unfold rf_utf8_width. rewrite E1. reflexivity.
  - apply N.ltb_ge in E1. destruct (c <? 2048) eqn:E2.
    + apply N.ltb_lt in E2. assert (c / 64 < 32) by (apply N.div_lt_upper_bound; lia).
      apply (U8char (192 + c / 64) [128 + c mod 64] t); [|repeat (apply Forall_cons; [apply N.le_add_r|]); apply Forall_nil|exact Ht].
      unfold rf_utf8_width. replace (192 + c / 64 <? 128) with false by (symmetry; apply N.ltb_ge; dlia).
      replace (192 + c / 64 <? 224) with true by (symmetry; apply N.ltb_lt; dlia). reflexivity.
    + apply N.ltb_ge in E2. destruct (c <? 65536) eqn:E3.
      * apply N.ltb_lt in E3. assert (c / 4096 < 16) by (apply N.div_lt_upper_bound; lia).
        apply (U8char (224 + c / 4096) [128 + (c / 64) mod 64; 128 + c mod 64] t); [|repeat (apply Forall_cons; [apply N.le_add_r|]); apply Forall_nil|exact Ht].
        unfold rf_utf8_width. replace (224 + c / 4096 <? 128) with false by (symmetry; apply N.ltb_ge; dlia).
        replace (224 + c / 4096 <? 224) with false by (symmetry; apply N.ltb_ge; dlia).
        replace (224 + c / 4096 <? 240) with true by (symmetry; apply N.ltb_lt; dlia). reflexivity.
      * apply (U8char (240 + c / 262144) [128 + (c / 4096) mod 64; 128 + (c / 64) mod 64; 128 + c mod 64] t);
          [|repeat (apply Forall_cons; [apply N.le_add_r|]); apply Forall_nil|exact Ht].
        unfold rf_utf8_width. replace (240 + c / 262144 <? 128) with false by (symmetry; apply N.ltb_ge; dlia).
        replace (240 + c / 262144 <? 224) with false by (symmetry; apply N.ltb_ge; dlia).
        replace (240 + c / 262144 <? 240) with false by (symmetry; apply N.ltb_ge; dlia). reflexivity.
Qed.

Theorem rf_utf8_ok_str_bytes w : rf_utf8_ok (Model.Text.str_bytes w).
Proof.
  unfold Model.Text.str_bytes. induction w as [|c w IH]; [constructor|]. cbn [flat_map]. apply rf_utf8_ok_encode. exact IH.
Qed.

Lemma rf_utf8_ok_ascii l : Forall (fun b => b < 128) l -> rf_utf8_ok l.
Proof.
  induction 1 as [|b t Hb _ IH]; [constructor|]. apply (U8char b [] t); [|constructor|exact IH].
  unfold rf_utf8_width. apply N.ltb_lt in Hb. rewrite Hb. reflexivity.
Qed.

(* ---- entry points -------------------------------------------------------------------------------------------- *)

(* cansi::v3::categorise_text as translated IS the hand model's one-pass categoriser, on every Rust string *)
Theorem translated_cansi_categorise_is_model : forall w : list N,
  g_cansi_categorise_text (Model.Text.str_bytes w) = Some (rf_categorise (Model.Text.str_bytes w)).
Proof. intros w. apply g_cansi_categorise_text_eq. apply rf_utf8_ok_str_bytes. Qed.

(* what anstyle_roff::to_roff(text).to_roff() computes when cansi is the TRANSLATED crate: the translated categoriser,
   the lines of anstyle-roff (hand model [rf_doc_lines], itself proved equal to the translated lib.rs in
   Proofs/RoffGen.v), roff's renderer -- is the hand model the theorems of C15 are about *)
Theorem translated_cansi_to_roff_is_model : forall input : list N, rf_utf8_ok input ->
  (cs <- g_cansi_categorise_text input ;; ls <- rf_doc_lines cs ;; Some (rf_render ls)) = rf_to_roff input.
Proof. intros input H. rewrite (g_cansi_categorise_text_eq input H). reflexivity. Qed.
