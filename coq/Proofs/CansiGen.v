(* Proofs/CansiGen.v -- cansi 2.2.1 (third party; src/{parsing.rs,categorise.rs,lib.rs} of the cargo registry copy pinned
   by Cargo.lock) as TRANSLATED by tools/gen_fn_cansi.py (Generated/CansiFn.v) is extensionally equal to the hand model
   [rf_categorise] (Model/Roff.v) the theorems of C15 are about.

   The hand model is ONE left-to-right pass over the bytes (a three-state machine); the crate works in two passes
   over byte OFFSETS: parse finds the CSI sequences (Match { start, end, text }), stepping over one char at a time
   elsewhere; categorise_text_v3 cuts the text between the matches and reads every sequence with handle_seq / adjust_sgr.
   [rf_matches] below is the list of matches as a structural function of the remaining text; the parse loops are proved
   equal to it for EVERY byte string; the categorise loop over [rf_matches] is proved equal to the state machine for
   every string that is a sequence of UTF-8 shaped chars ([rf_utf8_ok]: what a Rust &str holds) -- stepping by chars
   and stepping by bytes differ on other byte strings (a lead byte directly followed by ESC). *)
From Coq Require Import NArith Arith List Bool Lia.
From AV Require Import Model.Base Model.Imp Generated.Roff Model.Roff Generated.CansiFn Proofs.CansiSgr.
Import ListNotations.
Local Open Scope N_scope.

(* ---- list / slice geometry ------------------------------------------------------------------------ *)

Lemma len_app {A} (a b : list A) : len (a ++ b) = len a + len b.
Proof. unfold len. rewrite app_length. lia. Qed.

Lemma slice_mid {A} (text pre mid post : list A) a b :
  text = pre ++ mid ++ post -> a = len pre -> b = len pre + len mid -> slice text a b = Some mid.
Proof.
  intros -> -> ->. unfold slice, len. rewrite !app_length.
  replace ((N.of_nat (length pre) <=? N.of_nat (length pre) + N.of_nat (length mid)) &&
           (N.of_nat (length pre) + N.of_nat (length mid) <=? N.of_nat (length pre + (length mid + length post)))) with true
    by (symmetry; apply andb_true_iff; split; apply N.leb_le; lia).
  rewrite N.add_comm, N.add_sub, !Nat2N.id.
  rewrite skipn_app, skipn_all, Nat.sub_diag. cbn [skipn app].
  rewrite firstn_app, firstn_all, Nat.sub_diag. cbn [firstn]. rewrite app_nil_r. reflexivity.
Qed.

Lemma aget_mid {A} (pre : list A) b t : aget (pre ++ b :: t) (len pre) = Some b.
Proof. unfold aget, len. rewrite Nat2N.id. rewrite nth_error_app2 by lia. rewrite Nat.sub_diag. reflexivity. Qed.

Lemma fold_left_ext {A B} (f g : A -> B -> A) (H : forall a b, f a b = g a b) l : forall a, fold_left f l a = fold_left g l a.
Proof. induction l as [|x l IH]; intros a; cbn [fold_left]; [reflexivity|]. rewrite H. apply IH. Qed.

(* ---- terminated_byte, handle_seq ------------------------------------------------------------------ *)

Lemma g_cansi_terminated_byte_eq b : g_cansi_terminated_byte b = rf_terminated b.
Proof. reflexivity. Qed.

(* a Match as parse records it: ESC [ <parameter bytes> <terminating byte> *)
Lemma g_cansi_handle_seq_eq a e p tb :
  g_cansi_handle_seq (mkRfMatch a e (27 :: 91 :: p ++ [tb])) = Some (rf_handle_seq p).
Proof.
  unfold g_cansi_handle_seq. cbn [rfm_text].
  replace (len (27 :: 91 :: p ++ [tb])) with (len p + 3)
    by (unfold len; cbn [length]; rewrite app_length; cbn [length]; lia).
  unfold csub. replace (1 <=? len p + 3) with true by (symmetry; apply N.leb_le; lia).
  rewrite (slice_mid (27 :: 91 :: p ++ [tb]) [27; 91] p [tb]); [|reflexivity|reflexivity|unfold len; cbn [length]; lia].
  unfold rf_handle_seq, g_cansi_SEPARATOR. f_equal. apply fold_left_ext. exact g_cansi_adjust_sgr_eq.
Qed.

(* ---- parse ------------------------------------------------------------------------------------------ *)

(* the parameter bytes up to the first terminating byte, that byte, the rest *)
Fixpoint rf_csi_scan (r : list N) : option (list N * N * list N) :=
  match r with
  | [] => None
  | b :: t => if rf_terminated b then Some ([], b, t)
              else match rf_csi_scan t with Some (p, tb, r') => Some (b :: p, tb, r') | None => None end
  end.

Lemma rf_csi_scan_some r : forall p tb r', rf_csi_scan r = Some (p, tb, r') -> r = p ++ tb :: r' /\ rf_terminated tb = true.
Proof.
  induction r as [|b t IH]; intros p tb r' H; cbn [rf_csi_scan] in H; [discriminate|].
  destruct (rf_terminated b) eqn:T.
  - inversion H; subst. split; [reflexivity|exact T].
  - destruct (rf_csi_scan t) as [[[p0 tb0] r0]|]; [|discriminate]. inversion H; subst.
    destruct (IH _ _ _ eq_refl) as [-> HT]. split; [reflexivity|exact HT].
Qed.

(* the matches of parse as a function of the text that is left ([off] = its offset); [n] bounds the number of steps *)
Fixpoint rf_matches (n : nat) (off : N) (s : list N) : list rf_match :=
  match n with
  | O => []
  | S n' =>
      if rf_starts_with s [27; 91] then
        match rf_csi_scan (skipn 2 s) with
        | Some (p, tb, r') =>
            let e := off + 2 + len p + 1 in
            mkRfMatch off e (27 :: 91 :: p ++ [tb]) :: rf_matches n' e r'
        | None => []
        end
      else
        match rf_chars_next s with
        | Some c => rf_matches n' (off + len c) (skipn (length c) s)
        | None => []
        end
  end.

Lemma rf_starts_with_csi s : rf_starts_with s [27; 91] = true -> exists r, s = 27 :: 91 :: r.
Proof.
  destruct s as [|a [|b r]]; cbn [rf_starts_with]; intros H; try discriminate.
  - rewrite andb_false_r in H. discriminate.
  - apply andb_true_iff in H as [H1 H2]. apply andb_true_iff in H2 as [H2 _]. apply N.eqb_eq in H1, H2. subst. exists r. reflexivity.
Qed.

Lemma rf_utf8_width_pos b : exists k, N.to_nat (rf_utf8_width b) = S k.
Proof. unfold rf_utf8_width. destruct (b <? 128); [exists 0%nat; reflexivity|]. destruct (b <? 224); [exists 1%nat; reflexivity|]. destruct (b <? 240); [exists 2%nat|exists 3%nat]; reflexivity. Qed.

(* the inner loop: `while end < text.len() && !terminated_byte(text.as_bytes()[end]) { end += 1 }` *)
Lemma cansi_inner_loop text F :
  (forall e, F e = (v <- (if e <? len text then el <- aget text e ;; Some (negb (g_cansi_terminated_byte el)) else Some false) ;;
                    if v then Some (BNext (e + 1)) else Some (BBreak e))) ->
  forall r pre fuel, text = pre ++ r -> (length r < fuel)%nat ->
  while_fuel0 fuel F (len pre) =
  Some (match rf_csi_scan r with Some (p, _, _) => len pre + len p | None => len text end).
Proof.
  intros HF. induction r as [|b t IH]; intros pre fuel Ht Hf; (destruct fuel as [|fuel]; [lia|]); cbn [while_fuel0]; rewrite HF.
  - subst text. rewrite app_nil_r, N.ltb_irrefl. cbn [rf_csi_scan]. reflexivity.
  - replace (len pre <? len text) with true by (symmetry; apply N.ltb_lt; subst text; rewrite len_app; unfold len; cbn [length]; lia).
    subst text. rewrite aget_mid. cbn [rf_csi_scan]. rewrite g_cansi_terminated_byte_eq.
    destruct (rf_terminated b); cbn [negb].
    + unfold len at 3. cbn [length]. rewrite N.add_0_r. reflexivity.
    + replace (len pre + 1) with (len (pre ++ [b])) by (rewrite len_app; reflexivity).
      rewrite (IH (pre ++ [b]) fuel) by (rewrite <- ?app_assoc; cbn [app length] in *; try reflexivity; lia).
      destruct (rf_csi_scan t) as [[[p tb] r']|]; [|reflexivity].
      rewrite len_app. unfold len. cbn [length]. f_equal. lia.
Qed.

Lemma cansi_inner_loop' text F :
  (forall e, F e = (v <- (if e <? len text then el <- aget text e ;; Some (negb (g_cansi_terminated_byte el)) else Some false) ;;
                    if v then Some (BNext (e + 1)) else Some (BBreak e))) ->
  forall r pre fuel e0, text = pre ++ r -> e0 = len pre -> (length r < fuel)%nat ->
  while_fuel0 fuel F e0 =
  Some (match rf_csi_scan r with Some (p, _, _) => e0 + len p | None => len text end).
Proof. intros HF r pre fuel e0 Ht -> Hf. exact (cansi_inner_loop text F HF r pre fuel Ht Hf). Qed.

Lemma rf_matches_short n off s : (length s < 2)%nat -> rf_matches n off s = [].
Proof.
  intros H. destruct n as [|n]; [reflexivity|]. destruct s as [|b [|c s]]; cbn [length] in H; try lia.
  - reflexivity.
  - cbn [rf_matches rf_starts_with]. rewrite andb_false_r. cbn [rf_chars_next].
    destruct (rf_utf8_width_pos b) as [k ->]. cbn [firstn length skipn]. destruct k; cbn [firstn length skipn];
      (destruct n as [|n]; reflexivity).
Qed.

Definition parse_v (st : list rf_match * list N * N * N) : list rf_match := fst (fst (fst st)).

Theorem g_cansi_parse_eq text : g_cansi_parse text = Some (rf_matches (S (S (length text))) 0 text).
Proof.
  unfold g_cansi_parse. cbv zeta.
  match goal with |- context [while_fuel0 _ ?f ([], text, 0, _)] => set (step := f) end.
  assert (L : forall fuel v pre s a, text = pre ++ s -> a = len pre -> (length s < fuel)%nat ->
              option_map parse_v (while_fuel0 fuel step (v, s, a, a + 2)) = Some (v ++ rf_matches fuel a s)).
  { induction fuel as [|f IH]; intros v pre s a Ht Ha Hf; [lia|].
    cbn [while_fuel0]. unfold step at 1. cbv zeta.
    assert (Hlen : len text = a + len s) by (subst text a; apply len_app).
    destruct (a + 2 <=? len text) eqn:E2.
    2:{ cbn [option_map parse_v fst]. apply N.leb_gt in E2.
        rewrite rf_matches_short by (unfold len in *; lia). rewrite app_nil_r. reflexivity. }
    apply N.leb_le in E2. change g_cansi_CSI with [27; 91]. change (len [27; 91]) with 2.
    destruct (rf_starts_with s [27; 91]) eqn:ES.
    - destruct (rf_starts_with_csi s ES) as [r ->].
      match goal with |- context [while_fuel0 _ ?F (a + 2)] =>
        rewrite (cansi_inner_loop' text F (fun _ => eq_refl) r (pre ++ [27; 91]) (S (length text)) (a + 2))
      end.
      2:{ rewrite <- app_assoc. exact Ht. }
      2:{ rewrite len_app, Ha. reflexivity. }
      2:{ subst text. rewrite app_length. cbn [length]. lia. }
      cbn [rf_matches]. rewrite ES. cbn [skipn].
      destruct (rf_csi_scan r) as [[[p tb] r']|] eqn:SC.
      + destruct (rf_csi_scan_some r p tb r' SC) as [-> _].
        assert (Hl2 : len text = a + 2 + len p + 1 + len r').
        { rewrite Hlen. unfold len. cbn [length]. rewrite app_length. cbn [length]. lia. }
        replace (len text <? a + 2 + len p + 1) with false by (symmetry; apply N.ltb_ge; lia).
        rewrite (slice_mid text pre (27 :: 91 :: p ++ [tb]) r' a (a + 2 + len p + 1)).
        2:{ rewrite Ht. cbn [app]. rewrite <- app_assoc. reflexivity. }
        2:{ exact Ha. }
        2:{ subst a. unfold len. cbn [length]. rewrite app_length. cbn [length]. lia. }
        rewrite (slice_mid text (pre ++ 27 :: 91 :: p ++ [tb]) r' [] (a + 2 + len p + 1) (len text)).
        2:{ rewrite Ht, app_nil_r, <- app_assoc. cbn [app]. rewrite <- app_assoc. reflexivity. }
        2:{ subst a. rewrite len_app. unfold len. cbn [length]. rewrite app_length. cbn [length]. lia. }
        2:{ rewrite Hl2, len_app. subst a. unfold len. cbn [length]. rewrite app_length. cbn [length]. lia. }
        rewrite (IH (v ++ [mkRfMatch a (a + 2 + len p + 1) (27 :: 91 :: p ++ [tb])]) (pre ++ 27 :: 91 :: p ++ [tb]) r' (a + 2 + len p + 1)).
        * rewrite <- app_assoc. reflexivity.
        * rewrite Ht, <- app_assoc. cbn [app]. rewrite <- app_assoc. reflexivity.
        * subst a. rewrite len_app. unfold len. cbn [length]. rewrite app_length. cbn [length]. lia.
        * cbn [length] in Hf. rewrite app_length in Hf. cbn [length] in Hf. lia.
      + replace (len text <? len text + 1) with true by (symmetry; apply N.ltb_lt; lia).
        cbn [option_map parse_v fst]. rewrite app_nil_r. reflexivity.
    - destruct s as [|b t]; [unfold len in *; cbn [length] in *; lia|].
      cbn [rf_matches]. rewrite ES. cbn [rf_chars_next]. set (c := firstn (N.to_nat (rf_utf8_width b)) (b :: t)).
      assert (Hc : b :: t = c ++ skipn (length c) (b :: t)).
      { unfold c. rewrite firstn_length. rewrite <- (firstn_skipn (N.to_nat (rf_utf8_width b)) (b :: t)) at 1.
        f_equal. destruct (Nat.min_spec (N.to_nat (rf_utf8_width b)) (length (b :: t))) as [[_ ->]|[Hge ->]]; [reflexivity|].
        rewrite !skipn_all2 by lia. reflexivity. }
      assert (Hcpos : (1 <= length c)%nat).
      { unfold c. destruct (rf_utf8_width_pos b) as [k ->]. cbn [firstn length]. lia. }
      unfold rf_char_len_utf8. fold (len c).
      rewrite (slice_mid text (pre ++ c) (skipn (length c) (b :: t)) [] (a + len c) (len text)).
      2:{ rewrite Ht, app_nil_r, <- app_assoc, <- Hc. reflexivity. }
      2:{ rewrite len_app, Ha. reflexivity. }
      2:{ rewrite Hlen, len_app. rewrite Hc at 1. rewrite len_app. lia. }
      rewrite (IH v (pre ++ c) (skipn (length c) (b :: t)) (a + len c)).
      * reflexivity.
      * rewrite Ht, <- app_assoc, <- Hc. reflexivity.
      * rewrite len_app, Ha. reflexivity.
      * rewrite skipn_length. cbn [length] in Hf |- *. lia. }
  specialize (L (S (S (length text))) [] [] text 0 eq_refl eq_refl ltac:(lia)).
  change (0 + len g_cansi_CSI) with (0 + 2).
  destruct (while_fuel0 (S (S (length text))) step ([], text, 0, 0 + 2)) as [[[[v6 s4] a] b]|]; cbn [option_map parse_v fst] in L; [|discriminate].
  inversion L. reflexivity.
Qed.
