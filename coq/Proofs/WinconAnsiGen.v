(* Proofs/WinconAnsiGen.v -- `write_colored` TRANSLATED from crates/anstyle-wincon/src/ansi.rs
   (Generated/WinconAnsiFn.v, written by tools/gen_fn_wincon_ansi.py on every run) is extensionally
   equal to the hand model Model/WinconAnsi.wa_write_colored that the theorems of C17 are about:
   same inner writer afterwards (script, received bytes, call history), same io::Result.  A change
   to the Rust function changes the translation; if it changes its meaning, this proof fails. *)
From Coq Require Import NArith List Bool.
From AV Require Import Generated.Style Generated.WinconAnsi Spec.Io Spec.AnsiFrame Model.Base Model.Imp Model.WinconAnsi
  Generated.WinconAnsiFn Proofs.WinconAnsi.
Import ListNotations.
Local Open Scope N_scope.

(* one inner operation at a time, in evaluation order: the call both sides share is destructed once *)
Ltac wa_step :=
  match goal with
  | |- context [w_write_all ?w ?s] => destruct (w_write_all w s) as [? [[]|?]]
  | |- context [w_write ?w ?s] => destruct (w_write w s) as [? [?|?]]
  end; cbv beta iota zeta.

Lemma g_write_colored_eq w fg bg data :
  g_write_colored w fg bg data = wa_write_colored fg bg data w.
Proof.
  unfold g_write_colored, wa_write_colored, wa_write_opt, wa_raw_write, wa_raw_write_fmt1, wa_render_fg, wa_render_bg,
         wa_reset_render.
  destruct fg as [f|], bg as [b|]; cbn [opt_is_some wa_is_some orb]; cbv beta iota zeta.
  all: repeat wa_step; reflexivity.
Qed.

(* ---- entry point ------------------------------------------------------------------------ *)

Theorem translated_write_colored_is_model : forall w fg bg data,
  g_write_colored w fg bg data = wa_write_colored fg bg data w.
Proof. exact g_write_colored_eq. Qed.

(* hence the translated code computes the specification's coloured write (Spec/AnsiFrame) *)
Theorem translated_write_colored_is_spec : forall w fg bg data,
  g_write_colored w fg bg data = sa_write_colored (wa_idx fg) (wa_idx bg) data w.
Proof. intros. rewrite g_write_colored_eq. apply model_is_spec. Qed.

(* ---- crates/anstyle-wincon/src/stream.rs: the per-type `impl WinconStream for <T>` (non-Windows) ----
   Every impl is TRANSLATED (Generated/WinconAnsiFn.v, the g_wc_ definitions).  Each one hands `self` and the three
   arguments, in order, to `ansi::write_colored` exactly once and returns its answer: no buffering wrapper,
   no second write, no swapped colours.  Stdout / Stderr go through `self.lock()` (a view of the same
   stream) and then through the TRANSLATED impl of their lock type. *)
Ltac wc_forward f := intros; unfold f;
  match goal with |- context [let '(_, _) := ?c in _] => destruct c; reflexivity end.

Lemma g_wc_dyn_eq w fg bg data : g_wc_dyn w fg bg data = g_write_colored w fg bg data.
Proof. wc_forward g_wc_dyn. Qed.
Lemma g_wc_dyn_send_eq w fg bg data : g_wc_dyn_send w fg bg data = g_write_colored w fg bg data.
Proof. wc_forward g_wc_dyn_send. Qed.
Lemma g_wc_dyn_send_sync_eq w fg bg data : g_wc_dyn_send_sync w fg bg data = g_write_colored w fg bg data.
Proof. wc_forward g_wc_dyn_send_sync. Qed.
Lemma g_wc_file_eq w fg bg data : g_wc_file w fg bg data = g_write_colored w fg bg data.
Proof. wc_forward g_wc_file. Qed.
Lemma g_wc_vec_eq w fg bg data : g_wc_vec w fg bg data = g_write_colored w fg bg data.
Proof. wc_forward g_wc_vec. Qed.
Lemma g_wc_stdoutlock_eq w fg bg data : g_wc_stdoutlock w fg bg data = g_write_colored w fg bg data.
Proof. wc_forward g_wc_stdoutlock. Qed.
Lemma g_wc_stderrlock_eq w fg bg data : g_wc_stderrlock w fg bg data = g_write_colored w fg bg data.
Proof. wc_forward g_wc_stderrlock. Qed.
Lemma g_wc_stdout_eq w fg bg data : g_wc_stdout w fg bg data = g_write_colored w fg bg data.
Proof. rewrite <- g_wc_stdoutlock_eq. wc_forward g_wc_stdout. Qed.
Lemma g_wc_stderr_eq w fg bg data : g_wc_stderr w fg bg data = g_write_colored w fg bg data.
Proof. rewrite <- g_wc_stderrlock_eq. wc_forward g_wc_stderr. Qed.
(* the two generic impls forward to the pointee's impl [twc], whatever it is *)
Lemma g_wc_refmut_eq twc w fg bg data : g_wc_refmut twc w fg bg data = twc w fg bg data.
Proof. wc_forward g_wc_refmut. Qed.
Lemma g_wc_box_eq twc w fg bg data : g_wc_box twc w fg bg data = twc w fg bg data.
Proof. wc_forward g_wc_box. Qed.

(* the nine concrete impls, by name *)
Definition g_wc_impls : list (writer -> option ansi_color -> option ansi_color -> list N -> writer * (N + ekind)) :=
  [g_wc_dyn; g_wc_dyn_send; g_wc_dyn_send_sync; g_wc_file; g_wc_vec; g_wc_stdoutlock; g_wc_stderrlock; g_wc_stdout; g_wc_stderr].

Theorem translated_impls_are_write_colored : forall f, In f g_wc_impls ->
  forall w fg bg data, f w fg bg data = wa_write_colored fg bg data w.
Proof.
  intros f H w fg bg data. rewrite <- g_write_colored_eq. cbn [g_wc_impls In] in H.
  repeat (destruct H as [<-|H]; [first [apply g_wc_dyn_eq|apply g_wc_dyn_send_eq|apply g_wc_dyn_send_sync_eq|apply g_wc_file_eq
    |apply g_wc_vec_eq|apply g_wc_stdoutlock_eq|apply g_wc_stderrlock_eq|apply g_wc_stdout_eq|apply g_wc_stderr_eq]|]).
  destruct H.
Qed.

(* ... through any number of `&mut` / `Box` layers *)
Theorem translated_generic_impls_forward : forall twc w fg bg data,
  g_wc_refmut twc w fg bg data = twc w fg bg data /\ g_wc_box twc w fg bg data = twc w fg bg data.
Proof. intros. exact (conj (g_wc_refmut_eq _ _ _ _ _) (g_wc_box_eq _ _ _ _ _)). Qed.

Theorem translated_impls_are_spec : forall f, In f g_wc_impls ->
  forall w fg bg data, f w fg bg data = sa_write_colored (wa_idx fg) (wa_idx bg) data w.
Proof. intros f H w fg bg data. rewrite (translated_impls_are_write_colored f H). apply model_is_spec. Qed.
