(* Proofs/WinconAnsiGen.v -- `write_colored` TRANSLATED from crates/anstyle-wincon/src/ansi.rs
   (Generated/WinconAnsiFn.v, written by tools/gen_fn_wincon_ansi.py on every run) is extensionally
   equal to the hand model Model/WinconAnsi.wa_write_colored that the theorems of C17 are about:
   same inner writer afterwards (script, received bytes, call history), same io::Result.  A change
   to the Rust function changes the translation; if it changes its meaning, this proof fails. *)
From Coq Require Import NArith List Bool.
From AV Require Import Generated.Style Generated.WinconAnsi Spec.Io Spec.AnsiFrame Model.Base Model.Imp Model.WinconAnsi
  Generated.WinconAnsiFn Proofs.WinconAnsi.
Import ListNotations.
Local Open Scope N_scope.

(* one inner operation at a time, in evaluation order: the call both sides share is destructed once *)
Ltac wa_step :=
  match goal with
  | |- context [w_write_all ?w ?s] => destruct (w_write_all w s) as [? [[]|?]]
  | |- context [w_write ?w ?s] => destruct (w_write w s) as [? [?|?]]
  end; cbv beta iota zeta.

Lemma g_write_colored_eq w fg bg data :
  g_write_colored w fg bg data = wa_write_colored fg bg data w.
Proof.
  unfold g_write_colored, wa_write_colored, wa_write_opt, wa_raw_write, wa_raw_write_fmt1, wa_render_fg, wa_render_bg,
         wa_reset_render.
  destruct fg as [f|], bg as [b|]; cbn [opt_is_some wa_is_some orb]; cbv beta iota zeta.
  all: repeat wa_step; reflexivity.
Qed.

(* ---- entry point ------------------------------------------------------------------------ *)

Theorem translated_write_colored_is_model : forall w fg bg data,
  g_write_colored w fg bg data = wa_write_colored fg bg data w.
Proof. exact g_write_colored_eq. Qed.

(* hence the translated code computes the specification's coloured write (Spec/AnsiFrame) *)
Theorem translated_write_colored_is_spec : forall w fg bg data,
  g_write_colored w fg bg data = sa_write_colored (wa_idx fg) (wa_idx bg) data w.
Proof. intros. rewrite g_write_colored_eq. apply model_is_spec. Qed.
