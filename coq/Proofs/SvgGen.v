From Coq Require Import NArith List Bool Lia.
From AV Require Import Model.Base Model.Svg Generated.SvgFn.
