(* Proofs/SvgGen.v -- the functions translated from crates/anstyle-svg/src/lib.rs
   (Generated/SvgFn.v, tools/gen_fn_svg.py) are extensionally equal to the hand model
   Model/Svg.v the theorems of C14 are about. *)
From Coq Require Import NArith List Bool Lia.
From AV Require Import Generated.Style Generated.Palette Generated.Svg Spec.Sgr Spec.Lossy Model.Base Model.Imp
  Model.Parser Model.Wincon Model.Lossy Generated.LossyFn Proofs.LossyGen Generated.WinconFn Proofs.WinconGen
  Model.Svg Generated.SvgFn.
Import ListNotations.
Local Open Scope N_scope.

(* ---- colours ------------------------------------------------------------------ *)

Lemma svg_of_to_color c : svg_of_color (svg_to_color c) = c.
Proof. destruct c; reflexivity. Qed.

(* rgb_value *)
Lemma g_svg_rgb_value_eq o c p : g_svg_rgb_value o (svg_to_color c) p = svg_rgb_value c p.
Proof.
  unfold g_svg_rgb_value, svg_rgb_value. rewrite g_color_to_rgb_eq.
  destruct (color_to_rgb (svg_to_color c) p) as [[[r g] b]|]; reflexivity.
Qed.

(* color_name *)
Lemma g_svg_color_name_eq o prefix c : g_svg_color_name o prefix (svg_to_color c) = svg_color_name prefix c.
Proof.
  destruct c as [a | i | r g b]; unfold g_svg_color_name, svg_color_name; cbn [svg_to_color].
  - rewrite g_from_ansi_eq. destruct (from_ansi a) as [i|]; [|reflexivity].
    cbv zeta. rewrite g_a256_index_eq. destruct (aget svg_ansi_names i); reflexivity.
  - reflexivity.
  - reflexivity.
Qed.

(* color_styles: one `if let Some(color) = style.get_*_color() { colors.insert(..) }` *)
Lemma insert_stage o p prefix (c : option colour) m :
  match option_map svg_to_color c with
  | Some color1 =>
      r <- g_svg_color_name o prefix color1 ;;
      r1 <- g_svg_rgb_value o color1 p ;;
      Some (svg_btree_insert m r r1)
  | None => Some m
  end = svg_insert_colour p prefix c m.
Proof.
  destruct c as [c|]; cbn [option_map svg_insert_colour]; [|reflexivity].
  rewrite g_svg_color_name_eq, g_svg_rgb_value_eq. reflexivity.
Qed.

Lemma g_svg_color_styles_eq o styled p : g_svg_color_styles o styled p = svg_color_styles styled p [].
Proof.
  unfold g_svg_color_styles. cbv zeta.
  match goal with |- context [for_list0 ?f _ _] => set (F := f) end.
  assert (L : forall l m, for_list0 F l m = svg_color_styles l p m).
  { induction l as [|[s t] l IH]; intros m; cbn [for_list0 svg_color_styles]; [reflexivity|].
    unfold F at 1. cbv zeta. unfold svg_get_fg, svg_get_bg, svg_get_ul.
    rewrite (insert_stage o p svg_fg_prefix (s_fg s) m).
    destruct (svg_insert_colour p svg_fg_prefix (s_fg s) m) as [m1|]; [|reflexivity].
    rewrite (insert_stage o p svg_bg_prefix (s_bg s) m1).
    destruct (svg_insert_colour p svg_bg_prefix (s_bg s) m1) as [m2|]; [|reflexivity].
    rewrite (insert_stage o p svg_underline_prefix (s_ul s) m2).
    destruct (svg_insert_colour p svg_underline_prefix (s_ul s) m2) as [m3|]; [|reflexivity].
    apply IH. }
  rewrite L. destruct (svg_color_styles styled p []); reflexivity.
Qed.

(* ---- split_lines ---------------------------------------------------------------- *)

Lemma strip_suffix_cr s : opt_unwrap_or (svg_strip_suffix s 13) s = svg_strip_cr s.
Proof.
  induction s as [|c r IH]; [reflexivity|].
  cbn [svg_strip_suffix svg_strip_cr]. destruct r as [|d r'].
  - destruct (c =? 13); reflexivity.
  - revert IH. destruct (svg_strip_suffix (d :: r') 13) as [r1|]; cbn [opt_unwrap_or]; intros IH; rewrite <- IH; reflexivity.
Qed.

Lemma strip_last_eq (cl : list (sstyle * list N)) :
  match svg_last cl with
  | Some (w, last) => svg_set_last cl (w, opt_unwrap_or (svg_strip_suffix last 13) last)
  | None => cl
  end = svg_strip_last cl.
Proof.
  induction cl as [|x r IH]; [reflexivity|].
  cbn [svg_last svg_set_last svg_strip_last]. destruct r as [|y r'].
  - destruct x as [w last]. cbn [fst snd]. rewrite strip_suffix_cr. reflexivity.
  - revert IH. destruct (svg_last (y :: r')) as [[w last]|]; intros IH; rewrite <- IH; reflexivity.
Qed.

Lemma strip_last_eq_m (cl : list (sstyle * list N)) :
  match svg_last cl with
  | Some (w, last) => Some (svg_set_last cl (w, opt_unwrap_or (svg_strip_suffix last 13) last))
  | None => Some cl
  end = Some (svg_strip_last cl).
Proof. rewrite <- strip_last_eq. destruct (svg_last cl) as [[w last]|]; reflexivity. Qed.

Lemma split_once_length c s a b : svg_split_once c s = Some (a, b) -> length s = S (length a + length b).
Proof.
  revert a b. induction s as [|x r IH]; intros a b; cbn [svg_split_once]; [discriminate|].
  destruct (x =? c).
  - intros H. injection H as <- <-. reflexivity.
  - destruct (svg_split_once c r) as [[a' b']|]; [|discriminate].
    intros H. injection H as <- <-. cbn [length]. rewrite (IH a' b' eq_refl). reflexivity.
Qed.

(* the hand model scans characters; the code cuts at the first newline *)
Lemma run_loop_split style : forall next cur cl lines,
  svg_run_loop style next cur cl lines =
  match svg_split_once 10 next with
  | None => (lines, cl ++ [(style, cur ++ next)])
  | Some (a, b) =>
      svg_run_loop style b [] []
        (lines ++ [(if svg_is_nil (cur ++ a) then svg_strip_last cl else cl) ++ [(style, svg_strip_cr (cur ++ a))]])
  end.
Proof.
  induction next as [|c r IH]; intros cur cl lines; cbn [svg_run_loop svg_split_once].
  - rewrite app_nil_r. reflexivity.
  - destruct (c =? 10).
    + rewrite app_nil_r. reflexivity.
    + rewrite IH. destruct (svg_split_once 10 r) as [[a b]|]; rewrite <- app_assoc; reflexivity.
Qed.

Lemma map_pair_id {A B} (l : list (A * B)) : map (fun '(s1, t1) => (s1, t1)) l = l.
Proof. induction l as [|[a b] l IH]; cbn [map]; [reflexivity|]. rewrite IH. reflexivity. Qed.

Definition split_fin (st : list (list (sstyle * list N)) * list (sstyle * list N)) : list (list (sstyle * list N)) :=
  let '(l5, c10) := st in if is_empty c10 then l5 else l5 ++ [c10].

(* split_lines *)
Lemma g_svg_split_lines_eq o styled : g_svg_split_lines o styled = Some (svg_split_lines styled).
Proof.
  unfold g_svg_split_lines, svg_split_lines. cbv zeta. rewrite map_pair_id.
  match goal with |- context [for_list0 ?f _ _] => set (F := f) end.
  assert (L : forall l lines cl, option_map split_fin (for_list0 F l (lines, cl)) = Some (svg_split_go l cl lines)).
  { induction l as [|[s t] l IH]; intros lines cl; cbn [for_list0 svg_split_go].
    - cbn [option_map split_fin]. destruct cl; reflexivity.
    - unfold F at 1. cbv zeta.
      match goal with |- context [while_fuel0 _ ?f _] => set (W := f) end.
      assert (LW : forall fuel next lines cl, (length next < fuel)%nat ->
                option_map (fun '(l1, c1, n1) => (l1, c1 ++ [(s, n1)])) (while_fuel0 fuel W (lines, cl, next))
                = Some (svg_run_loop s next [] cl lines)).
      { induction fuel as [|fuel IHf]; intros next lines0 cl0 Hlt; [lia|].
        cbn [while_fuel0]. unfold W at 1. cbv zeta. rewrite run_loop_split. cbn [app].
        destruct (svg_split_once 10 next) as [[a b]|] eqn:E.
        - pose proof (split_once_length _ _ _ _ E) as Hl.
          change (is_empty a) with (svg_is_nil a).
          destruct (svg_is_nil a).
          + rewrite strip_last_eq_m. rewrite strip_suffix_cr. apply IHf. lia.
          + rewrite strip_suffix_cr. apply IHf. lia.
        - reflexivity. }
      specialize (LW (S (length t)) t lines cl (le_n _)).
      destruct (while_fuel0 (S (length t)) W (lines, cl, t)) as [[[l1 c1] n1]|]; cbn [option_map] in LW; [|discriminate].
      injection LW as LW. rewrite <- LW. apply IH. }
  specialize (L styled [] []).
  destruct (for_list0 F styled ([], [])) as [[l5 c10]|]; cbn [option_map split_fin] in L; [|discriminate].
  injection L as L. rewrite <- L. destruct (is_empty c10); reflexivity.
Qed.

(* ---- spans ---------------------------------------------------------------------- *)

(* `style.get_*_color().map(|c| color_name(PREFIX, c))` *)
Lemma class_stage o prefix (c : option colour) :
  match option_map svg_to_color c with
  | Some c1 => r <- g_svg_color_name o prefix c1 ;; Some (Some r)
  | None => Some None
  end = match c with
        | Some col => n <- svg_color_name prefix col ;; Some (Some n)
        | None => Some None
        end.
Proof. destruct c as [c|]; cbn [option_map]; [rewrite g_svg_color_name_eq|]; reflexivity. Qed.

Lemma if_push {A} (b : bool) (l : list A) (x : A) :
  (if b then Some (l ++ [x]) else Some l) = Some (l ++ if b then [x] else []).
Proof. destruct b; [|rewrite app_nil_r]; reflexivity. Qed.

Lemma filter_cons_app (f : N * list N -> bool) x r :
  map snd (filter f (x :: r)) = (if f x then [snd x] else []) ++ map snd (filter f r).
Proof. cbn [filter]. destruct (f x); reflexivity. Qed.

Ltac norm_app := repeat (progress (rewrite <- ?app_assoc; cbn [app])).

(* `TABLE.iter().filter(|(e, _)| test e).map(|(_, c)| *c)` over a table of pairs: whatever way the two closures take
   the pair apart (tuple pattern, `.0` / `.1`), they are the model's selection iff they agree with it on every pair *)
Lemma map_filter_pair_ext {A B} (f : A * B -> B) (g g' : A * B -> bool) l :
  (forall p, f p = snd p) -> (forall p, g p = g' p) -> map f (filter g l) = map snd (filter g' l).
Proof. intros Hf Hg. rewrite (filter_ext g g' Hg). apply map_ext. exact Hf. Qed.

(* the selection of effect classes, however it is spelled, in the model's spelling (nothing to do for the if-chain) *)
Ltac effect_selection s :=
  repeat match goal with
  | |- context [map ?f (filter ?g ?l)] =>
      lazymatch f with @snd _ _ => fail | _ => idtac end;
      replace (map f (filter g l)) with (map snd (filter (fun p => svg_contains (s_eff s) (fst p)) l))
        by (symmetry; apply map_filter_pair_ext; intros [? ?]; reflexivity)
  end.

(* write_fg_span *)
Lemma g_svg_write_fg_span_eq o buffer s fragment :
  g_svg_write_fg_span o buffer s fragment =
  (cl <- svg_fg_classes s ;; Some (buffer ++ svg_print_fg_span (cl, fragment))).
Proof.
  unfold g_svg_write_fg_span, svg_fg_classes, svg_get_fg, svg_get_ul, svg_opt_class.
  rewrite !class_stage.
  destruct (s_fg s) as [cf|]; [destruct (svg_color_name svg_fg_prefix cf) as [nf|]; [|reflexivity]|];
    (destruct (s_ul s) as [cu|]; [destruct (svg_color_name svg_underline_prefix cu) as [nu|]; [|reflexivity]|]);
    cbv zeta; rewrite ?if_push; cbv beta iota; effect_selection s;
    unfold svg_effect_classes; rewrite !filter_cons_app; cbn [filter map fst snd];
    unfold svg_print_fg_span, svg_elem, svg_class_attr; cbn [fst snd];
    change (@is_empty (list N)) with (@svg_is_nil (list N));
    norm_app; rewrite ?app_nil_r;
    match goal with |- context [svg_is_nil ?l] => destruct (svg_is_nil l) end;
    cbn [negb flat_map]; unfold svg_attr, svg_encode_fg, svg_replace_cr, svg_str_replace; cbn [fst snd];
    norm_app; rewrite ?app_nil_r; reflexivity.
Qed.

Lemma str_repeat_char c n : svg_str_repeat [c] n = repeat c (N.to_nat n).
Proof.
  unfold svg_str_repeat. induction (N.to_nat n) as [|k IH]; cbn [repeat concat app]; [reflexivity|].
  rewrite IH. reflexivity.
Qed.

(* write_bg_span *)
Lemma g_svg_write_bg_span_eq o buffer s fragment :
  g_svg_write_bg_span o buffer s fragment =
  (cl <- svg_bg_classes s ;; Some (buffer ++ svg_print_bg_span (svg_o_uw o) (cl, fragment))).
Proof.
  unfold g_svg_write_bg_span, svg_bg_classes, svg_get_bg, svg_opt_class.
  rewrite class_stage.
  destruct (s_bg s) as [cb|]; [destruct (svg_color_name svg_bg_prefix cb) as [nb|]; [|reflexivity]|];
    cbv zeta; cbv beta iota; cbn [opt_is_some];
    unfold svg_print_bg_span, svg_elem, svg_class_attr, svg_fill_on, svg_fill_off; cbn [fst snd svg_is_nil is_empty negb app];
    rewrite str_repeat_char; cbn [flat_map svg_join]; unfold svg_attr; cbn [fst snd]; norm_app; rewrite ?app_nil_r; reflexivity.
Qed.

(* ---- render_svg ------------------------------------------------------------------ *)

Lemma invert_stage t s :
  (if svg_contains (s_eff s) eff_invert
   then Some (set_eff (svg_set_bg (svg_set_fg s (Some (opt_unwrap_or (svg_get_bg s) (svg_t_bg_c t))))
                                  (Some (opt_unwrap_or (svg_get_fg s) (svg_t_fg_c t))))
                      (N.ldiff (s_eff s) eff_invert))
   else Some s) = Some (svg_invert t s).
Proof.
  unfold svg_invert. destruct (svg_contains (s_eff s) eff_invert); [|reflexivity].
  destruct s as [fg bg ul eff]. unfold svg_get_bg, svg_get_fg, svg_set_bg, svg_set_fg, set_eff, set_fg, set_bg, svg_t_bg_c, svg_t_fg_c.
  cbn [s_fg s_bg s_ul s_eff option_map].
  destruct fg, bg; cbn [option_map opt_unwrap_or]; rewrite ?svg_of_to_color; reflexivity.
Qed.

(* equality of two lists built with ++ and :: over the same atoms, by flattening (no rewriting:
   associativity rewrites on a term of the template's size do not terminate in reasonable time) *)
Inductive lexp : Type := LAtom (l : list N) | LApp (a b : lexp).
Fixpoint ldenote (e : lexp) : list N :=
  match e with LAtom l => l | LApp a b => ldenote a ++ ldenote b end.
Fixpoint lflat (e : lexp) (acc : list N) : list N :=
  match e with LAtom l => l ++ acc | LApp a b => lflat a (lflat b acc) end.
Lemma lflat_ok e : forall acc, lflat e acc = ldenote e ++ acc.
Proof.
  induction e as [l|a IHa b IHb]; intros acc; cbn [lflat ldenote]; [reflexivity|].
  rewrite IHa, IHb, app_assoc. reflexivity.
Qed.
Lemma lflat_eq e1 e2 : lflat e1 [] = lflat e2 [] -> ldenote e1 = ldenote e2.
Proof. rewrite !lflat_ok, !app_nil_r. auto. Qed.
Ltac reify_list l :=
  lazymatch l with
  | ?a ++ ?b => let ra := reify_list a in let rb := reify_list b in constr:(LApp ra rb)
  | ?x :: ?r => let rr := reify_list r in constr:(LApp (LAtom [x]) rr)
  | _ => constr:(LAtom l)
  end.
Ltac list_eq :=
  lazymatch goal with
  | |- ?x = ?y =>
      let rx := reify_list x in let ry := reify_list y in
      change (ldenote rx = ldenote ry); apply lflat_eq; cbn [lflat app]; reflexivity
  end.

Lemma if_app {A} (b : bool) (l x : list A) :
  (if b then Some (l ++ x) else Some l) = Some (l ++ if b then x else []).
Proof. destruct b; [|rewrite app_nil_r]; reflexivity. Qed.

Lemma if_app2 {A} (b : bool) (l x y : list A) :
  (if b then Some ((l ++ x) ++ y) else Some l) = Some (l ++ if b then x ++ y else []).
Proof. destruct b; [rewrite <- app_assoc|rewrite app_nil_r]; reflexivity. Qed.

Lemma has_bg_eq (line : list (sstyle * list N)) :
  existsb (fun '(s1, _) => opt_is_some (svg_get_bg s1)) line = svg_has_bg line.
Proof.
  unfold svg_has_bg. induction line as [|[s tx] l IH]; cbn [existsb]; [reflexivity|].
  rewrite IH. unfold svg_get_bg. cbn [fst]. destruct (s_bg s); reflexivity.
Qed.

(* `for (style, fragment) in line { if fragment.is_empty() { continue; } write_*_span(&mut buffer, style, fragment); }`
   for any loop body that does that *)
Lemma spans_loop (W : list N -> sstyle -> list N -> option (list N)) classes pr
    (F : sstyle * list N -> list N -> option (bctl (list N))) :
  (forall b s fr, W b s fr = (cl <- classes s ;; Some (b ++ pr (cl, fr)))) ->
  (forall st fr b, F (st, fr) b = if is_empty fr then Some (BNext b) else (o1 <- W b st fr ;; Some (BNext o1))) ->
  forall line buf, for_list0 F line buf = (sp <- svg_spans classes line ;; Some (buf ++ flat_map pr sp)).
Proof.
  intros HW HF. induction line as [|[s fr] l IH]; intros buf; cbn [for_list0 svg_spans].
  - rewrite app_nil_r. reflexivity.
  - rewrite HF. change (is_empty fr) with (svg_is_nil fr). destruct (svg_is_nil fr); [apply IH|].
    rewrite HW. destruct (classes s) as [cl|]; [|reflexivity].
    rewrite IH. destruct (svg_spans classes l) as [sp|]; [|reflexivity].
    cbn [flat_map]. rewrite <- app_assoc. reflexivity.
Qed.

Ltac row_done :=
  cbn [svg_print_lines]; unfold svg_print_line, svg_print_row, svg_elem, svg_px, svg_t_padding;
  cbn [flat_map svg_l_bg svg_l_fg]; unfold svg_attr, svg_line_height; cbn [fst snd]; norm_app; rewrite ?app_nil_r; reflexivity.

Theorem translated_render_svg_is_model o t input :
  g_svg_render o t input =
  (styled <- svg_styled t input ;;
   d <- svg_doc t input ;;
   Some (svg_print (svg_width_px o (svg_split_lines styled)) (svg_o_uw o) d)).
Proof.
  unfold g_svg_render, svg_doc, svg_styled. cbv zeta.
  (* `WinconBytes::new()` and the drained `extract_next` are the TRANSLATED glue of Generated/WinconFn.v *)
  rewrite translated_wb_extract_next_is_model.
  destruct (extract_next input parser_new capture_default) as [[[runs p] c]|]; [|reflexivity].
  cbv beta iota.
  match goal with |- context [for_list0 ?f runs _] => set (FI := f) end.
  set (inv := fun p : sstyle * list N => (svg_invert t (fst p), snd p)).
  assert (LI : forall l acc e, for_list0 FI l (acc, e) =
                 Some (acc ++ map inv l, fold_left (fun e p => N.lor e (s_eff (fst p))) (map inv l) e)).
  { induction l as [|[s tx] l IH]; intros acc e; cbn [for_list0 map fold_left].
    - rewrite app_nil_r. reflexivity.
    - unfold FI at 1. rewrite invert_stage. cbv beta iota zeta. rewrite IH. rewrite <- app_assoc. reflexivity. }
  rewrite LI. clear LI FI. cbn [app]. cbv beta iota.
  change (fold_left (fun e p => N.lor e (s_eff (fst p))) (map inv runs) 0) with (svg_effects_in_use (map inv runs)).
  set (styled := map inv runs).
  rewrite g_svg_split_lines_eq. cbv beta iota.
  unfold svg_t_fg_c, svg_t_bg_c. rewrite !g_svg_rgb_value_eq.
  destruct (svg_rgb_value (svg_t_fg t) (svg_t_palette t)) as [fgc|]; [|reflexivity].
  destruct (svg_rgb_value (svg_t_bg t) (svg_t_palette t)) as [bgc|]; [|reflexivity].
  rewrite g_svg_color_styles_eq.
  destruct (svg_color_styles styled (svg_t_palette t) []) as [sheet|]; [|reflexivity].
  (* the style sheet entries *)
  match goal with |- context [for_list0 ?f sheet _] => set (FS := f) end.
  assert (LS : forall l b, for_list0 FS l b = Some (b ++ flat_map svg_print_sheet_entry l)).
  { induction l as [|[name rgb1] l IH]; intros b; cbn [for_list0 flat_map].
    - rewrite app_nil_r. reflexivity.
    - unfold FS at 1. rewrite !if_app. cbv beta iota. rewrite IH.
      unfold svg_print_sheet_entry, svg_rule, svg_str_starts_with. norm_app. reflexivity. }
  rewrite LS. clear LS FS. cbv beta iota.
  (* the effect rules, the background *)
  rewrite !if_app. cbv beta iota. rewrite if_app2. cbv beta iota.
  (* the rows *)
  match goal with |- context [for_list0 ?f (svg_split_lines styled) _] => set (FL := f) end.
  assert (LL : forall ls buf y,
             for_list0 FL ls (buf, y) =
             (xs <- svg_lines_of ls ;; Some (buf ++ svg_print_lines (svg_o_uw o) y xs, y + 18 * N.of_nat (length ls)))).
  { induction ls as [|line ls IH]; intros buf y.
    - cbn [for_list0 svg_lines_of svg_print_lines length]. rewrite app_nil_r. f_equal. f_equal. lia.
    - replace (y + 18 * N.of_nat (length (line :: ls))) with ((y + 18) + 18 * N.of_nat (length ls)) by (cbn [length]; lia).
      cbn [for_list0 svg_lines_of].
      unfold FL at 1. rewrite has_bg_eq. unfold svg_line_of.
      match goal with |- context [for_list0 ?f line] =>
        match f with context [g_svg_write_fg_span] =>
          pose proof (spans_loop (g_svg_write_fg_span o) svg_fg_classes svg_print_fg_span f
                        (g_svg_write_fg_span_eq o) (fun st fr b => eq_refl)) as LF
        end
      end.
      destruct (svg_has_bg line).
      + match goal with |- context [for_list0 ?f line (buf ++ ?x)] =>
          rewrite (spans_loop (g_svg_write_bg_span o) svg_bg_classes (svg_print_bg_span (svg_o_uw o)) f
                     (g_svg_write_bg_span_eq o) (fun st fr b => eq_refl) line (buf ++ x))
        end.
        destruct (svg_spans svg_bg_classes line) as [bg|]; [|destruct (svg_spans svg_fg_classes line); reflexivity].
        cbv beta iota. rewrite LF.
        destruct (svg_spans svg_fg_classes line) as [fg|]; [|reflexivity].
        cbv beta iota. rewrite IH. destruct (svg_lines_of ls) as [xs|]; [|reflexivity].
        f_equal. f_equal. row_done.
      + cbv beta iota. rewrite LF.
        destruct (svg_spans svg_fg_classes line) as [fg|]; [|reflexivity].
        cbv beta iota. rewrite IH. destruct (svg_lines_of ls) as [xs|]; [|reflexivity].
        f_equal. f_equal. row_done. }
  rewrite LL. clear LL FL.
  destruct (svg_lines_of (svg_split_lines styled)) as [xs|]; [|reflexivity].
  cbv beta iota. f_equal.
  unfold svg_print, svg_style_text, svg_elem, svg_empty_elem, svg_rect, svg_px, svg_width_px,
    svg_t_min_width, svg_t_padding, svg_t_font_family, svg_text_classes, svg_effect_rules, svg_line_height.
  cbn [svg_d_height svg_d_fg svg_d_bg svg_d_sheet svg_d_effects svg_d_background svg_d_lines flat_map svg_join].
  unfold svg_print_effect_rule, svg_rule, svg_attr, svg_fg_class, svg_bg_class. cbn [fst snd].
  list_eq.
Qed.

(* the same, read from the document: the translated render_svg prints the hand model's document
   (for the width the oracle yields), and panics exactly when the hand model has no document *)
Corollary translated_render_svg_prints_doc o t input d :
  svg_doc t input = Some d ->
  exists styled, svg_styled t input = Some styled /\
    g_svg_render o t input = Some (svg_print (svg_width_px o (svg_split_lines styled)) (svg_o_uw o) d).
Proof.
  intros H. pose proof (translated_render_svg_is_model o t input) as E. rewrite H in E.
  destruct (svg_styled t input) as [styled|] eqn:S.
  - exists styled. split; [reflexivity|exact E].
  - unfold svg_doc in H. rewrite S in H. discriminate H.
Qed.

Corollary translated_render_svg_panics o t input :
  svg_doc t input = None -> g_svg_render o t input = None.
Proof.
  intros H. rewrite translated_render_svg_is_model, H. destruct (svg_styled t input); reflexivity.
Qed.

(* ---- Term::new, impl Default for Term, the builders (translated over the WHOLE struct, Model/Svg.svg_term_full) ---- *)

Lemma svg_to_of_color c : svg_to_color (svg_of_color c) = c.
Proof. destruct c as [a | i | [[r g] b]]; reflexivity. Qed.

(* const FG_COLOR / BG_COLOR: the translated constants are the ANSI numbers tools/gen_svg.py reads *)
Lemma g_svg_const_fg_color_eq : g_svg_const_fg_color = Ansi svg_default_fg_ansi.
Proof. reflexivity. Qed.
Lemma g_svg_const_bg_color_eq : g_svg_const_bg_color = Ansi svg_default_bg_ansi.
Proof. reflexivity. Qed.

(* Term::new(): every field; the literals of the translated struct literal are the constants of Generated/Svg.v *)
Theorem g_svg_term_new_eq :
  g_svg_term_new =
  mkSvgTermFull vga (Ansi svg_default_fg_ansi) (Ansi svg_default_bg_ansi) true svg_font_family svg_min_width svg_padding.
Proof. reflexivity. Qed.

Corollary g_svg_term_new_is_model : g_svg_term_new = svg_term_full_new.
Proof. exact g_svg_term_new_eq. Qed.

(* ... whose projection is the hand model's Term::new() (the default palette, white on black, background on),
   with the generated minimal width and the two constant fields *)
Corollary g_svg_term_new_projects :
  svg_tf_term g_svg_term_new = svg_term_new /\
  svg_tf_min_width_px g_svg_term_new = svg_min_width /\
  svg_tf_consts g_svg_term_new.
Proof. repeat split. Qed.

(* <Term as Default>::default() *)
Theorem g_svg_term_default_eq : g_svg_term_default = g_svg_term_new.
Proof. reflexivity. Qed.

(* each builder sets exactly its own field ... *)
Lemma g_svg_term_palette_eq t p : g_svg_term_palette t p = set_svg_tf_palette t p.
Proof. reflexivity. Qed.
Lemma g_svg_term_fg_color_eq t c : g_svg_term_fg_color t c = set_svg_tf_fg_color t c.
Proof. reflexivity. Qed.
Lemma g_svg_term_bg_color_eq t c : g_svg_term_bg_color t c = set_svg_tf_bg_color t c.
Proof. reflexivity. Qed.
Lemma g_svg_term_background_eq t y : g_svg_term_background t y = set_svg_tf_background t y.
Proof. reflexivity. Qed.
Lemma g_svg_term_min_width_px_eq t n : g_svg_term_min_width_px t n = set_svg_tf_min_width_px t n.
Proof. reflexivity. Qed.

(* ... one builder call, as a value: the translated functions under the constructors of [svg_builder] *)
Definition g_svg_build1 (t : svg_term_full) (b : svg_builder) : svg_term_full :=
  match b with
  | SbPalette p => g_svg_term_palette t p
  | SbFgColor c => g_svg_term_fg_color t c
  | SbBgColor c => g_svg_term_bg_color t c
  | SbBackground y => g_svg_term_background t y
  | SbMinWidthPx n => g_svg_term_min_width_px t n
  end.
Definition g_svg_build (t : svg_term_full) (bs : list svg_builder) : svg_term_full := fold_left g_svg_build1 bs t.

Lemma g_svg_build1_eq t b : g_svg_build1 t b = svg_build1 t b.
Proof. destruct b; reflexivity. Qed.

Lemma g_svg_build_eq bs : forall t, g_svg_build t bs = svg_build t bs.
Proof.
  unfold g_svg_build, svg_build. induction bs as [|b bs IH]; intros t; cbn [fold_left]; [reflexivity|].
  rewrite g_svg_build1_eq. apply IH.
Qed.

(* the frame property: the record of all seven projections after one builder call.  Exactly the builder's own
   field holds the argument, every other field is the old one. *)
Definition svg_tf_fields (t : svg_term_full) :=
  (svg_tf_palette t, svg_tf_fg_color t, svg_tf_bg_color t, svg_tf_background t,
   svg_tf_font_family t, svg_tf_min_width_px t, svg_tf_padding_px t).

Theorem translated_term_builders_frame t :
  (forall p, svg_tf_fields (g_svg_term_palette t p) =
     (p, svg_tf_fg_color t, svg_tf_bg_color t, svg_tf_background t, svg_tf_font_family t, svg_tf_min_width_px t, svg_tf_padding_px t)) /\
  (forall c, svg_tf_fields (g_svg_term_fg_color t c) =
     (svg_tf_palette t, c, svg_tf_bg_color t, svg_tf_background t, svg_tf_font_family t, svg_tf_min_width_px t, svg_tf_padding_px t)) /\
  (forall c, svg_tf_fields (g_svg_term_bg_color t c) =
     (svg_tf_palette t, svg_tf_fg_color t, c, svg_tf_background t, svg_tf_font_family t, svg_tf_min_width_px t, svg_tf_padding_px t)) /\
  (forall y, svg_tf_fields (g_svg_term_background t y) =
     (svg_tf_palette t, svg_tf_fg_color t, svg_tf_bg_color t, y, svg_tf_font_family t, svg_tf_min_width_px t, svg_tf_padding_px t)) /\
  (forall n, svg_tf_fields (g_svg_term_min_width_px t n) =
     (svg_tf_palette t, svg_tf_fg_color t, svg_tf_bg_color t, svg_tf_background t, svg_tf_font_family t, n, svg_tf_padding_px t)).
Proof. repeat split. Qed.

(* a term is its seven fields *)
Lemma svg_tf_fields_inj t u : svg_tf_fields t = svg_tf_fields u -> t = u.
Proof. destruct t, u. unfold svg_tf_fields. cbn. intros H. injection H as -> -> -> -> -> -> ->. reflexivity. Qed.

(* builders of different fields commute, the later of two calls of one builder wins *)
Definition svg_builder_field (b : svg_builder) : N :=
  match b with SbPalette _ => 0 | SbFgColor _ => 1 | SbBgColor _ => 2 | SbBackground _ => 3 | SbMinWidthPx _ => 5 end.

Theorem translated_term_builders_commute t a b :
  svg_builder_field a <> svg_builder_field b ->
  g_svg_build1 (g_svg_build1 t a) b = g_svg_build1 (g_svg_build1 t b) a.
Proof. destruct a, b; cbn [svg_builder_field]; intros H; try reflexivity; exfalso; apply H; reflexivity. Qed.

Theorem translated_term_builders_last_wins t a b :
  svg_builder_field a = svg_builder_field b ->
  g_svg_build1 (g_svg_build1 t a) b = g_svg_build1 t b.
Proof. destruct a, b; cbn [svg_builder_field]; intros H; try discriminate H; reflexivity. Qed.

(* no builder touches font_family / padding_px: every term built from Term::new() carries the constants the
   translation of render_svg reads through svg_t_font_family / svg_t_padding *)
Lemma g_svg_build1_consts t b : svg_tf_consts t -> svg_tf_consts (g_svg_build1 t b).
Proof. destruct b; exact (fun H => H). Qed.

Theorem translated_term_built_consts bs : svg_tf_consts (g_svg_build g_svg_term_new bs).
Proof.
  unfold g_svg_build. generalize g_svg_term_new (proj2 (proj2 g_svg_term_new_projects)).
  induction bs as [|b bs IH]; intros t H; cbn [fold_left]; [exact H|].
  apply IH, g_svg_build1_consts, H.
Qed.

(* what one builder call does to the projections the hand model / the translated render_svg take:
   the record [svg_doc] and [g_svg_render] read, and the oracle's minimal width *)
Theorem translated_term_build1_projects t b :
  svg_tf_term (g_svg_build1 t b) =
    match b with
    | SbPalette p => mkSvgTerm p (svg_t_fg (svg_tf_term t)) (svg_t_bg (svg_tf_term t)) (svg_t_background (svg_tf_term t))
    | SbFgColor c => mkSvgTerm (svg_t_palette (svg_tf_term t)) (svg_of_color c) (svg_t_bg (svg_tf_term t)) (svg_t_background (svg_tf_term t))
    | SbBgColor c => mkSvgTerm (svg_t_palette (svg_tf_term t)) (svg_t_fg (svg_tf_term t)) (svg_of_color c) (svg_t_background (svg_tf_term t))
    | SbBackground y => mkSvgTerm (svg_t_palette (svg_tf_term t)) (svg_t_fg (svg_tf_term t)) (svg_t_bg (svg_tf_term t)) y
    | SbMinWidthPx _ => svg_tf_term t
    end /\
  svg_tf_min_width_px (g_svg_build1 t b) = match b with SbMinWidthPx n => n | _ => svg_tf_min_width_px t end.
Proof. destruct b; split; reflexivity. Qed.

(* the term a client configures completely, `Term::new().palette(p).fg_color(f).bg_color(b).background(y).min_width_px(n)`
   (in any order, by the commutation above), projects to the record the correspondence driver builds
   (svg_m_doc p fg bg y = svg_doc (mkSvgTerm p fg bg y)), with minimal width n and the constant fields *)
Theorem translated_term_configured p fg bg y n :
  let t := g_svg_term_min_width_px (g_svg_term_background (g_svg_term_bg_color (g_svg_term_fg_color
             (g_svg_term_palette g_svg_term_new p) (svg_to_color fg)) (svg_to_color bg)) y) n in
  svg_tf_term t = mkSvgTerm p fg bg y /\
  svg_tf_min_width_px t = n /\
  svg_tf_consts t /\
  (forall uw ceil84 input,
     g_svg_render (svg_tf_oracle uw ceil84 t) (svg_tf_term t) input =
     g_svg_render (mkSvgOracle uw ceil84 n) (mkSvgTerm p fg bg y) input).
Proof.
  cbv zeta. unfold svg_tf_term. cbn [g_svg_term_min_width_px g_svg_term_background g_svg_term_bg_color g_svg_term_fg_color g_svg_term_palette].
  cbn. rewrite !svg_of_to_color. repeat split.
Qed.

(* ---- render_svg translated once more, over the WHOLE struct (every `self.<field>` is a field of [svg_term_full]) ----
   On a term that keeps [svg_tf_consts] it is [g_svg_render] on the projections: reading font_family / padding_px as
   constants and min_width_px from the oracle (the vocabulary of g_svg_render) is exact for every term built from
   Term::new() by the builders. *)
Theorem translated_render_svg_full_eq o t input :
  svg_tf_consts t -> svg_o_min_width o = svg_tf_min_width_px t ->
  g_svg_render_full o t input = g_svg_render o (svg_tf_term t) input.
Proof.
  intros [HF HP] HM. unfold g_svg_render_full, g_svg_render.
  unfold svg_t_fg_c, svg_t_bg_c, svg_t_font_family, svg_t_padding, svg_t_min_width, svg_tf_term.
  cbn [svg_t_palette svg_t_fg svg_t_bg svg_t_background].
  rewrite !svg_to_of_color, HF, HP, HM. reflexivity.
Qed.

Corollary translated_render_svg_full_is_model uw ceil84 t input :
  svg_tf_consts t ->
  g_svg_render_full (svg_tf_oracle uw ceil84 t) t input =
  (styled <- svg_styled (svg_tf_term t) input ;;
   d <- svg_doc (svg_tf_term t) input ;;
   Some (svg_print (svg_width_px (svg_tf_oracle uw ceil84 t) (svg_split_lines styled)) uw d)).
Proof.
  intros H. rewrite (translated_render_svg_full_eq (svg_tf_oracle uw ceil84 t) t input H eq_refl).
  apply (translated_render_svg_is_model (svg_tf_oracle uw ceil84 t)).
Qed.

(* `Term::new().<builders>.render_svg(input)`, all of it translated *)
Corollary translated_built_term_renders uw ceil84 bs input :
  let t := g_svg_build g_svg_term_new bs in
  g_svg_render_full (svg_tf_oracle uw ceil84 t) t input =
  (styled <- svg_styled (svg_tf_term t) input ;;
   d <- svg_doc (svg_tf_term t) input ;;
   Some (svg_print (svg_width_px (svg_tf_oracle uw ceil84 t) (svg_split_lines styled)) uw d)).
Proof. cbv zeta. apply translated_render_svg_full_is_model, translated_term_built_consts. Qed.
