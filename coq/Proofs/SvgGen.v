(* Proofs/SvgGen.v -- the functions translated from crates/anstyle-svg/src/lib.rs
   (Generated/SvgFn.v, tools/gen_fn_svg.py) are extensionally equal to the hand model
   Model/Svg.v the theorems of C14 are about. *)
From Coq Require Import NArith List Bool Lia.
From AV Require Import Generated.Style Generated.Palette Generated.Svg Spec.Sgr Spec.Lossy Model.Base Model.Imp
  Model.Parser Model.Wincon Model.Lossy Generated.LossyFn Proofs.LossyGen Generated.WinconFn Proofs.WinconGen
  Model.Svg Generated.SvgFn.
Import ListNotations.
Local Open Scope N_scope.

(* ---- colours ------------------------------------------------------------------ *)

Lemma svg_of_to_color c : svg_of_color (svg_to_color c) = c.
Proof. destruct c; reflexivity. Qed.

(* rgb_value *)
Lemma g_svg_rgb_value_eq o c p : g_svg_rgb_value o (svg_to_color c) p = svg_rgb_value c p.
Proof.
  unfold g_svg_rgb_value, svg_rgb_value. rewrite g_color_to_rgb_eq.
  destruct (color_to_rgb (svg_to_color c) p) as [[[r g] b]|]; reflexivity.
Qed.

(* color_name *)
Lemma g_svg_color_name_eq o prefix c : g_svg_color_name o prefix (svg_to_color c) = svg_color_name prefix c.
Proof.
  destruct c as [a | i | r g b]; unfold g_svg_color_name, svg_color_name; cbn [svg_to_color].
  - rewrite g_from_ansi_eq. destruct (from_ansi a) as [i|]; [|reflexivity].
    cbv zeta. rewrite g_a256_index_eq. destruct (aget svg_ansi_names i); reflexivity.
  - reflexivity.
  - reflexivity.
Qed.

(* color_styles: one `if let Some(color) = style.get_*_color() { colors.insert(..) }` *)
Lemma insert_stage o p prefix (c : option colour) m :
  match option_map svg_to_color c with
  | Some color1 =>
      r <- g_svg_color_name o prefix color1 ;;
      r1 <- g_svg_rgb_value o color1 p ;;
      Some (svg_btree_insert m r r1)
  | None => Some m
  end = svg_insert_colour p prefix c m.
Proof.
  destruct c as [c|]; cbn [option_map svg_insert_colour]; [|reflexivity].
  rewrite g_svg_color_name_eq, g_svg_rgb_value_eq. reflexivity.
Qed.

Lemma g_svg_color_styles_eq o styled p : g_svg_color_styles o styled p = svg_color_styles styled p [].
Proof.
  unfold g_svg_color_styles. cbv zeta.
  match goal with |- context [for_list0 ?f _ _] => set (F := f) end.
  assert (L : forall l m, for_list0 F l m = svg_color_styles l p m).
  { induction l as [|[s t] l IH]; intros m; cbn [for_list0 svg_color_styles]; [reflexivity|].
    unfold F at 1. cbv zeta. unfold svg_get_fg, svg_get_bg, svg_get_ul.
    rewrite (insert_stage o p svg_fg_prefix (s_fg s) m).
    destruct (svg_insert_colour p svg_fg_prefix (s_fg s) m) as [m1|]; [|reflexivity].
    rewrite (insert_stage o p svg_bg_prefix (s_bg s) m1).
    destruct (svg_insert_colour p svg_bg_prefix (s_bg s) m1) as [m2|]; [|reflexivity].
    rewrite (insert_stage o p svg_underline_prefix (s_ul s) m2).
    destruct (svg_insert_colour p svg_underline_prefix (s_ul s) m2) as [m3|]; [|reflexivity].
    apply IH. }
  rewrite L. destruct (svg_color_styles styled p []); reflexivity.
Qed.

(* ---- split_lines ---------------------------------------------------------------- *)

Lemma strip_suffix_cr s : opt_unwrap_or (svg_strip_suffix s 13) s = svg_strip_cr s.
Proof.
  induction s as [|c r IH]; [reflexivity|].
  cbn [svg_strip_suffix svg_strip_cr]. destruct r as [|d r'].
  - destruct (c =? 13); reflexivity.
  - revert IH. destruct (svg_strip_suffix (d :: r') 13) as [r1|]; cbn [opt_unwrap_or]; intros IH; rewrite <- IH; reflexivity.
Qed.

Lemma strip_last_eq (cl : list (sstyle * list N)) :
  match svg_last cl with
  | Some (w, last) => svg_set_last cl (w, opt_unwrap_or (svg_strip_suffix last 13) last)
  | None => cl
  end = svg_strip_last cl.
Proof.
  induction cl as [|x r IH]; [reflexivity|].
  cbn [svg_last svg_set_last svg_strip_last]. destruct r as [|y r'].
  - destruct x as [w last]. cbn [fst snd]. rewrite strip_suffix_cr. reflexivity.
  - revert IH. destruct (svg_last (y :: r')) as [[w last]|]; intros IH; rewrite <- IH; reflexivity.
Qed.

Lemma strip_last_eq_m (cl : list (sstyle * list N)) :
  match svg_last cl with
  | Some (w, last) => Some (svg_set_last cl (w, opt_unwrap_or (svg_strip_suffix last 13) last))
  | None => Some cl
  end = Some (svg_strip_last cl).
Proof. rewrite <- strip_last_eq. destruct (svg_last cl) as [[w last]|]; reflexivity. Qed.

Lemma split_once_length c s a b : svg_split_once c s = Some (a, b) -> length s = S (length a + length b).
Proof.
  revert a b. induction s as [|x r IH]; intros a b; cbn [svg_split_once]; [discriminate|].
  destruct (x =? c).
  - intros H. injection H as <- <-. reflexivity.
  - destruct (svg_split_once c r) as [[a' b']|]; [|discriminate].
    intros H. injection H as <- <-. cbn [length]. rewrite (IH a' b' eq_refl). reflexivity.
Qed.

(* the hand model scans characters; the code cuts at the first newline *)
Lemma run_loop_split style : forall next cur cl lines,
  svg_run_loop style next cur cl lines =
  match svg_split_once 10 next with
  | None => (lines, cl ++ [(style, cur ++ next)])
  | Some (a, b) =>
      svg_run_loop style b [] []
        (lines ++ [(if svg_is_nil (cur ++ a) then svg_strip_last cl else cl) ++ [(style, svg_strip_cr (cur ++ a))]])
  end.
Proof.
  induction next as [|c r IH]; intros cur cl lines; cbn [svg_run_loop svg_split_once].
  - rewrite app_nil_r. reflexivity.
  - destruct (c =? 10).
    + rewrite app_nil_r. reflexivity.
    + rewrite IH. destruct (svg_split_once 10 r) as [[a b]|]; rewrite <- app_assoc; reflexivity.
Qed.

Lemma map_pair_id {A B} (l : list (A * B)) : map (fun '(s1, t1) => (s1, t1)) l = l.
Proof. induction l as [|[a b] l IH]; cbn [map]; [reflexivity|]. rewrite IH. reflexivity. Qed.

Definition split_fin (st : list (list (sstyle * list N)) * list (sstyle * list N)) : list (list (sstyle * list N)) :=
  let '(l5, c10) := st in if is_empty c10 then l5 else l5 ++ [c10].

(* split_lines *)
Lemma g_svg_split_lines_eq o styled : g_svg_split_lines o styled = Some (svg_split_lines styled).
Proof.
  unfold g_svg_split_lines, svg_split_lines. cbv zeta. rewrite map_pair_id.
  match goal with |- context [for_list0 ?f _ _] => set (F := f) end.
  assert (L : forall l lines cl, option_map split_fin (for_list0 F l (lines, cl)) = Some (svg_split_go l cl lines)).
  { induction l as [|[s t] l IH]; intros lines cl; cbn [for_list0 svg_split_go].
    - cbn [option_map split_fin]. destruct cl; reflexivity.
    - unfold F at 1. cbv zeta.
      match goal with |- context [while_fuel0 _ ?f _] => set (W := f) end.
      assert (LW : forall fuel next lines cl, (length next < fuel)%nat ->
                option_map (fun '(l1, c1, n1) => (l1, c1 ++ [(s, n1)])) (while_fuel0 fuel W (lines, cl, next))
                = Some (svg_run_loop s next [] cl lines)).
      { induction fuel as [|fuel IHf]; intros next lines0 cl0 Hlt; [lia|].
        cbn [while_fuel0]. unfold W at 1. cbv zeta. rewrite run_loop_split. cbn [app].
        destruct (svg_split_once 10 next) as [[a b]|] eqn:E.
        - pose proof (split_once_length _ _ _ _ E) as Hl.
          change (is_empty a) with (svg_is_nil a).
          destruct (svg_is_nil a).
          + rewrite strip_last_eq_m. rewrite strip_suffix_cr. apply IHf. lia.
          + rewrite strip_suffix_cr. apply IHf. lia.
        - reflexivity. }
      specialize (LW (S (length t)) t lines cl (le_n _)).
      destruct (while_fuel0 (S (length t)) W (lines, cl, t)) as [[[l1 c1] n1]|]; cbn [option_map] in LW; [|discriminate].
      injection LW as LW. rewrite <- LW. apply IH. }
  specialize (L styled [] []).
  destruct (for_list0 F styled ([], [])) as [[l5 c10]|]; cbn [option_map split_fin] in L; [|discriminate].
  injection L as L. rewrite <- L. destruct (is_empty c10); reflexivity.
Qed.
