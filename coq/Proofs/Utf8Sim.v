(* Proofs/Utf8Sim.v -- the utf8parse decoder (Model/Utf8parse.v) simulates the
   RFC 3629 DFA of Spec/Utf8.v, and the code point it assembles with
   lor/land/shiftl is the arithmetic [utf8_decode] of the bytes consumed. *)
From Coq Require Import NArith List Bool Lia.
From AV Require Import Spec.Utf8 Model.Base Model.Utf8parse.
Import ListNotations. Local Open Scope N_scope.

(* ---------- bit-twiddling vs arithmetic ---------- *)

Lemma land63 : forall b, N.land b 63 = b mod 64.
Proof. intro b. change 63 with (N.ones 6). rewrite N.land_ones. reflexivity. Qed.
Lemma land31 : forall b, N.land b 31 = b mod 32.
Proof. intro b. change 31 with (N.ones 5). rewrite N.land_ones. reflexivity. Qed.
Lemma land15 : forall b, N.land b 15 = b mod 16.
Proof. intro b. change 15 with (N.ones 4). rewrite N.land_ones. reflexivity. Qed.
Lemma land7 : forall b, N.land b 7 = b mod 8.
Proof. intro b. change 7 with (N.ones 3). rewrite N.land_ones. reflexivity. Qed.

Lemma lor_disjoint : forall x y k, y < 2 ^ k -> N.lor (x * 2 ^ k) y = x * 2 ^ k + y.
Proof.
  intros x y k H.
  assert (H0 : N.land (x * 2 ^ k) y = 0).
  { apply N.bits_inj. intro n. rewrite N.land_spec, N.bits_0.
    destruct (N.lt_ge_cases n k) as [Hn | Hn].
    - rewrite N.mul_pow2_bits_low by assumption. reflexivity.
    - rewrite <- (N.mod_small y (2 ^ k)) by assumption.
      rewrite N.mod_pow2_bits_high by assumption. apply andb_false_r. }
  rewrite <- N.lxor_lor by assumption. symmetry.
  apply N.add_nocarry_lxor. assumption.
Qed.

Lemma lor64 : forall x y, y < 64 -> N.lor (x * 64) y = x * 64 + y.
Proof. intros x y H. apply (lor_disjoint x y 6). exact H. Qed.
Lemma lor4096 : forall x y, y < 4096 -> N.lor (x * 4096) y = x * 4096 + y.
Proof. intros x y H. apply (lor_disjoint x y 12). exact H. Qed.
Lemma lor262144 : forall x y, y < 262144 -> N.lor (x * 262144) y = x * 262144 + y.
Proof. intros x y H. apply (lor_disjoint x y 18). exact H. Qed.

Lemma shl6 : forall x, N.shiftl x 6 = x * 64.
Proof. intro x. rewrite N.shiftl_mul_pow2. reflexivity. Qed.
Lemma shl12 : forall x, N.shiftl x 12 = x * 4096.
Proof. intro x. rewrite N.shiftl_mul_pow2. reflexivity. Qed.
Lemma shl18 : forall x, N.shiftl x 18 = x * 262144.
Proof. intro x. rewrite N.shiftl_mul_pow2. reflexivity. Qed.

Lemma mod64_lt : forall b, b mod 64 < 64.
Proof. intro b. apply N.mod_lt. discriminate. Qed.

(* ---------- the simulation relation ---------- *)

Definition conc_ustate (u : ustate) : u8state :=
  match u with
  | UTail1 => U8Tail1
  | UTail2 => U8Tail2
  | UTail3 => U8Tail3
  | UE0 => U8_3_2_e0
  | UED => U8_3_2_ed
  | UF0 => U8_4_3_f0
  | UF4 => U8_4_3_f4
  end.

(* continuation bytes still expected in DFA state u *)
Definition u8_remaining (u : ustate) : nat :=
  match u with
  | UTail1 => 1
  | UTail2 | UE0 | UED => 2
  | UTail3 | UF0 | UF4 => 3
  end%nat.

(* length of the character announced by lead byte a *)
Definition u8_total_len (a : N) : nat :=
  if a <? 224 then 2%nat else if a <? 240 then 3%nat else 4%nat.

(* the partial code point after the bytes [acc] of the current character *)
Definition u8_partial (acc : list N) : N :=
  match acc with
  | [a] =>
      if a <? 224 then (a mod 32) * 64
      else if a <? 240 then (a mod 16) * 4096
      else (a mod 8) * 262144
  | [a; b] =>
      if a <? 240 then (a mod 16) * 4096 + (b mod 64) * 64
      else (a mod 8) * 262144 + (b mod 64) * 4096
  | [a; b; c] => (a mod 8) * 262144 + (b mod 64) * 4096 + (c mod 64) * 64
  | _ => 0
  end.

Definition u8_rel (up : u8parser) (u : ustate) (acc : list N) : Prop :=
  u8st up = conc_ustate u /\
  u8point up = u8_partial acc /\
  exists a rest,
    acc = a :: rest /\ 194 <= a /\ a <= 244 /\
    (length acc + u8_remaining u = u8_total_len a)%nat.

(* ---------- boolean tests to propositions ---------- *)

Ltac bnorm :=
  repeat match goal with
  | H : _ && _ = true |- _ => apply andb_true_iff in H; destruct H
  | H : (_ <=? _) = true |- _ => apply N.leb_le in H
  | H : (_ <=? _) = false |- _ => apply N.leb_gt in H
  | H : (_ <? _) = true |- _ => apply N.ltb_lt in H
  | H : (_ <? _) = false |- _ => apply N.ltb_ge in H
  | H : (_ =? _) = true |- _ => apply N.eqb_eq in H
  | H : (_ =? _) = false |- _ => apply N.eqb_neq in H
  end.

Ltac ltb_true a n := replace (a <? n) with true by (symmetry; apply N.ltb_lt; lia).
Ltac ltb_false a n := replace (a <? n) with false by (symmetry; apply N.ltb_ge; lia).

(* ---------- lead byte ---------- *)

Lemma u8_begin : forall b u, utf8_lead b = Some u ->
  exists up, u8_parser_advance u8_new b = (up, U8None) /\ u8_rel up u [b].
Proof.
  intros b u H.
  unfold utf8_lead, in_range in H.
  unfold u8_parser_advance, u8_new, u8_advance. cbn [u8st u8point]. unfold rng.
  repeat match type of H with
  | (if ?c then _ else _) = _ => destruct c eqn:?
  end; try discriminate H; inversion H; subst u; clear H;
  (replace ((0 <=? b) && (b <=? 127)) with false
     by (symmetry; apply andb_false_iff; right; apply N.leb_gt; bnorm; lia));
  repeat match goal with
  | E : ?c = _ |- context [if ?c then _ else _] => rewrite E
  end;
  cbv beta iota; eexists; (split; [reflexivity|]);
  unfold u8_rel; cbn [u8st u8point conc_ustate]; (split; [reflexivity|]);
  bnorm;
  (split;
   [ rewrite N.lor_0_l; unfold u8_partial
   | exists b, []; split; [reflexivity|]; split; [lia|]; split; [lia|];
     unfold u8_total_len; cbn [length u8_remaining] ]).
  (* UTail1 *)
  - ltb_true b 224. rewrite land31, shl6. reflexivity.
  - ltb_true b 224. reflexivity.
  (* UE0 *)
  - ltb_false b 224. ltb_true b 240. rewrite land15, shl12. reflexivity.
  - ltb_false b 224. ltb_true b 240. reflexivity.
  (* UTail2 (E1..EC) *)
  - ltb_false b 224. ltb_true b 240. rewrite land15, shl12. reflexivity.
  - ltb_false b 224. ltb_true b 240. reflexivity.
  (* UED *)
  - ltb_false b 224. ltb_true b 240. rewrite land15, shl12. reflexivity.
  - ltb_false b 224. ltb_true b 240. reflexivity.
  (* UTail2 (EE..EF) *)
  - ltb_false b 224. ltb_true b 240. rewrite land15, shl12. reflexivity.
  - ltb_false b 224. ltb_true b 240. reflexivity.
  (* UF0 *)
  - ltb_false b 224. ltb_false b 240. rewrite land7, shl18. reflexivity.
  - ltb_false b 224. ltb_false b 240. reflexivity.
  (* UTail3 *)
  - ltb_false b 224. ltb_false b 240. rewrite land7, shl18. reflexivity.
  - ltb_false b 224. ltb_false b 240. reflexivity.
  (* UF4 *)
  - ltb_false b 224. ltb_false b 240. rewrite land7, shl18. reflexivity.
  - ltb_false b 224. ltb_false b 240. reflexivity.
Qed.

(* ---------- continuation bytes ---------- *)

(* the code-point equations: [N.lor p y] where p is a multiple of 2^k > y *)
Ltac lor_fin b :=
  pose proof (mod64_lt b);
  first
  [ apply lor64; lia
  | apply lor4096; lia
  | apply lor262144; lia
  | match goal with
    | |- N.lor (?A * 262144 + ?B * 4096 + ?C * 64) ?y = _ =>
        replace (A * 262144 + B * 4096 + C * 64)
          with ((A * 4096 + B * 64 + C) * 64) by lia;
        rewrite lor64 by lia; lia
    | |- N.lor (?A * 262144 + ?B * 4096) ?y = _ =>
        replace (A * 262144 + B * 4096) with ((A * 64 + B) * 4096) by lia;
        rewrite lor4096 by lia; lia
    | |- N.lor (?A * 4096 + ?B * 64) ?y = _ =>
        replace (A * 4096 + B * 64) with ((A * 64 + B) * 64) by lia;
        rewrite lor64 by lia; lia
    end ].

(* split a [u8_rel] hypothesis into the concrete shapes of [acc] *)
Ltac rel_cases up u Hrel a b0 c0 E1 E2 :=
  let Hst := fresh "Hst" in
  let Hpt := fresh "Hpt" in
  let rest := fresh "rest" in
  let Hlo := fresh "Hlo" in
  let Hhi := fresh "Hhi" in
  let Hlen := fresh "Hlen" in
  let d0 := fresh "d0" in
  destruct Hrel as [Hst [Hpt (a & rest & -> & Hlo & Hhi & Hlen)]];
  destruct up as [?pt ?st]; cbn [u8st u8point] in Hst, Hpt; subst;
  unfold u8_total_len in Hlen;
  destruct (a <? 224) eqn:E1; [|destruct (a <? 240) eqn:E2];
  destruct rest as [|b0 [|c0 [|d0 rest]]];
  destruct u;
  cbn [length u8_remaining] in Hlen; try (exfalso; lia).

Ltac cont_step Hc E :=
  unfold utf8_cont in Hc;
  match type of Hc with
  | (if ?c then _ else _) = _ => destruct c eqn:E
  end; try discriminate Hc;
  unfold u8_parser_advance, u8_advance; cbn [u8st u8point conc_ustate];
  unfold in_range in E; unfold rng; rewrite E; cbv beta iota.

Lemma u8_more : forall up u acc b u', u8_rel up u acc -> utf8_cont u b = UMore u' ->
  exists up', u8_parser_advance up b = (up', U8None) /\ u8_rel up' u' (acc ++ [b]).
Proof.
  intros up u acc b u' Hrel Hc.
  rel_cases up u Hrel a b0 c0 E1 E2;
  cont_step Hc E; inversion Hc; subst u'; clear Hc;
  cbn [app]; eexists; (split; [reflexivity|]);
  unfold u8_rel; cbn [u8st u8point conc_ustate]; (split; [reflexivity|]);
  (split;
   [ unfold u8_partial, CONTINUATION_MASK; rewrite ?E1, ?E2;
     rewrite land63, ?shl6, ?shl12; lor_fin b
   | eexists; eexists; split; [reflexivity|]; split; [exact Hlo|]; split; [exact Hhi|];
     unfold u8_total_len; rewrite ?E1, ?E2; cbn [length u8_remaining]; reflexivity ]).
Qed.

Lemma u8_done : forall up u acc b, u8_rel up u acc -> utf8_cont u b = UDone ->
  u8_parser_advance up b = (u8_new, U8Codepoint (utf8_decode (acc ++ [b]))).
Proof.
  intros up u acc b Hrel Hc.
  rel_cases up u Hrel a b0 c0 E1 E2;
  cont_step Hc E; clear Hc;
  cbn [app]; unfold u8_new; f_equal; f_equal;
  unfold u8_partial, CONTINUATION_MASK, utf8_decode; rewrite ?E1, ?E2;
  rewrite land63; lor_fin b.
Qed.

Lemma u8_bad : forall up u acc b, u8_rel up u acc -> utf8_cont u b = UBad ->
  u8_parser_advance up b = (u8_new, U8Invalid).
Proof.
  intros up u acc b [Hst _] Hc.
  destruct up as [pt st]; cbn [u8st] in Hst; subst st.
  destruct u; cont_step Hc E; reflexivity.
Qed.
