(* Proofs/AdaptersGen.v -- the functions of the six conversion crates as TRANSLATED from the
   Rust sources (Generated/AdaptersFn.v, tools/gen_fn_adapters.py) are extensionally equal to the
   hand model (Model/Adapters.v) the theorems of C16 are about.

   A translated function answers [Some v] (Rust returns v) or [None] (Rust would panic).  The
   16-way matches over AnsiColor are if-chains over the ANSI number (the model's representation of
   the enum), so they answer [None] above 15: the lemmas about colours carry [i < 16] /
   [ad_colour_ok], the entry points [ad_src_ok] -- exactly the values the Rust types can hold
   (Spec/Targets.v).  Independent of Proofs/Adapters.v (a change of what the adapters MEAN breaks
   that file, a change of what they DO breaks this one). *)
From Coq Require Import NArith List Bool Lia.
From AV Require Import Generated.Adapters Spec.Sgr Spec.Targets Model.Adapters Model.Base Model.Imp Generated.AdaptersFn.
Import ListNotations.
Local Open Scope N_scope.

(* ---- finite case analysis -------------------------------------------------- *)

Lemma adg_lt16_In i : i < 16 -> In i [0; 1; 2; 3; 4; 5; 6; 7; 8; 9; 10; 11; 12; 13; 14; 15].
Proof.
  intros H. rewrite <- (N2Nat.id i). assert (Hn : (N.to_nat i < 16)%nat) by lia.
  revert Hn. generalize (N.to_nat i). intros n Hn.
  do 16 (destruct n as [|n]; [cbn; repeat (first [left; reflexivity | right]) | ]). lia.
Qed.

(* a 16-way match / if-chain against a table look-up of the hand model: one [reflexivity] per colour
   (insensitive to the order of the arms) *)
Ltac adg_cases16 H :=
  let HI := fresh "HI" in
  pose proof (adg_lt16_In _ H) as HI; cbn [In] in HI;
  repeat (destruct HI as [<-|HI]; [reflexivity|]); destruct HI.

(* A translated colour function is option-valued when the Rust match can fall through in the model (16 arms over the ANSI
   number: [None] above 15) and TOTAL when it ends in a catch-all (`_ => ..`, a last `return`-less value): which of the two is the
   maintainers' spelling, not behaviour.  The lemmas read the translation as an option either way ([adg_as_option], under a cast
   to the option type: the term itself when it is one, [Some] of it otherwise -- for the 16-arm match the statement is the term
   it always was), and [adg_rw] rewrites with such a lemma whether the caller holds [g i] or [Some (g i)]. *)
Ltac adg_as_option t := first [ exact t | exact (Some t) ].
Ltac adg_rw E :=
  let E' := fresh "E" in
  pose proof E as E';
  first [ rewrite E' | injection E' as E'; rewrite E' ]; clear E'.

(* ---- bit sets --------------------------------------------------------------- *)

(* bitflags `contains` of a one-bit constant = the bit test of the hand model *)
Lemma adg_contains_bit e k : ad_bits_contains e (bit k) = N.testbit e k.
Proof.
  unfold ad_bits_contains, bit. rewrite N.shiftl_1_l. destruct (N.testbit e k) eqn:E.
  - apply N.eqb_eq. apply N.bits_inj. intros n. rewrite N.land_spec, N.pow2_bits_eqb.
    destruct (N.eqb_spec k n) as [<-|_]; [rewrite E; reflexivity|apply andb_false_r].
  - apply N.eqb_neq. intros H.
    assert (K : N.testbit (N.land e (2 ^ k)) k = N.testbit (2 ^ k) k) by (rewrite H; reflexivity).
    rewrite N.land_spec, N.pow2_bits_true, E in K. discriminate.
Qed.

(* the hand model's effect list, one entry at a time *)
Definition adg_one (b : bool) (name : list N) : list (list N) := if b then [name] else [].

Lemma adg_conv_effects_cons k name t e :
  ad_conv_effects ((k, name) :: t) e = adg_one (N.testbit e k) name ++ ad_conv_effects t e.
Proof. cbn [ad_conv_effects]. destruct (N.testbit e k); reflexivity. Qed.

(* ---- Option::map with a translated colour function --------------------------- *)

Lemma adg_opt_map_m {B : Type} (g : ad_color -> option B) (h : colour -> B) :
  (forall c, ad_colour_ok (Some c) -> g (ad_color_of c) = Some (h c)) ->
  forall o, ad_colour_ok o -> ad_opt_map_m g (option_map ad_color_of o) = Some (option_map h o).
Proof.
  intros Hg [c|] Ho; cbn [option_map ad_opt_map_m]; [|reflexivity]. rewrite (Hg c Ho). reflexivity.
Qed.

(* ---- one statement `if effects.contains(X) { style = style.attr(); }` ---------- *)
(* the new style = the old one with the hand model's list entry appended; stated for any
   continuation [K] (the rest of the function), so that the chain is walked by rewriting, in source
   order, without a case split per effect *)

Definition adg_app (t : ad_tstyle) (l : list (list N)) : ad_tstyle :=
  mkAdT (ad_t_fg t) (ad_t_bg t) (ad_t_ul t) (ad_t_attrs t ++ l).

Lemma adg_style_step (b : bool) (t : ad_tstyle) (name : list N) (K : ad_tstyle -> option ad_tstyle) :
  (x <- (if b then let t' := ad_t_attr t name in Some t' else Some t) ;; K x) = K (adg_app t (adg_one b name)).
Proof.
  destruct b; cbn [adg_one]; cbv zeta; unfold adg_app, ad_t_attr; [reflexivity|].
  rewrite app_nil_r. destruct t; reflexivity.
Qed.

Lemma adg_attrs_step (b : bool) (l : list (list N)) (name : list N) (K : list (list N) -> option ad_tstyle) :
  (x <- (if b then let l' := ad_attrs_set l name in Some l' else Some l) ;; K x) = K (l ++ adg_one b name).
Proof. destruct b; cbn [adg_one]; cbv zeta; unfold ad_attrs_set; [reflexivity|]. rewrite app_nil_r. reflexivity. Qed.

Lemma adg_app_app t l1 l2 : adg_app (adg_app t l1) l2 = adg_app t (l1 ++ l2).
Proof. unfold adg_app. cbn [ad_t_fg ad_t_bg ad_t_ul ad_t_attrs]. rewrite app_assoc. reflexivity. Qed.

Lemma adg_app_nil t : adg_app t [] = t.
Proof. unfold adg_app. rewrite app_nil_r. destruct t; reflexivity. Qed.

(* ---- the effects applied from a private TABLE of (effect, method pointer) entries ------------- *)
(* `TABLE.iter().filter(|(e, _)| effects.contains( *e)).fold(style, |style, (_, set)| set(&style))`: whatever way the two
   closures take an entry apart, the fold appends the hand model's list when the table's entries are, one by one, the
   hand table's: the same bit, and the method that switches on the attribute of that name *)
Definition adg_setter_rel (p : N * (ad_tstyle -> ad_tstyle)) (kn : N * list N) : Prop :=
  fst p = bit (fst kn) /\ forall t, snd p t = ad_t_attr t (snd kn).

Lemma adg_fold_setters (F : ad_tstyle -> N * (ad_tstyle -> ad_tstyle) -> ad_tstyle) (G : N * (ad_tstyle -> ad_tstyle) -> bool)
      (L : list (N * (ad_tstyle -> ad_tstyle))) (tbl : list (N * list N)) (e : N) (t : ad_tstyle) :
  (forall st p, F st p = snd p st) -> (forall p, G p = ad_bits_contains e (fst p)) ->
  Forall2 adg_setter_rel L tbl ->
  fold_left F (filter G L) t = adg_app t (ad_conv_effects tbl e).
Proof.
  intros HF HG H. revert t. induction H as [|p kn L' tbl' [Hk Hs] _ IH]; intros t.
  - cbn [filter fold_left ad_conv_effects]. rewrite adg_app_nil. reflexivity.
  - destruct kn as [k name]. cbn [filter ad_conv_effects fst snd] in *. rewrite HG, Hk, adg_contains_bit.
    destruct (N.testbit e k); cbn [fold_left].
    + rewrite HF, Hs, IH. unfold adg_app, ad_t_attr. cbn [ad_t_fg ad_t_bg ad_t_ul ad_t_attrs].
      rewrite <- app_assoc. reflexivity.
    + apply IH.
Qed.

Ltac adg_setter_table tbl :=
  try match goal with
  | |- context [fold_left ?F (filter ?G ?L) ?t] =>
      match goal with
      | |- context [ad_conv_effects tbl ?e] =>
          rewrite (adg_fold_setters F G L tbl e t
                     ltac:(intros ? [? ?]; reflexivity) ltac:(intros [? ?]; reflexivity)
                     ltac:(unfold tbl; repeat (first [apply Forall2_nil | apply Forall2_cons; [split; [reflexivity|intros ?; reflexivity]|]])))
      end
  end.

(* walk a chain of effect statements (translated side), then the effect table (hand side) *)
Ltac adg_effects tbl :=
  adg_setter_table tbl;
  rewrite ?adg_contains_bit;
  repeat rewrite adg_style_step;
  repeat rewrite adg_attrs_step;
  unfold tbl; repeat rewrite adg_conv_effects_cons; cbn [ad_conv_effects];
  rewrite ?adg_app_app, <- ?app_assoc, ?app_nil_r.

(* ====================================================================== *)
(* anstyle-ansi-term *)

Lemma g_at_rgb_to_ansi_color_eq r g b : g_at_rgb_to_ansi_color (r, g, b) = AdRgb r g b.
Proof. reflexivity. Qed.

Lemma g_at_xterm_to_ansi_color_eq n : g_at_xterm_to_ansi_color n = AdFixed n.
Proof. reflexivity. Qed.

Lemma g_at_ansi_to_ansi_color_eq i : i < 16 ->
  (ltac:(adg_as_option (g_at_ansi_to_ansi_color i)) : option (ad_tcolor * bool)) =
  Some (let p := ad_arm ([], false) ad_gen_ansi_term_colors i in (AdNamed (fst p), snd p)).
Proof. intros H. adg_cases16 H. Qed.

Lemma g_at_to_ansi_color_eq c : ad_colour_ok (Some c) ->
  g_at_to_ansi_color (ad_color_of c) = Some (ad_at_colour c).
Proof.
  destruct c as [i|n|r g b]; cbn [ad_colour_ok ad_color_of]; intros H; unfold g_at_to_ansi_color; [|reflexivity..].
  adg_rw (g_at_ansi_to_ansi_color_eq i H). reflexivity.
Qed.

Theorem g_to_ansi_term_eq s : ad_src_ok s -> g_to_ansi_term s = Some (ad_to_ansi_term s).
Proof.
  intros (Hf & Hb & _ & _). unfold g_to_ansi_term, ad_s_get_fg, ad_s_get_bg, ad_s_get_eff.
  rewrite (adg_opt_map_m _ _ g_at_to_ansi_color_eq _ Hf), (adg_opt_map_m _ _ g_at_to_ansi_color_eq _ Hb).
  unfold ad_to_ansi_term. cbv zeta.
  destruct (option_map ad_at_colour (s_fg s)) as [[fg [|]]|];
    destruct (option_map ad_at_colour (s_bg s)) as [[bg bb]|];
    cbn [option_map fst snd];
    adg_effects ad_gen_ansi_term_effects; reflexivity.
Qed.

(* ====================================================================== *)
(* anstyle-crossterm *)

Lemma g_ct_rgb_to_ansi_color_eq r g b : g_ct_rgb_to_ansi_color (r, g, b) = AdRgb r g b.
Proof. reflexivity. Qed.

Lemma g_ct_xterm_to_ansi_color_eq n : g_ct_xterm_to_ansi_color n = AdFixed n.
Proof. reflexivity. Qed.

Lemma g_ct_ansi_to_ansi_color_eq i : i < 16 ->
  (ltac:(adg_as_option (g_ct_ansi_to_ansi_color i)) : option ad_tcolor) = Some (AdNamed (ad_arm [] ad_gen_crossterm_colors i)).
Proof. intros H. adg_cases16 H. Qed.

Lemma g_ct_to_ansi_color_eq c : ad_colour_ok (Some c) ->
  g_ct_to_ansi_color (ad_color_of c) = Some (ad_conv_colour ad_gen_crossterm_colors c).
Proof.
  destruct c as [i|n|r g b]; cbn [ad_colour_ok ad_color_of]; intros H; unfold g_ct_to_ansi_color; [|reflexivity..].
  adg_rw (g_ct_ansi_to_ansi_color_eq i H). reflexivity.
Qed.

Theorem g_to_crossterm_eq s : ad_src_ok s -> g_to_crossterm s = Some (ad_to_crossterm s).
Proof.
  intros (Hf & Hb & Hu & _). unfold g_to_crossterm, ad_s_get_fg, ad_s_get_bg, ad_s_get_ul, ad_s_get_eff.
  rewrite (adg_opt_map_m _ _ g_ct_to_ansi_color_eq _ Hf), (adg_opt_map_m _ _ g_ct_to_ansi_color_eq _ Hb),
    (adg_opt_map_m _ _ g_ct_to_ansi_color_eq _ Hu).
  unfold ad_to_crossterm, ad_attrs_new. cbv zeta.
  adg_effects ad_gen_crossterm_effects. reflexivity.
Qed.

(* ====================================================================== *)
(* anstyle-owo-colors *)

Lemma g_owo_rgb_to_owo_colors_color_eq c : g_owo_rgb_to_owo_colors_color c = c.
Proof. destruct c as [[r g] b]. reflexivity. Qed.

Lemma g_owo_xterm_to_owo_colors_color_eq n : g_owo_xterm_to_owo_colors_color n = n.
Proof. reflexivity. Qed.

Lemma g_owo_ansi_to_owo_colors_color_eq i : i < 16 ->
  (ltac:(adg_as_option (g_owo_ansi_to_owo_colors_color i)) : option (list N)) = Some (ad_arm [] ad_gen_owo_colors i).
Proof. intros H. adg_cases16 H. Qed.

Lemma g_to_owo_colors_eq c : ad_colour_ok (Some c) ->
  g_to_owo_colors (ad_color_of c) = Some (ad_conv_colour ad_gen_owo_colors c).
Proof.
  destruct c as [i|n|r g b]; cbn [ad_colour_ok ad_color_of]; intros H; unfold g_to_owo_colors; [|reflexivity..].
  adg_rw (g_owo_ansi_to_owo_colors_color_eq i H). reflexivity.
Qed.

Theorem g_to_owo_style_eq s : ad_src_ok s -> g_to_owo_style s = Some (ad_to_owo s).
Proof.
  intros (Hf & Hb & _ & _). unfold g_to_owo_style, ad_s_get_fg, ad_s_get_bg, ad_s_get_eff.
  rewrite (adg_opt_map_m _ _ g_to_owo_colors_eq _ Hf), (adg_opt_map_m _ _ g_to_owo_colors_eq _ Hb).
  unfold ad_to_owo. cbv zeta.
  destruct (option_map (ad_conv_colour ad_gen_owo_colors) (s_fg s)) as [fg|];
    destruct (option_map (ad_conv_colour ad_gen_owo_colors) (s_bg s)) as [bg|];
    adg_effects ad_gen_owo_effects; reflexivity.
Qed.

(* ====================================================================== *)
(* anstyle-termcolor *)

Lemma g_tc_rgb_to_termcolor_color_eq r g b : g_tc_rgb_to_termcolor_color (r, g, b) = AdRgb r g b.
Proof. reflexivity. Qed.

Lemma g_tc_xterm_to_termcolor_color_eq n : g_tc_xterm_to_termcolor_color n = AdFixed n.
Proof. reflexivity. Qed.

Lemma g_tc_ansi_to_termcolor_color_eq i : i < 16 ->
  (ltac:(adg_as_option (g_tc_ansi_to_termcolor_color i)) : option ad_tcolor) = Some (AdNamed (ad_arm [] ad_gen_termcolor_colors i)).
Proof. intros H. adg_cases16 H. Qed.

Lemma g_to_termcolor_color_eq c : ad_colour_ok (Some c) ->
  g_to_termcolor_color (ad_color_of c) = Some (ad_conv_colour ad_gen_termcolor_colors c).
Proof.
  destruct c as [i|n|r g b]; cbn [ad_colour_ok ad_color_of]; intros H; unfold g_to_termcolor_color; [|reflexivity..].
  adg_rw (g_tc_ansi_to_termcolor_color_eq i H). reflexivity.
Qed.

(* `style.set_x(effects.contains(X))` on a ColorSpec: a flag that is set to false is REMOVED from the
   list; every setter is called once, on a list that does not hold its flag yet, so each of the 16
   combinations computes to the hand model's list *)
Theorem g_to_termcolor_spec_eq s : ad_src_ok s -> g_to_termcolor_spec s = Some (ad_to_termcolor s).
Proof.
  intros (Hf & Hb & _ & _). unfold g_to_termcolor_spec, ad_s_get_fg, ad_s_get_bg, ad_s_get_eff.
  rewrite (adg_opt_map_m _ _ g_to_termcolor_color_eq _ Hf), (adg_opt_map_m _ _ g_to_termcolor_color_eq _ Hb).
  unfold ad_to_termcolor. cbv zeta. rewrite !adg_contains_bit.
  unfold ad_gen_termcolor_effects. cbn [ad_conv_effects].
  destruct (N.testbit (s_eff s) 0), (N.testbit (s_eff s) 1), (N.testbit (s_eff s) 2), (N.testbit (s_eff s) 3); reflexivity.
Qed.

(* ====================================================================== *)
(* anstyle-yansi *)

Lemma g_ya_rgb_to_yansi_color_eq r g b : g_ya_rgb_to_yansi_color (r, g, b) = AdRgb r g b.
Proof. reflexivity. Qed.

Lemma g_ya_xterm_to_yansi_color_eq n : g_ya_xterm_to_yansi_color n = AdFixed n.
Proof. reflexivity. Qed.

Lemma g_ya_ansi_to_yansi_color_eq i : i < 16 ->
  (ltac:(adg_as_option (g_ya_ansi_to_yansi_color i)) : option ad_tcolor) = Some (AdNamed (ad_arm [] ad_gen_yansi_colors i)).
Proof. intros H. adg_cases16 H. Qed.

Lemma g_to_yansi_color_eq c : ad_colour_ok (Some c) ->
  g_to_yansi_color (ad_color_of c) = Some (ad_conv_colour ad_gen_yansi_colors c).
Proof.
  destruct c as [i|n|r g b]; cbn [ad_colour_ok ad_color_of]; intros H; unfold g_to_yansi_color; [|reflexivity..].
  adg_rw (g_ya_ansi_to_yansi_color_eq i H). reflexivity.
Qed.

Theorem g_to_yansi_style_eq s : ad_src_ok s -> g_to_yansi_style s = Some (ad_to_yansi s).
Proof.
  intros (Hf & Hb & _ & _). unfold g_to_yansi_style, ad_s_get_fg, ad_s_get_bg, ad_s_get_eff.
  rewrite (adg_opt_map_m _ _ g_to_yansi_color_eq _ Hf), (adg_opt_map_m _ _ g_to_yansi_color_eq _ Hb).
  unfold ad_to_yansi. cbv zeta.
  destruct (s_fg s) as [fg|]; destruct (s_bg s) as [bg|]; cbn [option_map opt_unwrap_or];
    adg_effects ad_gen_yansi_effects; reflexivity.
Qed.

(* ====================================================================== *)
(* anstyle-syntect (the opposite direction) *)

Lemma adg_font_flag_bold : ad_font_flag [66; 79; 76; 68] = bit 0.
Proof. reflexivity. Qed.
Lemma adg_font_flag_underline : ad_font_flag [85; 78; 68; 69; 82; 76; 73; 78; 69] = bit 1.
Proof. reflexivity. Qed.
Lemma adg_font_flag_italic : ad_font_flag [73; 84; 65; 76; 73; 67] = bit 2.
Proof. reflexivity. Qed.

Lemma g_syn_to_anstyle_effects_eq font :
  g_syn_to_anstyle_effects font = Some (ad_syntect_conv_effects ad_gen_syntect_flags font).
Proof.
  unfold g_syn_to_anstyle_effects. cbv zeta.
  rewrite adg_font_flag_bold, adg_font_flag_underline, adg_font_flag_italic, !adg_contains_bit.
  unfold ad_gen_syntect_flags. cbn [ad_syntect_conv_effects].
  change (ad_assoc [66; 79; 76; 68] ad_syntect_flags) with (Some (0, BOLD)).
  change (ad_assoc [73; 84; 65; 76; 73; 67] ad_syntect_flags) with (Some (2, ITALIC)).
  change (ad_assoc [85; 78; 68; 69; 82; 76; 73; 78; 69] ad_syntect_flags) with (Some (1, UNDERLINE)).
  unfold ad_bits_or, ad_bits_new.
  destruct (N.testbit font 0), (N.testbit font 2), (N.testbit font 1); reflexivity.
Qed.

Lemma g_syn_to_anstyle_color_eq r g b a : g_syn_to_anstyle_color (r, g, b, a) = AdcRgb (r, g, b).
Proof. reflexivity. Qed.

Theorem g_syn_to_anstyle_eq fg bg font :
  g_syn_to_anstyle (mkAdSyn fg bg font) = Some (ad_from_syntect fg bg font).
Proof.
  unfold g_syn_to_anstyle. cbn [ad_syn_fg ad_syn_bg ad_syn_font]. rewrite g_syn_to_anstyle_effects_eq.
  destruct fg as [[[r g] b] a], bg as [[[r' g'] b'] a']. reflexivity.
Qed.

(* ====================================================================== *)
(* the entry points together *)

(* the translated conversion into a library, by the library (as [ad_convert]) *)
Definition g_convert (l : ad_lib) : sstyle -> option ad_tstyle :=
  match l with
  | AdAnsiTerm => g_to_ansi_term
  | AdCrossterm => g_to_crossterm
  | AdOwo => g_to_owo_style
  | AdTermcolor => g_to_termcolor_spec
  | AdYansi => g_to_yansi_style
  end.

Theorem translated_adapters_are_model :
  (forall l s, ad_src_ok s -> g_convert l s = Some (ad_convert l s)) /\
  (forall fg bg font, g_syn_to_anstyle (mkAdSyn fg bg font) = Some (ad_from_syntect fg bg font)).
Proof.
  refine (conj _ g_syn_to_anstyle_eq).
  intros [] s H; cbn [g_convert ad_convert].
  - exact (g_to_ansi_term_eq s H).
  - exact (g_to_crossterm_eq s H).
  - exact (g_to_owo_style_eq s H).
  - exact (g_to_termcolor_spec_eq s H).
  - exact (g_to_yansi_style_eq s H).
Qed.

Theorem translated_colours_are_model c : ad_colour_ok (Some c) ->
  g_at_to_ansi_color (ad_color_of c) = Some (ad_at_colour c) /\
  g_ct_to_ansi_color (ad_color_of c) = Some (ad_conv_colour ad_gen_crossterm_colors c) /\
  g_to_owo_colors (ad_color_of c) = Some (ad_conv_colour ad_gen_owo_colors c) /\
  g_to_termcolor_color (ad_color_of c) = Some (ad_conv_colour ad_gen_termcolor_colors c) /\
  g_to_yansi_color (ad_color_of c) = Some (ad_conv_colour ad_gen_yansi_colors c).
Proof.
  intros H.
  exact (conj (g_at_to_ansi_color_eq c H) (conj (g_ct_to_ansi_color_eq c H) (conj (g_to_owo_colors_eq c H)
        (conj (g_to_termcolor_color_eq c H) (g_to_yansi_color_eq c H))))).
Qed.
