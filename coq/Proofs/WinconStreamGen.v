(* placeholder *)
