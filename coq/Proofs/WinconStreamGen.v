(* Proofs/WinconStreamGen.v -- the functions TRANSLATED from crates/anstream/src/wincon.rs
   (Generated/WinconStreamFn.v, written by tools/gen_fn_stream.py on every run) are
   extensionally equal to the hand model Model/WinconStream.v that the theorems of C18 are
   about.  A change to the Rust functions changes the translation; if it changes their
   meaning, one of these proofs fails. *)
From Coq Require Import NArith Arith List Bool Lia.
From AV Require Import Generated.Table Spec.Utf8 Spec.Vt Spec.Sgr Spec.Io Model.Base Model.Imp Model.Utf8parse Model.Parser
  Model.Strip Model.Wincon Model.Stream Model.WinconStream Generated.FmtFn Proofs.FmtGen Generated.WinconStreamFn Generated.WinconFn.
Import ListNotations.
Local Open Scope N_scope.

Definition wconv_n (r : option (console * wstream * (N + ekind))) : option (wstream * console * sres) :=
  match r with Some (c, s, x) => Some (s, c, sres_of_n x) | None => None end.
Definition wconv_u (r : option (console * wstream * (unit + ekind))) : option (wstream * console * sres) :=
  match r with Some (c, s, x) => Some (s, c, sres_of_unit x) | None => None end.

(* ---- fn cap_wincon_color -------------------------------------------------------------- *)
Lemma g_cap_wincon_color_eq c : g_cap_wincon_color c = Some (cap_wincon_color c).
Proof. destruct c; reflexivity. Qed.

Lemma cap_stage (o : option colour) :
  match o with Some x => g_cap_wincon_color x | None => Some None end = Some (cap_opt o).
Proof. destruct o as [c|]; [apply g_cap_wincon_color_eq|reflexivity]. Qed.

(* ---- one call of write_colored ---------------------------------------------------------- *)
Lemma con_write_inl c fg bg data c1 n :
  con_write_colored c fg bg data = (c1, inl n) ->
  n <= N.of_nat (length data) /\
  ((length (con_script c1) < length (con_script c))%nat \/ (con_script c1 = [] /\ n = N.of_nat (length data))).
Proof.
  unfold con_write_colored. destruct (con_script c) as [|[k|e] rest]; intros H; inversion H; subst; cbn [con_script length].
  - split; [lia|]. right. split; reflexivity.
  - split; [lia|]. left. lia.
Qed.

Lemma con_write_inr c fg bg data c1 e :
  con_write_colored c fg bg data = (c1, inr e) -> (length (con_script c1) < length (con_script c))%nat.
Proof.
  unfold con_write_colored. destruct (con_script c) as [|[k|e0] rest]; intros H; inversion H; subst; cbn [con_script length]. lia.
Qed.

Lemma slice_suffix {A} (l : list A) n : n <= N.of_nat (length l) -> slice l n (len l) = Some (skipn (N.to_nat n) l).
Proof.
  intros H. unfold slice, len. apply N.leb_le in H. rewrite H, N.leb_refl. cbn [andb].
  rewrite firstn_all2; [reflexivity|]. rewrite skipn_length. apply N.leb_le in H. lia.
Qed.

(* ---- fn write_all ------------------------------------------------------------------------ *)
(* what the translated `while !buf.is_empty()` loop answers, against wc_run_loop *)
Definition inner_ok (res : option ((console * list N) + ((console * list N) * (unit + ekind)))) (hand : console * (unit + ekind)) : Prop :=
  match res with
  | Some (inl (c1, _)) => hand = (c1, inl tt)
  | Some (inr ((c1, _), r)) => exists e, r = inr e /\ hand = (c1, inr e)
  | None => False
  end.

Lemma g_wc_write_all_eq raw s buf : wconv_u (g_wc_write_all raw s buf) = wc_write_all s buf raw.
Proof.
  (* combinator, step, initial tuple and continuation of the outer loop are read off the goal (as Proofs/StreamGen.v
     g_write_all_eq does): `mk` is the initial tuple with the iterator, the console and the stream state abstracted, in
     whatever order the translator carries them and whatever further loop variables (a shadowed `buf`) ride along *)
  unfold g_wc_write_all, wc_write_all, wci_enter. cbv zeta.
  match goal with
  | |- wconv_u (match ?W ?fuel0 ?f ?init with Some x => @?K x | None => None end) = _ =>
      let pat := eval pattern (wci_new buf), raw,
                 (mkWS (ws_parser s) (mkCap (c_style (ws_capture s)) (c_printable (ws_capture s)) None)) in init in
      match pat with
      | ?mk _ _ _ =>
          set (step := f);     (* opaque: unfolded one round at a time, the inner loop inside it stays folded *)
          assert (L : forall fuel bs p cap c,
                     wconv_u (match W fuel step (mk bs c (mkWS p cap)) with Some x => K x | None => None end)
                     = wc_write_all_loop fuel bs p cap c)
      end
  end.
  { induction fuel as [|fuel IH]; intros bs p cap c; [reflexivity|].
    cbn [while_fuel while_fuel0 wc_write_all_loop]. unfold step at 1. unfold wci_next. cbn [ws_parser ws_capture].
    destruct (wincon_next bs p cap) as [[[[item bs1] p1] cap1]|]; [|reflexivity].
    destruct item as [[style txt]|]; [|reflexivity].
    rewrite !cap_stage.
    match goal with |- context [while_fuel _ ?f (c, str_bytes txt)] => set (istep := f) end.
    assert (I : forall f c0 b, (length (con_script c0) + length b < f)%nat ->
                inner_ok (while_fuel f istep (c0, b)) (wc_run_loop f c0 (cap_opt (s_fg style)) (cap_opt (s_bg style)) b)).
    { induction f as [|f IHf]; intros c0 b Hm; [lia|].
      cbn [while_fuel wc_run_loop]. unfold istep at 1.
      destruct b as [|b1 bt]; [reflexivity|]. cbn [is_empty negb].
      destruct (con_write_colored c0 (cap_opt (s_fg style)) (cap_opt (s_bg style)) (b1 :: bt)) as [c1 r] eqn:Ew.
      destruct r as [n|e].
      - destruct (con_write_inl _ _ _ _ _ _ Ew) as [Hn Hs].
        destruct (n =? 0) eqn:En.
        + apply N.eqb_eq in En. subst n. cbn [inner_ok]. exists WriteZero. split; reflexivity.
        + apply N.eqb_neq in En. rewrite (slice_suffix _ _ Hn).
          assert (Hk : (length (con_script c1) + length (skipn (N.to_nat n) (b1 :: bt)) < f)%nat).
          { rewrite skipn_length. cbn [length] in *. destruct Hs as [Hs|[Hs ->]]; [lia|]. rewrite Hs. cbn [length]. lia. }
          specialize (IHf c1 (skipn (N.to_nat n) (b1 :: bt)) Hk).
          destruct n as [|pn]; [congruence|]. exact IHf.
      - pose proof (con_write_inr _ _ _ _ _ _ Ew) as Hs.
        destruct e; cbn [ekind_eqb].
        + apply IHf. cbn [length] in *. lia.
        + cbn [inner_ok]. eexists. split; reflexivity.
        + cbn [inner_ok]. eexists. split; reflexivity.
        + cbn [inner_ok]. eexists. split; reflexivity. }
    specialize (I (S (length (con_script c) + length (str_bytes txt))) c (str_bytes txt) (Nat.lt_succ_diag_r _)).
    destruct (while_fuel (S (length (con_script c) + length (str_bytes txt))) istep (c, str_bytes txt))
      as [[[c1 b1]|[[c1 b1] r]]|]; cbn [inner_ok] in I.
    - rewrite I. apply IH.
    - destruct I as (e & -> & ->). reflexivity.
    - contradiction. }
  apply (L (S (S (length buf))) buf (ws_parser s)
           (mkCap (c_style (ws_capture s)) (c_printable (ws_capture s)) None) raw).
Qed.

(* ---- fn write (as repaired) and fn write_fmt ------------------------------------------------ *)
Lemma g_wc_write_eq raw s buf : wconv_n (g_wc_write raw s buf) = wc_write s buf raw.
Proof.
  unfold g_wc_write, wc_write. rewrite <- g_wc_write_all_eq.
  destruct (g_wc_write_all raw s buf) as [[[c1 s1] r]|]; [|reflexivity].
  destruct r as [[]|e]; reflexivity.
Qed.

Lemma g_wc_write_fmt_eq raw s frags : wconv_u (g_wc_write_fmt raw s frags) = wc_write_fmt s frags raw.
Proof.
  unfold g_wc_write_fmt. cbv zeta.
  (* Adapter::new(closure).write_fmt(args), TRANSLATED (Generated/FmtFn.v), is the hand model's fmt_adapter_write_fmt *)
  rewrite (adapter_run _ _ (fun st r => let '(raw3, state3) := st in Some (raw3, state3, r))).
  revert raw s.
  induction frags as [|fr rest IH]; intros raw s; cbn [fmt_adapter_write_fmt wc_write_fmt]; [reflexivity|].
  rewrite <- g_wc_write_all_eq.
  destruct (g_wc_write_all raw s fr) as [[[c1 s1] r]|]; cbn [wconv_u]; [|reflexivity].
  destruct r as [[]|e]; cbn [sres_of_unit]; [|reflexivity].
  apply IH.
Qed.

(* ---- impl io::Write for WinconStream ---------------------------------------------------------- *)
(* write_vectored: `bufs.iter().find(|b| !b.is_empty()).map(|b| &**b).unwrap_or(&[][..])`, TRANSLATED, is first_nonempty *)
Lemma wc_find_nonempty_is_first_nonempty (bufs : list (list N)) :
  opt_unwrap_or (option_map (fun b => b) (find (fun b => negb (is_empty b)) bufs)) [] = first_nonempty bufs.
Proof.
  induction bufs as [|b rest IH]; [reflexivity|].
  destruct b as [|c b]; cbn [find is_empty negb first_nonempty]; [exact IH|reflexivity].
Qed.

(* independent of how the selection is spelled after the `find` (`.map(..).unwrap_or(..)` | `.map_or(.., ..)` | `match` | `if let`):
   `find p bufs` for ANY predicate that is pointwise "not empty" (same lemma as Proofs/StreamGen.v find_first_nonempty) *)
Lemma wc_find_first_nonempty (p : list N -> bool) (bufs : list (list N)) :
  (forall b, p b = negb (is_empty b)) ->
  find p bufs = match first_nonempty bufs with [] => None | b => Some b end.
Proof.
  intros Hp. induction bufs as [|b rest IH]; [reflexivity|].
  cbn [find first_nonempty]. rewrite Hp. destruct b as [|c b]; cbn [is_empty negb]; [exact IH|reflexivity].
Qed.

Lemma g_wcs_write_vectored_first x bufs : g_wcs_write_vectored x bufs = g_wcs_write x (first_nonempty bufs).
Proof.
  unfold g_wcs_write_vectored. cbv zeta.
  match goal with
  | |- context [find ?p bufs] => rewrite (wc_find_first_nonempty p bufs) by (intros [|? ?]; reflexivity)
  end.
  destruct (first_nonempty bufs); cbn [opt_unwrap_or option_map].
  all: match goal with |- context [g_wcs_write ?y ?b] => destruct (g_wcs_write y b) as [[? ?]|] end; reflexivity.
Qed.

Definition g_wcs_op (x : wcstream) (o : sop) : option (wcstream * sres) :=
  match o with
  | OWrite buf => '(x1, r) <- g_wcs_write x buf ;; Some (x1, sres_of_n r)
  | OWriteAll buf => '(x1, r) <- g_wcs_write_all x buf ;; Some (x1, sres_of_unit r)
  | OWriteVectored bufs => '(x1, r) <- g_wcs_write_vectored x bufs ;; Some (x1, sres_of_n r)
  | OWriteFmt frags => '(x1, r) <- g_wcs_write_fmt x frags ;; Some (x1, sres_of_unit r)
  | OFlush => let '(x1, r) := g_wcs_flush x in Some (x1, sres_of_unit r)
  end.

Fixpoint g_wcs_run (x : wcstream) (ops : list sop) : option (wcstream * list sres) :=
  match ops with
  | [] => Some (x, [])
  | o :: rest =>
      '(x1, r) <- g_wcs_op x o ;;
      '(x2, rs) <- g_wcs_run x1 rest ;;
      Some (x2, r :: rs)
  end.

Lemma g_wcs_op_eq x o :
  match g_wcs_op x o with Some (x1, r) => Some (wcs_state x1, wcs_raw x1, r) | None => None end
  = wc_op (wcs_state x) (wcs_raw x) o.
Proof.
  destruct o as [buf|buf|bufs|frags|]; cbn [g_wcs_op wc_op].
  - rewrite <- g_wc_write_eq. unfold g_wcs_write.
    destruct (g_wc_write (wcs_raw x) (wcs_state x) buf) as [[[? ?] ?]|]; reflexivity.
  - rewrite <- g_wc_write_all_eq. unfold g_wcs_write_all.
    destruct (g_wc_write_all (wcs_raw x) (wcs_state x) buf) as [[[? ?] ?]|]; reflexivity.
  - rewrite g_wcs_write_vectored_first. rewrite <- g_wc_write_eq. unfold g_wcs_write.
    destruct (g_wc_write (wcs_raw x) (wcs_state x) (first_nonempty bufs)) as [[[? ?] ?]|]; reflexivity.
  - rewrite <- g_wc_write_fmt_eq. unfold g_wcs_write_fmt.
    destruct (g_wc_write_fmt (wcs_raw x) (wcs_state x) frags) as [[[? ?] ?]|]; reflexivity.
  - reflexivity.
Qed.

(* the translated stream, driven by any operation sequence, is the hand model *)
Theorem translated_wincon_stream_is_model : forall ops x,
  match g_wcs_run x ops with Some (x1, rs) => Some (wcs_state x1, wcs_raw x1, rs) | None => None end
  = wc_run_ops (wcs_state x) (wcs_raw x) ops.
Proof.
  induction ops as [|o rest IH]; intros x; cbn [g_wcs_run wc_run_ops]; [reflexivity|].
  rewrite <- g_wcs_op_eq.
  destruct (g_wcs_op x o) as [[x1 r]|]; [|reflexivity].
  rewrite <- IH. destruct (g_wcs_run x1 rest) as [[x2 rs]|]; reflexivity.
Qed.

(* ---- the constructors / accessors: WinconStream::{new, into_inner, is_terminal, lock}, translated ---------------- *)
Lemma g_wcs_new_eq cf raw : g_wcs_new cf raw = mkWCS raw ws_new.
Proof. reflexivity. Qed.
Lemma g_wcs_into_inner_eq cf x : g_wcs_into_inner cf x = wcs_raw x.
Proof. reflexivity. Qed.
Lemma g_wcs_is_terminal_eq cf x : g_wcs_is_terminal cf x = ac_tty cf.
Proof. reflexivity. Qed.
(* `lock` hands the state at the time of the call to the locked stream, and the console it writes to is the same *)
Lemma g_wcs_lock_stdout_eq cf x : g_wcs_lock_stdout cf x = x.
Proof. destruct x; reflexivity. Qed.
Lemma g_wcs_lock_stderr_eq cf x : g_wcs_lock_stderr cf x = x.
Proof. destruct x; reflexivity. Qed.

Lemma g_wcs_run_app ops1 : forall ops2 x,
  g_wcs_run x (ops1 ++ ops2) =
  match g_wcs_run x ops1 with
  | Some (x1, rs1) => match g_wcs_run x1 ops2 with Some (x2, rs2) => Some (x2, rs1 ++ rs2) | None => None end
  | None => None
  end.
Proof.
  induction ops1 as [|o rest IH]; intros ops2 x; cbn [app g_wcs_run].
  - destruct (g_wcs_run x ops2) as [[x2 rs2]|]; reflexivity.
  - destruct (g_wcs_op x o) as [[x1 r]|]; [|reflexivity]. cbv beta iota. rewrite IH.
    destruct (g_wcs_run x1 rest) as [[x2 rs]|]; [|reflexivity]. cbv beta iota.
    destruct (g_wcs_run x2 ops2) as [[x3 rs3]|]; reflexivity.
Qed.

(* operations, lock, more operations = the same operations without the lock (for either handle) *)
Theorem translated_wincon_lock_preserves_state : forall cf x ops1 ops2,
  match g_wcs_run x ops1 with
  | Some (x1, rs1) =>
      match g_wcs_run (g_wcs_lock_stdout cf x1) ops2 with Some (x2, rs2) => Some (x2, rs1 ++ rs2) | None => None end
  | None => None
  end = g_wcs_run x (ops1 ++ ops2) /\
  match g_wcs_run x ops1 with
  | Some (x1, rs1) =>
      match g_wcs_run (g_wcs_lock_stderr cf x1) ops2 with Some (x2, rs2) => Some (x2, rs1 ++ rs2) | None => None end
  | None => None
  end = g_wcs_run x (ops1 ++ ops2).
Proof.
  intros cf x ops1 ops2. rewrite g_wcs_run_app.
  destruct (g_wcs_run x ops1) as [[x1 rs1]|]; [|split; reflexivity].
  rewrite g_wcs_lock_stdout_eq, g_wcs_lock_stderr_eq. split; reflexivity.
Qed.

(* a stream made by `new`, driven by any operations, then taken apart: the hand model from its initial state *)
Theorem translated_wincon_new_run_into_inner : forall cf raw ops,
  match g_wcs_run (g_wcs_new cf raw) ops with
  | Some (x1, rs) => Some (wcs_state x1, g_wcs_into_inner cf x1, rs)
  | None => None
  end = wc_run_ops ws_new raw ops.
Proof. intros. rewrite g_wcs_new_eq. exact (translated_wincon_stream_is_model ops (mkWCS raw ws_new)). Qed.

(* the initial state `state: Default::default()` names (ws_new) is the TRANSLATED WinconBytes::new (Generated/WinconFn.v) *)
Lemma ws_new_is_translated_new : ws_new = mkWS (wb_parser g_wb_new) (wb_capture g_wb_new).
Proof. reflexivity. Qed.
