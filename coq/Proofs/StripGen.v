(* Proofs/StripGen.v -- the functions TRANSLATED from crates/anstream/src/adapter/strip.rs
   (Generated/StripFn.v, written by tools/gen_fn_strip.py on every run) are extensionally
   equal to the hand model Model/Strip.v that the theorems of C01 / C03 are about.  A change
   to the Rust functions changes the translation; if it changes their meaning, one of these
   proofs fails. *)
From Coq Require Import NArith List Bool Lia.
From AV Require Import Generated.Table Spec.Utf8 Spec.Strip Model.Base Model.Utf8parse Model.Parser
  Model.Imp Model.Strip Generated.StripFn Proofs.StripMachine Proofs.StripSim Proofs.StripStr.
Import ListNotations.
Local Open Scope N_scope.

(* ---- `iter().position(closure)` followed by `split_at(offset.unwrap_or(len))` ---------- *)

(* the structurally recursive reading of that idiom: run the closure over the list until it
   answers true; the final closure state, the elements before the stop and the rest
   (starting at the element the closure stopped at) *)
Fixpoint scan {A S : Type} (f : A -> S -> option (S * bool)) (l : list A) (s : S) : option (S * list A * list A) :=
  match l with
  | [] => Some (s, [], [])
  | x :: t =>
      match f x s with
      | None => None
      | Some (s', true) => Some (s', [], l)
      | Some (s', false) =>
          match scan f t s' with
          | Some (s'', a, b) => Some (s'', x :: a, b)
          | None => None
          end
      end
  end.

Definition found {A} (i : N) (a b : list A) : option N :=
  match b with [] => None | _ :: _ => Some (i + len a) end.

Lemma position_scan {A S} (f : A -> S -> option (S * bool)) l : forall s i,
  position_st f l s i =
  match scan f l s with None => None | Some (s', a, b) => Some (s', found i a b) end.
Proof.
  induction l as [|x t IH]; intros s i; cbn [position_st scan].
  - reflexivity.
  - destruct (f x s) as [[s' [|]]|]; try reflexivity.
    + unfold found, len. cbn [length N.of_nat]. rewrite N.add_0_r. reflexivity.
    + rewrite IH. destruct (scan f t s') as [[[s'' a] b]|]; try reflexivity.
      unfold found. destruct b; try reflexivity.
      unfold len. cbn [length]. do 3 f_equal. lia.
Qed.

Lemma scan_split {A S} (f : A -> S -> option (S * bool)) l : forall s s' a b,
  scan f l s = Some (s', a, b) -> l = a ++ b.
Proof.
  induction l as [|x t IH]; intros s s' a b; cbn [scan].
  - intros E. inversion E. reflexivity.
  - destruct (f x s) as [[s1 [|]]|]; try discriminate.
    + intros E. inversion E. reflexivity.
    + destruct (scan f t s1) as [[[s2 a1] b1]|] eqn:E1; try discriminate.
      intros E. inversion E. subst. cbn. f_equal. eapply IH. eassumption.
Qed.

Lemma scan_ext {A S} (f g : A -> S -> option (S * bool)) :
  (forall x s, f x s = g x s) -> forall l s, scan f l s = scan g l s.
Proof.
  intros H l. induction l as [|x t IH]; intros s; cbn [scan]; [reflexivity|].
  rewrite H. destruct (g x s) as [[s' [|]]|]; try reflexivity. rewrite IH. reflexivity.
Qed.

Lemma firstn_len_app {A} (a b : list A) : firstn (length a) (a ++ b) = a.
Proof. induction a; cbn; [destruct b; reflexivity | f_equal; assumption]. Qed.

Lemma skipn_len_app {A} (a b : list A) : skipn (length a) (a ++ b) = b.
Proof. induction a; cbn; [reflexivity | assumption]. Qed.

Lemma split_found {A} (a b : list A) :
  split_at (a ++ b) (opt_unwrap_or (found 0 a b) (len (a ++ b))) = Some (a, b).
Proof.
  unfold split_at, found, len. destruct b as [|y b]; cbn [opt_unwrap_or].
  - rewrite app_nil_r, N.leb_refl, Nnat.Nat2N.id, firstn_all, skipn_all. reflexivity.
  - rewrite N.add_0_l, Nnat.Nat2N.id, firstn_len_app, skipn_len_app.
    replace (N.of_nat (length a) <=? N.of_nat (length (a ++ y :: b))) with true; [reflexivity|].
    symmetry. apply N.leb_le. rewrite app_length. lia.
Qed.

(* the same cut, however the source spells it: `split_at(n)`, `&s[n..]`, `&s[..n]`, `&s[n..s.len()]` with
   n = `offset.unwrap_or(s.len())` *)
Lemma found_idx {A} (a b : list A) : opt_unwrap_or (found 0 a b) (len (a ++ b)) = len a.
Proof.
  unfold found, len. destruct b as [|y b]; cbn [opt_unwrap_or].
  - rewrite app_nil_r. reflexivity.
  - apply N.add_0_l.
Qed.

Lemma split_at_len_app {A} (a b : list A) : split_at (a ++ b) (len a) = Some (a, b).
Proof. rewrite <- (found_idx a b). apply split_found. Qed.

Lemma slice_tail_app {A} (a b : list A) : slice (a ++ b) (len a) (len (a ++ b)) = Some b.
Proof.
  unfold slice, len. rewrite app_length, Nnat.Nat2N.inj_add.
  replace (N.of_nat (length a) <=? N.of_nat (length a) + N.of_nat (length b)) with true
    by (symmetry; apply N.leb_le; lia).
  rewrite N.leb_refl. cbn [andb].
  replace (N.of_nat (length a) + N.of_nat (length b) - N.of_nat (length a)) with (N.of_nat (length b)) by lia.
  rewrite !Nnat.Nat2N.id, skipn_len_app, firstn_all. reflexivity.
Qed.

Lemma slice_head_app {A} (a b : list A) : slice (a ++ b) 0 (len a) = Some a.
Proof.
  unfold slice, len. rewrite app_length, Nnat.Nat2N.inj_add.
  replace (0 <=? N.of_nat (length a)) with true by (symmetry; apply N.leb_le; lia).
  replace (N.of_nat (length a) <=? N.of_nat (length a) + N.of_nat (length b)) with true
    by (symmetry; apply N.leb_le; lia).
  cbn [andb]. rewrite N.sub_0_r, Nnat.Nat2N.id. cbn [N.to_nat skipn]. rewrite firstn_len_app. reflexivity.
Qed.

(* every spelling of the cut of `a ++ b` at the position `position` found becomes `Some (a, b)` / `Some b` / `Some a` *)
Ltac cut_found :=
  rewrite ?found_idx; rewrite ?split_at_len_app, ?slice_tail_app, ?slice_head_app.

(* the idiom as one step *)
Lemma position_split {A S R} (f : A -> S -> option (S * bool)) (l : list A) (s : S)
      (K : S -> list A -> list A -> option R) :
  (pos <- position_st f l s 0 ;;
   sp <- split_at l (opt_unwrap_or (snd pos) (len l)) ;;
   K (fst pos) (fst sp) (snd sp))
  = match scan f l s with Some (s', a, b) => K s' a b | None => None end.
Proof.
  rewrite position_scan. destruct (scan f l s) as [[[s' a] b]|] eqn:E; [|reflexivity].
  cbn [fst snd]. rewrite (scan_split _ _ _ _ _ _ E), split_found. reflexivity.
Qed.

(* ---- the small functions --------------------------------------------------------------- *)

Lemma gs_state_change__eq s b : gs_state_change_ s b = state_change_ s b.
Proof.
  unfold gs_state_change_, state_change_.
  destruct (aget state_changes (state_disc s)); try reflexivity.
  destruct (aget l b); reflexivity.
Qed.

Lemma gs_state_change_eq s b : gs_state_change s b = state_change s b.
Proof.
  unfold gs_state_change, state_change. rewrite !gs_state_change__eq.
  destruct (state_change_ Anywhere b) as [c0|]; try reflexivity.
  destruct (c0 =? 0).
  - destruct (state_change_ s b); try reflexivity. destruct (unpack n); reflexivity.
  - destruct (unpack c0); reflexivity.
Qed.

Lemma ws_eq b : Imp.is_ascii_whitespace b = Strip.is_ascii_whitespace b.
Proof.
  unfold Imp.is_ascii_whitespace, Strip.is_ascii_whitespace.
  destruct (b =? 32), (b =? 9), (b =? 10), (b =? 12), (b =? 13); reflexivity.
Qed.

Lemma g_is_utf8_continuation_eq b : g_is_utf8_continuation b = is_utf8_continuation b.
Proof. reflexivity. Qed.

Lemma g_is_printable_bytes_eq a b : g_is_printable_bytes a b = is_printable_bytes a b.
Proof.
  (* robust to the spelling of the test in Rust (an ==/|| chain, a `match action`, `matches!`):
     decide it per action *)
  unfold g_is_printable_bytes, is_printable_bytes. rewrite ?ws_eq.
  destruct a; vm_compute action_eqb; cbn [andb orb];
    rewrite ?orb_false_r, ?andb_true_r, ?andb_false_r; reflexivity.
Qed.

Lemma g_receiver_codepoint_eq r c : g_receiver_codepoint r c = true.
Proof. reflexivity. Qed.

Lemma g_receiver_invalid_sequence_eq r : g_receiver_invalid_sequence r = true.
Proof. reflexivity. Qed.

Lemma g_utf8_add_eq u b : g_utf8_add u b = utf8_add u b.
Proof.
  unfold g_utf8_add, utf8_add, u8p_inner, set_u8p_inner.
  destruct (u8_parser_advance u b) as [u' o]. destruct o; reflexivity.
Qed.

(* ---- one application of a scan closure: translated = hand model, by cases ---------------- *)

(* The pointwise side condition of `scan_ext`.  Nothing here follows the text of the closure: the translated
   small functions are replaced by the hand model's (`gs_norm`), then whatever the goal tests is decided, in
   whatever order and spelling it appears (`x != A && x != B`, `!matches!(x, A | B)`, `!(p || q)`, `!p && !q`,
   early `return`s, nested `if`s, a `match` on the state): the leftmost ATOM of a test is destructed, so the two
   sides only have to agree as boolean functions of the atoms.  A bind over an `if` whose branches are both
   `Some` (`state4 <- (if c then Some a else Some b) ;; k`) reduces once `c` is decided.  A leaf that is not
   closed by `reflexivity` may be one no input reaches (`ns == Anywhere` and `ns == Utf8` both true): the state
   variable is then enumerated and the recorded tests evaluated. *)
Ltac gs_norm :=
  rewrite ?gs_state_change_eq, ?g_is_printable_bytes_eq, ?g_is_utf8_continuation_eq, ?g_utf8_add_eq.

Ltac atom_of c :=
  lazymatch c with
  | negb ?x => atom_of x
  | andb ?x _ => atom_of x
  | orb ?x _ => atom_of x
  | xorb ?x _ => atom_of x
  | Bool.eqb ?x _ => atom_of x
  | (if ?x then _ else _) => atom_of x
  | _ => c
  end.

Ltac not_bool_const a := lazymatch a with true => fail | false => fail | _ => idtac end.

Ltac is_enum_type T := lazymatch T with state => idtac | action => idtac end.

Ltac step_split1 :=
  match goal with
  (* the tests the goal can already see first: they decide which call of `state_change` / `utf8_add` is made *)
  | |- context [if ?c then _ else _] =>
      let a := atom_of c in not_bool_const a; destruct a eqn:?
  | |- context [state_change ?s ?b] => destruct (state_change s b) as [[? ?]|]
  | |- context [utf8_add ?u ?b] => destruct (utf8_add u b) as [? [|]]
  | |- context [match ?x with _ => _ end] =>
      is_var x; let T := type of x in is_enum_type T; destruct x
  (* a test that is not (or no longer) under an `if`: the boolean a closure answers *)
  | |- context [negb ?c] => let a := atom_of c in not_bool_const a; destruct a eqn:?
  | |- context [andb ?c _] => let a := atom_of c in not_bool_const a; destruct a eqn:?
  | |- context [andb _ ?c] => let a := atom_of c in not_bool_const a; destruct a eqn:?
  | |- context [orb ?c _] => let a := atom_of c in not_bool_const a; destruct a eqn:?
  | |- context [orb _ ?c] => let a := atom_of c in not_bool_const a; destruct a eqn:?
  end.

(* the closure state as the translation has it: a unit, a tuple of the captured `&mut` variables *)
Ltac open_state :=
  repeat match goal with
         | u : unit |- _ => destruct u
         | p : (_ * _)%type |- _ => destruct p
         end.

Ltac state_tests_leaf :=
  repeat match goal with
         | H : state_eqb ?x _ = _ |- _ => is_var x; destruct x
         end;
  repeat match goal with
         | H : state_eqb _ _ = _ |- _ => vm_compute in H; try discriminate H; clear H
         end;
  reflexivity.

Ltac step_norm :=
  gs_norm; cbv beta iota zeta delta [Imp.is_ascii Strip.is_ascii]; cbn [negb andb orb fst snd].

Ltac step_cases :=
  open_state;
  repeat (step_norm; try reflexivity; step_split1);
  first [reflexivity | state_tests_leaf].

(* ---- next_str -------------------------------------------------------------------------- *)

(* the two closures of next_str, as the hand model reads them *)
Definition ns_skip_step (b : N) (st : state) : option (state * bool) :=
  '(ns, a) <- state_change st b ;;
  Some (if negb (state_eqb ns Anywhere) && negb (state_eqb ns Utf8) then ns else st, is_printable_bytes a b).

Definition ns_take_step (st : state) (b : N) (_ : unit) : option (unit * bool) :=
  '(_, a) <- state_change st b ;;
  Some (tt, negb (is_printable_bytes a b || is_utf8_continuation b)).

Lemma ns_skip_scan bs : forall st,
  ns_skip bs st = match scan ns_skip_step bs st with Some (s', _, b) => Some (b, s') | None => None end.
Proof.
  induction bs as [|b rest IH]; intros st; cbn [ns_skip scan]; [reflexivity|].
  unfold ns_skip_step at 1. destruct (state_change st b) as [[ns a]|]; [|reflexivity].
  destruct (is_printable_bytes a b); [reflexivity|].
  rewrite IH. destruct (scan ns_skip_step rest _) as [[[s' a'] b']|]; reflexivity.
Qed.

Lemma ns_take_scan st bs :
  ns_take bs st = match scan (ns_take_step st) bs tt with Some (_, a, b) => Some (a, b) | None => None end.
Proof.
  induction bs as [|b rest IH]; cbn [ns_take scan]; [reflexivity|].
  unfold ns_take_step at 1. destruct (state_change st b) as [[ns a]|]; [|reflexivity].
  destruct (negb (is_printable_bytes a b || is_utf8_continuation b)); [reflexivity|].
  rewrite IH. destruct (scan (ns_take_step st) rest tt) as [[[[] a'] b']|]; reflexivity.
Qed.

(* what a caller of the translated next_str sees of the hand model's answer: the model also
   tracks the offset of every piece in the original slice *)
Definition str_result (r : option (option piece * list N * N * state)) : option (list N * state * option (list N)) :=
  match r with Some (p, bs2, _, st) => Some (bs2, st, option_map p_bytes p) | None => None end.

(* `next_str` / `next_bytes`: two scans, each followed by a cut of the slice at the position found.  The script
   finds the scans in the goal; it does not depend on how the cut is spelled, on the names of the locals, on the
   order / spelling of the tests inside the closures or on where the final `None` / `Some(printable)` is built. *)
Ltac head_of t := lazymatch t with ?f _ => head_of f | _ => t end.

Ltac scan_stage l s0 mstep E :=
  rewrite position_scan;
  match goal with
  | |- context [scan ?f l s0] =>
      tryif constr_eq f mstep then fail
      else (let h := head_of mstep in rewrite (scan_ext f mstep) by (intros; unfold h; step_cases))
  end;
  match goal with
  | |- context [scan mstep l s0] => destruct (scan mstep l s0) as [[[? ?] ?]|] eqn:E; [|reflexivity]
  end;
  open_state; cbv beta iota zeta; cbn [fst snd];
  rewrite (scan_split _ _ _ _ _ _ E); cut_found; cbv beta iota zeta; cbn [fst snd].

Lemma g_next_str_eq bs off st : g_next_str bs st = str_result (next_str bs off st).
Proof.
  unfold g_next_str, next_str. rewrite ns_skip_scan.
  scan_stage bs st ns_skip_step E1.
  rewrite ns_take_scan.
  match goal with
  | E1 : scan ns_skip_step _ _ = Some (?st1, _, ?bs1) |- _ => scan_stage bs1 tt (ns_take_step st1) E2
  end.
  match goal with |- context [is_empty ?t] => destruct t; reflexivity end.
Qed.

(* ---- next_bytes ------------------------------------------------------------------------ *)

Definition nb_skip_step (b : N) (s : state * u8parser) : option (state * u8parser * bool) :=
  let '(st, u) := s in
  if state_eqb st Utf8 && negb (Strip.is_ascii b) then Some ((st, u), true)
  else
    let '(st0, u0) := if state_eqb st Utf8 then (Ground, u8_new) else (st, u) in
    '(ns, a) <- state_change st0 b ;;
    Some ((if state_eqb ns Anywhere then st0 else ns, u0), is_printable_bytes a b).

Definition nb_take_step (b : N) (s : state * u8parser) : option (state * u8parser * bool) :=
  let '(st, u) := s in
  if state_eqb st Utf8 && negb (Strip.is_ascii b) then
    let '(u1, done) := utf8_add u b in
    Some ((if done then Ground else st, u1), false)
  else
    let '(st0, u0) := if state_eqb st Utf8 then (Ground, u8_new) else (st, u) in
    '(ns, a) <- state_change st0 b ;;
    if negb (is_printable_bytes a b) then Some ((st0, u0), true)
    else if state_eqb ns Utf8 then
      let '(u1, _) := utf8_add u0 b in Some ((ns, u1), false)
    else Some ((st0, u0), false).

Lemma nb_skip_scan bs : forall st u,
  nb_skip bs st u =
  match scan nb_skip_step bs (st, u) with Some ((s', u'), _, b) => Some (b, s', u') | None => None end.
Proof.
  induction bs as [|b rest IH]; intros st u; cbn [nb_skip scan]; [reflexivity|].
  unfold nb_skip_step at 1.
  destruct (state_eqb st Utf8 && negb (Strip.is_ascii b)); [reflexivity|].
  destruct (if state_eqb st Utf8 then (Ground, u8_new) else (st, u)) as [st0 u0].
  destruct (state_change st0 b) as [[ns a]|]; [|reflexivity].
  destruct (is_printable_bytes a b); [reflexivity|].
  rewrite IH. destruct (scan nb_skip_step rest _) as [[[[s' u'] a'] b']|]; reflexivity.
Qed.

Lemma nb_take_scan bs : forall st u,
  nb_take bs st u =
  match scan nb_take_step bs (st, u) with Some ((s', u'), a, b) => Some (a, b, s', u') | None => None end.
Proof.
  induction bs as [|b rest IH]; intros st u; cbn [nb_take scan]; [reflexivity|].
  unfold nb_take_step at 1.
  destruct (state_eqb st Utf8 && negb (Strip.is_ascii b)).
  { destruct (utf8_add u b) as [u1 done]. rewrite IH.
    destruct (scan nb_take_step rest _) as [[[[s' u'] a'] b']|]; reflexivity. }
  destruct (if state_eqb st Utf8 then (Ground, u8_new) else (st, u)) as [st0 u0].
  destruct (state_change st0 b) as [[ns a]|]; [|reflexivity].
  destruct (negb (is_printable_bytes a b)); [reflexivity|].
  destruct (state_eqb ns Utf8).
  - destruct (utf8_add u0 b) as [u1 d]. rewrite IH.
    destruct (scan nb_take_step rest _) as [[[[s' u'] a'] b']|]; reflexivity.
  - rewrite IH. destruct (scan nb_take_step rest _) as [[[[s' u'] a'] b']|]; reflexivity.
Qed.

Definition bytes_result (r : option (option piece * list N * N * state * u8parser))
  : option (list N * state * u8parser * option (list N)) :=
  match r with Some (p, bs2, _, st, u) => Some (bs2, st, u, option_map p_bytes p) | None => None end.

Lemma g_next_bytes_eq bs off st u : g_next_bytes bs st u = bytes_result (next_bytes bs off st u).
Proof.
  unfold g_next_bytes, next_bytes. rewrite nb_skip_scan.
  scan_stage bs (st, u) nb_skip_step E1.
  rewrite nb_take_scan.
  match goal with
  | E1 : scan nb_skip_step _ _ = Some (?s1, _, ?bs1) |- _ => scan_stage bs1 s1 nb_take_step E2
  end.
  match goal with |- context [is_empty ?t] => destruct t; reflexivity end.
Qed.

(* ---- the iterators --------------------------------------------------------------------- *)

Definition str_next_result (r : option (option piece * list N * N * state)) : option (str_iter_st * option (list N)) :=
  match r with Some (p, bs2, _, st) => Some (mkStrIt bs2 st, option_map p_bytes p) | None => None end.

Definition bytes_next_result (r : option (option piece * list N * N * state * u8parser))
  : option (bytes_iter_st * option (list N)) :=
  match r with Some (p, bs2, _, st, u) => Some (mkBytesIt bs2 st u, option_map p_bytes p) | None => None end.

Lemma g_stripped_str_next_eq it off :
  g_stripped_str_next it = str_next_result (next_str (si_bytes it) off (si_state it)).
Proof.
  unfold g_stripped_str_next. rewrite (g_next_str_eq _ off).
  destruct (next_str (si_bytes it) off (si_state it)) as [[[[p bs2] o2] st2]|]; reflexivity.
Qed.

Lemma g_strip_str_iter_next_eq it off :
  g_strip_str_iter_next it = str_next_result (next_str (si_bytes it) off (si_state it)).
Proof.
  unfold g_strip_str_iter_next. rewrite (g_next_str_eq _ off).
  destruct (next_str (si_bytes it) off (si_state it)) as [[[[p bs2] o2] st2]|]; reflexivity.
Qed.

Lemma g_stripped_bytes_next_eq it off :
  g_stripped_bytes_next it = bytes_next_result (next_bytes (bi_bytes it) off (bi_state it) (bi_utf8 it)).
Proof.
  unfold g_stripped_bytes_next. rewrite (g_next_bytes_eq _ off).
  destruct (next_bytes (bi_bytes it) off (bi_state it) (bi_utf8 it)) as [[[[[p bs2] o2] st2] u2]|]; reflexivity.
Qed.

Lemma g_strip_bytes_iter_next_eq it off :
  g_strip_bytes_iter_next it = bytes_next_result (next_bytes (bi_bytes it) off (bi_state it) (bi_utf8 it)).
Proof.
  unfold g_strip_bytes_iter_next. rewrite (g_next_bytes_eq _ off).
  destruct (next_bytes (bi_bytes it) off (bi_state it) (bi_utf8 it)) as [[[[[p bs2] o2] st2] u2]|]; reflexivity.
Qed.

Lemma g_strip_str_eq bs : g_strip_str bs = mkStrIt bs Ground.
Proof. reflexivity. Qed.

Lemma g_strip_bytes_eq bs : g_strip_bytes bs = mkBytesIt bs Ground u8_new.
Proof. reflexivity. Qed.

(* draining an iterator (`for printable in it`), keeping the iterator it leaves behind;
   Model/Imp.v's iter_drain -- what the translated `for` loops use -- forgets it *)
Fixpoint drain_st {I A : Type} (next : I -> option (I * option A)) (fuel : nat) (it : I) : option (list A * I) :=
  match fuel with
  | O => None
  | S f =>
      match next it with
      | None => None
      | Some (it', None) => Some ([], it')
      | Some (it', Some x) =>
          match drain_st next f it' with
          | Some (xs, it'') => Some (x :: xs, it'')
          | None => None
          end
      end
  end.

Lemma iter_drain_st {I A} (next : I -> option (I * option A)) fuel : forall it,
  iter_drain next fuel it = option_map fst (drain_st next fuel it).
Proof.
  induction fuel as [|f IH]; intros it; cbn [iter_drain drain_st]; [reflexivity|].
  destruct (next it) as [[it' [x|]]|]; try reflexivity.
  rewrite IH. destruct (drain_st next f it') as [[xs it'']|]; reflexivity.
Qed.

Lemma drain_st_ext {I A} (n1 n2 : I -> option (I * option A)) :
  (forall it, n1 it = n2 it) -> forall fuel it, drain_st n1 fuel it = drain_st n2 fuel it.
Proof.
  intros H fuel. induction fuel as [|f IH]; intros it; cbn [drain_st]; [reflexivity|].
  rewrite H. destruct (n2 it) as [[it' [x|]]|]; try reflexivity. rewrite IH. reflexivity.
Qed.

Lemma str_drain_eq fuel : forall it off,
  drain_st g_stripped_str_next fuel it =
  match str_iter fuel (si_bytes it) off (si_state it) with
  | Some (ps, bs', st') => Some (map p_bytes ps, mkStrIt bs' st')
  | None => None
  end.
Proof.
  induction fuel as [|f IH]; intros it off; cbn [drain_st str_iter]; [reflexivity|].
  rewrite (g_stripped_str_next_eq it off).
  destruct (next_str (si_bytes it) off (si_state it)) as [[[[[pc|] bs2] o2] st2]|]; cbn [str_next_result option_map]; try reflexivity.
  rewrite (IH _ o2). cbn [si_bytes si_state].
  destruct (str_iter f bs2 o2 st2) as [[[ps bs3] st3]|]; reflexivity.
Qed.

Lemma bytes_drain_eq fuel : forall it off,
  drain_st g_stripped_bytes_next fuel it =
  match bytes_iter fuel (bi_bytes it) off (bi_state it) (bi_utf8 it) with
  | Some (ps, bs', st', u') => Some (map p_bytes ps, mkBytesIt bs' st' u')
  | None => None
  end.
Proof.
  induction fuel as [|f IH]; intros it off; cbn [drain_st bytes_iter]; [reflexivity|].
  rewrite (g_stripped_bytes_next_eq it off).
  destruct (next_bytes (bi_bytes it) off (bi_state it) (bi_utf8 it)) as [[[[[[pc|] bs2] o2] st2] u2]|];
    cbn [bytes_next_result option_map]; try reflexivity.
  rewrite (IH _ o2). cbn [bi_bytes bi_state bi_utf8].
  destruct (bytes_iter f bs2 o2 st2 u2) as [[[[ps bs3] st3] u3]|]; reflexivity.
Qed.

(* ---- the entry points ------------------------------------------------------------------ *)

Lemma for_append (l : list (list N)) : forall acc0,
  for_list0 (fun x acc1 => Some (BNext (acc1 ++ x))) l acc0 = Some (acc0 ++ concat l).
Proof.
  induction l as [|x t IH]; intros acc0; cbn [for_list0 concat].
  - rewrite app_nil_r. reflexivity.
  - rewrite IH, app_assoc. reflexivity.
Qed.

(* strip_bytes(data).into_vec(), all of it translated *)
Theorem g_strip_bytes_into_vec_is_model bs :
  g_stripped_bytes_into_vec (g_strip_bytes bs) = strip_bytes_model bs.
Proof.
  unfold g_stripped_bytes_into_vec, strip_bytes_model, strip_bytes_pieces, strip_next_bytes.
  rewrite g_strip_bytes_eq, iter_drain_st, (bytes_drain_eq _ _ 0). cbn [bi_bytes bi_state bi_utf8].
  destruct (bytes_iter (S (length bs)) bs 0 Ground u8_new) as [[[[ps bs'] st'] u']|]; cbn [option_map fst]; [|reflexivity].
  rewrite for_append. reflexivity.
Qed.

(* strip_str(data).to_string(): `fmt` / `to_string` are std::fmt plumbing (pinned); what they do
   with the translated iterator -- drain it and concatenate -- is written out here *)
Definition g_strip_str_to_string (bs : list N) : option (list N) :=
  ps <- iter_drain g_stripped_str_next (S (length bs)) (g_strip_str bs) ;; Some (concat ps).

Theorem g_strip_str_to_string_is_model bs : g_strip_str_to_string bs = strip_str_model bs.
Proof.
  unfold g_strip_str_to_string, strip_str_model, strip_str_pieces, strip_next_str.
  rewrite g_strip_str_eq, iter_drain_st, (str_drain_eq _ _ 0). cbn [si_bytes si_state].
  destruct (str_iter (S (length bs)) bs 0 Ground) as [[[ps bs'] st']|]; reflexivity.
Qed.

(* StripStr / StripBytes fed chunk by chunk: `strip_next` hands the iterator a
   borrow of the carried state, i.e. the state is copied in and what the drained iterator
   leaves is copied out (see gt_str_chunks / gt_bytes_chunks at the end of the file for the
   same drive over the TRANSLATED `new` / `strip_next`) *)
Fixpoint g_str_chunks (chunks : list (list N)) (st : state) : option (list (list (list N)) * state) :=
  match chunks with
  | [] => Some ([], st)
  | c :: rest =>
      '(ps, it') <- drain_st g_strip_str_iter_next (S (length c)) (mkStrIt c st) ;;
      '(pss, st'') <- g_str_chunks rest (si_state it') ;;
      Some (ps :: pss, st'')
  end.

Fixpoint g_bytes_chunks (chunks : list (list N)) (st : state) (u : u8parser)
  : option (list (list (list N)) * state * u8parser) :=
  match chunks with
  | [] => Some ([], st, u)
  | c :: rest =>
      '(ps, it') <- drain_st g_strip_bytes_iter_next (S (length c)) (mkBytesIt c st u) ;;
      '(pss, st'', u'') <- g_bytes_chunks rest (bi_state it') (bi_utf8 it') ;;
      Some (ps :: pss, st'', u'')
  end.

Theorem g_str_chunks_is_model chunks : forall st,
  g_str_chunks chunks st =
  match strip_str_chunks chunks st with
  | Some (pss, st') => Some (map (map p_bytes) pss, st')
  | None => None
  end.
Proof.
  induction chunks as [|c rest IH]; intros st; cbn [g_str_chunks strip_str_chunks]; [reflexivity|].
  rewrite (drain_st_ext g_strip_str_iter_next g_stripped_str_next).
  2:{ intros it. rewrite (g_strip_str_iter_next_eq it 0), (g_stripped_str_next_eq it 0). reflexivity. }
  unfold strip_next_str. rewrite (str_drain_eq _ _ 0). cbn [si_bytes si_state].
  destruct (str_iter (S (length c)) c 0 st) as [[[ps bs'] st']|]; [|reflexivity].
  cbn [si_state]. rewrite IH. destruct (strip_str_chunks rest st') as [[pss st'']|]; reflexivity.
Qed.

Theorem g_bytes_chunks_is_model chunks : forall st u,
  g_bytes_chunks chunks st u =
  match strip_bytes_chunks chunks st u with
  | Some (pss, st', u') => Some (map (map p_bytes) pss, st', u')
  | None => None
  end.
Proof.
  induction chunks as [|c rest IH]; intros st u; cbn [g_bytes_chunks strip_bytes_chunks]; [reflexivity|].
  rewrite (drain_st_ext g_strip_bytes_iter_next g_stripped_bytes_next).
  2:{ intros it. rewrite (g_strip_bytes_iter_next_eq it 0), (g_stripped_bytes_next_eq it 0). reflexivity. }
  unfold strip_next_bytes. rewrite (bytes_drain_eq _ _ 0). cbn [bi_bytes bi_state bi_utf8].
  destruct (bytes_iter (S (length c)) c 0 st u) as [[[[ps bs'] st'] u']|]; [|reflexivity].
  cbn [bi_state bi_utf8]. rewrite IH. destruct (strip_bytes_chunks rest st' u') as [[[pss st''] u'']|]; reflexivity.
Qed.

(* ---- hence the translated code refines the specification ------------------------------- *)

Theorem translated_strip_bytes_refines_spec input :
  bytes_ok input -> g_stripped_bytes_into_vec (g_strip_bytes input) = Some (spec_strip input).
Proof. intros H. rewrite g_strip_bytes_into_vec_is_model. apply strip_bytes_is_spec, H. Qed.

Theorem translated_strip_str_refines_spec input :
  bytes_ok input -> valid_utf8 input = true -> g_strip_str_to_string input = Some (spec_strip input).
Proof. intros H V. rewrite g_strip_str_to_string_is_model. apply strip_str_is_spec; assumption. Qed.

Lemma concat_pieces (pss : list (list piece)) :
  concat (map (@concat N) (map (map p_bytes) pss)) = concat (map (fun ps => concat (map p_bytes ps)) pss).
Proof. rewrite map_map. reflexivity. Qed.

Theorem translated_bytes_chunks_refine_spec chunks :
  bytes_ok (concat chunks) ->
  exists pss st u,
    g_bytes_chunks chunks Ground u8_new = Some (pss, st, u) /\
    concat (map (@concat N) pss) = spec_strip (concat chunks) /\
    Some (concat (map (@concat N) pss)) = g_stripped_bytes_into_vec (g_strip_bytes (concat chunks)).
Proof.
  intros H. destruct (strip_bytes_chunked chunks H) as (pss & st & u & E & Hs & Hm & _).
  exists (map (map p_bytes) pss), st, u. rewrite g_bytes_chunks_is_model, E, concat_pieces, g_strip_bytes_into_vec_is_model.
  repeat split; assumption.
Qed.

Theorem translated_str_chunks_refine_spec chunks :
  bytes_ok (concat chunks) -> Forall (fun c => valid_utf8 c = true) chunks ->
  exists pss st,
    g_str_chunks chunks Ground = Some (pss, st) /\
    concat (map (@concat N) pss) = spec_strip (concat chunks) /\
    Some (concat (map (@concat N) pss)) = g_strip_str_to_string (concat chunks).
Proof.
  intros H V. destruct (strip_str_chunked chunks H V) as (pss & st & E & Hs & Hm).
  exists (map (map p_bytes) pss), st. rewrite g_str_chunks_is_model, E, concat_pieces, g_strip_str_to_string_is_model.
  repeat split; assumption.
Qed.

(* ---- StripStr / StripBytes: `new` and `strip_next`, translated ------------------------------ *)

(* the initial states are the hand model's initial states *)
Lemma g_strip_str_new_eq : g_strip_str_new = Ground.
Proof. reflexivity. Qed.
Lemma g_strip_bytes_new_eq : g_strip_bytes_new = mkStripBytesSt Ground u8_new.
Proof. reflexivity. Qed.

(* strip_next: the iterator is over the bytes handed in and starts from the carried state (copy-in);
   the StripStr / StripBytes itself is not touched by the call *)
Lemma g_strip_str_strip_next_eq s c : g_strip_str_strip_next s c = (s, mkStrIt c s).
Proof. reflexivity. Qed.
Lemma g_strip_bytes_strip_next_eq s c :
  g_strip_bytes_strip_next s c = (s, mkBytesIt c (sbs_state s) (sbs_utf8 s)).
Proof. reflexivity. Qed.

(* StrippedBytes::is_empty / extend: `extend` swaps in the next slice and keeps the scanner state; with
   unprocessed bytes left the debug_assert! fires (None) *)
Lemma g_stripped_bytes_is_empty_eq it : g_stripped_bytes_is_empty it = match bi_bytes it with [] => true | _ => false end.
Proof. unfold g_stripped_bytes_is_empty, Imp.is_empty. destruct (bi_bytes it); reflexivity. Qed.
Lemma g_stripped_bytes_extend_eq it bs :
  g_stripped_bytes_extend it bs =
  match bi_bytes it with [] => Some (mkBytesIt bs (bi_state it) (bi_utf8 it)) | _ => None end.
Proof. unfold g_stripped_bytes_extend. rewrite g_stripped_bytes_is_empty_eq. destruct (bi_bytes it); reflexivity. Qed.

(* the chunked drive over the translated functions.  `strip_next` returns a struct that holds `&mut self.state`
   (/ `&mut self.utf8parser`): the fields of the iterator ARE the fields of the StripStr / StripBytes while it
   lives, so what the drained iterator leaves in them is the carried state afterwards (copy-out: the setters) *)
Fixpoint gt_str_chunks (chunks : list (list N)) (s : state) : option (list (list (list N)) * state) :=
  match chunks with
  | [] => Some ([], s)
  | c :: rest =>
      let '(s1, it) := g_strip_str_strip_next s c in
      '(ps, it') <- drain_st g_strip_str_iter_next (S (length c)) it ;;
      '(pss, s2) <- gt_str_chunks rest (set_sstr_state s1 (si_state it')) ;;
      Some (ps :: pss, s2)
  end.

Fixpoint gt_bytes_chunks (chunks : list (list N)) (s : strip_bytes_st) : option (list (list (list N)) * strip_bytes_st) :=
  match chunks with
  | [] => Some ([], s)
  | c :: rest =>
      let '(s1, it) := g_strip_bytes_strip_next s c in
      '(ps, it') <- drain_st g_strip_bytes_iter_next (S (length c)) it ;;
      '(pss, s2) <- gt_bytes_chunks rest (set_sbs_utf8 (set_sbs_state s1 (bi_state it')) (bi_utf8 it')) ;;
      Some (ps :: pss, s2)
  end.

Lemma gt_str_chunks_eq chunks : forall s, gt_str_chunks chunks s = g_str_chunks chunks s.
Proof.
  induction chunks as [|c rest IH]; intros s; cbn [gt_str_chunks g_str_chunks]; [reflexivity|].
  rewrite g_strip_str_strip_next_eq.
  destruct (drain_st g_strip_str_iter_next (S (length c)) (mkStrIt c s)) as [[ps it']|]; [|reflexivity].
  cbv beta iota. unfold set_sstr_state. rewrite IH. reflexivity.
Qed.

Lemma gt_bytes_chunks_eq chunks : forall s,
  gt_bytes_chunks chunks s =
  match g_bytes_chunks chunks (sbs_state s) (sbs_utf8 s) with
  | Some (pss, st, u) => Some (pss, mkStripBytesSt st u)
  | None => None
  end.
Proof.
  induction chunks as [|c rest IH]; intros s; cbn [gt_bytes_chunks g_bytes_chunks]; [destruct s; reflexivity|].
  rewrite g_strip_bytes_strip_next_eq.
  destruct (drain_st g_strip_bytes_iter_next (S (length c)) (mkBytesIt c (sbs_state s) (sbs_utf8 s))) as [[ps it']|]; [|reflexivity].
  cbv beta iota. rewrite IH. unfold set_sbs_utf8, set_sbs_state. cbn [sbs_state sbs_utf8].
  destruct (g_bytes_chunks rest (bi_state it') (bi_utf8 it')) as [[[pss st] u]|]; reflexivity.
Qed.

(* StripStr::new() / StripBytes::new() fed chunk by chunk through the translated strip_next: the specification's strip *)
Theorem translated_str_new_chunks_refine_spec chunks :
  bytes_ok (concat chunks) -> Forall (fun c => valid_utf8 c = true) chunks ->
  exists pss st,
    gt_str_chunks chunks g_strip_str_new = Some (pss, st) /\
    concat (map (@concat N) pss) = spec_strip (concat chunks).
Proof.
  intros H V. destruct (translated_str_chunks_refine_spec chunks H V) as (pss & st & E & Hs & _).
  exists pss, st. rewrite gt_str_chunks_eq, g_strip_str_new_eq. split; assumption.
Qed.

Theorem translated_bytes_new_chunks_refine_spec chunks :
  bytes_ok (concat chunks) ->
  exists pss s,
    gt_bytes_chunks chunks g_strip_bytes_new = Some (pss, s) /\
    concat (map (@concat N) pss) = spec_strip (concat chunks).
Proof.
  intros H. destruct (translated_bytes_chunks_refine_spec chunks H) as (pss & st & u & E & Hs & _).
  exists pss, (mkStripBytesSt st u). rewrite gt_bytes_chunks_eq, g_strip_bytes_new_eq. cbn [sbs_state sbs_utf8].
  rewrite E. split; [reflexivity|assumption].
Qed.
