(* Proofs/VtCancel.v -- CAN (18) and SUB (1A) abandon whatever is in progress from
   every state of the specification parser [Spec/Vt], after which the rest of the
   stream is parsed as by a fresh parser.  Spec only: nothing here refers to
   Model/ or Generated/ beyond the enumeration helpers of VtFacts. *)
From Coq Require Import NArith List Bool Lia.
From AV Require Import Spec.Utf8 Spec.Vt Model.Base Proofs.TableFacts Proofs.VtFacts.
Import ListNotations. Local Open Scope N_scope.

(* ---- vt_run, vt_step in projection form ---------------------------------- *)

Lemma vt_run_cons : forall s b bs,
  vt_run s (b :: bs) =
  (fst (vt_run (fst (vt_step s b)) bs),
   snd (vt_step s b) ++ snd (vt_run (fst (vt_step s b)) bs)).
Proof.
  intros s b bs. cbn [vt_run].
  destruct (vt_step s b) as [s1 e1]. cbn [fst snd].
  destruct (vt_run s1 bs) as [s2 e2]. reflexivity.
Qed.

Lemma vt_run_app : forall a s b,
  vt_run s (a ++ b) =
  (fst (vt_run (fst (vt_run s a)) b),
   snd (vt_run s a) ++ snd (vt_run (fst (vt_run s a)) b)).
Proof.
  induction a as [|x a IH]; intros s b.
  - cbn [app vt_run fst snd]. destruct (vt_run s b); reflexivity.
  - rewrite <- app_comm_cons. rewrite !vt_run_cons. rewrite IH. cbn [fst snd].
    rewrite app_assoc. reflexivity.
Qed.

Lemma vt_run_single : forall s b, vt_run s [b] = (fst (vt_step s b), snd (vt_step s b) ++ []).
Proof. intros. rewrite vt_run_cons. reflexivity. Qed.

Lemma vt_run_inv (P : vt -> Prop) :
  (forall s b, b < 256 -> P s -> P (fst (vt_step s b))) ->
  forall bs s, Forall (fun b => b < 256) bs -> P s -> P (fst (vt_run s bs)).
Proof.
  intros Hstep. induction bs as [|b bs IH]; intros s Hbs Hs.
  - exact Hs.
  - rewrite vt_run_cons. cbn [fst]. inversion Hbs; subst. apply IH; auto.
Qed.

Lemma vt_step_none : forall s b, uni s = None ->
  vt_step s b =
  match fst (vt_trans (vs s) b) with
  | None => do_action s (snd (vt_trans (vs s) b)) b
  | Some t =>
      (fst (enter (fst (do_action s (snd (vt_trans (vs s) b)) b)) t b),
       exit_events s b ++ snd (do_action s (snd (vt_trans (vs s) b)) b)
         ++ snd (enter (fst (do_action s (snd (vt_trans (vs s) b)) b)) t b))
  end.
Proof.
  intros s b Hu. unfold vt_step. rewrite Hu.
  destruct (vt_trans (vs s) b) as [tgt a]. cbn [fst snd].
  destruct tgt as [t|]; [|reflexivity].
  destruct (do_action s a b) as [s1 e1]. cbn [fst snd].
  destruct (enter s1 t b) as [s2 e2]. reflexivity.
Qed.

(* ---- live equivalence ---------------------------------------------------- *)

(* two spec states are indistinguishable by any continuation when they agree on the
   "live" part: the state, the UTF-8 sub-state, the bookkeeping only in the states
   that read it, the OSC payload only inside an OSC string *)
Definition live_eq (s s' : vt) : Prop :=
  vs s = vs s' /\ uni s = uni s' /\
  (reads (vs s) = true -> ints s = ints s' /\ ign s = ign s' /\ closed s = closed s' /\ cur s = cur s' /\ pend s = pend s') /\
  (vs s = VOsc -> osc s = osc s').

Lemma live_eq_refl : forall s, live_eq s s.
Proof. intros s. unfold live_eq. repeat split; reflexivity. Qed.

Lemma live_eq_set_uni : forall s s' u, live_eq s s' -> live_eq (set_uni s u) (set_uni s' u).
Proof.
  intros s s' u (Hv & Hu & Hb & Ho). unfold live_eq, set_uni.
  cbn [vs uni ints ign closed cur pend osc]. auto.
Qed.

Lemma exit_events_live : forall s s' b, live_eq s s' -> exit_events s b = exit_events s' b.
Proof.
  intros s s' b (Hv & Hu & Hb & Ho). unfold exit_events. rewrite <- Hv.
  destruct (vs s); try reflexivity. rewrite Ho; reflexivity.
Qed.

Lemma do_action_vs : forall s a b, vs (fst (do_action s a b)) = vs s.
Proof.
  intros s a b. destruct a; cbn [do_action fst]; try reflexivity.
  - unfold collect. destruct (Nat.eqb _ _); reflexivity.
  - unfold param. repeat match goal with |- context [if ?c then _ else _] => destruct c end; reflexivity.
  - destruct (final_params s); reflexivity.
  - destruct (utf8_lead b); reflexivity.
Qed.

Lemma do_action_uni : forall s a b, a <> TUtf8 -> uni (fst (do_action s a b)) = uni s.
Proof.
  intros s a b Ha. destruct a; cbn [do_action fst]; try reflexivity.
  - unfold collect. destruct (Nat.eqb _ _); reflexivity.
  - unfold param. repeat match goal with |- context [if ?c then _ else _] => destruct c end; reflexivity.
  - destruct (final_params s); reflexivity.
  - congruence.
Qed.

Lemma enter_vs : forall s t b, vs (fst (enter s t b)) = t.
Proof. intros s t b. destruct t; cbn [enter fst]; try reflexivity. destruct (final_params s); reflexivity. Qed.

Lemma enter_uni : forall s t b, uni (fst (enter s t b)) = uni s.
Proof. intros s t b. destruct t; cbn [enter fst]; try reflexivity. destruct (final_params s); reflexivity. Qed.

Lemma do_action_live : forall s s' a b, live_eq s s' ->
  (needs_book a = true -> reads (vs s) = true) ->
  (a = TOscPut -> vs s = VOsc) ->
  snd (do_action s a b) = snd (do_action s' a b) /\
  live_eq (fst (do_action s a b)) (fst (do_action s' a b)).
Proof.
  intros [v i g cl cu pe os un] [v' i' g' cl' cu' pe' os' un'].
  unfold live_eq. cbn [vs uni ints ign closed cur pend osc].
  intros a b (<- & <- & Hb & Ho) Hn Hosc.
  destruct a; cbn [do_action fst snd needs_book] in *;
    try (split; [reflexivity | repeat split; solve [auto | apply Hb; auto]]).
  - (* TCollect *)
    destruct (Hb (Hn eq_refl)) as (<- & <- & <- & <- & <-).
    unfold collect. cbn [vs uni ints ign closed cur pend osc].
    destruct (Nat.eqb _ _); cbn [fst snd vs uni ints ign closed cur pend osc];
      (split; [reflexivity | repeat split; auto]).
  - (* TParam *)
    destruct (Hb (Hn eq_refl)) as (<- & <- & <- & <- & <-).
    unfold param, count_values. cbn [vs uni ints ign closed cur pend osc].
    repeat match goal with |- context [if ?c then _ else _] => destruct c end;
      cbn [fst snd vs uni ints ign closed cur pend osc];
      (split; [reflexivity | repeat split; auto]).
  - (* TEscDispatch *)
    destruct (Hb (Hn eq_refl)) as (<- & <- & <- & <- & <-).
    split; [reflexivity | repeat split; auto].
  - (* TCsiDispatch *)
    destruct (Hb (Hn eq_refl)) as (<- & <- & <- & <- & <-).
    unfold final_params, count_values. cbn [vs uni ints ign closed cur pend osc].
    destruct (Nat.eqb _ _); cbn [fst snd vs uni ints ign closed cur pend osc];
      (split; [reflexivity | repeat split; auto]).
  - (* TOscPut *)
    unfold osc_put. cbn [fst snd vs uni ints ign closed cur pend osc].
    split; [reflexivity | repeat split; try solve [auto | apply Hb; auto]].
    intros E. rewrite (Ho E). reflexivity.
  - (* TUtf8 *)
    destruct (utf8_lead b); cbn [fst snd vs uni ints ign closed cur pend osc];
      (split; [reflexivity | repeat split; solve [auto | apply Hb; auto]]).
Qed.

Lemma enter_live : forall s s' t b, live_eq s s' ->
  ((reads t = true /\ clears t = false) \/ t = VDcsPass -> reads (vs s) = true) ->
  snd (enter s t b) = snd (enter s' t b) /\
  live_eq (fst (enter s t b)) (fst (enter s' t b)).
Proof.
  intros [v i g cl cu pe os un] [v' i' g' cl' cu' pe' os' un'].
  unfold live_eq. cbn [vs uni ints ign closed cur pend osc].
  intros t b (<- & <- & Hb & Ho) Ht.
  destruct t; cbn [enter set_vs clear osc_start fst snd reads clears vs uni ints ign closed cur pend osc] in *;
    try (split; [reflexivity | repeat split; solve [reflexivity | discriminate]]);
    try (destruct (Hb (Ht (or_introl (conj eq_refl eq_refl)))) as (<- & <- & <- & <- & <-);
         split; [reflexivity | repeat split; solve [reflexivity | discriminate]]).
  (* VDcsPass *)
  destruct (Hb (Ht (or_intror eq_refl))) as (<- & <- & <- & <- & <-).
  unfold final_params, count_values. cbn [vs uni ints ign closed cur pend osc].
  destruct (Nat.eqb _ _); cbn [fst snd set_vs vs uni ints ign closed cur pend osc];
    (split; [reflexivity | repeat split; solve [reflexivity | discriminate]]).
Qed.

Lemma live_eq_step : forall s s' b, b < 256 -> live_eq s s' ->
    snd (vt_step s b) = snd (vt_step s' b) /\ live_eq (fst (vt_step s b)) (fst (vt_step s' b)).
Proof.
  intros s s' b Hlt H.
  destruct (uni s) as [[u acc]|] eqn:Eu.
  - (* inside a multi-byte character: only [uni] is read *)
    assert (Eu' : uni s' = Some (u, acc)) by (destruct H as (_ & <- & _); exact Eu).
    unfold vt_step. rewrite Eu, Eu'.
    destruct (utf8_cont u b); cbn [fst snd]; (split; [reflexivity | now apply live_eq_set_uni]).
  - assert (Eu' : uni s' = None) by (destruct H as (_ & <- & _); exact Eu).
    assert (Ev : vs s' = vs s) by (destruct H as (-> & _); reflexivity).
    rewrite (vt_step_none s b Eu), (vt_step_none s' b Eu'). rewrite Ev.
    destruct (vt_trans_facts (vs s) b Hlt) as [F1 _ F3 _ _ F6].
    destruct (vt_trans (vs s) b) as [tgt a]. cbn [fst snd] in *.
    pose proof (do_action_live s s' a b H F1 F3) as [Da Dl].
    destruct tgt as [t|]; [|split; assumption].
    cbn [fst snd].
    assert (Ht : (reads t = true /\ clears t = false) \/ t = VDcsPass ->
                 reads (vs (fst (do_action s a b))) = true).
    { intros C. rewrite do_action_vs. exact (proj1 (F6 t eq_refl C)). }
    pose proof (enter_live _ _ t b Dl Ht) as [Ea El].
    split; [|exact El].
    rewrite (exit_events_live s s' b H), Da, Ea. reflexivity.
Qed.

Lemma live_eq_run : forall bs s s', Forall (fun b => b < 256) bs -> live_eq s s' ->
    snd (vt_run s bs) = snd (vt_run s' bs).
Proof.
  induction bs as [|b bs IH]; intros s s' Hbs H.
  - reflexivity.
  - inversion Hbs; subst. rewrite !vt_run_cons. cbn [snd].
    destruct (live_eq_step s s' b H2 H) as [E L].
    rewrite E. f_equal. apply IH; assumption.
Qed.

(* ---- reachable states: inside a multi-byte character the state is Ground -- *)

Definition uni_inv (s : vt) : Prop := uni s <> None -> vs s = VGround.

Lemma uni_inv_step : forall s b, b < 256 -> uni_inv s -> uni_inv (fst (vt_step s b)).
Proof.
  intros s b Hlt Hs. unfold uni_inv in *.
  destruct (uni s) as [[u acc]|] eqn:Eu.
  - unfold vt_step. rewrite Eu.
    assert (Hv : vs s = VGround) by (apply Hs; discriminate).
    destruct (utf8_cont u b); cbn [fst set_uni vs uni]; intros _; exact Hv.
  - rewrite (vt_step_none s b Eu).
    destruct (vt_trans_facts (vs s) b Hlt) as [_ _ _ _ F5 _].
    destruct (vt_trans (vs s) b) as [tgt a]. cbn [fst snd] in *.
    destruct tgt as [t|]; cbn [fst].
    + assert (Ha : a <> TUtf8).
      { intros ->. destruct (F5 eq_refl) as (_ & C & _). discriminate. }
      rewrite enter_uni, (do_action_uni s a b Ha), Eu. congruence.
    + rewrite do_action_vs. intros Hn.
      destruct a; try (rewrite do_action_uni in Hn by discriminate; congruence).
      exact (proj1 (F5 eq_refl)).
Qed.

Lemma uni_ground : forall bs, Forall (fun b => b < 256) bs ->
    uni (fst (vt_run vt_init bs)) <> None -> vs (fst (vt_run vt_init bs)) = VGround.
Proof.
  intros bs Hbs. apply (vt_run_inv uni_inv uni_inv_step bs vt_init Hbs).
  intros _. reflexivity.
Qed.

(* ---- CAN / SUB ------------------------------------------------------------ *)

Lemma cancel_cont_bad : forall u c, (c = 24 \/ c = 26) -> utf8_cont u c = UBad.
Proof. intros u c [-> | ->]; destruct u; reflexivity. Qed.

Lemma cancel_trans : forall v c, (c = 24 \/ c = 26) -> vt_trans v c = (Some VGround, TExecute).
Proof. intros v c [-> | ->]; reflexivity. Qed.

(* what the cancelling byte itself reports *)
Lemma cancel_events : forall s c, (c = 24 \/ c = 26) ->
    snd (vt_step s c) = match uni s with
                        | Some _ => [EPrint replacement]
                        | None => exit_events s c ++ [EExecute c]
                        end.
Proof.
  intros s c Hc. destruct (uni s) as [[u acc]|] eqn:Eu.
  - unfold vt_step. rewrite Eu, (cancel_cont_bad u c Hc). reflexivity.
  - rewrite (vt_step_none s c Eu), (cancel_trans (vs s) c Hc). reflexivity.
Qed.

Lemma cancel_step_ground : forall s c, (c = 24 \/ c = 26) -> uni_inv s ->
    vs (fst (vt_step s c)) = VGround /\ uni (fst (vt_step s c)) = None.
Proof.
  intros s c Hc Hs. destruct (uni s) as [[u acc]|] eqn:Eu.
  - unfold vt_step. rewrite Eu, (cancel_cont_bad u c Hc). cbn [fst set_uni vs uni].
    split; [|reflexivity]. apply Hs. rewrite Eu. discriminate.
  - rewrite (vt_step_none s c Eu), (cancel_trans (vs s) c Hc).
    cbn [fst snd do_action enter set_vs vs uni]. split; [reflexivity | exact Eu].
Qed.

Lemma cancel_lands_in_ground : forall bs c, (c = 24 \/ c = 26) -> Forall (fun b => b < 256) bs ->
    let s := fst (vt_run vt_init (bs ++ [c])) in vs s = VGround /\ uni s = None.
Proof.
  intros bs c Hc Hbs. cbv zeta.
  rewrite vt_run_app, vt_run_single. cbn [fst].
  apply cancel_step_ground; [exact Hc|].
  apply (vt_run_inv uni_inv uni_inv_step bs vt_init Hbs).
  intros _. reflexivity.
Qed.

Lemma ground_live_init : forall s, vs s = VGround -> uni s = None -> live_eq s vt_init.
Proof.
  intros s Hv Hu. unfold live_eq. rewrite Hv, Hu. cbn [vt_init vs uni reads].
  repeat split; discriminate.
Qed.

Theorem cancel_from_anywhere : forall prefix rest c, (c = 24 \/ c = 26) ->
    Forall (fun b => b < 256) prefix -> Forall (fun b => b < 256) rest ->
    snd (vt_run (fst (vt_run vt_init (prefix ++ [c]))) rest) = spec_events rest.
Proof.
  intros prefix rest c Hc Hp Hr. unfold spec_events.
  apply live_eq_run; [exact Hr|].
  destruct (cancel_lands_in_ground prefix c Hc Hp) as [Hv Hu].
  now apply ground_live_init.
Qed.

Corollary cancel_splits_stream : forall prefix rest c, (c = 24 \/ c = 26) ->
    Forall (fun b => b < 256) prefix -> Forall (fun b => b < 256) rest ->
    spec_events (prefix ++ [c] ++ rest) = spec_events (prefix ++ [c]) ++ spec_events rest.
Proof.
  intros prefix rest c Hc Hp Hr. rewrite app_assoc.
  unfold spec_events at 1. rewrite vt_run_app. cbn [snd].
  rewrite (cancel_from_anywhere prefix rest c Hc Hp Hr). reflexivity.
Qed.
