(* Proofs/FmtGen.v -- crates/anstream/src/fmt.rs TRANSLATED (Generated/FmtFn.v, tools/gen_fn_fmt.py: Adapter::new,
   Adapter::write_fmt, <Adapter as fmt::Write>::write_str) is the hand model fmt_adapter_write_fmt of Model/Stream.v:
   the closure is called once per fragment, in order, on the state its predecessor left; the first io::Error is saved in
   the error slot, stops the formatting and is what write_fmt answers; without an error the answer is Ok(()).
   (core::fmt::write itself is vocabulary: Model/Stream.v core_fmt_write.) *)
From Coq Require Import NArith List Bool.
From AV Require Import Generated.Table Spec.Io Model.Base Model.Imp Model.Utf8parse Model.Parser Model.Strip Model.Stream
  Generated.FmtFn.
Import ListNotations.
Local Open Scope N_scope.

Section Fmt.
Variable S : Type.
Variable f : list N -> S -> option (S * (unit + ekind)).

Lemma g_adapter_new_eq c : g_adapter_new S c = mkFA S c (inl tt).
Proof. reflexivity. Qed.

(* one write_str: the closure runs on the captured state; Ok keeps the slot, Err(e) stores e and answers fmt::Error *)
Lemma g_adapter_write_str_eq st err fr :
  g_adapter_write_str S (mkFA S (f, st) err) fr =
  match f fr st with
  | Some (st1, inl _) => Some (mkFA S (f, st1) err, inl tt)
  | Some (st1, inr e) => Some (mkFA S (f, st1) (inr e), inr tt)
  | None => None
  end.
Proof.
  unfold g_adapter_write_str, fclosure_call. cbn [fa_writer fst snd].
  destruct (f fr st) as [[st1 [[]|e]]|]; reflexivity.
Qed.

(* core::fmt::write over the translated write_str, from an adapter whose slot is still Ok *)
Lemma core_fmt_write_adapter frags : forall st,
  core_fmt_write (g_adapter_write_str S) (mkFA S (f, st) (inl tt)) frags =
  match fmt_adapter_write_fmt f st frags with
  | Some (st1, inl _) => Some (mkFA S (f, st1) (inl tt), inl tt)
  | Some (st1, inr e) => Some (mkFA S (f, st1) (inr e), inr tt)
  | None => None
  end.
Proof.
  induction frags as [|fr rest IH]; intros st; cbn [core_fmt_write fmt_adapter_write_fmt]; [reflexivity|].
  rewrite g_adapter_write_str_eq.
  destruct (f fr st) as [[st1 [[]|e]]|]; [apply IH|reflexivity|reflexivity].
Qed.

(* Adapter::new(closure).write_fmt(args): the hand model's answer, and the closure's captured variables are left as the
   hand model leaves them (they are `&mut` borrows of the caller's variables: the value translation returns the adapter) *)
Theorem g_adapter_write_fmt_eq st frags :
  match g_adapter_write_fmt S (g_adapter_new S (f, st)) frags with
  | Some (ad, r) => Some (snd (fa_writer S ad), r)
  | None => None
  end = fmt_adapter_write_fmt f st frags.
Proof.
  unfold g_adapter_write_fmt. rewrite g_adapter_new_eq, core_fmt_write_adapter.
  destruct (fmt_adapter_write_fmt f st frags) as [[st1 [[]|e]]|]; reflexivity.
Qed.

(* the same as a rewriting rule for the callers (Generated/StreamFn.v, Generated/WinconStreamFn.v): whatever is done with
   the captured state and the answer afterwards *)
Lemma adapter_run {R : Type} (K : S -> unit + ekind -> option R) st frags :
  match g_adapter_write_fmt S (g_adapter_new S (f, st)) frags with
  | Some (ad, r) => K (snd (fa_writer S ad)) r
  | None => None
  end = match fmt_adapter_write_fmt f st frags with Some (st1, r) => K st1 r | None => None end.
Proof.
  rewrite <- g_adapter_write_fmt_eq.
  destruct (g_adapter_write_fmt S (g_adapter_new S (f, st)) frags) as [[ad r]|]; reflexivity.
Qed.

End Fmt.
