(* Proofs/LsParse.v -- C12: the textual layer (numbers, split / join) and the
   property theorems about the model of anstyle_ls::parse. *)
From Coq Require Import NArith List Bool Lia.
From AV Require Import Generated.Ls Spec.StyleRec Spec.SgrCodes Model.Base Model.Text Model.Ls Proofs.Text Proofs.Ls.
Import ListNotations.
Local Open Scope N_scope.

(* ---- numbers: the std parser against "one or more digits, value <= 255" ---------- *)

Definition value_from (acc : N) (ds : list N) : N := fold_left (fun v c => 10 * v + (c - 48)) ds acc.

Lemma value_from_mono : forall ds acc, acc <= value_from acc ds.
Proof.
  unfold value_from. induction ds as [|c ds IH]; intros acc; cbn [fold_left]; [lia|].
  specialize (IH (10 * acc + (c - 48))). lia.
Qed.

Lemma to_digit_10 : forall c, to_digit 10 c = if is_digit c then Some (c - 48) else None.
Proof.
  intros c. unfold to_digit, is_digit, between.
  repeat match goal with
         | |- context [?a <=? ?b] => destruct (N.leb_spec a b); cbn [andb orb]
         end;
  repeat match goal with
         | |- context [?a <? ?b] => destruct (N.ltb_spec a b)
         end; try reflexivity; try lia.
Qed.

Lemma digits_u8_spec : forall ds acc, acc <= 255 ->
  digits_u8 10 ds acc =
  if forallb is_digit ds then (if value_from acc ds <=? 255 then Some (value_from acc ds) else None) else None.
Proof.
  induction ds as [|c ds IH]; intros acc Hacc.
  - cbn. apply N.leb_le in Hacc. now rewrite Hacc.
  - cbn [digits_u8 forallb]. rewrite to_digit_10. destruct (is_digit c); cbn [andb]; [|reflexivity].
    replace (acc * 10 + (c - 48)) with (10 * acc + (c - 48)) by lia.
    change (value_from acc (c :: ds)) with (value_from (10 * acc + (c - 48)) ds).
    destruct (10 * acc + (c - 48) <=? 255) eqn:E.
    + apply IH. now apply N.leb_le.
    + apply N.leb_gt in E. pose proof (value_from_mono ds (10 * acc + (c - 48))) as M.
      destruct (forallb is_digit ds); [|reflexivity].
      destruct (N.leb_spec (value_from (10 * acc + (c - 48)) ds) 255); [lia | reflexivity].
Qed.

Lemma digits_u8_strict : forall f, f <> [] -> digits_u8 10 f 0 = strict_u8 f.
Proof.
  intros f Hf. rewrite digits_u8_spec by lia. unfold strict_u8, dec_value, value_from.
  destruct f; [contradiction | reflexivity].
Qed.

(* outside the open class ('+' followed by a number) the std parser accepts exactly
   the numbers in 0-255 *)
Lemma parse_u8_closed : forall f, open_field f = false -> parse_u8 f = strict_u8 f.
Proof.
  intros [|c rest] Hopen; [reflexivity|].
  unfold parse_u8.
  destruct (N.eq_dec c 43) as [->|N43].
  - (* leading '+' *)
    cbn [open_field] in Hopen. rewrite N.eqb_refl in Hopen. cbn [andb] in Hopen.
    assert (S : strict_u8 (43 :: rest) = None) by (unfold strict_u8; cbn [forallb]; reflexivity).
    rewrite S. unfold u8_from_str_radix. destruct rest as [|d rest]; [reflexivity|].
    rewrite N.eqb_refl. rewrite digits_u8_strict by discriminate.
    destruct (strict_u8 (d :: rest)); [discriminate Hopen | reflexivity].
  - destruct (N.eq_dec c 45) as [->|N45].
    + (* '-' is not a sign of an unsigned type *)
      assert (S : strict_u8 (45 :: rest) = None) by (unfold strict_u8; cbn [forallb]; reflexivity).
      rewrite S. unfold u8_from_str_radix. destruct rest as [|d rest]; [reflexivity|].
      cbn [N.eqb Pos.eqb]. cbn [digits_u8]. rewrite to_digit_10. reflexivity.
    + rewrite from_str_no_sign by assumption. apply digits_u8_strict. discriminate.
Qed.

Lemma strict_not_open : forall f v, strict_u8 f = Some v -> open_field f = false.
Proof.
  intros [|c rest] v H; [reflexivity|]. cbn [open_field].
  destruct (c =? 43) eqn:E; [|reflexivity]. apply N.eqb_eq in E. subst c.
  unfold strict_u8 in H. cbn [forallb] in H. discriminate H.
Qed.

Lemma strict_bound : forall f v, strict_u8 f = Some v -> v <= 255.
Proof.
  intros f v H. unfold strict_u8 in H. destruct f; [discriminate|].
  destruct (forallb is_digit (n :: f)); [|discriminate].
  destruct (dec_value (n :: f) <=? 255) eqn:E; [|discriminate]. injection H as <-. now apply N.leb_le.
Qed.

(* decimal printing, with any number of leading zeros, reads back *)
Lemma dec_facts_b :
  forallb (fun c => match dec c with
                    | d :: _ => is_digit d
                    | [] => false
                    end && forallb is_digit (dec c)
                    && match strict_u8 (dec c) with Some v => v =? c | None => false end) all_bytes = true.
Proof. vm_cast_no_check (eq_refl true). Qed.

Lemma dec_facts : forall c, c <= 255 ->
  (exists d ds, dec c = d :: ds /\ is_digit d = true) /\ forallb is_digit (dec c) = true /\ strict_u8 (dec c) = Some c.
Proof.
  intros c Hc. assert (Hc' : c < 256) by lia.
  pose proof (forall_bytes' _ dec_facts_b c Hc') as H. cbv beta in H.
  apply andb_true_iff in H as [H H3]. apply andb_true_iff in H as [H1 H2].
  split; [|split].
  - destruct (dec c) as [|d ds]; [discriminate|]. now exists d, ds.
  - exact H2.
  - destruct (strict_u8 (dec c)); [|discriminate]. apply N.eqb_eq in H3. now subst.
Qed.

Lemma is_digit_range : forall c, is_digit c = true -> 48 <= c <= 57.
Proof. intros c H. unfold is_digit, between in H. apply andb_true_iff in H as [A B]. apply N.leb_le in A, B. lia. Qed.

Lemma print_field_digits : forall z c, c <= 255 -> forallb is_digit (print_field (z, c)) = true.
Proof.
  intros z c Hc. unfold print_field. cbn [fst snd]. rewrite forallb_app.
  destruct (dec_facts c Hc) as (_ & H & _). rewrite H, andb_true_r.
  induction z; [reflexivity|]. cbn [repeat forallb]. now rewrite IHz.
Qed.

Lemma parse_u8_field : forall z c, c <= 255 -> parse_u8 (print_field (z, c)) = Some c.
Proof.
  intros z c Hc. destruct (dec_facts c Hc) as ((d & ds & Hd & Hdig) & Hall & Hs).
  unfold print_field, parse_u8. cbn [fst snd].
  assert (Hdec : digits_u8 10 (dec c) 0 = Some c).
  { rewrite digits_u8_strict; [exact Hs | rewrite Hd; discriminate]. }
  destruct z as [|z].
  - cbn [repeat app]. rewrite Hd in *. apply is_digit_range in Hdig.
    rewrite from_str_no_sign by lia. exact Hdec.
  - cbn [repeat app]. rewrite from_str_no_sign by (unfold ZERO; lia).
    change (ZERO :: repeat ZERO z ++ dec c) with (repeat 48 (S z) ++ dec c).
    rewrite digits_u8_zeros. exact Hdec.
Qed.

(* ---- split / join ------------------------------------------------------------------ *)

Lemma split_on_join : forall sep fs, fs <> [] ->
  (forall f, In f fs -> ~ In sep f) -> split_on sep (join sep fs) = fs.
Proof.
  intros sep. unfold split_on. induction fs as [|f fs IH]; intros Hne H; [contradiction|].
  assert (Hf : forall c, In c f -> (sep =? c) = false).
  { intros c Hc. apply N.eqb_neq. intros ->. exact (H f (or_introl eq_refl) Hc). }
  destruct fs as [|g fs].
  - cbn [join]. now apply split_pred_clean.
  - change (join sep (f :: g :: fs)) with (f ++ sep :: join sep (g :: fs)).
    rewrite split_pred_app_sep; [|exact Hf|apply N.eqb_refl].
    f_equal. apply IH; [discriminate|]. intros f' Hf'. apply H. now right.
Qed.

Lemma bytes_list_eqb : forall a b, bytes_eqb a b = list_eqb a b.
Proof. induction a as [|x a IH]; intros [|y b]; cbn; try reflexivity. Qed.

Lemma none_strings_agree : forall s, existsb (list_eqb s) ls_none_strings = no_style_string s.
Proof.
  intros s. unfold no_style_string. rewrite !bytes_list_eqb.
  unfold ls_none_strings. cbn [existsb]. rewrite orb_false_r, orb_assoc. reflexivity.
Qed.

Lemma fields_acc_split : forall s cur,
  fields_acc cur s = match split_pred (N.eqb SEMI) s with f :: fs => (rev cur ++ f) :: fs | [] => [] end.
Proof.
  induction s as [|c s IH]; intros cur.
  - cbn. now rewrite app_nil_r.
  - cbn [fields_acc split_pred]. rewrite (N.eqb_sym c SEMI). destruct (SEMI =? c).
    + rewrite IH. cbn [rev app]. rewrite app_nil_r.
      pose proof (split_pred_nonempty (N.eqb SEMI) s). destruct (split_pred (N.eqb SEMI) s); [contradiction | reflexivity].
    + rewrite IH. pose proof (split_pred_nonempty (N.eqb SEMI) s).
      destruct (split_pred (N.eqb SEMI) s); [contradiction|]. cbn [rev]. now rewrite <- app_assoc.
Qed.

Lemma fields_split : forall s, fields s = split_on ls_separator s.
Proof.
  intros s. unfold fields. rewrite fields_acc_split. unfold split_on. change ls_separator with SEMI.
  destruct (split_pred (N.eqb SEMI) s); reflexivity.
Qed.

Lemma all_some_collect {A} : forall l : list (option A), all_some l = collect_option l.
Proof. reflexivity. Qed.

(* ---- the theorems -------------------------------------------------------------------- *)

Theorem ls_is_fold : forall fields : list (nat * N),
  fields <> [] ->
  Forall (fun zc => snd zc <= 255) fields ->
  well_formed (map snd fields) = true ->
  ls_parse (print_codes fields) =
  if no_style_string (print_codes fields) then Some None
  else Some (Some (sgr_codes t_default (map snd fields))).
Proof.
  intros fs Hne Hb Hwf. unfold ls_parse. rewrite none_strings_agree.
  destruct (no_style_string (print_codes fs)); [reflexivity|].
  unfold print_codes. change ls_separator with SEMI.
  rewrite split_on_join.
  - rewrite map_map.
    rewrite (collect_option_map_some (fun x => parse_u8 (print_field x)) snd).
    + rewrite loop_is_fold; [reflexivity | | exact Hwf].
      rewrite Forall_forall in *. intros c Hc. apply in_map_iff in Hc as (zc & <- & Hin). now apply Hb.
    + intros [z c] Hin. rewrite Forall_forall in Hb. specialize (Hb _ Hin). cbn [snd] in *. now apply parse_u8_field.
  - destruct fs; [contradiction | discriminate].
  - intros f Hf Hsemi. apply in_map_iff in Hf as ([z c] & <- & Hin).
    rewrite Forall_forall in Hb. specialize (Hb _ Hin). cbn [snd] in Hb.
    pose proof (print_field_digits z c Hb) as D. rewrite forallb_forall in D.
    specialize (D _ Hsemi). apply is_digit_range in D. unfold SEMI in D. lia.
Qed.

Theorem ls_none :
  ls_parse [] = Some None /\ ls_parse [48] = Some None /\ ls_parse [48; 48] = Some None.
Proof. repeat split; vm_compute; reflexivity. Qed.

(* a field that is not a number in 0-255 (and is not in the open class '+number')
   anywhere in the list: the whole string is rejected *)
Theorem ls_rejects : forall (fs : list (list N)) (f : list N),
  In f fs -> (forall g, In g fs -> ~ In SEMI g) ->
  strict_u8 f = None -> open_field f = false ->
  ls_parse (join SEMI fs) = Some None.
Proof.
  intros fs f Hin Hsemi Hbad Hopen. unfold ls_parse.
  destruct (existsb (list_eqb (join SEMI fs)) ls_none_strings); [reflexivity|].
  change ls_separator with SEMI. rewrite split_on_join; [| destruct fs; [destruct Hin | discriminate] | exact Hsemi].
  rewrite (collect_option_map_none parse_u8 fs f Hin); [reflexivity|].
  rewrite parse_u8_closed by exact Hopen. exact Hbad.
Qed.

(* what "not a number in 0-255" means, character by character *)
Lemma strict_u8_none_iff : forall f,
  strict_u8 f = None <->
  (f = [] \/ (exists c, In c f /\ is_digit c = false) \/ (forallb is_digit f = true /\ 255 < dec_value f)).
Proof.
  intros f. unfold strict_u8. destruct f as [|c f]; [split; [now left | reflexivity]|].
  destruct (forallb is_digit (c :: f)) eqn:E.
  - destruct (N.leb_spec (dec_value (c :: f)) 255).
    + split; [discriminate|]. intros [H0 | [(d & Hd & Hnd) | [_ H2]]]; [discriminate H0 | | lia].
      rewrite forallb_forall in E. rewrite (E d Hd) in Hnd. discriminate.
    + split; [|reflexivity]. intros _. right. right. now split.
  - split; [|reflexivity]. intros _. right. left.
    assert (X : existsb (fun x => negb (is_digit x)) (c :: f) = true).
    { destruct (existsb (fun x => negb (is_digit x)) (c :: f)) eqn:X; [reflexivity|].
      assert (forallb is_digit (c :: f) = true); [|congruence].
      apply forallb_forall. intros x Hx. destruct (is_digit x) eqn:Dx; [reflexivity|].
      assert (existsb (fun x => negb (is_digit x)) (c :: f) = true); [|congruence].
      apply existsb_exists. exists x. now rewrite Dx. }
    apply existsb_exists in X as (d & Hd & Hnd). exists d. split; [exact Hd|]. now apply negb_true_iff in Hnd.
Qed.

Theorem ls_rejects_explicit : forall (fs : list (list N)) (f : list N),
  In f fs -> (forall g, In g fs -> ~ In SEMI g) ->
  (f = [] \/ (exists c, In c f /\ is_digit c = false) \/ (forallb is_digit f = true /\ 255 < dec_value f)) ->
  open_field f = false ->
  ls_parse (join SEMI fs) = Some None.
Proof. intros fs f Hin Hs Hbad Ho. apply (ls_rejects fs f Hin Hs); [now apply strict_u8_none_iff | exact Ho]. Qed.

Theorem ls_no_panic : forall s, ls_parse s <> None.
Proof.
  intros s. unfold ls_parse. destruct (existsb (list_eqb s) ls_none_strings); [discriminate|].
  destruct (collect_option (map parse_u8 (split_on ls_separator s))); discriminate.
Qed.

(* the whole function at once: wherever the statement decides (spec_ls is not
   LsOpen), the model gives exactly that answer -- for every input string *)
Definition answer_of (a : ls_answer) : option tstyle :=
  match a with LsStyle st => Some st | _ => None end.

Theorem ls_model_is_spec : forall s, spec_ls s <> LsOpen -> ls_parse s = Some (answer_of (spec_ls s)).
Proof.
  intros s Hdec. unfold spec_ls in *. unfold ls_parse. rewrite none_strings_agree.
  destruct (no_style_string s); [reflexivity|].
  rewrite !fields_split in *. change (@all_some N) with (@collect_option N) in *.
  set (fs := split_on ls_separator s) in *.
  destruct (collect_option (map strict_u8 fs)) as [codes|] eqn:E.
  - assert (Hp : map parse_u8 fs = map strict_u8 fs).
    { apply map_ext_in. intros f Hf. apply parse_u8_closed.
      apply collect_option_some_all in E.
      assert (In (strict_u8 f) (map Some codes)) as Hs by (rewrite <- E; now apply in_map).
      apply in_map_iff in Hs as (v & Hv & _). symmetry in Hv. now apply (strict_not_open f v). }
    rewrite Hp, E.
    destruct (well_formed codes) eqn:W; [|contradiction].
    cbn [answer_of]. rewrite loop_is_fold; [reflexivity | | exact W].
    apply collect_option_some_all in E. rewrite Forall_forall. intros c Hc.
    assert (In (Some c) (map strict_u8 fs)) as Hs by (rewrite E; now apply in_map).
    apply in_map_iff in Hs as (f & Hf & _). now apply (strict_bound f c).
  - destruct (existsb _ fs) eqn:X; [|contradiction].
    apply existsb_exists in X as (f & Hf & Hb). apply andb_true_iff in Hb as [Ho Hn].
    apply negb_true_iff in Ho.
    rewrite (collect_option_map_none parse_u8 fs f Hf); [reflexivity|].
    rewrite parse_u8_closed by exact Ho. destruct (strict_u8 f); [discriminate | reflexivity].
Qed.
