(* Proofs/ParseCfg.v -- C20: the four build configurations of anstyle-parse,
   as instances of the configuration-parameterised parser model (Model/Parser.v,
   unchanged).  The configuration is read in exactly two places of the model:
   Action::OscPut (the `is_full` early return) and CharAccumulator::add. *)
From Coq Require Import NArith Arith List Bool Lia.
From AV Require Import Generated.Table Generated.ParseCfg Spec.Vt Spec.ParseCfg
  Model.Base Model.Utf8parse Model.Parser Model.ParseCfg Proofs.TableFacts.
Import ListNotations.
Local Open Scope N_scope.

(* ---- translator ties ----------------------------------------------------- *)

Lemma pc_max_osc_raw_is_table_const : pc_max_osc_raw = MAX_OSC_RAW.
Proof. reflexivity. Qed.

Lemma pc_spec_limit_is_max_osc_raw : pc_spec_limit = pc_max_osc_raw.
Proof. reflexivity. Qed.

Lemma pc_cfgs_are :
  pc_cfgs = [mkCfg None true; mkCfg (Some pc_max_osc_raw) false;
             mkCfg (Some pc_max_osc_raw) true; mkCfg None false].
Proof. reflexivity. Qed.

Lemma pc_default_label : pc_cfg_of_label [100; 101; 102; 97; 117; 108; 116] = Some cfg_default.
Proof. reflexivity. Qed.

(* ---- vocabulary ---------------------------------------------------------- *)

Definition pc_seven_bit (bs : list N) : Prop := Forall (fun b => b < 128) bs.

(* running the DEFAULT configuration over [bs], no byte is handed to OscPut while
   osc_raw already holds [cap] bytes: every OSC payload fits a [cap]-byte buffer
   (equivalently: no OSC string has a payload byte, ';' included, after its
   [cap]-th byte other than ';') *)
Definition pc_osc_fit (cap : N) (bs : list N) : Prop := pc_fitb cap true parser_new bs = true.

Definition pc_cfg_fits (c : cfg) (bs : list N) : Prop :=
  forall cap, osc_cap c = Some cap -> pc_osc_fit cap bs.

(* ---- the state table: finite facts by enumeration ----------------------- *)

Lemma pc_state_eqb_eq a b : state_eqb a b = true -> a = b.
Proof. destruct a, b; cbn; intros H; try reflexivity; discriminate H. Qed.

Lemma pc_action_eqb_eq a b : action_eqb a b = true -> a = b.
Proof. destruct a, b; cbn; intros H; try reflexivity; discriminate H. Qed.

Lemma pc_state_eqb_refl a : state_eqb a a = true.
Proof. destruct a; reflexivity. Qed.

Lemma pc_row0 : exists row, aget state_changes (state_disc Anywhere) = Some row /\ length row = 256%nat.
Proof. eexists. split; vm_compute; reflexivity. Qed.

Lemma pc_sc_lt s b x : state_change s b = Some x -> b < 256.
Proof.
  unfold state_change, state_change_. destruct pc_row0 as [row [E L]]. rewrite E.
  destruct (aget row b) eqn:G; [|discriminate]. intros _.
  unfold aget in G. assert (H : (N.to_nat b < length row)%nat) by (apply nth_error_Some; congruence).
  rewrite L in H. lia.
Qed.

(* OscPut is selected only in OscString and never together with a state change;
   the entry / exit actions never label a table entry *)
Definition pc_tf_osc (s : state) (b : N) : bool :=
  match state_change s b with
  | Some (s', a) =>
      match a with
      | AOscPut => state_eqb s OscString && state_eqb s' Anywhere
      | AOscEnd | AOscStart | AClear | AHook | AUnhook => false
      | _ => true
      end
  | None => false
  end.

Lemma pc_tf_osc_all : forallb (fun s => forallb (pc_tf_osc s) all_bytes) all_states = true.
Proof. vm_compute. reflexivity. Qed.

Lemma pc_table_osc s b s' a :
  state_change s b = Some (s', a) ->
  match a with
  | AOscPut => s = OscString /\ s' = Anywhere
  | AOscEnd | AOscStart | AClear | AHook | AUnhook => False
  | _ => True
  end.
Proof.
  intros E. pose proof (forall_states_bytes _ pc_tf_osc_all s b (pc_sc_lt _ _ _ E)) as H.
  unfold pc_tf_osc in H. rewrite E in H. destruct a; try exact I; try discriminate H.
  apply andb_prop in H. destruct H as [H1 H2]. split; now apply pc_state_eqb_eq.
Qed.

(* a 7-bit byte never begins a UTF-8 character and never leads to the Utf8 state *)
Definition pc_tf_seven (s : state) (b : N) : bool :=
  if b <? 128 then
    match state_change s b with
    | Some (s', a) => negb (action_eqb a ABeginUtf8) && negb (state_eqb s' Utf8)
    | None => false
    end
  else true.

Lemma pc_tf_seven_all : forallb (fun s => forallb (pc_tf_seven s) all_bytes) all_states = true.
Proof. vm_compute. reflexivity. Qed.

Lemma pc_table_seven s b s' a :
  b < 128 -> state_change s b = Some (s', a) -> a <> ABeginUtf8 /\ s' <> Utf8.
Proof.
  intros Hb E. assert (Hb' : b < 256) by lia.
  pose proof (forall_states_bytes _ pc_tf_seven_all s b Hb') as H.
  unfold pc_tf_seven in H. apply N.ltb_lt in Hb. rewrite Hb, E in H.
  apply andb_prop in H. destruct H as [H1 H2].
  split; intros ->; [destruct s'| destruct a]; cbn in *; discriminate.
Qed.

(* BeginUtf8: only in Ground, only for C2..F4, always towards Utf8; Utf8 is
   entered in no other way *)
Definition pc_tf_begin (s : state) (b : N) : bool :=
  match state_change s b with
  | Some (s', a) =>
      if action_eqb a ABeginUtf8
      then state_eqb s Ground && state_eqb s' Utf8 && (194 <=? b) && (b <=? 244)
      else negb (state_eqb s' Utf8)
  | None => false
  end.

Lemma pc_tf_begin_all : forallb (fun s => forallb (pc_tf_begin s) all_bytes) all_states = true.
Proof. vm_compute. reflexivity. Qed.

Lemma pc_table_begin s b s' a :
  state_change s b = Some (s', a) ->
  (a = ABeginUtf8 -> s = Ground /\ s' = Utf8 /\ 194 <= b <= 244) /\
  (a <> ABeginUtf8 -> s' <> Utf8).
Proof.
  intros E. pose proof (forall_states_bytes _ pc_tf_begin_all s b (pc_sc_lt _ _ _ E)) as H.
  unfold pc_tf_begin in H. rewrite E in H. split.
  - intros ->. cbn in H. repeat (apply andb_prop in H; destruct H as [H ?]).
    repeat split; try (now apply pc_state_eqb_eq); now apply N.leb_le.
  - intros Ha. destruct (action_eqb a ABeginUtf8) eqn:Ea.
    + apply pc_action_eqb_eq in Ea. contradiction.
    + intros ->. cbn in H. discriminate.
Qed.

(* in OscString every byte 20..FF is payload *)
Definition pc_tf_payload (b : N) : bool :=
  if (32 <=? b) then
    match state_change OscString b with Some (Anywhere, AOscPut) => true | _ => false end
  else true.

Lemma pc_tf_payload_all : forallb pc_tf_payload all_bytes = true.
Proof. vm_compute. reflexivity. Qed.

Lemma pc_table_payload b : 32 <= b < 256 -> state_change OscString b = Some (Anywhere, AOscPut).
Proof.
  intros [H1 H2]. pose proof (forall_bytes _ pc_tf_payload_all b H2) as H.
  unfold pc_tf_payload in H. apply N.leb_le in H1. rewrite H1 in H.
  destruct (state_change OscString b) as [[[] []]|]; try discriminate H. reflexivity.
Qed.

(* ---- the shape of one step ---------------------------------------------- *)

Ltac pc_proj :=
  cbn [pstate intermediates intermediate_idx pparams pparam osc_raw osc_params osc_num_params
       ignoring utf8_parser fst snd osc_cap utf8_on] in *.
Ltac pc_unf :=
  unfold perform_action, finish_params, intermediates_of, process_utf8, char_add, set_osc,
         set_ignoring, set_params, set_param, set_inter, set_utf8, set_state in *.
(* case analysis on an innermost scrutinee *)
Ltac pc_break1 :=
  match goal with
  | |- context [match ?x with _ => _ end] =>
      lazymatch x with
      | context [match _ with _ => _ end] => fail
      | _ => destruct x eqn:?
      end
  end.
Ltac pc_break := pc_proj; repeat (pc_break1; pc_proj).

(* the three phases of a transition: exit action, transition action, entry action *)
Definition pc_exit (c : cfg) (p : parser) (b : N) : option (parser * list event) :=
  match pstate p with
  | DcsPassthrough => perform_action c p AUnhook b
  | OscString => perform_action c p AOscEnd b
  | _ => Some (p, [])
  end.

Definition pc_trans (c : cfg) (p : parser) (a : action) (b : N) : option (parser * list event) :=
  match a with
  | ANop => Some (p, [])
  | _ => perform_action c p a b
  end.

Definition pc_entry (c : cfg) (p : parser) (s : state) (b : N) : option (parser * list event) :=
  match s with
  | CsiEntry | DcsEntry | Escape => perform_action c p AClear b
  | DcsPassthrough => perform_action c p AHook b
  | OscString => perform_action c p AOscStart b
  | _ => Some (p, [])
  end.

Definition pc_psc3 (c : cfg) (p : parser) (s : state) (a : action) (b : N) : option (parser * list event) :=
  '(p1, e1) <- pc_exit c p b ;;
  '(p2, e2) <- pc_trans c p1 a b ;;
  '(p3, e3) <- pc_entry c p2 s b ;;
  Some (set_state p3 s, e1 ++ e2 ++ e3).

Lemma pc_advance_cases c p b :
  advance c p b =
  if state_eqb (pstate p) Utf8 then perform_action c p ABeginUtf8 b
  else match state_change (pstate p) b with
       | None => None
       | Some (s, a) =>
           if state_eqb s Anywhere then perform_action c p a b else pc_psc3 c p s a b
       end.
Proof.
  unfold advance. destruct (pstate p) eqn:Ep; cbn [state_eqb state_disc N.eqb Pos.eqb]; try reflexivity;
    (destruct (state_change _ b) as [[s a]|]; [|reflexivity]);
    unfold perform_state_change, pc_psc3, pc_exit, pc_trans, pc_entry; rewrite Ep;
    destruct s; reflexivity.
Qed.

Lemma pc_puts_spec p b s a :
  state_eqb (pstate p) Utf8 = false -> state_change (pstate p) b = Some (s, a) ->
  pc_puts p b = action_eqb a AOscPut.
Proof.
  unfold pc_puts. intros EU ES. destruct (pstate p); try discriminate EU; rewrite ES; destruct a; reflexivity.
Qed.

Lemma pc_puts_inv p b :
  pc_puts p b = true -> pstate p = OscString /\ state_change OscString b = Some (Anywhere, AOscPut).
Proof.
  intros H.
  destruct (state_eqb (pstate p) Utf8) eqn:EU.
  { apply pc_state_eqb_eq in EU. unfold pc_puts in H. rewrite EU in H. discriminate. }
  destruct (state_change (pstate p) b) as [[s a]|] eqn:ES.
  - rewrite (pc_puts_spec _ _ _ _ EU ES) in H. apply pc_action_eqb_eq in H. subst a.
    pose proof (pc_table_osc _ _ _ _ ES) as [H1 H2]. cbn in H1, H2. subst s.
    rewrite H1 in ES. now split.
  - unfold pc_puts in H. destruct (pstate p); try discriminate H; rewrite ES in H; discriminate H.
Qed.

(* ---- what an action may touch ------------------------------------------- *)

Definition pc_osc_action (a : action) : bool :=
  match a with AOscStart | AOscPut | AOscEnd => true | _ => false end.

(* every other action neither reads nor writes the OSC bookkeeping *)
Lemma pc_action_commutes c p r o n a b :
  pc_osc_action a = false ->
  perform_action c (set_osc p r o n) a b =
  match perform_action c p a b with
  | Some (p', e) => Some (set_osc p' r o n, e)
  | None => None
  end.
Proof.
  intros Ha. destruct p as [st im ii pp pv raw ops num ig u8].
  destruct a; try discriminate Ha; clear Ha; pc_unf; pc_break; reflexivity.
Qed.

Lemma pc_action_osc_frame c p a b :
  pc_osc_action a = false ->
  match perform_action c p a b with
  | Some (p', _) => osc_raw p' = osc_raw p /\ osc_params p' = osc_params p /\ osc_num_params p' = osc_num_params p
  | None => True
  end.
Proof.
  intros Ha. destruct p as [st im ii pp pv raw ops num ig u8].
  destruct a; try discriminate Ha; clear Ha; pc_unf; pc_break; auto.
Qed.

(* the parser state is written by the utf8 collector only *)
Lemma pc_action_state c p a b :
  match perform_action c p a b with
  | Some (p', _) => pstate p' = pstate p \/ (a = ABeginUtf8 /\ pstate p' = Ground)
  | None => True
  end.
Proof.
  destruct p as [st im ii pp pv raw ops num ig u8].
  destruct a; pc_unf; pc_break; auto.
Qed.

(* osc_raw grows by one byte, and only in OscPut when the buffer is not full *)
Lemma pc_action_raw c p a b :
  match perform_action c p a b with
  | Some (p', _) =>
      osc_raw p' = osc_raw p \/ osc_raw p' = [] \/
      (a = AOscPut /\ osc_full c p = false /\ osc_raw p' = osc_raw p ++ [b])
  | None => True
  end.
Proof.
  destruct p as [st im ii pp pv raw ops num ig u8].
  destruct a; pc_unf; pc_break; auto.
Qed.

(* ---- where the configuration is read ------------------------------------ *)

Lemma pc_action_cap cap u p a b :
  (a = AOscPut -> pc_full cap p = false) ->
  perform_action (mkCfg (Some cap) u) p a b = perform_action (mkCfg None u) p a b.
Proof.
  intros H. destruct a; try reflexivity.
  unfold perform_action, osc_full. pc_proj. unfold pc_full in H. rewrite (H eq_refl). reflexivity.
Qed.

Lemma pc_action_utf8 cap u1 u2 p a b :
  a <> ABeginUtf8 ->
  perform_action (mkCfg cap u1) p a b = perform_action (mkCfg cap u2) p a b.
Proof. intros H. destruct a; try reflexivity. contradiction. Qed.

Lemma pc_psc3_ext c1 c2 p s a b :
  a <> AOscPut -> a <> ABeginUtf8 ->
  (forall q a', a' <> AOscPut -> a' <> ABeginUtf8 -> perform_action c1 q a' b = perform_action c2 q a' b) ->
  pc_psc3 c1 p s a b = pc_psc3 c2 p s a b.
Proof.
  intros H1 H2 E. unfold pc_psc3.
  assert (Ex : forall q, pc_exit c1 q b = pc_exit c2 q b).
  { intros q. unfold pc_exit. destruct (pstate q); try reflexivity; apply E; discriminate. }
  assert (Et : forall q, pc_trans c1 q a b = pc_trans c2 q a b).
  { intros q. unfold pc_trans. destruct a; try reflexivity; apply E; assumption || discriminate. }
  assert (En : forall q, pc_entry c1 q s b = pc_entry c2 q s b).
  { intros q. unfold pc_entry. destruct s; try reflexivity; apply E; discriminate. }
  rewrite Ex. destruct (pc_exit c2 p b) as [[p1 e1]|]; [|reflexivity].
  rewrite Et. destruct (pc_trans c2 p1 a b) as [[p2 e2]|]; [|reflexivity].
  rewrite En. reflexivity.
Qed.

(* ---- one step under two configurations ---------------------------------- *)

(* the fixed buffer changes a step only when a payload byte meets a full buffer *)
Lemma pc_advance_cap cap u p b :
  pc_puts p b && pc_full cap p = false ->
  advance (mkCfg (Some cap) u) p b = advance (mkCfg None u) p b.
Proof.
  intros H. rewrite !pc_advance_cases.
  destruct (state_eqb (pstate p) Utf8) eqn:EU; [reflexivity|].
  destruct (state_change (pstate p) b) as [[s a]|] eqn:ES; [|reflexivity].
  rewrite (pc_puts_spec _ _ _ _ EU ES) in H.
  destruct (state_eqb s Anywhere) eqn:EA.
  - apply pc_action_cap. intros ->. cbn in H. exact H.
  - pose proof (pc_table_osc _ _ _ _ ES) as T.
    assert (Ha : a <> AOscPut).
    { intros ->. destruct T as [_ ->]. discriminate EA. }
    destruct (action_eqb a ABeginUtf8) eqn:EB.
    + apply pc_action_eqb_eq in EB. subst a. unfold pc_psc3.
      assert (Ex : pc_exit (mkCfg (Some cap) u) p b = pc_exit (mkCfg None u) p b).
      { unfold pc_exit. destruct (pstate p); reflexivity. }
      rewrite Ex. destruct (pc_exit (mkCfg None u) p b) as [[p1 e1]|]; [|reflexivity].
      unfold pc_trans. change (perform_action (mkCfg (Some cap) u) p1 ABeginUtf8 b)
        with (perform_action (mkCfg None u) p1 ABeginUtf8 b).
      destruct (perform_action (mkCfg None u) p1 ABeginUtf8 b) as [[p2 e2]|]; [|reflexivity].
      assert (En : pc_entry (mkCfg (Some cap) u) p2 s b = pc_entry (mkCfg None u) p2 s b).
      { unfold pc_entry. destruct s; reflexivity. }
      rewrite En. reflexivity.
    + apply pc_psc3_ext; try assumption.
      * intros ->. discriminate EB.
      * intros q a' H1 _. apply pc_action_cap. intros ->. contradiction.
Qed.

(* a payload byte that meets a full buffer is dropped: nothing changes *)
Lemma pc_advance_drop cap u p b :
  pc_puts p b = true -> pc_full cap p = true ->
  advance (mkCfg (Some cap) u) p b = Some (p, []).
Proof.
  intros H F. destruct (pc_puts_inv _ _ H) as [Ep ES].
  rewrite pc_advance_cases, Ep. cbn [state_eqb state_disc N.eqb Pos.eqb]. rewrite ES.
  cbn [state_eqb state_disc N.eqb]. unfold perform_action, osc_full. pc_proj.
  unfold pc_full in F. rewrite F. reflexivity.
Qed.

(* byte [b] in state [p] is handed to BeginUtf8 *)
Definition pc_begins (p : parser) (b : N) : bool :=
  match state_change (pstate p) b with
  | Some (_, ABeginUtf8) => true
  | _ => false
  end.

(* outside a multi-byte character the utf8 feature matters only for BeginUtf8 *)
Lemma pc_advance_utf8 cap u1 u2 p b :
  pstate p <> Utf8 -> pc_begins p b = false ->
  advance (mkCfg cap u1) p b = advance (mkCfg cap u2) p b.
Proof.
  intros HU HB. rewrite !pc_advance_cases.
  destruct (state_eqb (pstate p) Utf8) eqn:EU.
  { apply pc_state_eqb_eq in EU. contradiction. }
  unfold pc_begins in HB.
  destruct (state_change (pstate p) b) as [[s a]|] eqn:ES; [|reflexivity].
  assert (Ha : a <> ABeginUtf8) by (intros ->; discriminate HB).
  destruct (state_eqb s Anywhere) eqn:EA.
  - now apply pc_action_utf8.
  - pose proof (pc_table_osc _ _ _ _ ES) as T.
    apply pc_psc3_ext; try assumption.
    + intros ->. destruct T as [_ ->]. discriminate EA.
    + intros q a' _ H2. now apply pc_action_utf8.
Qed.

Lemma pc_psc3_state c p s a b p' e : pc_psc3 c p s a b = Some (p', e) -> pstate p' = s.
Proof.
  unfold pc_psc3. destruct (pc_exit c p b) as [[p1 e1]|]; [|discriminate].
  destruct (pc_trans c p1 a b) as [[p2 e2]|]; [|discriminate].
  destruct (pc_entry c p2 s b) as [[p3 e3]|]; [|discriminate].
  intros H. inversion H. reflexivity.
Qed.

Lemma pc_advance_not_utf8 c p b p' e :
  pstate p <> Utf8 -> pc_begins p b = false ->
  advance c p b = Some (p', e) -> pstate p' <> Utf8.
Proof.
  intros HU HB. rewrite pc_advance_cases.
  destruct (state_eqb (pstate p) Utf8) eqn:EU.
  { apply pc_state_eqb_eq in EU. contradiction. }
  unfold pc_begins in HB.
  destruct (state_change (pstate p) b) as [[s a]|] eqn:ES; [|discriminate].
  assert (Ha : a <> ABeginUtf8) by (intros ->; discriminate HB).
  destruct (state_eqb s Anywhere) eqn:EA.
  - intros H. pose proof (pc_action_state c p a b) as S. rewrite H in S.
    destruct S as [S | [S _]]; [congruence | contradiction].
  - intros H. apply pc_psc3_state in H. rewrite H.
    now apply (proj2 (pc_table_begin _ _ _ _ ES)).
Qed.

Lemma pc_seven_no_begin p b : b < 128 -> pc_begins p b = false.
Proof.
  intros Hb. unfold pc_begins. destruct (state_change (pstate p) b) as [[s a]|] eqn:ES; [|reflexivity].
  destruct (pc_table_seven _ _ _ _ Hb ES) as [Ha _]. destruct a; try reflexivity. contradiction.
Qed.

(* ---- runs ---------------------------------------------------------------- *)

Lemma pc_run_cons c p b rest :
  run c p (b :: rest) =
  match advance c p b with
  | Some (p1, e1) => match run c p1 rest with
                     | Some (p2, e2) => Some (p2, e1 ++ e2)
                     | None => None
                     end
  | None => None
  end.
Proof. reflexivity. Qed.

Lemma pc_run_nil_events c p rest :
  match run c p rest with Some (p2, e2) => Some (p2, [] ++ e2) | None => None end = run c p rest.
Proof. destruct (run c p rest) as [[p2 e2]|]; reflexivity. Qed.

Lemma pc_run_app c p bs1 bs2 :
  run c p (bs1 ++ bs2) =
  match run c p bs1 with
  | Some (p1, e1) => match run c p1 bs2 with
                     | Some (p2, e2) => Some (p2, e1 ++ e2)
                     | None => None
                     end
  | None => None
  end.
Proof.
  revert p. induction bs1 as [|b bs1 IH]; intros p.
  - cbn [app run]. now rewrite pc_run_nil_events.
  - cbn [app]. rewrite !pc_run_cons. destruct (advance c p b) as [[p1 e1]|]; [|reflexivity].
    rewrite IH. destruct (run c p1 bs1) as [[p2 e2]|]; [|reflexivity].
    destruct (run c p2 bs2) as [[p3 e3]|]; [|reflexivity]. now rewrite app_assoc.
Qed.

(* utf8 on / off: no difference on 7-bit input *)
Lemma pc_run_utf8_irrelevant cap u1 u2 : forall bs p,
  pc_seven_bit bs -> pstate p <> Utf8 ->
  run (mkCfg cap u1) p bs = run (mkCfg cap u2) p bs.
Proof.
  induction bs as [|b bs IH]; intros p H7 HU; [reflexivity|].
  inversion H7 as [|? ? Hb H7']; subst. rewrite !pc_run_cons.
  rewrite (pc_advance_utf8 cap u1 u2 p b HU (pc_seven_no_begin p b Hb)).
  destruct (advance (mkCfg cap u2) p b) as [[p1 e1]|] eqn:E; [|reflexivity].
  rewrite (IH p1 H7'); [reflexivity|].
  exact (pc_advance_not_utf8 _ _ _ _ _ HU (pc_seven_no_begin p b Hb) E).
Qed.

(* the fixed-buffer run is the heap run on the truncated input -- for every input,
   with the same final parser, the same events and the same panics *)
Lemma pc_run_trunc cap u : forall bs p,
  run (mkCfg (Some cap) u) p bs = run (mkCfg None u) p (pc_trunc cap u p bs).
Proof.
  induction bs as [|b bs IH]; intros p; [reflexivity|].
  cbn [pc_trunc]. destruct (pc_puts p b && pc_full cap p) eqn:D.
  - apply andb_prop in D. destruct D as [D1 D2].
    rewrite pc_run_cons, (pc_advance_drop cap u p b D1 D2), pc_run_nil_events. apply IH.
  - rewrite !pc_run_cons, (pc_advance_cap cap u p b D).
    destruct (advance (mkCfg None u) p b) as [[p1 e1]|]; [|reflexivity].
    now rewrite IH.
Qed.

Lemma pc_fit_trunc_id cap u : forall bs p, pc_fitb cap u p bs = true -> pc_trunc cap u p bs = bs.
Proof.
  induction bs as [|b bs IH]; intros p H; [reflexivity|].
  cbn [pc_fitb] in H. apply andb_prop in H. destruct H as [H1 H2].
  apply negb_true_iff in H1. cbn [pc_trunc]. rewrite H1.
  destruct (advance (mkCfg None u) p b) as [[p1 e1]|]; [|reflexivity].
  now rewrite (IH p1 H2).
Qed.

Lemma pc_run_fit cap u bs p :
  pc_fitb cap u p bs = true -> run (mkCfg (Some cap) u) p bs = run (mkCfg None u) p bs.
Proof. intros H. now rewrite pc_run_trunc, (pc_fit_trunc_id _ _ _ _ H). Qed.

Lemma pc_new_not_utf8 : pstate parser_new <> Utf8.
Proof. discriminate. Qed.

Lemma pc_run_is_default c bs :
  pc_seven_bit bs -> pc_cfg_fits c bs -> run c parser_new bs = run cfg_default parser_new bs.
Proof.
  intros H7 HF. destruct c as [[cap|] u]; unfold cfg_default.
  - rewrite (pc_run_utf8_irrelevant (Some cap) u true bs parser_new H7 pc_new_not_utf8).
    apply pc_run_fit. apply HF. reflexivity.
  - exact (pc_run_utf8_irrelevant None u true bs parser_new H7 pc_new_not_utf8).
Qed.

(* C20, first half: on 7-bit input whose OSC payloads fit every configured
   buffer, any two configurations run identically (final parser, events, panics) *)
Lemma pc_cfg_equiv c1 c2 bs :
  pc_seven_bit bs -> pc_cfg_fits c1 bs -> pc_cfg_fits c2 bs ->
  run c1 parser_new bs = run c2 parser_new bs.
Proof. intros H7 F1 F2. now rewrite (pc_run_is_default c1), (pc_run_is_default c2). Qed.

Lemma pc_cfgs_fit c bs : In c pc_cfgs -> pc_osc_fit pc_max_osc_raw bs -> pc_cfg_fits c bs.
Proof.
  rewrite pc_cfgs_are. intros H F cap E. cbn [In] in H.
  destruct H as [<-|[<-|[<-|[<-|[]]]]]; cbn in E; try discriminate E; inversion E; subst; exact F.
Qed.

(* the four feature sets of the property *)
Lemma pc_four_builds_equiv c1 c2 bs :
  In c1 pc_cfgs -> In c2 pc_cfgs -> pc_seven_bit bs -> pc_osc_fit pc_max_osc_raw bs ->
  pc_events c1 bs = pc_events c2 bs.
Proof.
  intros I1 I2 H7 F. unfold pc_events.
  now rewrite (pc_cfg_equiv c1 c2 bs H7 (pc_cfgs_fit _ _ I1 F) (pc_cfgs_fit _ _ I2 F)).
Qed.

(* ---- the fixed buffer never overflows ------------------------------------ *)

Definition pc_within (cap : N) (p : parser) : Prop := N.of_nat (length (osc_raw p)) <= cap.

Lemma pc_action_within cap u p a b p' e :
  pc_within cap p -> perform_action (mkCfg (Some cap) u) p a b = Some (p', e) -> pc_within cap p'.
Proof.
  unfold pc_within. intros W H. pose proof (pc_action_raw (mkCfg (Some cap) u) p a b) as R.
  rewrite H in R. destruct R as [R | [R | [_ [F R]]]]; rewrite R.
  - exact W.
  - cbn. lia.
  - unfold osc_full in F. pc_proj. apply N.eqb_neq in F.
    rewrite app_length. cbn [length]. lia.
Qed.

Lemma pc_set_state_within cap p s : pc_within cap p -> pc_within cap (set_state p s).
Proof. exact (fun H => H). Qed.

Lemma pc_advance_within cap u p b p' e :
  pc_within cap p -> advance (mkCfg (Some cap) u) p b = Some (p', e) -> pc_within cap p'.
Proof.
  intros W. rewrite pc_advance_cases.
  destruct (state_eqb (pstate p) Utf8); [apply pc_action_within; exact W|].
  destruct (state_change (pstate p) b) as [[s a]|]; [|discriminate].
  destruct (state_eqb s Anywhere); [apply pc_action_within; exact W|].
  unfold pc_psc3.
  destruct (pc_exit _ p b) as [[p1 e1]|] eqn:E1; [|discriminate].
  destruct (pc_trans _ p1 a b) as [[p2 e2]|] eqn:E2; [|discriminate].
  destruct (pc_entry _ p2 s b) as [[p3 e3]|] eqn:E3; [|discriminate].
  intros H. inversion H; subst. apply pc_set_state_within.
  assert (W1 : pc_within cap p1).
  { unfold pc_exit in E1. destruct (pstate p); try (inversion E1; subst; exact W);
      exact (pc_action_within _ _ _ _ _ _ _ W E1). }
  assert (W2 : pc_within cap p2).
  { unfold pc_trans in E2. destruct a; try (inversion E2; subst; exact W1);
      exact (pc_action_within _ _ _ _ _ _ _ W1 E2). }
  unfold pc_entry in E3. destruct s; try (inversion E3; subst; exact W2);
    exact (pc_action_within _ _ _ _ _ _ _ W2 E3).
Qed.

Lemma pc_run_within cap u : forall bs p p' e,
  pc_within cap p -> run (mkCfg (Some cap) u) p bs = Some (p', e) -> pc_within cap p'.
Proof.
  induction bs as [|b bs IH]; intros p p' e W H.
  - inversion H; subst. exact W.
  - rewrite pc_run_cons in H.
    destruct (advance _ p b) as [[p1 e1]|] eqn:E; [|discriminate].
    destruct (run _ p1 bs) as [[p2 e2]|] eqn:R; [|discriminate].
    inversion H; subst. exact (IH _ _ _ (pc_advance_within _ _ _ _ _ _ W E) R).
Qed.

(* at every point of every run from a fresh parser the buffer holds at most
   [cap] bytes; hence ArrayVec::push (reached only when the guard found the
   buffer not full) always has room *)
Lemma pc_osc_never_overflows cap u bs1 bs2 p' e :
  run (mkCfg (Some cap) u) parser_new (bs1 ++ bs2) = Some (p', e) ->
  exists p1 e1, run (mkCfg (Some cap) u) parser_new bs1 = Some (p1, e1) /\
                N.of_nat (length (osc_raw p1)) <= cap /\
                N.of_nat (length (osc_raw p')) <= cap.
Proof.
  rewrite pc_run_app. destruct (run _ parser_new bs1) as [[p1 e1]|] eqn:R1; [|discriminate].
  destruct (run _ p1 bs2) as [[p2 e2]|] eqn:R2; [|discriminate].
  intros H. inversion H; subst. exists p1, e1. split; [reflexivity|].
  assert (W0 : pc_within cap parser_new) by (unfold pc_within; cbn; lia).
  pose proof (pc_run_within _ _ _ _ _ _ W0 R1) as W1.
  split; [exact W1 | exact (pc_run_within _ _ _ _ _ _ W1 R2)].
Qed.

(* a push happens only below the limit *)
Lemma pc_push_has_room cap u p b p' e :
  pc_within cap p -> perform_action (mkCfg (Some cap) u) p AOscPut b = Some (p', e) ->
  length (osc_raw p') = S (length (osc_raw p)) -> N.of_nat (length (osc_raw p)) < cap.
Proof.
  unfold pc_within. intros W H L. pose proof (pc_action_raw (mkCfg (Some cap) u) p AOscPut b) as R.
  rewrite H in R. destruct R as [R | [R | [_ [F R]]]].
  - rewrite R in L. lia.
  - rewrite R in L. discriminate L.
  - unfold osc_full in F. pc_proj. apply N.eqb_neq in F. lia.
Qed.

(* ---- the OSC bookkeeping as functions of (osc_raw, osc_params, osc_num_params) *)

Definition pc_put_fn (full : bool) (raw : list N) (ops : list (N * N)) (num : N) (b : N)
  : option (list N * list (N * N) * N) :=
  if full then Some (raw, ops, num)
  else
    let idx := N.of_nat (length raw) in
    if b =? 59 then
      if num =? MAX_OSC_PARAMS then Some (raw, ops, num)
      else if num =? 0 then
        ops' <- aset ops num (0, idx) ;; Some (raw, ops', num + 1)
      else
        pi <- csub num 1 ;;
        '(_, begin) <- aget ops pi ;;
        ops' <- aset ops num (begin, idx) ;;
        Some (raw, ops', num + 1)
    else Some (raw ++ [b], ops, num).

Lemma pc_put_is c p b :
  perform_action c p AOscPut b =
  match pc_put_fn (osc_full c p) (osc_raw p) (osc_params p) (osc_num_params p) b with
  | Some (r, o, n) => Some (set_osc p r o n, [])
  | None => None
  end.
Proof.
  destruct p as [st im ii pp pv raw ops num ig u8].
  unfold perform_action, pc_put_fn, set_osc. pc_break; reflexivity.
Qed.

Definition pc_end_fn (raw : list N) (ops : list (N * N)) (num : N) : option (list (N * N) * N) :=
  let idx := N.of_nat (length raw) in
  if num =? MAX_OSC_PARAMS then Some (ops, num)
  else if num =? 0 then
    ops' <- aset ops num (0, idx) ;; Some (ops', num + 1)
  else
    pi <- csub num 1 ;;
    '(_, begin) <- aget ops pi ;;
    ops' <- aset ops num (begin, idx) ;;
    Some (ops', num + 1).

Lemma pc_end_is c p b :
  perform_action c p AOscEnd b =
  match pc_end_fn (osc_raw p) (osc_params p) (osc_num_params p) with
  | Some (o, n) =>
      match osc_dispatch (set_osc p (osc_raw p) o n) b with
      | Some ev => Some (set_osc p (osc_raw p) o n, ev)
      | None => None
      end
  | None => None
  end.
Proof.
  destruct p as [st im ii pp pv raw ops num ig u8].
  unfold perform_action, pc_end_fn, set_osc. pc_proj.
  destruct (num =? MAX_OSC_PARAMS); [reflexivity|].
  destruct (num =? 0); [destruct (aset ops num _); reflexivity|].
  destruct (csub num 1); [|reflexivity].
  destruct (aget ops n) as [[x y]|]; [|reflexivity].
  destruct (aset ops num _); reflexivity.
Qed.

(* ---- array lemmas --------------------------------------------------------- *)

Lemma pc_aset_nat_get {A} : forall (l : list A) i v l',
  aset_nat l i v = Some l' ->
  forall j, nth_error l' j = if Nat.eqb j i then Some v else nth_error l j.
Proof.
  induction l as [|h t IH]; intros i v l' H j; destruct i; cbn in H; try discriminate.
  - inversion H; subst. destruct j; reflexivity.
  - destruct (aset_nat t i v) eqn:E; [|discriminate]. inversion H; subst.
    destruct j; cbn; [reflexivity|]. now apply IH.
Qed.

Lemma pc_aset_get {A} (l : list A) i v l' j :
  aset l i v = Some l' -> aget l' j = if j =? i then Some v else aget l j.
Proof.
  unfold aset, aget. intros H. rewrite (pc_aset_nat_get _ _ _ _ H).
  destruct (j =? i) eqn:E.
  - apply N.eqb_eq in E. subst. now rewrite Nat.eqb_refl.
  - apply N.eqb_neq in E. assert (Q : N.to_nat j <> N.to_nat i) by lia.
    apply Nat.eqb_neq in Q. now rewrite Q.
Qed.

(* ---- the relations -------------------------------------------------------- *)

(* everything but the OSC bookkeeping *)
Definition pc_core (p : parser) : parser := set_osc p [] [] 0.

(* the live part of the OSC bookkeeping agrees (entries of osc_params at or
   above osc_num_params are never read before they are rewritten) *)
Definition pc_synced (p1 p2 : parser) : Prop :=
  osc_raw p1 = osc_raw p2 /\ osc_num_params p1 = osc_num_params p2 /\
  forall i, i < osc_num_params p1 -> aget (osc_params p1) i = aget (osc_params p2) i.

(* equal up to dead data: the OSC bookkeeping is live only inside an OSC string
   (OscStart resets it on entry) *)
Definition pc_sync (p1 p2 : parser) : Prop :=
  pc_core p1 = pc_core p2 /\ (pstate p1 = OscString -> pc_synced p1 p2).

(* [pf] (fixed buffer) against [pd] (heap): as [pc_sync], except that inside an
   OSC string whose payload has overflowed [pf] stays behind, full *)
Definition pc_lag (cap : N) (pf pd : parser) : Prop :=
  pc_core pf = pc_core pd /\
  (pstate pf = OscString -> pc_synced pf pd \/ pc_full cap pf = true).

Lemma pc_core_fields p q :
  pc_core p = pc_core q ->
  pstate p = pstate q /\ intermediates p = intermediates q /\ intermediate_idx p = intermediate_idx q /\
  pparams p = pparams q /\ pparam p = pparam q /\ ignoring p = ignoring q /\ utf8_parser p = utf8_parser q.
Proof.
  intros H.
  pose proof (f_equal pstate H). pose proof (f_equal intermediates H).
  pose proof (f_equal intermediate_idx H). pose proof (f_equal pparams H).
  pose proof (f_equal pparam H). pose proof (f_equal ignoring H). pose proof (f_equal utf8_parser H).
  repeat split; assumption.
Qed.

Lemma pc_core_set_osc p r o n : pc_core (set_osc p r o n) = pc_core p.
Proof. reflexivity. Qed.

Lemma pc_core_set_state p q s : pc_core p = pc_core q -> pc_core (set_state p s) = pc_core (set_state q s).
Proof.
  intros H. destruct (pc_core_fields _ _ H) as (H1 & H2 & H3 & H4 & H5 & H6 & H7).
  unfold pc_core, set_osc, set_state. pc_proj. congruence.
Qed.

Lemma pc_sync_refl p : pc_sync p p.
Proof. split; [reflexivity|]. intros _. repeat split; reflexivity. Qed.

Lemma pc_sync_lag cap p q : pc_sync p q -> pc_lag cap p q.
Proof. intros [H1 H2]. split; [exact H1|]. intros H. left. now apply H2. Qed.

(* ---- the OSC actions preserve agreement ---------------------------------- *)

Lemma pc_put_fn_sync full raw ops1 ops2 num b r1 o1 n1 r2 o2 n2 :
  (forall i, i < num -> aget ops1 i = aget ops2 i) ->
  pc_put_fn full raw ops1 num b = Some (r1, o1, n1) ->
  pc_put_fn full raw ops2 num b = Some (r2, o2, n2) ->
  r1 = r2 /\ n1 = n2 /\ forall i, i < n1 -> aget o1 i = aget o2 i.
Proof.
  intros HO. unfold pc_put_fn. destruct full.
  { intros H1 H2. inversion H1; inversion H2; subst. auto. }
  destruct (b =? 59).
  2:{ intros H1 H2. inversion H1; inversion H2; subst. auto. }
  destruct (num =? MAX_OSC_PARAMS).
  { intros H1 H2. inversion H1; inversion H2; subst. auto. }
  destruct (num =? 0) eqn:E0.
  - destruct (aset ops1 num _) as [a1|] eqn:A1; [|discriminate].
    destruct (aset ops2 num _) as [a2|] eqn:A2; [|discriminate].
    intros H1 H2. inversion H1; inversion H2; subst. repeat split.
    intros i Hi. rewrite (pc_aset_get _ _ _ _ i A1), (pc_aset_get _ _ _ _ i A2).
    destruct (i =? num) eqn:E; [reflexivity|]. apply N.eqb_neq in E. apply HO. lia.
  - unfold csub. destruct (1 <=? num) eqn:L; [|discriminate].
    apply N.eqb_neq in E0. rewrite <- (HO (num - 1)) by lia.
    destruct (aget ops1 (num - 1)) as [[x y]|]; [|discriminate].
    destruct (aset ops1 num _) as [a1|] eqn:A1; [|discriminate].
    destruct (aset ops2 num _) as [a2|] eqn:A2; [|discriminate].
    intros H1 H2. inversion H1; inversion H2; subst. repeat split.
    intros i Hi. rewrite (pc_aset_get _ _ _ _ i A1), (pc_aset_get _ _ _ _ i A2).
    destruct (i =? num) eqn:E; [reflexivity|]. apply N.eqb_neq in E. apply HO. lia.
Qed.

Lemma pc_end_fn_sync raw ops1 ops2 num o1 n1 o2 n2 :
  (forall i, i < num -> aget ops1 i = aget ops2 i) ->
  pc_end_fn raw ops1 num = Some (o1, n1) ->
  pc_end_fn raw ops2 num = Some (o2, n2) ->
  n1 = n2 /\ forall i, i < n1 -> aget o1 i = aget o2 i.
Proof.
  intros HO. unfold pc_end_fn.
  destruct (num =? MAX_OSC_PARAMS).
  { intros H1 H2. inversion H1; inversion H2; subst. auto. }
  destruct (num =? 0) eqn:E0.
  - destruct (aset ops1 num _) as [a1|] eqn:A1; [|discriminate].
    destruct (aset ops2 num _) as [a2|] eqn:A2; [|discriminate].
    intros H1 H2. inversion H1; inversion H2; subst. split; [reflexivity|].
    intros i Hi. rewrite (pc_aset_get _ _ _ _ i A1), (pc_aset_get _ _ _ _ i A2).
    destruct (i =? num) eqn:E; [reflexivity|]. apply N.eqb_neq in E. apply HO. lia.
  - unfold csub. destruct (1 <=? num) eqn:L; [|discriminate].
    apply N.eqb_neq in E0. rewrite <- (HO (num - 1)) by lia.
    destruct (aget ops1 (num - 1)) as [[x y]|]; [|discriminate].
    destruct (aset ops1 num _) as [a1|] eqn:A1; [|discriminate].
    destruct (aset ops2 num _) as [a2|] eqn:A2; [|discriminate].
    intros H1 H2. inversion H1; inversion H2; subst. split; [reflexivity|].
    intros i Hi. rewrite (pc_aset_get _ _ _ _ i A1), (pc_aset_get _ _ _ _ i A2).
    destruct (i =? num) eqn:E; [reflexivity|]. apply N.eqb_neq in E. apply HO. lia.
Qed.

Lemma pc_slices_sync p1 p2 : pc_synced p1 p2 ->
  forall fuel i, osc_slices fuel p1 i = osc_slices fuel p2 i.
Proof.
  intros (HR & HN & HO). induction fuel as [|f IH]; intros i; [reflexivity|].
  cbn [osc_slices]. rewrite <- HN. destruct (osc_num_params p1 <=? i) eqn:L; [reflexivity|].
  apply N.leb_gt in L. rewrite <- (HO i L), <- HR.
  destruct (aget (osc_params p1) i) as [[x y]|]; [|reflexivity].
  destruct (slice (osc_raw p1) x y); [|reflexivity]. now rewrite IH.
Qed.

Lemma pc_dispatch_sync p1 p2 b : pc_synced p1 p2 -> osc_dispatch p1 b = osc_dispatch p2 b.
Proof.
  intros H. unfold osc_dispatch. destruct H as (HR & HN & HO) eqn:E. rewrite <- HN.
  destruct (MAX_OSC_PARAMS <? osc_num_params p1); [reflexivity|].
  now rewrite (pc_slices_sync p1 p2 (conj HR (conj HN HO))).
Qed.

Lemma pc_put_sim c p1 p2 b p1' e1 p2' e2 :
  perform_action c p1 AOscPut b = Some (p1', e1) ->
  perform_action c p2 AOscPut b = Some (p2', e2) ->
  pc_core p1' = pc_core p1 /\ pc_core p2' = pc_core p2 /\ e1 = [] /\ e2 = [] /\
  (pc_synced p1 p2 -> pc_synced p1' p2').
Proof.
  rewrite !pc_put_is.
  destruct (pc_put_fn _ (osc_raw p1) _ _ b) as [[[r1 o1] n1]|] eqn:F1; [|discriminate].
  destruct (pc_put_fn _ (osc_raw p2) _ _ b) as [[[r2 o2] n2]|] eqn:F2; [|discriminate].
  intros H1 H2. inversion H1; inversion H2; subst.
  refine (conj eq_refl (conj eq_refl (conj eq_refl (conj eq_refl _)))).
  intros (HR & HN & HO).
  assert (EF : osc_full c p2 = osc_full c p1) by (unfold osc_full; now rewrite HR).
  rewrite EF, <- HR, <- HN in F2.
  destruct (pc_put_fn_sync _ _ _ _ _ _ _ _ _ _ _ _ HO F1 F2) as (Q1 & Q2 & Q3).
  unfold pc_synced, set_osc. pc_proj. auto.
Qed.

Lemma pc_end_sim c p1 p2 b p1' e1 p2' e2 :
  perform_action c p1 AOscEnd b = Some (p1', e1) ->
  perform_action c p2 AOscEnd b = Some (p2', e2) ->
  pc_core p1' = pc_core p1 /\ pc_core p2' = pc_core p2 /\
  (pc_synced p1 p2 -> e1 = e2).
Proof.
  rewrite !pc_end_is.
  destruct (pc_end_fn (osc_raw p1) _ _) as [[o1 n1]|] eqn:F1; [|discriminate].
  destruct (pc_end_fn (osc_raw p2) _ _) as [[o2 n2]|] eqn:F2; [|discriminate].
  destruct (osc_dispatch (set_osc p1 _ o1 n1) b) as [v1|] eqn:D1; [|discriminate].
  destruct (osc_dispatch (set_osc p2 _ o2 n2) b) as [v2|] eqn:D2; [|discriminate].
  intros H1 H2. inversion H1; inversion H2; subst.
  refine (conj eq_refl (conj eq_refl _)).
  intros (HR & HN & HO). rewrite <- HR, <- HN in F2.
  destruct (pc_end_fn_sync _ _ _ _ _ _ _ _ HO F1 F2) as (Q1 & Q2).
  assert (S : pc_synced (set_osc p1 (osc_raw p1) o1 n1) (set_osc p2 (osc_raw p2) o2 n2)).
  { unfold pc_synced, set_osc. pc_proj. auto. }
  rewrite (pc_dispatch_sync _ _ b S) in D1. congruence.
Qed.

Lemma pc_nonosc_sim c p1 p2 a b p1' e1 p2' e2 :
  pc_osc_action a = false -> pc_core p1 = pc_core p2 ->
  perform_action c p1 a b = Some (p1', e1) -> perform_action c p2 a b = Some (p2', e2) ->
  pc_core p1' = pc_core p2' /\ e1 = e2.
Proof.
  intros Ha HC H1 H2.
  pose proof (pc_action_commutes c p1 [] [] 0 a b Ha) as C1.
  pose proof (pc_action_commutes c p2 [] [] 0 a b Ha) as C2.
  rewrite H1 in C1. rewrite H2 in C2. fold (pc_core p1) in C1. fold (pc_core p2) in C2.
  rewrite HC, C2 in C1. unfold pc_core. split; congruence.
Qed.

(* ---- the three phases of a transition, two parsers, one configuration ----- *)

Lemma pc_core_state p q : pc_core p = pc_core q -> pstate p = pstate q.
Proof. intros H. exact (f_equal pstate H). Qed.

Lemma pc_exit_sim c p1 p2 b p1' e1 p2' e2 :
  pc_core p1 = pc_core p2 ->
  pc_exit c p1 b = Some (p1', e1) -> pc_exit c p2 b = Some (p2', e2) ->
  pc_core p1' = pc_core p2' /\ ((pstate p1 = OscString -> pc_synced p1 p2) -> e1 = e2).
Proof.
  intros HC. unfold pc_exit. rewrite (pc_core_state _ _ HC).
  destruct (pstate p2) eqn:Ep;
    try (intros H1 H2; inversion H1; inversion H2; subst; split; [exact HC | reflexivity]).
  intros H1 H2. destruct (pc_end_sim c p1 p2 b _ _ _ _ H1 H2) as (Q1 & Q2 & Q3).
  split; [congruence|]. intros S. apply Q3. now apply S.
Qed.

Lemma pc_trans_sim c p1 p2 a b p1' e1 p2' e2 :
  pc_osc_action a = false -> pc_core p1 = pc_core p2 ->
  pc_trans c p1 a b = Some (p1', e1) -> pc_trans c p2 a b = Some (p2', e2) ->
  pc_core p1' = pc_core p2' /\ e1 = e2.
Proof.
  intros Ha HC. unfold pc_trans.
  destruct a; try discriminate Ha;
    try (intros H1 H2; inversion H1; inversion H2; subst; auto; fail);
    intros H1 H2; exact (pc_nonosc_sim c p1 p2 _ b _ _ _ _ Ha HC H1 H2).
Qed.

Lemma pc_entry_sim c p1 p2 s b p1' e1 p2' e2 :
  pc_core p1 = pc_core p2 ->
  pc_entry c p1 s b = Some (p1', e1) -> pc_entry c p2 s b = Some (p2', e2) ->
  pc_core p1' = pc_core p2' /\ e1 = e2 /\ (s = OscString -> pc_synced p1' p2').
Proof.
  intros HC. unfold pc_entry.
  destruct s;
    try (intros H1 H2;
         match type of H1 with perform_action _ _ ?a _ = _ =>
           destruct (pc_nonosc_sim c p1 p2 a b _ _ _ _ eq_refl HC H1 H2) end;
         repeat split; try assumption; discriminate);
    try (intros H1 H2; inversion H1; inversion H2; subst; repeat split; try assumption; discriminate).
  (* OscString: OscStart *)
  unfold perform_action. intros H1 H2. inversion H1; inversion H2; subst.
  split; [rewrite !pc_core_set_osc; exact HC|]. split; [reflexivity|]. intros _.
  unfold pc_synced, set_osc. pc_proj. repeat split. intros i Hi. lia.
Qed.

(* one byte, one configuration, two parsers that agree outside the OSC
   bookkeeping *)
Lemma pc_same_step c p1 p2 b p1' e1 p2' e2 :
  pc_core p1 = pc_core p2 ->
  advance c p1 b = Some (p1', e1) -> advance c p2 b = Some (p2', e2) ->
  pc_core p1' = pc_core p2' /\
  ((pstate p1 = OscString -> pc_synced p1 p2) ->
     e1 = e2 /\ (pstate p1' = OscString -> pc_synced p1' p2')) /\
  (pc_puts p1 b = false -> pstate p1' = OscString ->
     pc_synced p1' p2' \/ osc_raw p1' = osc_raw p1).
Proof.
  intros HC. pose proof (pc_core_state _ _ HC) as HS.
  rewrite !pc_advance_cases. rewrite <- HS.
  destruct (state_eqb (pstate p1) Utf8) eqn:EU.
  { (* inside a multi-byte character *)
    apply pc_state_eqb_eq in EU. intros H1 H2.
    destruct (pc_nonosc_sim c p1 p2 ABeginUtf8 b _ _ _ _ eq_refl HC H1 H2) as [Q1 Q2].
    pose proof (pc_action_state c p1 ABeginUtf8 b) as S. rewrite H1 in S.
    assert (N1 : pstate p1' <> OscString) by (destruct S as [S|[_ S]]; rewrite S; [rewrite EU|]; discriminate).
    split; [exact Q1|]. split; [intros _; split; [exact Q2 | intros X; contradiction]|].
    intros _ X. contradiction. }
  destruct (state_change (pstate p1) b) as [[s a]|] eqn:ES; [|discriminate].
  pose proof (pc_table_osc _ _ _ _ ES) as T.
  pose proof (pc_puts_spec _ _ _ _ EU ES) as PS.
  destruct (state_eqb s Anywhere) eqn:EA.
  - (* no state change *)
    destruct (pc_osc_action a) eqn:Ea.
    + (* OscPut *)
      destruct a; try discriminate Ea; try contradiction.
      intros H1 H2. destruct (pc_put_sim c p1 p2 b _ _ _ _ H1 H2) as (Q1 & Q2 & Q3 & Q4 & Q5).
      split; [congruence|]. split.
      * intros S. split; [congruence|]. intros _. apply Q5. apply S. exact (proj1 T).
      * intros X. rewrite PS in X. discriminate X.
    + intros H1 H2.
      destruct (pc_nonosc_sim c p1 p2 a b _ _ _ _ Ea HC H1 H2) as [Q1 Q2].
      pose proof (pc_action_osc_frame c p1 a b Ea) as F1. rewrite H1 in F1.
      pose proof (pc_action_osc_frame c p2 a b Ea) as F2. rewrite H2 in F2.
      destruct F1 as (F1a & F1b & F1c). destruct F2 as (F2a & F2b & F2c).
      pose proof (pc_action_state c p1 a b) as S. rewrite H1 in S.
      split; [exact Q1|]. split.
      * intros SY. split; [exact Q2|]. intros X.
        assert (X0 : pstate p1 = OscString).
        { destruct S as [S|[_ S]]; [congruence | rewrite S in X; discriminate X]. }
        destruct (SY X0) as (R1 & R2 & R3).
        unfold pc_synced. rewrite F1a, F1b, F1c, F2a, F2b, F2c. auto.
      * intros _ _. right. exact F1a.
  - (* a transition: exit action, action, entry action *)
    assert (Ea : pc_osc_action a = false).
    { destruct a; try reflexivity; try contradiction. destruct T as [_ ->]. discriminate EA. }
    unfold pc_psc3.
    destruct (pc_exit c p1 b) as [[q1 x1]|] eqn:X1; [|discriminate].
    destruct (pc_trans c q1 a b) as [[q2 x2]|] eqn:X2; [|discriminate].
    destruct (pc_entry c q2 s b) as [[q3 x3]|] eqn:X3; [|discriminate].
    destruct (pc_exit c p2 b) as [[r1 y1]|] eqn:Y1; [|discriminate].
    destruct (pc_trans c r1 a b) as [[r2 y2]|] eqn:Y2; [|discriminate].
    destruct (pc_entry c r2 s b) as [[r3 y3]|] eqn:Y3; [|discriminate].
    intros H1 H2. inversion H1; inversion H2; subst.
    destruct (pc_exit_sim c p1 p2 b _ _ _ _ HC X1 Y1) as [C1 E1].
    destruct (pc_trans_sim c q1 r1 a b _ _ _ _ Ea C1 X2 Y2) as [C2 E2].
    destruct (pc_entry_sim c q2 r2 s b _ _ _ _ C2 X3 Y3) as (C3 & E3 & S3).
    split; [now apply pc_core_set_state|]. split.
    + intros SY. split; [rewrite (E1 SY), E2, E3; reflexivity|]. intros X. exact (S3 X).
    + intros _ X. left. exact (S3 X).
Qed.

(* one byte, fixed buffer against heap *)
Lemma pc_lag_step cap u pf pd b pf' ef pd' ed :
  pc_lag cap pf pd ->
  advance (mkCfg (Some cap) u) pf b = Some (pf', ef) ->
  advance (mkCfg None u) pd b = Some (pd', ed) ->
  pc_lag cap pf' pd' /\
  (pc_sync pf pd -> ef = ed /\ (pc_puts pd b && pc_full cap pd = false -> pc_sync pf' pd')).
Proof.
  intros [HC HL] HF HD. pose proof (pc_core_state _ _ HC) as HS.
  assert (PP : pc_puts pd b = pc_puts pf b) by (unfold pc_puts; now rewrite HS).
  destruct (pc_puts pf b && pc_full cap pf) eqn:D.
  - (* the byte is dropped by the fixed buffer, stored by the heap *)
    apply andb_prop in D. destruct D as [D1 D2].
    rewrite (pc_advance_drop cap u pf b D1 D2) in HF. inversion HF; subst pf' ef.
    destruct (pc_puts_inv _ _ D1) as [Ep ES].
    rewrite pc_advance_cases, <- HS, Ep in HD. cbn [state_eqb state_disc N.eqb Pos.eqb] in HD.
    rewrite ES in HD. cbn [state_eqb state_disc N.eqb] in HD.
    rewrite pc_put_is in HD.
    destruct (pc_put_fn _ (osc_raw pd) _ _ b) as [[[r o] n]|]; [|discriminate].
    inversion HD; subst pd' ed. split.
    + split; [rewrite pc_core_set_osc; exact HC|]. intros _. right. exact D2.
    + intros [_ SY]. split; [reflexivity|]. intros ND. exfalso.
      destruct (SY Ep) as (R1 & _). rewrite PP, D1 in ND. unfold pc_full in *. rewrite <- R1, D2 in ND.
      discriminate ND.
  - rewrite (pc_advance_cap cap u pf b D) in HF.
    destruct (pc_same_step _ _ _ _ _ _ _ _ HC HF HD) as (C1 & L1 & L2). split.
    + split; [exact C1|]. intros X.
      destruct (state_eqb (pstate pf) OscString) eqn:EO.
      * apply pc_state_eqb_eq in EO. destruct (HL EO) as [SY|FU].
        -- left. apply (L1 (fun _ => SY)). exact X.
        -- rewrite FU, andb_true_r in D. destruct (L2 D X) as [SY|RW]; [left; exact SY|].
           right. unfold pc_full in *. now rewrite RW.
      * left. apply L1; [|exact X]. intros Y. rewrite Y in EO. discriminate EO.
    + intros [_ SY]. destruct (L1 SY) as [Q1 Q2]. split; [exact Q1|]. intros _. split; assumption.
Qed.

(* ---- runs: fixed buffer against heap -------------------------------------- *)

Lemma pc_lag_run cap u : forall bs pf pd pf' ef pd' ed,
  pc_lag cap pf pd ->
  run (mkCfg (Some cap) u) pf bs = Some (pf', ef) ->
  run (mkCfg None u) pd bs = Some (pd', ed) ->
  pc_lag cap pf' pd'.
Proof.
  induction bs as [|b bs IH]; intros pf pd pf' ef pd' ed L HF HD.
  - inversion HF; inversion HD; subst. exact L.
  - rewrite pc_run_cons in HF, HD.
    destruct (advance _ pf b) as [[pf1 ef1]|] eqn:AF; [|discriminate].
    destruct (advance _ pd b) as [[pd1 ed1]|] eqn:AD; [|discriminate].
    destruct (run _ pf1 bs) as [[pf2 ef2]|] eqn:RF; [|discriminate].
    destruct (run _ pd1 bs) as [[pd2 ed2]|] eqn:RD; [|discriminate].
    inversion HF; inversion HD; subst.
    exact (IH _ _ _ _ _ _ (proj1 (pc_lag_step _ _ _ _ _ _ _ _ _ L AF AD)) RF RD).
Qed.

Lemma pc_sync_run cap u : forall bs pf pd pf' ef pd' ed,
  pc_sync pf pd -> pc_fitb cap u pd bs = true ->
  run (mkCfg (Some cap) u) pf bs = Some (pf', ef) ->
  run (mkCfg None u) pd bs = Some (pd', ed) ->
  ef = ed /\ pc_sync pf' pd'.
Proof.
  induction bs as [|b bs IH]; intros pf pd pf' ef pd' ed S F HF HD.
  - inversion HF; inversion HD; subst. auto.
  - rewrite pc_run_cons in HF, HD. cbn [pc_fitb] in F.
    destruct (advance _ pf b) as [[pf1 ef1]|] eqn:AF; [|discriminate].
    destruct (advance _ pd b) as [[pd1 ed1]|] eqn:AD; [|discriminate].
    destruct (run _ pf1 bs) as [[pf2 ef2]|] eqn:RF; [|discriminate].
    destruct (run _ pd1 bs) as [[pd2 ed2]|] eqn:RD; [|discriminate].
    inversion HF; inversion HD; subst.
    apply andb_prop in F. destruct F as [F1 F2]. apply negb_true_iff in F1.
    destruct (pc_lag_step _ _ _ _ _ _ _ _ _ (pc_sync_lag cap _ _ S) AF AD) as [_ Q].
    destruct (Q S) as [Q1 Q2].
    destruct (IH _ _ _ _ _ _ (Q2 F1) F2 RF RD) as [R1 R2].
    split; [congruence | exact R2].
Qed.

Lemma pc_lag_outside cap pf pd : pc_lag cap pf pd -> pstate pd <> OscString -> pc_sync pf pd.
Proof.
  intros [HC HL] N. split; [exact HC|]. intros X. rewrite (pc_core_state _ _ HC) in X. contradiction.
Qed.

(* C20, second half.  Feed any input [bs1] to the fixed-buffer parser and to
   the heap parser; whenever that leaves the parsers outside an OSC string (for
   instance right after the terminator of an oversize OSC string):
   - parser state and every piece of bookkeeping outside the (now dead) OSC
     fields are equal;
   - on every continuation [bs2] whose own OSC payloads fit, both emit the same
     events and end in states that are again equal up to dead OSC data. *)
Lemma pc_after_osc_unaffected cap u bs1 bs2 pf1 ef1 pd1 ed1 pf2 ef2 pd2 ed2 :
  run (mkCfg (Some cap) u) parser_new bs1 = Some (pf1, ef1) ->
  run (mkCfg None u) parser_new bs1 = Some (pd1, ed1) ->
  pstate pd1 <> OscString ->
  pc_fitb cap u pd1 bs2 = true ->
  run (mkCfg (Some cap) u) pf1 bs2 = Some (pf2, ef2) ->
  run (mkCfg None u) pd1 bs2 = Some (pd2, ed2) ->
  pc_core pf1 = pc_core pd1 /\ ef2 = ed2 /\ pc_sync pf2 pd2.
Proof.
  intros R1 R2 N F S1 S2.
  pose proof (pc_lag_run cap u bs1 _ _ _ _ _ _ (pc_sync_lag cap _ _ (pc_sync_refl parser_new)) R1 R2) as L.
  pose proof (pc_lag_outside _ _ _ L N) as S.
  split; [exact (proj1 S)|]. exact (pc_sync_run cap u bs2 _ _ _ _ _ _ S F S1 S2).
Qed.

(* at every point of every input the two parsers agree on the state and on all
   bookkeeping outside the OSC fields *)
Lemma pc_core_always cap u bs pf ef pd ed :
  run (mkCfg (Some cap) u) parser_new bs = Some (pf, ef) ->
  run (mkCfg None u) parser_new bs = Some (pd, ed) ->
  pstate pf = pstate pd /\ intermediates pf = intermediates pd /\
  intermediate_idx pf = intermediate_idx pd /\ pparams pf = pparams pd /\
  pparam pf = pparam pd /\ ignoring pf = ignoring pd /\ utf8_parser pf = utf8_parser pd.
Proof.
  intros R1 R2. apply pc_core_fields.
  exact (proj1 (pc_lag_run cap u bs _ _ _ _ _ _ (pc_sync_lag cap _ _ (pc_sync_refl parser_new)) R1 R2)).
Qed.

(* ---- what the truncation is, on one OSC payload -------------------------- *)

Lemma pc_puts_payload p b : pstate p = OscString -> 32 <= b < 256 -> pc_puts p b = true.
Proof. intros Ep Hb. unfold pc_puts. rewrite Ep, (pc_table_payload b Hb). reflexivity. Qed.

Lemma pc_cut_zero body : pc_cut 0 body = [].
Proof. destruct body; reflexivity. Qed.

Lemma pc_trunc_full cap u p : forall body,
  pstate p = OscString -> Forall (fun b => 32 <= b < 256) body -> pc_full cap p = true ->
  pc_trunc cap u p body = [].
Proof.
  induction body as [|b body IH]; intros Ep HB F; [reflexivity|].
  inversion HB; subst. cbn [pc_trunc]. rewrite (pc_puts_payload p b Ep), F by assumption.
  cbn [andb]. now apply IH.
Qed.

Lemma pc_put_fn_raw raw ops num b r o n :
  pc_put_fn false raw ops num b = Some (r, o, n) -> r = if b =? 59 then raw else raw ++ [b].
Proof.
  unfold pc_put_fn. destruct (b =? 59).
  - destruct (num =? MAX_OSC_PARAMS); [intros H; now inversion H|].
    destruct (num =? 0).
    + destruct (aset ops num _); [intros H; now inversion H | discriminate].
    + destruct (csub num 1); [|discriminate]. destruct (aget ops n0) as [[x y]|]; [|discriminate].
      destruct (aset ops num _); [intros H; now inversion H | discriminate].
  - intros H. now inversion H.
Qed.

(* inside an OSC string, on payload bytes, [pc_trunc] keeps exactly the bytes up
   to and excluding the first one that arrives when [cap] bytes other than ';'
   have been stored: [pc_cut] with the free room *)
Lemma pc_trunc_payload cap u : forall body p p' e,
  pstate p = OscString -> Forall (fun b => 32 <= b < 256) body -> pc_within cap p ->
  run (mkCfg None u) p body = Some (p', e) ->
  pc_trunc cap u p body = pc_cut (N.to_nat (cap - N.of_nat (length (osc_raw p)))) body.
Proof.
  induction body as [|b body IH]; intros p p' e Ep HB W R; [reflexivity|].
  inversion HB as [|? ? Hb HB']; subst.
  destruct (pc_full cap p) eqn:F.
  - rewrite (pc_trunc_full cap u p (b :: body) Ep HB F). unfold pc_full in F. apply N.eqb_eq in F.
    rewrite F, N.sub_diag. reflexivity.
  - cbn [pc_trunc]. rewrite F, andb_false_r.
    rewrite pc_run_cons in R. destruct (advance (mkCfg None u) p b) as [[p1 e1]|] eqn:A; [|discriminate].
    destruct (run (mkCfg None u) p1 body) as [[p2 e2]|] eqn:R1; [|discriminate].
    rewrite pc_advance_cases, Ep in A. cbn [state_eqb state_disc N.eqb Pos.eqb] in A.
    rewrite (pc_table_payload b Hb) in A. cbn [state_eqb state_disc N.eqb] in A.
    pose proof (pc_action_state (mkCfg None u) p AOscPut b) as S. rewrite A in S.
    assert (Ep1 : pstate p1 = OscString) by (destruct S as [S|[S _]]; [congruence | discriminate S]).
    rewrite pc_put_is in A. unfold osc_full in A. pc_proj.
    destruct (pc_put_fn false _ _ _ b) as [[[r o] n]|] eqn:PF; [|discriminate].
    inversion A; subst p1 e1. apply pc_put_fn_raw in PF.
    unfold pc_full in F. apply N.eqb_neq in F. unfold pc_within in W.
    assert (W1 : pc_within cap (set_osc p r o n)).
    { unfold pc_within, set_osc. pc_proj. rewrite PF. destruct (b =? 59); [exact W|].
      rewrite app_length. cbn [length]. lia. }
    rewrite (IH _ _ _ Ep1 HB' W1 R1). unfold set_osc. pc_proj.
    destruct (N.to_nat (cap - N.of_nat (length (osc_raw p)))) as [|k] eqn:K; [lia|].
    cbn [pc_cut]. f_equal. f_equal. rewrite PF. destruct (b =? 59); [exact K|].
    rewrite app_length. cbn [length]. lia.
Qed.

(* ---- without `utf8`: the only new panic ---------------------------------- *)

Lemma pc_no_utf8_panic cap : forall bs p,
  pstate p <> Utf8 ->
  run (mkCfg cap false) p bs = None -> run (mkCfg cap true) p bs <> None ->
  exists pre b post q e,
    bs = pre ++ b :: post /\ run (mkCfg cap true) p pre = Some (q, e) /\
    pstate q = Ground /\ 194 <= b <= 244.
Proof.
  induction bs as [|b bs IH]; intros p HU H0 H1; [discriminate H0|].
  destruct (pc_begins p b) eqn:B.
  - unfold pc_begins in B. destruct (state_change (pstate p) b) as [[s a]|] eqn:ES; [|discriminate].
    assert (Ha : a = ABeginUtf8) by (destruct a; try discriminate B; reflexivity).
    destruct (proj1 (pc_table_begin _ _ _ _ ES) Ha) as (G & _ & Hb).
    exists [], b, bs, p, []. repeat split; try assumption; apply Hb.
  - rewrite pc_run_cons in H0, H1. rewrite (pc_advance_utf8 cap false true p b HU B) in H0.
    destruct (advance (mkCfg cap true) p b) as [[p1 e1]|] eqn:A; [|contradiction].
    pose proof (pc_advance_not_utf8 _ _ _ _ _ HU B A) as HU1.
    destruct (IH p1 HU1) as (pre & b' & post & q & e & Q1 & Q2 & Q3 & Q4).
    + destruct (run (mkCfg cap false) p1 bs) as [[? ?]|]; [discriminate H0 | reflexivity].
    + intros X. rewrite X in H1. contradiction.
    + exists (b :: pre), b', post, q, (e1 ++ e). subst bs. repeat split; try assumption.
      * cbn [app]. rewrite pc_run_cons, A, Q2. reflexivity.
      * apply Q4.
      * apply Q4.
Qed.
