(* Proofs/ArrayVecGen.v -- the translated methods of arrayvec's `ArrayVec<T, CAP>` (Generated/ArrayVecFn.v,
   tools/gen_fn_arrayvec.py: unsafe code over `[MaybeUninit<T>; CAP]` + `len`, read at value level as stated in
   Model/ArrayVec.v) behave, on the representation invariant "the slots [0, len) are initialised, len <= CAP,
   CAP fits LenUint" ([av_rep cap v l]: the vector v holds the list l), as the LIST MODEL (the avl_ functions of Model/ArrayVec.v)
   that anstyle-parse's translation uses for `osc_raw` (Model/Parser.v: raw_full, len, `++ [b]` with the panic of a
   full vector, [], slice), and they preserve the invariant.  In particular none of the unsafe operations reaches
   undefined behaviour (None) on a represented vector, except where the list model itself panics (push when full). *)
From Coq Require Import NArith List Bool Lia PeanoNat.
From AV Require Import Generated.Table Generated.ParseCfg Spec.Vt Model.Base Model.Imp Model.Utf8parse Model.Parser Model.ArrayVec Generated.ArrayVecFn.
Import ListNotations.
Local Open Scope N_scope.

Section Gen.
Variable T : Type.
Variable cap : N.

Notation rep := (@av_rep T cap).

(* ---- list facts -------------------------------------------------------------------------------- *)

Lemma len_app : forall (A : Type) (a b : list A), len (a ++ b) = len a + len b.
Proof. intros. unfold len. rewrite app_length. lia. Qed.

Lemma len_map : forall (A B : Type) (f : A -> B) (l : list A), len (map f l) = len l.
Proof. intros. unfold len. rewrite map_length. reflexivity. Qed.

Lemma assume_init_map_some : forall (l : list T), av_assume_init (map Some l) = Some l.
Proof. induction l as [|x l IH]; cbn [map av_assume_init]; [reflexivity|]. rewrite IH. reflexivity. Qed.

Lemma to_nat_len : forall (A : Type) (l : list A), N.to_nat (len l) = length l.
Proof. intros. unfold len. apply Nat2N.id. Qed.

Lemma firstn_map_some_app : forall (l : list T) (rest : list (option T)),
  firstn (length l) (map Some l ++ rest) = map Some l.
Proof.
  intros. rewrite <- (map_length Some l). rewrite firstn_app, Nat.sub_diag, firstn_all. cbn [firstn]. apply app_nil_r.
Qed.

(* slots [0, len l) of a represented buffer, read as initialised *)
Lemma from_raw_parts_prefix : forall (l : list T) (rest : list (option T)),
  av_from_raw_parts (map Some l ++ rest) 0 (len l) = Some l.
Proof.
  intros. unfold av_from_raw_parts, slice.
  replace (0 + len l) with (len l) by lia.
  assert (H : (0 <=? len l) && (len l <=? N.of_nat (length (map Some l ++ rest))) = true).
  { rewrite app_length, map_length. unfold len. apply andb_true_intro. split; apply N.leb_le; lia. }
  rewrite H. cbn [N.to_nat skipn]. replace (len l - 0) with (len l) by lia.
  rewrite to_nat_len, firstn_map_some_app. apply assume_init_map_some.
Qed.

(* writing slot [length l] of [map Some l ++ rest] *)
Lemma aset_nat_mid : forall (A : Type) (pre : list A) (y x : A) (post : list A),
  aset_nat (pre ++ y :: post) (length pre) x = Some (pre ++ x :: post).
Proof.
  induction pre as [|h pre IH]; intros; cbn [app length aset_nat]; [reflexivity|]. rewrite IH. reflexivity.
Qed.

Lemma aset_nat_oob : forall (A : Type) (l : list A) (x : A), aset_nat l (length l) x = None.
Proof. induction l as [|h l IH]; intros; cbn [length aset_nat]; [reflexivity|]. rewrite IH. reflexivity. Qed.

Lemma ptr_write_next : forall (l : list T) (y : option T) (rest : list (option T)) (x : T),
  av_ptr_write (map Some l ++ y :: rest) (len l) x = Some (map Some (l ++ [x]) ++ rest).
Proof.
  intros. unfold av_ptr_write, aset. rewrite to_nat_len, <- (map_length Some l), aset_nat_mid.
  rewrite map_app, <- app_assoc. reflexivity.
Qed.

Lemma skipn_two : forall (A : Type) (a b c : list A), skipn (length a + length b) (a ++ b ++ c) = c.
Proof. intros. rewrite app_assoc, <- app_length, skipn_app, Nat.sub_diag, skipn_all. reflexivity. Qed.

Lemma map_some_split : forall (l : list T) (n : nat),
  (n <= length l)%nat -> map Some l = map Some (firstn n l) ++ map Some (skipn n l).
Proof. intros. rewrite <- map_app, firstn_skipn. reflexivity. Qed.

(* dropping the slots [n, len l) *)
Lemma drop_in_place_tail : forall (l : list T) (rest : list (option T)) (n : N),
  n <= len l ->
  av_drop_in_place (map Some l ++ rest) n (len l - n) =
    Some (map Some (firstn (N.to_nat n) l) ++ repeat None (N.to_nat (len l - n)) ++ rest).
Proof.
  intros l rest n Hn. unfold av_drop_in_place, slice.
  replace (n + (len l - n)) with (len l) by lia.
  assert (H : (n <=? len l) && (len l <=? N.of_nat (length (map Some l ++ rest))) = true).
  { rewrite app_length, map_length. unfold len in *. apply andb_true_intro. split; apply N.leb_le; lia. }
  rewrite H.
  assert (Hn' : (N.to_nat n <= length l)%nat) by (unfold len in Hn; lia).
  rewrite (map_some_split l (N.to_nat n) Hn').
  assert (Hl1 : length (map Some (firstn (N.to_nat n) l)) = N.to_nat n).
  { rewrite map_length, firstn_length. lia. }
  (* skipn n *)
  rewrite <- app_assoc.
  rewrite <- Hl1 at 1. rewrite skipn_app, Nat.sub_diag, skipn_all. cbn [skipn app].
  (* firstn (len l - n) of the rest = the initialised tail *)
  assert (Hl2 : length (map Some (skipn (N.to_nat n) l)) = N.to_nat (len l - n)).
  { rewrite map_length, skipn_length. unfold len. lia. }
  rewrite <- Hl2 at 1. rewrite firstn_app, Nat.sub_diag, firstn_all. cbn [firstn]. rewrite app_nil_r.
  rewrite assume_init_map_some.
  f_equal.
  (* the three pieces *)
  rewrite <- Hl1 at 1. rewrite firstn_app, Nat.sub_diag, firstn_all. cbn [firstn]. rewrite app_nil_r.
  f_equal. f_equal.
  replace (N.to_nat (len l)) with (length (map Some (firstn (N.to_nat n) l)) + length (map Some (skipn (N.to_nat n) l)))%nat
    by (rewrite Hl1, Hl2; unfold len in *; lia).
  apply skipn_two.
Qed.

(* a comparison of the Rust source may be spelled either way round (`a < b` | `!(b <= a)` | `b > a` ..): decide every
   spelling from the arithmetic fact *)
Lemma cmp_lt : forall a b, a < b -> (a <? b) = true /\ (b <=? a) = false /\ (a <=? b) = true /\ (b <? a) = false /\ (a =? b) = false /\ (b =? a) = false.
Proof.
  intros a b H. repeat split; [apply N.ltb_lt|apply N.leb_gt|apply N.leb_le|apply N.ltb_ge|apply N.eqb_neq|apply N.eqb_neq]; lia.
Qed.
Lemma cmp_ge : forall a b, b <= a -> (a <? b) = false /\ (b <=? a) = true.
Proof. intros a b H. split; [apply N.ltb_ge|apply N.leb_le]; lia. Qed.
Ltac decide_lt H :=
  let E1 := fresh in let E2 := fresh in let E3 := fresh in let E4 := fresh in let E5 := fresh in let E6 := fresh in
  destruct (cmp_lt _ _ H) as (E1 & E2 & E3 & E4 & E5 & E6); rewrite ?E1, ?E2, ?E3, ?E4, ?E5, ?E6; cbn [negb].
Ltac decide_ge H :=
  let E1 := fresh in let E2 := fresh in
  destruct (cmp_ge _ _ H) as (E1 & E2); rewrite ?E1, ?E2; cbn [negb].

(* ---- the invariant ----------------------------------------------------------------------------- *)

Lemma rep_len_le : forall v l, rep v l -> len l <= cap.
Proof.
  intros v l (Hc & Hx & Hl & rest & Hr). rewrite Hr, len_app, len_map in Hx. lia.
Qed.

Lemma rep_len_small : forall v l, rep v l -> len l <= av_len_uint_max.
Proof. intros v l H. pose proof (rep_len_le v l H). destruct H as (Hc & _). lia. Qed.

(* ---- the small methods ------------------------------------------------------------------------- *)

Lemma g_av_cap_error_new_eq : forall x, g_av_cap_error_new T x = mkAvCapErr x.
Proof. reflexivity. Qed.

Lemma g_av_cap_error_element_eq : forall x, g_av_cap_error_element T (g_av_cap_error_new T x) = x.
Proof. reflexivity. Qed.

Lemma g_av_len_eq : forall v l, rep v l -> g_av_len T v = avl_len l.
Proof. intros v l (_ & _ & Hl & _). exact Hl. Qed.

Lemma g_avi_len_eq : forall v l, rep v l -> g_avi_len T v = avl_len l.
Proof. exact g_av_len_eq. Qed.

Lemma g_av_capacity_eq : forall v, g_av_capacity T cap v = cap.
Proof. reflexivity. Qed.

Lemma g_av_is_empty_eq : forall v l, rep v l -> g_av_is_empty T v = avl_is_empty l.
Proof. intros v l H. unfold g_av_is_empty, avl_is_empty. rewrite (g_av_len_eq v l H). reflexivity. Qed.

Lemma g_av_is_full_eq : forall v l, rep v l -> g_av_is_full T cap v = avl_is_full cap l.
Proof.
  intros v l H. unfold g_av_is_full, avl_is_full, g_av_capacity. rewrite (g_av_len_eq v l H). unfold avl_len.
  first [reflexivity | rewrite N.eqb_sym; reflexivity].     (* `len == capacity` in either order *)
Qed.

Lemma g_av_remaining_capacity_eq : forall v l, rep v l ->
  g_av_remaining_capacity T cap v = avl_remaining cap l /\ avl_remaining cap l = Some (cap - len l).
Proof.
  intros v l H. unfold g_av_remaining_capacity, avl_remaining, g_av_capacity. rewrite (g_av_len_eq v l H).
  unfold avl_len, csub. pose proof (rep_len_le v l H) as Hle. apply N.leb_le in Hle. rewrite Hle. split; reflexivity.
Qed.

(* the pointers: the start of the buffer, the vector unchanged *)
Lemma g_avi_as_ptr_eq : forall v, g_avi_as_ptr T v = 0.
Proof. reflexivity. Qed.
Lemma g_avi_as_mut_ptr_eq : forall v, g_avi_as_mut_ptr T v = (v, 0).
Proof. reflexivity. Qed.
Lemma g_av_as_ptr_eq : forall v, g_av_as_ptr T v = 0.
Proof. reflexivity. Qed.
Lemma g_av_as_mut_ptr_eq : forall v, g_av_as_mut_ptr T v = (v, 0).
Proof. reflexivity. Qed.

(* set_len: within the capacity the cast to LenUint loses nothing *)
Lemma g_avi_set_len_eq : forall v n,
  cap <= av_len_uint_max -> n <= cap -> g_avi_set_len T cap v n = Some (set_av_len v n).
Proof.
  intros v n Hc Hn. unfold g_avi_set_len. apply N.leb_le in Hn as Hn'. rewrite Hn'.
  rewrite N.mod_small by (unfold av_len_uint_max in Hc; lia). reflexivity.
Qed.

Lemma g_avi_set_len_over : forall v n, cap < n -> g_avi_set_len T cap v n = None.
Proof. intros v n Hn. unfold g_avi_set_len. apply N.leb_gt in Hn. rewrite Hn. reflexivity. Qed.

Lemma g_av_set_len_eq : forall v n, g_av_set_len T cap v n = g_avi_set_len T cap v n.
Proof. reflexivity. Qed.

(* ---- as_slice / Deref ---------------------------------------------------------------------------- *)

Lemma g_avi_as_slice_eq : forall v l, rep v l -> g_avi_as_slice T v = Some l.
Proof.
  intros v l H. unfold g_avi_as_slice. cbv zeta. rewrite (g_avi_len_eq v l H), g_avi_as_ptr_eq.
  destruct H as (_ & _ & _ & rest & Hr). rewrite Hr. unfold avl_len. rewrite from_raw_parts_prefix. reflexivity.
Qed.

Lemma g_av_as_slice_eq : forall v l, rep v l -> g_av_as_slice T v = Some l.
Proof. intros v l H. unfold g_av_as_slice. rewrite (g_avi_as_slice_eq v l H). reflexivity. Qed.

Lemma g_av_deref_eq : forall v l, rep v l -> g_av_deref T v = Some l.
Proof. intros v l H. unfold g_av_deref. rewrite (g_av_as_slice_eq v l H). reflexivity. Qed.

(* ---- new / Default -------------------------------------------------------------------------------- *)

Definition av_empty : avec T := mkAvec 0 (av_uninit_array cap).

Lemma rep_empty : cap <= av_len_uint_max -> rep av_empty [].
Proof.
  intros Hc. unfold av_rep, av_empty. cbn [av_len av_xs map app].
  split; [exact Hc|]. split; [|split; [reflexivity|]].
  - unfold av_uninit_array, len. rewrite repeat_length. lia.
  - exists (av_uninit_array cap). reflexivity.
Qed.

Lemma g_av_new_eq : g_av_new T cap = option_map (fun _ => av_empty) (@avl_new T cap).
Proof.
  unfold g_av_new, avl_new. change (4 <? 8) with true. cbv iota.
  destruct (av_len_uint_max <? cap); reflexivity.
Qed.

Lemma g_av_new_rep : forall v, g_av_new T cap = Some v -> rep v [] /\ @avl_new T cap = Some [].
Proof.
  intros v H. rewrite g_av_new_eq in H. unfold avl_new in *.
  destruct (av_len_uint_max <? cap) eqn:E; cbn [option_map] in H; [discriminate|].
  injection H as <-. split; [|reflexivity]. apply rep_empty. apply N.ltb_ge in E. exact E.
Qed.

Lemma g_av_new_panics : g_av_new T cap = None <-> av_len_uint_max < cap.
Proof.
  rewrite g_av_new_eq. unfold avl_new. destruct (av_len_uint_max <? cap) eqn:E; cbn [option_map].
  - apply N.ltb_lt in E. split; [intros _; exact E|reflexivity].
  - apply N.ltb_ge in E. split; [discriminate|lia].
Qed.

Lemma g_av_default_eq : g_av_default T cap = g_av_new T cap.
Proof. unfold g_av_default. destruct (g_av_new T cap); reflexivity. Qed.

(* ---- push_unchecked / try_push / push --------------------------------------------------------------- *)

(* with room: the element lands in slot len, len grows by one; the invariant holds for l ++ [x] *)
Lemma g_avi_push_unchecked_room : forall v l x, rep v l -> len l < cap ->
  exists v', g_avi_push_unchecked T cap v x = Some v' /\ rep v' (l ++ [x]).
Proof.
  intros v l x H Hroom. pose proof H as (Hc & Hx & Hl & rest & Hr).
  (* there is a slot after the initialised prefix *)
  destruct rest as [|y rest].
  { rewrite Hr, app_nil_r, len_map in Hx. lia. }
  unfold g_avi_push_unchecked. cbv zeta. rewrite (g_avi_len_eq v l H). unfold avl_len.
  decide_lt Hroom.
  (* the write and set_len, in whichever order the source has them *)
  repeat first
    [ rewrite g_avi_set_len_eq by (try exact Hc; lia)
    | rewrite g_avi_as_mut_ptr_eq
    | progress cbv beta iota zeta
    | progress (unfold set_av_len, set_av_xs, av_ptr_add)
    | progress cbn [fst snd av_xs av_len]
    | rewrite N.add_0_l
    | rewrite Hr
    | rewrite ptr_write_next ].
  eexists. split; [reflexivity|].
  unfold av_rep. cbn [av_len av_xs].
  split; [exact Hc|]. split; [|split].
  - rewrite Hr in Hx. rewrite len_app, len_map in Hx. rewrite len_app, len_map, len_app.
    unfold len in *. cbn [length] in *. lia.
  - rewrite len_app. unfold len. cbn [length]. lia.
  - exists rest. reflexivity.
Qed.

(* debug_assert!(len < CAPACITY): on a full vector push_unchecked does not write *)
Lemma g_avi_push_unchecked_full : forall v l x, rep v l -> len l = cap -> g_avi_push_unchecked T cap v x = None.
Proof.
  intros v l x H Hfull. unfold g_avi_push_unchecked. cbv zeta. rewrite (g_avi_len_eq v l H). unfold avl_len.
  assert (Hge : cap <= len l) by lia. decide_ge Hge. reflexivity.
Qed.

Definition try_push_sim (r : option (avec T * (unit + av_cap_error T))) (m : list T * (unit + av_cap_error T)) : Prop :=
  exists v', r = Some (v', snd m) /\ rep v' (fst m).

Lemma g_avi_try_push_eq : forall v l x, rep v l -> try_push_sim (g_avi_try_push T cap v x) (avl_try_push cap l x).
Proof.
  intros v l x H. unfold g_avi_try_push, avl_try_push, try_push_sim. rewrite (g_avi_len_eq v l H). unfold avl_len.
  destruct (N.lt_ge_cases (len l) cap) as [E|E].
  - decide_lt E. destruct (g_avi_push_unchecked_room v l x H E) as (v' & Hp & Hrep).
    rewrite Hp. exists v'. split; [reflexivity|exact Hrep].
  - decide_ge E. exists v. split; [reflexivity|exact H].
Qed.

Lemma g_av_try_push_eq : forall v l x, rep v l -> try_push_sim (g_av_try_push T cap v x) (avl_try_push cap l x).
Proof.
  intros v l x H. destruct (g_avi_try_push_eq v l x H) as (v' & Hp & Hrep).
  unfold g_av_try_push. rewrite Hp. exists v'. split; [reflexivity|exact Hrep].
Qed.

(* [osim o ol]: both panic, or both succeed and the results are related *)
Definition osim (o : option (avec T)) (ol : option (list T)) : Prop :=
  match o, ol with
  | Some v', Some l' => rep v' l'
  | None, None => True
  | _, _ => False
  end.

Lemma g_avi_push_eq : forall v l x, rep v l -> osim (g_avi_push T cap v x) (avl_push cap l x).
Proof.
  intros v l x H. destruct (g_avi_try_push_eq v l x H) as (v' & Hp & Hrep).
  unfold g_avi_push. rewrite Hp. unfold avl_try_push, avl_push in *.
  destruct (len l <? cap); cbn [snd fst av_res_unwrap osim] in *; [exact Hrep|exact I].
Qed.

Lemma g_av_push_eq : forall v l x, rep v l -> osim (g_av_push T cap v x) (avl_push cap l x).
Proof.
  intros v l x H. pose proof (g_avi_push_eq v l x H) as Hs. unfold g_av_push.
  destruct (g_avi_push T cap v x); exact Hs.
Qed.

Lemma g_av_push_unchecked_eq : forall v l x, rep v l -> osim (g_av_push_unchecked T cap v x) (avl_push cap l x).
Proof.
  intros v l x H. unfold g_av_push_unchecked, avl_push. destruct (len l <? cap) eqn:E.
  - apply N.ltb_lt in E. destruct (g_avi_push_unchecked_room v l x H E) as (v' & Hp & Hrep). rewrite Hp. exact Hrep.
  - apply N.ltb_ge in E. pose proof (rep_len_le v l H).
    rewrite (g_avi_push_unchecked_full v l x H) by lia. exact I.
Qed.

(* the panic of push: exactly on a full vector *)
Lemma g_av_push_panics_iff_full : forall v l x, rep v l -> (g_av_push T cap v x = None <-> avl_is_full cap l = true).
Proof.
  intros v l x H. pose proof (g_av_push_eq v l x H) as Hs. pose proof (rep_len_le v l H) as Hle.
  unfold avl_push, avl_is_full in *. destruct (len l <? cap) eqn:E.
  - apply N.ltb_lt in E. destruct (g_av_push T cap v x); [|destruct Hs].
    split; [discriminate|]. intros Hf. apply N.eqb_eq in Hf. lia.
  - apply N.ltb_ge in E. destruct (g_av_push T cap v x); [destruct Hs|].
    split; [|reflexivity]. intros _. apply N.eqb_eq. lia.
Qed.

(* ---- truncate / clear / Drop ----------------------------------------------------------------------- *)

Lemma rep_firstn : forall v l n rest,
  rep v l -> n <= len l -> av_xs v = map Some l ++ rest ->
  rep (mkAvec n (map Some (firstn (N.to_nat n) l) ++ repeat None (N.to_nat (len l - n)) ++ rest))
      (firstn (N.to_nat n) l).
Proof.
  intros v l n rest (Hc & Hx & Hl & _) Hn Hr. unfold av_rep. cbn [av_len av_xs].
  split; [exact Hc|]. split; [|split].
  - rewrite Hr in Hx. rewrite !len_app, !len_map in *. unfold len in *.
    rewrite firstn_length, repeat_length. lia.
  - unfold len in *. rewrite firstn_length. lia.
  - eexists. reflexivity.
Qed.

Lemma g_avi_truncate_eq : forall v l n, rep v l ->
  exists v', g_avi_truncate T cap v n = Some v' /\ rep v' (avl_truncate l n).
Proof.
  intros v l n H. pose proof H as (Hc & Hx & Hl & rest & Hr). pose proof (rep_len_le v l H) as Hle.
  unfold g_avi_truncate, avl_truncate. cbv zeta. rewrite (g_avi_len_eq v l H). unfold avl_len.
  destruct (N.lt_ge_cases n (len l)) as [E|E].
  - decide_lt E.
    (* set_len and the drop of the tail, in whichever order the source has them *)
    repeat first
      [ rewrite g_avi_set_len_eq by (try exact Hc; lia)
      | rewrite g_avi_as_mut_ptr_eq
      | progress cbv beta iota zeta
      | progress (unfold set_av_len, set_av_xs, av_ptr_add, csub)
      | progress cbn [fst snd av_xs av_len]
      | rewrite N.add_0_l
      | rewrite Hr
      | match goal with Hq : (?a <=? ?b) = _ |- context [?a <=? ?b] => rewrite Hq end
      | rewrite drop_in_place_tail by lia ].
    eexists. split; [reflexivity|]. apply (rep_firstn v); [exact H|lia|exact Hr].
  - decide_ge E. exists v. split; [reflexivity|exact H].
Qed.

Lemma g_av_truncate_eq : forall v l n, rep v l ->
  exists v', g_av_truncate T cap v n = Some v' /\ rep v' (avl_truncate l n).
Proof.
  intros v l n H. destruct (g_avi_truncate_eq v l n H) as (v' & Hp & Hrep).
  unfold g_av_truncate. rewrite Hp. exists v'. split; [reflexivity|exact Hrep].
Qed.

Lemma avl_truncate_0 : forall (l : list T), avl_truncate l 0 = [].
Proof.
  intros l. unfold avl_truncate. destruct l as [|x l]; [reflexivity|].
  unfold len. cbn [length]. destruct (0 <? N.of_nat (S (length l))) eqn:E; [reflexivity|].
  apply N.ltb_ge in E. lia.
Qed.

Lemma g_avi_clear_eq : forall v l, rep v l -> exists v', g_avi_clear T cap v = Some v' /\ rep v' (avl_clear l).
Proof.
  intros v l H. destruct (g_avi_truncate_eq v l 0 H) as (v' & Hp & Hrep). rewrite avl_truncate_0 in Hrep.
  unfold g_avi_clear. rewrite Hp. exists v'. split; [reflexivity|exact Hrep].
Qed.

Lemma g_av_clear_eq : forall v l, rep v l -> exists v', g_av_clear T cap v = Some v' /\ rep v' (avl_clear l).
Proof.
  intros v l H. destruct (g_avi_clear_eq v l H) as (v' & Hp & Hrep).
  unfold g_av_clear. rewrite Hp. exists v'. split; [reflexivity|exact Hrep].
Qed.

(* Drop: the destructor clears (drops the initialised elements); it cannot fail on a represented vector *)
Lemma g_av_drop_eq : forall v l, rep v l -> exists v', g_av_drop T cap v = Some v' /\ rep v' [].
Proof.
  intros v l H. destruct (g_av_clear_eq v l H) as (v' & Hp & Hrep).
  unfold g_av_drop. rewrite Hp. exists v'. split; [reflexivity|exact Hrep].
Qed.

(* after clear no slot is left initialised below the old length: the cleared vector is observably the fresh one *)
Lemma g_av_clear_slice : forall v l v', rep v l -> g_av_clear T cap v = Some v' -> g_av_as_slice T v' = Some [] /\ g_av_len T v' = 0.
Proof.
  intros v l v' H Hc. destruct (g_av_clear_eq v l H) as (v2 & Hp & Hrep). rewrite Hc in Hp. injection Hp as <-.
  split; [apply (g_av_as_slice_eq v' [] Hrep)|apply (g_av_len_eq v' [] Hrep)].
Qed.

(* ---- scripts: any sequence of operations ---------------------------------------------------------- *)

Definition g_av_step (v : avec T) (o : av_op T) : option (avec T) :=
  match o with
  | AvPush x => g_av_push T cap v x
  | AvTryPush x => option_map fst (g_av_try_push T cap v x)
  | AvClear => g_av_clear T cap v
  | AvTruncate n => g_av_truncate T cap v n
  end.
Fixpoint g_av_run (v : avec T) (os : list (av_op T)) : option (avec T) :=
  match os with
  | [] => Some v
  | o :: r => match g_av_step v o with Some v' => g_av_run v' r | None => None end
  end.

Lemma g_av_step_eq : forall v l o, rep v l -> osim (g_av_step v o) (avl_step cap l o).
Proof.
  intros v l o H. destruct o as [x|x| |n]; cbn [g_av_step avl_step].
  - apply g_av_push_eq. exact H.
  - destruct (g_av_try_push_eq v l x H) as (v' & Hp & Hrep). rewrite Hp. exact Hrep.
  - destruct (g_av_clear_eq v l H) as (v' & Hp & Hrep). rewrite Hp. exact Hrep.
  - destruct (g_av_truncate_eq v l n H) as (v' & Hp & Hrep). rewrite Hp. exact Hrep.
Qed.

Lemma g_av_run_eq : forall os v l, rep v l -> osim (g_av_run v os) (avl_run cap l os).
Proof.
  induction os as [|o os IH]; intros v l H; cbn [g_av_run avl_run]; [exact H|].
  pose proof (g_av_step_eq v l o H) as Hs.
  destruct (g_av_step v o) as [v'|], (avl_step cap l o) as [l'|]; cbn [osim] in Hs; try contradiction; [|exact I].
  apply IH. exact Hs.
Qed.

(* ENTRY POINT: a vector made by `ArrayVec::new()` (or Default) and driven by ANY script of push / try_push / clear /
   truncate panics exactly when the list model does, and otherwise len / is_full / as_slice (Deref) / is_empty answer
   what the list model answers -- in particular no unsafe operation reached undefined behaviour. *)
Theorem translated_arrayvec_is_model : forall os v0,
  g_av_new T cap = Some v0 ->
  match g_av_run v0 os, avl_run cap [] os with
  | Some v, Some l =>
      g_av_len T v = avl_len l /\ g_av_is_full T cap v = avl_is_full cap l /\ g_av_is_empty T v = avl_is_empty l /\
      g_av_as_slice T v = Some l /\ g_av_deref T v = Some l /\ len l <= cap
  | None, None => True
  | _, _ => False
  end.
Proof.
  intros os v0 Hn. destruct (g_av_new_rep v0 Hn) as (H0 & _).
  pose proof (g_av_run_eq os v0 [] H0) as Hs.
  destruct (g_av_run v0 os) as [v|], (avl_run cap [] os) as [l|]; cbn [osim] in Hs; try contradiction; [|exact I].
  repeat split.
  - apply g_av_len_eq; exact Hs.
  - apply g_av_is_full_eq; exact Hs.
  - apply g_av_is_empty_eq; exact Hs.
  - apply g_av_as_slice_eq; exact Hs.
  - apply g_av_deref_eq; exact Hs.
  - apply (rep_len_le v l Hs).
Qed.

End Gen.

(* ---- the bridge to the vocabulary of anstyle-parse's translation (tools/gen_fn_parser.py) ------------- *)
(* With the `core` feature (`osc_cap c = Some cap`) `osc_raw` is an `ArrayVec<u8, cap>`; the parser's translation
   writes its operations over the LIST: `raw_full c raw` for `is_full`, `len raw`, `[]` for `clear`, `slice raw a b`
   for `&osc_raw[a..b]`, and for `push` the term below.  They are the list model of this file. *)

Lemma parser_is_full_is_avl : forall c cap (raw : list N), osc_cap c = Some cap -> raw_full c raw = avl_is_full cap raw.
Proof. intros c cap raw Hc. unfold raw_full, avl_is_full, len. rewrite Hc. reflexivity. Qed.

Lemma parser_push_is_avl : forall c cap (raw : list N) b, osc_cap c = Some cap -> len raw <= cap ->
  (if cfg_core c && raw_full c raw then None else Some (raw ++ [b])) = avl_push cap raw b.
Proof.
  intros c cap raw b Hc Hle. unfold cfg_core, raw_full, avl_push, len in *. rewrite Hc. cbn [andb].
  destruct (N.of_nat (length raw) =? cap) eqn:E.
  - apply N.eqb_eq in E. rewrite E, N.ltb_irrefl. reflexivity.
  - apply N.eqb_neq in E. assert (Hlt : (N.of_nat (length raw) <? cap) = true) by (apply N.ltb_lt; lia).
    rewrite Hlt. reflexivity.
Qed.

(* the translated ArrayVec over bytes simulates the parser's buffer operations *)
Theorem translated_arrayvec_is_parser_buffer : forall c cap (v : avec N) (raw : list N),
  osc_cap c = Some cap -> av_rep cap v raw ->
  g_av_is_full N cap v = raw_full c raw /\
  g_av_len N v = len raw /\
  (forall a b, r <- g_av_deref N v ;; slice r a b = slice raw a b) /\
  (forall b, osim N cap (g_av_push N cap v b) (if cfg_core c && raw_full c raw then None else Some (raw ++ [b]))) /\
  (exists v', g_av_clear N cap v = Some v' /\ av_rep cap v' []).
Proof.
  intros c cap v raw Hc H. pose proof (rep_len_le N cap v raw H) as Hle.
  split; [|split; [|split; [|split]]].
  - rewrite (parser_is_full_is_avl c cap raw Hc). apply g_av_is_full_eq. exact H.
  - apply (g_av_len_eq N cap v raw H).
  - intros a b. rewrite (g_av_deref_eq N cap v raw H). reflexivity.
  - intros b. rewrite (parser_push_is_avl c cap raw b Hc Hle). apply g_av_push_eq. exact H.
  - apply (g_av_clear_eq N cap v raw H).
Qed.

(* Default (derive(Default) of Parser): the empty buffer, for every capacity that fits LenUint -- MAX_OSC_RAW does *)
Theorem translated_arrayvec_default_is_empty : forall cap, cap <= av_len_uint_max ->
  exists v0, g_av_default N cap = Some v0 /\ av_rep cap v0 ([] : list N).
Proof.
  intros cap Hc. rewrite g_av_default_eq, g_av_new_eq. unfold avl_new.
  assert (E : (av_len_uint_max <? cap) = false) by (apply N.ltb_ge; exact Hc). rewrite E. cbn [option_map].
  eexists. split; [reflexivity|]. apply rep_empty. exact Hc.
Qed.

(* ... and MAX_OSC_RAW (Generated/ParseCfg.v, read from crates/anstyle-parse/src/lib.rs on every run) does: `ArrayVec::new()`
   inside `Parser::default()` does not panic under `core` *)
Theorem translated_arrayvec_default_max_osc_raw :
  exists v0, g_av_default N pc_max_osc_raw = Some v0 /\ av_rep pc_max_osc_raw v0 ([] : list N).
Proof. apply translated_arrayvec_default_is_empty. vm_compute. discriminate. Qed.
