(* Proofs/GitWords.v -- C11, the lexical layer: white space, tokenisation,
   lower-casing, and UTF-8 bytes of ASCII-class strings. *)
From Coq Require Import NArith List Bool Lia.
From AV Require Import Spec.StyleRec Spec.SgrCodes Spec.GitSyntax Model.Base Model.Text Proofs.Text Proofs.LsParse.
Import ListNotations.
Local Open Scope N_scope.

(* ---- the literal White_Space list is the by-range property -------------------- *)

Lemma whitespace_agree : forall c, is_whitespace c = is_white_space c.
Proof.
  intros c. apply eq_true_iff_eq.
  unfold is_whitespace, white_space, is_white_space, between. cbn [existsb].
  rewrite !orb_true_iff, !andb_true_iff, !N.eqb_eq, !N.leb_le. lia.
Qed.

Lemma split_pred_ext : forall p q s, (forall c, p c = q c) -> split_pred p s = split_pred q s.
Proof. intros p q s H. induction s as [|c s IH]; cbn; [reflexivity|]. now rewrite H, IH. Qed.

(* ---- split_whitespace = maximal runs of non-white-space ------------------------- *)

Definition ne (w : list N) : bool := negb (is_nil w).

Lemma is_nil_rev_app : forall (cur f : list N), is_nil (rev cur ++ f) = is_nil cur && is_nil f.
Proof.
  intros cur f. destruct cur as [|c cur]; [reflexivity|]. cbn [rev is_nil andb].
  destruct (rev cur); reflexivity.
Qed.

Lemma ne_rev : forall cur : list N, ne (rev cur) = ne cur.
Proof. intros cur. unfold ne. rewrite <- (app_nil_r (rev cur)), is_nil_rev_app. cbn [is_nil]. now rewrite andb_true_r. Qed.

Lemma filter_flush : forall (cur : list N) rest, filter ne (rev cur :: rest) = flush cur (filter ne rest).
Proof.
  intros cur rest. cbn [filter]. rewrite ne_rev. destruct cur; reflexivity.
Qed.

Lemma words_acc_split : forall s cur,
  words_acc cur s =
  filter ne (match split_pred is_white_space s with f :: fs => (rev cur ++ f) :: fs | [] => [] end).
Proof.
  induction s as [|c s IH]; intros cur.
  - cbn [words_acc split_pred]. rewrite app_nil_r, filter_flush. reflexivity.
  - cbn [words_acc split_pred]. pose proof (split_pred_nonempty is_white_space s) as NE.
    destruct (is_white_space c).
    + rewrite IH. destruct (split_pred is_white_space s) as [|f fs]; [contradiction|].
      rewrite app_nil_r, filter_flush. reflexivity.
    + rewrite IH. destruct (split_pred is_white_space s) as [|f fs]; [contradiction|].
      cbn [rev]. now rewrite <- app_assoc.
Qed.

Lemma words_split_whitespace : forall s, words s = split_whitespace s.
Proof.
  intros s. unfold words, split_whitespace. rewrite words_acc_split.
  rewrite (split_pred_ext is_whitespace is_white_space s whitespace_agree).
  destruct (split_pred is_white_space s); reflexivity.
Qed.

(* ---- tokenising a laid-out description ------------------------------------------- *)

Definition ws_only (l : list N) : bool := forallb is_white_space l.
Definition ws_free (l : list N) : bool := forallb (fun c => negb (is_white_space c)) l.
Definition is_word (w : list N) : Prop := w <> [] /\ ws_free w = true.

Lemma words_acc_skip : forall l rest, ws_only l = true -> words_acc [] (l ++ rest) = words_acc [] rest.
Proof.
  induction l as [|c l IH]; intros rest H; [reflexivity|].
  cbn in H. apply andb_true_iff in H as [Hc Hl]. cbn [app words_acc]. rewrite Hc. cbn [flush]. now apply IH.
Qed.

Lemma words_acc_word : forall w cur rest, ws_free w = true -> words_acc cur (w ++ rest) = words_acc (rev w ++ cur) rest.
Proof.
  induction w as [|c w IH]; intros cur rest H; [reflexivity|].
  cbn in H. apply andb_true_iff in H as [Hc Hw]. apply negb_true_iff in Hc.
  cbn [app words_acc]. rewrite Hc. rewrite IH by assumption. cbn [rev]. now rewrite <- app_assoc.
Qed.

Lemma flush_word : forall (w : list N) rest, w <> [] -> flush (rev w) rest = w :: rest.
Proof.
  intros w rest Hw. unfold flush. rewrite rev_involutive.
  destruct (rev w) eqn:E; [|reflexivity].
  apply (f_equal (@rev N)) in E. rewrite rev_involutive in E. cbn in E. contradiction.
Qed.

(* a description: leading white space, then every word followed by its separator;
   only the last separator may be empty *)
Definition layout (lead : list N) (wss : list (list N * list N)) : list N :=
  lead ++ flat_map (fun ws => fst ws ++ snd ws) wss.

Fixpoint good_seps (wss : list (list N * list N)) : Prop :=
  match wss with
  | [] => True
  | (w, sep) :: rest => ws_only sep = true /\ (rest <> [] -> sep <> []) /\ good_seps rest
  end.

Lemma words_body : forall wss,
  Forall is_word (map fst wss) -> good_seps wss ->
  words_acc [] (flat_map (fun ws => fst ws ++ snd ws) wss) = map fst wss.
Proof.
  induction wss as [|[w sep] wss IH]; intros Hw Hs; [reflexivity|].
  cbn [map fst] in Hw. inversion Hw as [|? ? [Hne Hfree] Hw']; subst.
  destruct Hs as (Hsep & Hlast & Hs').
  cbn [flat_map fst snd map]. rewrite <- app_assoc. rewrite words_acc_word by assumption. rewrite app_nil_r.
  destruct sep as [|c sep].
  - destruct wss as [|x wss]; [|exfalso; apply Hlast; [discriminate | reflexivity]].
    cbn [flat_map app words_acc map]. now apply flush_word.
  - cbn in Hsep. apply andb_true_iff in Hsep as [Hc Hsep].
    cbn [app words_acc]. rewrite Hc. rewrite flush_word by assumption. f_equal.
    rewrite words_acc_skip by assumption. now apply IH.
Qed.

Lemma words_layout : forall lead wss,
  ws_only lead = true -> Forall is_word (map fst wss) -> good_seps wss ->
  words (layout lead wss) = map fst wss.
Proof.
  intros lead wss Hl Hw Hs. unfold words, layout. rewrite words_acc_skip by assumption. now apply words_body.
Qed.

(* single spaces between the words *)
Lemma words_join : forall ws, Forall is_word ws -> words (join SPACE ws) = ws.
Proof.
  unfold words. induction ws as [|w ws IH]; intros H; [reflexivity|].
  inversion H as [|? ? [Hne Hfree] H']; subst.
  destruct ws as [|w2 ws].
  - cbn [join]. rewrite <- (app_nil_r w) at 1. rewrite words_acc_word by assumption. rewrite app_nil_r.
    cbn [words_acc]. now apply flush_word.
  - change (join SPACE (w :: w2 :: ws)) with (w ++ SPACE :: join SPACE (w2 :: ws)).
    rewrite words_acc_word by assumption. rewrite app_nil_r. cbn [words_acc].
    change (is_white_space SPACE) with true. cbn iota. rewrite flush_word by assumption. f_equal. now apply IH.
Qed.

(* ---- lower case --------------------------------------------------------------------- *)

Lemma to_lowercase_ascii_lower : forall w, to_lowercase w = map ascii_lower w.
Proof. reflexivity. Qed.

(* ---- UTF-8 bytes of strings over an ASCII class ------------------------------------- *)

Lemma utf8_encode_ascii : forall c, c < 128 -> utf8_encode c = [c].
Proof. intros c H. unfold utf8_encode. apply N.ltb_lt in H. now rewrite H. Qed.

Lemma utf8_encode_high : forall c, 128 <= c -> exists b0 bs, utf8_encode c = b0 :: bs /\ 128 <= b0.
Proof.
  intros c H. unfold utf8_encode. destruct (N.ltb_spec c 128); [lia|].
  assert (L : forall k x, 128 <= k -> 128 <= k + x) by (intros k x Hk; apply (N.le_trans _ k); [exact Hk | apply N.le_add_r]).
  destruct (c <? 2048); [eexists; eexists; split; [reflexivity | apply L; lia]|].
  destruct (c <? 65536); eexists; eexists; (split; [reflexivity | apply L; lia]).
Qed.

Lemma utf8_encode_nonempty : forall c, utf8_encode c <> [].
Proof.
  intros c. destruct (N.lt_ge_cases c 128) as [H|H].
  - rewrite utf8_encode_ascii by assumption. discriminate.
  - destruct (utf8_encode_high c H) as (b0 & bs & E & _). rewrite E. discriminate.
Qed.

Section AsciiClass.
  Variable p : N -> bool.
  Hypothesis p_ascii : forall c, p c = true -> c < 128.

  Lemma class_char : forall c, forallb p (utf8_encode c) = p c.
  Proof.
    intros c. destruct (N.lt_ge_cases c 128) as [H|H].
    - rewrite utf8_encode_ascii by assumption. cbn. now rewrite andb_true_r.
    - destruct (utf8_encode_high c H) as (b0 & bs & E & Hb). rewrite E. cbn [forallb].
      assert (p b0 = false) as ->. { destruct (p b0) eqn:X; [apply p_ascii in X; lia | reflexivity]. }
      destruct (p c) eqn:X; [apply p_ascii in X; lia | reflexivity].
  Qed.

  Lemma class_bytes : forall w, forallb p (str_bytes w) = forallb p w.
  Proof.
    induction w as [|c w IH]; [reflexivity|].
    unfold str_bytes in *. cbn [flat_map forallb]. rewrite forallb_app, class_char, IH. reflexivity.
  Qed.

  Lemma class_bytes_id : forall w, forallb p w = true -> str_bytes w = w.
  Proof.
    induction w as [|c w IH]; intros H; [reflexivity|].
    cbn in H. apply andb_true_iff in H as [Hc Hw]. unfold str_bytes in *. cbn [flat_map].
    rewrite utf8_encode_ascii by (now apply p_ascii). cbn [app]. f_equal. now apply IH.
  Qed.
End AsciiClass.

Lemma str_bytes_nil : forall w, str_bytes w = [] -> w = [].
Proof.
  intros [|c w] H; [reflexivity|]. unfold str_bytes in H. cbn [flat_map] in H.
  apply app_eq_nil in H as [H _]. now apply utf8_encode_nonempty in H.
Qed.

Lemma is_digit_ascii : forall c, is_digit c = true -> c < 128.
Proof. intros c H. apply is_digit_range in H. lia. Qed.

Lemma is_hex_ascii : forall c, is_hex c = true -> c < 128.
Proof.
  intros c H. unfold is_hex, between in H.
  rewrite !orb_true_iff, !andb_true_iff, !N.leb_le in H. lia.
Qed.

Lemma hexdigit_agree : forall c, is_ascii_hexdigit c = is_hex c.
Proof.
  intros c. apply eq_true_iff_eq. unfold is_ascii_hexdigit, is_hex, between.
  rewrite !orb_true_iff, !andb_true_iff, !N.leb_le. lia.
Qed.

Lemma forallb_ext' {A} (p q : A -> bool) : (forall x, p x = q x) -> forall l, forallb p l = forallb q l.
Proof. intros H l. induction l as [|x l IH]; cbn; [reflexivity|]. now rewrite H, IH. Qed.

(* numbers: the bytes of a word are a number exactly when the word is *)
Lemma strict_u8_bytes : forall w, strict_u8 (str_bytes w) = strict_u8 w.
Proof.
  intros w. unfold strict_u8.
  destruct (str_bytes w) as [|b bs] eqn:E.
  - apply str_bytes_nil in E. now subst.
  - destruct w as [|c w]; [discriminate E|]. rewrite <- E. clear b bs E.
    rewrite (class_bytes is_digit is_digit_ascii).
    destruct (forallb is_digit (c :: w)) eqn:D; [|reflexivity].
    now rewrite (class_bytes_id is_digit is_digit_ascii _ D).
Qed.

Lemma open_field_bytes : forall w, open_field (str_bytes w) = open_field w.
Proof.
  intros [|c w]; [reflexivity|].
  unfold str_bytes. cbn [flat_map]. fold (str_bytes w).
  destruct (N.lt_ge_cases c 128) as [H|H].
  - rewrite utf8_encode_ascii by assumption. cbn [app open_field]. now rewrite strict_u8_bytes.
  - destruct (utf8_encode_high c H) as (b0 & bs & E & Hb). rewrite E. cbn [app open_field].
    assert ((b0 =? 43) = false) as -> by (apply N.eqb_neq; lia).
    assert ((c =? 43) = false) as -> by (apply N.eqb_neq; lia). reflexivity.
Qed.
