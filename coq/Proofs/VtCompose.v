(* Proofs/VtCompose.v -- composition (fold) laws of the specification machines over
   `++`: [vt_run], [strip_run], [interp]; and the two facts that make framing by
   complete escape sequences transparent:
   * from Ground, outside a multi-byte character, the events of the VT model do
     not depend on bookkeeping left over from earlier sequences;
   * re-tagging: a stream of events without an SGR sequence is rendered in
     whatever rendition is in effect when it starts, and leaves it unchanged. *)
From Coq Require Import NArith List Bool Lia.
From AV Require Import Spec.Utf8 Spec.Vt Spec.Strip Spec.Sgr Spec.AnsiFrame Model.Base Proofs.TableFacts.
Import ListNotations.
Local Open Scope N_scope.

(* ---- fold laws ----------------------------------------------------------- *)

Lemma vt_run_app : forall a b s,
  vt_run s (a ++ b) =
  let '(s1, e1) := vt_run s a in
  let '(s2, e2) := vt_run s1 b in
  (s2, e1 ++ e2).
Proof.
  induction a as [|x a IH]; intros b s; cbn [app vt_run].
  - destruct (vt_run s b); reflexivity.
  - destruct (vt_step s x) as [s1 e1]. rewrite IH.
    destruct (vt_run s1 a) as [s2 e2]. destruct (vt_run s2 b) as [s3 e3].
    now rewrite app_assoc.
Qed.

Lemma vt_run_app_fst a b s : fst (vt_run s (a ++ b)) = fst (vt_run (fst (vt_run s a)) b).
Proof. rewrite vt_run_app. destruct (vt_run s a) as [s1 e1]; cbn [fst]. now destruct (vt_run s1 b). Qed.

Lemma vt_run_app_snd a b s :
  snd (vt_run s (a ++ b)) = snd (vt_run s a) ++ snd (vt_run (fst (vt_run s a)) b).
Proof. rewrite vt_run_app. destruct (vt_run s a) as [s1 e1]; cbn [fst snd]. now destruct (vt_run s1 b). Qed.

Lemma strip_run_app : forall a b s,
  strip_run s (a ++ b) =
  let '(s1, o1) := strip_run s a in
  let '(s2, o2) := strip_run s1 b in
  (s2, o1 ++ o2).
Proof.
  induction a as [|x a IH]; intros b s; cbn [app strip_run].
  - destruct (strip_run s b); reflexivity.
  - destruct (strip_step s x) as [s1 k]. rewrite IH.
    destruct (strip_run s1 a) as [s2 o2]. destruct (strip_run s2 b) as [s3 o3].
    now destruct k.
Qed.

Lemma strip_run_app_fst a b s : fst (strip_run s (a ++ b)) = fst (strip_run (fst (strip_run s a)) b).
Proof. rewrite strip_run_app. destruct (strip_run s a) as [s1 e1]; cbn [fst]. now destruct (strip_run s1 b). Qed.

Lemma strip_run_app_snd a b s :
  snd (strip_run s (a ++ b)) = snd (strip_run s a) ++ snd (strip_run (fst (strip_run s a)) b).
Proof. rewrite strip_run_app. destruct (strip_run s a) as [s1 e1]; cbn [fst snd]. now destruct (strip_run s1 b). Qed.

Lemma interp_app : forall a b s,
  interp s (a ++ b) =
  let '(o1, s1) := interp s a in
  let '(o2, s2) := interp s1 b in
  (o1 ++ o2, s2).
Proof.
  induction a as [|e a IH]; intros b s; cbn [app interp].
  - destruct (interp s b); reflexivity.
  - rewrite IH. destruct (interp (event_style s e) a) as [o1 s1].
    destruct e as [cp|xb| | | | | |]; try (destruct (is_ws_exec xb)); destruct (interp s1 b) as [o2 s2]; reflexivity.
Qed.

(* ---- Ground is memoryless ------------------------------------------------ *)

(* two parser states are interchangeable when they are equal, or both in Ground
   with the same pending character and the same (stale) OSC buffer: everything
   else is cleared by the ESC that opens the next sequence *)
Definition ground_equiv (s s' : vt) : Prop :=
  s = s' \/ (vs s = VGround /\ vs s' = VGround /\ uni s = uni s' /\ osc s = osc s').

Lemma vt_step_ground_equiv : forall s s' b,
  ground_equiv s s' ->
  snd (vt_step s b) = snd (vt_step s' b) /\ ground_equiv (fst (vt_step s b)) (fst (vt_step s' b)).
Proof.
  intros s s' b [-> | [Hv [Hv' [Hu Ho]]]]; [split; [reflexivity | now left]|].
  destruct s as [v i g c cu p o u], s' as [v' i' g' c' cu' p' o' u'].
  cbn [vs uni osc] in Hv, Hv', Hu, Ho. subst v v' u' o'.
  unfold vt_step; cbn [uni vs].
  destruct u as [[us acc]|].
  - (* inside a character: only the decoder state matters *)
    destruct (utf8_cont us b); cbn [set_uni fst snd vs ints ign closed cur pend osc uni];
      (split; [reflexivity | right; cbn [vs uni osc]; repeat split; reflexivity]).
  - unfold vt_trans.
    destruct ((b =? 24) || (b =? 26)).
    { cbn. split; [reflexivity | right; cbn; repeat split; reflexivity]. }
    destruct (b =? 27).
    { cbn. split; [reflexivity | now left]. }
    destruct (c0 b).
    { cbn. split; [reflexivity | right; cbn; repeat split; reflexivity]. }
    destruct (in_range 32 127 b).
    { cbn. split; [reflexivity | right; cbn; repeat split; reflexivity]. }
    destruct (in_range 128 143 b || in_range 145 154 b || (b =? 156)).
    { cbn. split; [reflexivity | right; cbn; repeat split; reflexivity]. }
    destruct (in_range 194 244 b).
    { cbn [do_action]. destruct (utf8_lead b);
        cbn [fst snd vs ints ign closed cur pend osc uni];
        (split; [reflexivity | right; cbn [vs uni osc]; repeat split; reflexivity]). }
    cbn. split; [reflexivity | right; cbn; repeat split; reflexivity].
Qed.

Lemma vt_run_ground_equiv : forall bs s s',
  ground_equiv s s' ->
  snd (vt_run s bs) = snd (vt_run s' bs) /\ ground_equiv (fst (vt_run s bs)) (fst (vt_run s' bs)).
Proof.
  induction bs as [|b bs IH]; intros s s' H; cbn [vt_run].
  - cbn. split; [reflexivity | exact H].
  - destruct (vt_step_ground_equiv s s' b H) as [He Hs].
    destruct (vt_step s b) as [s1 e1], (vt_step s' b) as [s1' e1']. cbn [fst snd] in He, Hs. subst e1'.
    destruct (IH s1 s1' Hs) as [He2 Hs2].
    destruct (vt_run s1 bs) as [s2 e2], (vt_run s1' bs) as [s2' e2']. cbn [fst snd] in *.
    now subst e2'.
Qed.

(* the parser is at rest: Ground and not inside a multi-byte character *)
Definition vt_at_rest (s : vt) : Prop := vs s = VGround /\ uni s = None.

Lemma ground_equiv_at_rest s s' : ground_equiv s s' -> vt_at_rest s' -> vt_at_rest s.
Proof.
  intros [-> | [Hv [Hv' [Hu _]]]] [H1 H2]; [now split|]. split; [exact Hv | now rewrite Hu].
Qed.

(* ---- re-tagging ---------------------------------------------------------- *)

(* an event that is not an SGR sequence (CSI ... m without intermediates) *)
Definition not_sgr (e : event) : bool :=
  match e with
  | ECsi _ [] false 109 => false
  | _ => true
  end.

Lemma not_sgr_style e s : not_sgr e = true -> event_style s e = s.
Proof.
  destruct e as [| | | | | |ps is ig b|]; try reflexivity.
  cbn. destruct is as [|? ?]; [|reflexivity]. destruct ig; [reflexivity|].
  intros H. destruct b as [|p]; [reflexivity|].
  (* b = 109 is excluded by H; every other value falls in the default branch *)
  repeat (destruct p as [p|p|]; try reflexivity); discriminate H.
Qed.

Lemma interp_retag : forall es st,
  forallb not_sgr es = true ->
  interp st es = (map (fun sc => (st, snd sc)) (fst (interp style_default es)), st).
Proof.
  induction es as [|e es IH]; intros st H; [reflexivity|].
  cbn [forallb] in H. apply andb_true_iff in H. destruct H as [He Hes].
  cbn [interp]. rewrite !(not_sgr_style e _ He).
  rewrite (IH st Hes). specialize (IH style_default Hes).
  destruct (interp style_default es) as [o s2]. cbn [fst] in *.
  destruct e as [cp|xb| | | | | |]; cbn [fst map snd]; try reflexivity.
  destruct (is_ws_exec xb); reflexivity.
Qed.

(* ---- stripping plain text ------------------------------------------------- *)

Definition text_step_ok (b : N) : bool :=
  if sa_text_byte b
  then match plain_step VGround b with
       | (mkS VGround None, true) => true
       | _ => false
       end
  else true.

Lemma text_step_all : forallb text_step_ok all_bytes = true.
Proof. vm_compute. reflexivity. Qed.

Lemma sa_text_byte_lt b : sa_text_byte b = true -> b < 256.
Proof.
  unfold sa_text_byte. rewrite !orb_true_iff, andb_true_iff, !N.leb_le, !N.eqb_eq. lia.
Qed.

Lemma strip_step_text b : sa_text_byte b = true -> strip_step s_init b = (s_init, true).
Proof.
  intros H. pose proof (forall_bytes _ text_step_all b (sa_text_byte_lt b H)) as Hk.
  unfold text_step_ok in Hk. rewrite H in Hk.
  unfold strip_step, s_init; cbn [su sv].
  destruct (plain_step VGround b) as [[v [u|]] [|]]; try discriminate Hk;
    destruct v; try discriminate Hk; reflexivity.
Qed.

Lemma strip_run_text : forall bs,
  forallb sa_text_byte bs = true -> strip_run s_init bs = (s_init, bs).
Proof.
  induction bs as [|b bs IH]; intros H; [reflexivity|].
  cbn [forallb] in H. apply andb_true_iff in H. destruct H as [Hb Hbs].
  cbn [strip_run]. rewrite (strip_step_text b Hb), (IH Hbs). reflexivity.
Qed.
