(* Proofs/AnsiTermFnGen.v -- the RENDERING code of the third-party library ansi_term (0.12.1, translated from
   the cargo registry source by tools/gen_fn_ansiterm.py -> Generated/AnsiTermFn.v):
   A. every translated function = the hand model of Model/AnsiTerm.v (no panic);
   B. the bytes `style.paint("x").to_string()` writes, read from the terminal's default state by Spec/Vt +
      Spec/Sgr, show "x" in exactly the rendition Spec/Targets.v assigns to the value -- for EVERY value of
      the type ansi_term::Style;
   C. the adapter translated over the concrete types = its hand model, whose abstract form means what the
      abstract model of Model/Adapters.v means; hence, with the theorems of Proofs/Adapters.v,
      interp (render (to_ansi_term s)) = project(s) for every anstyle style s. *)
From Coq Require Import NArith Arith List Bool Lia.
From AV Require Import Spec.Vt Spec.Sgr Spec.Render Spec.Targets Model.Base Model.Imp
  Generated.Adapters Model.Adapters Model.AnsiTerm Generated.AdaptersFn Generated.AnsiTermFn
  Proofs.TableFacts Proofs.Render Proofs.Adapters Proofs.AdaptersGen.
Import ListNotations.
Local Open Scope N_scope.

(* ======================================================================== *)
(* A. translated = hand model                                                  *)

Lemma g_atm_default_eq : g_atm_default = atm_default.
Proof. reflexivity. Qed.

Lemma g_atm_is_plain_eq s : g_atm_is_plain s = atm_is_plain s.
Proof. reflexivity. Qed.

(* the builder methods set exactly their field *)
Lemma g_atm_builders_eq s :
  g_atm_new = atm_default /\
  g_atm_bold s = mkAtm (atm_fg s) (atm_bg s) true (atm_dimmed s) (atm_italic s) (atm_underline s) (atm_blink s) (atm_reverse s) (atm_hidden s) (atm_strike s) /\
  g_atm_dimmed s = mkAtm (atm_fg s) (atm_bg s) (atm_bold s) true (atm_italic s) (atm_underline s) (atm_blink s) (atm_reverse s) (atm_hidden s) (atm_strike s) /\
  g_atm_italic s = mkAtm (atm_fg s) (atm_bg s) (atm_bold s) (atm_dimmed s) true (atm_underline s) (atm_blink s) (atm_reverse s) (atm_hidden s) (atm_strike s) /\
  g_atm_underline s = mkAtm (atm_fg s) (atm_bg s) (atm_bold s) (atm_dimmed s) (atm_italic s) true (atm_blink s) (atm_reverse s) (atm_hidden s) (atm_strike s) /\
  g_atm_blink s = mkAtm (atm_fg s) (atm_bg s) (atm_bold s) (atm_dimmed s) (atm_italic s) (atm_underline s) true (atm_reverse s) (atm_hidden s) (atm_strike s) /\
  g_atm_reverse s = mkAtm (atm_fg s) (atm_bg s) (atm_bold s) (atm_dimmed s) (atm_italic s) (atm_underline s) (atm_blink s) true (atm_hidden s) (atm_strike s) /\
  g_atm_hidden s = mkAtm (atm_fg s) (atm_bg s) (atm_bold s) (atm_dimmed s) (atm_italic s) (atm_underline s) (atm_blink s) (atm_reverse s) true (atm_strike s) /\
  g_atm_strikethrough s = mkAtm (atm_fg s) (atm_bg s) (atm_bold s) (atm_dimmed s) (atm_italic s) (atm_underline s) (atm_blink s) (atm_reverse s) (atm_hidden s) true /\
  (forall c, g_atm_fg s c = mkAtm (Some c) (atm_bg s) (atm_bold s) (atm_dimmed s) (atm_italic s) (atm_underline s) (atm_blink s) (atm_reverse s) (atm_hidden s) (atm_strike s)) /\
  (forall c, g_atm_on s c = mkAtm (atm_fg s) (Some c) (atm_bold s) (atm_dimmed s) (atm_italic s) (atm_underline s) (atm_blink s) (atm_reverse s) (atm_hidden s) (atm_strike s)).
Proof. repeat (split; [reflexivity|]). reflexivity. Qed.

(* a writer: the text so far, then what the hand model says is written, Ok(()) *)
Definition wrote (f out : list N) : option (list N * (unit + unit)) := Some (f ++ out, inl tt).

Ltac norm_app := repeat (progress (rewrite <- ?app_assoc; cbn [app])).

Lemma g_atm_write_foreground_code_eq c f :
  g_atm_write_foreground_code c f = wrote f (atm_join (atm_colour_params 30 c)).
Proof.
  unfold wrote. destruct c; unfold g_atm_write_foreground_code, atm_write_str;
    cbn [atm_colour_params atm_join]; norm_app; reflexivity.
Qed.

Lemma g_atm_write_background_code_eq c f :
  g_atm_write_background_code c f = wrote f (atm_join (atm_colour_params 40 c)).
Proof.
  unfold wrote. destruct c; unfold g_atm_write_background_code, atm_write_str;
    cbn [atm_colour_params atm_join]; norm_app; reflexivity.
Qed.


(* joining with the flag "something has been written" that write_prefix keeps *)
Definition sep (w : bool) : list N := if w then [59] else [].
Fixpoint joinw (w : bool) (l : list (list N)) : list N :=
  match l with [] => [] | x :: t => sep w ++ x ++ joinw true t end.
Definition ne {A} (l : list A) : bool := match l with [] => false | _ => true end.

Lemma joinw_true l : joinw true l = match l with [] => [] | _ => 59 :: atm_join l end.
Proof.
  induction l as [|x t IH]; [reflexivity|]. cbn [joinw sep app atm_join]. rewrite IH.
  destruct t; [now rewrite app_nil_r|reflexivity].
Qed.
Lemma atm_join_joinw l : atm_join l = joinw false l.
Proof. destruct l as [|x t]; [reflexivity|]. cbn [joinw sep app atm_join]. rewrite joinw_true. destruct t; [now rewrite app_nil_r|reflexivity]. Qed.
Lemma joinw_app w a b : joinw w (a ++ b) = joinw w a ++ joinw (w || ne a) b.
Proof.
  revert w. induction a as [|x t IH]; intros w; cbn [app joinw ne]; [now rewrite orb_false_r|].
  rewrite IH. cbn [orb]. rewrite orb_true_r. now rewrite <- !app_assoc.
Qed.
Lemma joinw_colour w base c : joinw w (atm_colour_params base c) = sep w ++ atm_join (atm_colour_params base c).
Proof. rewrite atm_join_joinw. destruct c; cbn [atm_colour_params joinw sep app]; reflexivity. Qed.
Lemma ne_colour base c : ne (atm_colour_params base c) = true.
Proof. destruct c; reflexivity. Qed.

(* one `if self.is_x { write_char('n')? }` of write_prefix, for ANY closure that does what write_char does and
   ANY continuation *)
Lemma flag_stage (wc : N -> list N * bool -> option ((list N * bool) * (unit + unit)))
  (Hwc : forall c f w, wc c (f, w) = Some ((f ++ sep w ++ [c], true), inl tt))
  (b : bool) c f w (K : list N -> bool -> option (list N * (unit + unit))) :
  (if b then
     '(st, r) <- wc c (f, w) ;;
     let '(f', w') := st in
     match r with inl _ => K f' w' | inr e => Some (f', inr e) end
   else K f w)
  = K (f ++ (if b then sep w ++ [c] else [])) (w || b).
Proof. destruct b; [rewrite Hwc; now rewrite orb_true_r|now rewrite app_nil_r, orb_false_r]. Qed.

Ltac pull_let :=
  match goal with
  | |- (let x := ?v in @?b x) = ?R => let y := fresh x in set (y := v); change (b y = R); cbv beta
  end.
(* the same under a name chosen here (the proof must not depend on the names of the Rust locals) *)
Ltac pull_let_as y :=
  match goal with
  | |- (let x := ?v in @?b x) = ?R => set (y := v); change (b y = R); cbv beta
  end.

Lemma g_atm_write_prefix_eq s f : g_atm_write_prefix s f = wrote f (atm_prefix s).
Proof. cbv delta [g_atm_write_prefix atm_prefix]. cbv beta. rewrite g_atm_is_plain_eq.
  destruct (atm_is_plain s); [unfold wrote; now rewrite app_nil_r|].
  pull_let_as pf0. cbv iota. pull_let_as wr0. pull_let_as wc.
  assert (Hwc : forall c g w, wc c (g, w) = Some ((g ++ sep w ++ [c], true), inl tt)).
  { intros c g w. unfold wc, atm_write_str, atm_char. destruct w; cbn [sep app]; rewrite <- ?app_assoc; reflexivity. }
  pull_let.
  rewrite (flag_stage wc Hwc).
  do 7 (match goal with |- ?k _ _ = _ => subst k end; cbv beta; pull_let; rewrite (flag_stage wc Hwc)).
  match goal with |- ?k ?F ?W = _ => set (F0 := F); set (W0 := W) end.
  assert (HF : F0 = f ++ [27; 91] ++ joinw false (atm_flag_params s)).
  { subst F0 pf0 wr0. unfold atm_write_str, atm_flag_params.
    destruct (atm_bold s), (atm_dimmed s), (atm_italic s), (atm_underline s), (atm_blink s), (atm_reverse s), (atm_hidden s), (atm_strike s);
      cbn [orb sep app joinw]; rewrite <- ?app_assoc; reflexivity. }
  assert (HW : W0 = ne (atm_flag_params s)).
  { subst W0 wr0. unfold atm_flag_params.
    destruct (atm_bold s), (atm_dimmed s), (atm_italic s), (atm_underline s), (atm_blink s), (atm_reverse s), (atm_hidden s), (atm_strike s); reflexivity. }
  clearbody F0 W0. subst F0 W0.
  match goal with |- ?k _ _ = _ => subst k end. clear Hwc. clear wc.
  unfold wrote, atm_params. rewrite atm_join_joinw, !joinw_app. cbn [orb].
  generalize (joinw false (atm_flag_params s)) as fl. generalize (ne (atm_flag_params s)) as w. intros w fl.
  destruct (atm_bg s) as [cb|], (atm_fg s) as [cf|], w;
    lazy beta iota zeta delta [atm_ocolour_params atm_write_str];
    rewrite ?g_atm_write_background_code_eq; unfold wrote; lazy beta iota zeta;
    rewrite ?g_atm_write_foreground_code_eq; unfold wrote; lazy beta iota zeta;
    rewrite ?ne_colour, ?joinw_colour; cbn [joinw ne sep orb app]; rewrite <- ?app_assoc; cbn [app]; try reflexivity.
  all: rewrite ?orb_true_r, ?joinw_colour, ?app_nil_r; cbn [sep app]; rewrite <- ?app_assoc; cbn [app]; try reflexivity.
  all: rewrite ?app_nil_r; rewrite <- ?app_assoc; cbn [app]; reflexivity.
Qed.

Lemma g_atm_write_suffix_eq s f : g_atm_write_suffix s f = wrote f (atm_suffix s).
Proof.
  unfold g_atm_write_suffix, atm_suffix, wrote. rewrite g_atm_is_plain_eq.
  destruct (atm_is_plain s); [now rewrite app_nil_r|reflexivity].
Qed.

Lemma g_atm_prefix_fmt_eq s f : g_atm_prefix_fmt (g_atm_prefix s) f = wrote f (atm_prefix s).
Proof.
  unfold g_atm_prefix_fmt, g_atm_prefix, atm_prefix_new, atm_prefix_f0. rewrite g_atm_write_prefix_eq. reflexivity.
Qed.

Lemma g_atm_suffix_fmt_eq s f : g_atm_suffix_fmt (g_atm_suffix s) f = wrote f (atm_suffix s).
Proof.
  unfold g_atm_suffix_fmt, g_atm_suffix, atm_suffix_new, atm_suffix_f0. rewrite g_atm_write_suffix_eq. reflexivity.
Qed.

Lemma g_atm_write_to_any_eq s text w :
  g_atm_write_to_any (mkAtmString s text) w = wrote w (atm_paint s text).
Proof.
  unfold g_atm_write_to_any, atm_paint. cbn [atm_s_style atm_s_string].
  rewrite g_atm_prefix_fmt_eq. unfold wrote at 1. cbv beta iota zeta.
  rewrite g_atm_suffix_fmt_eq. unfold wrote, atm_write_str. now rewrite <- !app_assoc.
Qed.

Lemma g_atm_string_fmt_eq s text f :
  g_atm_string_fmt (mkAtmString s text) f = wrote f (atm_paint s text).
Proof. unfold g_atm_string_fmt. rewrite g_atm_write_to_any_eq. reflexivity. Qed.

(* format!("{}", style.paint(text)) / .to_string(): never a panic *)
Lemma g_atm_to_string_eq s text : g_atm_to_string (g_atm_paint s text) = Some (atm_paint s text).
Proof. unfold g_atm_to_string, g_atm_paint. rewrite g_atm_string_fmt_eq. reflexivity. Qed.

(* the entry point of harness/h-adapters: `s.paint("x").to_string().into_bytes()` *)
Theorem translated_ansiterm_render_is_model : forall s, g_atm_render s = Some (atm_render s).
Proof. intros s. unfold g_atm_render. rewrite g_atm_to_string_eq. reflexivity. Qed.

(* ======================================================================== *)
(* B. what a terminal makes of the bytes                                       *)

(* `{}` of a u8 prints digits that denote it *)
Lemma atm_dec_byte n : n < 256 ->
  forallb rn_is_digit (atm_dec n) = true /\ rn_dec_value (atm_dec n) = n.
Proof.
  intros H.
  assert (A : forallb (fun n => forallb rn_is_digit (atm_dec n) && (rn_dec_value (atm_dec n) =? n)) all_bytes = true) by (vm_compute; reflexivity).
  pose proof (forall_bytes _ A n H) as B. cbv beta in B. apply andb_true_iff in B. destruct B as [B1 B2].
  apply N.eqb_eq in B2. auto.
Qed.

Lemma atm_dec_digits_ok n : n < 256 -> rn_digits_ok (atm_dec n) = true.
Proof.
  intros H. destruct (atm_dec_byte n H) as [A B]. unfold rn_digits_ok. rewrite A, B. cbn [andb]. apply N.ltb_lt. lia.
Qed.

(* the prefix is one control sequence: ESC [ p1 ; p2 ; .. m, every parameter without sub-parameters *)
Definition single (ps : list (list N)) : list (list (list N)) := map (fun d => [d]) ps.
Definition vals (ps : list (list N)) : list (list N) := map (fun d => [rn_dec_value d]) ps.

Lemma join_is_rn_join ps : atm_join ps = rn_join 59 ps.
Proof. induction ps as [|x t IH]; [reflexivity|]. cbn [atm_join rn_join]. rewrite IH. reflexivity. Qed.

Lemma print_single ps : rn_print_params (single ps) = atm_join ps.
Proof.
  unfold rn_print_params, single. rewrite map_map. cbn [rn_join]. rewrite map_id. now rewrite join_is_rn_join.
Qed.

Lemma values_single ps : rn_param_values (single ps) = vals ps.
Proof. unfold rn_param_values, single, vals. rewrite map_map. reflexivity. Qed.

Lemma prefix_is_csi s : atm_is_plain s = false -> atm_prefix s = rn_csi (single (atm_params s)) 109.
Proof. intros H. unfold atm_prefix, rn_csi. rewrite H, print_single. reflexivity. Qed.

Lemma flag_params_ok s :
  Forall (fun d => rn_digits_ok d = true) (atm_flag_params s) /\ (length (atm_flag_params s) <= 8)%nat.
Proof.
  unfold atm_flag_params.
  destruct (atm_bold s), (atm_dimmed s), (atm_italic s), (atm_underline s), (atm_blink s), (atm_reverse s), (atm_hidden s), (atm_strike s);
    (split; [repeat constructor|cbn; lia]).
Qed.

Lemma colour_params_ok base c : (base = 30 \/ base = 40) -> atm_colour_wf c ->
  Forall (fun d => rn_digits_ok d = true) (atm_colour_params base c) /\ (length (atm_colour_params base c) <= 5)%nat.
Proof.
  intros Hb Hc. split; [|destruct c; cbn; lia].
  destruct Hb; subst base; destruct c; cbn [atm_colour_params atm_colour_wf] in *;
    repeat (constructor; try reflexivity; try (apply atm_dec_digits_ok; lia)).
Qed.

Lemma ocolour_params_ok base c : (base = 30 \/ base = 40) -> atm_ocolour_wf c ->
  Forall (fun d => rn_digits_ok d = true) (atm_ocolour_params base c) /\ (length (atm_ocolour_params base c) <= 5)%nat.
Proof.
  intros Hb Hc. destruct c as [c|]; [now apply colour_params_ok|]. split; [constructor|cbn; lia].
Qed.

Lemma atm_plain_iff s : atm_is_plain s = true -> s = atm_default.
Proof.
  unfold atm_is_plain, atm_style_eqb, atm_default. destruct s as [fg bg b1 b2 b3 b4 b5 b6 b7 b8]. cbn [atm_fg atm_bg atm_bold atm_dimmed atm_italic atm_underline atm_blink atm_reverse atm_hidden atm_strike].
  destruct fg; [discriminate|]. destruct bg; [discriminate|].
  destruct b1, b2, b3, b4, b5, b6, b7, b8; cbn; intros H; try discriminate H; reflexivity.
Qed.

Lemma params_nonempty s : atm_is_plain s = false -> rn_nonempty (single (atm_params s)) = true.
Proof.
  intros H. destruct (atm_params s) as [|x t] eqn:E; [|reflexivity]. exfalso.
  unfold atm_params in E. apply app_eq_nil in E. destruct E as [E1 E2]. apply app_eq_nil in E2. destruct E2 as [E2 E3].
  assert (s = atm_default).
  { destruct s as [fg bg b1 b2 b3 b4 b5 b6 b7 b8]. cbn [atm_fg atm_bg] in E2, E3.
    destruct fg as [c|]; [destruct c; discriminate E3|]. destruct bg as [c|]; [destruct c; discriminate E2|].
    unfold atm_flag_params in E1. cbn [atm_bold atm_dimmed atm_italic atm_underline atm_blink atm_reverse atm_hidden atm_strike] in E1.
    destruct b1, b2, b3, b4, b5, b6, b7, b8; try discriminate E1; reflexivity. }
  subst s. discriminate H.
Qed.

Lemma params_csi_ok s : atm_wf s -> atm_is_plain s = false -> rn_csi_ok (single (atm_params s)) = true.
Proof.
  intros [Hf Hb] Hp.
  destruct (flag_params_ok s) as [F1 F2].
  destruct (ocolour_params_ok 40 (atm_bg s) (or_intror eq_refl) Hb) as [B1 B2].
  destruct (ocolour_params_ok 30 (atm_fg s) (or_introl eq_refl) Hf) as [C1 C2].
  apply csi_ok_intro.
  - now apply params_nonempty.
  - unfold single. apply Forall_map. unfold atm_params. rewrite !Forall_app. repeat split.
    all: eapply Forall_impl; [|eassumption]; cbv beta; intros d Hd; (split; [reflexivity|]); constructor; [exact Hd|constructor].
  - unfold single.
    replace (length (concat (map (fun d => [d]) (atm_params s)))) with (length (atm_params s)).
    + unfold atm_params. rewrite !app_length. lia.
    + generalize (atm_params s). intros l. induction l as [|x t IH]; [reflexivity|]. cbn [map concat app length]. now rewrite <- IH.
Qed.

(* the SGR parameters by the rules of Spec/Sgr *)
Lemma vals_app a b : vals (a ++ b) = vals a ++ vals b.
Proof. unfold vals. apply map_app. Qed.

Lemma flags_apply s rest :
  sgr_groups style_default (vals (atm_flag_params s) ++ rest) = sgr_groups (mkStyle None None None (atm_bits s)) rest.
Proof.
  unfold atm_flag_params, atm_bits.
  destruct (atm_bold s), (atm_dimmed s), (atm_italic s), (atm_underline s), (atm_blink s), (atm_reverse s), (atm_hidden s), (atm_strike s);
    reflexivity.
Qed.

Lemma bg_colour_apply st c rest : atm_colour_wf c ->
  sgr_groups st (vals (atm_colour_params 40 c) ++ rest) = sgr_groups (set_bg st (Some (atm_colour_meaning c))) rest.
Proof.
  intros H. destruct c; cbn [atm_colour_params atm_colour_wf atm_colour_meaning] in *; try reflexivity.
  - unfold vals. cbn [map app]. rewrite (proj2 (atm_dec_byte n H)). reflexivity.
  - destruct H as (Hr & Hg & Hb). unfold vals. cbn [map app].
    rewrite (proj2 (atm_dec_byte r Hr)), (proj2 (atm_dec_byte g Hg)), (proj2 (atm_dec_byte b Hb)). reflexivity.
Qed.

Lemma fg_colour_apply st c rest : atm_colour_wf c ->
  sgr_groups st (vals (atm_colour_params 30 c) ++ rest) = sgr_groups (set_fg st (Some (atm_colour_meaning c))) rest.
Proof.
  intros H. destruct c; cbn [atm_colour_params atm_colour_wf atm_colour_meaning] in *; try reflexivity.
  - unfold vals. cbn [map app]. rewrite (proj2 (atm_dec_byte n H)). reflexivity.
  - destruct H as (Hr & Hg & Hb). unfold vals. cbn [map app].
    rewrite (proj2 (atm_dec_byte r Hr)), (proj2 (atm_dec_byte g Hg)), (proj2 (atm_dec_byte b Hb)). reflexivity.
Qed.

Lemma params_apply s : atm_wf s -> sgr_apply style_default (vals (atm_params s)) = atm_meaning s.
Proof.
  intros [Hf Hb]. unfold sgr_apply, atm_params, atm_meaning. rewrite !vals_app, flags_apply.
  destruct (atm_bg s) as [cb|], (atm_fg s) as [cf|]; cbn [atm_ocolour_params atm_ocolour_wf option_map] in *.
  - rewrite bg_colour_apply by assumption. rewrite <- (app_nil_r (vals (atm_colour_params 30 cf))), fg_colour_apply by assumption. reflexivity.
  - rewrite bg_colour_apply by assumption. reflexivity.
  - cbn [vals map app]. rewrite <- (app_nil_r (vals (atm_colour_params 30 cf))), fg_colour_apply by assumption. reflexivity.
  - reflexivity.
Qed.

(* the parser: prefix, "x", reset *)
Lemma step_x s : ground_st s -> vt_step s 120 = (s, [EPrint 120]).
Proof. intros [Hv Hu]. destruct s as [v i g c u p o un]. cbn in Hv, Hu. subst. reflexivity. Qed.

Lemma reset_is_csi : atm_reset = rn_csi [[[48]]] 109.
Proof. reflexivity. Qed.

Lemma render_events s : atm_wf s -> atm_is_plain s = false ->
  spec_events (atm_render s) = [rn_sgr (vals (atm_params s)); EPrint 120; rn_sgr [[0]]].
Proof.
  intros W P. unfold spec_events, atm_render, atm_paint, atm_suffix. rewrite P, (prefix_is_csi s P), reset_is_csi.
  destruct (rn_csi_roundtrip (single (atm_params s)) vt_init (params_csi_ok s W P) ground_init) as (s1 & E1 & G1).
  rewrite vt_run_app, E1. cbn [app vt_run]. rewrite (step_x s1 G1).
  destruct (rn_csi_roundtrip [[[48]]] s1 eq_refl G1) as (s2 & E2 & _).
  change (27 :: 91 :: 48 :: [109]) with (rn_csi [[[48]]] 109). rewrite E2. cbn [snd app]. rewrite values_single. reflexivity.
Qed.

Lemma slot_meaning c :
  ad_slot_meaning AdAnsiTerm (option_map atm_abs_colour c) = Some (option_map atm_colour_meaning c).
Proof. destruct c as [[]|]; reflexivity. Qed.

Lemma abs_attrs_meaning s : ad_attrs_meaning AdAnsiTerm (atm_abs_attrs s) = Some (atm_bits s).
Proof.
  unfold atm_abs_attrs, atm_bits.
  destruct (atm_bold s), (atm_dimmed s), (atm_italic s), (atm_underline s), (atm_blink s), (atm_reverse s), (atm_hidden s), (atm_strike s);
    reflexivity.
Qed.

(* [atm_meaning] IS the reading of the value through the tables of Spec/Targets.v *)
Lemma atm_meaning_is_targets s : ad_meaning AdAnsiTerm (atm_abstract s) = Some (atm_meaning s).
Proof.
  unfold ad_meaning, atm_abstract. cbn [ad_t_fg ad_t_bg ad_t_ul ad_t_attrs ad_has_ul].
  rewrite !slot_meaning, abs_attrs_meaning. reflexivity.
Qed.

(* THE rendering theorem, for EVERY value of the type ansi_term::Style: the bytes the library writes for the text
   "x", read from the terminal's default state by Spec/Vt + Spec/Sgr, show exactly one character, 'x', in the
   rendition the meaning tables of Spec/Targets.v assign to the value *)
Theorem ansiterm_render_interp : forall s, atm_wf s ->
  ad_interp_x (atm_render s) = Some (atm_meaning s).
Proof.
  intros s W. destruct (atm_is_plain s) eqn:P.
  - apply atm_plain_iff in P. subst s. reflexivity.
  - unfold ad_interp_x. rewrite (render_events s W P). cbn [interp event_style rn_sgr fst]. 
    rewrite (params_apply s W). reflexivity.
Qed.

Theorem ansiterm_render_meaning : forall s, atm_wf s ->
  ad_interp_x (atm_render s) = ad_meaning AdAnsiTerm (atm_abstract s).
Proof. intros s W. rewrite atm_meaning_is_targets. now apply ansiterm_render_interp. Qed.

(* translated code, no panic, for every value *)
Theorem translated_ansiterm_render_meaning : forall s, atm_wf s ->
  exists bs, g_atm_render s = Some bs /\ ad_interp_x bs = ad_meaning AdAnsiTerm (atm_abstract s) /\
             ad_meaning AdAnsiTerm (atm_abstract s) = Some (atm_meaning s).
Proof.
  intros s W. exists (atm_render s). split; [apply translated_ansiterm_render_is_model|]. split.
  - now apply ansiterm_render_meaning.
  - apply atm_meaning_is_targets.
Qed.

(* ======================================================================== *)
(* C. the adapter over the concrete types, and the composition                 *)

Lemma g_atc_to_ansi_color_eq c : ad_colour_ok (Some c) ->
  g_atc_to_ansi_color (ad_color_of c) = Some (atm_conv_colour c).
Proof.
  destruct c as [i|n|r g b]; cbn [ad_colour_ok]; intros H; [|reflexivity|reflexivity].
  apply ansi_cases in H. repeat (destruct H as [H|H]; [subst; reflexivity|]). subst. reflexivity.
Qed.

Lemma atc_opt_colour oc : ad_colour_ok oc ->
  ad_opt_map_m g_atc_to_ansi_color (option_map ad_color_of oc) = Some (option_map atm_conv_colour oc).
Proof.
  destruct oc as [c|]; intros H; [|reflexivity]. cbn [option_map ad_opt_map_m]. now rewrite g_atc_to_ansi_color_eq.
Qed.

(* anstyle_ansi_term::to_ansi_term, its builder calls being the TRANSLATED methods of ansi_term's style.rs *)
Theorem translated_ansiterm_adapter_is_model : forall s, ad_src_ok s ->
  g_atc_to_ansi_term s = Some (atm_of_src s).
Proof.
  intros s (Hf & Hb & _ & _).
  unfold g_atc_to_ansi_term, atm_of_src, ad_s_get_fg, ad_s_get_bg, ad_s_get_eff. cbv zeta.
  rewrite (atc_opt_colour _ Hf), (atc_opt_colour _ Hb).
  (* the effects: eight `if effects.contains(X) { style = style.x(); }`, or a filter over a private table of (effect,
     method pointer) entries folded into the style -- the selection is computed entry by entry, which leaves the same
     eight tests, on whatever bits the source names *)
  repeat match goal with |- context [filter ?G (?x :: ?l)] => progress cbn [filter] end.
  rewrite ?adg_contains_bit.
  change BOLD with 0; change DIMMED with 1; change ITALIC with 2; change UNDERLINE with 3;
    change BLINK with 8; change INVERT with 9; change HIDDEN with 10; change STRIKETHROUGH with 11.
  destruct (s_fg s) as [cf|], (s_bg s) as [cb|]; cbn [option_map];
    try (destruct (atm_conv_colour cf) as [fgc [|]]); try (destruct (atm_conv_colour cb) as [bgc bb]); cbn [fst];
    repeat match goal with |- context [N.testbit (s_eff s) ?k] => destruct (N.testbit (s_eff s) k) end;
    reflexivity.
Qed.

(* the concrete value, named as Spec/Targets.v names values, has the colour constructors the abstract model chose *)
Lemma abs_conv_slot oc : ad_colour_ok oc ->
  option_map atm_abs_colour (option_map (fun c => fst (atm_conv_colour c)) oc) = ad_at_slot oc.
Proof.
  destruct oc as [[i|n|r g b]|]; cbn [ad_colour_ok]; intros H; try reflexivity.
  apply ansi_cases in H. repeat (destruct H as [H|H]; [subst; reflexivity|]). subst. reflexivity.
Qed.

Lemma fg_bold_is_bright oc : ad_colour_ok oc ->
  match option_map atm_conv_colour oc with Some (_, true) => true | _ => false end = ad_is_bright oc.
Proof.
  destruct oc as [[i|n|r g b]|]; intros _; try reflexivity.
  cbn [option_map atm_conv_colour ad_is_bright]. destruct (8 <=? i); reflexivity.
Qed.

Definition bits_fn (e : N) (b : bool) : N :=
  atm_bits (mkAtm None None (N.testbit e BOLD || b) (N.testbit e DIMMED) (N.testbit e ITALIC) (N.testbit e UNDERLINE)
                  (N.testbit e BLINK) (N.testbit e INVERT) (N.testbit e HIDDEN) (N.testbit e STRIKETHROUGH)).

Lemma bits_fn_project : forall e b, e < 4096 ->
  bits_fn e b = N.lor (N.land e (ad_expressible AdAnsiTerm)) (if b then bit BOLD else 0).
Proof.
  intros e b He.
  assert (A : forallb (fun e => forallb (fun b => bits_fn e b =? N.lor (N.land e (ad_expressible AdAnsiTerm)) (if b then bit BOLD else 0)) [true; false])
                      (ad_below 4096) = true) by (vm_compute; reflexivity).
  pose proof (ad_forall_below 4096 _ A e He) as B. cbv beta in B. cbn [forallb] in B.
  apply andb_true_iff in B. destruct B as [B1 B2]. apply andb_true_iff in B2. destruct B2 as [B2 _].
  destruct b; now apply N.eqb_eq.
Qed.

Lemma bits_of_src s : ad_src_ok s -> atm_bits (atm_of_src s) = ad_project_effects AdAnsiTerm s.
Proof.
  intros (Hf & _ & _ & He). unfold ad_project_effects. rewrite <- (bits_fn_project _ _ He).
  unfold atm_of_src. cbv zeta. rewrite (fg_bold_is_bright _ Hf). reflexivity.
Qed.

(* read through the tables of Spec/Targets.v, the concrete value means what the abstract model's value means ... *)
Theorem ansiterm_concrete_means_abstract : forall s, ad_src_ok s ->
  ad_meaning AdAnsiTerm (atm_abstract (atm_of_src s)) = ad_meaning AdAnsiTerm (ad_to_ansi_term s).
Proof.
  intros s Hs. pose proof (ad_effects_ansi_term s Hs) as HE. pose proof (bits_of_src s Hs) as HB.
  destruct Hs as (Hf & Hb & _ & He).
  unfold ad_meaning. rewrite HE. unfold atm_abstract, ad_to_ansi_term.
  cbn [ad_t_fg ad_t_bg ad_t_ul ad_t_attrs ad_has_ul]. rewrite abs_attrs_meaning, HB.
  fold (ad_at_slot (s_fg s)). fold (ad_at_slot (s_bg s)).
  rewrite <- (abs_conv_slot _ Hf), <- (abs_conv_slot _ Hb).
  unfold atm_of_src. cbv zeta. cbn [atm_fg atm_bg].
  destruct (s_fg s), (s_bg s); reflexivity.
Qed.

(* ... which, by the theorem of C16 about the abstract model, is the projection of the source style *)
Theorem ansiterm_concrete_meaning : forall s, ad_src_ok s ->
  ad_meaning AdAnsiTerm (atm_abstract (atm_of_src s)) = Some (ad_project AdAnsiTerm s).
Proof. intros s Hs. rewrite (ansiterm_concrete_means_abstract s Hs). exact (ad_convert_meaning AdAnsiTerm s Hs). Qed.

Lemma named_wf k : atm_colour_wf (nth k atm_named AtBlack).
Proof. do 9 (destruct k as [|k]; [exact I|]). destruct k; exact I. Qed.

Lemma of_src_wf s : atm_src_ok s -> atm_wf (atm_of_src s).
Proof.
  intros [Hf Hb]. unfold atm_wf, atm_of_src. cbv zeta. cbn [atm_fg atm_bg]. split.
  - destruct (s_fg s) as [[i|n|r g b]|]; cbn [option_map atm_conv_colour fst atm_ocolour_wf atm_colour_wf atm_src_colour_ok] in *; auto using named_wf.
  - destruct (s_bg s) as [[i|n|r g b]|]; cbn [option_map atm_conv_colour fst atm_ocolour_wf atm_colour_wf atm_src_colour_ok] in *; auto using named_wf.
Qed.

(* THE composition, all of it translated code (adapter from the repository, library from the registry): for every
   anstyle style, converting it and rendering "x" with ansi_term does not panic, and the terminal shows "x" in the
   projection of the style onto what ansi_term can express (no normalisation of palette entries is needed here:
   ansi_term prints an indexed colour as 38;5;n, which is read back as that index) *)
Theorem rendered_ansiterm_converted : forall s, ad_src_ok s -> atm_src_ok s ->
  exists bs, g_atc_render_converted s = Some bs /\ ad_interp_x bs = Some (ad_project AdAnsiTerm s).
Proof.
  intros s Hs Hb. exists (atm_render (atm_of_src s)). split.
  - unfold g_atc_render_converted. rewrite (translated_ansiterm_adapter_is_model s Hs). apply translated_ansiterm_render_is_model.
  - rewrite (ansiterm_render_meaning _ (of_src_wf s Hb)). now apply ansiterm_concrete_meaning.
Qed.
