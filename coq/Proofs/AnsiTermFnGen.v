From Coq Require Import NArith List Bool Lia.
From AV Require Import Generated.AnsiTermFn.
