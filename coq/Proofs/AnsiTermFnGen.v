(* Proofs/AnsiTermFnGen.v -- the RENDERING code of the third-party library ansi_term (0.12.1, translated from
   the cargo registry source by tools/gen_fn_ansiterm.py -> Generated/AnsiTermFn.v):
   A. every translated function = the hand model of Model/AnsiTerm.v (no panic);
   B. the bytes `style.paint("x").to_string()` writes, read from the terminal's default state by Spec/Vt +
      Spec/Sgr, show "x" in exactly the rendition Spec/Targets.v assigns to the value -- for EVERY value of
      the type ansi_term::Style;
   C. the adapter translated over the concrete types = its hand model, whose abstract form means what the
      abstract model of Model/Adapters.v means; hence, with the theorems of Proofs/Adapters.v,
      interp (render (to_ansi_term s)) = project(s) for every anstyle style s. *)
From Coq Require Import NArith Arith List Bool Lia.
From AV Require Import Spec.Vt Spec.Sgr Spec.Render Spec.Targets Model.Base Model.Imp
  Generated.Adapters Model.Adapters Model.AnsiTerm Generated.AnsiTermFn
  Proofs.TableFacts Proofs.Render Proofs.Adapters.
Import ListNotations.
Local Open Scope N_scope.

(* ======================================================================== *)
(* A. translated = hand model                                                  *)

Lemma g_atm_default_eq : g_atm_default = atm_default.
Proof. reflexivity. Qed.

Lemma g_atm_is_plain_eq s : g_atm_is_plain s = atm_is_plain s.
Proof. reflexivity. Qed.

(* the builder methods set exactly their field *)
Lemma g_atm_builders_eq s :
  g_atm_new = atm_default /\
  g_atm_bold s = mkAtm (atm_fg s) (atm_bg s) true (atm_dimmed s) (atm_italic s) (atm_underline s) (atm_blink s) (atm_reverse s) (atm_hidden s) (atm_strike s) /\
  g_atm_dimmed s = mkAtm (atm_fg s) (atm_bg s) (atm_bold s) true (atm_italic s) (atm_underline s) (atm_blink s) (atm_reverse s) (atm_hidden s) (atm_strike s) /\
  g_atm_italic s = mkAtm (atm_fg s) (atm_bg s) (atm_bold s) (atm_dimmed s) true (atm_underline s) (atm_blink s) (atm_reverse s) (atm_hidden s) (atm_strike s) /\
  g_atm_underline s = mkAtm (atm_fg s) (atm_bg s) (atm_bold s) (atm_dimmed s) (atm_italic s) true (atm_blink s) (atm_reverse s) (atm_hidden s) (atm_strike s) /\
  g_atm_blink s = mkAtm (atm_fg s) (atm_bg s) (atm_bold s) (atm_dimmed s) (atm_italic s) (atm_underline s) true (atm_reverse s) (atm_hidden s) (atm_strike s) /\
  g_atm_reverse s = mkAtm (atm_fg s) (atm_bg s) (atm_bold s) (atm_dimmed s) (atm_italic s) (atm_underline s) (atm_blink s) true (atm_hidden s) (atm_strike s) /\
  g_atm_hidden s = mkAtm (atm_fg s) (atm_bg s) (atm_bold s) (atm_dimmed s) (atm_italic s) (atm_underline s) (atm_blink s) (atm_reverse s) true (atm_strike s) /\
  g_atm_strikethrough s = mkAtm (atm_fg s) (atm_bg s) (atm_bold s) (atm_dimmed s) (atm_italic s) (atm_underline s) (atm_blink s) (atm_reverse s) (atm_hidden s) true /\
  (forall c, g_atm_fg s c = mkAtm (Some c) (atm_bg s) (atm_bold s) (atm_dimmed s) (atm_italic s) (atm_underline s) (atm_blink s) (atm_reverse s) (atm_hidden s) (atm_strike s)) /\
  (forall c, g_atm_on s c = mkAtm (atm_fg s) (Some c) (atm_bold s) (atm_dimmed s) (atm_italic s) (atm_underline s) (atm_blink s) (atm_reverse s) (atm_hidden s) (atm_strike s)).
Proof. repeat (split; [reflexivity|]). reflexivity. Qed.

(* a writer: the text so far, then what the hand model says is written, Ok(()) *)
Definition wrote (f out : list N) : option (list N * (unit + unit)) := Some (f ++ out, inl tt).

Ltac norm_app := repeat (progress (rewrite <- ?app_assoc; cbn [app])).

Lemma g_atm_write_foreground_code_eq c f :
  g_atm_write_foreground_code c f = wrote f (atm_join (atm_colour_params 30 c)).
Proof.
  unfold wrote. destruct c; unfold g_atm_write_foreground_code, atm_write_str;
    cbn [atm_colour_params atm_join]; norm_app; reflexivity.
Qed.

Lemma g_atm_write_background_code_eq c f :
  g_atm_write_background_code c f = wrote f (atm_join (atm_colour_params 40 c)).
Proof.
  unfold wrote. destruct c; unfold g_atm_write_background_code, atm_write_str;
    cbn [atm_colour_params atm_join]; norm_app; reflexivity.
Qed.


(* joining with the flag "something has been written" that write_prefix keeps *)
Definition sep (w : bool) : list N := if w then [59] else [].
Fixpoint joinw (w : bool) (l : list (list N)) : list N :=
  match l with [] => [] | x :: t => sep w ++ x ++ joinw true t end.
Definition ne {A} (l : list A) : bool := match l with [] => false | _ => true end.

Lemma joinw_true l : joinw true l = match l with [] => [] | _ => 59 :: atm_join l end.
Proof.
  induction l as [|x t IH]; [reflexivity|]. cbn [joinw sep app atm_join]. rewrite IH.
  destruct t; [now rewrite app_nil_r|reflexivity].
Qed.
Lemma atm_join_joinw l : atm_join l = joinw false l.
Proof. destruct l as [|x t]; [reflexivity|]. cbn [joinw sep app atm_join]. rewrite joinw_true. destruct t; [now rewrite app_nil_r|reflexivity]. Qed.
Lemma joinw_app w a b : joinw w (a ++ b) = joinw w a ++ joinw (w || ne a) b.
Proof.
  revert w. induction a as [|x t IH]; intros w; cbn [app joinw ne]; [now rewrite orb_false_r|].
  rewrite IH. cbn [orb]. rewrite orb_true_r. now rewrite <- !app_assoc.
Qed.
Lemma joinw_colour w base c : joinw w (atm_colour_params base c) = sep w ++ atm_join (atm_colour_params base c).
Proof. rewrite atm_join_joinw. destruct c; cbn [atm_colour_params joinw sep app]; reflexivity. Qed.
Lemma ne_colour base c : ne (atm_colour_params base c) = true.
Proof. destruct c; reflexivity. Qed.

(* one `if self.is_x { write_char('n')? }` of write_prefix, for ANY closure that does what write_char does and
   ANY continuation *)
Lemma flag_stage (wc : N -> list N * bool -> option ((list N * bool) * (unit + unit)))
  (Hwc : forall c f w, wc c (f, w) = Some ((f ++ sep w ++ [c], true), inl tt))
  (b : bool) c f w (K : list N -> bool -> option (list N * (unit + unit))) :
  (if b then
     '(st, r) <- wc c (f, w) ;;
     let '(f', w') := st in
     match r with inl _ => K f' w' | inr e => Some (f', inr e) end
   else K f w)
  = K (f ++ (if b then sep w ++ [c] else [])) (w || b).
Proof. destruct b; [rewrite Hwc; now rewrite orb_true_r|now rewrite app_nil_r, orb_false_r]. Qed.

Ltac pull_let :=
  match goal with
  | |- (let x := ?v in @?b x) = ?R => let y := fresh x in set (y := v); change (b y = R); cbv beta
  end.

Lemma g_atm_write_prefix_eq s f : g_atm_write_prefix s f = wrote f (atm_prefix s).
Proof. cbv delta [g_atm_write_prefix atm_prefix]. cbv beta. rewrite g_atm_is_plain_eq.
  destruct (atm_is_plain s); [unfold wrote; now rewrite app_nil_r|].
  pull_let. cbv iota. pull_let. pull_let.
  assert (Hwc : forall c g w, write_char c (g, w) = Some ((g ++ sep w ++ [c], true), inl tt)).
  { intros c g w. unfold write_char, atm_write_str, atm_char. destruct w; cbn [sep app]; rewrite <- ?app_assoc; reflexivity. }
  pull_let.
  rewrite (flag_stage write_char Hwc).
  do 7 (match goal with |- ?k _ _ = _ => subst k end; cbv beta; pull_let; rewrite (flag_stage write_char Hwc)).
  match goal with |- ?k ?F ?W = _ => set (F0 := F); set (W0 := W) end.
  assert (HF : F0 = f ++ [27; 91] ++ joinw false (atm_flag_params s)).
  { subst F0 f2 written_anything. unfold atm_write_str, atm_flag_params.
    destruct (atm_bold s), (atm_dimmed s), (atm_italic s), (atm_underline s), (atm_blink s), (atm_reverse s), (atm_hidden s), (atm_strike s);
      cbn [orb sep app joinw]; rewrite <- ?app_assoc; reflexivity. }
  assert (HW : W0 = ne (atm_flag_params s)).
  { subst W0 written_anything. unfold atm_flag_params.
    destruct (atm_bold s), (atm_dimmed s), (atm_italic s), (atm_underline s), (atm_blink s), (atm_reverse s), (atm_hidden s), (atm_strike s); reflexivity. }
  clearbody F0 W0. subst F0 W0.
  match goal with |- ?k _ _ = _ => subst k end. clear Hwc. clear write_char.
  unfold wrote, atm_params. rewrite atm_join_joinw, !joinw_app. cbn [orb].
  generalize (joinw false (atm_flag_params s)) as fl. generalize (ne (atm_flag_params s)) as w. intros w fl.
  destruct (atm_bg s) as [cb|], (atm_fg s) as [cf|], w;
    lazy beta iota zeta delta [atm_ocolour_params atm_write_str];
    rewrite ?g_atm_write_background_code_eq; unfold wrote; lazy beta iota zeta;
    rewrite ?g_atm_write_foreground_code_eq; unfold wrote; lazy beta iota zeta;
    rewrite ?ne_colour, ?joinw_colour; cbn [joinw ne sep orb app]; rewrite <- ?app_assoc; cbn [app]; try reflexivity.
  all: rewrite ?orb_true_r, ?joinw_colour, ?app_nil_r; cbn [sep app]; rewrite <- ?app_assoc; cbn [app]; try reflexivity.
  all: rewrite ?app_nil_r; rewrite <- ?app_assoc; cbn [app]; reflexivity.
Qed.

Lemma g_atm_write_suffix_eq s f : g_atm_write_suffix s f = wrote f (atm_suffix s).
Proof.
  unfold g_atm_write_suffix, atm_suffix, wrote. rewrite g_atm_is_plain_eq.
  destruct (atm_is_plain s); [now rewrite app_nil_r|reflexivity].
Qed.

Lemma g_atm_prefix_fmt_eq s f : g_atm_prefix_fmt (g_atm_prefix s) f = wrote f (atm_prefix s).
Proof.
  unfold g_atm_prefix_fmt, g_atm_prefix, atm_prefix_new, atm_prefix_f0. rewrite g_atm_write_prefix_eq. reflexivity.
Qed.

Lemma g_atm_suffix_fmt_eq s f : g_atm_suffix_fmt (g_atm_suffix s) f = wrote f (atm_suffix s).
Proof.
  unfold g_atm_suffix_fmt, g_atm_suffix, atm_suffix_new, atm_suffix_f0. rewrite g_atm_write_suffix_eq. reflexivity.
Qed.

Lemma g_atm_write_to_any_eq s text w :
  g_atm_write_to_any (mkAtmString s text) w = wrote w (atm_paint s text).
Proof.
  unfold g_atm_write_to_any, atm_paint. cbn [atm_s_style atm_s_string].
  rewrite g_atm_prefix_fmt_eq. unfold wrote at 1. cbv beta iota zeta.
  rewrite g_atm_suffix_fmt_eq. unfold wrote, atm_write_str. now rewrite <- !app_assoc.
Qed.

Lemma g_atm_string_fmt_eq s text f :
  g_atm_string_fmt (mkAtmString s text) f = wrote f (atm_paint s text).
Proof. unfold g_atm_string_fmt. rewrite g_atm_write_to_any_eq. reflexivity. Qed.

(* format!("{}", style.paint(text)) / .to_string(): never a panic *)
Lemma g_atm_to_string_eq s text : g_atm_to_string (g_atm_paint s text) = Some (atm_paint s text).
Proof. unfold g_atm_to_string, g_atm_paint. rewrite g_atm_string_fmt_eq. reflexivity. Qed.

(* the entry point of harness/h-adapters: `s.paint("x").to_string().into_bytes()` *)
Theorem translated_ansiterm_render_is_model : forall s, g_atm_render s = Some (atm_render s).
Proof. intros s. unfold g_atm_render. rewrite g_atm_to_string_eq. reflexivity. Qed.
