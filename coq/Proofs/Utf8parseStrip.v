(* Proofs/Utf8parseStrip.v -- anstream's glue around the decoder (Generated/StripFn.v) over the TRANSLATED
   decoder (Generated/Utf8parseFn.v).
   tools/gen_fn_strip.py translates `self.utf8_parser.advance(&mut receiver, byte)` as "run the hand model
   u8_parser_advance, then apply the translated Receiver method its answer names".  Here: that is the same as
   running the TRANSLATED `utf8parse::Parser::advance` on a receiver that records its calls and delivering the
   calls, in order, to the translated methods of anstream's VtUtf8Receiver.  (Kept apart from
   Proofs/Utf8parseGen.v so that C02 / C20 do not depend on Generated/StripFn.v.) *)
From Coq Require Import NArith List Bool.
From AV Require Import Generated.Table Model.Base Model.Imp Model.Utf8parse Model.Parser Model.Strip
  Generated.Utf8parseFn Generated.StripFn Proofs.Utf8parseGen.
Import ListNotations.
Local Open Scope N_scope.

Theorem strip_utf8_add_over_translated_decoder : forall u b,
  ('(u', evs) <- g_u8_parser_advance (u8p_inner u) [] b ;;
   Some (set_u8p_inner u u',
         u8_deliver g_receiver_codepoint g_receiver_invalid_sequence evs false))
  = Some (g_utf8_add u b).
Proof.
  intros u b. rewrite translated_advance_is_model, u8_deliver_events.
  unfold g_utf8_add. destruct (u8_parser_advance (u8p_inner u) b) as [u' o].
  reflexivity.
Qed.
