(* Proofs/Stream.v -- C06: the model of StripStream's write family refines the
   byte-at-a-time strip machine [mrun] over scripted inner writers.
     write      : Ok n  => exactly the kept bytes of the first n input bytes were
                           delivered and the state is the machine state after them;
                  Err k => the first inner write failed with k, nothing changed;
     protocol   : resubmit-the-tail / retry-on-Interrupted delivers a prefix of the
                  kept bytes, all of them on success, and the fuel suffices;
     write_all, write_fmt, write_vectored, error kinds. *)
From Coq Require Import NArith Arith List Bool Lia.
From AV Require Import Generated.Table Spec.Io Spec.Strip Model.Base Model.Utf8parse Model.Parser Model.Strip
  Model.Stream Proofs.TableFacts Proofs.StripMachine Proofs.StripSim Proofs.StreamIo.
Import ListNotations.
Local Open Scope N_scope.

(* ---- the machine over stream states ---------------------------------------- *)

Definition SInv (s : sbytes) : Prop := Inv (sb_state s) (sb_u s).

Definition srun (s : sbytes) (bs : list N) := mrun (sb_state s) (sb_u s) bs.

(* the bytes the machine keeps / the state it is left in *)
Definition kept (s : sbytes) (bs : list N) : list N :=
  match srun s bs with Some (_, _, o) => o | None => [] end.

Definition after (s : sbytes) (bs : list N) : sbytes :=
  match srun s bs with Some (st, u, _) => mkSB st u | None => s end.

Lemma SInv_new : SInv sb_new.
Proof. exact Inv_init. Qed.

Lemma mstep_total st u b : b < 256 -> exists x, mstep st u b = Some x.
Proof.
  intros Hb. unfold mstep. destruct (state_eqb st Utf8 && negb (is_ascii b)).
  - destruct (utf8_add u b). eauto.
  - destruct (norm st u) as [st0 u0]. destruct (state_change_total st0 b Hb) as (ns & a & ->).
    destruct (is_printable_bytes a b); [destruct (state_eqb ns Utf8)|]; eauto.
Qed.

Lemma mrun_total : forall bs st u, bytes_ok bs -> exists x, mrun st u bs = Some x.
Proof.
  induction bs as [|b bs IH]; intros st u Hok; cbn [mrun]; [eauto|].
  inversion Hok as [|? ? Hb Hok']; subst.
  destruct (mstep_total st u b Hb) as [[[s1 u1] k] ->].
  destruct (IH s1 u1 Hok') as [[[s2 u2] o] ->]. eauto.
Qed.

Lemma mrun_out_length : forall bs st u st' u' o,
  mrun st u bs = Some (st', u', o) -> (length o <= length bs)%nat.
Proof.
  induction bs as [|b bs IH]; intros st u st' u' o H; cbn [mrun] in H.
  - inversion H; subst. cbn. lia.
  - destruct (mstep st u b) as [[[s1 u1] k]|]; [|discriminate].
    destruct (mrun s1 u1 bs) as [[[s2 u2] o2]|] eqn:Hr; [|discriminate].
    inversion H; subst. pose proof (IH _ _ _ _ _ Hr). destruct k; cbn [length]; lia.
Qed.

(* if a run keeps everything, so does every prefix of it *)
Lemma mrun_all_kept_prefix : forall a b st u st2 u2,
  mrun st u (a ++ b) = Some (st2, u2, a ++ b) ->
  exists st1 u1, mrun st u a = Some (st1, u1, a).
Proof.
  induction a as [|x a IH]; intros b st u st2 u2 H.
  - cbn. eauto.
  - cbn [app mrun] in H. cbn [mrun].
    destruct (mstep st u x) as [[[s1 u1] k]|]; [|discriminate].
    destruct (mrun s1 u1 (a ++ b)) as [[[s3 u3] o3]|] eqn:Hr; [|discriminate].
    destruct k.
    + inversion H; subst. destruct (IH _ _ _ _ _ Hr) as (sa & ua & ->). eauto.
    + exfalso. inversion H; subst. apply mrun_out_length in Hr. cbn [length] in Hr. lia.
Qed.

Lemma bytes_ok_app a b : bytes_ok (a ++ b) <-> bytes_ok a /\ bytes_ok b.
Proof. unfold bytes_ok. apply Forall_app. Qed.

Lemma bytes_ok_firstn k bs : bytes_ok bs -> bytes_ok (firstn k bs).
Proof. intros H. rewrite <- (firstn_skipn k bs) in H. apply bytes_ok_app in H. tauto. Qed.

Lemma bytes_ok_skipn k bs : bytes_ok bs -> bytes_ok (skipn k bs).
Proof. intros H. rewrite <- (firstn_skipn k bs) in H. apply bytes_ok_app in H. tauto. Qed.

Lemma srun_eq s bs :
  bytes_ok bs -> srun s bs = Some (sb_state (after s bs), sb_u (after s bs), kept s bs).
Proof.
  intros Hok. unfold after, kept. destruct (mrun_total bs (sb_state s) (sb_u s) Hok) as [[[st u] o] H].
  unfold srun in *. rewrite H. reflexivity.
Qed.

Lemma srun_kept_after s bs st u o :
  srun s bs = Some (st, u, o) -> kept s bs = o /\ after s bs = mkSB st u.
Proof. intros H. unfold kept, after. rewrite H. auto. Qed.

Lemma kept_nil s : kept s [] = [].
Proof. reflexivity. Qed.

Lemma after_nil s : after s [] = s.
Proof. destruct s. reflexivity. Qed.

Lemma after_inv s bs : bytes_ok bs -> SInv s -> SInv (after s bs).
Proof.
  intros Hok HI. pose proof (srun_eq s bs Hok) as H. unfold srun in H.
  unfold SInv. eapply mrun_inv; eauto.
Qed.

Lemma srun_app s a b :
  bytes_ok (a ++ b) ->
  kept s (a ++ b) = kept s a ++ kept (after s a) b /\ after s (a ++ b) = after (after s a) b.
Proof.
  intros Hok. apply bytes_ok_app in Hok as [Ha Hb].
  pose proof (srun_eq s a Ha) as H1. pose proof (srun_eq (after s a) b Hb) as H2.
  unfold srun in *. pose proof (mrun_app a b _ _ _ _ _ H1) as H. rewrite H2 in H.
  apply (srun_kept_after s (a ++ b)) in H. destruct H as [Hk Haf]. split; [exact Hk|].
  rewrite Haf. destruct (after (after s a) b). reflexivity.
Qed.

Lemma kept_app s a b : bytes_ok (a ++ b) -> kept s (a ++ b) = kept s a ++ kept (after s a) b.
Proof. intros H. apply (srun_app s a b H). Qed.

Lemma after_app s a b : bytes_ok (a ++ b) -> after s (a ++ b) = after (after s a) b.
Proof. intros H. apply (srun_app s a b H). Qed.

(* from the fresh state the machine keeps exactly what the specification keeps *)
Lemma kept_new_is_spec bs : bytes_ok bs -> kept sb_new bs = spec_strip bs.
Proof.
  intros Hok. pose proof (srun_eq sb_new bs Hok) as H. unfold srun in H. cbn [sb_new sb_state sb_u] in H.
  destruct (sim_run _ _ _ _ _ _ _ Hok Rs_init H) as (s' & Hs & _).
  unfold spec_strip. rewrite Hs. reflexivity.
Qed.

(* ---- agrees ------------------------------------------------------------------ *)

Lemma agrees_refl sm um r : agrees sm um sm um r.
Proof. left. auto. Qed.

Lemma agrees_inv sm um st u r : Inv sm um -> agrees sm um st u r -> Inv st u.
Proof.
  intros HI [[-> ->]|(b & r' & _ & _ & _ & -> & ->)]; [exact HI|]. constructor. intros _. reflexivity.
Qed.

Lemma agrees_prefix sm um st u x y : x <> [] -> agrees sm um st u (x ++ y) -> agrees sm um st u x.
Proof.
  intros Hx [H|(b & r' & E & Ha & Hs & Hst & Hu)]; [left; exact H|].
  destruct x as [|x0 x]; [contradiction|]. cbn [app] in E. inversion E; subst.
  right. exists b, x. auto.
Qed.

(* the outputs over any prefix of the remaining input coincide *)
Lemma agrees_kept_prefix sm um st u x y sx ux ox :
  agrees sm um st u (x ++ y) -> mrun st u x = Some (sx, ux, ox) ->
  exists sx' ux', mrun sm um x = Some (sx', ux', ox).
Proof.
  intros Hag H. destruct x as [|x0 x].
  - cbn in H. inversion H; subst. cbn. eauto.
  - assert (Hne : x0 :: x <> []) by discriminate.
    rewrite <- (agrees_mrun _ _ _ _ _ (agrees_prefix _ _ _ _ _ _ Hne Hag)). eauto.
Qed.

(* ---- one call of next_bytes -------------------------------------------------- *)

Lemma next_bytes_total bs off st u :
  bytes_ok bs -> exists x, next_bytes bs off st u = Some x.
Proof.
  intros Hok. unfold next_bytes.
  destruct (nb_skip_total bs st u Hok) as [[[bs1 st1] u1] Hsk]. rewrite Hsk.
  destruct (nb_skip_suffix _ _ _ _ _ _ Hsk) as [pre Hpre].
  assert (Hok1 : bytes_ok bs1) by (subst bs; apply bytes_ok_app in Hok; tauto).
  destruct (nb_take_total bs1 st1 u1 Hok1) as [[[[t bs2] st2] u2] Ht]. rewrite Ht.
  destruct t; eauto.
Qed.

Definition next_bytes_post (bs : list N) (off : N) (st : state) (u : u8parser)
  (p : option piece) (bs' : list N) (off' : N) (st' : state) (u' : u8parser) : Prop :=
  match p with
  | None => bs' = [] /\ mrun st u bs = Some (st', u', [])
  | Some pc =>
      exists pre sm um sm2 um2,
        bs = pre ++ p_bytes pc ++ bs' /\
        p_off pc = off + N.of_nat (length pre) /\
        off' = p_off pc + N.of_nat (length (p_bytes pc)) /\
        p_bytes pc <> [] /\
        mrun st u pre = Some (sm, um, []) /\
        mrun sm um (p_bytes pc) = Some (sm2, um2, p_bytes pc) /\
        agrees sm2 um2 st' u' bs' /\ Inv sm2 um2
  end.

Lemma next_bytes_spec bs off st u p bs' off' st' u' :
  bytes_ok bs -> Inv st u ->
  next_bytes bs off st u = Some (p, bs', off', st', u') ->
  next_bytes_post bs off st u p bs' off' st' u'.
Proof.
  intros Hok HI H. unfold next_bytes in H.
  destruct (nb_skip bs st u) as [[[bs1 st1] u1]|] eqn:Hsk; [|discriminate].
  destruct (nb_skip_spec _ _ _ _ _ _ Hok HI Hsk) as (pre & sm & um & Hbs & Hrun & Hcase).
  assert (Hok1 : bytes_ok bs1) by (subst bs; apply bytes_ok_app in Hok; tauto).
  assert (Hokpre : bytes_ok pre) by (subst bs; apply bytes_ok_app in Hok; tauto).
  assert (HIm : Inv sm um) by (eapply mrun_inv; eauto).
  destruct Hcase as [(-> & -> & ->)|(b & r & sx & ux & -> & Hm & Htk)].
  - cbn [nb_take] in H. inversion H; subst. cbn [next_bytes_post]. split; [reflexivity|].
    rewrite app_nil_r. exact Hrun.
  - rewrite Htk in H.
    destruct (nb_take (b :: r) sm um) as [[[[t bs2] st2] u2]|] eqn:Ht; [|discriminate].
    pose proof (nb_take_nonempty _ _ _ _ _ _ _ _ _ _ Hm Ht) as Hne.
    destruct (nb_take_spec _ _ _ _ _ _ _ Hok1 HIm Ht) as (Hsplit & sm2 & um2 & Hrun2 & Hag & _).
    destruct t as [|t0 t]; [contradiction|].
    inversion H; subst p bs' off' st' u'. clear H. cbn [next_bytes_post p_bytes p_off].
    assert (Hokt : bytes_ok (t0 :: t)) by (rewrite Hsplit in Hok1; apply bytes_ok_app in Hok1; tauto).
    exists pre, sm, um, sm2, um2.
    assert (Hl : (length bs - length (b :: r) = length pre)%nat).
    { rewrite Hbs, app_length. lia. }
    cbn [length] in Hl |- *. rewrite Hl. split; [rewrite Hbs, Hsplit; reflexivity|].
    split; [reflexivity|]. split; [reflexivity|]. split; [discriminate|].
    split; [exact Hrun|]. split; [exact Hrun2|]. split; [exact Hag|].
    eapply mrun_inv; eauto.
Qed.

(* ---- ss_replay ---------------------------------------------------------------- *)

Lemma ss_replay_spec s x : bytes_ok x -> SInv s -> ss_replay s x = Some (after s x).
Proof.
  intros Hok HI. unfold ss_replay, strip_next_bytes.
  destruct (bytes_iter_total (S (length x)) x 0 (sb_state s) (sb_u s) (Nat.lt_succ_diag_r _) Hok)
    as [[[[ps bs'] st'] u'] Hit].
  rewrite Hit.
  destruct (bytes_iter_spec _ _ _ _ _ _ _ _ _ (Nat.lt_succ_diag_r _) Hok HI Hit) as [_ Hrun].
  apply (srun_kept_after s x) in Hrun. destruct Hrun as [_ ->]. reflexivity.
Qed.

(* ---- fn write ------------------------------------------------------------------ *)

(* what one call of StripStream::write guarantees, relative to the machine *)
Definition write_post (s : sbytes) (buf : list N) (w : writer) (s' : sbytes) (w' : writer) (r : sres) : Prop :=
  match r with
  | ROkN n =>
      n <= N.of_nat (length buf) /\
      w_received w' = w_received w ++ kept s (firstn (N.to_nat n) buf) /\
      s' = after s (firstn (N.to_nat n) buf) /\
      (length (w_script w') <= length (w_script w))%nat /\
      exists cs, w_calls w' = w_calls w ++ cs /\
                 (n = N.of_nat (length buf) -> Forall full_accept cs)
  | RErr k =>
      s' = s /\ exists piece, piece <> [] /\ w_write w piece = (w', inr k)
  | ROk => False
  end.

Lemma ss_write_loop_spec : forall fuel buf s0 w0 consumed bs off st u delivered w sm um o cs,
  bytes_ok buf -> SInv s0 ->
  buf = consumed ++ bs ->
  off = N.of_nat (length consumed) ->
  (length bs < fuel)%nat ->
  srun s0 consumed = Some (sm, um, o) ->
  agrees sm um st u bs ->
  w_received w = w_received w0 ++ o ->
  w_calls w = w_calls w0 ++ cs -> Forall full_accept cs ->
  (length (w_script w) <= length (w_script w0))%nat ->
  (delivered = false -> w = w0) ->
  exists s' w' r, ss_write_loop fuel buf bs off s0 st u delivered w = Some (s', w', r) /\
                  write_post s0 buf w0 s' w' r.
Proof.
  induction fuel as [|fuel IH];
    intros buf s0 w0 consumed bs off st u delivered w sm um o cs
           Hok HI0 Hbuf Hoff Hlen Hrun Hag Hrec Hcalls Hfa Hscr Hdel; [lia|].
  unfold srun in Hrun.
  assert (Hokc : bytes_ok consumed /\ bytes_ok bs) by (apply bytes_ok_app; rewrite <- Hbuf; exact Hok).
  destruct Hokc as [Hokc Hokbs].
  assert (HIm : Inv sm um) by (eapply mrun_inv; [exact Hokc|exact HI0|exact Hrun]).
  assert (HI : Inv st u) by (eapply agrees_inv; eauto).
  cbn [ss_write_loop].
  destruct (next_bytes_total bs off st u Hokbs) as [[[[[p bs'] off'] st'] u'] Hnb]. rewrite Hnb.
  pose proof (next_bytes_spec _ _ _ _ _ _ _ _ _ Hokbs HI Hnb) as Hp.
  destruct p as [pc|]; cbn [next_bytes_post] in Hp.
  2: { (* the iterator is exhausted: everything was delivered *)
    destruct Hp as [-> Hend].
    do 3 eexists. split; [reflexivity|]. cbn [write_post].
    rewrite Nat2N.id, firstn_all.
    rewrite (agrees_mrun _ _ _ _ _ Hag) in Hend.
    pose proof (mrun_app consumed bs _ _ _ _ _ Hrun) as Happ. rewrite Hend, <- Hbuf in Happ.
    apply (srun_kept_after s0 buf) in Happ. destruct Happ as [Hk Ha].
    split; [lia|]. split; [rewrite Hk, app_nil_r; exact Hrec|]. split; [symmetry; exact Ha|].
    split; [exact Hscr|]. exists cs. split; [exact Hcalls|]. intros _. exact Hfa. }
  destruct Hp as (pre & sm1 & um1 & sm2 & um2 & Hbs & Hpoff & Hoff' & Hne & Hrun1 & Hrun2 & Hag2 & HI2).
  remember (p_bytes pc) as t eqn:Et.
  assert (Htl : (0 < length t)%nat) by (destruct t; [contradiction|cbn [length]; lia]).
  assert (Hbuf' : buf = consumed ++ pre ++ t ++ bs') by (rewrite Hbuf, Hbs; reflexivity).
  assert (Hlenbuf : N.of_nat (length buf)
                    = N.of_nat (length consumed) + N.of_nat (length pre) + N.of_nat (length t) + N.of_nat (length bs')).
  { rewrite Hbuf', !app_length, !Nat2N.inj_add. lia. }
  assert (Hfirst : forall n, n <= N.of_nat (length t) ->
            firstn (N.to_nat (p_off pc + n)) buf = consumed ++ pre ++ firstn (N.to_nat n) t).
  { intros n Hn. rewrite Hpoff, Hoff, !N2Nat.inj_add, !Nat2N.id, Hbuf'.
    rewrite <- Nat.add_assoc, firstn_app_2. f_equal. rewrite firstn_app_2. f_equal.
    apply firstn_le_app. lia. }
  assert (Hkept : forall k, kept s0 (consumed ++ pre ++ firstn k t) = o ++ firstn k t).
  { intros k.
    destruct (mrun_all_kept_prefix (firstn k t) (skipn k t) sm1 um1 sm2 um2) as (sa & ua & Hpa).
    { rewrite firstn_skipn. exact Hrun2. }
    pose proof (mrun_app pre (firstn k t) _ _ _ _ _ Hrun1) as Hx. rewrite Hpa in Hx. cbn [app] in Hx.
    assert (Hag' : agrees sm um st u ((pre ++ firstn k t) ++ skipn k t ++ bs')).
    { replace ((pre ++ firstn k t) ++ skipn k t ++ bs') with bs; [exact Hag|].
      rewrite Hbs, <- app_assoc. f_equal. rewrite app_assoc, firstn_skipn. reflexivity. }
    destruct (agrees_kept_prefix _ _ _ _ _ _ _ _ _ Hag' Hx) as (sb & ub & Hy).
    pose proof (mrun_app consumed (pre ++ firstn k t) _ _ _ _ _ Hrun) as Hz. rewrite Hy in Hz.
    apply (srun_kept_after s0) in Hz. tauto. }
  destruct (w_write w t) as [w1 r] eqn:Hw.
  destruct r as [written|e].
  - destruct (w_write_inl _ _ _ _ Hw) as (Hwr & Hrec1 & Hcalls1 & Hscr1 & _).
    destruct (N.of_nat (length t) =? written) eqn:Eq; cbn [negb].
    + (* the whole piece was accepted: next piece *)
      apply N.eqb_eq in Eq. subst written.
      apply (IH buf s0 w0 (consumed ++ pre ++ t) bs' off' st' u' true w1 sm2 um2 (o ++ t)
                (cs ++ [CWrite t (inl (N.of_nat (length t)))])).
      * exact Hok.
      * exact HI0.
      * rewrite Hbuf', <- !app_assoc. reflexivity.
      * rewrite Hoff', Hpoff, Hoff, !app_length, !Nat2N.inj_add. lia.
      * rewrite Hbs, !app_length in Hlen. lia.
      * unfold srun.
        pose proof (mrun_app pre t _ _ _ _ _ Hrun1) as Hx. rewrite Hrun2 in Hx. cbn [app] in Hx.
        assert (Hne' : pre ++ t <> []) by (destruct pre; [cbn; exact Hne|discriminate]).
        assert (Hag' : agrees sm um st u ((pre ++ t) ++ bs')).
        { rewrite <- app_assoc, <- Hbs. exact Hag. }
        rewrite (agrees_mrun _ _ _ _ _ (agrees_prefix _ _ _ _ _ _ Hne' Hag')) in Hx.
        pose proof (mrun_app consumed (pre ++ t) _ _ _ _ _ Hrun) as Hz. rewrite Hx in Hz. exact Hz.
      * exact Hag2.
      * rewrite Hrec1, Hrec, Nat2N.id, firstn_all, app_assoc. reflexivity.
      * rewrite Hcalls1, Hcalls, app_assoc. reflexivity.
      * apply Forall_app. split; [exact Hfa|]. constructor; [exists t; reflexivity|constructor].
      * lia.
      * intros; discriminate.
    + (* short write: rewind, replay the consumed prefix, report it *)
      apply N.eqb_neq in Eq.
      assert (Hlt : written < N.of_nat (length t)) by lia.
      destruct (N.of_nat (length t) <? written) eqn:El; [apply N.ltb_lt in El; lia|].
      rewrite (ss_replay_spec s0 _ (bytes_ok_firstn _ _ Hok) HI0).
      do 3 eexists. split; [reflexivity|]. cbn [write_post].
      rewrite (Hfirst written Hwr), Hkept.
      split; [lia|]. split; [rewrite Hrec1, Hrec, app_assoc; reflexivity|]. split; [reflexivity|].
      split; [lia|]. exists (cs ++ [CWrite t (inl written)]).
      split; [rewrite Hcalls1, Hcalls, app_assoc; reflexivity|].
      intros E. exfalso. lia.
  - destruct (w_write_inr _ _ _ _ Hw) as (rest & Hs & Hs1 & Hrec1 & Hcalls1).
    destruct delivered.
    + (* an error after something was delivered: report the consumed prefix *)
      assert (H0 : 0 <= N.of_nat (length t)) by lia.
      pose proof (Hfirst 0 H0) as Hfirst0. pose proof (Hkept 0%nat) as Hkept0.
      rewrite N.add_0_r in Hfirst0. cbn [N.to_nat firstn] in Hfirst0, Hkept0.
      rewrite (ss_replay_spec s0 _ (bytes_ok_firstn _ _ Hok) HI0).
      do 3 eexists. split; [reflexivity|]. cbn [write_post].
      rewrite Hfirst0, Hkept0.
      split; [lia|]. split; [rewrite Hrec1, Hrec, app_nil_r; reflexivity|]. split; [reflexivity|].
      split; [rewrite Hs1; rewrite Hs in Hscr; cbn [length] in Hscr; lia|].
      exists (cs ++ [CWrite t (inr e)]).
      split; [rewrite Hcalls1, Hcalls, app_assoc; reflexivity|].
      intros E. exfalso. lia.
    + (* an error on the first inner write: nothing happened, surface it *)
      rewrite (Hdel eq_refl) in Hw.
      do 3 eexists. split; [reflexivity|]. cbn [write_post]. split; [reflexivity|].
      exists t. split; [exact Hne|exact Hw].
Qed.

Theorem ss_write_spec s buf w :
  bytes_ok buf -> SInv s ->
  exists s' w' r, ss_write s buf w = Some (s', w', r) /\ write_post s buf w s' w' r.
Proof.
  intros Hok HI. unfold ss_write.
  apply (ss_write_loop_spec (S (length buf)) buf s w [] buf 0 (sb_state s) (sb_u s) false w
           (sb_state s) (sb_u s) [] []); auto.
  - apply agrees_refl.
  - symmetry. apply app_nil_r.
  - symmetry. apply app_nil_r.
Qed.

(* ---- the standard caller protocol over write ------------------------------------ *)

Definition drive_post (s : sbytes) (buf : list N) (w : writer) (s' : sbytes) (w' : writer) (r : sres) : Prop :=
  exists p q, kept s buf = p ++ q /\ w_received w' = w_received w ++ p /\
              (r = ROk -> q = [] /\ s' = after s buf) /\ (forall n, r <> ROkN n).

Lemma ss_drive_post : forall fuel s w buf s' w' r,
  bytes_ok buf -> SInv s ->
  ss_drive fuel s w buf = Some (s', w', r) -> drive_post s buf w s' w' r.
Proof.
  induction fuel as [|fuel IH]; intros s w buf s' w' r Hok HI H.
  - destruct buf; [|discriminate]. cbn in H. inversion H; subst.
    exists [], []. rewrite after_nil, !app_nil_r. repeat split; auto; discriminate.
  - destruct buf as [|b bs].
    { cbn in H. inversion H; subst.
      exists [], []. rewrite after_nil, !app_nil_r. repeat split; auto; discriminate. }
    cbn [ss_drive] in H. set (buf := b :: bs) in *.
    destruct (ss_write_spec s buf w Hok HI) as (s1 & w1 & r1 & Hwr & Hpost). rewrite Hwr in H.
    destruct r1 as [n| |k]; cbn [write_post] in Hpost.
    + destruct Hpost as (Hn & Hrec & Hs1 & _).
      destruct n as [|pn].
      * inversion H; subst s' w' r. cbn [N.to_nat firstn] in Hrec. rewrite kept_nil in Hrec.
        exists [], (kept s buf). repeat split; auto; discriminate.
      * set (k := N.to_nat (N.pos pn)) in *.
        assert (Hsplit : buf = firstn k buf ++ skipn k buf) by (symmetry; apply firstn_skipn).
        assert (Hok' : bytes_ok (firstn k buf ++ skipn k buf)) by (rewrite <- Hsplit; exact Hok).
        assert (HI1 : SInv s1) by (rewrite Hs1; apply after_inv; [apply bytes_ok_firstn; exact Hok|exact HI]).
        destruct (IH _ _ _ _ _ _ (bytes_ok_skipn k buf Hok) HI1 H) as (p1 & q1 & Hk1 & Hrec1 & Hok1 & Hnn).
        exists (kept s (firstn k buf) ++ p1), q1.
        split. { rewrite Hsplit at 1. rewrite (kept_app s _ _ Hok'), <- Hs1, Hk1, app_assoc. reflexivity. }
        split. { rewrite Hrec1, Hrec, app_assoc. reflexivity. }
        split; [|exact Hnn].
        intros Er. destruct (Hok1 Er) as [-> ->]. split; [reflexivity|].
        rewrite Hsplit at 2. rewrite (after_app s _ _ Hok'), <- Hs1. reflexivity.
    + contradiction.
    + destruct Hpost as (-> & piece & Hne & Hw).
      destruct (w_write_inr _ _ _ _ Hw) as (rest & Hsc & Hsc1 & Hrec & Hcalls).
      assert (Hstop : Some (s, w1, RErr k) = Some (s', w', r) -> drive_post s buf w s' w' r).
      { intros E. inversion E; subst s' w' r. exists [], (kept s buf). rewrite app_nil_r.
        repeat split; auto; discriminate. }
      destruct k; try (apply Hstop; exact H).
      destruct (IH _ _ _ _ _ _ Hok HI H) as (p1 & q1 & Hk1 & Hrec1 & Hok1 & Hnn).
      exists p1, q1. rewrite Hrec1, Hrec. auto.
Qed.

Lemma ss_drive_total : forall fuel s w buf,
  bytes_ok buf -> SInv s -> (length (w_script w) + length buf < fuel)%nat ->
  exists x, ss_drive fuel s w buf = Some x.
Proof.
  induction fuel as [|fuel IH]; intros s w buf Hok HI Hlen; [lia|].
  destruct buf as [|b bs]; [cbn; eauto|].
  cbn [ss_drive]. set (buf := b :: bs) in *.
  assert (Hne : buf <> []) by discriminate.
  destruct (ss_write_spec s buf w Hok HI) as (s1 & w1 & r1 & Hwr & Hpost). rewrite Hwr.
  destruct r1 as [n| |k]; cbn [write_post] in Hpost.
  - destruct Hpost as (Hn & Hrec & Hs1 & Hscr & _).
    destruct n as [|pn]; [eauto|].
    apply IH.
    + apply bytes_ok_skipn; exact Hok.
    + rewrite Hs1. apply after_inv; [apply bytes_ok_firstn; exact Hok|exact HI].
    + assert ((length (skipn (N.to_nat (N.pos pn)) buf) < length buf)%nat)
        by (apply skipn_length_lt; [lia|exact Hne]).
      lia.
  - contradiction.
  - destruct Hpost as (-> & piece & _ & Hw).
    destruct (w_write_inr _ _ _ _ Hw) as (rest & Hsc & Hsc1 & _).
    destruct k; eauto.
    apply IH; [exact Hok|exact HI|]. rewrite Hsc in Hlen. cbn [length] in Hlen. rewrite Hsc1. lia.
Qed.

(* ---- fn write_all ------------------------------------------------------------------ *)

Definition write_all_post (s : sbytes) (buf : list N) (w : writer) (s' : sbytes) (w' : writer) (r : sres) : Prop :=
  (length (w_script w') <= length (w_script w))%nat /\
  exists cs, w_calls w' = w_calls w ++ cs /\
  match r with
  | ROk => w_received w' = w_received w ++ kept s buf /\ s' = after s buf /\ Forall benign cs
  | RErr k => (exists p q, kept s buf = p ++ q /\ w_received w' = w_received w ++ p) /\ err_calls cs k
  | ROkN _ => False
  end.

Lemma piece_run s0 consumed sm um o st u pre t bs' sm1 um1 sm2 um2 :
  mrun (sb_state s0) (sb_u s0) consumed = Some (sm, um, o) ->
  agrees sm um st u (pre ++ t ++ bs') -> t <> [] ->
  mrun st u pre = Some (sm1, um1, []) -> mrun sm1 um1 t = Some (sm2, um2, t) ->
  srun s0 (consumed ++ pre ++ t) = Some (sm2, um2, o ++ t).
Proof.
  intros Hrun Hag Hne Hrun1 Hrun2. unfold srun.
  pose proof (mrun_app pre t _ _ _ _ _ Hrun1) as Hx. rewrite Hrun2 in Hx. cbn [app] in Hx.
  assert (Hne' : pre ++ t <> []) by (destruct pre; [cbn; exact Hne|discriminate]).
  rewrite app_assoc in Hag.
  rewrite (agrees_mrun _ _ _ _ _ (agrees_prefix _ _ _ _ _ _ Hne' Hag)) in Hx.
  pose proof (mrun_app consumed (pre ++ t) _ _ _ _ _ Hrun) as Hz. rewrite Hx in Hz. exact Hz.
Qed.

Lemma ss_write_all_loop_spec : forall fuel buf s0 w0 consumed bs off st u w sm um o cs,
  bytes_ok buf -> SInv s0 ->
  buf = consumed ++ bs ->
  (length bs < fuel)%nat ->
  srun s0 consumed = Some (sm, um, o) ->
  agrees sm um st u bs ->
  w_received w = w_received w0 ++ o ->
  w_calls w = w_calls w0 ++ cs -> Forall benign cs ->
  (length (w_script w) <= length (w_script w0))%nat ->
  exists s' w' r, ss_write_all_loop fuel bs off st u w = Some (s', w', r) /\
                  write_all_post s0 buf w0 s' w' r.
Proof.
  induction fuel as [|fuel IH];
    intros buf s0 w0 consumed bs off st u w sm um o cs
           Hok HI0 Hbuf Hlen Hrun Hag Hrec Hcalls Hben Hscr; [lia|].
  unfold srun in Hrun.
  assert (Hokc : bytes_ok consumed /\ bytes_ok bs) by (apply bytes_ok_app; rewrite <- Hbuf; exact Hok).
  destruct Hokc as [Hokc Hokbs].
  assert (HIm : Inv sm um) by (eapply mrun_inv; [exact Hokc|exact HI0|exact Hrun]).
  assert (HI : Inv st u) by (eapply agrees_inv; eauto).
  cbn [ss_write_all_loop].
  destruct (next_bytes_total bs off st u Hokbs) as [[[[[p bs'] off'] st'] u'] Hnb]. rewrite Hnb.
  pose proof (next_bytes_spec _ _ _ _ _ _ _ _ _ Hokbs HI Hnb) as Hp.
  destruct p as [pc|]; cbn [next_bytes_post] in Hp.
  2: { destruct Hp as [-> Hend].
    do 3 eexists. split; [reflexivity|]. split; [exact Hscr|]. exists cs. split; [exact Hcalls|].
    rewrite (agrees_mrun _ _ _ _ _ Hag) in Hend.
    pose proof (mrun_app consumed bs _ _ _ _ _ Hrun) as Happ. rewrite Hend, <- Hbuf in Happ.
    apply (srun_kept_after s0 buf) in Happ. destruct Happ as [Hk Ha].
    split; [rewrite Hk, app_nil_r; exact Hrec|]. split; [symmetry; exact Ha|exact Hben]. }
  destruct Hp as (pre & sm1 & um1 & sm2 & um2 & Hbs & Hpoff & Hoff' & Hne & Hrun1 & Hrun2 & Hag2 & HI2).
  remember (p_bytes pc) as t eqn:Et.
  assert (Htl : (0 < length t)%nat) by (destruct t; [contradiction|cbn [length]; lia]).
  assert (Hbuf' : buf = (consumed ++ pre ++ t) ++ bs') by (rewrite Hbuf, Hbs, <- !app_assoc; reflexivity).
  assert (Hrun' : srun s0 (consumed ++ pre ++ t) = Some (sm2, um2, o ++ t)).
  { rewrite Hbs in Hag. eapply piece_run; eauto. }
  destruct (w_write_all w t) as [w1 r] eqn:Hw.
  destruct (w_write_all_spec _ _ _ _ Hw) as (Hscr1 & cs1 & Hcalls1 & Hr).
  destruct r as [[]|e].
  - destruct Hr as [Hrec1 Hben1].
    apply (IH buf s0 w0 (consumed ++ pre ++ t) bs' off' st' u' w1 sm2 um2 (o ++ t) (cs ++ cs1)).
    + exact Hok.
    + exact HI0.
    + exact Hbuf'.
    + rewrite Hbs, !app_length in Hlen. lia.
    + exact Hrun'.
    + exact Hag2.
    + rewrite Hrec1, Hrec, app_assoc. reflexivity.
    + rewrite Hcalls1, Hcalls, app_assoc. reflexivity.
    + apply Forall_app. auto.
    + lia.
  - destruct Hr as [(p1 & q1 & Hpq & Hrec1) Herr].
    do 3 eexists. split; [reflexivity|]. split; [lia|]. exists (cs ++ cs1).
    split; [rewrite Hcalls1, Hcalls, app_assoc; reflexivity|].
    split; [|apply err_calls_app; assumption].
    exists (o ++ p1), (q1 ++ kept (after s0 (consumed ++ pre ++ t)) bs').
    split.
    + rewrite Hbuf' at 1. rewrite kept_app by (rewrite <- Hbuf'; exact Hok).
      apply srun_kept_after in Hrun'. destruct Hrun' as [-> _].
      rewrite Hpq, <- !app_assoc. reflexivity.
    + rewrite Hrec1, Hrec, app_assoc. reflexivity.
Qed.

Theorem ss_write_all_spec s buf w :
  bytes_ok buf -> SInv s ->
  exists s' w' r, ss_write_all s buf w = Some (s', w', r) /\ write_all_post s buf w s' w' r.
Proof.
  intros Hok HI. unfold ss_write_all.
  apply (ss_write_all_loop_spec (S (length buf)) buf s w [] buf 0 (sb_state s) (sb_u s) w
           (sb_state s) (sb_u s) [] []); auto.
  - apply agrees_refl.
  - symmetry. apply app_nil_r.
  - symmetry. apply app_nil_r.
Qed.

(* ---- write_fmt through fmt::Adapter ------------------------------------------------- *)

Theorem ss_write_fmt_spec : forall frags s w,
  bytes_ok (concat frags) -> SInv s ->
  exists s' w' r, ss_write_fmt s frags w = Some (s', w', r) /\
                  write_all_post s (concat frags) w s' w' r.
Proof.
  induction frags as [|fr rest IH]; intros s w Hok HI; cbn [ss_write_fmt concat].
  - do 3 eexists. split; [reflexivity|]. split; [lia|]. exists []. rewrite !app_nil_r, after_nil.
    repeat split; auto.
  - cbn [concat] in Hok. pose proof Hok as Hok2. apply bytes_ok_app in Hok2 as [Hfr Hrest].
    destruct (ss_write_all_spec s fr w Hfr HI) as (s1 & w1 & r1 & Hwa & Hscr1 & cs1 & Hcalls1 & Hr1).
    rewrite Hwa.
    destruct r1 as [n| |k].
    + contradiction.
    + destruct Hr1 as (Hrec1 & Hs1 & Hben1).
      assert (HI1 : SInv s1) by (rewrite Hs1; apply after_inv; assumption).
      destruct (IH s1 w1 Hrest HI1) as (s2 & w2 & r2 & Hf & Hscr2 & cs2 & Hcalls2 & Hr2).
      exists s2, w2, r2. split; [exact Hf|]. split; [lia|]. exists (cs1 ++ cs2).
      split; [rewrite Hcalls2, Hcalls1, app_assoc; reflexivity|].
      destruct r2 as [n| |k].
      * contradiction.
      * destruct Hr2 as (Hrec2 & Hs2 & Hben2).
        split; [rewrite Hrec2, Hrec1, (kept_app s _ _ Hok), <- Hs1, app_assoc; reflexivity|].
        split; [rewrite (after_app s _ _ Hok), <- Hs1; exact Hs2|]. apply Forall_app. auto.
      * destruct Hr2 as [(p2 & q2 & Hpq & Hrec2) Herr]. split; [|apply err_calls_app; assumption].
        exists (kept s fr ++ p2), q2.
        split; [rewrite (kept_app s _ _ Hok), <- Hs1, Hpq, app_assoc; reflexivity|].
        rewrite Hrec2, Hrec1, app_assoc. reflexivity.
    + destruct Hr1 as [(p1 & q1 & Hpq & Hrec1) Herr].
      do 3 eexists. split; [reflexivity|]. split; [exact Hscr1|]. exists cs1. split; [exact Hcalls1|].
      split; [|exact Herr].
      exists p1, (q1 ++ kept (after s fr) (concat rest)).
      split; [rewrite (kept_app s _ _ Hok), Hpq, app_assoc; reflexivity|exact Hrec1].
Qed.

(* ---- the property statements (C06) --------------------------------------------------- *)

(* the meaning of [kept] / [after]: the components of the machine run *)
Theorem kept_after_def : forall s bs,
  bytes_ok bs ->
  mrun (sb_state s) (sb_u s) bs = Some (sb_state (after s bs), sb_u (after s bs), kept s bs).
Proof. exact srun_eq. Qed.

Theorem write_refines : forall s buf w,
  bytes_ok buf -> Inv (sb_state s) (sb_u s) ->
  (exists s' w' r, ss_write s buf w = Some (s', w', r) /\ r <> ROk) /\
  (forall s' w' n, ss_write s buf w = Some (s', w', ROkN n) ->
     n <= N.of_nat (length buf) /\
     w_received w' = w_received w ++ kept s (firstn (N.to_nat n) buf) /\
     s' = after s (firstn (N.to_nat n) buf)) /\
  (forall s' w' k, ss_write s buf w = Some (s', w', RErr k) ->
     s' = s /\ w_received w' = w_received w /\
     exists piece rest, piece <> [] /\ w_script w = Fail k :: rest /\ w_script w' = rest /\
                        w_calls w' = w_calls w ++ [CWrite piece (inr k)]).
Proof.
  intros s buf w Hok HI. destruct (ss_write_spec s buf w Hok HI) as (s1 & w1 & r1 & Hwr & Hpost).
  split; [|split].
  - exists s1, w1, r1. split; [exact Hwr|]. intros ->. exact Hpost.
  - intros s' w' n H. rewrite Hwr in H. inversion H; subst. destruct Hpost as (A & B & C & _). auto.
  - intros s' w' k H. rewrite Hwr in H. inversion H; subst. destruct Hpost as (-> & piece & Hne & Hw).
    destruct (w_write_inr _ _ _ _ Hw) as (rest & Hs & Hs1 & Hrec & Hcalls).
    split; [reflexivity|]. split; [exact Hrec|]. exists piece, rest. auto.
Qed.

Theorem protocol_delivers : forall fuel s w buf s' w' r,
  bytes_ok buf -> Inv (sb_state s) (sb_u s) ->
  ss_drive fuel s w buf = Some (s', w', r) ->
  exists p q, kept s buf = p ++ q /\ w_received w' = w_received w ++ p /\
              (r = ROk -> q = [] /\ s' = after s buf) /\ (forall n, r <> ROkN n).
Proof. exact ss_drive_post. Qed.

Theorem protocol_fuel_suffices : forall fuel s w buf,
  bytes_ok buf -> Inv (sb_state s) (sb_u s) ->
  (length (w_script w) + length buf < fuel)%nat ->
  exists x, ss_drive fuel s w buf = Some x.
Proof. exact ss_drive_total. Qed.

Theorem protocol_delivers_spec_strip : forall script buf,
  bytes_ok buf ->
  exists s' w' r, ss_drive_all script buf = Some (s', w', r) /\
    (exists q, spec_strip buf = w_received w' ++ q /\ (r = ROk -> q = [])) /\
    (forall n, r <> ROkN n).
Proof.
  intros script buf Hok. unfold ss_drive_all.
  destruct (ss_drive_total (S (length script + length buf)) sb_new (writer_of script) buf Hok SInv_new)
    as [[[s' w'] r] H]; [cbn [writer_of w_script]; lia|].
  exists s', w', r. split; [exact H|].
  destruct (ss_drive_post _ _ _ _ _ _ _ Hok SInv_new H) as (p & q & Hk & Hrec & Hr & Hn).
  cbn [writer_of w_received app] in Hrec. rewrite (kept_new_is_spec buf Hok) in Hk.
  split; [|exact Hn]. exists q. rewrite Hrec. split; [exact Hk|]. intros E. apply Hr, E.
Qed.

Theorem write_all_refines : forall s buf w,
  bytes_ok buf -> Inv (sb_state s) (sb_u s) ->
  (exists s' w' r, ss_write_all s buf w = Some (s', w', r) /\ forall n, r <> ROkN n) /\
  (forall s' w', ss_write_all s buf w = Some (s', w', ROk) ->
     w_received w' = w_received w ++ kept s buf /\ s' = after s buf) /\
  (forall s' w' k, ss_write_all s buf w = Some (s', w', RErr k) ->
     (exists p q, kept s buf = p ++ q /\ w_received w' = w_received w ++ p) /\
     exists cs, w_calls w' = w_calls w ++ cs /\ err_calls cs k).
Proof.
  intros s buf w Hok HI.
  destruct (ss_write_all_spec s buf w Hok HI) as (s1 & w1 & r1 & Hwr & Hscr & cs & Hcalls & Hr).
  split; [|split].
  - exists s1, w1, r1. split; [exact Hwr|]. intros n ->. exact Hr.
  - intros s' w' H. rewrite Hwr in H. inversion H; subst. tauto.
  - intros s' w' k H. rewrite Hwr in H. inversion H; subst. destruct Hr as [Hp He].
    split; [exact Hp|]. exists cs. auto.
Qed.

Theorem write_fmt_refines : forall s frags w,
  bytes_ok (concat frags) -> Inv (sb_state s) (sb_u s) ->
  (exists s' w' r, ss_write_fmt s frags w = Some (s', w', r) /\ forall n, r <> ROkN n) /\
  (forall s' w', ss_write_fmt s frags w = Some (s', w', ROk) ->
     w_received w' = w_received w ++ kept s (concat frags) /\ s' = after s (concat frags)) /\
  (forall s' w' k, ss_write_fmt s frags w = Some (s', w', RErr k) ->
     (exists p q, kept s (concat frags) = p ++ q /\ w_received w' = w_received w ++ p) /\
     exists cs, w_calls w' = w_calls w ++ cs /\ err_calls cs k).
Proof.
  intros s frags w Hok HI.
  destruct (ss_write_fmt_spec frags s w Hok HI) as (s1 & w1 & r1 & Hwr & Hscr & cs & Hcalls & Hr).
  split; [|split].
  - exists s1, w1, r1. split; [exact Hwr|]. intros n ->. exact Hr.
  - intros s' w' H. rewrite Hwr in H. inversion H; subst. tauto.
  - intros s' w' k H. rewrite Hwr in H. inversion H; subst. destruct Hr as [Hp He].
    split; [exact Hp|]. exists cs. auto.
Qed.

Lemma first_nonempty_spec : forall bufs,
  (first_nonempty bufs = [] /\ Forall (fun b => b = []) bufs) \/
  (exists pre rest, bufs = pre ++ first_nonempty bufs :: rest /\
                    Forall (fun b => b = []) pre /\ first_nonempty bufs <> []).
Proof.
  induction bufs as [|b bufs IH]; [left; split; [reflexivity|constructor]|].
  destruct b as [|x b]; cbn [first_nonempty].
  - destruct IH as [[H1 H2]|(pre & rest & H1 & H2 & H3)].
    + left. split; [exact H1|constructor; auto].
    + right. exists ([] :: pre), rest. split; [cbn; rewrite <- H1; reflexivity|].
      split; [constructor; auto|exact H3].
  - right. exists [], bufs. split; [reflexivity|]. split; [constructor|discriminate].
Qed.

(* write_vectored is `write` of the first non-empty buffer (so [write_refines] applies to it) *)
Theorem vectored_refines : forall s w bufs,
  ss_op s w (OWriteVectored bufs) = ss_write s (first_nonempty bufs) w /\
  ((first_nonempty bufs = [] /\ Forall (fun b => b = []) bufs) \/
   (exists pre rest, bufs = pre ++ first_nonempty bufs :: rest /\
                     Forall (fun b => b = []) pre /\ first_nonempty bufs <> [])).
Proof. intros s w bufs. split; [reflexivity|apply first_nonempty_spec]. Qed.

(* an error is the inner writer's own (or WriteZero on `Accept 0`); success saw no failure
   (write), resp. none but the `Interrupted` ones std's write_all retries (write_all, write_fmt) *)
Theorem error_kind_preserved : forall s w,
  Inv (sb_state s) (sb_u s) ->
  (forall buf s' w' k, bytes_ok buf -> ss_write s buf w = Some (s', w', RErr k) ->
     exists piece, w_calls w' = w_calls w ++ [CWrite piece (inr k)]) /\
  (forall buf s' w' k, bytes_ok buf -> ss_write_all s buf w = Some (s', w', RErr k) ->
     exists cs, w_calls w' = w_calls w ++ cs /\ err_calls cs k) /\
  (forall frags s' w' k, bytes_ok (concat frags) -> ss_write_fmt s frags w = Some (s', w', RErr k) ->
     exists cs, w_calls w' = w_calls w ++ cs /\ err_calls cs k) /\
  (forall buf s' w', bytes_ok buf -> ss_write s buf w = Some (s', w', ROkN (N.of_nat (length buf))) ->
     exists cs, w_calls w' = w_calls w ++ cs /\ Forall full_accept cs) /\
  (forall buf s' w', bytes_ok buf -> ss_write_all s buf w = Some (s', w', ROk) ->
     exists cs, w_calls w' = w_calls w ++ cs /\ Forall benign cs) /\
  (forall frags s' w', bytes_ok (concat frags) -> ss_write_fmt s frags w = Some (s', w', ROk) ->
     exists cs, w_calls w' = w_calls w ++ cs /\ Forall benign cs).
Proof.
  intros s w HI. repeat split.
  - intros buf s' w' k Hok H.
    destruct (write_refines s buf w Hok HI) as (_ & _ & He).
    destruct (He _ _ _ H) as (_ & _ & piece & rest & _ & _ & _ & Hc). eauto.
  - intros buf s' w' k Hok H.
    destruct (write_all_refines s buf w Hok HI) as (_ & _ & He). apply (He _ _ _ H).
  - intros frags s' w' k Hok H.
    destruct (write_fmt_refines s frags w Hok HI) as (_ & _ & He). apply (He _ _ _ H).
  - intros buf s' w' Hok H.
    destruct (ss_write_spec s buf w Hok HI) as (s1 & w1 & r1 & Hwr & Hpost).
    rewrite Hwr in H. inversion H; subst. destruct Hpost as (_ & _ & _ & _ & cs & Hc & Hf).
    exists cs. auto.
  - intros buf s' w' Hok H.
    destruct (ss_write_all_spec s buf w Hok HI) as (s1 & w1 & r1 & Hwr & _ & cs & Hc & Hr).
    rewrite Hwr in H. inversion H; subst. exists cs. tauto.
  - intros frags s' w' Hok H.
    destruct (ss_write_fmt_spec frags s w Hok HI) as (s1 & w1 & r1 & Hwr & _ & cs & Hc & Hr).
    rewrite Hwr in H. inversion H; subst. exists cs. tauto.
Qed.
