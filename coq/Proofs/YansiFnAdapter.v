(* Proofs/YansiFnAdapter.v -- composition of the translated yansi rendering (Proofs/YansiFnGen.v) with the
   adapter anstyle-yansi (Model/Adapters.v, Proofs/Adapters.v, Proofs/AdaptersGen.v):
   render (convert s) is read back by the terminal as project(s).
   The abstract target style of Spec/Targets.v (constructors and builder calls BY NAME) denotes a value of
   yansi's own type through the names yansi's source gives them (Generated/YansiFn.v g_ya_attr_builders,
   g_ya_color_ctors); every name means what Spec/Targets.v says (ya_names_agree). *)
From Coq Require Import NArith Arith List Bool Lia.
From AV Require Import Model.Base Model.YansiRender Generated.YansiFn Proofs.YansiFnGen.
From AV Require Import Spec.Vt Spec.Sgr Spec.Targets Generated.Adapters Model.Adapters Proofs.Adapters
  Generated.AdaptersFn Proofs.AdaptersGen.
Import ListNotations.
Local Open Scope N_scope.

Definition ya_of_tcolor (c : ad_tcolor) : option ya_color :=
  match c with
  | AdNamed nm => ad_assoc nm g_ya_color_ctors
  | AdFixed n => Some (YaFixed n)
  | AdRgb r g b => Some (YaRgb r g b)
  end.
Definition ya_of_tslot (c : option ad_tcolor) : option (option ya_color) :=
  match c with None => Some None | Some c => option_map Some (ya_of_tcolor c) end.
(* `.bold()` .. on a Style: Set::insert of the attribute's bit *)
Fixpoint ya_bits_of_names (names : list (list N)) : option N :=
  match names with
  | [] => Some 0
  | nm :: rest =>
      match ad_assoc nm g_ya_attr_builders, ya_bits_of_names rest with
      | Some a, Some m => Some (N.lor (2 ^ ya_attr_disc a) m)
      | _, _ => None
      end
  end.
(* the yansi::Style an abstract target style denotes (no quirk, no condition: the adapter calls neither) *)
Definition ya_of_tstyle (t : ad_tstyle) : option ya_style :=
  match ad_t_ul t, ya_of_tslot (ad_t_fg t), ya_of_tslot (ad_t_bg t), ya_bits_of_names (ad_t_attrs t) with
  | None, Some fg, Some bg, Some bits => Some (mkYaStyle fg bg bits 0 None)
  | _, _, _, _ => None
  end.

(* every name of yansi's API denotes what Spec/Targets.v says, and the two name sets coincide *)
Lemma ya_names_agree :
  forallb (fun p => match ad_assoc (fst p) ad_yansi_attrs with Some k => k =? ya_attr_effect (snd p) | None => false end)
          g_ya_attr_builders = true /\
  forallb (fun p => match ad_assoc (fst p) g_ya_attr_builders with Some _ => true | None => false end) ad_yansi_attrs = true /\
  forallb (fun p => match ad_assoc (fst p) ad_yansi_colours with
                    | Some m => opt_colour_eqb m (ya_colour_meaning (snd p)) | None => false end) g_ya_color_ctors = true /\
  forallb (fun p => match ad_assoc (fst p) g_ya_color_ctors with Some _ => true | None => false end) ad_yansi_colours = true.
Proof. vm_compute. repeat split; reflexivity. Qed.

(* indexed / RGB components are bytes (the Rust types are u8) *)
Definition ya_colour_u8 (c : option colour) : Prop :=
  match c with
  | Some (CIdx n) => n < 256
  | Some (CRgb r g b) => r < 256 /\ g < 256 /\ b < 256
  | _ => True
  end.
Definition ya_src_u8 (s : sstyle) : Prop := ya_colour_u8 (s_fg s) /\ ya_colour_u8 (s_bg s).

Definition ya_conv_slot (c : option colour) : option ad_tcolor :=
  Some (match c with Some c => ad_conv_colour ad_gen_yansi_colors c | None => AdNamed ad_gen_yansi_default_fg end).

Lemma ya_lt16 i : i < 16 ->
  i = 0 \/ i = 1 \/ i = 2 \/ i = 3 \/ i = 4 \/ i = 5 \/ i = 6 \/ i = 7 \/ i = 8 \/ i = 9 \/ i = 10 \/ i = 11 \/ i = 12 \/ i = 13 \/ i = 14 \/ i = 15.
Proof. lia. Qed.

Lemma ya_slot_conv c : ad_colour_ok c -> ya_colour_u8 c ->
  exists y, ya_of_tslot (ya_conv_slot c) = Some (Some y) /\ ya_color_ok (Some y) /\
            ya_slot_meaning (Some y) = ad_project_colour AdYansi c.
Proof.
  intros Hok Hu. destruct c as [[i|n|r g b]|]; cbn [ad_colour_ok ya_colour_u8] in *.
  - apply ya_lt16 in Hok.
    repeat (destruct Hok as [->|Hok]; [eexists; split; [vm_compute; reflexivity|split; [exact I|reflexivity]]|]).
    subst. eexists; split; [vm_compute; reflexivity|split; [exact I|reflexivity]].
  - exists (YaFixed n). split; [reflexivity|split; [exact Hu|reflexivity]].
  - exists (YaRgb r g b). split; [reflexivity|split; [exact Hu|reflexivity]].
  - eexists; split; [vm_compute; reflexivity|split; [exact I|reflexivity]].
Qed.

Definition ya_effs4096 : list N := map N.of_nat (seq 0 4096).

Lemma ya_effects_all :
  forallb (fun e => match ya_bits_of_names (ad_conv_effects ad_gen_yansi_effects e) with
                    | Some bits => (bits <? 512) && (ya_effects bits =? N.lor (N.land e (ad_expressible AdYansi)) 0)
                    | None => false end) ya_effs4096 = true.
Proof. vm_compute. reflexivity. Qed.

Lemma ya_effects_conv e : e < 4096 ->
  exists bits, ya_bits_of_names (ad_conv_effects ad_gen_yansi_effects e) = Some bits /\ bits < 512 /\
               ya_effects bits = N.lor (N.land e (ad_expressible AdYansi)) 0.
Proof.
  intros H. pose proof ya_effects_all as A. rewrite forallb_forall in A. specialize (A e).
  assert (Hin : In e ya_effs4096). { apply in_map_iff. exists (N.to_nat e). split; [lia|]. apply in_seq. lia. }
  specialize (A Hin). destruct (ya_bits_of_names _) as [bits|]; [|discriminate].
  apply andb_true_iff in A. destruct A as [A B]. apply N.ltb_lt in A. apply N.eqb_eq in B. exists bits. auto.
Qed.

Lemma ya_default_bg_fg : ad_gen_yansi_default_bg = ad_gen_yansi_default_fg.
Proof. reflexivity. Qed.

(* the adapter's image: the converted style denotes a quirk-free yansi::Style whose meaning is the projection *)
Theorem yansi_convert_value : forall s, ad_src_ok s -> ya_src_u8 s ->
  exists v, ya_of_tstyle (ad_to_yansi s) = Some v /\ ya_style_ok v /\ ya_plain v /\
            ya_meaning v = ad_project AdYansi s.
Proof.
  intros s (Hf & Hb & _ & He) (Uf & Ub).
  destruct (ya_slot_conv _ Hf Uf) as (yf & Ef & Of & Mf).
  destruct (ya_slot_conv _ Hb Ub) as (yb & Eb & Ob & Mb).
  destruct (ya_effects_conv _ He) as (bits & Ee & Lb & Me).
  exists (mkYaStyle (Some yf) (Some yb) bits 0 None).
  unfold ya_of_tstyle, ad_to_yansi. cbn [ad_t_ul ad_t_fg ad_t_bg ad_t_attrs].
  rewrite ya_default_bg_fg.
  change (Some (match s_fg s with Some c => ad_conv_colour ad_gen_yansi_colors c | None => AdNamed ad_gen_yansi_default_fg end))
    with (ya_conv_slot (s_fg s)).
  change (Some (match s_bg s with Some c => ad_conv_colour ad_gen_yansi_colors c | None => AdNamed ad_gen_yansi_default_fg end))
    with (ya_conv_slot (s_bg s)).
  rewrite Ef, Eb, Ee. split; [reflexivity|]. split; [exact (conj Of (conj Ob Lb))|]. split; [split; reflexivity|].
  unfold ya_meaning, ad_project. cbn [ya_fg ya_bg ya_attrs ad_has_ul]. rewrite Mf, Mb, Me. reflexivity.
Qed.

(* render (convert s) interprets to project(s): the hand model of the adapter, then the TRANSLATED rendering *)
Theorem yansi_convert_render : forall o en s, ad_src_ok s -> ya_src_u8 s ->
  (v <- ya_of_tstyle (ad_to_yansi s) ;; bs <- g_yansi_render o en v ;; ad_interp_x bs) = Some (ad_project AdYansi s).
Proof.
  intros o en s Hs Hu. destruct (yansi_convert_value s Hs Hu) as (v & Ev & Ok & Pl & M).
  rewrite Ev. destruct (yansi_render_is_meaning o en v Ok Pl) as (bs & Er & Ei). rewrite Er, Ei, M. reflexivity.
Qed.

(* both halves translated: anstyle_yansi::to_yansi_style, then yansi's rendering *)
Theorem translated_yansi_convert_render : forall o en s, ad_src_ok s -> ya_src_u8 s ->
  (t <- g_to_yansi_style s ;; v <- ya_of_tstyle t ;; bs <- g_yansi_render o en v ;; ad_interp_x bs)
  = Some (ad_project AdYansi s).
Proof.
  intros o en s Hs Hu. rewrite (g_to_yansi_style_eq s Hs). exact (yansi_convert_render o en s Hs Hu).
Qed.

(* the rendering never panics on the adapter's image, whatever the global switch held and whatever the oracle answers *)
Theorem translated_yansi_render_total : forall o en s, ad_src_ok s -> ya_src_u8 s ->
  exists v bs, ya_of_tstyle (ad_to_yansi s) = Some v /\ g_yansi_render o en v = Some bs /\
               ad_render_ok (ad_project AdYansi s) bs = true.
Proof.
  intros o en s Hs Hu. destruct (yansi_convert_value s Hs Hu) as (v & Ev & Ok & Pl & M).
  destruct (yansi_render_is_meaning o en v Ok Pl) as (bs & Er & Ei). exists v, bs. repeat split; try assumption.
  unfold ad_render_ok. rewrite Ei, M.
  assert (R : forall a, sstyle_eqb a a = true).
  { assert (C : forall c, colour_eqb c c = true) by (intros [i|i|r g b]; cbn; rewrite ?N.eqb_refl; reflexivity).
    assert (O : forall c, opt_colour_eqb c c = true) by (intros [c|]; cbn; auto).
    intros a. unfold sstyle_eqb. now rewrite !O, N.eqb_refl. }
  apply R.
Qed.
