(* Proofs/GitColor.v -- C11, one word: the keyword arms and parse_color of the
   model against the vocabulary of Spec/GitSyntax. *)
From Coq Require Import NArith List Bool Lia.
From AV Require Import Generated.Git Spec.StyleRec Spec.SgrCodes Spec.GitSyntax Model.Base Model.Text Model.Git
  Proofs.Text Proofs.LsParse Proofs.GitWords.
Import ListNotations.
Local Open Scope N_scope.

(* ---- finite tables ------------------------------------------------------------ *)

Lemma assoc_not_in {V} : forall w (T : list (list N * V)),
  existsb (list_eqb w) (map fst T) = false -> assoc w T = None.
Proof.
  intros w. induction T as [|[k v] T IH]; intros H; [reflexivity|].
  cbn in H. apply orb_false_iff in H as [H1 H2]. cbn [assoc]. rewrite H1. now apply IH.
Qed.

Lemma lookup_not_in : forall w T, existsb (list_eqb w) (map fst T) = false -> lookup w T = None.
Proof.
  intros w. induction T as [|[k v] T IH]; intros H; [reflexivity|].
  cbn in H. apply orb_false_iff in H as [H1 H2]. cbn [lookup]. change (bytes_eqb w k) with (list_eqb w k).
  rewrite H1. now apply IH.
Qed.

Lemma by_keys (keys : list (list N)) (P : list N -> bool) :
  forallb P keys = true ->
  (forall w, existsb (list_eqb w) keys = false -> P w = true) ->
  forall w, P w = true.
Proof.
  intros Hk Hn w. destruct (existsb (list_eqb w) keys) eqn:E; [|now apply Hn].
  apply existsb_exists in E as (k & Hin & Hk'). apply list_eqb_eq in Hk'. subst k.
  rewrite forallb_forall in Hk. now apply Hk.
Qed.

Definition kw_check (k : list N) : bool :=
  match assoc k git_keywords, lookup k attr_words with
  | Some (ins, bit), Some (GAttr on a) => Bool.eqb ins on && (bit =? attr_bit a)
  | None, None => true
  | _, _ => false
  end.

Definition kw_keys : list (list N) := map fst git_keywords ++ map fst attr_words.

Lemma kw_agree : forall w, kw_check w = true.
Proof.
  apply (by_keys kw_keys).
  - vm_compute. reflexivity.
  - intros w H. unfold kw_keys in H. rewrite existsb_app in H. apply orb_false_iff in H as [H1 H2].
    unfold kw_check. now rewrite (assoc_not_in _ _ H1), (lookup_not_in _ _ H2).
Qed.

Definition name_check (k : list N) : bool :=
  match assoc k git_color_names, lookup k color_words with
  | Some None, Some (GColor None) => true
  | Some (Some i), Some (GColor (Some (TAnsi j))) => i =? j
  | None, None => true
  | _, _ => false
  end.

Definition name_keys : list (list N) := map fst git_color_names ++ map fst color_words.

Lemma name_agree : forall w, name_check w = true.
Proof.
  apply (by_keys name_keys).
  - vm_compute. reflexivity.
  - intros w H. unfold name_keys in H. rewrite existsb_app in H. apply orb_false_iff in H as [H1 H2].
    unfold name_check. now rewrite (assoc_not_in _ _ H1), (lookup_not_in _ _ H2).
Qed.

(* no table word begins with '+' or '#' *)
Definition first_not (c : N) (k : list N) : bool := match k with x :: _ => negb (x =? c) | [] => true end.

Lemma lookup_first : forall c ds T, forallb (first_not c) (map fst T) = true -> lookup (c :: ds) T = None.
Proof.
  intros c ds. induction T as [|[k v] T IH]; intros H; [reflexivity|].
  cbn in H. apply andb_true_iff in H as [H1 H2]. cbn [lookup].
  destruct k as [|x k]; [cbn; now apply IH|].
  cbn in H1. apply negb_true_iff in H1. cbn [bytes_eqb]. rewrite (N.eqb_sym c x), H1. cbn. now apply IH.
Qed.

Lemma tables_no_plus : forallb (first_not 43) (map fst attr_words) = true /\ forallb (first_not 43) (map fst color_words) = true.
Proof. split; vm_compute; reflexivity. Qed.

Lemma tables_no_hash : forallb (first_not 35) (map fst attr_words) = true /\ forallb (first_not 35) (map fst color_words) = true.
Proof. split; vm_compute; reflexivity. Qed.

(* ---- the '#' branch --------------------------------------------------------------- *)

Definition hex_branch (hex : list N) : option (option (option tcolor)) :=
  let hb := str_bytes hex in
  let l := N.of_nat (length hb) in
  if negb (existsb (N.eqb l) git_hex_lens) then Some None
  else if negb (forallb is_ascii_hexdigit hb) then Some None
  else
    let l3 := l / 3 in
    rs <- str_slice hb 0 l3 ;;
    gs <- str_slice hb l3 (2 * l3) ;;
    bs <- str_slice hb (2 * l3) (3 * l3) ;;
    match u8_from_str_radix git_hex_radix rs,
          u8_from_str_radix git_hex_radix gs,
          u8_from_str_radix git_hex_radix bs with
    | Some r, Some g, Some b => Some (Some (Some (TRgb r g b)))
    | _, _, _ => Some None
    end.

Lemma boundary_ascii : forall b i, Forall (fun x => x < 128) b -> i <= N.of_nat (length b) -> is_char_boundary b i = true.
Proof.
  intros b i Hb Hi. unfold is_char_boundary. destruct (i =? 0); [reflexivity|].
  destruct (nth_error b (N.to_nat i)) as [x|] eqn:E.
  - apply nth_error_In in E. rewrite Forall_forall in Hb. specialize (Hb x E).
    destruct (N.leb_spec 128 x); [lia | reflexivity].
  - apply nth_error_None in E. apply N.eqb_eq. lia.
Qed.

Lemma str_slice_ascii : forall b lo hi, Forall (fun x => x < 128) b -> lo <= hi -> hi <= N.of_nat (length b) ->
  str_slice b lo hi = Some (firstn (N.to_nat (hi - lo)) (skipn (N.to_nat lo) b)).
Proof.
  intros b lo hi Hb H1 H2. unfold str_slice.
  rewrite (boundary_ascii b lo Hb) by lia. rewrite (boundary_ascii b hi Hb) by lia.
  apply N.leb_le in H1. rewrite H1. cbn [andb]. unfold slice. apply N.leb_le in H2. rewrite H1, H2. reflexivity.
Qed.

Definition hex_pairs_b : bool :=
  forallb (fun a => if is_hex a then
     match u8_from_str_radix 16 [a] with Some v => v =? hex_value a | None => false end
     && forallb (fun b => if is_hex b then match u8_from_str_radix 16 [a; b] with Some v => v =? 16 * hex_value a + hex_value b | None => false end else true)
          (range_from 0 128)
     else true) (range_from 0 128).

Lemma hex_pairs_ok : hex_pairs_b = true.
Proof. vm_cast_no_check (eq_refl true). Qed.

Lemma hex1 : forall a, is_hex a = true -> u8_from_str_radix 16 [a] = Some (hex_value a).
Proof.
  intros a Ha. pose proof hex_pairs_ok as H. unfold hex_pairs_b in H.
  pose proof (forall_range _ 128 H a (is_hex_ascii a Ha)) as H1. cbv beta in H1. rewrite Ha in H1.
  apply andb_true_iff in H1 as [H1 _]. destruct (u8_from_str_radix 16 [a]); [|discriminate].
  apply N.eqb_eq in H1. now subst.
Qed.

Lemma hex2' : forall a b, is_hex a = true -> is_hex b = true ->
  u8_from_str_radix 16 [a; b] = Some (16 * hex_value a + hex_value b).
Proof.
  intros a b Ha Hb. pose proof hex_pairs_ok as H. unfold hex_pairs_b in H.
  pose proof (forall_range _ 128 H a (is_hex_ascii a Ha)) as H1. cbv beta in H1. rewrite Ha in H1.
  apply andb_true_iff in H1 as [_ H1].
  pose proof (forall_range _ 128 H1 b (is_hex_ascii b Hb)) as H2. cbv beta in H2. rewrite Hb in H2.
  destruct (u8_from_str_radix 16 [a; b]); [|discriminate]. apply N.eqb_eq in H2. now subst.
Qed.

Lemma all_hex_ascii : forall l, forallb is_hex l = true -> Forall (fun x => x < 128) l.
Proof.
  intros l H. rewrite Forall_forall. intros x Hx. rewrite forallb_forall in H. now apply is_hex_ascii, H.
Qed.

Lemma hexdigit_ascii : forall c, is_ascii_hexdigit c = true -> c < 128.
Proof. intros c H. rewrite hexdigit_agree in H. now apply is_hex_ascii. Qed.

Lemma hex_bytes_check : forall hex, forallb is_ascii_hexdigit (str_bytes hex) = forallb is_hex hex.
Proof.
  intros hex. rewrite (class_bytes is_ascii_hexdigit hexdigit_ascii). apply forallb_ext'. exact hexdigit_agree.
Qed.

Definition color_of (t : option gtoken) : option (option tcolor) :=
  match t with Some (GColor c) => Some c | _ => None end.

Lemma hex_agree : forall digits, hex_branch digits = Some (color_of (hex_color digits)).
Proof.
  intros digits. unfold hex_branch, hex_color. rewrite hex_bytes_check.
  destruct (forallb is_hex digits) eqn:H.
  2:{ cbn [negb]. destruct (negb _); reflexivity. }
  rewrite (class_bytes_id is_hex is_hex_ascii _ H). cbn [negb].
  pose proof (all_hex_ascii _ H) as HA.
  destruct digits as [|a [|b [|c [|d [|e [|f [|g rest]]]]]]]; try reflexivity.
  - (* #rgb *)
    cbn in H. rewrite !andb_true_iff in H. destruct H as (Ha & Hb & Hc & _).
    change (N.of_nat (length [a; b; c])) with 3. change (existsb (N.eqb 3) git_hex_lens) with true. cbn [negb].
    change (3 / 3) with 1. change (2 * 1) with 2. change (3 * 1) with 3.
    rewrite (str_slice_ascii [a; b; c] 0 1 HA) by (cbn; lia).
    rewrite (str_slice_ascii [a; b; c] 1 2 HA) by (cbn; lia).
    rewrite (str_slice_ascii [a; b; c] 2 3 HA) by (cbn; lia).
    change (firstn (N.to_nat (1 - 0)) (skipn (N.to_nat 0) [a; b; c])) with [a].
    change (firstn (N.to_nat (2 - 1)) (skipn (N.to_nat 1) [a; b; c])) with [b].
    change (firstn (N.to_nat (3 - 2)) (skipn (N.to_nat 2) [a; b; c])) with [c].
    change git_hex_radix with 16. rewrite (hex1 a Ha), (hex1 b Hb), (hex1 c Hc). reflexivity.
  - (* #rrggbb *)
    cbn in H. rewrite !andb_true_iff in H. destruct H as (Ha & Hb & Hc & Hd & He & Hf & _).
    change (N.of_nat (length [a; b; c; d; e; f])) with 6. change (existsb (N.eqb 6) git_hex_lens) with true. cbn [negb].
    change (6 / 3) with 2. change (2 * 2) with 4. change (3 * 2) with 6.
    rewrite (str_slice_ascii [a; b; c; d; e; f] 0 2 HA) by (cbn; lia).
    rewrite (str_slice_ascii [a; b; c; d; e; f] 2 4 HA) by (cbn; lia).
    rewrite (str_slice_ascii [a; b; c; d; e; f] 4 6 HA) by (cbn; lia).
    change (firstn (N.to_nat (2 - 0)) (skipn (N.to_nat 0) [a; b; c; d; e; f])) with [a; b].
    change (firstn (N.to_nat (4 - 2)) (skipn (N.to_nat 2) [a; b; c; d; e; f])) with [c; d].
    change (firstn (N.to_nat (6 - 4)) (skipn (N.to_nat 4) [a; b; c; d; e; f])) with [e; f].
    change git_hex_radix with 16. rewrite (hex2' a b Ha Hb), (hex2' c d Hc Hd), (hex2' e f He Hf). reflexivity.
  - (* seven or more digits *)
    set (l := N.of_nat (length (a :: b :: c :: d :: e :: f :: g :: rest))).
    assert (Hl : 7 <= l) by (subst l; cbn [length]; lia).
    assert (existsb (N.eqb l) git_hex_lens = false) as ->.
    { unfold git_hex_lens. cbn [existsb]. rewrite !orb_false_iff. repeat split; try reflexivity; apply N.eqb_neq; lia. }
    reflexivity.
Qed.

Lemma hex_branch_total : forall hex, hex_branch hex <> None.
Proof. intros hex. rewrite hex_agree. discriminate. Qed.

(* ---- parse_color -------------------------------------------------------------------- *)

Lemma parse_color_hash : forall hex, assoc (35 :: hex) git_color_names = None -> parse_color (35 :: hex) = hex_branch hex.
Proof. intros hex H. unfold parse_color. rewrite H. reflexivity. Qed.

Lemma parse_color_number : forall w, assoc w git_color_names = None ->
  match w with c :: _ => (c =? 35) = false | [] => True end ->
  parse_color w = match parse_u8 (str_bytes w) with Some n => Some (Some (Some (TAnsi256 n))) | None => Some None end.
Proof.
  intros w H Hc. unfold parse_color. rewrite H. destruct w as [|c ds]; [reflexivity|].
  change git_hex_prefix with 35. now rewrite Hc.
Qed.

Theorem parse_color_total : forall w, parse_color w <> None.
Proof.
  intros w. destruct (assoc w git_color_names) as [[i|]|] eqn:A.
  - unfold parse_color. rewrite A. discriminate.
  - unfold parse_color. rewrite A. discriminate.
  - destruct w as [|c ds].
    + rewrite parse_color_number by (auto; exact I). destruct (parse_u8 _); discriminate.
    + destruct (c =? 35) eqn:E.
      * apply N.eqb_eq in E. subst c. rewrite parse_color_hash by assumption. apply hex_branch_total.
      * rewrite parse_color_number by assumption. destruct (parse_u8 _); discriminate.
Qed.

(* one lower-cased word outside the open class: the model's keyword match and
   parse_color agree with the vocabulary *)
Theorem word_agree : forall lw, open_field lw = false ->
  match classify_lower lw with
  | Some (GAttr on a) => assoc lw git_keywords = Some (on, attr_bit a)
  | Some (GColor c) => assoc lw git_keywords = None /\ parse_color lw = Some (Some c)
  | None => assoc lw git_keywords = None /\ parse_color lw = Some None
  end.
Proof.
  intros lw Hopen. unfold classify_lower.
  pose proof (kw_agree lw) as K. unfold kw_check in K.
  destruct (lookup lw attr_words) as [[c|on a]|] eqn:L1; destruct (assoc lw git_keywords) as [[ins bit]|] eqn:A1;
    try discriminate K.
  - apply andb_true_iff in K as [K1 K2]. apply eqb_prop in K1. apply N.eqb_eq in K2. now subst.
  - pose proof (name_agree lw) as M. unfold name_check in M.
    destruct (lookup lw color_words) as [[[[j|j|r g b]|]|on a]|] eqn:L2; destruct (assoc lw git_color_names) as [[i|]|] eqn:A2;
      try discriminate M.
    + apply N.eqb_eq in M. subst j. split; [reflexivity|]. unfold parse_color. now rewrite A2.
    + split; [reflexivity|]. unfold parse_color. now rewrite A2.
    + destruct lw as [|c ds].
      * split; [reflexivity|]. rewrite parse_color_number by (auto; exact I). reflexivity.
      * change HASH with 35. destruct (c =? 35) eqn:E.
        -- apply N.eqb_eq in E. subst c. rewrite parse_color_hash by assumption. rewrite hex_agree.
           destruct (hex_color ds) as [[x|on a]|] eqn:HC; try (split; reflexivity).
           exfalso. unfold hex_color in HC. destruct (forallb is_hex ds); [|discriminate].
           destruct ds as [|? [|? [|? [|? [|? [|? [|? ?]]]]]]]; discriminate HC.
        -- rewrite parse_color_number by assumption.
           rewrite parse_u8_closed by (now rewrite open_field_bytes).
           rewrite strict_u8_bytes. destruct (strict_u8 (c :: ds)); split; reflexivity.
Qed.
