(* Spec/SvgSpec.v -- what C14 demands of a rendered document, written from the
   property text and from the W3C XML 1.0 recommendation (fifth edition); independent
   of Model/ and Generated/.  Texts are lists of Unicode code points.

   * [xml_char]: production [2] Char.
   * [svg_split_nl_dropping_cr]: "the visible text split at newlines (a carriage
     return before a newline dropped)".
   * [XContent] / [XElement] / [WF]: a well-formedness grammar for the subset of
     XML 1.0 that the SVG template uses: elements [39]-[44] with attributes [41]
     (unique names: WFC "Unique Att Spec"; values [10] without '<', '&' and the
     quote), character data [14] (stricter than XML: '>' is excluded too, so the
     forbidden "]]>" cannot occur), the references "&amp;" "&lt;" "&gt;"
     [67]/[68] (predefined entities, section 4.6) and the character reference
     "&#13;" [66].  Every string the grammar accepts
     is a well-formed XML 1.0 document; the grammar accepts fewer strings than XML.
   * [xml_unescape]: the replacement text of those references; [xml_eol]: the
     end-of-line normalisation of section 2.11, which an XML processor performs
     BEFORE parsing: a literal CR LF or lone CR reaches the application as LF,
     a CR written as "&#13;" reaches it as CR.
   * [svg_spec_rows]: what the property demands of the spans, concretely: from the
     styled runs of Spec/Sgr and the configured default colours, per line, the
     (class list, background class, text) pieces -- invert swapping foreground and
     background against the defaults, the documented class names, INVERT and BLINK
     without a class. *)
From Coq Require Import NArith List Bool Strings.String Strings.Ascii.
From AV Require Import Spec.Sgr.
Import ListNotations.
Local Open Scope N_scope.

Definition svg_in_rng (lo hi x : N) : bool := (lo <=? x) && (x <=? hi).

(* [2] Char ::= #x9 | #xA | #xD | [#x20-#xD7FF] | [#xE000-#xFFFD] | [#x10000-#x10FFFF] *)
Definition xml_char (c : N) : bool :=
  (c =? 9) || (c =? 10) || (c =? 13) || svg_in_rng 32 55295 c || svg_in_rng 57344 65533 c || svg_in_rng 65536 1114111 c.

(* ---- lines -------------------------------------------------------------- *)

(* drop one carriage return at the end *)
Fixpoint svg_drop_cr (t : list N) : list N :=
  match t with
  | [] => []
  | c :: r => match r with
              | [] => if c =? 13 then [] else [c]
              | _ :: _ => c :: svg_drop_cr r
              end
  end.

(* [cur]: the characters of the current line seen so far.  Each LF ends a line
   (one CR immediately before it is dropped); what follows the last LF is a line
   too, even when it is empty *)
Fixpoint svg_split_acc (cur t : list N) : list (list N) :=
  match t with
  | [] => [cur]
  | c :: r => if c =? 10 then svg_drop_cr cur :: svg_split_acc [] r else svg_split_acc (cur ++ [c]) r
  end.

(* no text, no line *)
Definition svg_split_nl_dropping_cr (t : list N) : list (list N) :=
  match t with [] => [] | _ => svg_split_acc [] t end.

(* ---- the XML subset ------------------------------------------------------ *)

Definition xml_lt : N := 60.  Definition xml_gt : N := 62.  Definition xml_amp : N := 38.
Definition xml_quot : N := 34.

(* [4]/[4a] NameStartChar / NameChar, ASCII part *)
Definition xml_name_start (c : N) : bool := svg_in_rng 97 122 c || svg_in_rng 65 90 c || (c =? 95) || (c =? 58).
Definition xml_name_char (c : N) : bool := xml_name_start c || svg_in_rng 48 57 c || (c =? 45) || (c =? 46).
Definition xml_name (n : list N) : bool :=
  match n with [] => false | c :: r => xml_name_start c && forallb xml_name_char r end.

(* [14] CharData (stricter: no '>') *)
Definition xml_text_char (c : N) : bool := xml_char c && negb (c =? xml_lt) && negb (c =? xml_amp) && negb (c =? xml_gt).
(* [10] AttValue between double quotes, without references *)
Definition xml_att_char (c : N) : bool := xml_char c && negb (c =? xml_lt) && negb (c =? xml_amp) && negb (c =? xml_quot).
(* [3] S *)
Definition xml_space (c : N) : bool := (c =? 32) || (c =? 9) || (c =? 10) || (c =? 13).

Definition xml_ent_amp : list N := [38; 97; 109; 112; 59].   (* &amp; *)
Definition xml_ent_lt : list N := [38; 108; 116; 59].        (* &lt; *)
Definition xml_ent_gt : list N := [38; 103; 116; 59].        (* &gt; *)
Definition xml_ref_cr : list N := [38; 35; 49; 51; 59].      (* &#13; *)
Definition xml_is_ref (e : list N) : Prop := e = xml_ent_amp \/ e = xml_ent_lt \/ e = xml_ent_gt \/ e = xml_ref_cr.

(* ' name="value"' *)
Definition xml_att (a : list N * list N) : list N := [32] ++ fst a ++ [61; 34] ++ snd a ++ [34].

Definition xml_atts_ok (atts : list (list N * list N)) : Prop :=
  NoDup (map fst atts) /\ Forall (fun a => xml_name (fst a) = true /\ forallb xml_att_char (snd a) = true) atts.

(* [43] content, [39] element *)
Inductive XContent : list N -> Prop :=
  | XC_nil : XContent []
  | XC_char : forall c r, xml_text_char c = true -> XContent r -> XContent (c :: r)
  | XC_ref : forall e r, xml_is_ref e -> XContent r -> XContent (e ++ r)
  | XC_elem : forall e r, XElement e -> XContent r -> XContent (e ++ r)
with XElement : list N -> Prop :=
  (* [44] EmptyElemTag  '<' Name (S Attribute)* S? '/>' *)
  | XE_empty : forall n atts (sp : bool), xml_name n = true -> xml_atts_ok atts ->
      XElement ([60] ++ n ++ flat_map xml_att atts ++ (if sp then [32] else []) ++ [47; 62])
  (* [40] STag content [42] ETag *)
  | XE_full : forall n atts c, xml_name n = true -> xml_atts_ok atts -> XContent c ->
      XElement ([60] ++ n ++ flat_map xml_att atts ++ [62] ++ c ++ [60; 47] ++ n ++ [62]).

(* [1] document ::= prolog element Misc*, with an empty prolog and white space as Misc *)
Definition WF (doc : list N) : Prop :=
  exists e trail, doc = e ++ trail /\ XElement e /\ forallb xml_space trail = true.

(* character data with references only (no child element): what an escaped text is *)
Inductive XEscaped : list N -> Prop :=
  | XS_nil : XEscaped []
  | XS_char : forall c r, c <> xml_lt -> c <> xml_amp -> XEscaped r -> XEscaped (c :: r)
  | XS_ref : forall e r, xml_is_ref e -> XEscaped r -> XEscaped (e ++ r).

(* ---- what the application receives ---------------------------------------- *)

Fixpoint svg_starts_with (p t : list N) : bool :=
  match p, t with
  | [], _ => true
  | a :: p', b :: t' => (a =? b) && svg_starts_with p' t'
  | _ :: _, [] => false
  end.

(* replacement of the four references; [skip]: characters of a reference still to
   be passed over *)
Fixpoint xml_unescape_go (skip : nat) (t : list N) : list N :=
  match t with
  | [] => []
  | c :: r =>
      match skip with
      | S k => xml_unescape_go k r
      | O =>
          if c =? xml_amp then
            if svg_starts_with [97; 109; 112; 59] r then 38 :: xml_unescape_go 4 r
            else if svg_starts_with [108; 116; 59] r then 60 :: xml_unescape_go 3 r
            else if svg_starts_with [103; 116; 59] r then 62 :: xml_unescape_go 3 r
            else if svg_starts_with [35; 49; 51; 59] r then 13 :: xml_unescape_go 4 r
            else c :: xml_unescape_go 0 r
          else c :: xml_unescape_go 0 r
      end
  end.
Definition xml_unescape (t : list N) : list N := xml_unescape_go 0 t.

(* section 2.11: CR LF -> LF, lone CR -> LF.  [after_cr]: the previous character was a CR *)
Fixpoint xml_eol_go (after_cr : bool) (t : list N) : list N :=
  match t with
  | [] => []
  | c :: r =>
      if c =? 13 then 10 :: xml_eol_go true r
      else if (c =? 10) && after_cr then xml_eol_go false r
      else c :: xml_eol_go false r
  end.
Definition xml_eol (t : list N) : list N := xml_eol_go false t.

(* the text an XML processor hands over for a piece of character data *)
Definition xml_text_value (t : list N) : list N := xml_unescape (xml_eol t).

(* ---- the image of a style (C14, "the classes on each span denote the style in
   effect ... with invert swapping foreground and background against the configured
   defaults").  Kept abstract in the colour type, the naming of colours and the
   list of effects with a class, which are data of the implementation. *)
Section Image.
  Variable colour : Type.
  Variable name : colour -> list N.              (* class of a foreground colour *)
  Variable ul_name : colour -> list N.           (* class of an underline colour *)
  Variable effect_classes : list (N * list N).   (* (effect mask, class) in the order they are listed *)

  Definition svg_has_effect (e m : N) : bool := N.land e m =? m.

  (* (fg, bg, underline colour, effects) -> the same after the swap *)
  Definition svg_spec_invert (invert_mask : N) (dfg dbg : colour)
      (s : option colour * option colour * option colour * N) : option colour * option colour * option colour * N :=
    let '(fg, bg, ul, e) := s in
    if svg_has_effect e invert_mask
    then (Some (match bg with Some c => c | None => dbg end), Some (match fg with Some c => c | None => dfg end), ul, N.ldiff e invert_mask)
    else s.

  Definition svg_spec_classes (s : option colour * option colour * option colour * N) : list (list N) :=
    let '(fg, _, ul, e) := s in
    (match fg with Some c => [name c] | None => [] end)
    ++ (match ul with Some c => [ul_name c] | None => [] end)
    ++ map snd (filter (fun p => svg_has_effect e (fst p)) effect_classes).
End Image.

(* ======================================================================== *)
(* The expected spans, concretely (documented class names of anstyle-svg:
   <slot>-<colour>, slot one of fg / bg / underline, colour one of the sixteen
   names, ansi256-NNN, rgb-RRGGBB; then one class per effect). *)

Definition svg_spec_lit (s : string) : list N := map N_of_ascii (list_ascii_of_string s).
Local Notation "'T' s" := (ltac:(let v := eval vm_compute in (svg_spec_lit s%string) in exact v)) (at level 0, s at level 0, only parsing).

Definition svg_spec_ansi_names : list (list N) :=
  [T"black"; T"red"; T"green"; T"yellow"; T"blue"; T"magenta"; T"cyan"; T"white";
   T"bright-black"; T"bright-red"; T"bright-green"; T"bright-yellow"; T"bright-blue"; T"bright-magenta"; T"bright-cyan"; T"bright-white"].

Definition svg_spec_hexd (d : N) : N := if d <? 10 then 48 + d else 55 + d.
Definition svg_spec_hex2 (b : N) : list N := [svg_spec_hexd (b / 16); svg_spec_hexd (b mod 16)].
Definition svg_spec_dec3 (i : N) : list N := [48 + i / 100; 48 + (i / 10) mod 10; 48 + i mod 10].

Definition svg_spec_colour_name (slot : list N) (c : colour) : list N :=
  match c with
  | CAnsi a => slot ++ T"-" ++ nth (N.to_nat a) svg_spec_ansi_names []
  | CIdx i => slot ++ T"-ansi256-" ++ svg_spec_dec3 i
  | CRgb r g b => slot ++ T"-rgb-" ++ svg_spec_hex2 r ++ svg_spec_hex2 g ++ svg_spec_hex2 b
  end.

(* (effect of Spec/Sgr, class) in the documented order; INVERT and BLINK have none *)
Definition svg_spec_effect_table : list (N * list N) :=
  [(UNDERLINE, T"underline"); (DOUBLE_UNDERLINE, T"double-underline"); (CURLY_UNDERLINE, T"curly-underline");
   (DOTTED_UNDERLINE, T"dotted-underline"); (DASHED_UNDERLINE, T"dashed-underline"); (STRIKETHROUGH, T"strikethrough");
   (BOLD, T"bold"); (ITALIC, T"italic"); (DIMMED, T"dimmed"); (HIDDEN, T"hidden")].

(* the colours a text is drawn with: INVERT swaps foreground and background, an
   unset one standing for the configured default *)
Definition svg_spec_drawn_fg (dfg dbg : colour) (s : sstyle) : option colour :=
  if N.testbit (s_eff s) INVERT then Some (match s_bg s with Some c => c | None => dbg end) else s_fg s.
Definition svg_spec_drawn_bg (dfg dbg : colour) (s : sstyle) : option colour :=
  if N.testbit (s_eff s) INVERT then Some (match s_fg s with Some c => c | None => dfg end) else s_bg s.

Definition svg_spec_fg_classes (dfg dbg : colour) (s : sstyle) : list (list N) :=
  (match svg_spec_drawn_fg dfg dbg s with Some c => [svg_spec_colour_name (T"fg") c] | None => [] end)
  ++ (match s_ul s with Some c => [svg_spec_colour_name (T"underline") c] | None => [] end)
  ++ map snd (filter (fun p => N.testbit (s_eff s) (fst p)) svg_spec_effect_table).

Definition svg_spec_bg_class (dfg dbg : colour) (s : sstyle) : option (list N) :=
  match svg_spec_drawn_bg dfg dbg s with Some c => Some (svg_spec_colour_name (T"bg") c) | None => None end.

(* a piece of a line: ((foreground classes, background class), text) *)
Definition svg_piece : Set := ((list (list N) * option (list N)) * list N)%type.

Fixpoint svg_lists_eqb (a b : list N) : bool :=
  match a, b with
  | [], [] => true
  | x :: a', y :: b' => (x =? y) && svg_lists_eqb a' b'
  | _, _ => false
  end.
Fixpoint svg_classes_eqb (a b : list (list N)) : bool :=
  match a, b with
  | [], [] => true
  | x :: a', y :: b' => svg_lists_eqb x y && svg_classes_eqb a' b'
  | _, _ => false
  end.
Definition svg_key_eqb (a b : list (list N) * option (list N)) : bool :=
  svg_classes_eqb (fst a) (fst b)
  && match snd a, snd b with Some x, Some y => svg_lists_eqb x y | None, None => true | _, _ => false end.

(* neighbours that look the same are one piece (how the text is cut into spans is
   not part of the property) *)
Fixpoint svg_merge_pieces (l : list svg_piece) : list svg_piece :=
  match l with
  | [] => []
  | (k, t) :: rest =>
      match svg_merge_pieces rest with
      | (k', t') :: rest' => if svg_key_eqb k k' then (k, t ++ t') :: rest' else (k, t) :: (k', t') :: rest'
      | [] => [(k, t)]
      end
  end.

(* the styled characters of the runs *)
Definition svg_spec_chars (runs : list (sstyle * list N)) : list (sstyle * N) :=
  flat_map (fun r => map (fun c => (fst r, c)) (snd r)) runs.

(* one CR at the end dropped, on styled characters *)
Fixpoint svg_spec_drop_cr (l : list (sstyle * N)) : list (sstyle * N) :=
  match l with
  | [] => []
  | x :: r => match r with
              | [] => if snd x =? 13 then [] else [x]
              | _ :: _ => x :: svg_spec_drop_cr r
              end
  end.

(* as svg_split_acc, on styled characters *)
Fixpoint svg_spec_split (cur l : list (sstyle * N)) : list (list (sstyle * N)) :=
  match l with
  | [] => [cur]
  | x :: r => if snd x =? 10 then svg_spec_drop_cr cur :: svg_spec_split [] r else svg_spec_split (cur ++ [x]) r
  end.

Definition svg_spec_row (dfg dbg : colour) (line : list (sstyle * N)) : list svg_piece :=
  svg_merge_pieces (map (fun x => ((svg_spec_fg_classes dfg dbg (fst x), svg_spec_bg_class dfg dbg (fst x)), [snd x])) line).

(* the expected rows of the rendering of these runs under these defaults *)
Definition svg_spec_rows (dfg dbg : colour) (runs : list (sstyle * list N)) : list (list svg_piece) :=
  match svg_spec_chars runs with
  | [] => []
  | l => map (svg_spec_row dfg dbg) (svg_spec_split [] l)
  end.
