(* Spec/Targets.v -- what the values of the five styling libraries that anstyle has
   adapters for DENOTE, as finite meaning tables written from the libraries' public
   API documentation (ansi_term 0.12, crossterm 0.28, owo-colors 4.0, termcolor 1.1.3
   -- the declared minimum --, yansi 1.0; syntect 5 for the opposite direction), and
   what the property C16 expects of a conversion.  Independent of Model/ and
   Generated/.  Every entry of the colour and attribute tables is validated against
   the real library by the correspondence run (the library renders a style that
   holds only that constructor; the bytes are interpreted by Spec/Sgr).

   A target value is abstract: a colour is a named constructor (ASCII name), an
   indexed colour or an RGB colour; a style is three optional colours and the list
   of attribute names that were switched on (names = the identifiers of the
   library's API: builder methods for ansi_term / owo-colors / yansi, `Attribute`
   variants for crossterm, `ColorSpec` setters for termcolor).

   Decisions (each one is a reading of the property text, fixed here once):
   * expressible effects = the effects the library's API has a constructor for.
     All five have bold, dimmed, italic, underline, blink, invert, hidden,
     strikethrough EXCEPT termcolor, which has bold, dimmed, italic, underline
     (`set_strikethrough` exists only from termcolor 1.2, above the declared
     minimum 1.1.3, so it is not expressible at the declared version; `set_intense`
     is ONE flag for foreground and background together, so the brightness of a
     named colour is not expressible per slot: hue only);
   * crossterm additionally has DoubleUnderlined, Undercurled, Underdotted,
     Underdashed and an underline colour; no other target has an underline colour;
   * ansi_term's named colours carry no brightness.  The adapter expresses a bright
     FOREGROUND by additionally switching bold on (the legacy "bold = bright"
     convention); [ad_project] records exactly that: bold is on iff BOLD is set or
     the foreground is a bright 16-colour value; background brightness is dropped;
     nothing else is added;
   * owo-colors and yansi have bright colour constructors;
   * entries 0..15 of the 256-colour palette ARE the sixteen ANSI colours (xterm;
     anstyle's own Ansi256Color::into_ansi / from_ansi): crossterm renders its named
     colours as `38;5;n` with n < 16, so rendered colours are compared modulo that
     identification ([ad_norm_colour]); the tables themselves and the theorems about
     them do not use it. *)
From Coq Require Import String Ascii NArith List Bool.
From AV Require Import Spec.Vt Spec.Sgr.
Import ListNotations.
Local Open Scope N_scope.

Inductive ad_lib : Set := AdAnsiTerm | AdCrossterm | AdOwo | AdTermcolor | AdYansi.

Inductive ad_tcolor : Set :=
  | AdNamed (name : list N)
  | AdFixed (n : N)
  | AdRgb (r g b : N).

Record ad_tstyle : Set := mkAdT {
  ad_t_fg : option ad_tcolor;
  ad_t_bg : option ad_tcolor;
  ad_t_ul : option ad_tcolor;
  ad_t_attrs : list (list N)
}.

(* ---- names --------------------------------------------------------------- *)

Fixpoint ad_str (s : string) : list N :=
  match s with
  | EmptyString => []
  | String a r => N_of_ascii a :: ad_str r
  end.

Fixpoint ad_name_eqb (a b : list N) : bool :=
  match a, b with
  | [], [] => true
  | x :: a', y :: b' => (x =? y) && ad_name_eqb a' b'
  | _, _ => false
  end.

Fixpoint ad_assoc {A : Type} (k : list N) (l : list (list N * A)) : option A :=
  match l with
  | [] => None
  | (k', v) :: t => if ad_name_eqb k k' then Some v else ad_assoc k t
  end.

Definition ad_names {A : Type} (l : list (string * A)) : list (list N * A) :=
  map (fun p => (ad_str (fst p), snd p)) l.

(* ---- colour constructors ------------------------------------------------- *)
(* value: [Some c] = the colour a terminal shows, [None] = the terminal's default *)

(* ansi_term::Colour -- "Colour #0 (foreground code 30, background code 40)" ..
   "Colour #7 (foreground code 37, background code 47)" *)
Definition ad_ansi_term_colours : list (list N * option colour) := Eval vm_compute in ad_names
  [("Black", Some (CAnsi 0)); ("Red", Some (CAnsi 1)); ("Green", Some (CAnsi 2)); ("Yellow", Some (CAnsi 3));
   ("Blue", Some (CAnsi 4)); ("Purple", Some (CAnsi 5)); ("Cyan", Some (CAnsi 6)); ("White", Some (CAnsi 7))]%string.

(* crossterm::style::Color -- the unprefixed names are the LIGHT colours, `Dark*`
   the normal ones; "Grey" is normal white and "DarkGrey" bright black *)
Definition ad_crossterm_colours : list (list N * option colour) := Eval vm_compute in ad_names
  [("Reset", None);
   ("Black", Some (CAnsi 0)); ("DarkRed", Some (CAnsi 1)); ("DarkGreen", Some (CAnsi 2)); ("DarkYellow", Some (CAnsi 3));
   ("DarkBlue", Some (CAnsi 4)); ("DarkMagenta", Some (CAnsi 5)); ("DarkCyan", Some (CAnsi 6)); ("Grey", Some (CAnsi 7));
   ("DarkGrey", Some (CAnsi 8)); ("Red", Some (CAnsi 9)); ("Green", Some (CAnsi 10)); ("Yellow", Some (CAnsi 11));
   ("Blue", Some (CAnsi 12)); ("Magenta", Some (CAnsi 13)); ("Cyan", Some (CAnsi 14)); ("White", Some (CAnsi 15))]%string.

(* owo_colors::AnsiColors (= owo_colors::colored::Color) *)
Definition ad_owo_colours : list (list N * option colour) := Eval vm_compute in ad_names
  [("Default", None);
   ("Black", Some (CAnsi 0)); ("Red", Some (CAnsi 1)); ("Green", Some (CAnsi 2)); ("Yellow", Some (CAnsi 3));
   ("Blue", Some (CAnsi 4)); ("Magenta", Some (CAnsi 5)); ("Cyan", Some (CAnsi 6)); ("White", Some (CAnsi 7));
   ("BrightBlack", Some (CAnsi 8)); ("BrightRed", Some (CAnsi 9)); ("BrightGreen", Some (CAnsi 10)); ("BrightYellow", Some (CAnsi 11));
   ("BrightBlue", Some (CAnsi 12)); ("BrightMagenta", Some (CAnsi 13)); ("BrightCyan", Some (CAnsi 14)); ("BrightWhite", Some (CAnsi 15))]%string.

(* termcolor::Color (with `intense` off, which is how ColorSpec::new() starts) *)
Definition ad_termcolor_colours : list (list N * option colour) := Eval vm_compute in ad_names
  [("Black", Some (CAnsi 0)); ("Blue", Some (CAnsi 4)); ("Green", Some (CAnsi 2)); ("Red", Some (CAnsi 1));
   ("Cyan", Some (CAnsi 6)); ("Magenta", Some (CAnsi 5)); ("Yellow", Some (CAnsi 3)); ("White", Some (CAnsi 7))]%string.

(* yansi::Color; `Primary` is "the terminal's default colour" *)
Definition ad_yansi_colours : list (list N * option colour) := Eval vm_compute in ad_names
  [("Primary", None);
   ("Black", Some (CAnsi 0)); ("Red", Some (CAnsi 1)); ("Green", Some (CAnsi 2)); ("Yellow", Some (CAnsi 3));
   ("Blue", Some (CAnsi 4)); ("Magenta", Some (CAnsi 5)); ("Cyan", Some (CAnsi 6)); ("White", Some (CAnsi 7));
   ("BrightBlack", Some (CAnsi 8)); ("BrightRed", Some (CAnsi 9)); ("BrightGreen", Some (CAnsi 10)); ("BrightYellow", Some (CAnsi 11));
   ("BrightBlue", Some (CAnsi 12)); ("BrightMagenta", Some (CAnsi 13)); ("BrightCyan", Some (CAnsi 14)); ("BrightWhite", Some (CAnsi 15))]%string.

Definition ad_colour_table (l : ad_lib) : list (list N * option colour) :=
  match l with
  | AdAnsiTerm => ad_ansi_term_colours
  | AdCrossterm => ad_crossterm_colours
  | AdOwo => ad_owo_colours
  | AdTermcolor => ad_termcolor_colours
  | AdYansi => ad_yansi_colours
  end.

(* the constructors for an indexed and for an RGB colour *)
Definition ad_fixed_ctor (l : ad_lib) : list N := Eval vm_compute in
  match l with
  | AdAnsiTerm => ad_str "Fixed" | AdCrossterm => ad_str "AnsiValue" | AdOwo => ad_str "Xterm"
  | AdTermcolor => ad_str "Ansi256" | AdYansi => ad_str "Fixed"
  end.
Definition ad_rgb_ctor (l : ad_lib) : list N := Eval vm_compute in
  match l with
  | AdAnsiTerm => ad_str "RGB" | AdCrossterm => ad_str "Rgb" | AdOwo => ad_str "Rgb"
  | AdTermcolor => ad_str "Rgb" | AdYansi => ad_str "Rgb"
  end.

(* outer [None] = the library has no such constructor *)
Definition ad_colour_meaning (l : ad_lib) (c : ad_tcolor) : option (option colour) :=
  match c with
  | AdNamed nm => ad_assoc nm (ad_colour_table l)
  | AdFixed n => Some (Some (CIdx n))
  | AdRgb r g b => Some (Some (CRgb r g b))
  end.

Definition ad_slot_meaning (l : ad_lib) (c : option ad_tcolor) : option (option colour) :=
  match c with
  | None => Some None
  | Some c => ad_colour_meaning l c
  end.

(* only crossterm's ContentStyle has an underline colour *)
Definition ad_has_ul (l : ad_lib) : bool := match l with AdCrossterm => true | _ => false end.
(* named colours carry their own brightness *)
Definition ad_has_bright (l : ad_lib) : bool :=
  match l with AdCrossterm | AdOwo | AdYansi => true | AdAnsiTerm | AdTermcolor => false end.

(* ---- attributes ---------------------------------------------------------- *)
(* attribute name -> the effect (Spec/Sgr numbering) it switches on *)

Definition ad_ansi_term_attrs : list (list N * N) := Eval vm_compute in ad_names
  [("bold", BOLD); ("dimmed", DIMMED); ("italic", ITALIC); ("underline", UNDERLINE); ("blink", BLINK);
   ("reverse", INVERT); ("hidden", HIDDEN); ("strikethrough", STRIKETHROUGH)]%string.

(* crossterm::style::Attribute; the remaining variants (Fraktur, Framed, Encircled,
   OverLined, the No* / Not* ones, Reset, ...) denote no anstyle effect *)
Definition ad_crossterm_attrs : list (list N * N) := Eval vm_compute in ad_names
  [("Bold", BOLD); ("Dim", DIMMED); ("Italic", ITALIC); ("Underlined", UNDERLINE);
   ("DoubleUnderlined", DOUBLE_UNDERLINE); ("Undercurled", CURLY_UNDERLINE); ("Underdotted", DOTTED_UNDERLINE);
   ("Underdashed", DASHED_UNDERLINE); ("SlowBlink", BLINK); ("RapidBlink", BLINK); ("Reverse", INVERT);
   ("Hidden", HIDDEN); ("CrossedOut", STRIKETHROUGH)]%string.

Definition ad_owo_attrs : list (list N * N) := Eval vm_compute in ad_names
  [("bold", BOLD); ("dimmed", DIMMED); ("italic", ITALIC); ("underline", UNDERLINE); ("blink", BLINK);
   ("blink_fast", BLINK); ("reversed", INVERT); ("hidden", HIDDEN); ("strikethrough", STRIKETHROUGH)]%string.

(* termcolor 1.1.3 *)
Definition ad_termcolor_attrs : list (list N * N) := Eval vm_compute in ad_names
  [("set_bold", BOLD); ("set_dimmed", DIMMED); ("set_italic", ITALIC); ("set_underline", UNDERLINE)]%string.

Definition ad_yansi_attrs : list (list N * N) := Eval vm_compute in ad_names
  [("bold", BOLD); ("dim", DIMMED); ("italic", ITALIC); ("underline", UNDERLINE); ("blink", BLINK);
   ("rapid_blink", BLINK); ("invert", INVERT); ("conceal", HIDDEN); ("strike", STRIKETHROUGH)]%string.

Definition ad_attr_table (l : ad_lib) : list (list N * N) :=
  match l with
  | AdAnsiTerm => ad_ansi_term_attrs
  | AdCrossterm => ad_crossterm_attrs
  | AdOwo => ad_owo_attrs
  | AdTermcolor => ad_termcolor_attrs
  | AdYansi => ad_yansi_attrs
  end.

(* the effects the target can express at all, as a bit set *)
Definition ad_expressible (l : ad_lib) : N :=
  fold_right (fun p acc => N.lor (bit (snd p)) acc) 0 (ad_attr_table l).

Fixpoint ad_attrs_meaning (l : ad_lib) (names : list (list N)) : option N :=
  match names with
  | [] => Some 0
  | nm :: rest =>
      match ad_assoc nm (ad_attr_table l), ad_attrs_meaning l rest with
      | Some k, Some m => Some (N.lor (bit k) m)
      | _, _ => None
      end
  end.

(* ---- the meaning of a target style -------------------------------------- *)

Definition ad_meaning (l : ad_lib) (t : ad_tstyle) : option sstyle :=
  match ad_slot_meaning l (ad_t_fg t), ad_slot_meaning l (ad_t_bg t),
        (if ad_has_ul l then ad_slot_meaning l (ad_t_ul t)
         else match ad_t_ul t with None => Some None | Some _ => None end),
        ad_attrs_meaning l (ad_t_attrs t) with
  | Some fg, Some bg, Some ul, Some e => Some (mkStyle fg bg ul e)
  | _, _, _, _ => None
  end.

(* ---- what the property expects of a conversion --------------------------- *)

Definition ad_is_bright (c : option colour) : bool :=
  match c with Some (CAnsi i) => 8 <=? i | _ => false end.

(* a colour as far as the target can express it: always the hue, the brightness
   where named colours have one; indexed and RGB values exactly *)
Definition ad_project_colour (l : ad_lib) (c : option colour) : option colour :=
  match c with
  | Some (CAnsi i) => Some (CAnsi (if ad_has_bright l then i else i mod 8))
  | other => other
  end.

Definition ad_project_effects (l : ad_lib) (s : sstyle) : N :=
  N.lor (N.land (s_eff s) (ad_expressible l))
        (match l with
         | AdAnsiTerm => if ad_is_bright (s_fg s) then bit BOLD else 0
         | _ => 0
         end).

Definition ad_project (l : ad_lib) (s : sstyle) : sstyle :=
  mkStyle (ad_project_colour l (s_fg s)) (ad_project_colour l (s_bg s))
          (if ad_has_ul l then ad_project_colour l (s_ul s) else None)
          (ad_project_effects l s).

(* the styles the anstyle type can hold *)
Definition ad_colour_ok (c : option colour) : Prop :=
  match c with Some (CAnsi i) => i < 16 | _ => True end.
Definition ad_src_ok (s : sstyle) : Prop :=
  ad_colour_ok (s_fg s) /\ ad_colour_ok (s_bg s) /\ ad_colour_ok (s_ul s) /\ s_eff s < 4096.

(* vocabulary of the per-slot theorems *)
Definition ad_hue_of (m : option (option colour)) : option N :=
  match m with Some (Some (CAnsi j)) => Some (j mod 8) | _ => None end.
Definition ad_bright_of (m : option (option colour)) : option bool :=
  match m with Some (Some (CAnsi j)) => Some (8 <=? j) | _ => None end.

Definition ad_hue_kept (l : ad_lib) (src : option colour) (tgt : option ad_tcolor) : Prop :=
  forall i, src = Some (CAnsi i) -> ad_hue_of (ad_slot_meaning l tgt) = Some (i mod 8).
Definition ad_brightness_kept (l : ad_lib) (src : option colour) (tgt : option ad_tcolor) : Prop :=
  forall i, src = Some (CAnsi i) -> ad_bright_of (ad_slot_meaning l tgt) = Some (8 <=? i).
Definition ad_exact_kept (l : ad_lib) (src : option colour) (tgt : option ad_tcolor) : Prop :=
  (forall n, src = Some (CIdx n) -> tgt = Some (AdFixed n) /\ ad_slot_meaning l tgt = Some (Some (CIdx n))) /\
  (forall r g b, src = Some (CRgb r g b) -> tgt = Some (AdRgb r g b) /\ ad_slot_meaning l tgt = Some (Some (CRgb r g b))).

(* ---- real renderings ----------------------------------------------------- *)
(* The library renders the one-character text "x" in some style; the rendition
   the terminal gives that character, by Spec/Vt + Spec/Sgr. *)
Definition ad_interp_x (bs : list N) : option sstyle :=
  match fst (interp style_default (spec_events bs)) with
  | [(s, 120)] => Some s
  | _ => None
  end.

Definition ad_norm_colour (c : option colour) : option colour :=
  match c with
  | Some (CIdx n) => if n <? 16 then Some (CAnsi n) else c
  | _ => c
  end.
Definition ad_norm_style (s : sstyle) : sstyle :=
  mkStyle (ad_norm_colour (s_fg s)) (ad_norm_colour (s_bg s)) (ad_norm_colour (s_ul s)) (s_eff s).

(* is [bs] a correct rendering of a text in rendition [want]? *)
Definition ad_render_ok (want : sstyle) (bs : list N) : bool :=
  match ad_interp_x bs with
  | Some got => sstyle_eqb (ad_norm_style got) (ad_norm_style want)
  | None => false
  end.

(* the same, leaving the underline kind out of the comparison *)
Definition ad_render_ok_but_underline (want : sstyle) (bs : list N) : bool :=
  match ad_interp_x bs with
  | Some got => sstyle_eqb (ad_norm_style (eff_off_mask got underline_mask)) (ad_norm_style (eff_off_mask want underline_mask))
  | None => false
  end.

(* a terminal has one underline attribute: a rendered style with two underline
   kinds has no rendition that shows both (Spec/Sgr keeps the last one), so the
   end-to-end comparison of renderings is made on styles with at most one *)
Definition ad_one_underline (e : N) : bool :=
  let u := N.land e underline_mask in
  (u =? 0) || (u =? bit UNDERLINE) || (u =? bit DOUBLE_UNDERLINE) || (u =? bit CURLY_UNDERLINE)
  || (u =? bit DOTTED_UNDERLINE) || (u =? bit DASHED_UNDERLINE).

(* ---- syntect ------------------------------------------------------------- *)
(* syntect::highlighting::FontStyle: "BOLD = 1, UNDERLINE = 2, ITALIC = 4";
   flag name -> (bit position in FontStyle, the effect it denotes) *)
Definition ad_syntect_flags : list (list N * (N * N)) := Eval vm_compute in ad_names
  [("BOLD", (0, BOLD)); ("UNDERLINE", (1, UNDERLINE)); ("ITALIC", (2, ITALIC))]%string.

(* a syntect colour is (r, g, b, a); what the property expects of to_anstyle: the
   RGB colours exactly (alpha has no counterpart), no underline colour, and exactly
   the effects the font style names *)
Definition ad_syntect_effects (font : N) : N :=
  fold_right (fun p acc => if N.testbit font (fst (snd p)) then N.lor (bit (snd (snd p))) acc else acc) 0 ad_syntect_flags.

Definition ad_syntect_expected (fg bg : N * N * N * N) (font : N) : sstyle :=
  let rgb := fun c : N * N * N * N => match c with (r, g, b, _) => CRgb r g b end in
  mkStyle (Some (rgb fg)) (Some (rgb bg)) None (ad_syntect_effects font).
