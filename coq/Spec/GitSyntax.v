(* Spec/GitSyntax.v -- git's colour-description syntax (git-config(1), "color"
   values) as the statement of C11 gives it, and what a description denotes.
   Written from the statement and the git documentation, not from the code: no
   reference to Model/ or Generated/.

     description := words separated by white space (any amount, also leading / trailing)
     word        := colour | attribute                     -- in any (ASCII) letter case
     colour      := black red green yellow blue magenta cyan white      (colours 0..7)
                  | normal | -1                                          (no colour)
                  | a decimal number 0..255                              (256-colour palette)
                  | #rgb | #rrggbb  (hexadecimal digits only)            (24-bit)
     attribute   := [no | no-] (bold | dim | ul | blink | reverse | italic | strike)
     at most two colours: the first is the foreground, the second the background;
     attributes form a set, a later mention overrides an earlier one.

   A word is a list of code points.  Left open (the statement is silent, see
   DESIGN C11): '+' followed by a number; words holding U+212A or U+0130. *)
From Coq Require Import NArith List Bool.
From AV Require Import Spec.StyleRec Spec.SgrCodes.
Import ListNotations.
Local Open Scope N_scope.

Definition word := list N.

(* ---- vocabulary -------------------------------------------------------------- *)

Inductive gattr : Set := ABold | ADim | AUl | ABlink | AReverse | AItalic | AStrike.

Definition all_attrs : list gattr := [ABold; ADim; AUl; ABlink; AReverse; AItalic; AStrike].

Definition attr_name (a : gattr) : word :=
  match a with
  | ABold => [98; 111; 108; 100]                       (* bold *)
  | ADim => [100; 105; 109]                            (* dim *)
  | AUl => [117; 108]                                  (* ul *)
  | ABlink => [98; 108; 105; 110; 107]                 (* blink *)
  | AReverse => [114; 101; 118; 101; 114; 115; 101]    (* reverse *)
  | AItalic => [105; 116; 97; 108; 105; 99]            (* italic *)
  | AStrike => [115; 116; 114; 105; 107; 101]          (* strike *)
  end.

Definition attr_bit (a : gattr) : N :=
  match a with
  | ABold => BOLD
  | ADim => DIMMED
  | AUl => UNDERLINE
  | ABlink => BLINK
  | AReverse => INVERT
  | AItalic => ITALIC
  | AStrike => STRIKETHROUGH
  end.

Definition NO : word := [110; 111].       (* no *)
Definition DASH : N := 45.
Definition HASH : N := 35.
Definition SPACE : N := 32.
Definition NORMAL : word := [110; 111; 114; 109; 97; 108].   (* normal *)

Inductive gtoken : Set :=
  | GColor (c : option tcolor)
  | GAttr (on : bool) (a : gattr).

(* the 21 attribute words *)
Definition attr_words : list (word * gtoken) :=
  flat_map (fun a => [(attr_name a, GAttr true a);
                      (NO ++ attr_name a, GAttr false a);
                      (NO ++ DASH :: attr_name a, GAttr false a)]) all_attrs.

(* the eight colour names in palette order, and the two words for "no colour" *)
Definition color_names : list word :=
  [[98; 108; 97; 99; 107];               (* black *)
   [114; 101; 100];                      (* red *)
   [103; 114; 101; 101; 110];            (* green *)
   [121; 101; 108; 108; 111; 119];       (* yellow *)
   [98; 108; 117; 101];                  (* blue *)
   [109; 97; 103; 101; 110; 116; 97];    (* magenta *)
   [99; 121; 97; 110];                   (* cyan *)
   [119; 104; 105; 116; 101]].           (* white *)

Fixpoint number_from (i : N) (l : list word) : list (word * gtoken) :=
  match l with
  | [] => []
  | w :: t => (w, GColor (Some (TAnsi i))) :: number_from (i + 1) t
  end.

Definition color_words : list (word * gtoken) :=
  number_from 0 color_names ++ [(NORMAL, GColor None); ([DASH; 49], GColor None)].

Fixpoint lookup (w : word) (tbl : list (word * gtoken)) : option gtoken :=
  match tbl with
  | [] => None
  | (k, t) :: rest => if bytes_eqb w k then Some t else lookup w rest
  end.

(* hexadecimal digits *)
Definition is_hex (c : N) : bool := between 48 c 57 || between 97 c 102 || between 65 c 70.
Definition hex_value (c : N) : N :=
  if between 48 c 57 then c - 48 else if between 97 c 102 then c - 87 else c - 55.

(* '#rgb' denotes the three single-digit values, '#rrggbb' the three bytes *)
Definition hex_color (digits : word) : option gtoken :=
  if forallb is_hex digits then
    match digits with
    | [r; g; b] => Some (GColor (Some (TRgb (hex_value r) (hex_value g) (hex_value b))))
    | [r1; r0; g1; g0; b1; b0] =>
        Some (GColor (Some (TRgb (16 * hex_value r1 + hex_value r0)
                                 (16 * hex_value g1 + hex_value g0)
                                 (16 * hex_value b1 + hex_value b0))))
    | _ => None
    end
  else None.

Definition ascii_lower (c : N) : N := if between 65 c 90 then c + 32 else c.

(* a word already in lower case *)
Definition classify_lower (w : word) : option gtoken :=
  match lookup w attr_words with
  | Some t => Some t
  | None =>
      match lookup w color_words with
      | Some t => Some t
      | None =>
          match w with
          | c :: digits =>
              if c =? HASH then hex_color digits
              else match strict_u8 w with
                   | Some n => Some (GColor (Some (TAnsi256 n)))
                   | None => None
                   end
          | [] => None
          end
      end
  end.

(* the grammar: [classify w = Some t] iff [w] is a word of the syntax, spelling [t] *)
Definition classify (w : word) : option gtoken := classify_lower (map ascii_lower w).

(* the two characters outside ASCII whose Unicode lower case holds an ASCII letter:
   U+212A KELVIN SIGN (-> k) and U+0130 LATIN CAPITAL LETTER I WITH DOT ABOVE
   (-> i, U+0307).  "Any letter case" does not say whether they spell k / i. *)
Definition odd_case (c : N) : bool := (c =? 8490) || (c =? 304).

(* not decided by the statement: '+' followed by a number 0..255, and words spelt
   with one of the two characters above *)
Definition open_word (w : word) : bool := open_field (map ascii_lower w) || existsb odd_case w.

(* ---- white space ------------------------------------------------------------------ *)

(* Unicode White_Space (PropList.txt) *)
Definition is_white_space (c : N) : bool :=
  between 9 c 13 || (c =? 32) || (c =? 133) || (c =? 160) || (c =? 5760) || between 8192 c 8202
  || (c =? 8232) || (c =? 8233) || (c =? 8239) || (c =? 8287) || (c =? 12288).

Definition flush (cur : list N) (rest : list word) : list word :=
  match cur with [] => rest | _ => rev cur :: rest end.

(* the maximal runs of non-white-space characters *)
Fixpoint words_acc (cur : list N) (s : list N) : list word :=
  match s with
  | [] => flush cur []
  | c :: rest => if is_white_space c then flush cur (words_acc [] rest) else words_acc (c :: cur) rest
  end.
Definition words (s : list N) : list word := words_acc [] s.

(* ---- denotation ---------------------------------------------------------------------- *)

Fixpoint colors_of (ts : list gtoken) : list (option tcolor) :=
  match ts with
  | [] => []
  | GColor c :: t => c :: colors_of t
  | GAttr _ _ :: t => colors_of t
  end.

Definition apply_attr (e : N) (t : gtoken) : N :=
  match t with
  | GAttr true a => eff_insert e (attr_bit a)
  | GAttr false a => eff_remove e (attr_bit a)
  | GColor _ => e
  end.

(* first colour foreground, second background; attributes folded left, so that a
   later mention (plain or negated) of an attribute overrides an earlier one *)
Definition denote (ts : list gtoken) : tstyle :=
  mkTStyle (nth 0 (colors_of ts) None) (nth 1 (colors_of ts) None) None (fold_left apply_attr ts 0).

(* "a later mention wins", said directly: the last mention of an attribute in a
   token list, if any (Proofs/GitDenote.v: an attribute is in the denoted set iff
   its last mention is not negated) *)
Definition gattr_eqb (a b : gattr) : bool :=
  match a, b with
  | ABold, ABold | ADim, ADim | AUl, AUl | ABlink, ABlink | AReverse, AReverse | AItalic, AItalic | AStrike, AStrike => true
  | _, _ => false
  end.

Fixpoint last_mention (a : gattr) (ts : list gtoken) : option bool :=
  match ts with
  | [] => None
  | t :: rest =>
      match last_mention a rest with
      | Some on => Some on
      | None => match t with
                | GAttr on a' => if gattr_eqb a a' then Some on else None
                | GColor _ => None
                end
      end
  end.

(* ---- the answer for a list of words --------------------------------------------------- *)

Inductive git_answer : Set :=
  | GitOpen                       (* the statement does not decide this input *)
  | GitDecided (r : git_result).

(* left to right: the first word outside the vocabulary is the unknown word, the
   third colour is the extra colour; otherwise the description is accepted *)
Fixpoint scan (ws : list word) (ncol : nat) (acc : list gtoken) : git_answer :=
  match ws with
  | [] => GitDecided (GOk (denote (rev acc)))
  | w :: rest =>
      if open_word w then GitOpen
      else match classify w with
           | None => GitDecided (GUnknownWord w)
           | Some (GColor c) =>
               if Nat.leb 2 ncol then GitDecided (GExtraColor w) else scan rest (S ncol) (GColor c :: acc)
           | Some t => scan rest ncol (t :: acc)
           end
  end.

Definition spec_git_words (ws : list word) : git_answer := scan ws 0 [].
Definition spec_git (s : list N) : git_answer := spec_git_words (words s).

(* ---- printing an expressible style ---------------------------------------------------- *)

Definition hex_digit (v : N) : N := if v <? 10 then 48 + v else 87 + v.
Definition hex2 (v : N) : word := [hex_digit (v / 16); hex_digit (v mod 16)].

Definition print_color (c : tcolor) : word :=
  match c with
  | TAnsi i => nth (N.to_nat i) color_names []
  | TAnsi256 n => dec n
  | TRgb r g b => HASH :: hex2 r ++ hex2 g ++ hex2 b
  end.

Definition expressible_color (c : option tcolor) : bool :=
  match c with
  | None => true
  | Some (TAnsi i) => i <? 8
  | Some (TAnsi256 n) => n <=? 255
  | Some (TRgb r g b) => (r <=? 255) && (g <=? 255) && (b <=? 255)
  end.

Definition attr_mask : N := fold_left (fun m a => N.lor m (2 ^ attr_bit a)) all_attrs 0.

(* styles the syntax can express: no underline colour, colours 0..7 / 0..255 / 24-bit,
   only the seven attributes *)
Definition expressible (st : tstyle) : bool :=
  match t_ul st with None => true | Some _ => false end
  && expressible_color (t_fg st) && expressible_color (t_bg st)
  && (t_eff st <? 4096) && (N.land (t_eff st) attr_mask =? t_eff st).

Definition git_print (st : tstyle) : list word :=
  match t_fg st, t_bg st with
  | None, None => []
  | Some f, None => [print_color f]
  | None, Some b => [NORMAL; print_color b]
  | Some f, Some b => [print_color f; print_color b]
  end
  ++ flat_map (fun a => if N.testbit (t_eff st) (attr_bit a) then [attr_name a] else []) all_attrs.

Definition git_print_string (st : tstyle) : list N := join SPACE (git_print st).
