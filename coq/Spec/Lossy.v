(* Spec/Lossy.v -- specification of lossy colour conversion (C10), written from the
   property text and the public xterm 256-colour layout; independent of Model/ and
   Generated/.

   Vocabulary: an RGB colour is a triple of components (each < 256); a colour is
   one of the three kinds; a 16-colour value is its ANSI number 0..15 (Black=0 ..
   White=7, BrightBlack=8 .. BrightWhite=15); a user palette is a list of 16 RGB
   colours.

   The distance is the "red-mean" weighted squared distance (compuphase.com/
   cmetric.htm) on the integer scale the crate documents for itself ("modified to
   avoid sqrt"): with S = r1 + r2 (twice the red mean) and deltas dr, dg, db,

        D = (2*512 + S) * dr^2  +  4*256 * dg^2  +  (2*767 - S) * db^2 .

   NOTE (deviation from the cited source, recorded, not hidden): the compuphase
   formula is  (2 + rm/256) dr^2 + 4 dg^2 + (2 + (255 - rm)/256) db^2  with
   rm = S/2; on the scale where the red and blue weights are 2*512 + S and
   2*767 - S (i.e. multiplied by 512) its green weight is 4*512 = 2048, not
   4*256 = 1024.  The crate therefore weighs green half as much as the cited
   metric.  The property text only says "red-mean weighted distance"; this
   specification fixes the crate's own scale, and [compuphase_distance] below is
   the literal one (used for the recorded witness in Proofs/Lossy.v only). *)
From Coq Require Import ZArith NArith List Bool.
Import ListNotations.

Definition rgb : Set := (N * N * N)%type.

Inductive color : Set :=
  | Ansi (a : N)        (* 16-colour value, ANSI number *)
  | Ansi256 (i : N)     (* index into the 256-colour palette *)
  | Rgb (c : rgb).

Definition rgb_ok (c : rgb) : Prop :=
  let '(r, g, b) := c in (r < 256 /\ g < 256 /\ b < 256)%N.

Definition palette_ok (p : list rgb) : Prop := length p = 16%nat /\ Forall rgb_ok p.

Definition color_ok (c : color) : Prop :=
  match c with
  | Ansi a => (a < 16)%N
  | Ansi256 i => (i < 256)%N
  | Rgb c => rgb_ok c
  end.

(* ---- the distance --------------------------------------------------------- *)

Local Open Scope Z_scope.

Definition redmean_distance (x y : rgb) : Z :=
  let '(r1, g1, b1) := x in
  let '(r2, g2, b2) := y in
  let s := Z.of_N r1 + Z.of_N r2 in
  let dr := Z.of_N r1 - Z.of_N r2 in
  let dg := Z.of_N g1 - Z.of_N g2 in
  let db := Z.of_N b1 - Z.of_N b2 in
  (1024 + s) * (dr * dr) + 1024 * (dg * dg) + (1534 - s) * (db * db).

(* the cited formula on the same scale (green weight 4 * 512) *)
Definition compuphase_distance (x y : rgb) : Z :=
  let '(r1, g1, b1) := x in
  let '(r2, g2, b2) := y in
  let s := Z.of_N r1 + Z.of_N r2 in
  let dr := Z.of_N r1 - Z.of_N r2 in
  let dg := Z.of_N g1 - Z.of_N g2 in
  let db := Z.of_N b1 - Z.of_N b2 in
  (1024 + s) * (dr * dr) + 2048 * (dg * dg) + (1534 - s) * (db * db).

(* ---- nearest candidate, ties to the lowest index -------------------------- *)

(* [i] is the index of a candidate of minimal distance, and every candidate at a
   lower index is strictly farther *)
Definition is_argmin_lowest {A : Type} (d : A -> Z) (cands : list A) (i : N) : Prop :=
  exists x, nth_error cands (N.to_nat i) = Some x /\
    (forall j y, nth_error cands j = Some y -> d x <= d y) /\
    (forall j y, (j < N.to_nat i)%nat -> nth_error cands j = Some y -> d x < d y).

(* executable form, by direct search: the minimum of all distances first, then
   the first position that attains it *)
Definition list_min (l : list Z) : option Z :=
  match l with
  | [] => None
  | h :: t => Some (fold_left Z.min t h)
  end.

Fixpoint first_index (m : Z) (l : list Z) (i : N) : option N :=
  match l with
  | [] => None
  | h :: t => if h =? m then Some i else first_index m t (N.succ i)
  end.

Definition argmin_lowest {A : Type} (d : A -> Z) (cands : list A) : option N :=
  let ds := map d cands in
  match list_min ds with
  | None => None
  | Some m => first_index m ds 0%N
  end.

(* ---- the 240 fixed colours of the 256-colour palette (xterm layout) -------- *)

Local Open Scope N_scope.

(* the six levels of the colour cube: 0, 95, 135, 175, 215, 255 *)
Definition cube_level (k : N) : N := if k =? 0 then 0 else 55 + 40 * k.

(* index 16 + 36 r + 6 g + b is cube colour (r, g, b); index 232 + k is grey 8 + 10 k *)
Definition xterm_fixed (i : N) : rgb :=
  if i <? 232 then
    let k := i - 16 in
    (cube_level (k / 36), cube_level ((k / 6) mod 6), cube_level (k mod 6))
  else
    let v := 8 + 10 * (i - 232) in (v, v, v).

Fixpoint n_range (a : N) (n : nat) : list N :=
  match n with O => [] | S k => a :: n_range (a + 1) k end.

(* candidates of the 256-colour target: indices 16..255 *)
Definition xterm240 : list rgb := map xterm_fixed (n_range 16 240).

(* ---- the conversions, as the property states them ------------------------- *)

Definition spec_rgb_to_ansi (p : list rgb) (c : rgb) : option N :=
  argmin_lowest (redmean_distance c) p.

Definition spec_rgb_to_xterm (c : rgb) : option N :=
  match argmin_lowest (redmean_distance c) xterm240 with
  | Some k => Some (16 + k)
  | None => None
  end.

(* colour of a 256-palette index: 0-15 are the user's 16-colour palette *)
Definition spec_index_rgb (p : list rgb) (i : N) : option rgb :=
  if i <? 16 then nth_error p (N.to_nat i)
  else if i <? 256 then Some (xterm_fixed i)
  else None.

Definition spec_to_rgb (p : list rgb) (c : color) : option rgb :=
  match c with
  | Ansi a => if a <? 16 then nth_error p (N.to_nat a) else None
  | Ansi256 i => spec_index_rgb p i
  | Rgb c => Some c
  end.

Definition spec_to_xterm (c : color) : option N :=
  match c with
  | Ansi a => if a <? 16 then Some a else None
  | Ansi256 i => Some i
  | Rgb c => spec_rgb_to_xterm c
  end.

Definition spec_to_ansi (p : list rgb) (c : color) : option N :=
  match c with
  | Ansi a => Some a
  | Ansi256 i =>
      if i <? 16 then Some i
      else if i <? 256 then spec_rgb_to_ansi p (xterm_fixed i)
      else None
  | Rgb c => spec_rgb_to_ansi p c
  end.

(* ---- the same observations at specification level, for the correspondence
   driver (names unique to this file) ------------------------------------------ *)

Definition lossy_s_rgb_to_ansi (p : list rgb) (c : rgb) : option N := spec_rgb_to_ansi p c.
Definition lossy_s_rgb_to_xterm (c : rgb) : option N := spec_rgb_to_xterm c.

Definition lossy_s_obs_index (p : list rgb) (i : N) :=
  (spec_index_rgb p i, spec_to_ansi p (Ansi256 i),
   (spec_to_rgb p (Ansi256 i), spec_to_xterm (Ansi256 i), spec_to_ansi p (Ansi256 i))).

(* reading the palette three ways (ansi_to_rgb, Palette::get, Palette[..]) is one
   fact at this level *)
Definition lossy_s_obs_ansi (p : list rgb) (a : N) :=
  let e := spec_to_rgb p (Ansi a) in
  ((e, e, e), (spec_to_rgb p (Ansi a), spec_to_xterm (Ansi a), spec_to_ansi p (Ansi a))).

Definition lossy_s_obs_rgb (p : list rgb) (c : rgb) :=
  (spec_to_rgb p (Rgb c), spec_to_xterm (Rgb c), spec_to_ansi p (Rgb c)).
