(* Spec/Algebra.v -- the vocabulary of property C13, written from the property
   text only (no Model/, no Generated/):

   * an effect set is a number below 2^12; its members are the positions of its
     one bits ([mem] = [N.testbit]); the twelve effects are the positions 0..11
     in the order in which the crate documents them;
   * the set operations are given twice: as statements about membership (used in
     the theorems) and as an executable definition on characteristic vectors
     ([chi] / [of_chi], used as the oracle of the correspondence runs);
   * a 16-colour value is its position 0..15: hue = position mod 8, bright =
     position >= 8;
   * a style is a record of three optional colours and an effect set; the
     colour type is a parameter (the specification only moves colours around). *)
From Coq Require Import NArith List Bool Ascii String.
Import ListNotations.
Local Open Scope N_scope.

(* ---- effect sets -------------------------------------------------------- *)

Definition NEFF : nat := 12.
Definition idxs : list N := map N.of_nat (seq 0 NEFF).

Definition valid (s : N) : Prop := s < 2 ^ 12.
Definition mem (s i : N) : bool := N.testbit s i.
Definition singleton (i : N) : N := 2 ^ i.
Definition members (s : N) : list N := filter (mem s) idxs.
Definition subset (a b : N) : Prop := forall i, mem a i = true -> mem b i = true.
Definition disjoint (a b : N) : Prop := forall i, mem a i && mem b i = false.
Definition union_all (l : list N) : N := fold_right N.lor 0 l.

(* characteristic vectors: the executable form of the same notions *)
Definition chi (s : N) : list bool := map (mem s) idxs.

Fixpoint of_chi (l : list bool) : N :=
  match l with
  | [] => 0
  | b :: t => N.b2n b + 2 * of_chi t
  end.

Fixpoint zipb (f : bool -> bool -> bool) (x y : list bool) : list bool :=
  match x, y with
  | a :: x', b :: y' => f a b :: zipb f x' y'
  | _, _ => []
  end.

Definition v_union : list bool -> list bool -> list bool := zipb orb.
Definition v_diff : list bool -> list bool -> list bool := zipb (fun a b => a && negb b).
Definition v_subset (x y : list bool) : bool := forallb (fun b => b) (zipb implb x y).
Definition v_empty (x : list bool) : bool := forallb negb x.
Definition v_members (x : list bool) : list N :=
  map fst (filter snd (combine idxs x)).

Definition sp_union (a b : N) : N := of_chi (v_union (chi a) (chi b)).
Definition sp_diff (a b : N) : N := of_chi (v_diff (chi a) (chi b)).
Definition sp_contains (a b : N) : bool := v_subset (chi b) (chi a).
Definition sp_is_plain (a : N) : bool := v_empty (chi a).
Definition sp_set (a b : N) (enable : bool) : N := if enable then sp_union a b else sp_diff a b.
Definition sp_iter_chi (x : list bool) : list N := map singleton (v_members x).
Definition sp_iter (a : N) : list N := sp_iter_chi (chi a).

(* ---- the names of the twelve effects, in declaration order --------------- *)

(* byte strings are written out (ASCII codes) so that nothing executable depends
   on Coq's [string]; the [*_text] definitions and [bytes_of] give the readable
   form, and Proofs/Style.v proves the two equal *)
Definition bytes_of (s : string) : list N := map N_of_ascii (list_ascii_of_string s).

Definition effect_names : list (list N) :=
  [ [66; 79; 76; 68] (* BOLD *);
    [68; 73; 77; 77; 69; 68] (* DIMMED *);
    [73; 84; 65; 76; 73; 67] (* ITALIC *);
    [85; 78; 68; 69; 82; 76; 73; 78; 69] (* UNDERLINE *);
    [68; 79; 85; 66; 76; 69; 95; 85; 78; 68; 69; 82; 76; 73; 78; 69] (* DOUBLE_UNDERLINE *);
    [67; 85; 82; 76; 89; 95; 85; 78; 68; 69; 82; 76; 73; 78; 69] (* CURLY_UNDERLINE *);
    [68; 79; 84; 84; 69; 68; 95; 85; 78; 68; 69; 82; 76; 73; 78; 69] (* DOTTED_UNDERLINE *);
    [68; 65; 83; 72; 69; 68; 95; 85; 78; 68; 69; 82; 76; 73; 78; 69] (* DASHED_UNDERLINE *);
    [66; 76; 73; 78; 75] (* BLINK *);
    [73; 78; 86; 69; 82; 84] (* INVERT *);
    [72; 73; 68; 68; 69; 78] (* HIDDEN *);
    [83; 84; 82; 73; 75; 69; 84; 72; 82; 79; 85; 71; 72] (* STRIKETHROUGH *) ].

Definition effect_names_text : list string :=
  [ "BOLD"; "DIMMED"; "ITALIC"; "UNDERLINE"; "DOUBLE_UNDERLINE"; "CURLY_UNDERLINE"; "DOTTED_UNDERLINE"; "DASHED_UNDERLINE"; "BLINK"; "INVERT"; "HIDDEN"; "STRIKETHROUGH" ]%string.

Definition effect_name (i : N) : list N := nth (N.to_nat i) effect_names [].

Fixpoint join (sep : list N) (l : list (list N)) : list N :=
  match l with
  | [] => []
  | [x] => x
  | x :: t => x ++ sep ++ join sep t
  end.

(* "Effects(A | B)": names exactly the members, in declaration order *)
Definition txt_open : list N := [69; 102; 102; 101; 99; 116; 115; 40]. (* "Effects(" *)
Definition txt_bar : list N := [32; 124; 32]. (* " | " *)
Definition txt_close : list N := [41]. (* ")" *)

Definition txt_open_text : string := "Effects(".
Definition txt_bar_text : string := " | ".
Definition txt_close_text : string := ")".

Definition sp_debug (a : N) : list N :=
  txt_open ++ join txt_bar (map effect_name (members a)) ++ txt_close.

(* ASCII upper-casing: the convenience method [bold] names the effect [BOLD] *)
Definition upper (b : N) : N := if (97 <=? b) && (b <=? 122) then b - 32 else b.

Fixpoint bytes_eqb (x y : list N) : bool :=
  match x, y with
  | [], [] => true
  | a :: x', b :: y' => (a =? b) && bytes_eqb x' y'
  | _, _ => false
  end.

Fixpoint index_of (nm : list N) (l : list (list N)) (k : N) : option N :=
  match l with
  | [] => None
  | x :: t => if bytes_eqb nm x then Some k else index_of nm t (k + 1)
  end.

(* the convenience methods of Style, as documented; each inserts the one effect
   whose name is the method's name in upper case *)
Definition conv_names : list (list N) :=
  [ [98; 111; 108; 100] (* bold *);
    [100; 105; 109; 109; 101; 100] (* dimmed *);
    [105; 116; 97; 108; 105; 99] (* italic *);
    [117; 110; 100; 101; 114; 108; 105; 110; 101] (* underline *);
    [98; 108; 105; 110; 107] (* blink *);
    [105; 110; 118; 101; 114; 116] (* invert *);
    [104; 105; 100; 100; 101; 110] (* hidden *);
    [115; 116; 114; 105; 107; 101; 116; 104; 114; 111; 117; 103; 104] (* strikethrough *) ].

Definition conv_names_text : list string :=
  [ "bold"; "dimmed"; "italic"; "underline"; "blink"; "invert"; "hidden"; "strikethrough" ]%string.

Definition sp_named_effect (nm : list N) : N :=
  match index_of (map upper nm) effect_names 0 with
  | Some k => singleton k
  | None => 0
  end.

(* ---- 16-colour values --------------------------------------------------- *)

Definition hue (c : N) : N := c mod 8.
Definition is_bright_ix (c : N) : bool := 8 <=? c.
Definition with_bright (c : N) (b : bool) : N := hue c + (if b then 8 else 0).
Definition sp_into_ansi (n : N) : option N := if n <? 16 then Some n else None.
Definition sp_from_ansi (c : N) : N := c.

(* ---- styles ------------------------------------------------------------- *)

Section SStyle.
  Variable C : Type.

  Record astyle : Type := mkAS { sp_fg : option C; sp_bg : option C; sp_ul : option C; sp_eff : N }.

  Inductive cfield : Set := FFg | FBg | FUl.

  Definition sp_get (f : cfield) (s : astyle) : option C :=
    match f with FFg => sp_fg s | FBg => sp_bg s | FUl => sp_ul s end.

  (* a setter replaces its own field and nothing else *)
  Definition sp_setc (f : cfield) (v : option C) (s : astyle) : astyle :=
    match f with
    | FFg => mkAS v (sp_bg s) (sp_ul s) (sp_eff s)
    | FBg => mkAS (sp_fg s) v (sp_ul s) (sp_eff s)
    | FUl => mkAS (sp_fg s) (sp_bg s) v (sp_eff s)
    end.

  Definition sp_set_eff (e : N) (s : astyle) : astyle := mkAS (sp_fg s) (sp_bg s) (sp_ul s) e.

  Definition sp_plain : astyle := mkAS None None None 0.

  Definition is_none (o : option C) : bool := match o with None => true | Some _ => false end.

  Definition sp_no_colours (s : astyle) : bool := is_none (sp_fg s) && is_none (sp_bg s) && is_none (sp_ul s).

  (* a style equals an effects value exactly when it has those effects and no colours *)
  Definition sp_eq_effects (s : astyle) (e : N) : bool := sp_no_colours s && (sp_eff s =? e).

  Definition sp_style_is_plain (s : astyle) : bool := sp_no_colours s && sp_is_plain (sp_eff s).
End SStyle.

Arguments mkAS {C}.
Arguments sp_fg {C}.
Arguments sp_bg {C}.
Arguments sp_ul {C}.
Arguments sp_eff {C}.
Arguments sp_get {C}.
Arguments sp_setc {C}.
Arguments sp_set_eff {C}.
Arguments sp_plain {C}.
Arguments is_none {C}.
Arguments sp_no_colours {C}.
Arguments sp_eq_effects {C}.
Arguments sp_style_is_plain {C}.
