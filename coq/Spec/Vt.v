(* Spec/Vt.v -- Paul Williams' DEC ANSI parser (vt100.net/emu/dec_ansi_parser),
   written by byte ranges from the published diagram, with the crate's
   documented deviations as named clauses D1..D4:
     D1  7-bit controls only: the C1 "anywhere" transitions (80..9F) are gone;
         9C still terminates DCS-passthrough, DCS-ignore and SOS/PM/APC strings;
         in Ground 80..8F, 91..9A and 9C are executed; every other high byte
         outside Ground / OSC is inert.
     D2  ':' (3A) is a parameter byte (sub-parameter separator).
     D3  in Ground, C2..F4 begin a UTF-8 character that is collected out of band.
     D4  BEL terminates an OSC string and 20..FF are OSC payload.
   Bookkeeping is abstract: parameters are groups of sub-parameters, the OSC
   payload is a byte string split at ';'.  Nothing here refers to Model/ or
   Generated/. *)
From Coq Require Import NArith List Bool.
From AV Require Import Spec.Utf8.
Import ListNotations.
Local Open Scope N_scope.

Inductive vstate : Set :=
  | VGround | VEscape | VEscInt
  | VCsiEntry | VCsiParam | VCsiInt | VCsiIgnore
  | VDcsEntry | VDcsParam | VDcsInt | VDcsPass | VDcsIgnore
  | VOsc | VSos.

Inductive vact : Set :=
  | TNone | TIgnore | TPrint | TExecute | TCollect | TParam
  | TEscDispatch | TCsiDispatch | TPut | TOscPut | TUtf8.

Inductive event : Set :=
  | EPrint (cp : N)
  | EExecute (b : N)
  | EHook (ps : list (list N)) (ints : list N) (ign : bool) (b : N)
  | EPut (b : N)
  | EUnhook
  | EOsc (fields : list (list N)) (bell : bool)
  | ECsi (ps : list (list N)) (ints : list N) (ign : bool) (b : N)
  | EEsc (ints : list N) (ign : bool) (b : N).

(* C0 controls that are handled by the current state (CAN, SUB, ESC are
   "anywhere" transitions) *)
Definition c0 (b : N) : bool :=
  in_range 0 23 b || (b =? 25) || in_range 28 31 b.

(* the transition relation: [None] target = no transition (no exit / entry
   action); [Some t] = transition to [t] (exit and entry actions fire, even when
   [t] is the current state) *)
Definition vt_trans (s : vstate) (b : N) : option vstate * vact :=
  (* anywhere *)
  if (b =? 24) || (b =? 26) then (Some VGround, TExecute)
  else if b =? 27 then (Some VEscape, TNone)
  else match s with
  | VGround =>
      if c0 b then (None, TExecute)
      else if in_range 32 127 b then (None, TPrint)
      else if in_range 128 143 b || in_range 145 154 b || (b =? 156) then (None, TExecute)   (* D1 *)
      else if in_range 194 244 b then (None, TUtf8)                                           (* D3 *)
      else (None, TNone)
  | VEscape =>
      if c0 b then (None, TExecute)
      else if b =? 127 then (None, TIgnore)
      else if in_range 32 47 b then (Some VEscInt, TCollect)
      else if b =? 80 then (Some VDcsEntry, TNone)
      else if b =? 91 then (Some VCsiEntry, TNone)
      else if b =? 93 then (Some VOsc, TNone)
      else if (b =? 88) || (b =? 94) || (b =? 95) then (Some VSos, TNone)
      else if in_range 48 126 b then (Some VGround, TEscDispatch)
      else (None, TNone)
  | VEscInt =>
      if c0 b then (None, TExecute)
      else if b =? 127 then (None, TIgnore)
      else if in_range 32 47 b then (None, TCollect)
      else if in_range 48 126 b then (Some VGround, TEscDispatch)
      else (None, TNone)
  | VCsiEntry =>
      if c0 b then (None, TExecute)
      else if b =? 127 then (None, TIgnore)
      else if in_range 32 47 b then (Some VCsiInt, TCollect)
      else if in_range 48 59 b then (Some VCsiParam, TParam)                                  (* D2: 3A included *)
      else if in_range 60 63 b then (Some VCsiParam, TCollect)
      else if in_range 64 126 b then (Some VGround, TCsiDispatch)
      else (None, TNone)
  | VCsiParam =>
      if c0 b then (None, TExecute)
      else if b =? 127 then (None, TIgnore)
      else if in_range 48 59 b then (None, TParam)                                            (* D2 *)
      else if in_range 60 63 b then (Some VCsiIgnore, TNone)
      else if in_range 32 47 b then (Some VCsiInt, TCollect)
      else if in_range 64 126 b then (Some VGround, TCsiDispatch)
      else (None, TNone)
  | VCsiInt =>
      if c0 b then (None, TExecute)
      else if b =? 127 then (None, TIgnore)
      else if in_range 32 47 b then (None, TCollect)
      else if in_range 48 63 b then (Some VCsiIgnore, TNone)
      else if in_range 64 126 b then (Some VGround, TCsiDispatch)
      else (None, TNone)
  | VCsiIgnore =>
      if c0 b then (None, TExecute)
      else if in_range 32 63 b || (b =? 127) then (None, TIgnore)
      else if in_range 64 126 b then (Some VGround, TNone)
      else (None, TNone)
  | VDcsEntry =>
      if c0 b then (None, TIgnore)
      else if b =? 127 then (None, TIgnore)
      else if in_range 32 47 b then (Some VDcsInt, TCollect)
      else if in_range 48 59 b then (Some VDcsParam, TParam)                                  (* D2 *)
      else if in_range 60 63 b then (Some VDcsParam, TCollect)
      else if in_range 64 126 b then (Some VDcsPass, TNone)
      else (None, TNone)
  | VDcsParam =>
      if c0 b then (None, TIgnore)
      else if b =? 127 then (None, TIgnore)
      else if in_range 48 59 b then (None, TParam)                                            (* D2 *)
      else if in_range 60 63 b then (Some VDcsIgnore, TNone)
      else if in_range 32 47 b then (Some VDcsInt, TCollect)
      else if in_range 64 126 b then (Some VDcsPass, TNone)
      else (None, TNone)
  | VDcsInt =>
      if c0 b then (None, TIgnore)
      else if b =? 127 then (None, TIgnore)
      else if in_range 32 47 b then (None, TCollect)
      else if in_range 48 63 b then (Some VDcsIgnore, TNone)
      else if in_range 64 126 b then (Some VDcsPass, TNone)
      else (None, TNone)
  | VDcsPass =>
      if c0 b then (None, TPut)
      else if in_range 32 126 b then (None, TPut)
      else if b =? 127 then (None, TIgnore)
      else if b =? 156 then (Some VGround, TNone)                                             (* D1 *)
      else (None, TNone)
  | VDcsIgnore =>
      if c0 b then (None, TIgnore)
      else if in_range 32 127 b then (None, TIgnore)
      else if b =? 156 then (Some VGround, TNone)                                             (* D1 *)
      else (None, TNone)
  | VOsc =>
      if b =? 7 then (Some VGround, TNone)                                                    (* D4 *)
      else if c0 b then (None, TIgnore)
      else if in_range 32 255 b then (None, TOscPut)                                          (* D4 *)
      else (None, TNone)
  | VSos =>
      if c0 b then (None, TIgnore)
      else if in_range 32 127 b then (None, TIgnore)
      else if b =? 156 then (Some VGround, TNone)                                             (* D1 *)
      else (None, TNone)
  end.

(* ---- abstract bookkeeping ------------------------------------------------ *)

Definition max_values : nat := 32.       (* recorded parameter values, sub-parameters included *)
Definition max_ints : nat := 2.
Definition max_osc_fields : nat := 16.
Definition max_value : N := 65535.

Record vt : Set := mkVt {
  vs : vstate;
  ints : list N;                 (* intermediates collected, in order *)
  ign : bool;                    (* something was discarded *)
  closed : list (list N);        (* closed parameter groups, in order *)
  cur : list N;                  (* sub-parameters of the group being built *)
  pend : N;                      (* value being built from digits *)
  osc : list N;                  (* OSC payload so far, separators included *)
  uni : option (ustate * list N) (* inside a multi-byte character: DFA state, bytes so far *)
}.

Definition vt_init : vt := mkVt VGround [] false [] [] 0 [] None.

Definition count_values (s : vt) : nat := length (concat (closed s)) + length (cur s).

Definition set_vs (s : vt) (v : vstate) : vt :=
  mkVt v (ints s) (ign s) (closed s) (cur s) (pend s) (osc s) (uni s).

Definition clear (s : vt) : vt :=
  mkVt (vs s) [] false [] [] 0 (osc s) (uni s).

Definition collect (s : vt) (b : N) : vt :=
  if Nat.eqb (length (ints s)) max_ints
  then mkVt (vs s) (ints s) true (closed s) (cur s) (pend s) (osc s) (uni s)
  else mkVt (vs s) (ints s ++ [b]) (ign s) (closed s) (cur s) (pend s) (osc s) (uni s).

Definition param (s : vt) (b : N) : vt :=
  if Nat.eqb (count_values s) max_values
  then mkVt (vs s) (ints s) true (closed s) (cur s) (pend s) (osc s) (uni s)
  else if b =? 59       (* ';' closes the group with the pending value *)
  then mkVt (vs s) (ints s) (ign s) (closed s ++ [cur s ++ [pend s]]) [] 0 (osc s) (uni s)
  else if b =? 58       (* ':' appends the pending value to the group *)
  then mkVt (vs s) (ints s) (ign s) (closed s) (cur s ++ [pend s]) 0 (osc s) (uni s)
  else mkVt (vs s) (ints s) (ign s) (closed s) (cur s) (N.min max_value (10 * pend s + (b - 48))) (osc s) (uni s).

(* what a CSI dispatch / DCS hook reports: the pending value closes the last
   group if there is room, otherwise the flag is set and what was recorded is
   reported (a partly filled last group included) *)
Definition final_params (s : vt) : list (list N) * bool :=
  if Nat.eqb (count_values s) max_values
  then (closed s ++ (match cur s with [] => [] | _ => [cur s] end), true)
  else (closed s ++ [cur s ++ [pend s]], ign s).

Fixpoint split_on (sep : N) (acc : list N) (bs : list N) : list (list N) :=
  match bs with
  | [] => [acc]
  | b :: rest => if b =? sep then acc :: split_on sep [] rest else split_on sep (acc ++ [b]) rest
  end.

Definition osc_fields (payload : list N) : list (list N) :=
  firstn max_osc_fields (split_on 59 [] payload).

Definition osc_put (s : vt) (b : N) : vt :=
  mkVt (vs s) (ints s) (ign s) (closed s) (cur s) (pend s) (osc s ++ [b]) (uni s).

Definition osc_start (s : vt) : vt :=
  mkVt (vs s) (ints s) (ign s) (closed s) (cur s) (pend s) [] (uni s).

(* exit action of the state being left *)
Definition exit_events (s : vt) (b : N) : list event :=
  match vs s with
  | VDcsPass => [EUnhook]
  | VOsc => [EOsc (osc_fields (osc s)) (b =? 7)]
  | _ => []
  end.

Definition do_action (s : vt) (a : vact) (b : N) : vt * list event :=
  match a with
  | TNone | TIgnore => (s, [])
  | TPrint => (s, [EPrint b])
  | TExecute => (s, [EExecute b])
  | TCollect => (collect s b, [])
  | TParam => (param s b, [])
  | TEscDispatch => (s, [EEsc (ints s) (ign s) b])
  | TCsiDispatch => let '(ps, ig) := final_params s in (s, [ECsi ps (ints s) ig b])
  | TPut => (s, [EPut b])
  | TOscPut => (osc_put s b, [])
  | TUtf8 =>
      match utf8_lead b with
      | Some u => (mkVt (vs s) (ints s) (ign s) (closed s) (cur s) (pend s) (osc s) (Some (u, [b])), [])
      | None => (s, [])
      end
  end.

(* entry action of the state being entered *)
Definition enter (s : vt) (t : vstate) (b : N) : vt * list event :=
  match t with
  | VEscape | VCsiEntry | VDcsEntry => (set_vs (clear s) t, [])
  | VDcsPass => let '(ps, ig) := final_params s in (set_vs s t, [EHook ps (ints s) ig b])
  | VOsc => (set_vs (osc_start s) t, [])
  | _ => (set_vs s t, [])
  end.

Definition set_uni (s : vt) (u : option (ustate * list N)) : vt :=
  mkVt (vs s) (ints s) (ign s) (closed s) (cur s) (pend s) (osc s) u.

Definition vt_step (s : vt) (b : N) : vt * list event :=
  match uni s with
  | Some (u, acc) =>
      (* inside a multi-byte character every byte belongs to the UTF-8 decoder;
         a byte that cannot continue the character yields U+FFFD and is consumed *)
      match utf8_cont u b with
      | UMore u' => (set_uni s (Some (u', acc ++ [b])), [])
      | UDone => (set_uni s None, [EPrint (utf8_decode (acc ++ [b]))])
      | UBad => (set_uni s None, [EPrint replacement])
      end
  | None =>
      let '(tgt, a) := vt_trans (vs s) b in
      match tgt with
      | None => do_action s a b
      | Some t =>
          let ev_exit := exit_events s b in
          let '(s1, ev_act) := do_action s a b in
          let '(s2, ev_entry) := enter s1 t b in
          (s2, ev_exit ++ ev_act ++ ev_entry)
      end
  end.

Fixpoint vt_run (s : vt) (bs : list N) : vt * list event :=
  match bs with
  | [] => (s, [])
  | b :: rest =>
      let '(s1, e1) := vt_step s b in
      let '(s2, e2) := vt_run s1 rest in
      (s2, e1 ++ e2)
  end.

Definition spec_events (bs : list N) : list event := snd (vt_run vt_init bs).
