(* Spec/SgrCodes.v -- the flat (legacy, ';'-separated) SGR semantics of
   ECMA-48 section 8.3.117 with the xterm/ITU T.416 extended-colour forms,
   restricted to the codes the statement of C12 lists, and the textual form of
   an LS_COLORS value.  Written from the standards and the property text, not
   from the code: no reference to Model/ or Generated/.

     0            default rendition (cancels everything)
     1 2 3 4      bold, faint, italic, singly underlined
     5 6          slowly / rapidly blinking (one BLINK flag in the style type)
     7 8 9        negative image, concealed, crossed-out
     22           normal intensity (neither bold nor faint)
     23 24 25     not italic, not underlined, steady
     27 28 29     positive image, revealed, not crossed-out
     30-37 40-47  foreground / background colour 0..7          39 / 49 default colour
     90-97 100-107  bright foreground / background (aixterm)
     38 48 58     ;5;n  indexed colour,  ;2;r;g;b  direct colour   59 default underline colour
     anything else: ignored. *)
From Coq Require Import NArith List Bool.
From AV Require Import Spec.StyleRec.
Import ListNotations.
Local Open Scope N_scope.

(* "not underlined" (24) cancels every kind of underline the style type can hold *)
Definition underline_kinds : list N :=
  [UNDERLINE; DOUBLE_UNDERLINE; CURLY_UNDERLINE; DOTTED_UNDERLINE; DASHED_UNDERLINE].

Definition turn_on (st : tstyle) (bit : N) : tstyle := set_effects st (eff_insert (t_eff st) bit).
Definition turn_off (st : tstyle) (bits : list N) : tstyle := set_effects st (eff_remove_all (t_eff st) bits).

Definition between (lo c hi : N) : bool := (lo <=? c) && (c <=? hi).

(* one stand-alone code *)
Definition sgr_one (c : N) (st : tstyle) : tstyle :=
  match c with
  | 0 => t_default
  | 1 => turn_on st BOLD
  | 2 => turn_on st DIMMED
  | 3 => turn_on st ITALIC
  | 4 => turn_on st UNDERLINE
  | 5 => turn_on st BLINK
  | 6 => turn_on st BLINK
  | 7 => turn_on st INVERT
  | 8 => turn_on st HIDDEN
  | 9 => turn_on st STRIKETHROUGH
  | 22 => turn_off st [BOLD; DIMMED]
  | 23 => turn_off st [ITALIC]
  | 24 => turn_off st underline_kinds
  | 25 => turn_off st [BLINK]
  | 27 => turn_off st [INVERT]
  | 28 => turn_off st [HIDDEN]
  | 29 => turn_off st [STRIKETHROUGH]
  | 39 => set_fg st None
  | 49 => set_bg st None
  | 59 => set_underline st None
  | _ =>
      if between 30 c 37 then set_fg st (Some (TAnsi (c - 30)))
      else if between 40 c 47 then set_bg st (Some (TAnsi (c - 40)))
      else if between 90 c 97 then set_fg st (Some (TAnsi (8 + (c - 90))))
      else if between 100 c 107 then set_bg st (Some (TAnsi (8 + (c - 100))))
      else st
  end.

(* the introducers of an extended colour and the slot they select *)
Definition ext_slot (c : N) : option (tstyle -> option tcolor -> tstyle) :=
  match c with
  | 38 => Some set_fg
  | 48 => Some set_bg
  | 58 => Some set_underline
  | _ => None
  end.

(* left to right over a flat code list.  An introducer that is not followed by
   a complete ;5;n or ;2;r;g;b form is outside the statement ([well_formed]
   below is false); this function skips the introducer there, which no theorem
   relies on. *)
Fixpoint sgr_codes (st : tstyle) (cs : list N) : tstyle :=
  match cs with
  | [] => st
  | c :: rest =>
      match ext_slot c with
      | None => sgr_codes (sgr_one c st) rest
      | Some set =>
          match rest with
          | a :: n :: rest1 =>
              if a =? 5 then sgr_codes (set st (Some (TAnsi256 n))) rest1
              else if a =? 2 then
                match rest1 with
                | g :: b :: rest2 => sgr_codes (set st (Some (TRgb n g b))) rest2
                | _ => sgr_codes st rest
                end
              else sgr_codes st rest
          | _ => sgr_codes st rest
          end
      end
  end.

(* every 38/48/58 is followed by one of the two complete forms *)
Fixpoint well_formed (cs : list N) : bool :=
  match cs with
  | [] => true
  | c :: rest =>
      match ext_slot c with
      | None => well_formed rest
      | Some _ =>
          match rest with
          | a :: _ :: rest1 =>
              if a =? 5 then well_formed rest1
              else if a =? 2 then
                match rest1 with
                | _ :: _ :: rest2 => well_formed rest2
                | _ => false
                end
              else false
          | _ => false
          end
      end
  end.

(* ---- the textual form ------------------------------------------------------ *)

Definition SEMI : N := 59.
Definition ZERO : N := 48.

(* decimal printing of a number below 1000 without leading zeros *)
Definition dec (c : N) : list N :=
  if c <? 10 then [ZERO + c]
  else if c <? 100 then [ZERO + c / 10; ZERO + c mod 10]
  else [ZERO + c / 100; ZERO + (c / 10) mod 10; ZERO + c mod 10].

Fixpoint join (sep : N) (fs : list (list N)) : list N :=
  match fs with
  | [] => []
  | f :: rest => match rest with [] => f | _ => f ++ sep :: join sep rest end
  end.

(* a field: [z] leading zeros, then the number *)
Definition print_field (zc : nat * N) : list N := repeat ZERO (fst zc) ++ dec (snd zc).
Definition print_codes (fields : list (nat * N)) : list N := join SEMI (map print_field fields).

Fixpoint bytes_eqb (a b : list N) : bool :=
  match a, b with
  | [], [] => true
  | x :: a', y :: b' => (x =? y) && bytes_eqb a' b'
  | _, _ => false
  end.

(* the three inputs that mean "no style" *)
Definition no_style_string (s : list N) : bool :=
  bytes_eqb s [] || bytes_eqb s [ZERO] || bytes_eqb s [ZERO; ZERO].

(* ---- reading: a list of numbers in 0-255 ----------------------------------- *)

Definition is_digit (c : N) : bool := between 48 c 57.
Definition dec_value (f : list N) : N := fold_left (fun v c => 10 * v + (c - 48)) f 0.

(* a field is a number in 0-255: one or more decimal digits, value at most 255 *)
Definition strict_u8 (f : list N) : option N :=
  match f with
  | [] => None
  | _ => if forallb is_digit f then (if dec_value f <=? 255 then Some (dec_value f) else None) else None
  end.

(* '+' followed by a number: the statement does not say whether this is a number *)
Definition open_field (f : list N) : bool :=
  match f with
  | c :: ds => (c =? 43) && match strict_u8 ds with Some _ => true | None => false end
  | [] => false
  end.

Fixpoint fields_acc (cur : list N) (s : list N) : list (list N) :=
  match s with
  | [] => [rev cur]
  | c :: rest => if c =? SEMI then rev cur :: fields_acc [] rest else fields_acc (c :: cur) rest
  end.
Definition fields (s : list N) : list (list N) := fields_acc [] s.

Fixpoint all_some {A} (l : list (option A)) : option (list A) :=
  match l with
  | [] => Some []
  | None :: _ => None
  | Some x :: t => match all_some t with Some t' => Some (x :: t') | None => None end
  end.

(* the answer of the property for an arbitrary string; [LsOpen] where the
   statement is silent ('+' numbers, incomplete extended-colour forms) *)
Inductive ls_answer : Set :=
  | LsOpen
  | LsNoStyle
  | LsStyle (s : tstyle).

Definition spec_ls (s : list N) : ls_answer :=
  if no_style_string s then LsNoStyle
  else
    let fs := fields s in
    match all_some (map strict_u8 fs) with
    | Some codes => if well_formed codes then LsStyle (sgr_codes t_default codes) else LsOpen
    | None => if existsb (fun f => negb (open_field f) && match strict_u8 f with None => true | Some _ => false end) fs
              then LsNoStyle else LsOpen
    end.
