(* Spec/Atomicity.v -- what C19 asks for, written from the property text only
   (no reference to Model/ or Generated/).

   1. "The bytes produced by one print call appear contiguously in the output":
      threads are numbered 0, 1, ...; a thread program is a list of operations and
      an operation is the list of output atoms (inner writes) it performs.  An
      output is a list of atoms tagged with the thread that emitted them.  It is
      ATOMIC when it is the concatenation of whole operations (blocks), each
      thread's blocks being its own operations in program order; the order of the
      blocks is the order in which the operations took the stream.
   2. "The process-wide colour choice behaves as an atomic register": the
      operations on the register, in their linearisation order, form a legal
      sequential history (every read returns the latest value written before it,
      the initial value when there is none).  The two consequences named in the
      property -- a read returns the initial value or a value some thread wrote;
      the last write once the writers are done -- are [reg_reads_written] and
      [reg_reads_last]. *)
From Coq Require Import List Arith Bool.
Import ListNotations.

(* ------------------------------------------------------------------------- *)
(* 1. contiguous output                                                        *)

(* one whole operation performed by a thread *)
Definition at_block {A : Type} (b : nat * list A) : list (nat * A) :=
  map (pair (fst b)) (snd b).

(* whole operations one after the other *)
Definition at_blocks_out {A : Type} (bs : list (nat * list A)) : list (nat * A) :=
  flat_map at_block bs.

(* the operations of thread [t] among the blocks, in order *)
Definition at_of_thread {A : Type} (t : nat) (bs : list (nat * list A)) : list (list A) :=
  map snd (filter (fun b => Nat.eqb (fst b) t) bs).

Definition at_cur_blocks {A : Type} (cur : option (nat * list A)) : list (nat * list A) :=
  match cur with None => [] | Some b => [b] end.

(* Output [out] observed at ANY point of a run of [progs] (thread t runs
   [nth t progs []]), where [acqs] lists the threads in the order in which they
   took the stream: [out] consists of completed whole operations [done], followed
   by the part emitted so far of at most one operation still under way [cur];
   block i was emitted by the i-th thread that took the stream; every thread's
   completed blocks are a prefix of its program, and the operation under way is
   the next one of its thread. *)
Definition at_atomic_output {A : Type} (progs : list (list (list A))) (acqs : list nat)
    (out : list (nat * A)) : Prop :=
  exists (done : list (nat * list A)) (cur : option (nat * list A)),
    out = at_blocks_out (done ++ at_cur_blocks cur) /\
    acqs = map fst (done ++ at_cur_blocks cur) /\
    forall t, exists rest,
      nth t progs [] = at_of_thread t done ++ rest /\
      match cur with
      | None => True
      | Some (h, e) => h = t -> exists more rest', rest = (e ++ more) :: rest'
      end.

(* the same for a finished run: every operation of every thread appears as one
   block, nothing else appears *)
Definition at_serial {A : Type} (progs : list (list (list A))) (acqs : list nat)
    (out : list (nat * A)) : Prop :=
  exists done : list (nat * list A),
    out = at_blocks_out done /\
    acqs = map fst done /\
    forall t, at_of_thread t done = nth t progs [].

(* reading the byte stream off an output: every atom contributes its bytes *)
Definition at_bytes {A B : Type} (f : A -> list B) (out : list (nat * A)) : list B :=
  flat_map (fun x => f (snd x)) out.

(* bytes of one whole operation *)
Definition at_op_bytes {A B : Type} (f : A -> list B) (op : list A) : list B :=
  flat_map f op.

(* lock profile of ONE call, as the property states it ("held for the duration of
   one forwarded call"): the shared stream is taken once, before anything is
   written, and given back once, after everything was written *)
Inductive at_lock_ev : Set := AtTake | AtGive.
Definition at_call_profile : list at_lock_ev := [AtTake; AtGive].

(* ------------------------------------------------------------------------- *)
(* 2. atomic register                                                          *)

Inductive reg_ev (V : Type) : Type :=
  | RegWrite (v : V)
  | RegRead (v : V).
Arguments RegWrite {V} v.
Arguments RegRead {V} v.

(* legal sequential history of a register holding [cur] *)
Fixpoint reg_legal {V : Type} (cur : V) (h : list (reg_ev V)) : Prop :=
  match h with
  | [] => True
  | RegWrite v :: r => reg_legal v r
  | RegRead v :: r => v = cur /\ reg_legal cur r
  end.

(* value held after a history *)
Fixpoint reg_value {V : Type} (cur : V) (h : list (reg_ev V)) : V :=
  match h with
  | [] => cur
  | RegWrite v :: r => reg_value v r
  | RegRead _ :: r => reg_value cur r
  end.

Definition reg_no_write {V : Type} (h : list (reg_ev V)) : Prop :=
  forall v, ~ In (RegWrite v) h.

(* a read returns the initial value or a value some thread wrote *)
Definition reg_reads_written {V : Type} (init : V) (h : list (reg_ev V)) : Prop :=
  forall v, In (RegRead v) h -> v = init \/ In (RegWrite v) h.

(* once the writers have finished (no write in [h2]) a read returns the last write *)
Definition reg_reads_last {V : Type} (init : V) (h : list (reg_ev V)) : Prop :=
  forall h1 h2, h = h1 ++ h2 -> reg_no_write h2 ->
  forall v, In (RegRead v) h2 -> v = reg_value init h1.

(* the last value written in a history, if any *)
Fixpoint reg_last_write {V : Type} (h : list (reg_ev V)) : option V :=
  match h with
  | [] => None
  | RegWrite v :: r => match reg_last_write r with Some w => Some w | None => Some v end
  | RegRead _ :: r => reg_last_write r
  end.
