(* Spec/Choice.v -- C09: the documented precedence of colour auto-detection.

   Written from the property statement and the published conventions it names
   (https://no-color.org, https://bixense.com/clicolors, the TERM=dumb convention,
   https://github.com/termstandard/colors for COLORTERM, CI=<anything> as set by
   the CI providers); no reference to Model/ or Generated/.

   Vocabulary.  The process-wide colour choice has four values; the command-line
   colour flag has three (`--color auto|always|never`).  An environment maps a
   variable NAME (a byte string) to its value if the variable is set; values are
   arbitrary byte strings (an OsString on Unix), not only the handful of values
   the correspondence run samples.  "Colour is enabled" is the decision
   [ChAlways], "colour is disabled" is [ChNever]. *)
From Coq Require Import NArith List Bool String Ascii.
Import ListNotations.
Local Open Scope N_scope.

Inductive choice : Set := ChAuto | ChAlwaysAnsi | ChAlways | ChNever.
Inductive color_flag : Set := FlAuto | FlAlways | FlNever.

Definition chs_bytes (s : string) : list N := map N_of_ascii (list_ascii_of_string s).

Fixpoint chs_eqb (a b : list N) : bool :=
  match a, b with
  | [], [] => true
  | x :: a', y :: b' => (x =? y) && chs_eqb a' b'
  | _, _ => false
  end.

Definition var := list N.
Definition environment := var -> option (list N).

(* the environment given by a finite list of bindings (first binding wins) *)
Fixpoint env_of_list (l : list (var * list N)) : environment :=
  fun v => match l with
           | [] => None
           | (k, x) :: rest => if chs_eqb v k then Some x else env_of_list rest v
           end.

(* Names and values are written out as ASCII codes so that nothing executable
   depends on Coq's [string] (extraction would shadow OCaml's); [spelling] below
   states what they spell and is proved in Proofs/Choice.v. *)
Definition NO_COLOR : var := [78; 79; 95; 67; 79; 76; 79; 82].
Definition CLICOLOR_FORCE : var := [67; 76; 73; 67; 79; 76; 79; 82; 95; 70; 79; 82; 67; 69].
Definition CLICOLOR : var := [67; 76; 73; 67; 79; 76; 79; 82].
Definition TERM : var := [84; 69; 82; 77].
Definition COLORTERM : var := [67; 79; 76; 79; 82; 84; 69; 82; 77].
Definition CI : var := [67; 73].

Definition V_0 : list N := [48].
Definition V_dumb : list N := [100; 117; 109; 98].
Definition V_truecolor : list N := [116; 114; 117; 101; 99; 111; 108; 111; 114].
Definition V_24bit : list N := [50; 52; 98; 105; 116].

Definition W_auto : list N := [97; 117; 116; 111].
Definition W_always : list N := [97; 108; 119; 97; 121; 115].
Definition W_never : list N := [110; 101; 118; 101; 114].
Definition W_always_ansi : list N := [97; 108; 119; 97; 121; 115; 45; 97; 110; 115; 105].

Definition spelling : Prop :=
  NO_COLOR = chs_bytes "NO_COLOR" /\ CLICOLOR_FORCE = chs_bytes "CLICOLOR_FORCE" /\ CLICOLOR = chs_bytes "CLICOLOR" /\
  TERM = chs_bytes "TERM" /\ COLORTERM = chs_bytes "COLORTERM" /\ CI = chs_bytes "CI" /\
  V_0 = chs_bytes "0" /\ V_dumb = chs_bytes "dumb" /\ V_truecolor = chs_bytes "truecolor" /\ V_24bit = chs_bytes "24bit" /\
  W_auto = chs_bytes "auto" /\ W_always = chs_bytes "always" /\ W_never = chs_bytes "never" /\
  W_always_ansi = chs_bytes "always-ansi".

(* ---- the phrases of the statement ------------------------------------------ *)

(* "a non-empty X": X is set and its value is not the empty string *)
Definition set_non_empty (e : environment) (v : var) : bool :=
  match e v with Some (_ :: _) => true | _ => false end.

(* "X is set" *)
Definition is_set (e : environment) (v : var) : bool :=
  match e v with Some _ => true | None => false end.

(* "X=s": X is set and its value is exactly s *)
Definition set_to (e : environment) (v : var) (s : list N) : bool :=
  match e v with Some x => chs_eqb x s | None => false end.

(* "X is set to anything other than s" *)
Definition set_other_than (e : environment) (v : var) (s : list N) : bool :=
  match e v with Some x => negb (chs_eqb x s) | None => false end.

(* ---- the decision list, literally ------------------------------------------- *)

Definition choice_spec (global : choice) (e : environment) (tty : bool) : choice :=
  match global with
  | ChAuto =>
      (* otherwise a non-empty NO_COLOR disables colour *)
      if set_non_empty e NO_COLOR then ChNever
      (* otherwise a non-empty CLICOLOR_FORCE enables it *)
      else if set_non_empty e CLICOLOR_FORCE then ChAlways
      (* otherwise CLICOLOR=0 disables it *)
      else if set_to e CLICOLOR V_0 then ChNever
      (* otherwise colour is enabled exactly when the stream is a terminal and at
         least one of these holds: TERM is set to anything other than 'dumb',
         CLICOLOR is set to anything other than '0', CI is set *)
      else if tty && (set_other_than e TERM V_dumb || set_other_than e CLICOLOR V_0 || is_set e CI)
      then ChAlways
      else ChNever
  (* an explicit global choice wins *)
  | explicit => explicit
  end.

(* ---- the published conventions of the individual probes --------------------- *)

Definition spec_no_color (e : environment) : bool := set_non_empty e NO_COLOR.
Definition spec_clicolor_force (e : environment) : bool := set_non_empty e CLICOLOR_FORCE.
(* CLICOLOR: no answer when unset; otherwise "colours wanted" unless the value is 0 *)
Definition spec_clicolor (e : environment) : option bool :=
  match e CLICOLOR with None => None | Some x => Some (negb (chs_eqb x V_0)) end.
Definition spec_term_color (e : environment) : bool := set_other_than e TERM V_dumb.
Definition spec_truecolor (e : environment) : bool :=
  set_to e COLORTERM V_truecolor || set_to e COLORTERM V_24bit.
Definition spec_is_ci (e : environment) : bool := is_set e CI.

(* ---- the command-line flag --------------------------------------------------- *)

(* the word typed after --color *)
Definition flag_word (f : color_flag) : list N :=
  match f with
  | FlAuto => W_auto
  | FlAlways => W_always
  | FlNever => W_never
  end.

Definition all_flags : list color_flag := [FlAuto; FlAlways; FlNever].
Definition all_choices : list choice := [ChAuto; ChAlwaysAnsi; ChAlways; ChNever].

Definition flag_of_word (w : list N) : option color_flag :=
  find (fun f => chs_eqb w (flag_word f)) all_flags.

(* the same vocabulary for the global choice (the fourth value has no flag) *)
Definition choice_word (c : choice) : list N :=
  match c with
  | ChAuto => W_auto
  | ChAlwaysAnsi => W_always_ansi
  | ChAlways => W_always
  | ChNever => W_never
  end.

(* "maps one-to-one onto the global choice": each flag value selects the global
   choice of the same name *)
Definition flag_choice_spec (f : color_flag) : choice :=
  match f with FlAuto => ChAuto | FlAlways => ChAlways | FlNever => ChNever end.
