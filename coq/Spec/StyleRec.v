(* Spec/StyleRec.v -- the plain style record shared by the text-parser
   specifications and models (C11, C12): three optional colours and the effect
   set as a bit set with the bit numbering of anstyle::Effects.  Data only; no
   reference to Model/ or Generated/. *)
From Coq Require Import NArith List Bool.
Import ListNotations.
Local Open Scope N_scope.

(* anstyle::Color: Ansi(AnsiColor #i, i < 16: Black..White, BrightBlack..BrightWhite),
   Ansi256(Ansi256Color(i)), Rgb(RgbColor(r, g, b)).  (The names carry a T/t_ prefix so
   that they stay unique in the single extracted OCaml module.) *)
Inductive tcolor : Set :=
  | TAnsi (i : N)
  | TAnsi256 (i : N)
  | TRgb (r g b : N).

Record tstyle : Set := mkTStyle {
  t_fg : option tcolor;
  t_bg : option tcolor;
  t_ul : option tcolor;
  t_eff : N
}.

Definition t_default : tstyle := mkTStyle None None None 0.

(* bit indices of anstyle::Effects *)
Definition BOLD : N := 0.
Definition DIMMED : N := 1.
Definition ITALIC : N := 2.
Definition UNDERLINE : N := 3.
Definition DOUBLE_UNDERLINE : N := 4.
Definition CURLY_UNDERLINE : N := 5.
Definition DOTTED_UNDERLINE : N := 6.
Definition DASHED_UNDERLINE : N := 7.
Definition BLINK : N := 8.
Definition INVERT : N := 9.
Definition HIDDEN : N := 10.
Definition STRIKETHROUGH : N := 11.

Definition eff_insert (e bit : N) : N := N.lor e (2 ^ bit).
Definition eff_remove (e bit : N) : N := N.ldiff e (2 ^ bit).
Definition eff_remove_all (e : N) (bits : list N) : N := fold_left eff_remove bits e.
Definition eff_has (e bit : N) : bool := N.testbit e bit.

Definition set_fg (s : tstyle) (c : option tcolor) : tstyle := mkTStyle c (t_bg s) (t_ul s) (t_eff s).
Definition set_bg (s : tstyle) (c : option tcolor) : tstyle := mkTStyle (t_fg s) c (t_ul s) (t_eff s).
Definition set_underline (s : tstyle) (c : option tcolor) : tstyle := mkTStyle (t_fg s) (t_bg s) c (t_eff s).
Definition set_effects (s : tstyle) (e : N) : tstyle := mkTStyle (t_fg s) (t_bg s) (t_ul s) e.

(* decidable equality (used by finite enumerations) *)
Definition color_eqb (a b : tcolor) : bool :=
  match a, b with
  | TAnsi i, TAnsi j => i =? j
  | TAnsi256 i, TAnsi256 j => i =? j
  | TRgb r g b, TRgb r' g' b' => (r =? r') && (g =? g') && (b =? b')
  | _, _ => false
  end.

Definition ocolor_eqb (a b : option tcolor) : bool :=
  match a, b with
  | None, None => true
  | Some x, Some y => color_eqb x y
  | _, _ => false
  end.

Definition style_eqb (a b : tstyle) : bool :=
  ocolor_eqb (t_fg a) (t_fg b) && ocolor_eqb (t_bg a) (t_bg b) && ocolor_eqb (t_ul a) (t_ul b)
  && (t_eff a =? t_eff b).

(* result of the git colour parser: the style, or the error naming a word (a
   word is a list of code points) *)
Inductive git_result : Set :=
  | GOk (s : tstyle)
  | GExtraColor (w : list N)
  | GUnknownWord (w : list N).
