(* Spec/Render.v -- the vocabulary of property C05, written from the property text
   and the standards it names (ECMA-48 8.3.117 SGR with the xterm / ITU T.416 /
   kitty extensions); independent of Model/ and Generated/.

   * how a control sequence "ESC [ p ; p ... m" is written down: decimal digit
     strings, ';' between parameters, ':' between sub-parameters ([rn_csi]);
   * which SGR sequences express a rendition ([rn_groups_of]): one sequence per
     effect in the order of the effect numbering, then foreground, background,
     underline colour;
   * what "the same style comes back" means ([rn_norm]): a terminal has no
     16-colour form for the underline colour, it comes back as the same index of
     the 256-colour palette; and, a terminal having ONE underline attribute,
     what comes back when several underline kinds are requested
     ([rn_last_kind_wins]). *)
From Coq Require Import NArith List Bool.
From AV Require Import Spec.Vt Spec.Sgr Spec.Algebra.
Import ListNotations.
Local Open Scope N_scope.

(* ---- decimal parameters ---------------------------------------------------- *)

Definition rn_is_digit (d : N) : bool := (48 <=? d) && (d <=? 57).

Definition rn_dec_from (v : N) (ds : list N) : N := fold_left (fun v d => 10 * v + (d - 48)) ds v.
Definition rn_dec_value (ds : list N) : N := rn_dec_from 0 ds.

Fixpoint rn_join (sep : N) (l : list (list N)) : list N :=
  match l with
  | [] => []
  | x :: t => match t with [] => x | _ :: _ => x ++ sep :: rn_join sep t end
  end.

(* a printed parameter list: a list of parameters, each a list of sub-parameters,
   each a digit string (possibly empty, possibly with leading zeros) *)
Definition rn_print_params (gs : list (list (list N))) : list N := rn_join 59 (map (rn_join 58) gs).
Definition rn_csi (gs : list (list (list N))) (final : N) : list N := 27 :: 91 :: rn_print_params gs ++ [final].
Definition rn_param_values (gs : list (list (list N))) : list (list N) := map (map rn_dec_value) gs.

Definition rn_nonempty {A} (l : list A) : bool := match l with [] => false | _ :: _ => true end.
Definition rn_digits_ok (ds : list N) : bool := forallb rn_is_digit ds && (rn_dec_value ds <? 65536).
(* at least one parameter, no parameter without sub-parameter, digits only, every
   value below 65536, at most 32 values in all (the limits of Spec/Vt) *)
Definition rn_csi_ok (gs : list (list (list N))) : bool :=
  rn_nonempty gs && forallb (fun g => rn_nonempty g && forallb rn_digits_ok g) gs
  && Nat.leb (length (concat gs)) 32.

(* ---- a rendition as SGR sequences ---------------------------------------------- *)

(* the parameter groups of the sequence that selects effect number i *)
Definition rn_effect_groups (i : N) : list (list N) :=
  match i with
  | 0 => [[1]]        (* bold *)
  | 1 => [[2]]        (* faint *)
  | 2 => [[3]]        (* italic *)
  | 3 => [[4]]        (* underline *)
  | 4 => [[21]]       (* doubly underlined *)
  | 5 => [[4; 3]]     (* curly underline *)
  | 6 => [[4; 4]]     (* dotted underline *)
  | 7 => [[4; 5]]     (* dashed underline *)
  | 8 => [[5]]        (* blink *)
  | 9 => [[7]]        (* negative image *)
  | 10 => [[8]]       (* concealed *)
  | 11 => [[9]]       (* crossed out *)
  | _ => [[]]
  end.

(* extended colour, legacy ';' spelling: 38;5;n  /  38;2;r;g;b (one sequence) *)
Definition rn_ext_groups (code : N) (c : colour) : list (list N) :=
  match c with
  | CAnsi i => [[code]; [5]; [i]]
  | CIdx n => [[code]; [5]; [n]]
  | CRgb r g b => [[code]; [2]; [r]; [g]; [b]]
  end.

Definition rn_fg_groups (c : colour) : list (list N) :=
  match c with
  | CAnsi i => [[if i <? 8 then 30 + i else 90 + (i - 8)]]
  | _ => rn_ext_groups 38 c
  end.

Definition rn_bg_groups (c : colour) : list (list N) :=
  match c with
  | CAnsi i => [[if i <? 8 then 40 + i else 100 + (i - 8)]]
  | _ => rn_ext_groups 48 c
  end.

(* there is no 16-colour code for the underline colour *)
Definition rn_ul_groups (c : colour) : list (list N) := rn_ext_groups 58 c.

Definition rn_opt {A B} (f : A -> B) (o : option A) : list B :=
  match o with Some c => [f c] | None => [] end.

Definition rn_groups_of (t : sstyle) : list (list (list N)) :=
  map rn_effect_groups (members (s_eff t))
  ++ rn_opt rn_fg_groups (s_fg t) ++ rn_opt rn_bg_groups (s_bg t) ++ rn_opt rn_ul_groups (s_ul t).

Definition rn_sgr (g : list (list N)) : event := ECsi g [] false 109.

(* ---- style values and what comes back ---------------------------------------- *)

Definition rn_colour_wf (c : colour) : Prop :=
  match c with
  | CAnsi i => i < 16
  | CIdx n => n < 256
  | CRgb r g b => r < 256 /\ g < 256 /\ b < 256
  end.
Definition rn_ocolour_wf (o : option colour) : Prop :=
  match o with Some c => rn_colour_wf c | None => True end.

(* "every style value": an effect set below 2^12, u8 components *)
Definition rn_wf (t : sstyle) : Prop :=
  valid (s_eff t) /\ rn_ocolour_wf (s_fg t) /\ rn_ocolour_wf (s_bg t) /\ rn_ocolour_wf (s_ul t).

Definition rn_norm_ul (o : option colour) : option colour :=
  match o with Some (CAnsi i) => Some (CIdx i) | x => x end.

Definition rn_norm (t : sstyle) : sstyle :=
  mkStyle (s_fg t) (s_bg t) (rn_norm_ul (s_ul t)) (s_eff t).

Definition rn_underline_kinds (e : N) : list N := filter (mem e) [3; 4; 5; 6; 7].

Definition rn_at_most_one_underline_kind (t : sstyle) : Prop :=
  (length (rn_underline_kinds (s_eff t)) <= 1)%nat.

Fixpoint rn_last_opt {A} (l : list A) : option A :=
  match l with
  | [] => None
  | x :: t => match rn_last_opt t with Some y => Some y | None => Some x end
  end.

(* several underline kinds requested one after the other: the last one stays *)
Definition rn_last_kind_wins (e : N) : N :=
  N.lor (N.ldiff e underline_mask)
        (match rn_last_opt (rn_underline_kinds e) with Some k => bit k | None => 0 end).

Definition rn_norm_general (t : sstyle) : sstyle :=
  mkStyle (s_fg t) (s_bg t) (rn_norm_ul (s_ul t)) (rn_last_kind_wins (s_eff t)).

(* the rendition in effect after a stream of parser events *)
Definition rn_interp_style (es : list event) (s : sstyle) : sstyle := fold_left event_style es s.

(* ... after a byte string sent to a terminal in its default state (this is
   [snd (interp style_default _)] of Spec/Sgr, see Proofs/Render.rn_interp_snd) *)
Definition rn_final_style (bs : list N) : sstyle := snd (interp style_default (spec_events bs)).
