(* Spec/Strip.v -- what "stripping" means (C01): one left-to-right pass over the VT
   model of Spec/Vt that keeps a byte iff the model prints it (Print other than
   DEL, or any byte of a multi-byte character) or executes it as TAB / LF / FF /
   CR.  Malformed UTF-8: a lead byte opens a character; the character absorbs the
   following bytes as long as the UTF-8 DFA accepts them; a high byte the DFA
   rejects is absorbed as the last byte of the broken character; a 7-bit byte
   never belongs to a character -- it ends the broken character and is processed
   from Ground.  Independent of Model/ and Generated/. *)
From Coq Require Import NArith List Bool.
From AV Require Import Spec.Utf8 Spec.Vt.
Import ListNotations.
Local Open Scope N_scope.

Definition is_ws_control (b : N) : bool := (b =? 9) || (b =? 10) || (b =? 12) || (b =? 13).

Definition keeps (a : vact) (b : N) : bool :=
  match a with
  | TPrint => negb (b =? 127)
  | TExecute => is_ws_control b
  | TUtf8 => true
  | _ => false
  end.

Record sstate : Set := mkS { sv : vstate; su : option ustate }.
Definition s_init : sstate := mkS VGround None.

Definition plain_step (v : vstate) (b : N) : sstate * bool :=
  let '(tgt, a) := vt_trans v b in
  let v' := match tgt with Some t => t | None => v end in
  match a with
  | TUtf8 => (mkS v' (utf8_lead b), true)
  | _ => (mkS v' None, keeps a b)
  end.

Definition strip_step (s : sstate) (b : N) : sstate * bool :=
  match su s with
  | Some u =>
      if b <? 128 then plain_step VGround b
      else match utf8_cont u b with
           | UMore u' => (mkS (sv s) (Some u'), true)
           | UDone | UBad => (mkS (sv s) None, true)
           end
  | None => plain_step (sv s) b
  end.

Fixpoint strip_run (s : sstate) (bs : list N) : sstate * list N :=
  match bs with
  | [] => (s, [])
  | b :: rest =>
      let '(s1, k) := strip_step s b in
      let '(s2, out) := strip_run s1 rest in
      (s2, if k then b :: out else out)
  end.

Definition spec_strip (bs : list N) : list N := snd (strip_run s_init bs).
