(* Spec/Io.v -- the std::io::Write contract as far as the properties need it: an
   inner writer is a script of responses, consumed one entry per `write` call; an
   exhausted script accepts everything; `Accept n` is clamped to the buffer
   length.  std's default `write_all` loop is defined here once.  Independent of
   Model/ and Generated/. *)
From Coq Require Import NArith List Bool.
Import ListNotations.
Local Open Scope N_scope.

Inductive ekind : Set := Interrupted | WouldBlock | Other | WriteZero.

Inductive resp : Set := Accept (n : N) | Fail (k : ekind).

(* what the inner writer saw, in order *)
Inductive wcall : Set :=
  | CWrite (buf : list N) (res : N + ekind)     (* write(buf) -> Ok n / Err k *)
  | CFlush.

Record writer : Set := mkW {
  w_script : list resp;
  w_received : list N;          (* bytes accepted so far, in order *)
  w_calls : list wcall          (* call history, oldest first *)
}.

Definition writer_of (script : list resp) : writer := mkW script [] [].

Definition w_write (w : writer) (buf : list N) : writer * (N + ekind) :=
  let len := N.of_nat (length buf) in
  match w_script w with
  | [] => (mkW [] (w_received w ++ buf) (w_calls w ++ [CWrite buf (inl len)]), inl len)
  | Accept n :: rest =>
      let k := N.min n len in
      (mkW rest (w_received w ++ firstn (N.to_nat k) buf) (w_calls w ++ [CWrite buf (inl k)]), inl k)
  | Fail e :: rest => (mkW rest (w_received w) (w_calls w ++ [CWrite buf (inr e)]), inr e)
  end.

Definition w_flush (w : writer) : writer := mkW (w_script w) (w_received w) (w_calls w ++ [CFlush]).

(* std::io::Write::write_all (default method): retry on Interrupted, Ok(0) on a
   non-empty buffer is WriteZero.  The fuel [length script + length buf + 1]
   always suffices (every iteration consumes a script entry or a byte). *)
Fixpoint w_write_all_fuel (fuel : nat) (w : writer) (buf : list N) : writer * (unit + ekind) :=
  match buf with
  | [] => (w, inl tt)
  | _ =>
      match fuel with
      | O => (w, inr Other)
      | S f =>
          let '(w1, r) := w_write w buf in
          match r with
          | inl 0 => (w1, inr WriteZero)
          | inl n => w_write_all_fuel f w1 (skipn (N.to_nat n) buf)
          | inr Interrupted => w_write_all_fuel f w1 buf
          | inr e => (w1, inr e)
          end
      end
  end.

Definition w_write_all (w : writer) (buf : list N) : writer * (unit + ekind) :=
  w_write_all_fuel (S (length (w_script w) + length buf)) w buf.
