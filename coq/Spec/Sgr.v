(* Spec/Sgr.v -- what SGR (Select Graphic Rendition, ECMA-48 8.3.117 with the
   xterm / ITU T.416 / kitty extensions) does to a terminal's rendition state, as a
   conforming terminal applies it.  Written from the standards, independent of
   Model/ and Generated/.

   Rendition state = foreground, background and underline colour (None = default)
   and a set of effects (numbered as in anstyle::Effects: bit 0 BOLD, 1 DIMMED,
   2 ITALIC, 3 UNDERLINE, 4 DOUBLE_UNDERLINE, 5 CURLY_UNDERLINE, 6 DOTTED_UNDERLINE,
   7 DASHED_UNDERLINE, 8 BLINK, 9 INVERT, 10 HIDDEN, 11 STRIKETHROUGH).  A terminal
   has ONE underline attribute: selecting an underline style replaces the previous
   one. *)
From Coq Require Import NArith List Bool.
From AV Require Import Spec.Vt.
Import ListNotations.
Local Open Scope N_scope.

Inductive colour : Set :=
  | CAnsi (i : N)                (* 16-colour palette, 0..15 (8..15 bright) *)
  | CIdx (i : N)                 (* 256-colour palette index *)
  | CRgb (r g b : N).

Record sstyle : Set := mkStyle {
  s_fg : option colour;
  s_bg : option colour;
  s_ul : option colour;
  s_eff : N
}.

Definition style_default : sstyle := mkStyle None None None 0.

Definition BOLD := 0. Definition DIMMED := 1. Definition ITALIC := 2.
Definition UNDERLINE := 3. Definition DOUBLE_UNDERLINE := 4. Definition CURLY_UNDERLINE := 5.
Definition DOTTED_UNDERLINE := 6. Definition DASHED_UNDERLINE := 7.
Definition BLINK := 8. Definition INVERT := 9. Definition HIDDEN := 10. Definition STRIKETHROUGH := 11.

Definition bit (k : N) : N := N.shiftl 1 k.
Definition eff_on (s : sstyle) (k : N) : sstyle :=
  mkStyle (s_fg s) (s_bg s) (s_ul s) (N.lor (s_eff s) (bit k)).
Definition eff_off_mask (s : sstyle) (m : N) : sstyle :=
  mkStyle (s_fg s) (s_bg s) (s_ul s) (N.ldiff (s_eff s) m).

(* the five underline kinds share one terminal attribute *)
Definition underline_mask : N := 248.  (* bits 3..7 *)
Definition set_underline (s : sstyle) (kind : option N) : sstyle :=
  let s0 := eff_off_mask s underline_mask in
  match kind with Some k => eff_on s0 k | None => s0 end.

Definition set_fg (s : sstyle) (c : option colour) : sstyle := mkStyle c (s_bg s) (s_ul s) (s_eff s).
Definition set_bg (s : sstyle) (c : option colour) : sstyle := mkStyle (s_fg s) c (s_ul s) (s_eff s).
Definition set_ulc (s : sstyle) (c : option colour) : sstyle := mkStyle (s_fg s) (s_bg s) c (s_eff s).

Inductive target : Set := TFg | TBg | TUl.
Definition set_target (t : target) (s : sstyle) (c : option colour) : sstyle :=
  match t with TFg => set_fg s c | TBg => set_bg s c | TUl => set_ulc s c end.

Definition ext_target (code : N) : option target :=
  if code =? 38 then Some TFg else if code =? 48 then Some TBg else if code =? 58 then Some TUl else None.

Definition in_rng (lo hi x : N) : bool := (lo <=? x) && (x <=? hi).

(* a single code (a parameter without sub-parameters, not an extended colour) *)
Definition sgr_code (s : sstyle) (c : N) : sstyle :=
  if c =? 0 then style_default
  else if c =? 1 then eff_on s BOLD
  else if c =? 2 then eff_on s DIMMED
  else if c =? 3 then eff_on s ITALIC
  else if c =? 4 then set_underline s (Some UNDERLINE)
  else if (c =? 5) || (c =? 6) then eff_on s BLINK
  else if c =? 7 then eff_on s INVERT
  else if c =? 8 then eff_on s HIDDEN
  else if c =? 9 then eff_on s STRIKETHROUGH
  else if c =? 21 then set_underline s (Some DOUBLE_UNDERLINE)
  else if c =? 22 then eff_off_mask s (N.lor (bit BOLD) (bit DIMMED))
  else if c =? 23 then eff_off_mask s (bit ITALIC)
  else if c =? 24 then set_underline s None
  else if c =? 25 then eff_off_mask s (bit BLINK)
  else if c =? 27 then eff_off_mask s (bit INVERT)
  else if c =? 28 then eff_off_mask s (bit HIDDEN)
  else if c =? 29 then eff_off_mask s (bit STRIKETHROUGH)
  else if in_rng 30 37 c then set_fg s (Some (CAnsi (c - 30)))
  else if c =? 39 then set_fg s None
  else if in_rng 40 47 c then set_bg s (Some (CAnsi (c - 40)))
  else if c =? 49 then set_bg s None
  else if c =? 59 then set_ulc s None
  else if in_rng 90 97 c then set_fg s (Some (CAnsi (c - 90 + 8)))
  else if in_rng 100 107 c then set_bg s (Some (CAnsi (c - 100 + 8)))
  else s.

(* 4:n *)
Definition underline_kind (n : N) : option (option N) :=
  if n =? 0 then Some None
  else if n =? 1 then Some (Some UNDERLINE)
  else if n =? 2 then Some (Some DOUBLE_UNDERLINE)
  else if n =? 3 then Some (Some CURLY_UNDERLINE)
  else if n =? 4 then Some (Some DOTTED_UNDERLINE)
  else if n =? 5 then Some (Some DASHED_UNDERLINE)
  else None.

(* the parameter groups of one SGR sequence, left to right.  An extended colour
   is either one group with sub-parameters (38:5:n, 38:2:r:g:b) or the legacy
   spelling spread over consecutive single-value groups (38;5;n, 38;2;r;g;b). *)
Fixpoint sgr_groups (s : sstyle) (gs : list (list N)) : sstyle :=
  match gs with
  | [] => s
  | [c] :: rest =>
      match ext_target c, rest with
      | Some t, [5] :: [n] :: rest' => sgr_groups (set_target t s (Some (CIdx n))) rest'
      | Some t, [2] :: [r] :: [g] :: [b] :: rest' => sgr_groups (set_target t s (Some (CRgb r g b))) rest'
      | Some _, _ => sgr_groups s rest          (* incomplete: outside what the properties cover *)
      | None, _ => sgr_groups (sgr_code s c) rest
      end
  | [c; 5; n] :: rest =>
      match ext_target c with
      | Some t => sgr_groups (set_target t s (Some (CIdx n))) rest
      | None => sgr_groups s rest
      end
  | [c; 2; r; g; b] :: rest =>
      match ext_target c with
      | Some t => sgr_groups (set_target t s (Some (CRgb r g b))) rest
      | None => sgr_groups s rest
      end
  | [4; n] :: rest =>
      match underline_kind n with
      | Some k => sgr_groups (set_underline s k) rest
      | None => sgr_groups s rest
      end
  | _ :: rest => sgr_groups s rest
  end.

Definition sgr_apply (s : sstyle) (gs : list (list N)) : sstyle := sgr_groups s gs.

(* the rendition in effect after a stream of parser events, and the visible text
   tagged with it *)
Definition event_style (s : sstyle) (e : event) : sstyle :=
  match e with
  | ECsi ps [] false 109 => sgr_apply s ps
  | _ => s
  end.

Definition is_ws_exec (b : N) : bool := (b =? 9) || (b =? 10) || (b =? 12) || (b =? 13).

Fixpoint interp (s : sstyle) (es : list event) : list (sstyle * N) * sstyle :=
  match es with
  | [] => ([], s)
  | e :: rest =>
      let s1 := event_style s e in
      let '(out, s2) := interp s1 rest in
      match e with
      | EPrint cp => ((s1, cp) :: out, s2)
      | EExecute b => if is_ws_exec b then ((s1, b) :: out, s2) else (out, s2)
      | _ => (out, s2)
      end
  end.

(* grouping the tagged characters into maximal runs of equal rendition *)
Definition colour_eqb (a b : colour) : bool :=
  match a, b with
  | CAnsi x, CAnsi y => x =? y
  | CIdx x, CIdx y => x =? y
  | CRgb r g b0, CRgb r' g' b' => (r =? r') && (g =? g') && (b0 =? b')
  | _, _ => false
  end.
Definition opt_colour_eqb (a b : option colour) : bool :=
  match a, b with
  | None, None => true
  | Some x, Some y => colour_eqb x y
  | _, _ => false
  end.
Definition sstyle_eqb (a b : sstyle) : bool :=
  opt_colour_eqb (s_fg a) (s_fg b) && opt_colour_eqb (s_bg a) (s_bg b)
  && opt_colour_eqb (s_ul a) (s_ul b) && (s_eff a =? s_eff b).

Fixpoint group_runs (cs : list (sstyle * N)) : list (sstyle * list N) :=
  match cs with
  | [] => []
  | (s, c) :: rest =>
      match group_runs rest with
      | (s', t) :: rest' => if sstyle_eqb s s' then (s, c :: t) :: rest' else (s, [c]) :: (s', t) :: rest'
      | [] => [(s, [c])]
      end
  end.

Definition spec_runs (bs : list N) : list (sstyle * list N) :=
  group_runs (fst (interp style_default (spec_events bs))).
