(* Spec/ParseCfg.v -- C20, written from the property text: every feature set
   reports, on 7-bit input, the events of Williams' parser (Spec/Vt); a build
   with the fixed OSC buffer (feature `core`) reports them for the input in which
   every OSC payload is cut once it holds [pc_spec_limit] bytes other than the
   separator ';' -- everything after that point up to the terminator is lost,
   separators included.  Nothing here refers to Model/ or Generated/. *)
From Coq Require Import NArith List Bool.
From AV Require Import Spec.Utf8 Spec.Vt.
Import ListNotations.
Local Open Scope N_scope.

Definition pc_spec_limit : N := 1024.

Definition pc_spec_seven_bit (bs : list N) : bool := forallb (fun b => b <? 128) bs.

(* payload bytes stored so far: separators take no room *)
Definition pc_spec_stored (payload : list N) : N :=
  N.of_nat (length (filter (fun b => negb (b =? 59)) payload)).

(* byte [b] belongs to an OSC payload that already holds [cap] stored bytes *)
Definition pc_spec_drops (cap : N) (s : vt) (b : N) : bool :=
  match uni s with
  | Some _ => false
  | None =>
      match vs s, vt_trans (vs s) b with
      | VOsc, (None, TOscPut) => pc_spec_stored (osc s) =? cap
      | _, _ => false
      end
  end.

Fixpoint pc_spec_trunc (cap : N) (s : vt) (bs : list N) : list N :=
  match bs with
  | [] => []
  | b :: rest =>
      if pc_spec_drops cap s b then pc_spec_trunc cap s rest
      else b :: pc_spec_trunc cap (fst (vt_step s b)) rest
  end.

(* no byte is dropped: every OSC payload fits *)
Fixpoint pc_spec_fits (cap : N) (s : vt) (bs : list N) : bool :=
  match bs with
  | [] => true
  | b :: rest => negb (pc_spec_drops cap s b) && pc_spec_fits cap (fst (vt_step s b)) rest
  end.

(* feature sets with the fixed buffer: "core", "core-utf8" *)
Definition pc_spec_label_fixed (l : list N) : bool :=
  match l with
  | [99; 111; 114; 101] => true
  | [99; 111; 114; 101; 45; 117; 116; 102; 56] => true
  | _ => false
  end.

(* the expected callbacks of the build with the given label; [None] = outside
   the property's domain (input not 7-bit) *)
Definition pc_spec_answer (label : list N) (bs : list N) : option (list event) :=
  if pc_spec_seven_bit bs then
    Some (spec_events (if pc_spec_label_fixed label then pc_spec_trunc pc_spec_limit vt_init bs else bs))
  else None.
