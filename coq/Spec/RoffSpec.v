(* Spec/RoffSpec.v -- specification of C15 (roff rendering of styled text), written
   from the property text, ECMA-48 (SGR), the public xterm 256-colour layout and
   groff(7) (control lines, escapes); no reference to Model/ or Generated/.

   The explored domain D: a styled text is a list of segments, every segment
   introduced by ONE self-contained SGR sequence  ESC [ 0 ; <codes> m  (a reset, then
   the codes of its effects in the order listed, then the 16-colour foreground and
   background codes) followed by the segment's text.

   The expected document, per segment with visible (non-empty) text:
        .gcolor <foreground>        ("default" when unset, else the roff colour name)
        .fcolor <background>
        <text>                      \fB..\fR when the segment is bold or its foreground
                                    is bright, else \fI..\fR when italic, else roman
   roff has eight named colours; a bright colour is named by its base colour (a bright
   FOREGROUND is additionally shown by the bold font, as the statement says).  A segment
   without text has nothing visible and contributes nothing.

   Escaping: a text line must not be read as a request, and `\` and `-` are escape /
   hyphenation characters of roff: `\` is written `\\`, `-` is written `\-`, and a `.`
   or `'` that would begin an output line is preceded by the zero-width `\&`. *)
From Coq Require Import NArith List Bool.
From AV Require Import Spec.StyleRec Spec.SgrCodes Spec.Lossy.
Import ListNotations.
Local Open Scope N_scope.

(* ---- the domain D ------------------------------------------------------------ *)

(* the effects a single SGR code 1..9 turns on (6 = rapid blink is not listed by the
   statement and left out) *)
Inductive rf_effect : Set :=
  | RfBold | RfFaint | RfItalic | RfUnderline | RfBlink | RfInvert | RfHidden | RfStrike.

Definition rf_effect_code (e : rf_effect) : N :=
  match e with
  | RfBold => 1 | RfFaint => 2 | RfItalic => 3 | RfUnderline => 4
  | RfBlink => 5 | RfInvert => 7 | RfHidden => 8 | RfStrike => 9
  end.

(* a segment: its effects (in the order their codes are written; repetitions allowed),
   optional 16-colour foreground and background (0..7 normal, 8..15 bright), text *)
Record rf_seg : Set := mkRfSeg {
  rs_effects : list rf_effect;
  rs_fg : option N;
  rs_bg : option N;
  rs_text : list N
}.

Definition rf_color_ok (c : option N) : Prop :=
  match c with None => True | Some i => i < 16 end.

Definition rf_ESC : N := 27.

(* the text is the segment's own: it contains no ESC (it cannot start a sequence) *)
Definition rf_seg_ok (s : rf_seg) : Prop :=
  rf_color_ok (rs_fg s) /\ rf_color_ok (rs_bg s) /\ ~ In rf_ESC (rs_text s).

Definition rf_D (segs : list rf_seg) : Prop := Forall rf_seg_ok segs.

Definition rf_effect_eqb (a b : rf_effect) : bool := rf_effect_code a =? rf_effect_code b.
Definition rf_has (e : rf_effect) (s : rf_seg) : bool := existsb (rf_effect_eqb e) (rs_effects s).

(* recorded finding F15-3: both bold and faint requested in one sequence *)
Definition rf_bold_and_faint (s : rf_seg) : bool := rf_has RfBold s && rf_has RfFaint s.

(* ---- printing a member of D --------------------------------------------------- *)

Definition rf_fg_code (i : N) : N := if i <? 8 then 30 + i else 90 + (i - 8).
Definition rf_bg_code (i : N) : N := if i <? 8 then 40 + i else 100 + (i - 8).

Definition rf_opt_code (f : N -> N) (c : option N) : list N :=
  match c with None => [] | Some i => [f i] end.

(* the codes after the leading reset *)
Definition rf_seg_codes (s : rf_seg) : list N :=
  map rf_effect_code (rs_effects s) ++ rf_opt_code rf_fg_code (rs_fg s) ++ rf_opt_code rf_bg_code (rs_bg s).

(* ESC [ 0 (; code)* m text *)
Definition rf_print_seg (s : rf_seg) : list N :=
  [rf_ESC; 91; 48] ++ concat (map (fun c => SEMI :: dec c) (rf_seg_codes s)) ++ [109] ++ rs_text s.

Definition rf_print_D (segs : list rf_seg) : list N := concat (map rf_print_seg segs).

(* ---- the expected document ----------------------------------------------------- *)

Definition rf_NL : N := 10.
Definition rf_BSL : N := 92.

(* the eight roff colour names; a bright colour has the name of its base colour *)
Definition rf_base_name (i : N) : list N :=
  match i mod 8 with
  | 0 => [98; 108; 97; 99; 107]              (* black *)
  | 1 => [114; 101; 100]                     (* red *)
  | 2 => [103; 114; 101; 101; 110]           (* green *)
  | 3 => [121; 101; 108; 108; 111; 119]      (* yellow *)
  | 4 => [98; 108; 117; 101]                 (* blue *)
  | 5 => [109; 97; 103; 101; 110; 116; 97]   (* magenta *)
  | 6 => [99; 121; 97; 110]                  (* cyan *)
  | _ => [119; 104; 105; 116; 101]           (* white *)
  end.

Definition rf_word_default : list N := [100; 101; 102; 97; 117; 108; 116].   (* default *)
Definition rf_word_gcolor : list N := [103; 99; 111; 108; 111; 114].          (* gcolor: glyph (foreground) colour *)
Definition rf_word_fcolor : list N := [102; 99; 111; 108; 111; 114].          (* fcolor: fill (background) colour *)
Definition rf_word_defcolor : list N := [100; 101; 102; 99; 111; 108; 111; 114].   (* defcolor *)
Definition rf_word_rgb : list N := [114; 103; 98].                            (* rgb *)

Definition rf_color_word (c : option N) : list N :=
  match c with None => rf_word_default | Some i => rf_base_name i end.

(* a request line (without its newline): .name arg *)
Definition rf_request (name arg : list N) : list N := 46 :: name ++ 32 :: arg.

Inductive rf_font : Set := RfFontBold | RfFontItalic | RfFontRoman.

Definition rf_bright (c : option N) : bool :=
  match c with Some i => 8 <=? i | None => false end.

(* bold when bold or bright foreground; otherwise italic when italic; otherwise roman *)
Definition rf_seg_font (s : rf_seg) : rf_font :=
  if rf_has RfBold s || rf_bright (rs_fg s) then RfFontBold
  else if rf_has RfItalic s then RfFontItalic
  else RfFontRoman.

Definition rf_is_cc (c : N) : bool := (c =? 46) || (c =? 39).   (* '.' and ''' begin a control line *)

(* the zero-width guard \& in front of a control character at the start of a line *)
Definition rf_guard (rest : list N) : list N :=
  match rest with
  | c :: _ => if rf_is_cc c then [rf_BSL; 38] else []
  | [] => []
  end.

Definition rf_esc_char (c : N) : list N :=
  if c =? rf_BSL then [rf_BSL; rf_BSL] else if c =? 45 then [rf_BSL; 45] else [c].

(* one pass; after every newline of the text the next character is guarded if needed *)
Fixpoint rf_escape (t : list N) : list N :=
  match t with
  | [] => []
  | c :: r => rf_esc_char c ++ (if c =? rf_NL then rf_guard r else []) ++ rf_escape r
  end.

Definition rf_font_on (f : rf_font) : list N :=
  match f with RfFontBold => [rf_BSL; 102; 66] | RfFontItalic => [rf_BSL; 102; 73] | RfFontRoman => [] end.
Definition rf_font_off (f : rf_font) : list N :=
  match f with RfFontRoman => [] | _ => [rf_BSL; 102; 82] end.

(* the text part of a segment (without the final newline); a roman text begins the
   line itself, so its first character is guarded too *)
Definition rf_body (f : rf_font) (t : list N) : list N :=
  match f with
  | RfFontRoman => rf_guard t ++ rf_escape t
  | _ => rf_font_on f ++ rf_escape t ++ rf_font_off f
  end.

(* one segment set in font [f] *)
Definition rf_seg_doc_in (f : rf_font) (s : rf_seg) : list N :=
  match rs_text s with
  | [] => []
  | t => rf_request rf_word_gcolor (rf_color_word (rs_fg s)) ++ [rf_NL]
         ++ rf_request rf_word_fcolor (rf_color_word (rs_bg s)) ++ [rf_NL]
         ++ rf_body f t ++ [rf_NL]
  end.

Definition rf_seg_doc (s : rf_seg) : list N := rf_seg_doc_in (rf_seg_font s) s.

Definition rf_spec_doc (segs : list rf_seg) : list N := concat (map rf_seg_doc segs).

(* the visible text of a member of D: every non-empty segment text, one per text line *)
Definition rf_seg_visible (s : rf_seg) : list N :=
  match rs_text s with [] => [] | t => t ++ [rf_NL] end.
Definition rf_visible_text (segs : list rf_seg) : list N := concat (map rf_seg_visible segs).

(* ---- reading a roff document --------------------------------------------------- *)

(* the lines of a document (a final line without newline counts as a line) *)
Fixpoint rf_lines (s : list N) : list (list N) :=
  match s with
  | [] => []
  | c :: t =>
      if c =? rf_NL then [] :: rf_lines t
      else match rf_lines t with
           | l :: ls => (c :: l) :: ls
           | [] => [[c]]
           end
  end.

(* a control line: it begins with the control character '.' or the no-break control
   character ''' *)
Definition rf_is_request_line (l : list N) : bool :=
  match l with c :: _ => rf_is_cc c | [] => false end.

(* the escapes of groff(7) used here: \\ -> \, \- -> -, \& -> nothing, \fX -> nothing
   (font change); any other escaped character stands for itself *)
Inductive rf_umode : Set := RfUText | RfUEsc | RfUFont.

Fixpoint rf_unescape_from (m : rf_umode) (s : list N) : list N :=
  match s with
  | [] => []
  | c :: t =>
      match m with
      | RfUText => if c =? rf_BSL then rf_unescape_from RfUEsc t else c :: rf_unescape_from RfUText t
      | RfUEsc =>
          if c =? 38 then rf_unescape_from RfUText t
          else if c =? 102 then rf_unescape_from RfUFont t
          else c :: rf_unescape_from RfUText t
      | RfUFont => rf_unescape_from RfUText t
      end
  end.

Definition rf_unescape_roff (s : list N) : list N := rf_unescape_from RfUText s.

(* the text a roff processor typesets: the lines that are not requests, unescaped *)
Definition rf_doc_text (doc : list N) : list N :=
  rf_unescape_roff
    (concat (map (fun l => l ++ [rf_NL]) (filter (fun l => negb (rf_is_request_line l)) (rf_lines doc)))).

(* the requests the statement allows in a document made from 16-colour text *)
Definition rf_color_words : list (list N) := rf_word_default :: map rf_base_name [0; 1; 2; 3; 4; 5; 6; 7].
Definition rf_allowed_requests : list (list N) :=
  map (rf_request rf_word_gcolor) rf_color_words ++ map (rf_request rf_word_fcolor) rf_color_words.

(* ---- the general expectation (beyond D) ---------------------------------------- *)
(* Styles accumulate over SGR sequences (ECMA-48 8.3.117: each code changes the
   rendition "until the next occurrence of SGR" changes it again), and the 256-colour
   / direct-colour forms select a colour.  Used for the recorded findings F15-1 and
   F15-2 and as a cross-check of the D-specific expectation above; [None] = the
   statement says nothing (a sequence that is not a well-formed SGR). *)

Definition rf_hex_digit (d : N) : N := if d <? 10 then 48 + d else 87 + d.   (* 0-9 a-f *)
Definition rf_hex2 (v : N) : list N := [rf_hex_digit (v / 16); rf_hex_digit (v mod 16)].
Definition rf_hex_value (c : rgb) : list N :=
  let '(r, g, b) := c in 35 :: rf_hex2 r ++ rf_hex2 g ++ rf_hex2 b.         (* #rrggbb *)
Definition rf_hex_name (c : rgb) : list N := [104; 101; 120; 95] ++ rf_hex_value c.   (* hex_#rrggbb *)

(* a colour definition followed by the request that selects the defined colour *)
Definition rf_rgb_requests (req : list N) (c : rgb) : list N :=
  46 :: rf_word_defcolor ++ 32 :: rf_hex_name c ++ 32 :: rf_word_rgb ++ 32 :: rf_hex_value c ++ [rf_NL]
  ++ rf_request req (rf_hex_name c) ++ [rf_NL].

Definition rf_gen_color_requests (req : list N) (c : option tcolor) : list N :=
  match c with
  | None => rf_request req rf_word_default ++ [rf_NL]
  | Some (TAnsi i) => rf_request req (rf_base_name i) ++ [rf_NL]
  | Some (TAnsi256 n) =>
      if n <? 16 then rf_request req (rf_base_name n) ++ [rf_NL]
      else rf_rgb_requests req (xterm_fixed n)
  | Some (TRgb r g b) => rf_rgb_requests req (r, g, b)
  end.

(* the three kinds of colour, in the vocabulary of Spec/Lossy.v and of Spec/StyleRec.v *)
Definition rf_tcolor_of (c : color) : tcolor :=
  match c with
  | Ansi a => TAnsi a
  | Ansi256 i => TAnsi256 i
  | Rgb (r, g, b) => TRgb r g b
  end.

Definition rf_gen_bright (c : option tcolor) : bool :=
  match c with
  | Some (TAnsi i) => (8 <=? i) && (i <? 16)
  | Some (TAnsi256 n) => (8 <=? n) && (n <? 16)
  | _ => false
  end.

Definition rf_gen_font (st : tstyle) : rf_font :=
  if eff_has (t_eff st) BOLD || rf_gen_bright (t_fg st) then RfFontBold
  else if eff_has (t_eff st) ITALIC then RfFontItalic
  else RfFontRoman.

Definition rf_gen_seg_doc (st : tstyle) (t : list N) : list N :=
  rf_gen_color_requests rf_word_gcolor (t_fg st) ++ rf_gen_color_requests rf_word_fcolor (t_bg st)
  ++ rf_body (rf_gen_font st) t ++ [rf_NL].

(* parameters of one sequence: an empty parameter is 0 *)
Definition rf_gen_param (f : list N) : option N :=
  match f with [] => Some 0 | _ => strict_u8 f end.

Inductive rf_gmode : Set := RfGText | RfGEsc | RfGCsi (acc : list N).

Definition rf_gen_flush (st : tstyle) (pend : list N) : list N :=
  match pend with [] => [] | _ => rf_gen_seg_doc st (rev pend) end.

(* text runs between SGR sequences, each under the style accumulated so far *)
Fixpoint rf_gen_go (m : rf_gmode) (st : tstyle) (pend : list N) (s : list N) : option (list N) :=
  match s with
  | [] => match m with RfGText => Some (rf_gen_flush st pend) | _ => None end
  | c :: t =>
      match m with
      | RfGText => if c =? rf_ESC then rf_gen_go RfGEsc st pend t else rf_gen_go RfGText st (c :: pend) t
      | RfGEsc => if c =? 91 then rf_gen_go (RfGCsi []) st pend t else None
      | RfGCsi acc =>
          if is_digit c || (c =? SEMI) then rf_gen_go (RfGCsi (c :: acc)) st pend t
          else if c =? 109 then
            match all_some (map rf_gen_param (fields (rev acc))) with
            | Some codes =>
                if well_formed codes then
                  match rf_gen_go RfGText (sgr_codes st codes) [] t with
                  | Some rest => Some (rf_gen_flush st pend ++ rest)
                  | None => None
                  end
                else None
            | None => None
            end
          else None
      end
  end.

Definition rf_general_doc (input : list N) : option (list N) := rf_gen_go RfGText t_default [] input.

(* ---- entry points of the correspondence driver --------------------------------- *)

Fixpoint rf_bytes_eqb (a b : list N) : bool :=
  match a, b with
  | [], [] => true
  | x :: a', y :: b' => (x =? y) && rf_bytes_eqb a' b'
  | _, _ => false
  end.

Definition rf_color_okb (c : option N) : bool := match c with None => true | Some i => i <? 16 end.
Definition rf_seg_okb (s : rf_seg) : bool :=
  rf_color_okb (rs_fg s) && rf_color_okb (rs_bg s) && negb (existsb (N.eqb rf_ESC) (rs_text s)).

(* the answer for an input given together with the segment list it is claimed to
   print: the expected document, or [None] if the claim is false *)
Definition rf_spec_answer (input : list N) (segs : list rf_seg) : option (list N) :=
  if forallb rf_seg_okb segs && rf_bytes_eqb input (rf_print_D segs) then Some (rf_spec_doc segs) else None.
