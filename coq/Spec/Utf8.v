(* Spec/Utf8.v -- UTF-8 as defined by RFC 3629 / Unicode 15 Table 3-7
   ("Well-Formed UTF-8 Byte Sequences"), written as the usual DFA over the
   *second and later* bytes of a character.  Independent of Model/ and
   Generated/. *)
From Coq Require Import NArith List Bool.
Import ListNotations.
Local Open Scope N_scope.

Definition in_range (lo hi b : N) : bool := (lo <=? b) && (b <=? hi).

(* what is still expected after the bytes seen so far *)
Inductive ustate : Set :=
  | UTail1          (* one continuation byte 80..BF *)
  | UTail2          (* two *)
  | UTail3          (* three *)
  | UE0             (* after E0: A0..BF then one *)
  | UED             (* after ED: 80..9F then one *)
  | UF0             (* after F0: 90..BF then two *)
  | UF4.            (* after F4: 80..8F then two *)

(* Table 3-7, first byte *)
Definition utf8_lead (b : N) : option ustate :=
  if in_range 194 223 b then Some UTail1          (* C2..DF *)
  else if b =? 224 then Some UE0                   (* E0 *)
  else if in_range 225 236 b then Some UTail2      (* E1..EC *)
  else if b =? 237 then Some UED                   (* ED *)
  else if in_range 238 239 b then Some UTail2      (* EE..EF *)
  else if b =? 240 then Some UF0                   (* F0 *)
  else if in_range 241 243 b then Some UTail3      (* F1..F3 *)
  else if b =? 244 then Some UF4                   (* F4 *)
  else None.

Inductive ucont : Set :=
  | UMore (u : ustate)   (* byte accepted, more expected *)
  | UDone                (* byte accepted, character complete *)
  | UBad.                (* byte cannot continue the character *)

Definition utf8_cont (u : ustate) (b : N) : ucont :=
  match u with
  | UTail1 => if in_range 128 191 b then UDone else UBad
  | UTail2 => if in_range 128 191 b then UMore UTail1 else UBad
  | UTail3 => if in_range 128 191 b then UMore UTail2 else UBad
  | UE0 => if in_range 160 191 b then UMore UTail1 else UBad
  | UED => if in_range 128 159 b then UMore UTail1 else UBad
  | UF0 => if in_range 144 191 b then UMore UTail2 else UBad
  | UF4 => if in_range 128 143 b then UMore UTail2 else UBad
  end.

(* validity of a whole byte string *)
Fixpoint valid_from (u : option ustate) (bs : list N) : bool :=
  match bs with
  | [] => match u with None => true | Some _ => false end
  | b :: rest =>
      match u with
      | None =>
          if b <? 128 then valid_from None rest
          else match utf8_lead b with
               | Some u' => valid_from (Some u') rest
               | None => false
               end
      | Some u0 =>
          match utf8_cont u0 b with
          | UMore u' => valid_from (Some u') rest
          | UDone => valid_from None rest
          | UBad => false
          end
      end
  end.

Definition valid_utf8 (bs : list N) : bool := valid_from None bs.

(* scalar value of a complete, well-formed byte sequence (RFC 3629 section 3) *)
Definition utf8_decode (bs : list N) : N :=
  match bs with
  | [a] => a
  | [a; b] => (a mod 32) * 64 + (b mod 64)
  | [a; b; c] => (a mod 16) * 4096 + (b mod 64) * 64 + (c mod 64)
  | [a; b; c; d] => (a mod 8) * 262144 + (b mod 64) * 4096 + (c mod 64) * 64 + (d mod 64)
  | _ => 65533
  end.

(* RFC 3629 section 3 encoding of a scalar value *)
Definition utf8_encode (cp : N) : list N :=
  if cp <? 128 then [cp]
  else if cp <? 2048 then [192 + cp / 64; 128 + cp mod 64]
  else if cp <? 65536 then [224 + cp / 4096; 128 + (cp / 64) mod 64; 128 + cp mod 64]
  else [240 + cp / 262144; 128 + (cp / 4096) mod 64; 128 + (cp / 64) mod 64; 128 + cp mod 64].

Definition is_scalar (cp : N) : bool :=
  (cp <? 55296) || ((57344 <=? cp) && (cp <? 1114112)).

Definition replacement : N := 65533.
