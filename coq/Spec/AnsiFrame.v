(* Spec/AnsiFrame.v -- what a "coloured write" through a writer that is not a
   legacy console has to do (C17), written from the property text and ECMA-48 /
   xterm SGR; independent of Model/ and Generated/.

   The 16 palette colours are numbered 0..15 (8..15 bright).  The foreground code
   of colour i is the SGR sequence CSI <30+i> m (i < 8) or CSI <90+(i-8)> m, the
   background code CSI <40+i> m or CSI <100+(i-8)> m, the reset CSI 0 m.

   A coloured write emits the codes that are given (each completely: the standard
   write_all protocol of Spec/Io), offers the data to the writer ONCE, emits the
   reset iff a code was emitted, and answers with what the writer said about the
   data; the first failure ends the operation and is the answer. *)
From Coq Require Import NArith List Bool.
From AV Require Import Spec.Io.
Import ListNotations.
Local Open Scope N_scope.

(* decimal digits of a number below 1000, no leading zeros *)
Definition sa_digits (n : N) : list N :=
  let d2 := n / 100 in
  let d1 := (n / 10) mod 10 in
  let d0 := n mod 10 in
  (if d2 =? 0 then [] else [48 + d2])
  ++ (if (d2 =? 0) && (d1 =? 0) then [] else [48 + d1])
  ++ [48 + d0].

(* CSI <code> m *)
Definition sa_sgr (code : N) : list N := [27; 91] ++ sa_digits code ++ [109].

Definition sa_fg_code (i : N) : N := if i <? 8 then 30 + i else 90 + (i - 8).
Definition sa_bg_code (i : N) : N := if i <? 8 then 40 + i else 100 + (i - 8).

Definition sa_fg (fg : option N) : list N := match fg with Some i => sa_sgr (sa_fg_code i) | None => [] end.
Definition sa_bg (bg : option N) : list N := match bg with Some i => sa_sgr (sa_bg_code i) | None => [] end.
Definition sa_coloured (fg bg : option N) : bool :=
  match fg, bg with None, None => false | _, _ => true end.
Definition sa_reset (fg bg : option N) : list N := if sa_coloured fg bg then sa_sgr 0 else [].

(* the framing formula: what must have reached the writer when [payload] is the
   part of the data it accepted *)
Definition sa_frame (fg bg : option N) (payload : list N) : list N :=
  sa_fg fg ++ sa_bg bg ++ payload ++ sa_reset fg bg.

(* emit every piece completely, stop at the first failure *)
Fixpoint sa_emit_all (w : writer) (pieces : list (list N)) : writer * (unit + ekind) :=
  match pieces with
  | [] => (w, inl tt)
  | p :: rest =>
      match w_write_all w p with
      | (w1, inl _) => sa_emit_all w1 rest
      | (w1, inr e) => (w1, inr e)
      end
  end.

Definition sa_pieces (o : list N) : list (list N) := match o with [] => [] | _ => [o] end.

(* the whole operation over a scripted inner writer *)
Definition sa_write_colored (fg bg : option N) (data : list N) (w : writer) : writer * (N + ekind) :=
  match sa_emit_all w (sa_pieces (sa_fg fg) ++ sa_pieces (sa_bg bg)) with
  | (w1, inr e) => (w1, inr e)
  | (w1, inl _) =>
      match w_write w1 data with
      | (w2, inr e) => (w2, inr e)
      | (w2, inl k) =>
          match sa_emit_all w2 (sa_pieces (sa_reset fg bg)) with
          | (w3, inr e) => (w3, inr e)
          | (w3, inl _) => (w3, inl k)
          end
      end
  end.

(* text that contains nothing a terminal would interpret: printable ASCII and
   TAB / LF / FF / CR *)
Definition sa_text_byte (b : N) : bool :=
  ((32 <=? b) && (b <=? 126)) || (b =? 9) || (b =? 10) || (b =? 12) || (b =? 13).
