(* Extract.v -- extraction of the executable models and specifications to OCaml
   for the correspondence runs.  ExtrOcamlBasic only (bool, option, list, prod,
   unit, sumbool -> native OCaml types); N, positive, Z, nat stay the extracted
   inductive datatypes; no Extract Constant. *)
From Coq Require Import Extraction ExtrOcamlBasic NArith List.
From AV Require Import Generated.Table Spec.Utf8 Spec.Vt Spec.Strip Model.Base Model.Utf8parse Model.Parser Model.Strip.

From AV Require Import Spec.StyleRec Spec.SgrCodes Model.Text Model.Ls Spec.GitSyntax Model.Git.

Extraction Language OCaml.

Extraction "../ocaml/gen/extracted.ml"
  Model.Parser.advance Model.Parser.parser_new Model.Parser.cfg_default Model.Parser.mkCfg
  Model.Parser.state_change Generated.Table.all_states Generated.Table.state_disc Generated.Table.action_disc
  Spec.Vt.vt_step Spec.Vt.vt_init
  Spec.Strip.spec_strip Spec.Strip.strip_step Spec.Strip.s_init Spec.Utf8.valid_utf8
  Model.Strip.strip_bytes_pieces Model.Strip.strip_str_pieces Model.Strip.strip_bytes_chunks Model.Strip.strip_str_chunks
  Model.Utf8parse.u8_new
  Model.Ls.ls_parse Spec.SgrCodes.spec_ls Model.Git.git_parse Spec.GitSyntax.spec_git
  Model.Text.white_space Spec.GitSyntax.is_white_space.
