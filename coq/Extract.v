(* Extract.v -- extraction of the executable models and specifications to OCaml
   for the correspondence runs.  ExtrOcamlBasic only (bool, option, list, prod,
   unit, sumbool -> native OCaml types); N, positive, Z, nat stay the extracted
   inductive datatypes; no Extract Constant. *)
From Coq Require Import Extraction ExtrOcamlBasic NArith List.
From AV Require Import Generated.Table Spec.Utf8 Spec.Vt Spec.Strip Model.Base Model.Utf8parse Model.Parser Model.Strip Spec.Sgr Model.Wincon.

From AV Require Import Generated.Style Spec.Algebra Model.Style.

Extraction Language OCaml.

Extraction "../ocaml/gen/extracted.ml"
  Model.Parser.advance Model.Parser.parser_new Model.Parser.cfg_default Model.Parser.mkCfg
  Model.Parser.state_change Generated.Table.all_states Generated.Table.state_disc Generated.Table.action_disc
  Spec.Vt.vt_step Spec.Vt.vt_init
  Model.Style.e_new Model.Style.e_is_plain Model.Style.e_contains Model.Style.e_insert Model.Style.e_remove Model.Style.e_clear
  Model.Style.e_set Model.Style.e_bitor Model.Style.e_bitor_assign Model.Style.e_sub Model.Style.e_sub_assign
  Model.Style.e_iter Model.Style.e_index_iter Model.Style.e_debug Model.Style.e_of_mask
  Model.Style.ansi_bright Model.Style.ansi256_from Model.Style.color_repr Model.Style.color_of_repr
  Model.Style.st_new Model.Style.st_fg_color Model.Style.st_bg_color Model.Style.st_underline_color Model.Style.st_effects
  Model.Style.st_get_fg_color Model.Style.st_get_bg_color Model.Style.st_get_underline_color Model.Style.st_get_effects
  Model.Style.st_conv Model.Style.st_is_plain Model.Style.st_from_effects Model.Style.st_bitor Model.Style.st_bitor_assign
  Model.Style.st_sub Model.Style.st_sub_assign Model.Style.st_eq_effects
  Generated.Style.all_ansi Generated.Style.ansi_disc Generated.Style.ansi_is_bright Generated.Style.ansi256_into_ansi
  Generated.Style.ansi256_from_ansi Generated.Style.ansi_fg_str Generated.Style.ansi_bg_str Generated.Style.all_conv
  Generated.Style.conv_name Generated.Style.metadata Generated.Style.effect_consts
  Spec.Algebra.chi Spec.Algebra.of_chi Spec.Algebra.v_union Spec.Algebra.v_diff Spec.Algebra.v_subset Spec.Algebra.v_empty
  Spec.Algebra.sp_iter_chi Spec.Algebra.sp_debug Spec.Algebra.conv_names Spec.Algebra.sp_named_effect
  Spec.Algebra.with_bright Spec.Algebra.is_bright_ix Spec.Algebra.sp_into_ansi Spec.Algebra.sp_from_ansi
  Spec.Algebra.sp_setc Spec.Algebra.sp_set_eff Spec.Algebra.sp_plain Spec.Algebra.sp_get Spec.Algebra.sp_eff
  Spec.Algebra.sp_eq_effects Spec.Algebra.sp_style_is_plain
  Spec.Strip.spec_strip Spec.Strip.strip_step Spec.Strip.s_init Spec.Utf8.valid_utf8
  Model.Strip.strip_bytes_pieces Model.Strip.strip_str_pieces Model.Strip.strip_bytes_chunks Model.Strip.strip_str_chunks
  Model.Utf8parse.u8_new
  Spec.Sgr.spec_runs Spec.Sgr.sgr_apply Model.Wincon.extract_chunks Model.Wincon.merge_runs Model.Wincon.capture_default Model.Wincon.sgr_dispatch.
