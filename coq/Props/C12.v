(* Props/C12.v -- property theorems for C12 (the LS_COLORS parser applies SGR
   codes left to right).  Only statements, each closed by [exact].
   [ls_parse] is the hand model of anstyle_ls::parse over the UTF-8 bytes of the
   input (outer option: None = panic; inner option: the crate's Option<Style>);
   [sgr_codes], [well_formed], [print_codes], [strict_u8], [spec_ls] are the
   independent specification (Spec/SgrCodes.v). *)
From Coq Require Import NArith List Bool.
From AV Require Import Spec.StyleRec Spec.SgrCodes Model.Ls Proofs.LsParse Generated.LsFn Proofs.LsGen.
Import ListNotations.
Local Open Scope N_scope.

(* every non-empty list of codes <= 255 whose 38/48/58 forms are complete, of any
   length, each code printed in decimal with any number [z] of leading zeros and
   joined by ';': the parser returns the left-to-right SGR fold from the default
   style -- or "no style" exactly when the printed string is "0" or "00" *)
Theorem c12_ls_is_fold : forall fields : list (nat * N),
  fields <> [] ->
  Forall (fun zc => snd zc <= 255) fields ->
  well_formed (map snd fields) = true ->
  ls_parse (print_codes fields) =
  if no_style_string (print_codes fields) then Some None
  else Some (Some (sgr_codes t_default (map snd fields))).
Proof. exact ls_is_fold. Qed.

Theorem c12_ls_none :
  ls_parse [] = Some None /\ ls_parse [48] = Some None /\ ls_parse [48; 48] = Some None.
Proof. exact ls_none. Qed.

(* an empty field, a field with a non-digit character, or a field whose value is
   above 255, anywhere in the ';'-separated list, makes the parser return None.
   ([open_field f]: f is '+' followed by a number in 0-255 -- accepted by Rust's
   parse::<u8>, left open by the statement.) *)
Theorem c12_ls_rejects : forall (fs : list (list N)) (f : list N),
  In f fs -> (forall g, In g fs -> ~ In SEMI g) ->
  (f = [] \/ (exists c, In c f /\ is_digit c = false) \/ (forallb is_digit f = true /\ 255 < dec_value f)) ->
  open_field f = false ->
  ls_parse (join SEMI fs) = Some None.
Proof. exact ls_rejects_explicit. Qed.

Theorem c12_ls_no_panic : forall s : list N, ls_parse s <> None.
Proof. exact ls_no_panic. Qed.

(* all of the above at once, for every input string: wherever the statement
   decides the answer, the parser gives it *)
Theorem c12_ls_model_is_spec : forall s : list N,
  spec_ls s <> LsOpen ->
  ls_parse s = Some (match spec_ls s with LsStyle st => Some st | _ => None end).
Proof. exact ls_model_is_spec. Qed.

(* ---- the tie by translation --------------------------------------------------------- *)

(* Generated/LsFn.v is written on every run by tools/gen_fn_text.py (tools/rs2v) from the Rust
   source of anstyle_ls::parse -- the early return, split(';') / parse::<u8> / collect::<Option<_>>,
   the `while let Some(part) = parts.pop_front()` loop with every arm, the look-ahead pop_fronts
   and breaks, the final Style -- and computes, on every input, exactly what the hand model (the
   subject of every theorem above) computes; None = panic included. *)
Theorem c12_translated_parse_is_model : forall s : list N, g_ls_parse s = ls_parse s.
Proof. exact g_ls_parse_eq. Qed.

(* hence the translated code satisfies the specification wherever it decides *)
Theorem c12_translated_parse_is_spec : forall s : list N,
  spec_ls s <> LsOpen ->
  g_ls_parse s = Some (match spec_ls s with LsStyle st => Some st | _ => None end).
Proof. intros s H. rewrite g_ls_parse_eq. exact (ls_model_is_spec s H). Qed.
