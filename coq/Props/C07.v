(* Props/C07.v -- property theorems for C07 (styled-run extraction follows standard
   SGR semantics).  Only statements, each closed by [exact]. *)
From Coq Require Import NArith List Bool.
From AV Require Import Generated.Table Spec.Vt Spec.Sgr Model.Base Model.Parser Model.Wincon Proofs.TableFacts.
Import ListNotations.
Local Open Scope N_scope.

Theorem c07_table_is_williams :
  forall s b, b < 256 -> trans_matches s b = true.
Proof. exact table_is_williams. Qed.
