(* Props/C07.v -- property theorems for C07 (styled-run extraction follows standard
   SGR semantics).  Only statements, each closed by [exact]. *)
From Coq Require Import NArith List Bool.
From AV Require Import Generated.Table Spec.Vt Spec.Sgr Model.Base Model.Parser Model.Wincon
  Proofs.TableFacts Proofs.WinconSgr.
Import ListNotations.
Local Open Scope N_scope.

(* for every rendition state and every list of attribute groups of the grammar G
   (single codes, 4:n, 38/48/58 in the ';' and ':' spellings, components <= 255),
   under the underline-interaction hypothesis, the adapter's decoder computes
   exactly what a conforming terminal does (Spec/Sgr.sgr_apply) and never panics *)
Theorem c07_dispatch_is_sgr :
  forall items s,
  Forall (fun i => item_in_G i = true) items -> ul_simple s items ->
  sgr_dispatch s (groups_of items) = Some (sgr_apply s (groups_of items)).
Proof. exact dispatch_is_sgr. Qed.

(* attributes combined in one sequence = the same attributes sent in separate sequences *)
Theorem c07_combined_eq_separate :
  forall a b s,
  Forall (fun i => item_in_G i = true) a -> Forall (fun i => item_in_G i = true) b -> ul_simple s (a ++ b) ->
  sgr_dispatch s (groups_of (a ++ b)) =
  match sgr_dispatch s (groups_of a) with
  | Some s1 => sgr_dispatch s1 (groups_of b)
  | None => None
  end.
Proof. exact combined_eq_separate. Qed.

(* codes without a representation in the style type change nothing (every code
   from 108 up; the codes below are covered case by case in c07_dispatch_is_sgr) *)
Theorem c07_unknown_codes_inert :
  forall s r g t c, 108 <= c -> code_goal s r g t c.
Proof. exact code_large. Qed.

(* non-vacuity: a sequence mixing all forms, applied to a style that already has a
   curly underline *)
Theorem c07_example :
  sgr_dispatch (mkStyle None None None 32)
    (groups_of [GCode 1; GUl 3; GIdx false 38 9; GRgb true 48 1 2 3; GCode 0; GCode 21; GCode 93; GIdx true 58 200])
  = Some (mkStyle (Some (CAnsi 11)) None (Some (CIdx 200)) 16).
Proof. vm_compute. reflexivity. Qed.

Theorem c07_table_is_williams :
  forall s b, b < 256 -> trans_matches s b = true.
Proof. exact table_is_williams. Qed.
