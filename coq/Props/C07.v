(* Props/C07.v -- property theorems for C07 (styled-run extraction follows standard
   SGR semantics).  Only statements, each closed by [exact]. *)
From Coq Require Import NArith List Bool.
From AV Require Import Generated.Table Spec.Vt Spec.Sgr Model.Base Model.Parser Model.Wincon
  Proofs.TableFacts Proofs.WinconSgr Proofs.WinconRuns Proofs.WinconSpecRuns Generated.WinconFn Proofs.WinconGen.
Import ListNotations.
Local Open Scope N_scope.

(* for every rendition state and every list of attribute groups of the grammar G
   (single codes, 4:n, 38/48/58 in the ';' and ':' spellings, components <= 255),
   under the underline-interaction hypothesis, the adapter's decoder computes
   exactly what a conforming terminal does (Spec/Sgr.sgr_apply) and never panics *)
Theorem c07_dispatch_is_sgr :
  forall items s,
  Forall (fun i => item_in_G i = true) items -> ul_simple s items ->
  sgr_dispatch s (groups_of items) = Some (sgr_apply s (groups_of items)).
Proof. exact dispatch_is_sgr. Qed.

(* attributes combined in one sequence = the same attributes sent in separate sequences *)
Theorem c07_combined_eq_separate :
  forall a b s,
  Forall (fun i => item_in_G i = true) a -> Forall (fun i => item_in_G i = true) b -> ul_simple s (a ++ b) ->
  sgr_dispatch s (groups_of (a ++ b)) =
  match sgr_dispatch s (groups_of a) with
  | Some s1 => sgr_dispatch s1 (groups_of b)
  | None => None
  end.
Proof. exact combined_eq_separate. Qed.

(* codes without a representation in the style type change nothing (every code
   from 108 up; the codes below are covered case by case in c07_dispatch_is_sgr) *)
Theorem c07_unknown_codes_inert :
  forall s r g t c, 108 <= c -> code_goal s r g t c.
Proof. exact code_large. Qed.

(* non-vacuity: a sequence mixing all forms, applied to a style that already has a
   curly underline *)
Theorem c07_example :
  sgr_dispatch (mkStyle None None None 32)
    (groups_of [GCode 1; GUl 3; GIdx false 38 9; GRgb true 48 1 2 3; GCode 0; GCode 21; GCode 93; GIdx true 58 200])
  = Some (mkStyle (Some (CAnsi 11)) None (Some (CIdx 200)) 16).
Proof. vm_compute. reflexivity. Qed.

Theorem c07_table_is_williams :
  forall s b, b < 256 -> trans_matches s b = true.
Proof. exact table_is_williams. Qed.

(* ---- the runs are the specification's runs ---------------------------------------------- *)

(* [sgr_events_ok s es] (Proofs/WinconSpecRuns), inductively along the
   interpretation: every event `ECsi ps [] false 'm'` met in rendition state [s] has
   [ps = groups_of items] with every item in G and [ul_simple s items], and the rest
   is ok in [sgr_apply s ps]; every other event (print, execute, CSI with
   intermediates / ignore flag / another final byte, OSC, ESC, DCS) is unconstrained.

   For every input (bytes < 256, ANY byte string: malformed UTF-8 included) whose SGR
   events are in the grammar, extract_next never panics and its merged runs are
   exactly the specification's runs: the visible text in order (printed code points
   and TAB / LF / FF / CR), each character tagged with the rendition in effect,
   grouped into maximal runs; the rendition persists across sequences.  With
   c03_wincon_chunked the same holds across calls.  Full strength. *)
Theorem c07_runs_are_spec :
  forall input,
  Forall (fun b => b < 256) input -> sgr_events_ok style_default (spec_events input) ->
  exists its p c,
    extract_next input parser_new capture_default = Some (its, p, c) /\
    merge_runs its = spec_runs input.
Proof. exact runs_are_spec. Qed.

(* the character-level statement it comes from: on such event streams the tagging
   computed by the capture is the specification's interpretation *)
Theorem c07_tagging_is_interp :
  forall es s, Forall ev_ok es -> sgr_events_ok s es ->
  tags s es = fst (interp s es) /\ style_after s es = snd (interp s es).
Proof. exact tags_interp. Qed.

(* [ev_ok] holds of every event of the specification parser: printed code points
   are >= 0x20 and an Execute of 0x20 never occurs (so is_ascii_whitespace and the
   specification's TAB / LF / FF / CR test agree on executes) *)
Theorem c07_spec_events_ok :
  forall bs, Forall (fun b => b < 256) bs -> Forall ev_ok (spec_events bs).
Proof. exact spec_events_ok. Qed.

(* every event that is not a plain SGR dispatch leaves the style alone, in the
   adapter and in the specification alike *)
Theorem c07_non_sgr_inert :
  forall s e, (forall ps, e <> ECsi ps [] false 109) ->
  cap_style_step s e = s /\ event_style s e = s.
Proof. exact non_sgr_inert. Qed.

(* non-vacuity: "a ESC[1;31m b ESC[38;5;9m TAB ESC[?25h c ESC[0m d" -- the hypothesis
   holds and the runs are as expected *)
Theorem c07_example_runs :
  sgr_events_ok style_default
    (spec_events [97; 27; 91; 49; 59; 51; 49; 109; 98; 27; 91; 51; 56; 59; 53; 59; 57; 109; 9;
                  27; 91; 63; 50; 53; 104; 99; 27; 91; 48; 109; 100]) /\
  spec_runs [97; 27; 91; 49; 59; 51; 49; 109; 98; 27; 91; 51; 56; 59; 53; 59; 57; 109; 9;
             27; 91; 63; 50; 53; 104; 99; 27; 91; 48; 109; 100]
  = [(style_default, [97]); (mkStyle (Some (CAnsi 1)) None None 1, [98]);
     (mkStyle (Some (CIdx 9)) None None 1, [9; 99]); (style_default, [100])].
Proof. exact example_runs. Qed.

(* ---- the tie by translation --------------------------------------------------------- *)

(* Generated/WinconFn.v is written on every run by tools/gen_fn_wincon.py (tools/rs2v) from the
   Rust sources of WinconCapture::{reset, print, execute, csi_dispatch}, to_ansi_color,
   next_bytes (crates/anstream/src/adapter/wincon.rs) and AnsiColor::bright
   (crates/anstyle/src/color.rs).  The translated csi_dispatch -- nested loops, decoder state,
   every `break` -- computes what the hand model's capture_event computes on the event, panics
   included; its style component is sgr_dispatch, the subject of the theorems above. *)
Theorem c07_translated_csi_dispatch_is_model :
  forall cap ps ints ign action,
  g_cap_csi_dispatch cap ps ints ign action = capture_event cap (ECsi ps ints ign action).
Proof. exact g_cap_csi_dispatch_eq. Qed.

Theorem c07_translated_csi_dispatch_style :
  forall cap ps,
  option_map c_style (g_cap_csi_dispatch cap ps [] false 109) = sgr_dispatch (c_style cap) ps.
Proof. exact translated_csi_dispatch_style. Qed.

(* every event of the parser reaches the translated callback (the Perform plumbing is
   hand-written from the token-pinned trait) *)
Theorem c07_translated_perform_is_model :
  forall c e, g_perform c e = capture_event c e.
Proof. exact g_perform_eq. Qed.

(* the translated next_bytes (over the translated parser, Generated/ParserFn.g_advance), iterated
   as WinconBytesIter does, is the hand model's extract_next *)
Theorem c07_translated_extract_next_is_model :
  forall bs p c, g_extract_next bs p c = extract_next bs p c.
Proof. exact translated_extract_next_is_model. Qed.

(* hence c07_runs_are_spec is a statement about the translated code *)
Theorem c07_translated_runs_are_spec :
  forall input,
  Forall (fun b => b < 256) input -> sgr_events_ok style_default (spec_events input) ->
  exists its p c,
    g_extract_next input parser_new capture_default = Some (its, p, c) /\
    merge_runs its = spec_runs input.
Proof. exact translated_runs_are_spec. Qed.
