(* Props/C01.v -- property theorems for C01 (stripping removes exactly the escape
   sequences and nothing else).  Only statements, each closed by [exact]. *)
From Coq Require Import NArith List Bool.
From AV Require Import Generated.Table Spec.Vt Spec.Strip Model.Base Model.Parser Model.Strip Proofs.TableFacts.
Import ListNotations.
Local Open Scope N_scope.

Theorem c01_table_is_williams :
  forall s b, b < 256 -> trans_matches s b = true.
Proof. exact table_is_williams. Qed.
