(* Props/C01.v -- property theorems for C01 (stripping removes exactly the escape
   sequences and nothing else).  Only statements, each closed by [exact]. *)
From Coq Require Import NArith List Bool.
From AV Require Import Generated.Table Spec.Utf8 Spec.Vt Spec.Strip Model.Base Model.Parser Model.Strip
  Proofs.TableFacts Proofs.StripMachine Proofs.StripSim Proofs.StripStr Proofs.StripPieces Proofs.StripVisible
  Generated.StripFn Proofs.StripGen.
From AV Require Import Spec.Io Model.Stream Generated.StreamFn Proofs.StreamGen.
From AV Require Import Model.Utf8parse Model.Imp Generated.Utf8parseFn Proofs.Utf8parseGen Proofs.Utf8parseStrip.
Import ListNotations.
Local Open Scope N_scope.

(* the byte API, for every byte string (no UTF-8 hypothesis): never panics and the
   concatenated pieces are exactly what Spec/Strip keeps *)
Theorem c01_strip_bytes_is_spec :
  forall input, bytes_ok input -> strip_bytes_model input = Some (spec_strip input).
Proof. exact strip_bytes_is_spec. Qed.

(* the text API, for every valid UTF-8 string *)
Theorem c01_strip_str_is_spec :
  forall input, bytes_ok input -> valid_utf8 input = true ->
  strip_str_model input = Some (spec_strip input).
Proof. exact strip_str_is_spec. Qed.

(* the two specifications agree: on valid UTF-8 the bytes Spec/Strip keeps are exactly
   the UTF-8 encoding of the text the VT model of Spec/Vt shows -- every character it
   prints except DEL and every TAB / LF / FF / CR it executes ([visible_of]) *)
Theorem c01_strip_visible_text :
  forall input, Forall (fun b => b < 256) input -> valid_utf8 input = true ->
  spec_strip input = flat_map utf8_encode (flat_map visible_of (spec_events input)).
Proof. exact strip_visible_text. Qed.

(* used above: every single well-formed character of Table 3-7 ([one_char]: a 7-bit
   byte, or a lead byte and exactly the continuation bytes the DFA accepts) decodes to
   a scalar value whose encoding is the same bytes *)
Theorem c01_utf8_encode_decode :
  forall bs, one_char bs = true ->
  utf8_encode (utf8_decode bs) = bs /\ is_scalar (utf8_decode bs) = true.
Proof. exact utf8_encode_decode. Qed.

(* the output never contains ESC, DEL or a non-whitespace C0 control, whatever the
   input (valid UTF-8 or not) *)
Theorem c01_strip_no_controls :
  forall input, bytes_ok input -> Forall (fun b => clean_byte b = true) (spec_strip input).
Proof. exact strip_no_controls. Qed.

(* the pieces are non-empty, in-order, non-overlapping substrings of the input at
   the offsets they report *)
Theorem c01_strip_bytes_pieces :
  forall input ps, strip_bytes_pieces input = Some ps -> pieces_in 0 input ps.
Proof. exact strip_bytes_pieces_wf. Qed.

Theorem c01_strip_str_pieces :
  forall input ps, strip_str_pieces input = Some ps -> pieces_in 0 input ps.
Proof. exact strip_str_pieces_wf. Qed.

(* finite facts used above, each by complete enumeration of states x 256 bytes:
   the generated table is the by-range VT model ... *)
Theorem c01_table_is_williams :
  forall s b, b < 256 -> trans_matches s b = true.
Proof. exact table_is_williams. Qed.

(* ... one scanner step from an idle decoder agrees with one specification step ... *)
Theorem c01_plain_step_matches :
  forall st b, b < 256 -> plain_matches st b = true.
Proof. exact plain_matches_ok. Qed.

(* ... and utf8parse continues a character exactly as Table 3-7 says *)
Theorem c01_utf8_cont_matches :
  forall s8 b, b < 256 -> cont_matches s8 b = true.
Proof. exact cont_matches_ok. Qed.

(* non-vacuity: a concrete input with a control inside a sequence, a truncated lead
   byte followed by ESC, and a multi-byte character *)
Theorem c01_example :
  strip_bytes_model [27; 91; 10; 51; 50; 109; 88; 226; 27; 91; 109; 195; 169]
  = Some [10; 88; 226; 195; 169].
Proof. vm_compute. reflexivity. Qed.

(* ---- the tie by translation --------------------------------------------------------- *)

(* Generated/StripFn.v is written on every run by tools/gen_fn_strip.py from the Rust sources of
   next_str, next_bytes, is_printable_bytes, is_utf8_continuation, Utf8Parser::add (with the two
   Receiver methods), the Iterator::next methods, StrippedStr::new / StrippedBytes::new,
   strip_str / strip_bytes and StrippedBytes::into_vec (state_change: Generated/ParserFn.v).
   One call of the translated scanners computes exactly what the hand model -- the subject of
   every theorem above -- computes ([bytes_result] / [str_result] drop the offsets the model
   tracks on top). *)
Theorem c01_translated_next_bytes_is_model :
  forall bs off st u, g_next_bytes bs st u = bytes_result (next_bytes bs off st u).
Proof. exact g_next_bytes_eq. Qed.

Theorem c01_translated_next_str_is_model :
  forall bs off st, g_next_str bs st = str_result (next_str bs off st).
Proof. exact g_next_str_eq. Qed.

Theorem c01_translated_utf8_add_is_model :
  forall u b, g_utf8_add u b = utf8_add u b.
Proof. exact g_utf8_add_eq. Qed.

(* strip_bytes(data).into_vec(), translated from end to end *)
Theorem c01_translated_strip_bytes_is_model :
  forall bs, g_stripped_bytes_into_vec (g_strip_bytes bs) = strip_bytes_model bs.
Proof. exact g_strip_bytes_into_vec_is_model. Qed.

(* strip_str(data).to_string(): the translated iterator, drained and concatenated
   (Display::fmt / to_string are std::fmt plumbing: hand-modelled, token-pinned) *)
Theorem c01_translated_strip_str_is_model :
  forall bs, g_strip_str_to_string bs = strip_str_model bs.
Proof. exact g_strip_str_to_string_is_model. Qed.

(* hence the translated code refines the specification *)
Theorem c01_translated_strip_bytes_refines_spec :
  forall input, bytes_ok input -> g_stripped_bytes_into_vec (g_strip_bytes input) = Some (spec_strip input).
Proof. exact translated_strip_bytes_refines_spec. Qed.

Theorem c01_translated_strip_str_refines_spec :
  forall input, bytes_ok input -> valid_utf8 input = true ->
  g_strip_str_to_string input = Some (spec_strip input).
Proof. exact translated_strip_str_refines_spec. Qed.

(* the never-colour stream: the functions of crates/anstream/src/strip.rs TRANSLATED from the source
   (Generated/StreamFn.v) answer, for any sequence of write-family calls, what the stream model with the
   choice Never answers -- whose delivered bytes are Spec/Strip of the data (C06 / C08) *)
Theorem c01_translated_never_stream_is_model :
  forall b d ops x,
  match g_ss_run x ops with Some (x1, rs) => Some (ss_state x1, ss_raw x1, rs) | None => None end
  = run_ops b (auto_mode CNever d) (ss_state x) (ss_raw x) ops.
Proof. exact translated_never_is_model. Qed.

(* ==== the third-party decoder `utf8parse` ====================================================
   Generated/Utf8parseFn.v is written on every run by tools/gen_fn_utf8parse.py from the registry
   source of the `utf8parse` version <repo>/Cargo.lock pins (the unpacked source is compared with the
   archive whose sha256 is the lock file's checksum, and with what `cargo metadata` says the harness
   crates build).  `State::advance`, `Parser::{new, perform_action, advance}` and the derived Default
   are the hand model Model/Utf8parse.v -- the decoder every theorem above goes through -- for EVERY
   state, accumulated code point and byte.  A `Receiver` is the list of calls it gets. *)
Theorem c01_translated_utf8parse_state_advance :
  forall s b, g_u8_state_advance s b = Some (u8_advance s b).
Proof. exact g_u8_state_advance_eq. Qed.

Theorem c01_translated_utf8parse_advance :
  forall p r b, g_u8_parser_advance p r b =
    Some (fst (u8_parser_advance p b), r ++ u8_events (snd (u8_parser_advance p b))).
Proof. exact g_u8_parser_advance_eq. Qed.

Theorem c01_translated_utf8parse_new :
  g_u8_parser_new = u8_new /\ g_u8_parser_default = u8_new.
Proof. exact (conj g_u8_parser_new_eq g_u8_parser_default_eq). Qed.

(* the way Generated/StripFn.v consumes the decoder (hand model first, then the translated Receiver method its
   answer names) is the translated decoder on a call-recording receiver, the calls delivered in order to the
   translated methods of anstream's VtUtf8Receiver *)
Theorem c01_translated_utf8_add_over_translated_decoder :
  forall u b,
    ('(u', evs) <- g_u8_parser_advance (u8p_inner u) [] b ;;
     Some (set_u8p_inner u u', u8_deliver g_receiver_codepoint g_receiver_invalid_sequence evs false))
    = Some (g_utf8_add u b).
Proof. exact strip_utf8_add_over_translated_decoder. Qed.
