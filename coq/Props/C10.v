(* Props/C10.v -- property theorems for C10 (lossy colour conversion is total, exact
   on exact matches and nearest otherwise).  Only statements, each closed by
   [exact].  Domain everywhere: RGB components < 256 (u8), a palette of exactly 16
   such colours ([palette_ok], ANY such palette, not only the shipped ones), ANSI
   numbers < 16, 256-colour indices < 256 ([color_ok]).  A model result [None]
   means "the Rust code would panic / overflow". *)
From Coq Require Import ZArith NArith List Bool.
From AV Require Import Generated.Palette Spec.Lossy Model.Base Model.Lossy Proofs.Lossy
  Generated.LossyFn Proofs.LossyGen.
Import ListNotations.
Local Open Scope N_scope.

(* no i32 intermediate of `distance` overflows, and its value is the red-mean
   weighted distance, which lies in [0, 2^31) *)
Theorem c10_distance_range :
  forall a b, rgb_ok a -> rgb_ok b ->
    distance a b = Some (Z.to_N (redmean_distance a b)) /\
    (0 <= redmean_distance a b < 2147483648)%Z.
Proof. exact distance_range. Qed.

Theorem c10_distance_zero :
  forall a b, rgb_ok a -> rgb_ok b ->
    (redmean_distance a b = 0%Z <-> a = b) /\ (distance a b = Some 0 <-> a = b).
Proof. exact distance_zero_both. Qed.

(* 16-colour target: the result is an index < 16 of minimal distance, every lower
   index being strictly farther *)
Theorem c10_find_match_argmin :
  forall p c, palette_ok p -> rgb_ok c ->
    exists i, rgb_to_ansi c p = Some i /\ i < 16 /\ is_argmin_lowest (redmean_distance c) p i.
Proof. exact find_match_argmin. Qed.

(* 256-colour target: the candidates are exactly entries 16..255 of XTERM_COLORS *)
Theorem c10_rgb_to_xterm_argmin :
  forall c, rgb_ok c ->
    exists i, rgb_to_xterm c = Some i /\ 16 <= i < 256 /\
              is_argmin_lowest (redmean_distance c) (skipn 16 xterm_colors) (i - 16).
Proof. exact rgb_to_xterm_argmin. Qed.

(* ... and those entries are the standard 6x6x6 cube and 24-step grey ramp *)
Theorem c10_xterm_candidates_standard :
  @length rgb xterm_colors = 256%nat /\ skipn 16 xterm_colors = xterm240 /\
  forall i, 16 <= i < 256 -> nth_error xterm_colors (N.to_nat i) = Some (xterm_fixed i).
Proof. exact xterm_candidates_standard. Qed.

(* a 256-colour index >= 16 goes to the 16-colour palette through its fixed colour *)
Theorem c10_xterm_to_ansi_argmin :
  forall p i, palette_ok p -> 16 <= i < 256 ->
    exists a, xterm_to_ansi i p = Some a /\ a < 16 /\
              is_argmin_lowest (redmean_distance (xterm_fixed i)) p a.
Proof. exact xterm_to_ansi_argmin. Qed.

(* a colour equal to palette entry k maps to the lowest index that holds it *)
Theorem c10_exact_hit_ansi :
  forall p k e, palette_ok p -> nth_error p k = Some e ->
    exists i, rgb_to_ansi e p = Some i /\ (N.to_nat i <= k)%nat /\
              nth_error p (N.to_nat i) = Some e /\
              forall j, (j < N.to_nat i)%nat -> nth_error p j <> Some e.
Proof. exact exact_hit_ansi. Qed.

(* a colour equal to fixed entry k of the 256 palette maps to k *)
Theorem c10_exact_hit_xterm :
  forall k e, 16 <= k < 256 -> nth_error xterm_colors (N.to_nat k) = Some e ->
    rgb_to_xterm e = Some k.
Proof. exact exact_hit_xterm. Qed.

(* a colour already of the target kind is returned unchanged *)
Theorem c10_same_kind_identity :
  (forall c p, color_to_rgb (Rgb c) p = Some c) /\
  (forall i, color_to_xterm (Ansi256 i) = Some i) /\
  (forall a p, color_to_ansi (Ansi a) p = Some a).
Proof. exact same_kind_identity. Qed.

(* indices 0-15 of the 256-colour palette are the 16-colour palette and read the
   user palette *)
Theorem c10_low_indices :
  forall p a, palette_ok p -> a < 16 ->
    color_to_xterm (Ansi a) = Some a /\
    xterm_to_ansi a p = Some a /\
    color_to_ansi (Ansi256 a) p = Some a /\
    exists e, nth_error p (N.to_nat a) = Some e /\
              ansi_to_rgb a p = Some e /\ xterm_to_rgb a p = Some e /\
              palette_get p a = Some e /\ palette_index p a = Some e /\
              color_to_rgb (Ansi a) p = Some e /\ color_to_rgb (Ansi256 a) p = Some e.
Proof. exact low_indices. Qed.

Theorem c10_high_indices_rgb :
  forall p i, palette_ok p -> 16 <= i < 256 ->
    xterm_to_rgb i p = Some (xterm_fixed i) /\ color_to_rgb (Ansi256 i) p = Some (xterm_fixed i).
Proof. exact high_indices_rgb. Qed.

(* totality: no conversion panics, results are in range *)
Theorem c10_conversions_total :
  forall col p, color_ok col -> palette_ok p ->
    (exists r, color_to_rgb col p = Some r /\ rgb_ok r) /\
    (exists i, color_to_xterm col = Some i /\ i < 256) /\
    (exists a, color_to_ansi col p = Some a /\ a < 16).
Proof. exact conversions_total. Qed.

(* the model equals the executable specification used as the oracle of the
   correspondence runs *)
Theorem c10_model_is_spec :
  forall col p, color_ok col -> palette_ok p ->
    color_to_rgb col p = spec_to_rgb p col /\
    color_to_xterm col = spec_to_xterm col /\
    color_to_ansi col p = spec_to_ansi p col.
Proof. exact model_is_spec. Qed.

(* the executable arg-min of Spec/Lossy.v is the declarative one *)
Theorem c10_argmin_lowest_correct :
  forall (d : rgb -> Z) l i, argmin_lowest d l = Some i <-> is_argmin_lowest d l i.
Proof. exact argmin_lowest_correct. Qed.

Theorem c10_shipped_palettes_ok : palette_ok vga /\ palette_ok win10_console.
Proof. exact shipped_palettes_ok. Qed.

(* ---- the tie by translation --------------------------------------------------------- *)

(* Generated/LossyFn.v is written on every run by tools/gen_fn_lossy.py (tools/rs2v) from the
   Rust sources of distance, find_xterm_match, Palette::{find_match, get, rgb_from_index, ...},
   rgb_to_ansi / rgb_to_xterm / xterm_to_rgb / xterm_to_ansi / color_to_{rgb,xterm,ansi} and
   the accessors of anstyle they call (RgbColor::{r,g,b}, Ansi256Color::{index, into_ansi,
   from_ansi}); each computes exactly what the hand model -- the subject of every theorem
   above -- computes, for ALL inputs (in range or not), a panic ([None]) included. *)
Theorem c10_translated_distance_is_model :
  forall c1 c2, g_distance c1 c2 = distance c1 c2.
Proof. exact g_distance_eq. Qed.

Theorem c10_translated_find_xterm_match_is_model :
  forall c, g_find_xterm_match c = find_xterm_match c.
Proof. exact g_find_xterm_match_eq. Qed.

Theorem c10_translated_find_match_is_model :
  forall p c, g_find_match p c = find_match p c.
Proof. exact g_find_match_eq. Qed.

Theorem c10_translated_palette_reads_are_model :
  forall p a i,
    g_palette_get p a = palette_get p a /\ g_palette_index p a = palette_index p a /\
    g_rgb_from_index p i = rgb_from_index p i.
Proof. exact translated_palette_reads. Qed.

Theorem c10_translated_xterm_is_model :
  forall i p, g_xterm_to_rgb i p = xterm_to_rgb i p /\ g_xterm_to_ansi i p = xterm_to_ansi i p.
Proof. exact translated_xterm. Qed.

Theorem c10_translated_lossy_is_model :
  forall col p,
    g_color_to_rgb col p = color_to_rgb col p /\
    g_color_to_xterm col = color_to_xterm col /\
    g_color_to_ansi col p = color_to_ansi col p.
Proof. exact translated_lossy_is_model. Qed.

(* hence the translated code computes the specification on the domain of C10 *)
Theorem c10_translated_lossy_is_spec :
  forall col p, color_ok col -> palette_ok p ->
    g_color_to_rgb col p = spec_to_rgb p col /\
    g_color_to_xterm col = spec_to_xterm col /\
    g_color_to_ansi col p = spec_to_ansi p col.
Proof. exact translated_lossy_is_spec. Qed.

(* impl Default for Palette (non-Windows configuration: `pub use VGA as DEFAULT`) *)
Theorem c10_translated_palette_default : g_palette_default = palette_default.
Proof. exact g_palette_default_eq. Qed.

(* impl From<[RgbColor; 16]> for Palette *)
Theorem c10_translated_palette_from : forall raw, g_palette_from raw = palette_from raw.
Proof. exact g_palette_from_eq. Qed.

(* the default palette lies in the domain of the property *)
Theorem c10_translated_palette_default_ok : palette_ok g_palette_default.
Proof. exact translated_palette_default_ok. Qed.
