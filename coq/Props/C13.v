(* Props/C13.v -- property theorems for C13 (style, effects and colour values obey
   their algebra).  Only statements, each closed by [exact].

   Vocabulary (Spec/Algebra.v): an effect set is an [N]; [valid s] = [s < 2^12];
   [mem s i] = bit i of s; [members s] = the one bits below 12 in ascending
   (= declaration) order; [subset], [disjoint], [union_all]; the [sp_*]
   functions are the executable set-theoretic definitions on characteristic
   vectors that the correspondence runs use as oracle; [hue c = c mod 8],
   [is_bright_ix c = 8 <=? c], [with_bright c b = hue c + (if b then 8 else 0)].
   The [e_*], [st_*], [ansi_*] functions are the model (Model/Style.v over the
   translated tables of Generated/Style.v).  All statements about sets hold for
   every set (hypothesis [valid] only where the u16 complement is involved); none
   is proved by enumerating sets. *)
From Coq Require Import NArith List Bool Sorted.
From AV Require Import Generated.Style Spec.Algebra Model.Base Model.Style Generated.StyleFn Proofs.Style Proofs.StyleGen.
Import ListNotations.
Local Open Scope N_scope.

(* ---- the twelve effects -------------------------------------------------- *)

(* the constants, in declaration order, are the singletons {0} .. {11}; constant
   names and METADATA names are the twelve documented names in that order *)
Theorem c13_constants_are_singletons : effect_constants = map singleton idxs.
Proof. exact constants_are_singletons. Qed.

Theorem c13_constant_table : map fst effect_consts = effect_names /\ map snd effect_consts = idxs.
Proof. exact consts_table. Qed.

Theorem c13_spec_texts_readable :
  effect_names = map bytes_of effect_names_text /\ conv_names = map bytes_of conv_names_text /\
  txt_open = bytes_of txt_open_text /\ txt_bar = bytes_of txt_bar_text /\ txt_close = bytes_of txt_close_text.
Proof. exact spec_texts_readable. Qed.

Theorem c13_metadata_names : map fst metadata = effect_names.
Proof. exact metadata_names. Qed.

Theorem c13_effect_names_distinct : NoDup effect_names.
Proof. exact effect_names_NoDup. Qed.

(* naming a set by its mask over the constants in declaration order (what the
   correspondence harness does) is the identity: no bit is shared or missing *)
Theorem c13_mask_of_constants : forall m, valid m -> e_of_mask m = m.
Proof. exact of_mask_id. Qed.

(* the values reachable through the API stay below 2^12 *)
Theorem c13_valid_new : valid e_new.
Proof. exact valid_0. Qed.

Theorem c13_valid_singleton : forall i, i < 12 -> valid (singleton i).
Proof. exact valid_singleton. Qed.

Theorem c13_valid_insert : forall a b, valid a -> valid b -> valid (e_insert a b).
Proof. exact insert_valid. Qed.

Theorem c13_valid_remove : forall a b, valid a -> valid (e_remove a b).
Proof. exact remove_valid. Qed.

Theorem c13_valid_set : forall a b en, valid a -> valid b -> valid (e_set a b en).
Proof. exact set_valid. Qed.

Theorem c13_valid_clear : forall a, valid (e_clear a).
Proof. exact clear_valid. Qed.

(* ---- the set laws -------------------------------------------------------- *)

Theorem c13_set_extensionality : forall a b, (forall i, mem a i = mem b i) -> a = b.
Proof. exact set_ext. Qed.

Theorem c13_insert_is_union : forall a b i, mem (e_insert a b) i = mem a i || mem b i.
Proof. exact insert_mem. Qed.

Theorem c13_remove_is_difference : forall a b i, valid a -> mem (e_remove a b) i = mem a i && negb (mem b i).
Proof. exact remove_mem. Qed.

Theorem c13_contains_is_subset : forall a b, e_contains a b = true <-> subset b a.
Proof. exact contains_subset. Qed.

Theorem c13_is_plain_is_empty : forall a, e_is_plain a = true <-> forall i, mem a i = false.
Proof. exact is_plain_iff. Qed.

Theorem c13_clear_is_plain : forall a, e_is_plain (e_clear a) = true.
Proof. exact clear_plain. Qed.

Theorem c13_set_is_insert_or_remove : forall a b en, e_set a b en = if en then e_insert a b else e_remove a b.
Proof. exact set_spec. Qed.

Theorem c13_set_members : forall a b en i, valid a ->
  mem (e_set a b en) i = if en then mem a i || mem b i else mem a i && negb (mem b i).
Proof. exact set_mem. Qed.

Theorem c13_insert_idempotent : forall a, e_insert a a = a.
Proof. exact insert_idem. Qed.

Theorem c13_insert_commutative : forall a b, e_insert a b = e_insert b a.
Proof. exact insert_comm. Qed.

Theorem c13_insert_associative : forall a b c, e_insert a (e_insert b c) = e_insert (e_insert a b) c.
Proof. exact insert_assoc. Qed.

Theorem c13_insert_plain : forall a, e_insert a e_new = a.
Proof. exact insert_plain. Qed.

Theorem c13_contains_inserted : forall a b, e_contains (e_insert a b) b = true.
Proof. exact contains_insert_r. Qed.

Theorem c13_contains_after_insert : forall a b, e_contains (e_insert a b) a = true.
Proof. exact contains_insert_l. Qed.

Theorem c13_absorption : forall a b, e_contains a b = true <-> e_insert a b = a.
Proof. exact insert_absorb. Qed.

Theorem c13_contains_reflexive : forall a, e_contains a a = true.
Proof. exact contains_refl. Qed.

Theorem c13_contains_transitive : forall a b c,
  e_contains a b = true -> e_contains b c = true -> e_contains a c = true.
Proof. exact contains_trans. Qed.

Theorem c13_contains_antisymmetric : forall a b, e_contains a b = true -> e_contains b a = true -> a = b.
Proof. exact contains_antisym. Qed.

Theorem c13_contains_plain : forall a, e_contains a e_new = true.
Proof. exact contains_plain. Qed.

Theorem c13_remove_after_insert : forall a b, valid a -> valid b -> e_remove (e_insert a b) b = e_remove a b.
Proof. exact remove_insert. Qed.

Theorem c13_insert_after_remove : forall a b, valid a -> e_insert (e_remove a b) b = e_insert a b.
Proof. exact insert_remove. Qed.

Theorem c13_remove_idempotent : forall a b, valid a -> e_remove (e_remove a b) b = e_remove a b.
Proof. exact remove_idem. Qed.

Theorem c13_remove_self : forall a, valid a -> e_remove a a = e_new.
Proof. exact remove_self. Qed.

Theorem c13_remove_plain : forall a, valid a -> e_remove a e_new = a.
Proof. exact remove_plain. Qed.

Theorem c13_difference_disjoint : forall a b, valid a -> disjoint (e_remove a b) b.
Proof. exact remove_disjoint. Qed.

Theorem c13_difference_no_common_bit : forall a b, valid a -> N.land (e_remove a b) b = 0.
Proof. exact remove_land. Qed.

Theorem c13_de_morgan : forall a b c, valid a -> e_remove a (e_insert b c) = e_remove (e_remove a b) c.
Proof. exact demorgan. Qed.

Theorem c13_remove_commutes : forall a b c, valid a -> e_remove (e_remove a b) c = e_remove (e_remove a c) b.
Proof. exact remove_comm. Qed.

Theorem c13_remove_distributes : forall a b c, valid a -> valid b ->
  e_remove (e_insert a b) c = e_insert (e_remove a c) (e_remove b c).
Proof. exact insert_remove_distr. Qed.

(* '|', '|=', '-', '-=' on Effects *)
Theorem c13_effects_operators : forall a b,
  e_bitor a b = e_insert a b /\ e_bitor_assign a b = e_insert a b /\
  e_sub a b = e_remove a b /\ e_sub_assign a b = e_remove a b.
Proof. exact effects_operators. Qed.

(* the model computes what the executable set-theoretic specification computes
   (this is the oracle of the correspondence runs) *)
Theorem c13_insert_is_spec : forall a b, valid a -> valid b -> e_insert a b = sp_union a b.
Proof. exact insert_is_union. Qed.

Theorem c13_remove_is_spec : forall a b, valid a -> valid b -> e_remove a b = sp_diff a b.
Proof. exact remove_is_diff. Qed.

Theorem c13_set_is_spec : forall a b en, valid a -> valid b -> e_set a b en = sp_set a b en.
Proof. exact set_is_spec. Qed.

Theorem c13_contains_is_spec : forall a b, valid b -> e_contains a b = sp_contains a b.
Proof. exact contains_is_spec. Qed.

Theorem c13_is_plain_is_spec : forall a, valid a -> e_is_plain a = sp_is_plain a.
Proof. exact is_plain_is_spec. Qed.

(* ---- iteration and Debug -------------------------------------------------- *)

Theorem c13_members_exact : forall a i, In i (members a) <-> i < 12 /\ mem a i = true.
Proof. exact members_In. Qed.

Theorem c13_members_declaration_order : forall a, StronglySorted N.lt (members a).
Proof. exact members_sorted. Qed.

Theorem c13_members_no_duplicates : forall a, NoDup (members a).
Proof. exact members_NoDup. Qed.

(* neither iterator panics; they yield the members, in declaration order *)
Theorem c13_index_iter_members : forall e, e_index_iter e = Some (members e).
Proof. exact index_iter_members. Qed.

Theorem c13_iter_members : forall e, e_iter e = Some (map singleton (members e)).
Proof. exact iter_members. Qed.

Theorem c13_iter_is_spec : forall e, e_iter e = Some (sp_iter e).
Proof. exact iter_is_spec. Qed.

Theorem c13_iter_union : forall a, valid a -> union_all (map singleton (members a)) = a.
Proof. exact members_union. Qed.

Theorem c13_iter_union_low_bits : forall a, union_all (map singleton (members a)) = a mod 2 ^ 12.
Proof. exact members_union_low. Qed.

(* "Effects(" ++ names of exactly the members joined by " | " ++ ")" *)
Theorem c13_debug_names_members : forall e, e_debug e = Some (sp_debug e).
Proof. exact debug_is_spec. Qed.

(* ---- Style ---------------------------------------------------------------- *)

Theorem c13_fg_color_only : forall s v,
  st_get_fg_color (st_fg_color s v) = v /\ st_get_bg_color (st_fg_color s v) = st_get_bg_color s /\
  st_get_underline_color (st_fg_color s v) = st_get_underline_color s /\
  st_get_effects (st_fg_color s v) = st_get_effects s.
Proof. exact fg_color_only. Qed.

Theorem c13_bg_color_only : forall s v,
  st_get_bg_color (st_bg_color s v) = v /\ st_get_fg_color (st_bg_color s v) = st_get_fg_color s /\
  st_get_underline_color (st_bg_color s v) = st_get_underline_color s /\
  st_get_effects (st_bg_color s v) = st_get_effects s.
Proof. exact bg_color_only. Qed.

Theorem c13_underline_color_only : forall s v,
  st_get_underline_color (st_underline_color s v) = v /\
  st_get_fg_color (st_underline_color s v) = st_get_fg_color s /\
  st_get_bg_color (st_underline_color s v) = st_get_bg_color s /\
  st_get_effects (st_underline_color s v) = st_get_effects s.
Proof. exact underline_color_only. Qed.

Theorem c13_effects_only : forall s e,
  st_get_effects (st_effects s e) = e /\ st_get_fg_color (st_effects s e) = st_get_fg_color s /\
  st_get_bg_color (st_effects s e) = st_get_bg_color s /\
  st_get_underline_color (st_effects s e) = st_get_underline_color s.
Proof. exact effects_only. Qed.

Theorem c13_style_determined_by_getters : forall s t,
  st_get_fg_color s = st_get_fg_color t -> st_get_bg_color s = st_get_bg_color t ->
  st_get_underline_color s = st_get_underline_color t -> st_get_effects s = st_get_effects t -> s = t.
Proof. exact style_ext. Qed.

Theorem c13_new_style :
  st_get_fg_color st_new = None /\ st_get_bg_color st_new = None /\
  st_get_underline_color st_new = None /\ st_get_effects st_new = e_new.
Proof. exact new_getters. Qed.

Theorem c13_setters_are_spec : forall s v e,
  abs_style (st_fg_color s v) = sp_setc FFg v (abs_style s) /\
  abs_style (st_bg_color s v) = sp_setc FBg v (abs_style s) /\
  abs_style (st_underline_color s v) = sp_setc FUl v (abs_style s) /\
  abs_style (st_effects s e) = sp_set_eff e (abs_style s) /\
  abs_style st_new = sp_plain.
Proof. exact setters_are_spec. Qed.

(* bold() = self | BOLD, ..., for every convenience method of style.rs *)
Theorem c13_convenience_is_bitor : forall m s, st_conv m s = st_bitor s (conv_effect m).
Proof. exact conv_is_bitor. Qed.

Theorem c13_convenience_inserts : forall m s,
  st_get_effects (st_conv m s) = e_insert (st_get_effects s) (conv_effect m) /\
  st_get_fg_color (st_conv m s) = st_get_fg_color s /\ st_get_bg_color (st_conv m s) = st_get_bg_color s /\
  st_get_underline_color (st_conv m s) = st_get_underline_color s.
Proof. exact conv_getters. Qed.

(* ... and the effect it inserts is the single effect that carries its name *)
Theorem c13_convenience_named : forall m,
  exists k, k < 12 /\ conv_effect m = singleton k /\ map upper (conv_name m) = effect_name k.
Proof. exact conv_named. Qed.

Theorem c13_convenience_names : map conv_name all_conv = conv_names.
Proof. exact conv_names_table. Qed.

Theorem c13_convenience_is_named_effect : forall m, conv_effect m = sp_named_effect (conv_name m).
Proof. exact conv_is_named. Qed.

Theorem c13_style_bitor_is_union : forall s e,
  st_get_effects (st_bitor s e) = e_insert (st_get_effects s) e /\
  st_get_fg_color (st_bitor s e) = st_get_fg_color s /\ st_get_bg_color (st_bitor s e) = st_get_bg_color s /\
  st_get_underline_color (st_bitor s e) = st_get_underline_color s /\
  st_bitor_assign s e = st_bitor s e.
Proof. exact bitor_spec. Qed.

Theorem c13_style_sub_is_difference : forall s e,
  st_get_effects (st_sub s e) = e_remove (st_get_effects s) e /\
  st_get_fg_color (st_sub s e) = st_get_fg_color s /\ st_get_bg_color (st_sub s e) = st_get_bg_color s /\
  st_get_underline_color (st_sub s e) = st_get_underline_color s /\
  st_sub_assign s e = st_sub s e.
Proof. exact sub_spec. Qed.

Theorem c13_style_eq_effects : forall s e,
  st_eq_effects s e = true <->
  st_get_fg_color s = None /\ st_get_bg_color s = None /\ st_get_underline_color s = None /\ st_get_effects s = e.
Proof. exact eq_effects_iff. Qed.

Theorem c13_style_eq_effects_is_spec : forall s e, st_eq_effects s e = sp_eq_effects (abs_style s) e.
Proof. exact eq_effects_is_spec. Qed.

Theorem c13_style_from_effects : forall e,
  st_get_effects (st_from_effects e) = e /\ st_get_fg_color (st_from_effects e) = None /\
  st_get_bg_color (st_from_effects e) = None /\ st_get_underline_color (st_from_effects e) = None /\
  st_eq_effects (st_from_effects e) e = true.
Proof. exact from_effects_getters. Qed.

Theorem c13_style_is_plain : forall s, st_is_plain s = true <-> s = st_new.
Proof. exact st_is_plain_iff. Qed.

Theorem c13_style_equality_decides : forall a b, style_eqb a b = true <-> a = b.
Proof. exact style_eqb_eq. Qed.

(* ---- 16 colours, 256 indices ------------------------------------------------ *)

Theorem c13_ansi_positions : map ansi_disc all_ansi = range_from 0 16.
Proof. exact ansi_disc_order. Qed.

Theorem c13_ansi_position_injective : forall a b, ansi_disc a = ansi_disc b -> a = b.
Proof. exact ansi_disc_inj. Qed.

Theorem c13_into_after_from : forall c, ansi256_into_ansi (ansi256_from_ansi c) = Some c.
Proof. exact into_from. Qed.

Theorem c13_from_after_into : forall n, n < 16 ->
  exists c, ansi256_into_ansi n = Some c /\ ansi256_from_ansi c = n.
Proof. exact from_into. Qed.

Theorem c13_into_none_above_15 : forall n, 16 <= n -> ansi256_into_ansi n = None.
Proof. exact into_none. Qed.

Theorem c13_from_is_position : forall c, ansi256_from_ansi c = sp_from_ansi (ansi_disc c).
Proof. exact from_is_disc. Qed.

Theorem c13_into_is_spec : forall n, n < 256 -> option_map ansi_disc (ansi256_into_ansi n) = sp_into_ansi n.
Proof. exact into_is_spec. Qed.

Theorem c13_from_injective : forall a b, ansi256_from_ansi a = ansi256_from_ansi b -> a = b.
Proof. exact from_ansi_inj. Qed.

Theorem c13_bright_projection : forall c b, ansi_bright (ansi_bright c b) b = ansi_bright c b.
Proof. exact bright_idem. Qed.

Theorem c13_bright_last_wins : forall c b b', ansi_bright (ansi_bright c b') b = ansi_bright c b.
Proof. exact bright_last. Qed.

Theorem c13_bright_preserves_hue : forall c b, hue (ansi_disc (ansi_bright c b)) = hue (ansi_disc c).
Proof. exact bright_hue. Qed.

Theorem c13_bright_sets_brightness : forall c b, ansi_is_bright (ansi_bright c b) = b.
Proof. exact bright_is_bright. Qed.

Theorem c13_bright_fixed_point : forall c, ansi_bright c (ansi_is_bright c) = c.
Proof. exact bright_fixed. Qed.

Theorem c13_bright_is_spec : forall c b, ansi_disc (ansi_bright c b) = with_bright (ansi_disc c) b.
Proof. exact bright_is_spec. Qed.

Theorem c13_is_bright_is_spec : forall c, ansi_is_bright c = is_bright_ix (ansi_disc c).
Proof. exact is_bright_is_spec. Qed.

Theorem c13_hue_and_brightness_determine : forall a b,
  hue (ansi_disc a) = hue (ansi_disc b) -> ansi_is_bright a = ansi_is_bright b -> a = b.
Proof. exact hue_bright_inj. Qed.

(* ---- the tie by translation ------------------------------------------------------------- *)

(* Generated/StyleFn.v is written on every run by tools/gen_fn_style.py (tools/rs2v) from the Rust
   sources of effect.rs (Effects::{new, is_plain, contains, insert, remove, clear, set, iter,
   index_iter, render}, the operator impls, both `Iterator::next`, `Debug::fmt`), color.rs
   (AnsiColor::{bright, is_bright}, Ansi256Color::{index, into_ansi, from_ansi}) and style.rs (every
   builder, convenience method, getter, is_plain, the operator impls with Effects, From<Effects>,
   PartialEq<Effects>).  Each translated function computes what the hand model -- the subject of
   every theorem above -- computes; none of them panics.  Nothing in this area is hand-pinned. *)
Theorem c13_translated_effects_are_model :
  g_eff_new = e_new /\
  (forall e, g_eff_is_plain e = e_is_plain e /\ g_eff_clear e = e_clear e /\ g_eff_render e = e /\
             g_eff_iter_items e = e_iter e /\ g_eff_index_iter_items e = e_index_iter e /\ g_eff_debug e = e_debug e) /\
  (forall a b, g_eff_contains a b = e_contains a b /\ g_eff_insert a b = e_insert a b /\ g_eff_remove a b = e_remove a b /\
               g_eff_bitor a b = e_bitor a b /\ g_eff_bitor_assign a b = e_bitor_assign a b /\
               g_eff_sub a b = e_sub a b /\ g_eff_sub_assign a b = e_sub_assign a b) /\
  (forall a b en, g_eff_set a b en = e_set a b en).
Proof. exact translated_effects_are_model. Qed.

(* one call of the translated `next`, [n] table positions before the end: the next member (the
   singleton / the index) and the advanced iterator, or None at the end *)
Theorem c13_translated_iter_next : forall e n i, i + N.of_nat n = 12 ->
  g_eff_iter_next (mkEffIter i e) = e_next (fun _ effect => effect) e n i /\
  g_eff_index_iter_next (mkEffIter i e) = e_next (fun index _ => index) e n i.
Proof. exact (fun e n i H => conj (g_eff_iter_next_eq e n i H) (g_eff_index_iter_next_eq e n i H)). Qed.

(* <Effects as Debug>::fmt on a formatter that holds [f]: appends the text, answers Ok(()) *)
Theorem c13_translated_debug_fmt : forall e f,
  g_eff_debug_fmt e f = option_map (fun t => (f ++ t, inl tt)) (e_debug e).
Proof. exact g_eff_debug_fmt_eq. Qed.

Theorem c13_translated_colors_are_model :
  (forall c yes, g_ansi_bright c yes = Some (ansi_bright c yes)) /\
  (forall c, g_ansi_is_bright c = Some (ansi_is_bright c)) /\
  (forall n, g_a256_into_ansi n = Some (ansi256_into_ansi n)) /\
  (forall c, g_a256_from_ansi c = Some (ansi256_from_ansi c)).
Proof. exact translated_colors_are_model. Qed.

Theorem c13_translated_style_is_model :
  g_st_new = st_new /\
  (forall s v, g_st_fg_color s v = st_fg_color s v /\ g_st_bg_color s v = st_bg_color s v /\
               g_st_underline_color s v = st_underline_color s v) /\
  (forall s e, g_st_effects s e = st_effects s e /\ g_st_bitor s e = st_bitor s e /\ g_st_bitor_assign s e = st_bitor_assign s e /\
               g_st_sub s e = st_sub s e /\ g_st_sub_assign s e = st_sub_assign s e /\ g_st_eq_effects s e = st_eq_effects s e) /\
  (forall m s, g_st_conv m s = st_conv m s) /\
  (forall s, g_st_get_fg_color s = st_get_fg_color s /\ g_st_get_bg_color s = st_get_bg_color s /\
             g_st_get_underline_color s = st_get_underline_color s /\ g_st_get_effects s = st_get_effects s /\
             g_st_is_plain s = st_is_plain s) /\
  (forall e, g_st_from_effects e = st_from_effects e).
Proof. exact translated_style_is_model. Qed.

(* hence the translated code obeys the laws above; two of them spelled out on the translated functions:
   the translated iterator yields exactly the members, in declaration order, and the translated Debug
   prints their names *)
Theorem c13_translated_iter_members : forall e, g_eff_iter_items e = Some (map singleton (members e)).
Proof. exact (fun e => eq_trans (g_eff_iter_eq e) (iter_members e)). Qed.

Theorem c13_translated_debug_names_members : forall e, g_eff_debug e = Some (sp_debug e).
Proof. exact (fun e => eq_trans (g_eff_debug_eq e) (debug_is_spec e)). Qed.
