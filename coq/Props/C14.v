(* Props/C14.v -- property theorems for C14 (SVG rendering is well-formed,
   text-preserving and style-faithful).  Only statements, each closed by [exact].

   Vocabulary.  [svg_doc t input] is the abstract document of Model/Svg.v (layer 1),
   [svg_print width_px wf d] its text (layer 2; [width_px] and [wf] stand for what
   unicode_width contributes and are universally quantified).  [runs] are the styled
   runs of the MODEL of anstream's WinconBytes (Model/Wincon.extract_next on a fresh
   state); that these runs are the visible text tagged with the SGR rendition in
   effect (Spec/Sgr.spec_runs) is C07's business and is not repeated here.
   [svg_visible runs] is the visible text.  A term [t] is a palette, the two default
   colours and the background flag; every theorem holds for every palette and
   defaults the hypotheses allow ([palette_ok]: 16 entries of byte components;
   [svg_colour_ok]: a colour value an anstyle::Color can hold). *)
From Coq Require Import NArith List Bool.
From AV Require Import Generated.Style Generated.Palette Generated.Svg Spec.Sgr Spec.Lossy Spec.SvgSpec
  Model.Base Model.Parser Model.Wincon Model.Lossy Model.Svg Proofs.Svg Generated.WinconFn Proofs.WinconGen
  Generated.SvgFn Proofs.SvgGen.
Import ListNotations.
Local Open Scope N_scope.

(* The text of the foreground spans, line by line, is the visible text split at
   newlines, one carriage return before a newline dropped -- for every input (the
   two carriage-return corners found while building this check are repaired in the
   code; c14_text_two_cr_example is the second of them). *)
Theorem c14_text_preserved :
  forall t input d runs p c,
  extract_next input parser_new capture_default = Some (runs, p, c) -> svg_doc t input = Some d ->
  map svg_line_text (svg_fg_lines d) = svg_split_nl_dropping_cr (svg_visible runs).
Proof. exact svg_text_preserved. Qed.

Theorem c14_text_two_cr_example :
  exists d, svg_doc svg_term_new [97; 13; 27; 91; 51; 49; 109; 13; 10; 98] = Some d /\
    map svg_line_text (svg_fg_lines d) = [[97; 13]; [98]].
Proof. exact svg_text_two_cr_example. Qed.

(* Every colour class on any span (foreground or background row) is the name of a
   colour, and the style sheet defines it with the RGB value the configured palette
   assigns to that colour -- and with no other value. *)
Theorem c14_classes_defined :
  forall t input d runs p c,
  svg_colour_ok (svg_t_fg t) = true -> svg_colour_ok (svg_t_bg t) = true ->
  extract_next input parser_new capture_default = Some (runs, p, c) -> svg_doc t input = Some d ->
  forall l span, In l (svg_d_lines d) ->
  (In span (svg_l_fg l) \/ exists bg, svg_l_bg l = Some bg /\ In span bg) ->
  forall cls, In cls (fst span) -> svg_is_colour_class cls = true ->
  exists prefix col v,
    In prefix svg_prefixes /\ svg_color_name prefix col = Some cls
    /\ color_to_rgb (svg_to_color col) (svg_t_palette t) = Some v
    /\ In (cls, svg_rgb_hex v) (svg_d_sheet d)
    /\ forall v', In (cls, v') (svg_d_sheet d) -> v' = svg_rgb_hex v.
Proof. exact svg_classes_defined. Qed.

(* The sheet is what iterating a BTreeMap gives: strictly ascending class names
   (Ord for str), hence no class is defined twice. *)
Theorem c14_sheet_sorted :
  forall t input d, svg_doc t input = Some d -> svg_sorted (svg_d_sheet d).
Proof. exact svg_sheet_sorted. Qed.

(* The class list of a foreground span is exactly the image (Spec/SvgSpec
   svg_spec_classes: foreground colour class, underline colour class, then the
   effect classes in source order) of the style of the run it shows, after the
   INVERT swap against the configured defaults (svg_drawn = Spec/SvgSpec
   svg_spec_invert); a background span carries the class of that style's
   background colour, or none.  Every span shows a non-empty piece of a run. *)
Theorem c14_classes_denote_style :
  forall t input d runs p c,
  extract_next input parser_new capture_default = Some (runs, p, c) -> svg_doc t input = Some d ->
  forall l, In l (svg_d_lines d) ->
  (forall span, In span (svg_l_fg l) ->
     exists s0 t0, In (s0, t0) runs /\ svg_sub (snd span) t0 /\ snd span <> [] /\
       fst span = svg_spec_classes colour (svg_name_of svg_fg_prefix) (svg_name_of svg_underline_prefix) svg_effect_classes (svg_drawn t s0))
  /\ (forall bg span, svg_l_bg l = Some bg -> In span bg ->
     exists s0 t0, In (s0, t0) runs /\ svg_sub (snd span) t0 /\ snd span <> [] /\
       fst span = match snd (fst (fst (svg_drawn t s0))) with Some col => [svg_name_of svg_bg_prefix col] | None => [] end).
Proof. exact svg_classes_denote_style. Qed.

(* The same against the CONCRETE specification of Spec/SvgSpec (the oracle the
   correspondence compares the real output with): a foreground span's classes are
   svg_spec_fg_classes of its run's style under the configured defaults -- drawn
   foreground (invert swapped against the defaults) as fg-<name> / fg-ansi256-NNN /
   fg-rgb-RRGGBB, underline colour, then the documented effect classes (none for
   INVERT and BLINK); a background span carries svg_spec_bg_class, or nothing. *)
Theorem c14_classes_denote_spec_style :
  forall t input d runs p c,
  svg_colour_ok (svg_t_fg t) = true -> svg_colour_ok (svg_t_bg t) = true ->
  extract_next input parser_new capture_default = Some (runs, p, c) -> svg_doc t input = Some d ->
  forall l, In l (svg_d_lines d) ->
  (forall span, In span (svg_l_fg l) ->
     exists s0 t0, In (s0, t0) runs /\ svg_sub (snd span) t0 /\ snd span <> [] /\
       fst span = svg_spec_fg_classes (svg_t_fg t) (svg_t_bg t) s0)
  /\ (forall bg span, svg_l_bg l = Some bg -> In span bg ->
     exists s0 t0, In (s0, t0) runs /\ svg_sub (snd span) t0 /\ snd span <> [] /\
       fst span = match svg_spec_bg_class (svg_t_fg t) (svg_t_bg t) s0 with Some cls => [cls] | None => [] end).
Proof. exact svg_classes_denote_spec_style. Qed.

(* The canvas height is line_height for every line plus the padding on both sides,
   and there are as many lines as the visible text has. *)
Theorem c14_height_counts_lines :
  forall t input d runs p c,
  extract_next input parser_new capture_default = Some (runs, p, c) -> svg_doc t input = Some d ->
  svg_d_height d = N.of_nat (length (svg_d_lines d)) * svg_line_height + svg_padding * 2
  /\ length (svg_d_lines d) = length (svg_split_nl_dropping_cr (svg_visible runs)).
Proof. exact svg_height_counts_lines. Qed.

(* encode_text: undone by replacing the three references; the escaped text has no
   '<' and no '&' other than the three references. *)
Theorem c14_escape_roundtrip :
  forall t, xml_unescape (svg_encode_text t) = t /\ ~ In 60 (svg_encode_text t) /\ XEscaped (svg_encode_text t).
Proof. exact (fun t => conj (svg_escape_roundtrip t) (conj (svg_encoded_no_lt t) (svg_encoded_escaped t))). Qed.

(* The text of a foreground span as written (encode_text, then every CR as the
   reference &#13;): what an XML processor hands over for it (end-of-line
   normalisation, XML 1.0 section 2.11, then the references) is the text itself,
   for EVERY text; it has no '<', no literal CR and no '&' outside the four
   references.  Without the reference a CR would come back as LF (second part). *)
Theorem c14_parsed_text_roundtrip :
  (forall t, xml_text_value (svg_encode_fg t) = t
             /\ XEscaped (svg_encode_fg t) /\ ~ In 60 (svg_encode_fg t) /\ ~ In 13 (svg_encode_fg t))
  /\ xml_text_value (svg_encode_text [97; 13; 98]) = [97; 10; 98].
Proof. exact (conj (fun t => conj (svg_parsed_text_roundtrip t) (svg_fg_escaped t)) svg_parsed_text_cr_witness). Qed.

(* The template is well-formed for every document whose span texts are XML
   characters, whose class names are name characters and whose colour values are
   plain character data ([svg_doc_ok]), for every answer of unicode_width. *)
Theorem c14_print_doc_wf :
  forall width_px wf d, svg_doc_ok d = true -> WF (svg_print width_px wf d).
Proof. exact svg_print_doc_wf. Qed.

(* ... and the document of every input whose visible text is XML-representable is
   such a document: the rendered SVG is well-formed. *)
Theorem c14_rendered_wf :
  forall t input d runs p c,
  palette_ok (svg_t_palette t) -> svg_colour_ok (svg_t_fg t) = true -> svg_colour_ok (svg_t_bg t) = true ->
  extract_next input parser_new capture_default = Some (runs, p, c) -> svg_doc t input = Some d ->
  forallb xml_char (svg_visible runs) = true ->
  forall width_px wf, WF (svg_print width_px wf d).
Proof. exact svg_rendered_wf. Qed.

(* non-vacuity: a document with all ingredients (invert against the defaults, three
   colour kinds, an effect, escaped text, a CR LF) *)
Theorem c14_example :
  exists d, svg_doc (mkSvgTerm win10_console (CRgb 1 2 3) (CIdx 200) true)
              [27; 91; 49; 59; 52; 109; 97; 38; 27; 91; 55; 109; 98; 13; 10; 27; 91; 51; 56; 59; 50; 59; 49; 59; 50; 59; 51; 109; 99] = Some d
    /\ svg_d_height d = 56
    /\ svg_d_sheet d = [([98; 103; 45; 114; 103; 98; 45; 48; 49; 48; 50; 48; 51], [35; 48; 49; 48; 50; 48; 51]);
                        ([102; 103; 45; 97; 110; 115; 105; 50; 53; 54; 45; 50; 48; 48], [35; 70; 70; 48; 48; 68; 55])]
    /\ map svg_line_text (svg_fg_lines d) = [[97; 38; 98]; [99]].
Proof. eexists. split; [vm_compute; reflexivity|]. repeat split; vm_compute; reflexivity. Qed.

(* ---- the tie by translation --------------------------------------------------------- *)

(* the [runs] of the theorems above are those of the code translated from
   crates/anstream/src/adapter/wincon.rs (Generated/WinconFn.v, tools/gen_fn_wincon.py) *)
Theorem c14_translated_extract_next_is_model :
  forall bs p c, g_extract_next bs p c = extract_next bs p c.
Proof. exact translated_extract_next_is_model. Qed.

(* [svg_doc], [svg_print] and the helpers the theorems above are about are the code translated from
   crates/anstyle-svg/src/lib.rs (Generated/SvgFn.v, tools/gen_fn_svg.py).  The oracle [o] stands for
   unicode_width, the f64 expression of the width and Term::min_width_px: what the hand model leaves to
   its arguments [width_px] / [wf]; [svg_width_px o lines] is render_svg's width arithmetic over it. *)
Theorem c14_translated_render_svg_is_model :
  forall o t input,
  g_svg_render o t input =
  (styled <- svg_styled t input ;;
   d <- svg_doc t input ;;
   Some (svg_print (svg_width_px o (svg_split_lines styled)) (svg_o_uw o) d)).
Proof. exact translated_render_svg_is_model. Qed.

Theorem c14_translated_render_svg_prints_doc :
  forall o t input d, svg_doc t input = Some d ->
  exists styled, svg_styled t input = Some styled /\
    g_svg_render o t input = Some (svg_print (svg_width_px o (svg_split_lines styled)) (svg_o_uw o) d).
Proof. exact translated_render_svg_prints_doc. Qed.

Theorem c14_translated_render_svg_panics :
  forall o t input, svg_doc t input = None -> g_svg_render o t input = None.
Proof. exact translated_render_svg_panics. Qed.

Theorem c14_translated_split_lines_is_model :
  forall o styled, g_svg_split_lines o styled = Some (svg_split_lines styled).
Proof. exact g_svg_split_lines_eq. Qed.

Theorem c14_translated_color_name_is_model :
  forall o prefix c, g_svg_color_name o prefix (svg_to_color c) = svg_color_name prefix c.
Proof. exact g_svg_color_name_eq. Qed.

Theorem c14_translated_rgb_value_is_model :
  forall o c p, g_svg_rgb_value o (svg_to_color c) p = svg_rgb_value c p.
Proof. exact g_svg_rgb_value_eq. Qed.

Theorem c14_translated_color_styles_is_model :
  forall o styled p, g_svg_color_styles o styled p = svg_color_styles styled p [].
Proof. exact g_svg_color_styles_eq. Qed.

Theorem c14_translated_write_fg_span_is_model :
  forall o buffer s fragment,
  g_svg_write_fg_span o buffer s fragment = (cl <- svg_fg_classes s ;; Some (buffer ++ svg_print_fg_span (cl, fragment))).
Proof. exact g_svg_write_fg_span_eq. Qed.

Theorem c14_translated_write_bg_span_is_model :
  forall o buffer s fragment,
  g_svg_write_bg_span o buffer s fragment =
  (cl <- svg_bg_classes s ;; Some (buffer ++ svg_print_bg_span (svg_o_uw o) (cl, fragment))).
Proof. exact g_svg_write_bg_span_eq. Qed.

(* ---- the terms [t]: Term::new, impl Default, the builders, translated over the whole `struct Term` -------------
   ([svg_term_full]: all seven fields; [svg_tf_term] projects to the record [t] of the theorems above,
   [svg_tf_min_width_px] is the oracle's minimal width, [svg_tf_consts] says that font_family / padding_px hold the
   generated constants the template is printed with) *)
Theorem c14_translated_term_new :
  g_svg_term_new =
  mkSvgTermFull vga (Ansi svg_default_fg_ansi) (Ansi svg_default_bg_ansi) true svg_font_family svg_min_width svg_padding.
Proof. exact g_svg_term_new_eq. Qed.

Theorem c14_translated_term_new_projects :
  svg_tf_term g_svg_term_new = svg_term_new /\
  svg_tf_min_width_px g_svg_term_new = svg_min_width /\
  svg_tf_consts g_svg_term_new.
Proof. exact g_svg_term_new_projects. Qed.

Theorem c14_translated_term_default : g_svg_term_default = g_svg_term_new.
Proof. exact g_svg_term_default_eq. Qed.

(* every builder sets its own field to the argument and leaves the other six alone *)
Theorem c14_translated_term_builders :
  forall t,
  (forall p, svg_tf_fields (g_svg_term_palette t p) =
     (p, svg_tf_fg_color t, svg_tf_bg_color t, svg_tf_background t, svg_tf_font_family t, svg_tf_min_width_px t, svg_tf_padding_px t)) /\
  (forall c, svg_tf_fields (g_svg_term_fg_color t c) =
     (svg_tf_palette t, c, svg_tf_bg_color t, svg_tf_background t, svg_tf_font_family t, svg_tf_min_width_px t, svg_tf_padding_px t)) /\
  (forall c, svg_tf_fields (g_svg_term_bg_color t c) =
     (svg_tf_palette t, svg_tf_fg_color t, c, svg_tf_background t, svg_tf_font_family t, svg_tf_min_width_px t, svg_tf_padding_px t)) /\
  (forall y, svg_tf_fields (g_svg_term_background t y) =
     (svg_tf_palette t, svg_tf_fg_color t, svg_tf_bg_color t, y, svg_tf_font_family t, svg_tf_min_width_px t, svg_tf_padding_px t)) /\
  (forall n, svg_tf_fields (g_svg_term_min_width_px t n) =
     (svg_tf_palette t, svg_tf_fg_color t, svg_tf_bg_color t, svg_tf_background t, svg_tf_font_family t, n, svg_tf_padding_px t)).
Proof. exact translated_term_builders_frame. Qed.

Theorem c14_translated_term_builders_are_setters :
  forall t b, g_svg_build1 t b = svg_build1 t b.
Proof. exact g_svg_build1_eq. Qed.

Theorem c14_translated_term_builders_commute :
  forall t a b, svg_builder_field a <> svg_builder_field b ->
  g_svg_build1 (g_svg_build1 t a) b = g_svg_build1 (g_svg_build1 t b) a.
Proof. exact translated_term_builders_commute. Qed.

Theorem c14_translated_term_builders_last_wins :
  forall t a b, svg_builder_field a = svg_builder_field b ->
  g_svg_build1 (g_svg_build1 t a) b = g_svg_build1 t b.
Proof. exact translated_term_builders_last_wins. Qed.

(* whatever chain of builders is applied to Term::new(): the two fields without a setter keep the constants *)
Theorem c14_translated_term_built_consts :
  forall bs, svg_tf_consts (g_svg_build g_svg_term_new bs).
Proof. exact translated_term_built_consts. Qed.

(* the fully configured term is the [t] = mkSvgTerm p fg bg y of the theorems above (and of the correspondence
   runs), rendered with the oracle whose minimal width is the argument of min_width_px *)
Theorem c14_translated_term_configured :
  forall p fg bg y n,
  let t := g_svg_term_min_width_px (g_svg_term_background (g_svg_term_bg_color (g_svg_term_fg_color
             (g_svg_term_palette g_svg_term_new p) (svg_to_color fg)) (svg_to_color bg)) y) n in
  svg_tf_term t = mkSvgTerm p fg bg y /\
  svg_tf_min_width_px t = n /\
  svg_tf_consts t /\
  (forall uw ceil84 input,
     g_svg_render (svg_tf_oracle uw ceil84 t) (svg_tf_term t) input =
     g_svg_render (mkSvgOracle uw ceil84 n) (mkSvgTerm p fg bg y) input).
Proof. exact translated_term_configured. Qed.

(* render_svg translated a second time with every `self.<field>` read from the whole struct: on a term that
   keeps the two constants it is [g_svg_render] on the projections, so the theorems above speak about
   `Term::new().<builders>.render_svg(input)` as translated, for every chain of builders *)
Theorem c14_translated_render_svg_full :
  forall o t input,
  svg_tf_consts t -> svg_o_min_width o = svg_tf_min_width_px t ->
  g_svg_render_full o t input = g_svg_render o (svg_tf_term t) input.
Proof. exact translated_render_svg_full_eq. Qed.

Theorem c14_translated_built_term_renders :
  forall uw ceil84 bs input,
  let t := g_svg_build g_svg_term_new bs in
  g_svg_render_full (svg_tf_oracle uw ceil84 t) t input =
  (styled <- svg_styled (svg_tf_term t) input ;;
   d <- svg_doc (svg_tf_term t) input ;;
   Some (svg_print (svg_width_px (svg_tf_oracle uw ceil84 t) (svg_split_lines styled)) uw d)).
Proof. exact translated_built_term_renders. Qed.

(* ---- the third-party crate html-escape 0.2.13, translated from the cargo registry (tools/gen_fn_htmlescape.py, generator
   HtmlEscapeFn: the expansion of its macro_rules tables `escape_impl!` / `encode_impl!`; Proofs/HtmlEscapeGen.v).  The
   crate works on the UTF-8 bytes of a &str, the hand model on code points; [str_bytes] is UTF-8 (Model/Text.v). ---- *)
From AV Require Import Model.Text Generated.HtmlEscapeFn Proofs.HtmlEscapeGen.

(* `html_escape::encode_text` is [svg_encode_text], byte for byte, on EVERY byte string; it never panics *)
Theorem c14_translated_htmlescape_encode_text_is_model : forall text, g_he_encode_text text = Some (svg_encode_text text).
Proof. exact g_he_encode_text_eq. Qed.

(* `encode_text_to_vec` (what encode_text hands the rest of the text to after the first escaped byte): appends the
   escaped text to the vector and returns the part appended *)
Theorem c14_translated_htmlescape_encode_text_to_vec_is_model : forall text out,
  g_he_encode_text_to_vec text out = Some (out ++ svg_encode_text text, svg_encode_text text).
Proof. exact g_he_encode_text_to_vec_eq. Qed.

(* escaping commutes with UTF-8: no byte of a multi-byte character is '&', '<' or '>', the entities are ASCII *)
Theorem c14_translated_htmlescape_commutes_with_utf8 : forall w, svg_encode_text (str_bytes w) = str_bytes (svg_encode_text w).
Proof. exact enc_str_bytes. Qed.

(* what the translation of anstyle-svg assumes of `html_escape::encode_text(fragment)` (tools/gen_fn_svg.py: a &str is the
   list of its chars, the call is [svg_encode_text]): on the &str holding the chars [w] the translated crate function
   returns the &str holding the chars [svg_encode_text w], for every text *)
Theorem c14_translated_htmlescape_encode_text_utf8 : forall w,
  g_he_encode_text (str_bytes w) = Some (str_bytes (svg_encode_text w)).
Proof. exact translated_encode_text_utf8. Qed.

(* a text without '&', '<', '>' comes back unchanged (the Cow::Borrowed exit of the scan loop) *)
Theorem c14_translated_htmlescape_plain_unchanged : forall text,
  forallb (fun c => negb (he_special c)) text = true -> g_he_encode_text text = Some text.
Proof. exact translated_encode_text_plain. Qed.
(* ---- third-party unicode-width, TRANSLATED (tools/gen_fn_unicodewidth.py -> Generated/UnicodeWidthFn.v): the width
   oracle of the svg model is the translated `<str as UnicodeWidthStr>::width` ---- *)
From AV Require Import Model.UnicodeWidth Generated.UnicodeWidthFn Proofs.UnicodeWidthGen Model.SvgWidth Proofs.SvgWidthGen.

(* no panic: every index into WIDTH_ROOT / WIDTH_MIDDLE / WIDTH_LEAVES / EMOJI_PRESENTATION_LEAVES is in bounds, for
   every code point below 2^21 (a char is below 0x110000) and every state of the look-ahead machine *)
Theorem c14_translated_unicodewidth_lookup_in_bounds :
  forall c, c < 2097152 -> exists r, g_uw_lookup_width c = Some r.
Proof. exact g_uw_lookup_width_total. Qed.

Theorem c14_translated_unicodewidth_step_total :
  forall c info, c < 2097152 -> exists r, g_uw_width_in_str c info = Some r.
Proof. exact g_uw_width_in_str_total. Qed.

Theorem c14_translated_unicodewidth_total :
  forall s, Forall (fun c => c < 2097152) s -> exists n, g_uw_str_trait_width s = Some n.
Proof. exact g_uw_str_trait_width_total. Qed.

(* the lists handed to binary_search_by are sorted (disjoint increasing ranges), and on the one-byte lists the
   bisection of Model/UnicodeWidth.v finds a range iff there is one *)
Theorem c14_translated_unicodewidth_tables_sorted :
  forallb (uw_sorted_ranges None) uw_leaves8 = true /\ uw_sorted_ranges None uw_ranges24 = true.
Proof. exact uw_tables_sorted. Qed.

Theorem c14_translated_unicodewidth_bsearch_is_scan :
  forall t b, In t uw_leaves8 -> b < 256 ->
  uw_res_is_ok (uw_binary_search_by (uw_cmp_range b) t) = uw_in_ranges b t.
Proof. exact uw_bsearch8_is_scan. Qed.

(* printable ASCII: one column per character (strings and single characters); CR LF is one column *)
Theorem c14_translated_unicodewidth_ascii :
  forall s, Forall (fun c => 32 <= c /\ c < 127) s -> N.of_nat (length s) < 18446744073709551616 ->
  g_uw_str_width s = Some (N.of_nat (length s)).
Proof. exact g_uw_str_width_ascii. Qed.

Theorem c14_translated_unicodewidth_char_ascii :
  forall c, 32 <= c /\ c < 127 -> g_uw_single_char_width c = Some (Some 1).
Proof. exact g_uw_char_width_printable_ascii. Qed.

Theorem c14_translated_unicodewidth_crlf :
  g_uw_str_width [13; 10] = Some 1 /\ g_uw_str_width [10] = Some 1 /\ g_uw_str_width [13] = Some 1.
Proof. exact g_uw_str_width_crlf. Qed.

(* the oracle component svg_o_uw, instantiated: on a string of chars the Rust call answers uw_width, a usize *)
Theorem c14_translated_unicodewidth_is_oracle :
  forall ceil84 minw s, forallb uw_is_char s = true ->
  g_uw_str_trait_width s = Some (svg_o_uw (svg_uw_oracle ceil84 minw) s).
Proof. exact svg_oracle_uw_is_translated. Qed.

Theorem c14_translated_unicodewidth_usize : forall s, uw_width s < 18446744073709551616.
Proof. exact uw_width_lt. Qed.

(* write_bg_span: the fill drawn behind a fragment is as wide as the (escaped) fragment *)
Theorem c14_translated_unicodewidth_fill :
  forall x, uw_width (repeat svg_fill_on (N.to_nat (uw_width x))) = uw_width x /\
            uw_width (repeat svg_fill_off (N.to_nat (uw_width x))) = uw_width x.
Proof. exact (fun x => conj (uw_width_fill_on x) (uw_width_fill_off x)). Qed.

(* render_svg, translated, with the widths COMPUTED by the translated unicode-width: the only parameter left is the
   f64 product `(x as f64 * 8.4).ceil() as usize` *)
Theorem c14_translated_unicodewidth_render_svg :
  forall ceil84 minw t input,
  g_svg_render (mkSvgOracle uw_width ceil84 minw) t input =
  (styled <- svg_styled t input ;;
   d <- svg_doc t input ;;
   Some (svg_print (svg_width_px (mkSvgOracle uw_width ceil84 minw) (svg_split_lines styled)) uw_width d)).
Proof. exact translated_render_svg_uw. Qed.

Theorem c14_translated_unicodewidth_built_term_renders :
  forall ceil84 bs input,
  let t := g_svg_build g_svg_term_new bs in
  g_svg_render_full (svg_tf_oracle uw_width ceil84 t) t input =
  (styled <- svg_styled (svg_tf_term t) input ;;
   d <- svg_doc (svg_tf_term t) input ;;
   Some (svg_print (svg_width_px (svg_tf_oracle uw_width ceil84 t) (svg_split_lines styled)) uw_width d)).
Proof. exact translated_built_term_renders_uw. Qed.

(* what `driver model` runs for case kind svgraw (no quantity is read off the real output any more) *)
Theorem c14_translated_unicodewidth_driver_model :
  forall palette fg bg background minw input,
  g_svg_render (mkSvgOracle uw_width svg_ceil84_exact minw) (mkSvgTerm palette fg bg background) input =
  svg_m_render_uw palette fg bg background minw input.
Proof. exact translated_render_svg_is_driver_model. Qed.

(* the rules the crate documents, as worked examples of the translation (one per arm of the look-ahead machine) *)
Theorem c14_translated_unicodewidth_documented_rules :
  (* CR LF is one column *)
  g_uw_str_width [13; 10] = Some 1 /\
  (* ASCII *)
  g_uw_str_width [97; 98; 99] = Some 3 /\
  (* East_Asian_Width=Wide *)
  g_uw_str_width [20013] = Some 2 /\
  (* Emoji_Presentation *)
  g_uw_str_width [128512] = Some 2 /\
  (* emoji ZWJ sequence: 2 *)
  g_uw_str_width [128104; 8205; 128105; 8205; 128103; 8205; 128102] = Some 2 /\
  (* emoji modifier sequence: 2 *)
  g_uw_str_width [128077; 127995] = Some 2 /\
  (* emoji presentation sequence (VS16): 2 *)
  g_uw_str_width [10084; 65039] = Some 2 /\
  (* VS15 on a text-default character *)
  g_uw_str_width [10084; 65038] = Some 1 /\
  (* U+231A alone *)
  g_uw_str_width [8986] = Some 2 /\
  (* text presentation sequence (VS15): 1 *)
  g_uw_str_width [8986; 65038] = Some 1 /\
  (* U+1F004 VS15 *)
  g_uw_str_width [126980; 65038] = Some 1 /\
  (* VS15 in Enclosed Ideographic Supplement: still 2 *)
  g_uw_str_width [127514; 65038] = Some 2 /\
  (* Arabic lam-alef ligature: 1 *)
  g_uw_str_width [1604; 1575] = Some 1 /\
  (* lam, transparent mark, alef: 1 *)
  g_uw_str_width [1604; 1611; 1575] = Some 1 /\
  (* lam alone *)
  g_uw_str_width [1604] = Some 1 /\
  (* Buginese <a, -i> ya: 1 *)
  g_uw_str_width [6677; 6679; 8205; 6672] = Some 1 /\
  (* Hebrew alef ZWJ lamed: 1 *)
  g_uw_str_width [1488; 8205; 1500] = Some 1 /\
  (* Khmer coeng sign: 0 *)
  g_uw_str_width [6098; 6016] = Some 0 /\
  (* letter + coeng sign *)
  g_uw_str_width [6016; 6098; 6016] = Some 1 /\
  (* Lisu tone letters: 1 *)
  g_uw_str_width [42232; 42236] = Some 1 /\
  (* Old Turkic ligature: 1 *)
  g_uw_str_width [68658; 8205; 68611] = Some 1 /\
  (* Tifinagh bi-consonant (joiner): 1 *)
  g_uw_str_width [11569; 11647; 11569] = Some 1 /\
  (* Tifinagh bi-consonant (ZWJ): 1 *)
  g_uw_str_width [11569; 8205; 11569] = Some 1 /\
  (* U+2D7F alone: 1 *)
  g_uw_str_width [11647] = Some 1 /\
  (* U+115F: 2 *)
  g_uw_str_width [4447] = Some 2 /\
  (* U+17A4: 2 *)
  g_uw_str_width [6052] = Some 2 /\
  (* U+17D8: 3 *)
  g_uw_str_width [6104] = Some 3 /\
  (* U+0CC0: 0 *)
  g_uw_str_width [3264] = Some 0 /\
  (* Hangul vowel jamo: 0 *)
  g_uw_str_width [4448] = Some 0 /\
  (* prepended concatenation mark U+0605: 0 *)
  g_uw_str_width [1541] = Some 0 /\
  (* U+A8FA: 0 *)
  g_uw_str_width [43258] = Some 0 /\
  (* a base letter and a Grapheme_Extend mark (width 0): 1 *)
  g_uw_str_width [233] = Some 1 /\
  (* Default_Ignorable U+00AD: 0 *)
  g_uw_str_width [173] = Some 0 /\
  (* U+200B: 0 *)
  g_uw_str_width [8203] = Some 0 /\
  (* regional indicator pair *)
  g_uw_str_width [127482; 127480] = Some 2 /\
  (* three regional indicators *)
  g_uw_str_width [127482; 127480; 127462] = Some 3 /\
  (* keycap sequence *)
  g_uw_str_width [35; 65039; 8419] = Some 2 /\
  (* tag sequence (flag of England) *)
  g_uw_str_width [127988; 917607; 917602; 917605; 917614; 917607; 917631] = Some 2 /\
  (* emoji ZWJ flags *)
  g_uw_str_width [128512; 8205; 127482; 127480; 127482; 127480] = Some 4 /\
  (* control characters count 1 each inside a string *)
  g_uw_str_width [0; 7; 127; 159] = Some 4 /\
  (* U+10FFFF *)
  g_uw_str_width [1114111] = Some 1 /\
  (* Ambiguous: narrow *)
  g_uw_str_width [161; 9608] = Some 2.
Proof. exact g_uw_documented_examples. Qed.
