(* Props/C15.v -- property theorems for C15 (roff rendering preserves text, colours and
   font per segment).  Only statements, each closed by [exact].

   [rf_to_roff] is the hand model of anstyle_roff::to_roff(text).to_roff() over the UTF-8
   bytes of the input (None = panic): cansi 2.2.1's segmentation and SGR reading
   (third party, transcribed), styled_str.rs over the translated tables, lib.rs, and roff
   0.2.1's renderer (third party, transcribed); [rf_color_requests] is add_color_to_roff
   alone, rendered.  Everything else is the independent specification Spec/RoffSpec.v:
   the domain D ([rf_seg], [rf_D], [rf_print_D]: segments each introduced by
   ESC [ 0 ; <effect codes> ; <fg> ; <bg> m, colours 0..15 or unset, text without ESC),
   the expected document [rf_spec_doc], the reader of roff documents ([rf_lines],
   [rf_is_request_line], [rf_unescape_roff] inside [rf_doc_text]) and the general
   expectation [rf_general_doc] (styles accumulate, 256-colour / RGB forms select a colour). *)
From Coq Require Import NArith List Bool.
From AV Require Model.Text.
From AV Require Import Spec.Lossy Spec.StyleRec Spec.RoffSpec Model.Base Model.Roff Proofs.Roff Generated.RoffFn Proofs.RoffGen.
From AV Require Import Generated.RoffCrateFn Proofs.RoffCrateGen.
From AV Require Import Generated.CansiFn Proofs.CansiSgr Proofs.CansiGen Proofs.RoffDepsGen.
Import ListNotations.
Local Open Scope N_scope.

(* For every list of segments of D -- any number of segments, any effect codes in any order,
   any of the 17 x 17 colour pairs, any segment text without ESC (several lines, leading
   '.' and ''', '\', '-' included) -- outside the recorded class of F15-3, the document is
   exactly: per segment with visible text, ".gcolor <fg>", ".fcolor <bg>" ("default" when
   unset, a bright colour by the name of its base colour), then the escaped text set in
   \fB..\fR when the segment is bold or its foreground is bright, else in \fI..\fR when it is
   italic, else in roman.
   The statement WITHOUT the hypothesis [rf_bold_and_faint s = false] is false: see
   c15_bold_faint_refuted (finding F15-3); with the font cansi arrives at in place of the
   font of the statement it holds for all of D (Proofs/Roff.v, rf_to_roff_D). *)
Theorem c15_document_shape : forall segs : list rf_seg,
  rf_D segs ->
  Forall (fun s => rf_bold_and_faint s = false) segs ->
  rf_to_roff (rf_print_D segs) = Some (rf_spec_doc segs).
Proof. exact rf_document_shape. Qed.

(* For ALL of D (the class of F15-3 included): what a roff processor typesets -- the lines
   that are not requests, with \\ \- \& \fX unescaped -- is the segment texts in order, one
   per text line. *)
Theorem c15_text_survives : forall segs : list rf_seg,
  rf_D segs ->
  exists doc, rf_to_roff (rf_print_D segs) = Some doc /\ rf_doc_text doc = rf_visible_text segs.
Proof. exact rf_text_survives. Qed.

(* For EVERY input (any byte string, in D or not): a line of the document that begins with
   '.' or ''' is one of the eighteen requests ".gcolor <name>" / ".fcolor <name>" (name =
   default or one of the eight roff colours).  Text can never start a request. *)
Theorem c15_no_injected_request : forall (input doc : list N),
  rf_to_roff input = Some doc ->
  forall l, In l (rf_lines doc) -> rf_is_request_line l = true -> In l rf_allowed_requests.
Proof. exact rf_no_injected_request. Qed.

(* no panic, for every input *)
Theorem c15_total : forall input : list N, exists doc, rf_to_roff input = Some doc.
Proof. exact rf_to_roff_total. Qed.

(* F15-1: "ESC[1m ESC[31m hi".  Styles accumulate over SGR sequences (bold, then red: the
   text is bold red); the model -- like the crate -- renders "hi" in roman: the bold is lost. *)
Theorem c15_accumulation_refuted :
  exists input, input = rf_witness_accumulation /\
    rf_to_roff input = Some rf_doc_accumulation_model /\
    rf_general_doc input = Some rf_doc_accumulation_expected /\
    rf_doc_accumulation_model <> rf_doc_accumulation_expected.
Proof. exact rf_accumulation_refuted. Qed.

(* F15-2: "ESC[38;5;196m X".  Colour 196 is #ff0000 and wants a colour definition; the model
   -- like the crate -- renders X in the default colour. *)
Theorem c15_extended_colours_refuted :
  exists input, input = rf_witness_extended /\
    rf_to_roff input = Some rf_doc_extended_model /\
    rf_general_doc input = Some rf_doc_extended_expected /\
    rf_doc_extended_model <> rf_doc_extended_expected.
Proof. exact rf_extended_colours_refuted. Qed.

(* F15-3: "ESC[0;1;2m X", a member of D (bold and faint in one sequence): the segment is bold,
   the model -- like the crate -- renders X in roman (cansi keeps one intensity, the last). *)
Theorem c15_bold_faint_refuted :
  exists segs, segs = rf_witness_bold_faint /\ rf_D segs /\
    rf_print_D segs = [27; 91; 48; 59; 49; 59; 50; 109; 88] /\
    rf_to_roff (rf_print_D segs) = Some rf_doc_extended_model /\
    rf_to_roff (rf_print_D segs) <> Some (rf_spec_doc segs).
Proof. exact rf_bold_faint_refuted. Qed.

(* The Rgb / Ansi256 arms of add_color_to_roff (not reachable through to_roff, because cansi
   never yields such a colour) are correct: an RGB colour goes through
   ".defcolor hex_#rrggbb rgb #rrggbb" and is selected by that name; an indexed colour below 16
   is named, any other goes through its xterm RGB value. *)
Theorem c15_rgb_branch_correct : forall (req : list N) (c : color),
  match c with
  | Rgb (r, g, b) => r < 256 /\ g < 256 /\ b < 256
  | Ansi256 i => i < 256
  | Ansi a => a < 16
  end ->
  rf_color_requests req (Some c) = Some (rf_gen_color_requests req (Some (rf_tcolor_of c))).
Proof. exact rf_rgb_branch_correct. Qed.

(* ---- the translated code (tools/gen_fn_roff.py -> Generated/RoffFn.v) -------------------------
   [g_to_roff], [g_add_color_to_roff], [g_styled_stream] .. are the Rust functions of
   crates/anstyle-roff/src/{lib.rs,styled_str.rs} translated by tools/rs2v on every run; cansi and roff
   (third party) stay the hand model ([rf_categorise], [rf_render], the document = the lines pushed). *)

(* anstyle_roff::to_roff as translated, followed by roff's renderer, IS the hand model [rf_to_roff] the
   theorems above are about -- for every input, panics (None) included *)
Theorem c15_translated_to_roff_is_model : forall input : list N,
  (ls <- g_to_roff input ;; Some (rf_render ls)) = rf_to_roff input.
Proof. exact translated_to_roff_is_model. Qed.

(* the lines the translated to_roff pushes are the hand model's, slice by slice *)
Theorem c15_translated_doc_lines_is_model : forall input : list N,
  g_to_roff input = rf_doc_lines (rf_categorise input).
Proof. exact g_to_roff_eq. Qed.

(* add_color_to_roff as translated (all four arms, the Ansi256 arm calling itself once), on well-typed
   colours, rendered: the [rf_color_requests] of c15_rgb_branch_correct *)
Theorem c15_translated_color_requests_is_model : forall (req : list N) (c : option color),
  match c with Some c => color_ok c | None => True end ->
  (ls <- g_add_color_to_roff [] req c ;; Some (rf_render ls)) = rf_color_requests req c.
Proof. exact translated_color_requests_is_model. Qed.

(* styled_str.rs as translated: the slices of cansi, each converted by From<CategorisedSlice> *)
Theorem c15_translated_styled_stream_is_model : forall text : list N,
  g_styled_stream text = Some (map (fun c => mkRfStyled (snd c) (rf_style_of (fst c))) (rf_categorise text)).
Proof. exact translated_styled_stream_is_model. Qed.

(* hence the translated code has the document shape of the specification on D *)
Theorem c15_translated_document_shape : forall segs : list rf_seg,
  rf_D segs ->
  Forall (fun s => rf_bold_and_faint s = false) segs ->
  (ls <- g_to_roff (rf_print_D segs) ;; Some (rf_render ls)) = Some (rf_spec_doc segs).
Proof. exact translated_document_shape. Qed.

(* ---- the third-party crate roff, translated (tools/gen_fn_roffcrate.py -> Generated/RoffCrateFn.v) ----------
   [g_rc_*] are the functions of roff 0.2.1's src/lib.rs (the cargo registry copy of the version Cargo.lock
   pins) translated by tools/rs2v on every run: a &str / String is its UTF-8 bytes, `out: &mut dyn Write` the
   bytes written so far, `Result<(), io::Error>` = unit + unit, a Roff the list of its lines. *)

(* anstyle_roff::to_roff(text).to_roff() with BOTH halves translated (anstyle-roff's lib.rs and roff's renderer) IS
   the hand model [rf_to_roff] the theorems above are about -- for every input, panics (None) included *)
Theorem c15_translated_roffcrate_to_roff_is_model : forall input : list N,
  (ls <- g_to_roff input ;; g_rc_to_roff ls) = rf_to_roff input.
Proof. exact translated_roffcrate_to_roff_is_model. Qed.

(* Roff::to_roff as translated is the hand model's renderer, and never panics *)
Theorem c15_translated_roffcrate_render_is_model : forall ls : list rf_line,
  g_rc_to_roff ls = Some (rf_render ls).
Proof. exact g_rc_to_roff_eq. Qed.

(* Line::render as translated, with Apostrophes::DontHandle (what to_roff passes): the line is appended to the
   bytes written so far and the result is Ok(()) *)
Theorem c15_translated_roffcrate_line_render_is_model : forall (l : rf_line) (out : list N),
  g_rc_line_render l out RfDontHandle = Some (out ++ rf_render_line l, inl tt).
Proof. exact g_rc_line_render_eq. Qed.

(* the escaping helpers *)
Theorem c15_translated_roffcrate_escape_inline_is_model : forall s : list N,
  g_rc_escape_inline s = rf_escape_inline s.
Proof. exact g_rc_escape_inline_eq. Qed.

Theorem c15_translated_roffcrate_escape_leading_cc_is_model : forall s : list N,
  g_rc_escape_leading_cc s = rf_escape_leading_cc s.
Proof. exact g_rc_escape_leading_cc_eq. Qed.

Theorem c15_translated_roffcrate_starts_with_cc_is_model : forall s : list N,
  g_rc_starts_with_cc s = rf_starts_with_cc s.
Proof. exact g_rc_starts_with_cc_eq. Qed.

Theorem c15_translated_roffcrate_escape_spaces_is_model : forall w : list N,
  g_rc_escape_spaces w = rf_escape_spaces w.
Proof. exact g_rc_escape_spaces_eq. Qed.

(* the document builders: Roff::new, Roff::control, Roff::text (both return `&mut Self`: the updated document is
   the new value of self and the value of the call), Line::control / Line::text, roman / bold / italic / line_break *)
Theorem c15_translated_roffcrate_new_is_model : g_rc_new = rf_roff_new.
Proof. exact g_rc_new_eq. Qed.

Theorem c15_translated_roffcrate_control_is_model : forall (d : list rf_line) (name : list N) (args : list (list N)),
  g_rc_control d name args = (rf_roff_control d name args, rf_roff_control d name args).
Proof. exact g_rc_control_eq. Qed.

Theorem c15_translated_roffcrate_text_is_model : forall (d : list rf_line) (inlines : list rf_inline),
  g_rc_text d inlines = (rf_roff_text d inlines, rf_roff_text d inlines).
Proof. exact g_rc_text_eq. Qed.

Theorem c15_translated_roffcrate_line_control_is_model : forall (name : list N) (args : list (list N)),
  g_rc_line_control name args = RfControl name args.
Proof. exact g_rc_line_control_eq. Qed.

Theorem c15_translated_roffcrate_line_text_is_model : forall parts : list rf_inline,
  g_rc_line_text parts = RfText parts.
Proof. exact g_rc_line_text_eq. Qed.

Theorem c15_translated_roffcrate_roman_is_model : forall t : list N, g_rc_roman t = RfInRoman t.
Proof. exact g_rc_roman_eq. Qed.

Theorem c15_translated_roffcrate_bold_is_model : forall t : list N, g_rc_bold t = RfInBold t.
Proof. exact g_rc_bold_eq. Qed.

Theorem c15_translated_roffcrate_italic_is_model : forall t : list N, g_rc_italic t = RfInItalic t.
Proof. exact g_rc_italic_eq. Qed.

Theorem c15_translated_roffcrate_line_break_is_model : g_rc_line_break = RfInLineBreak.
Proof. exact g_rc_line_break_eq. Qed.

(* the part of the crate anstyle-roff does not use: Roff::render / Roff::to_writer (apostrophe handling).  Every
   line is rendered with Apostrophes::Handle ([rc_render_line RfHandle]: as [rf_render_line], but every apostrophe
   of an inline text becomes \*(Aq), after the preamble that defines that string *)
Theorem c15_translated_roffcrate_render_handle : forall d : list rf_line,
  g_rc_render d = Some (g_rc_APOSTROPHE_PREABMLE ++ rc_render_doc RfHandle d).
Proof. exact g_rc_render_eq. Qed.

Theorem c15_translated_roffcrate_to_writer_handle : forall (d : list rf_line) (w : list N),
  g_rc_to_writer d w = Some (w ++ g_rc_APOSTROPHE_PREABMLE ++ rc_render_doc RfHandle d, inl tt).
Proof. exact g_rc_to_writer_eq. Qed.

Theorem c15_translated_roffcrate_dont_handle_is_model : forall l : rf_line,
  rc_render_line RfDontHandle l = rf_render_line l.
Proof. exact rc_render_line_dont. Qed.
(* ---- the translated dependency cansi (tools/gen_fn_cansi.py -> Generated/CansiFn.v) ----------------------
   [g_cansi_parse], [g_cansi_adjust_sgr], [g_cansi_handle_seq], [g_cansi_categorise_text] are the functions of the
   third-party crate cansi (src/parsing.rs, src/categorise.rs of the registry copy of the version Cargo.lock pins)
   translated by tools/rs2v on every run; [rf_categorise] / [rf_adjust_sgr] / [rf_handle_seq] is the hand model the
   theorems above are about. *)

(* adjust_sgr, all 48 arms and the wildcard (incl. the recorded quirks: "0" answers SGR::default() -- with
   handle_seq's fold from the default that is F15-1; no arm for 38 / 48 -- F15-2; ONE intensity field written by
   1, 2 and 22 -- F15-3) *)
Theorem c15_translated_cansi_adjust_sgr_is_model : forall (sgr : rf_sgr) (seq : list N),
  g_cansi_adjust_sgr sgr seq = rf_adjust_sgr sgr seq.
Proof. exact g_cansi_adjust_sgr_eq. Qed.

(* handle_seq on a Match as parse records it (ESC [ parameters terminator): split at ';', folded from SGR::default() *)
Theorem c15_translated_cansi_handle_seq_is_model : forall (a e : N) (p : list N) (tb : N),
  g_cansi_handle_seq (mkRfMatch a e (27 :: 91 :: p ++ [tb])) = Some (rf_handle_seq p).
Proof. exact g_cansi_handle_seq_eq. Qed.

(* parse (both loops, byte offsets, the char-wise step) never panics and finds exactly the matches [rf_matches]
   (Proofs/CansiGen.v: a structural function of the text that is left) -- for EVERY byte string *)
Theorem c15_translated_cansi_parse_is_matches : forall text : list N,
  g_cansi_parse text = Some (rf_matches (S (S (length text))) 0 text).
Proof. exact g_cansi_parse_eq. Qed.

(* cansi::v3::categorise_text IS the hand model's one-pass categoriser on every string of UTF-8 shaped chars ... *)
Theorem c15_translated_cansi_categorise_is_model : forall text : list N,
  rf_utf8_ok text -> g_cansi_categorise_text text = Some (rf_categorise text).
Proof. exact g_cansi_categorise_text_eq. Qed.

(* ... which the bytes of every Rust string are (the UTF-8 encoding of any list of code points, Model/Text.v) *)
Theorem c15_translated_cansi_categorise_on_strings : forall w : list N,
  g_cansi_categorise_text (Model.Text.str_bytes w) = Some (rf_categorise (Model.Text.str_bytes w)).
Proof. exact translated_cansi_categorise_is_model. Qed.

(* the pipeline with the translated cansi in front is the hand model [rf_to_roff] of the theorems above *)
Theorem c15_translated_cansi_to_roff_is_model : forall input : list N, rf_utf8_ok input ->
  (cs <- g_cansi_categorise_text input ;; ls <- rf_doc_lines cs ;; Some (rf_render ls)) = rf_to_roff input.
Proof. exact translated_cansi_to_roff_is_model. Qed.

(* BOTH third-party dependencies translated: cansi in front of, roff's renderer behind the lines of anstyle-roff *)
Theorem c15_translated_dependencies_to_roff_is_model : forall input : list N, rf_utf8_ok input ->
  (cs <- g_cansi_categorise_text input ;; ls <- rf_doc_lines cs ;; g_rc_to_roff ls) = rf_to_roff input.
Proof. exact translated_dependencies_to_roff_is_model. Qed.

Theorem c15_translated_pipeline_is_model : forall input : list N, rf_utf8_ok input ->
  g_cansi_categorise_text input = Some (rf_categorise input) /\
  (ls <- g_to_roff input ;; g_rc_to_roff ls) = rf_to_roff input.
Proof. exact translated_pipeline_is_model. Qed.
