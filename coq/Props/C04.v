(* Props/C04.v -- property theorems for C04 (no panic, overflow or memory error on any
   untrusted input).  Only statements, each closed by [exact]; one closed example by
   [vm_compute].

   What is stated here.  Every hand model of this development returns the panic value
   [None] exactly where the Rust code would panic: array index out of bounds, slice
   range, `str` slicing off a character boundary, integer overflow at the Rust width
   (u8 / u16 / i32 arithmetic; `csub`, `cadd`), `unwrap` / `expect` on None,
   `unreachable!`, ArrayVec::push on a full vector.  This file is the list of the public
   entry points that consume terminal output or user-supplied style text, each with the
   theorem that its model NEVER returns [None], for EVERY input (bytes are < 256, the Rust
   type u8; nothing else is assumed unless the comment on the theorem says so), together
   with the preconditions of the `unsafe` blocks:
     - `from_utf8_unchecked` in the text strip adapter (pieces are valid UTF-8 inside
       the input: c04_strip_str_pieces_sound),
     - `transmute` from table nibbles to State / Action in `unpack`
       (c04_state_change_total: only valid discriminants),
     - the MaybeUninit array of OSC slices (the model's osc_params accesses are
       bounds-checked [aget]/[aset] and its slices checked [slice]: covered by
       c04_parser_never_panics; at most 16 fields: c04_parser_limits),
     - `from_utf8_unchecked` on the 19-byte colour DisplayBuffer (c04_display_buffer_bound:
       never more than 19 bytes; its content is ASCII digits and literals, C05).
   Most statements are re-exports of theorems proved for C01-C03, C05, C06, C10-C12, C15,
   C18, C20; new here (Proofs/NoPanic.v): the totality of the whole strip stream /
   AutoStream operation sequences over arbitrary scripted inner writers, of the
   fixed-buffer parser configuration, of the formatter paths, and of the SVG converter.

   PARTIAL.  The theorems are about the MODELS, tied to the code by the correspondence
   runs (debug + release, hostile inputs, every harness; vlib/props/c04.py).  That the
   compiled code has no OTHER source of undefined behaviour -- miscompilation, UB inside
   dependencies, the allocator, stack or heap exhaustion -- is outside a Coq model. *)
From Coq Require Import ZArith NArith List Bool.
From AV Require Import Generated.Table Generated.Style Generated.Render Generated.Palette Generated.ParseCfg
  Spec.Utf8 Spec.Vt Spec.Strip Spec.Sgr Spec.Io Spec.Lossy Spec.StyleRec Spec.Render
  Model.Base Model.Utf8parse Model.Parser Model.Strip Model.Wincon Model.Stream Model.WinconStream
  Model.Lossy Model.Svg Model.Git Model.Ls Model.Roff Model.ParseCfg Model.Render
  Proofs.TableFacts Proofs.ParserSim Proofs.VtLimits Proofs.ParserCor Proofs.StripMachine Proofs.StripSim Proofs.StripStr
  Proofs.StripPieces Proofs.WinconRuns Proofs.WinconConsole Proofs.Stream Proofs.StreamAuto
  Proofs.Lossy Proofs.Git Proofs.LsParse Proofs.Roff Proofs.ParseCfg Proofs.Render Proofs.Svg Proofs.NoPanic.
From AV Require Import Generated.ParserFn Proofs.ParserGen Generated.StripFn Proofs.StripGen Generated.WinconFn Proofs.WinconGen Generated.LossyFn
  Generated.LsFn Generated.GitFn Generated.RoffFn Proofs.NoPanicGen.
From AV Require Import Model.Utf8parse Model.Imp Generated.Utf8parseFn Proofs.Utf8parseGen.
Import ListNotations.
Local Open Scope N_scope.

(* ==== 1. anstyle-parse: Parser::advance, state::state_change ============================ *)

(* the public table lookup is total: `unpack`'s transmute only ever sees the nibbles of
   valid State / Action discriminants (checked for all 16 x 256 entries of the generated
   table) *)
Theorem c04_state_change_total :
  forall s b, b < 256 -> exists s' a, state_change s b = Some (s', a).
Proof. exact state_change_total. Qed.

(* one-shot: for every byte string the model of Parser::advance (bounds-checked params /
   intermediates / osc_params arrays, checked `byte - b'0'` and `len - current_subparams`,
   checked slices of osc_raw) never reaches a panic *)
Theorem c04_parser_never_panics :
  forall bs, Forall (fun b => b < 256) bs -> events_model bs <> None.
Proof. exact parser_never_panics. Qed.

(* incrementally: from EVERY state the parser can be in ([R p s]: related to a state of
   the specification machine by C02's simulation relation; [R parser_new vt_init]), any
   further bytes are processed without panic and leave such a state again *)
Theorem c04_parser_total_from_reachable :
  forall bs p s, Forall (fun b => b < 256) bs -> R p s ->
  exists p', run cfg_default p bs = Some (p', snd (vt_run s bs)) /\ R p' (fst (vt_run s bs)).
Proof. exact run_sim. Qed.

Theorem c04_parser_new_reachable : R parser_new vt_init.
Proof. exact R_init. Qed.

(* the is_full guards: whatever the input, no reported event carries more than 32
   parameter values, 2 intermediates, 16 OSC fields, a value above 65535 *)
Theorem c04_parser_limits :
  forall bs, bytes_ok bs -> exists evs, events_model bs = Some evs /\ Forall event_ok evs.
Proof. exact model_limits. Qed.

(* feature `core` (ArrayVec<u8, cap> for osc_raw) with `utf8`: total for every input and
   every capacity ... *)
Theorem c04_parser_fixed_buffer_total :
  forall cap bs, Forall (fun b => b < 256) bs ->
  exists p e, run (mkCfg (Some cap) true) parser_new bs = Some (p, e).
Proof. exact pc_fixed_total. Qed.

(* ... the buffer never holds more than its capacity, at any prefix of any input
   (conditional on the run answering: it does by the theorem above when `utf8` is on) ... *)
Theorem c04_osc_never_overflows :
  forall cap u bs1 bs2 p' e,
    run (mkCfg (Some cap) u) parser_new (bs1 ++ bs2) = Some (p', e) ->
    exists p1 e1, run (mkCfg (Some cap) u) parser_new bs1 = Some (p1, e1) /\
                  N.of_nat (length (osc_raw p1)) <= cap /\
                  N.of_nat (length (osc_raw p')) <= cap.
Proof. exact pc_osc_never_overflows. Qed.

(* ... and a byte is pushed only while there is room (ArrayVec::push cannot panic) *)
Theorem c04_osc_push_has_room :
  forall cap u p b p' e,
    N.of_nat (length (osc_raw p)) <= cap ->
    perform_action (mkCfg (Some cap) u) p AOscPut b = Some (p', e) ->
    length (osc_raw p') = S (length (osc_raw p)) -> N.of_nat (length (osc_raw p)) < cap.
Proof. exact pc_push_has_room. Qed.

(* NOT total: the configurations WITHOUT the `utf8` feature.  AsciiParser::add is
   `unreachable!`, reached by a byte C2..F4 in Ground; that is the only additional panic
   (documented limit of a non-default configuration: "only allow parsing 7-bit ASCII") *)
Theorem c04_no_utf8_panics_only_on_high_bytes :
  forall cap bs p,
    pstate p <> Utf8 ->
    run (mkCfg cap false) p bs = None -> run (mkCfg cap true) p bs <> None ->
    exists pre b post q e,
      bs = pre ++ b :: post /\ run (mkCfg cap true) p pre = Some (q, e) /\
      pstate q = Ground /\ 194 <= b <= 244.
Proof. exact pc_no_utf8_panic. Qed.

(* ==== 2. anstream::adapter::strip (strip_bytes, strip_str, StripBytes, StripStr) ========= *)

(* one-shot byte adapter, every byte string *)
Theorem c04_strip_bytes_total :
  forall input, Forall (fun b => b < 256) input -> exists out, strip_bytes_model input = Some out.
Proof. exact strip_bytes_model_total. Qed.

(* one-shot text adapter: the model answers for every byte string (the type &str only
   hands it valid UTF-8) *)
Theorem c04_strip_str_total :
  forall input, Forall (fun b => b < 256) input -> exists out, strip_str_model input = Some out.
Proof. exact strip_str_model_total. Qed.

(* the iterators StrippedBytes / StrippedStr drained from ANY scanner state (incremental
   use); the fuel is the loop bound [length input + 1] *)
Theorem c04_strip_bytes_iter_total :
  forall fuel bs off st u,
  (length bs < fuel)%nat -> bytes_ok bs -> exists x, bytes_iter fuel bs off st u = Some x.
Proof. exact bytes_iter_total. Qed.

Theorem c04_strip_str_iter_total :
  forall fuel bs off st,
  (length bs < fuel)%nat -> bytes_ok bs -> exists x, str_iter fuel bs off st = Some x.
Proof. exact str_iter_total. Qed.

(* the last sentence of the property and the `from_utf8_unchecked` obligation of
   next_str: for valid UTF-8 input every returned piece is a non-empty substring of the
   input at the offset it reports, in order, non-overlapping ([pieces_in]), and is valid
   UTF-8 ([pieces_valid]) -- it starts and ends on character boundaries *)
Theorem c04_strip_str_pieces_sound :
  forall input, bytes_ok input -> valid_utf8 input = true ->
  exists ps, strip_str_pieces input = Some ps /\ pieces_in 0 input ps /\ pieces_valid ps.
Proof. exact strip_str_pieces_sound. Qed.

Theorem c04_strip_str_pieces_utf8 :
  forall input ps, bytes_ok input -> valid_utf8 input = true ->
  strip_str_pieces input = Some ps -> pieces_valid ps.
Proof. exact strip_str_pieces_utf8. Qed.

(* the byte adapter's pieces lie inside the input as well (every byte string) *)
Theorem c04_strip_bytes_pieces_inside :
  forall input ps, strip_bytes_pieces input = Some ps -> pieces_in 0 input ps.
Proof. exact strip_bytes_pieces_wf. Qed.

Theorem c04_strip_str_pieces_inside :
  forall input ps, strip_str_pieces input = Some ps -> pieces_in 0 input ps.
Proof. exact strip_str_pieces_wf. Qed.

(* ==== 3. anstream::StripStream / AutoStream (io::Write) ================================== *)

(* EVERY sequence of write / write_all / write_vectored / write_fmt / flush, over EVERY
   scripted inner writer (short writes, Interrupted / WouldBlock / other errors), from
   every reachable stream state ([SInv]; the new stream is one): never a panic -- in
   particular `offset_to(buf, &printable[written..])` never slices past the end when the
   inner writer keeps the Write contract -- and the state stays reachable, also after an
   error.  (NEW: C06 had this per call on the success paths.) *)
Theorem c04_strip_stream_ops_total :
  forall ops s w,
  SInv s -> Forall op_bytes_lt ops -> exists s' w' rs, ss_run s w ops = Some (s', w', rs) /\ SInv s'.
Proof. exact ss_run_total. Qed.

Theorem c04_strip_stream_new_reachable : SInv sb_new.
Proof. exact SInv_new. Qed.

(* AutoStream in either arm (strip / pass-through), vectored writes of either kind *)
Theorem c04_auto_stream_ops_total :
  forall b m ops s w,
  SInv s -> Forall op_bytes_lt ops -> exists s' w' rs, run_ops b m s w ops = Some (s', w', rs) /\ SInv s'.
Proof. exact run_ops_total. Qed.

(* the caller protocol over write (resubmit the tail, retry on Interrupted) terminates
   without panic for every script and buffer *)
Theorem c04_strip_stream_protocol_total :
  forall script buf, bytes_ok buf ->
  exists s' w' r, ss_drive_all script buf = Some (s', w', r) /\
    (exists q, spec_strip buf = w_received w' ++ q /\ (r = ROk -> q = [])) /\
    (forall n, r <> ROkN n).
Proof. exact protocol_delivers_spec_strip. Qed.

(* ==== 4. anstream::adapter::wincon (WinconBytes::extract_next) ============================ *)

(* the SGR decoder never fails: `to_ansi_color(v - 30).expect(..)` sits under the range
   pattern that excludes the failure, `v - 30` cannot underflow there *)
Theorem c04_sgr_dispatch_total :
  forall s ps, exists s', sgr_dispatch s ps = Some s'.
Proof. exact sgr_dispatch_total. Qed.

(* the extractor, from every reachable parser state and ANY capture *)
Theorem c04_extract_next_total :
  forall bs p v c, Forall (fun b => b < 256) bs -> R p v ->
  exists its p' c', extract_next bs p c = Some (its, p', c') /\ (exists v', R p' v').
Proof. exact extract_next_total. Qed.

(* ==== 5. anstream::WinconStream (legacy console) ========================================= *)

Theorem c04_console_stream_ops_total :
  forall ops s c,
  ws_wf s -> Forall op_bytes_lt ops ->
  exists s1 c1 rs, wc_run_ops s c ops = Some (s1, c1, rs) /\ ws_wf s1.
Proof. exact ops_total. Qed.

Theorem c04_console_stream_new_reachable : ws_wf ws_new.
Proof. exact ws_new_wf. Qed.

(* ==== 6. anstyle: DisplayBuffer, Style / Color Display ==================================== *)

(* every colour a Color can hold ([rn_color_wf]: palette index < 16, u8 components), in
   each of the three slots: no store past the end of the buffer and at most
   DISPLAY_BUFFER_CAPACITY = 19 bytes in it *)
Theorem c04_display_buffer_bound :
  forall c, rn_color_wf c ->
  (exists p, rn_color_fg_buffer c = Some p /\ N.of_nat (length p) <= rn_display_buffer_capacity) /\
  (exists p, rn_color_bg_buffer c = Some p /\ N.of_nat (length p) <= rn_display_buffer_capacity) /\
  (exists p, rn_color_ul_buffer c = Some p /\ N.of_nat (length p) <= rn_display_buffer_capacity).
Proof. exact buffer_bound. Qed.

Theorem c04_display_buffer_capacity : rn_display_buffer_capacity = 19.
Proof. vm_compute. reflexivity. Qed.

(* `{}` / `{:#}` with every width, fill, alignment, precision, for every style value
   ([rn_wf]: effect set below 2^12 -- all the public API can build, C13 -- u8 components) *)
Theorem c04_display_total :
  forall alternate flags s, rn_wf (rn_sstyle s) -> exists bs, rn_display alternate flags s = Some bs.
Proof. exact rn_display_total. Qed.

Theorem c04_write_to_total :
  forall s, rn_wf (rn_sstyle s) -> exists bufs, rn_write_to s = Some bufs.
Proof. exact rn_write_to_total. Qed.

(* ==== 7. anstyle-lossy, with ANY palette =================================================== *)

(* no i32 intermediate of `distance` overflows: its value is the red-mean distance,
   which lies in [0, 2^31) ([distance] returns None on any overflow at width i32) *)
Theorem c04_distance_no_overflow :
  forall a b, rgb_ok a -> rgb_ok b ->
    distance a b = Some (Z.to_N (redmean_distance a b)) /\
    (0 <= redmean_distance a b < 2147483648)%Z.
Proof. exact distance_range. Qed.

(* best_index is bounded by the palette length: find_match answers an index < 16 (the
   `expect` on AnsiColor::from_index cannot fail), find_xterm_match an index in 16..255 *)
Theorem c04_find_match_in_range :
  forall p c, palette_ok p -> rgb_ok c ->
    exists i, rgb_to_ansi c p = Some i /\ i < 16 /\ is_argmin_lowest (redmean_distance c) p i.
Proof. exact find_match_argmin. Qed.

Theorem c04_find_xterm_match_in_range :
  forall c, rgb_ok c ->
    exists i, rgb_to_xterm c = Some i /\ 16 <= i < 256 /\
              is_argmin_lowest (redmean_distance c) (skipn 16 xterm_colors) (i - 16).
Proof. exact rgb_to_xterm_argmin. Qed.

(* every public conversion, every colour value, every palette of 16 entries with u8
   components (all-equal, duplicated, extreme entries included): total, results in range *)
Theorem c04_lossy_conversions_total :
  forall col p, color_ok col -> palette_ok p ->
    (exists r, color_to_rgb col p = Some r /\ rgb_ok r) /\
    (exists i, color_to_xterm col = Some i /\ i < 256) /\
    (exists a, color_to_ansi col p = Some a /\ a < 16).
Proof. exact conversions_total. Qed.

(* ==== 8. anstyle-git, anstyle-ls ============================================================ *)

(* every sequence of code points (a Rust &str): `&s[1..]`, `&hex[0..2]` ... never slice
   inside a character (as repaired in 62b35cd: before, "#é1" panicked) *)
Theorem c04_git_no_panic : forall s : list N, git_parse s <> None.
Proof. exact git_no_panic. Qed.

Theorem c04_ls_no_panic : forall s : list N, ls_parse s <> None.
Proof. exact ls_no_panic. Qed.

(* ==== 9. anstyle-roff ======================================================================== *)

(* to_roff(text).to_roff() with cansi 2.2.1 and roff 0.2.1 as transcribed: every input *)
Theorem c04_roff_total : forall input : list N, exists doc, rf_to_roff input = Some doc.
Proof. exact rf_to_roff_total. Qed.

(* ==== 10. anstyle-svg ========================================================================= *)

(* Term::render_svg, every input, every palette and default colours a Term can hold:
   the abstract document exists (color_name's AnsiColor lookup, rgb_value's lossy
   conversion and the span classes never fail, because every colour the extractor
   yields is in range); the printed text [svg_print] is a total function of it.
   (NEW.  unicode_width -- third party -- is not modelled: it enters svg_print as an
   arbitrary function.) *)
Theorem c04_svg_total :
  forall t input,
  palette_ok (svg_t_palette t) -> svg_colour_ok (svg_t_fg t) = true -> svg_colour_ok (svg_t_bg t) = true ->
  Forall (fun b => b < 256) input ->
  exists d, svg_doc t input = Some d.
Proof. exact svg_doc_total. Qed.

(* ==== 11. the same, of the code TRANSLATED from the Rust source ============================
   Generated/*Fn.v is re-written from crates/**.rs on every run (tools/rs2v, DESIGN.md section 12);
   a translated function is [None] exactly where the function as written would panic (index,
   slice range, checked arithmetic, unwrap / expect, loop fuel).  These statements do not go through
   the hand-model tie by correspondence. *)

Theorem c04_translated_parser_never_panics :
  forall bs, Forall (fun b => b < 256) bs -> g_run cfg_default parser_new [] bs <> None.
Proof. exact translated_parser_never_panics. Qed.

Theorem c04_translated_strip_bytes_never_panics :
  forall input, Forall (fun b => b < 256) input -> g_stripped_bytes_into_vec (g_strip_bytes input) <> None.
Proof. exact translated_strip_bytes_never_panics. Qed.

Theorem c04_translated_strip_str_never_panics :
  forall input, Forall (fun b => b < 256) input -> g_strip_str_to_string input <> None.
Proof. exact translated_strip_str_never_panics. Qed.

Theorem c04_translated_extract_next_never_panics :
  forall bs p v c, Forall (fun b => b < 256) bs -> R p v -> g_extract_next bs p c <> None.
Proof. exact translated_extract_next_never_panics. Qed.

Theorem c04_translated_lossy_never_panics :
  forall col p, color_ok col -> palette_ok p ->
  g_color_to_rgb col p <> None /\ g_color_to_xterm col <> None /\ g_color_to_ansi col p <> None.
Proof. exact translated_lossy_never_panics. Qed.

Theorem c04_translated_ls_parse_never_panics : forall s, g_ls_parse s <> None.
Proof. exact translated_ls_parse_never_panics. Qed.

Theorem c04_translated_git_parse_never_panics : forall s, g_git_parse s <> None.
Proof. exact translated_git_parse_never_panics. Qed.

Theorem c04_translated_to_roff_never_panics : forall input, g_to_roff input <> None.
Proof. exact translated_to_roff_never_panics. Qed.

(* ==== non-vacuity: one hostile input through the entry points ================================ *)

(* ESC [ with 34 parameters, among them a 25-digit number, ':' subparameters and a third
   intermediate; an OSC with 18 fields cut by CAN; a truncated 4-byte character followed
   by ESC; a lone continuation byte, an overlong form, FF; DCS ended by SUB; an
   unterminated CSI at the end.  None of the models answers the panic value. *)
Definition c04_hostile : list N :=
  [27; 91] ++ concat (repeat [49; 59] 33) ++ [57; 57; 57; 57; 57; 57; 57; 57; 57; 57; 57; 57; 57; 57; 57; 57; 57; 57; 57; 57; 57; 57; 57; 57; 57;
   58; 58; 51; 32; 33; 34; 109]
  ++ [27; 93] ++ concat (repeat [97; 59] 18) ++ [24]
  ++ [240; 159; 152; 27; 91; 51; 56; 59; 53; 59; 50; 53; 54; 109; 88; 128; 192; 175; 255; 10; 13; 10]
  ++ [27; 80; 49; 59; 50; 124; 0; 65; 26; 226; 130; 172; 27; 91; 52; 56; 59; 50; 59].

Theorem c04_example :
  events_model c04_hostile <> None /\
  strip_bytes_model c04_hostile <> None /\
  strip_str_model c04_hostile <> None /\
  extract_next c04_hostile parser_new capture_default <> None /\
  run (mkCfg (Some 8) true) parser_new c04_hostile <> None /\
  svg_doc svg_term_new c04_hostile <> None /\
  rf_to_roff c04_hostile <> None /\
  ls_parse c04_hostile <> None /\
  git_parse [35; 233; 49; 32; 35; 43; 102; 43; 102; 43; 102; 32; 43; 50; 53; 54; 32; 1114111; 0; 65533] <> None /\
  ss_run sb_new (writer_of [Accept 1; Fail Interrupted; Accept 0; Fail Other])
         [OWrite c04_hostile; OWriteAll c04_hostile; OWriteVectored [[]; c04_hostile]; OWriteFmt [[240; 159]; c04_hostile]; OFlush] <> None.
Proof. vm_compute. repeat split; discriminate. Qed.

(* the third-party decoder `utf8parse`, translated from the registry source of the version Cargo.lock pins
   (Generated/Utf8parseFn.v, tools/gen_fn_utf8parse.py): no step panics (the shifts stay inside the u32), whatever
   the decoder holds and whatever the byte *)
Theorem c04_translated_utf8parse_never_panics :
  forall p r b, g_u8_parser_advance p r b <> None.
Proof. exact translated_advance_never_panics. Qed.

Theorem c04_translated_utf8parse_run_never_panics :
  forall bs p r, g_u8_run p r bs <> None.
Proof. exact translated_run_never_panics. Qed.

(* ... and its one unsafe call, `char::from_u32_unchecked(point)` (read as the identity by the translation), is
   within its contract: every code point a decoder started from Parser::new() hands to its receiver is a Unicode
   scalar value (no surrogate, below 0x110000) *)
Theorem c04_translated_utf8parse_unchecked_char_is_scalar :
  forall bs p r, Forall (fun b => b < 256) bs ->
  g_u8_run g_u8_parser_new [] bs = Some (p, r) -> Forall u8_out_scalar r.
Proof. exact unchecked_char_is_scalar. Qed.
