(* Props/C18.v -- property theorems for C18.  Only statements, each closed by [exact]. *)
From Coq Require Import NArith List Bool.
From AV Require Import Generated.Table Spec.Vt Proofs.TableFacts.
Import ListNotations.
Local Open Scope N_scope.

Theorem c18_table_is_williams :
  forall s b, b < 256 -> trans_matches s b = true.
Proof. exact table_is_williams. Qed.
