(* Props/C18.v -- property theorems for C18 (the legacy-console stream hands over
   each run once with 16-colour fg/bg).  Only statements, each closed by [exact].

   Vocabulary (Proofs/WinconConsole, Proofs/WinconSpecRuns):
     ws_wf s        the stream's parser is in a state the parser can be in (related
                    to a state of the specification machine by C02's simulation
                    relation R); ws_new is, every operation keeps it (also after an
                    error): c18_ops_total
     run_call (style, txt) = mkCC (cap_opt (s_fg style)) (cap_opt (s_bg style))
                                  (str_bytes txt) (inl (length (str_bytes txt)))
     accepted calls        the bytes the console accepted: [firstn n data] of every
                           [inl n] call, in order
     accepted_col calls    the same, every byte with the fg/bg it was written in
     runs_bytes / runs_col the UTF-8 bytes of a run list / with the capped colours
     err_from new k        new = pre ++ [last] and [last] answered [inr k], k not
                           Interrupted, or answered [inl 0] and k = WriteZero
     byte_clean b          b <> 27 /\ (b < 32 -> b = 9 \/ b = 10 \/ b = 12 \/ b = 13) *)
From Coq Require Import NArith List Bool.
From AV Require Import Generated.Table Spec.Utf8 Spec.Vt Spec.Sgr Spec.Io Model.Base Model.Parser
  Model.Wincon Model.Stream Model.WinconStream
  Proofs.TableFacts Proofs.ParserSim Proofs.WinconRuns Proofs.WinconSpecRuns Proofs.WinconConsole Generated.WinconFn Proofs.WinconGen
  Generated.WinconStreamFn Proofs.WinconStreamGen.
Import ListNotations.
Local Open Scope N_scope.

Theorem c18_table_is_williams :
  forall s b, b < 256 -> trans_matches s b = true.
Proof. exact table_is_williams. Qed.

(* write_all over an accept-all console: Ok, and the new console calls are exactly
   the runs extract_next yields for the buffer from the same state -- every run once,
   in order, whole, colours capped *)
Theorem c18_write_all_hands_over :
  forall s buf c,
  ws_wf s -> Forall (fun b => b < 256) buf -> con_script c = [] ->
  exists its p' cap',
    extract_next buf (ws_parser s) (ws_capture s) = Some (its, p', cap') /\
    wc_write_all s buf c
      = Some (mkWS p' cap', mkCon [] (con_calls c ++ map run_call its) (con_flushes c), ROk).
Proof. exact write_all_hands_over. Qed.

(* write_all over ANY console script: total (never a panic); on Ok the bytes the
   console accepted, in order and each with the colours it was written in, are the
   bytes of the runs with their capped colours (short writes are completed, nothing
   is repeated or dropped); on Err k they are a prefix of that and k comes from the
   console's last answer (or is WriteZero after an accepted count of 0) *)
Theorem c18_write_all_scripted :
  forall s buf c,
  ws_wf s -> Forall (fun b => b < 256) buf ->
  exists its p' cap' s1 c1 r new,
    extract_next buf (ws_parser s) (ws_capture s) = Some (its, p', cap') /\
    wc_write_all s buf c = Some (s1, c1, r) /\
    con_calls c1 = con_calls c ++ new /\ con_flushes c1 = con_flushes c /\
    ((r = ROk /\ s1 = mkWS p' cap' /\ accepted_col new = runs_col its /\ accepted new = runs_bytes its)
     \/ (exists k, r = RErr k /\
           (exists rest, accepted_col new ++ rest = runs_col its) /\
           (exists rest, accepted new ++ rest = runs_bytes its) /\
           err_from new k)).
Proof. exact write_all_scripted. Qed.

(* the retry loop of one run: every call carries the run's colours and a suffix of
   its bytes; accepted bytes = the run (Ok) or a prefix (Err) *)
Theorem c18_run_loop :
  forall fuel c fg bg buf,
  (length (con_script c) < fuel)%nat ->
  exists new,
    con_calls (fst (wc_run_loop fuel c fg bg buf)) = con_calls c ++ new /\
    con_flushes (fst (wc_run_loop fuel c fg bg buf)) = con_flushes c /\
    (length (con_script (fst (wc_run_loop fuel c fg bg buf))) <= length (con_script c))%nat /\
    Forall (fun cc => cc_fg cc = fg /\ cc_bg cc = bg /\ exists pre, buf = pre ++ cc_data cc) new /\
    match snd (wc_run_loop fuel c fg bg buf) with
    | inl _ => accepted new = buf
    | inr k => (exists rest, accepted new ++ rest = buf) /\ err_from new k
    end.
Proof. exact run_loop_spec. Qed.

(* write reports Ok(len buf) -- and then all of buf's text was handed over -- or an
   error; never a partial count *)
Theorem c18_write_reports_all_or_error :
  forall s buf c,
  ws_wf s -> Forall (fun b => b < 256) buf ->
  exists its p' cap' s1 c1 r new,
    extract_next buf (ws_parser s) (ws_capture s) = Some (its, p', cap') /\
    wc_write s buf c = Some (s1, c1, r) /\
    con_calls c1 = con_calls c ++ new /\
    ((r = ROkN (N.of_nat (length buf)) /\ s1 = mkWS p' cap' /\
      accepted_col new = runs_col its /\ accepted new = runs_bytes its)
     \/ (exists k, r = RErr k /\ (exists rest, accepted new ++ rest = runs_bytes its) /\ err_from new k)).
Proof. exact write_reports_all_or_error. Qed.

Theorem c18_write_never_partial :
  forall s buf c s1 c1 n,
  ws_wf s -> Forall (fun b => b < 256) buf ->
  wc_write s buf c = Some (s1, c1, ROkN n) -> n = N.of_nat (length buf).
Proof. exact write_never_partial. Qed.

(* colours are capped to the 16-colour palette *)
Theorem c18_cap_colour :
  (forall a, cap_wincon_color (CAnsi a) = Some a) /\
  (forall i, i < 16 -> cap_wincon_color (CIdx i) = Some i) /\
  (forall i, 16 <= i -> cap_wincon_color (CIdx i) = None) /\
  (forall r g b, cap_wincon_color (CRgb r g b) = None).
Proof. exact cap_colour. Qed.

(* no byte of a run's text is ESC, and every byte below 0x20 is TAB, LF, FF or CR:
   the text consists of code points the parser printed (>= 0x20 from Ground, a
   well-formed multi-byte character >= 0x80, or U+FFFD) and whitespace executes;
   for any input *)
Theorem c18_no_escape_bytes :
  forall input, Forall (fun b => b < 256) input ->
  exists its p c,
    extract_next input parser_new capture_default = Some (its, p, c) /\
    Forall (fun r => Forall byte_clean (str_bytes (snd r))) its.
Proof. exact no_escape_bytes. Qed.

(* ... hence whatever operations are applied to a new stream over whatever console
   script, every byte of every write_colored call is clean *)
Theorem c18_no_escape_stream :
  forall script ops s1 c1 rs,
  Forall op_bytes_lt ops ->
  wc_run_ops ws_new (console_of script) ops = Some (s1, c1, rs) ->
  Forall (fun cc => Forall byte_clean (cc_data cc)) (con_calls c1).
Proof. exact stream_no_escape. Qed.

(* no sequence of operations panics, and the state stays well-formed *)
Theorem c18_ops_total :
  forall ops s c,
  ws_wf s -> Forall op_bytes_lt ops ->
  exists s1 c1 rs, wc_run_ops s c ops = Some (s1, c1, rs) /\ ws_wf s1.
Proof. exact ops_total. Qed.

(* write_vectored = write of the first non-empty buffer *)
Theorem c18_vectored :
  forall s c bufs, wc_op s c (OWriteVectored bufs) = wc_write s (first_nonempty bufs) c.
Proof. exact vectored_is_write. Qed.

(* write_fmt = write_all of the fragments one after the other, stopping at the first
   error ... *)
Theorem c18_write_fmt :
  forall frags s c, wc_write_fmt s frags c = write_all_seq s frags c.
Proof. exact write_fmt_is_seq. Qed.

(* ... and over an accept-all console, from a state without pending text, it hands
   over the runs of the fragments, one call each, which as coloured bytes is what
   write_all of the concatenation hands over (with C03's chunking theorem) *)
Theorem c18_write_fmt_hands_over :
  forall frags s c,
  ws_wf s -> c_printable (ws_capture s) = [] -> c_ready (ws_capture s) = None ->
  Forall (fun b => b < 256) (concat frags) -> con_script c = [] ->
  exists itss its p' cap' c1,
    extract_chunks frags (ws_parser s) (ws_capture s) = Some (itss, p', cap') /\
    extract_next (concat frags) (ws_parser s) (ws_capture s) = Some (its, p', cap') /\
    wc_write_fmt s frags c = Some (mkWS p' cap', c1, ROk) /\
    con_calls c1 = con_calls c ++ map run_call (concat itss) /\
    accepted_col (map run_call (concat itss)) = runs_col its.
Proof. exact write_fmt_hands_over. Qed.

Theorem c18_ws_new_wf : ws_wf ws_new.
Proof. exact ws_new_wf. Qed.

(* non-vacuity: "hello ESC[31m world" with the script [Accept 2]: the first run needs
   two calls (2 bytes, then the remaining 4 with the script exhausted), the second
   run goes out in red *)
Theorem c18_example :
  exists s1,
  wc_write_all ws_new [104; 101; 108; 108; 111; 32; 27; 91; 51; 49; 109; 32; 119; 111; 114; 108; 100]
               (console_of [Accept 2])
  = Some (s1,
          mkCon [] [mkCC None None [104; 101; 108; 108; 111; 32] (inl 2);
                    mkCC None None [108; 108; 111; 32] (inl 4);
                    mkCC (Some 1) None [32; 119; 111; 114; 108; 100] (inl 6)] 0,
          ROk).
Proof. vm_compute. eexists. reflexivity. Qed.

(* ---- the tie by translation --------------------------------------------------------- *)

(* WinconStream pulls its runs with next_bytes (Model/WinconStream: wincon_next); the function
   translated from the Rust source (Generated/WinconFn.g_next_bytes, tools/gen_fn_wincon.py) is
   that model, up to the order of the result components ([next_shape]), panics included *)
Theorem c18_translated_next_bytes_is_model :
  forall bs p c, g_next_bytes bs p c = next_shape (wincon_next bs p c).
Proof. exact g_next_bytes_eq. Qed.

Theorem c18_translated_extract_next_is_model :
  forall bs p c, g_extract_next bs p c = extract_next bs p c.
Proof. exact translated_extract_next_is_model. Qed.

(* the iterator glue is translated too: `WinconBytes::new` (a derived Default) is the hand model's initial state, and
   new().extract_next(bytes).collect() written over the TRANSLATED `extract_next` / `WinconBytesIter::next`
   ([gt_extract_next]: reset the capture, copy parser and capture into the iterator, drain it, carry what it leaves) is the
   drive above *)
Theorem c18_translated_wincon_bytes_new : g_wb_new = mkWB parser_new capture_default.
Proof. exact g_wb_new_eq. Qed.

Theorem c18_translated_extract_next_drive :
  forall bs wb,
  gt_extract_next bs wb =
  match g_extract_next bs (wb_parser wb) (wb_capture wb) with
  | Some (its, p, c) => Some (its, mkWB p c)
  | None => None
  end.
Proof. exact gt_extract_next_eq. Qed.

Theorem c18_translated_new_extract_next_is_model :
  forall bs,
  gt_extract_next bs g_wb_new =
  match extract_next bs parser_new capture_default with
  | Some (its, p, c) => Some (its, mkWB p c)
  | None => None
  end.
Proof. exact translated_wb_extract_next_is_model. Qed.

(* ---- the Rust functions themselves -----------------------------------------------------
   Generated/WinconStreamFn.v is the TRANSLATION (tools/rs2v, tools/gen_fn_stream.py) of
   cap_wincon_color / write_all / write / write_fmt of crates/anstream/src/wincon.rs and of the
   `impl io::Write for WinconStream` methods that delegate to them, regenerated from the
   working tree on every run.  The translated code computes exactly what the hand model -- the
   subject of every theorem above -- computes (wconv_n / wconv_u only reorder the result triple
   and rename io::Result to sres).  (The console, extract_next and the anstyle accessors are vocabulary:
   see tools/gen_fn_stream.py; write_vectored and fmt::Adapter (Generated/FmtFn.v, Props/C06.v
   c06_translated_adapter_is_model) are translated too.) *)
Theorem c18_translated_cap_wincon_color_is_model :
  forall c, g_cap_wincon_color c = Some (cap_wincon_color c).
Proof. exact g_cap_wincon_color_eq. Qed.

Theorem c18_translated_write_all_is_model :
  forall raw s buf, wconv_u (g_wc_write_all raw s buf) = wc_write_all s buf raw.
Proof. exact g_wc_write_all_eq. Qed.

Theorem c18_translated_write_is_model :
  forall raw s buf, wconv_n (g_wc_write raw s buf) = wc_write s buf raw.
Proof. exact g_wc_write_eq. Qed.

Theorem c18_translated_write_fmt_is_model :
  forall raw s frags, wconv_u (g_wc_write_fmt raw s frags) = wc_write_fmt s frags raw.
Proof. exact g_wc_write_fmt_eq. Qed.

(* the Write methods of WinconStream { raw, state }, any operation sequence *)
Theorem c18_translated_stream_is_model :
  forall ops x,
  match g_wcs_run x ops with Some (x1, rs) => Some (wcs_state x1, wcs_raw x1, rs) | None => None end
  = wc_run_ops (wcs_state x) (wcs_raw x) ops.
Proof. exact translated_wincon_stream_is_model. Qed.

(* the constructors / accessors of WinconStream are translated too (Generated/WinconStreamFn.v): `new` starts from the
   initial state, which is the TRANSLATED `WinconBytes::new` (c18_translated_wincon_bytes_new); a stream made by `new`,
   driven by any operations and taken apart with `into_inner` is the hand model run from its initial state ... *)
Theorem c18_translated_new_run_into_inner : forall cf raw ops,
  match g_wcs_run (g_wcs_new cf raw) ops with
  | Some (x1, rs) => Some (wcs_state x1, g_wcs_into_inner cf x1, rs)
  | None => None
  end = wc_run_ops ws_new raw ops.
Proof. exact translated_wincon_new_run_into_inner. Qed.

Theorem c18_translated_initial_state_is_new : ws_new = mkWS (wb_parser g_wb_new) (wb_capture g_wb_new).
Proof. exact ws_new_is_translated_new. Qed.

(* ... and `lock` (Stdout and Stderr) hands the state at the time of the call to the locked stream: operations, lock, more
   operations = the same operations without the lock *)
Theorem c18_translated_lock_preserves_state : forall cf x ops1 ops2,
  match g_wcs_run x ops1 with
  | Some (x1, rs1) =>
      match g_wcs_run (g_wcs_lock_stdout cf x1) ops2 with Some (x2, rs2) => Some (x2, rs1 ++ rs2) | None => None end
  | None => None
  end = g_wcs_run x (ops1 ++ ops2) /\
  match g_wcs_run x ops1 with
  | Some (x1, rs1) =>
      match g_wcs_run (g_wcs_lock_stderr cf x1) ops2 with Some (x2, rs2) => Some (x2, rs1 ++ rs2) | None => None end
  | None => None
  end = g_wcs_run x (ops1 ++ ops2).
Proof. exact translated_wincon_lock_preserves_state. Qed.

Theorem c18_translated_is_terminal : forall cf x, g_wcs_is_terminal cf x = ac_tty cf.
Proof. exact g_wcs_is_terminal_eq. Qed.

(* WinconStream::write_vectored, TRANSLATED: the translated `write` on the hand model's first_nonempty *)
Theorem c18_translated_write_vectored_is_first_nonempty :
  forall x bufs, g_wcs_write_vectored x bufs = g_wcs_write x (first_nonempty bufs).
Proof. exact g_wcs_write_vectored_first. Qed.
