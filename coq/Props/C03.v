(* Props/C03.v -- property theorems for C03 (incremental processing equals one-shot
   processing for every chunking).  Only statements, each closed by [exact]. *)
From Coq Require Import NArith List Bool.
From AV Require Import Generated.Table Spec.Utf8 Spec.Vt Spec.Strip Spec.Sgr Model.Base Model.Utf8parse Model.Parser Model.Strip
  Model.Wincon Proofs.TableFacts Proofs.ParserSim Proofs.StripMachine Proofs.StripSim Proofs.StripStr Proofs.WinconRuns
  Generated.StripFn Proofs.StripGen Generated.WinconFn Proofs.WinconGen.
From AV Require Import Spec.Io Model.Stream Generated.StreamFn Proofs.StreamGen.
From AV Require Import Model.Utf8parse Model.Imp Generated.Utf8parseFn Proofs.Utf8parseGen.
Import ListNotations.
Local Open Scope N_scope.

(* byte API: for EVERY list of chunks (cuts anywhere: inside a sequence, inside a
   character), feeding them through StripBytes never panics, the concatenated
   output equals the specification of the concatenated input and the one-shot
   result, and the state carried after the last chunk is the one-shot state *)
Theorem c03_strip_bytes_chunked :
  forall chunks, bytes_ok (concat chunks) ->
  exists pss st u,
    strip_bytes_chunks chunks Ground u8_new = Some (pss, st, u) /\
    concat (map (fun ps => concat (map p_bytes ps)) pss) = spec_strip (concat chunks) /\
    Some (concat (map (fun ps => concat (map p_bytes ps)) pss)) = strip_bytes_model (concat chunks) /\
    exists ps1, strip_next_bytes (concat chunks) Ground u8_new = Some (ps1, [], st, u).
Proof. exact strip_bytes_chunked. Qed.

(* text API: every list of chunks that are each valid UTF-8 (cuts at character
   boundaries, possibly inside an escape sequence) *)
Theorem c03_strip_str_chunked :
  forall chunks, bytes_ok (concat chunks) -> Forall (fun c => valid_utf8 c = true) chunks ->
  exists pss st,
    strip_str_chunks chunks Ground = Some (pss, st) /\
    concat (map (fun ps => concat (map p_bytes ps)) pss) = spec_strip (concat chunks) /\
    Some (concat (map (fun ps => concat (map p_bytes ps)) pss)) = strip_str_model (concat chunks).
Proof. exact strip_str_chunked. Qed.

(* the scanner machines are folds: run (a ++ b) = run (run a) b *)
Theorem c03_machine_is_fold :
  forall a b st u st1 u1 o1,
  mrun st u a = Some (st1, u1, o1) ->
  mrun st u (a ++ b) =
    match mrun st1 u1 b with
    | Some (st2, u2, o2) => Some (st2, u2, o1 ++ o2)
    | None => None
    end.
Proof. exact mrun_app. Qed.

(* each incremental iterator leaves exactly the fold state behind *)
Theorem c03_iterator_leaves_fold_state :
  forall fuel bs off st u ps bs' st' u',
  (length bs < fuel)%nat -> bytes_ok bs -> Inv st u ->
  bytes_iter fuel bs off st u = Some (ps, bs', st', u') ->
  bs' = [] /\ mrun st u bs = Some (st', u', concat (map p_bytes ps)).
Proof. exact bytes_iter_spec. Qed.

(* non-vacuity: a sequence cut in the middle, and a character cut in the middle *)
Theorem c03_example :
  exists pss st u,
    strip_bytes_chunks [[97; 27; 91]; [51; 50; 109; 226; 130]; [172; 98]] Ground u8_new = Some (pss, st, u) /\
    concat (map (fun ps => concat (map p_bytes ps)) pss) = [97; 226; 130; 172; 98].
Proof. vm_compute. eauto. Qed.

(* ---- the styled-run extractor (wincon adapter) ------------------------------------ *)

(* for EVERY list of chunks (no grammar hypothesis; cuts anywhere): feeding them
   through WinconBytes::extract_next chunk by chunk never panics and yields, after
   flattening the runs to tagged characters ([flatten : list (sstyle * list N) ->
   list (sstyle * N)]), the same list as handing the whole input over at once; the
   parser state and the capture carried after the last chunk are the one-shot
   ones; no run is empty, hence the merged runs are equal too.  Both sides equal
   the tagging obtained by folding the capture over the parser's event stream
   (c03_wincon_extractor_is_fold): the extractor only decides where runs are cut. *)
Theorem c03_wincon_chunked :
  forall chunks, Forall (fun b => b < 256) (concat chunks) ->
  exists itss its p c,
    extract_chunks chunks parser_new capture_default = Some (itss, p, c) /\
    extract_next (concat chunks) parser_new capture_default = Some (its, p, c) /\
    flatten (concat itss) = flatten its /\
    Forall (fun r => snd r <> []) (concat itss) /\ Forall (fun r => snd r <> []) its /\
    merge_runs (concat itss) = merge_runs its.
Proof. exact wincon_chunked. Qed.

(* the same from any parser state the parser can be in (R: C02's simulation
   relation) and any capture without pending text *)
Theorem c03_wincon_chunked_from :
  forall chunks p v c,
  Forall (fun b => b < 256) (concat chunks) -> R p v -> c_printable c = [] -> c_ready c = None ->
  exists itss its p' c',
    extract_chunks chunks p c = Some (itss, p', c') /\
    extract_next (concat chunks) p c = Some (its, p', c') /\
    flatten (concat itss) = flatten its /\
    merge_runs (concat itss) = merge_runs its.
Proof. exact wincon_chunked_from. Qed.

(* the characterisation behind it: one call of extract_next yields, flattened, the
   pending text followed by the characters pushed by the events of the input, each
   tagged with the capture's style at the time it was pushed ([tags]); it leaves
   the parser state of the fold [run] and the style of the fold [style_after] *)
Theorem c03_wincon_extractor_is_fold :
  forall bs p v c,
  Forall (fun b => b < 256) bs -> R p v ->
  exists its p',
    extract_next bs p c
      = Some (its, p', mkCap (style_after (c_style c) (snd (vt_run v bs))) [] None) /\
    run cfg_default p bs = Some (p', snd (vt_run v bs)) /\ R p' (fst (vt_run v bs)) /\
    flatten its = pend0 c ++ tags (c_style c) (snd (vt_run v bs)) /\
    Forall (fun r => snd r <> []) its.
Proof. exact extract_next_spec. Qed.

(* merging neighbouring runs of equal style is a function of the flattening *)
Theorem c03_merge_is_function_of_flattening :
  forall rs, Forall (fun r => snd r <> []) rs -> merge_runs rs = group_runs (flatten rs).
Proof. exact merge_is_group. Qed.

(* the SGR decoder never fails (the `expect` in to_ansi_color sits under a guard
   that excludes it), so the extractor's only source of [None] is the parser *)
Theorem c03_sgr_dispatch_total :
  forall s ps, exists s', sgr_dispatch s ps = Some s'.
Proof. exact sgr_dispatch_total. Qed.

(* non-vacuity: "a ESC[31m b c ESC[0m d" cut inside the first sequence and between
   b and c: four runs chunked, three one-shot, the same after merging *)
Theorem c03_example_wincon :
  exists itss its p c,
    extract_chunks [[97; 27; 91; 51]; [49; 109; 98]; [99; 27; 91; 48; 109; 100]] parser_new capture_default
      = Some (itss, p, c) /\
    extract_next [97; 27; 91; 51; 49; 109; 98; 99; 27; 91; 48; 109; 100] parser_new capture_default
      = Some (its, p, c) /\
    length (concat itss) = 4%nat /\ length its = 3%nat /\
    merge_runs (concat itss) = merge_runs its /\
    merge_runs its = [(style_default, [97]); (mkStyle (Some (CAnsi 1)) None None 0, [98; 99]); (style_default, [100])].
Proof. vm_compute. do 4 eexists. repeat split; reflexivity. Qed.

(* ---- the tie by translation (strip scanners) ---------------------------------------- *)

(* Generated/StripFn.v (tools/gen_fn_strip.py, rewritten on every run) holds the translations of the
   incremental iterators' `next` methods (StripStrIter, StripBytesIter) and of the scanners below
   them.  Feeding chunks through them -- [g_bytes_chunks] / [g_str_chunks]: `strip_next` (it returns a
   struct holding `&mut self.state`; translated too, see c03_translated_strip_next below) copies the carried
   state in, the drained iterator leaves the new one -- computes exactly what the hand model computes. *)
Theorem c03_translated_bytes_iter_next_is_model :
  forall it off, g_strip_bytes_iter_next it = bytes_next_result (next_bytes (bi_bytes it) off (bi_state it) (bi_utf8 it)).
Proof. exact g_strip_bytes_iter_next_eq. Qed.

Theorem c03_translated_str_iter_next_is_model :
  forall it off, g_strip_str_iter_next it = str_next_result (next_str (si_bytes it) off (si_state it)).
Proof. exact g_strip_str_iter_next_eq. Qed.

Theorem c03_translated_bytes_chunks_is_model :
  forall chunks st u,
  g_bytes_chunks chunks st u =
  match strip_bytes_chunks chunks st u with
  | Some (pss, st', u') => Some (map (map p_bytes) pss, st', u')
  | None => None
  end.
Proof. exact g_bytes_chunks_is_model. Qed.

Theorem c03_translated_str_chunks_is_model :
  forall chunks st,
  g_str_chunks chunks st =
  match strip_str_chunks chunks st with
  | Some (pss, st') => Some (map (map p_bytes) pss, st')
  | None => None
  end.
Proof. exact g_str_chunks_is_model. Qed.

(* hence the translated incremental code refines the specification and agrees with the
   translated one-shot code *)
Theorem c03_translated_bytes_chunks_refine_spec :
  forall chunks, bytes_ok (concat chunks) ->
  exists pss st u,
    g_bytes_chunks chunks Ground u8_new = Some (pss, st, u) /\
    concat (map (@concat N) pss) = spec_strip (concat chunks) /\
    Some (concat (map (@concat N) pss)) = g_stripped_bytes_into_vec (g_strip_bytes (concat chunks)).
Proof. exact translated_bytes_chunks_refine_spec. Qed.

Theorem c03_translated_str_chunks_refine_spec :
  forall chunks, bytes_ok (concat chunks) -> Forall (fun c => valid_utf8 c = true) chunks ->
  exists pss st,
    g_str_chunks chunks Ground = Some (pss, st) /\
    concat (map (@concat N) pss) = spec_strip (concat chunks) /\
    Some (concat (map (@concat N) pss)) = g_strip_str_to_string (concat chunks).
Proof. exact translated_str_chunks_refine_spec. Qed.

(* `StripStr::new` / `StripBytes::new` (a derived Default: every field's default), `strip_next` and
   `StrippedBytes::{is_empty, extend}` are translated too: the initial states are the hand model's, `strip_next`
   copies the carried state into an iterator over the bytes handed in ... *)
Theorem c03_translated_new_is_initial :
  g_strip_str_new = Ground /\ g_strip_bytes_new = mkStripBytesSt Ground u8_new.
Proof. exact (conj g_strip_str_new_eq g_strip_bytes_new_eq). Qed.

Theorem c03_translated_strip_next :
  (forall s c, g_strip_str_strip_next s c = (s, mkStrIt c s)) /\
  (forall s c, g_strip_bytes_strip_next s c = (s, mkBytesIt c (sbs_state s) (sbs_utf8 s))).
Proof. exact (conj g_strip_str_strip_next_eq g_strip_bytes_strip_next_eq). Qed.

Theorem c03_translated_stripped_bytes_extend :
  forall it bs, g_stripped_bytes_extend it bs =
  match bi_bytes it with [] => Some (mkBytesIt bs (bi_state it) (bi_utf8 it)) | _ => None end.
Proof. exact g_stripped_bytes_extend_eq. Qed.

(* ... and the chunked drive written over them ([gt_*_chunks]: new, then per chunk strip_next, drain, carry the
   state the iterator leaves) is the drive above, hence refines the specification from `new()` on *)
Theorem c03_translated_str_drive_is_model : forall chunks s, gt_str_chunks chunks s = g_str_chunks chunks s.
Proof. exact gt_str_chunks_eq. Qed.

Theorem c03_translated_bytes_drive_is_model : forall chunks s,
  gt_bytes_chunks chunks s =
  match g_bytes_chunks chunks (sbs_state s) (sbs_utf8 s) with
  | Some (pss, st, u) => Some (pss, mkStripBytesSt st u)
  | None => None
  end.
Proof. exact gt_bytes_chunks_eq. Qed.

Theorem c03_translated_str_new_chunks_refine_spec :
  forall chunks, bytes_ok (concat chunks) -> Forall (fun c => valid_utf8 c = true) chunks ->
  exists pss st,
    gt_str_chunks chunks g_strip_str_new = Some (pss, st) /\
    concat (map (@concat N) pss) = spec_strip (concat chunks).
Proof. exact translated_str_new_chunks_refine_spec. Qed.

Theorem c03_translated_bytes_new_chunks_refine_spec :
  forall chunks, bytes_ok (concat chunks) ->
  exists pss s,
    gt_bytes_chunks chunks g_strip_bytes_new = Some (pss, s) /\
    concat (map (@concat N) pss) = spec_strip (concat chunks).
Proof. exact translated_bytes_new_chunks_refine_spec. Qed.

(* ---- the tie by translation (wincon extractor) ---------------------------------------- *)

(* the functions translated from crates/anstream/src/adapter/wincon.rs (Generated/WinconFn.v,
   tools/gen_fn_wincon.py), called chunk by chunk, compute what the hand model computes ... *)
Theorem c03_translated_wincon_chunks_is_model :
  forall chunks p c, g_extract_chunks chunks p c = extract_chunks chunks p c.
Proof. exact translated_extract_chunks_is_model. Qed.

(* ... hence chunking does not change what the translated code yields *)
Theorem c03_translated_wincon_chunked :
  forall chunks, Forall (fun b => b < 256) (concat chunks) ->
  exists itss its p c,
    g_extract_chunks chunks parser_new capture_default = Some (itss, p, c) /\
    g_extract_next (concat chunks) parser_new capture_default = Some (its, p, c) /\
    flatten (concat itss) = flatten its /\
    merge_runs (concat itss) = merge_runs its.
Proof. exact translated_wincon_chunked. Qed.

(* the strip stream fed chunk by chunk: the translated functions of crates/anstream/src/strip.rs are the
   stream model, for any operation sequence (hence for write_all per chunk) *)
Theorem c03_translated_stream_is_model :
  forall b ops x,
  match g_ss_run x ops with Some (x1, rs) => Some (ss_state x1, ss_raw x1, rs) | None => None end
  = run_ops b MStrip (ss_state x) (ss_raw x) ops.
Proof. exact translated_stream_is_model. Qed.

(* ==== the third-party decoder `utf8parse` ====================================================
   Generated/Utf8parseFn.v is written on every run by tools/gen_fn_utf8parse.py from the registry
   source of the `utf8parse` version <repo>/Cargo.lock pins (the unpacked source is compared with the
   archive whose sha256 is the lock file's checksum, and with what `cargo metadata` says the harness
   crates build).  `State::advance`, `Parser::{new, perform_action, advance}` and the derived Default
   are the hand model Model/Utf8parse.v -- the decoder every theorem above goes through -- for EVERY
   state, accumulated code point and byte.  A `Receiver` is the list of calls it gets. *)
Theorem c03_translated_utf8parse_advance :
  forall p r b, g_u8_parser_advance p r b =
    Some (fst (u8_parser_advance p b), r ++ u8_events (snd (u8_parser_advance p b))).
Proof. exact g_u8_parser_advance_eq. Qed.

(* the decoder carried from one chunk to the next: a byte string through the translated decoder *)
Theorem c03_translated_utf8parse_run :
  forall bs p r, g_u8_run p r bs = Some (fst (u8_model_run p bs), r ++ snd (u8_model_run p bs)).
Proof. exact translated_run_is_model. Qed.
