(* Props/C03.v -- property theorems for C03 (incremental processing equals one-shot
   processing for every chunking).  Only statements, each closed by [exact]. *)
From Coq Require Import NArith List Bool.
From AV Require Import Generated.Table Spec.Utf8 Spec.Vt Spec.Strip Model.Base Model.Utf8parse Model.Parser Model.Strip
  Proofs.TableFacts Proofs.StripMachine Proofs.StripSim Proofs.StripStr.
Import ListNotations.
Local Open Scope N_scope.

(* byte API: for EVERY list of chunks (cuts anywhere: inside a sequence, inside a
   character), feeding them through StripBytes never panics, the concatenated
   output equals the specification of the concatenated input and the one-shot
   result, and the state carried after the last chunk is the one-shot state *)
Theorem c03_strip_bytes_chunked :
  forall chunks, bytes_ok (concat chunks) ->
  exists pss st u,
    strip_bytes_chunks chunks Ground u8_new = Some (pss, st, u) /\
    concat (map (fun ps => concat (map p_bytes ps)) pss) = spec_strip (concat chunks) /\
    Some (concat (map (fun ps => concat (map p_bytes ps)) pss)) = strip_bytes_model (concat chunks) /\
    exists ps1, strip_next_bytes (concat chunks) Ground u8_new = Some (ps1, [], st, u).
Proof. exact strip_bytes_chunked. Qed.

(* text API: every list of chunks that are each valid UTF-8 (cuts at character
   boundaries, possibly inside an escape sequence) *)
Theorem c03_strip_str_chunked :
  forall chunks, bytes_ok (concat chunks) -> Forall (fun c => valid_utf8 c = true) chunks ->
  exists pss st,
    strip_str_chunks chunks Ground = Some (pss, st) /\
    concat (map (fun ps => concat (map p_bytes ps)) pss) = spec_strip (concat chunks) /\
    Some (concat (map (fun ps => concat (map p_bytes ps)) pss)) = strip_str_model (concat chunks).
Proof. exact strip_str_chunked. Qed.

(* the scanner machines are folds: run (a ++ b) = run (run a) b *)
Theorem c03_machine_is_fold :
  forall a b st u st1 u1 o1,
  mrun st u a = Some (st1, u1, o1) ->
  mrun st u (a ++ b) =
    match mrun st1 u1 b with
    | Some (st2, u2, o2) => Some (st2, u2, o1 ++ o2)
    | None => None
    end.
Proof. exact mrun_app. Qed.

(* each incremental iterator leaves exactly the fold state behind *)
Theorem c03_iterator_leaves_fold_state :
  forall fuel bs off st u ps bs' st' u',
  (length bs < fuel)%nat -> bytes_ok bs -> Inv st u ->
  bytes_iter fuel bs off st u = Some (ps, bs', st', u') ->
  bs' = [] /\ mrun st u bs = Some (st', u', concat (map p_bytes ps)).
Proof. exact bytes_iter_spec. Qed.

(* non-vacuity: a sequence cut in the middle, and a character cut in the middle *)
Theorem c03_example :
  exists pss st u,
    strip_bytes_chunks [[97; 27; 91]; [51; 50; 109; 226; 130]; [172; 98]] Ground u8_new = Some (pss, st, u) /\
    concat (map (fun ps => concat (map p_bytes ps)) pss) = [97; 226; 130; 172; 98].
Proof. vm_compute. eauto. Qed.
