(* Props/C02.v -- property theorems for C02 (the parser reports exactly the events
   of the VT500 state machine).  Only statements, each closed by [exact]. *)
From Coq Require Import NArith List Bool.
From AV Require Import Generated.Table Spec.Utf8 Spec.Vt Model.Base Model.Parser Proofs.TableFacts
  Proofs.VtFacts Proofs.ParserSim Proofs.VtLimits Proofs.VtCancel Proofs.VtCsi Proofs.ParserCor
  Model.Imp Model.Utf8parse Generated.ParserFn Proofs.ParserGen Proofs.ParserGen2.
From AV Require Import Model.Utf8parse Model.Imp Generated.Utf8parseFn Proofs.Utf8parseGen.
Import ListNotations.
Local Open Scope N_scope.

(* the generated 16x256 table is, entry by entry, Williams' diagram with the four
   documented deviations (Spec/Vt.vt_trans) -- complete enumeration, no sample *)
Theorem c02_table_is_williams :
  forall s b, b < 256 -> trans_matches s b = true.
Proof. exact table_is_williams. Qed.

(* unpack never sees an invalid discriminant *)
Theorem c02_state_change_total :
  forall s b, b < 256 -> exists s' a, state_change s b = Some (s', a).
Proof. exact state_change_total. Qed.

(* ---- 1. refinement ---------------------------------------------------------- *)

(* for every byte stream the model of Parser::advance (arrays with bounds-checked
   writes, checked subtractions, fuelled ParamsIter, the utf8parse automaton with
   its bit-level code-point accumulation) reports exactly the callbacks of the
   independent specification, in the same order with the same arguments; in
   particular it never reaches a panic ([None]).  Proved by a simulation relation
   (Proofs/ParserSim.R) and the table theorem above -- full strength, no gap. *)
Theorem c02_parser_refines_spec :
  forall bs, Forall (fun b => b < 256) bs -> events_model bs = Some (spec_events bs).
Proof. exact parser_refines_spec. Qed.

Theorem c02_parser_never_panics :
  forall bs, Forall (fun b => b < 256) bs -> events_model bs <> None.
Proof. exact parser_never_panics. Qed.

(* the simulation step behind it: one call of advance against one spec step *)
Theorem c02_advance_simulates_step :
  forall p s b, R p s -> b < 256 ->
  exists p', advance cfg_default p b = Some (p', snd (vt_step s b)) /\ R p' (fst (vt_step s b)).
Proof. exact step_sim. Qed.

(* ---- 2. limits --------------------------------------------------------------- *)

(* every event the spec emits, for any byte list: at most 32 values over all
   parameter groups, at most 2 intermediates, every value <= 65535, at least one
   group and no empty group; between 1 and 16 OSC fields *)
Theorem c02_limits :
  forall bs, Forall event_ok (spec_events bs).
Proof. exact spec_limits. Qed.

(* hence every event the model (the crate) emits *)
Theorem c02_limits_model :
  forall bs, bytes_ok bs -> exists evs, events_model bs = Some evs /\ Forall event_ok evs.
Proof. exact model_limits. Qed.

(* values saturate at 65535 (no wrap-around): digits fed to a state with room
   left build min(65535, decimal value) *)
Theorem c02_limits_saturation :
  forall ds s, (count_values s < 32)%nat -> pend s = 0 ->
  Forall (fun d => 48 <= d <= 57) ds ->
  pend (fold_left param ds s) = N.min 65535 (dec_value ds).
Proof. exact param_digits_value. Qed.

(* the flag is set exactly when something was discarded: a third intermediate, a
   parameter byte with 32 values recorded, a dispatch / hook with 32 values
   recorded; no other action touches it and only the clearing entry actions
   reset it *)
Theorem c02_limits_flag :
  (forall s b, ign (collect s b) = ign s || Nat.eqb (length (ints s)) 2) /\
  (forall s b, ints (collect s b) = if Nat.eqb (length (ints s)) 2 then ints s else ints s ++ [b]) /\
  (forall s b, ign (param s b) = ign s || Nat.eqb (count_values s) 32) /\
  (forall s b, Nat.eqb (count_values s) 32 = true ->
     closed (param s b) = closed s /\ cur (param s b) = cur s /\ pend (param s b) = pend s) /\
  (forall s, snd (final_params s) = ign s || Nat.eqb (count_values s) 32) /\
  (forall s a b, a <> TCollect -> a <> TParam -> ign (fst (do_action s a b)) = ign s) /\
  (forall s t b, ign (fst (enter s t b)) =
     match t with VEscape | VCsiEntry | VDcsEntry => false | _ => ign s end).
Proof. exact flag_exact. Qed.

(* ---- 3. CAN / SUB ------------------------------------------------------------- *)

(* whatever came before, after CAN or SUB the rest of the stream is parsed as by a
   fresh parser *)
Theorem c02_cancel_from_anywhere :
  forall prefix rest c, (c = 24 \/ c = 26) ->
  Forall (fun b => b < 256) prefix -> Forall (fun b => b < 256) rest ->
  snd (vt_run (fst (vt_run vt_init (prefix ++ [c]))) rest) = spec_events rest.
Proof. exact cancel_from_anywhere. Qed.

(* the reason: the events of a continuation depend only on the live part of the
   state (bookkeeping only in the states that read it, OSC payload only in OSC) *)
Theorem c02_live_part_determines_events :
  forall bs s s', Forall (fun b => b < 256) bs -> live_eq s s' ->
  snd (vt_run s bs) = snd (vt_run s' bs).
Proof. exact live_eq_run. Qed.

(* the same on the model, without reference to the spec *)
Theorem c02_cancel_model :
  forall prefix rest c, (c = 24 \/ c = 26) -> bytes_ok prefix -> bytes_ok rest ->
  exists e1 e2, events_model (prefix ++ [c]) = Some e1 /\ events_model rest = Some e2 /\
                events_model (prefix ++ [c] ++ rest) = Some (e1 ++ e2).
Proof. exact model_cancel. Qed.

(* ---- 4. CSI round trip ---------------------------------------------------------- *)

(* parameter groups given as digit strings (possibly empty, leading zeros allowed,
   values above 65535 saturate), ':' inside a group, ';' between groups *)
Theorem c02_csi_roundtrip_digits :
  forall dss f,
  dss <> [] -> Forall (fun g => g <> []) dss -> Forall (Forall (Forall is_digit)) dss ->
  (length (concat dss) <= 32)%nat -> 64 <= f <= 126 ->
  spec_events ([27; 91] ++ print_digit_params dss ++ [f])
  = [ECsi (map (map (fun ds => N.min 65535 (digits_val ds))) dss) [] false f].
Proof. exact csi_roundtrip_digits. Qed.

(* values printed in decimal without leading zeros *)
Theorem c02_csi_roundtrip :
  forall ps f,
  ps <> [] -> Forall (fun g => g <> []) ps -> (length (concat ps) <= 32)%nat ->
  Forall (Forall (fun v => v <= 65535)) ps -> 64 <= f <= 126 ->
  spec_events ([27; 91] ++ print_params ps ++ [f]) = [ECsi ps [] false f].
Proof. exact csi_roundtrip. Qed.

(* ... with any number of leading zeros in front of each value *)
Theorem c02_csi_roundtrip_zeros :
  forall ps f,
  ps <> [] -> Forall (fun g => g <> []) ps -> (length (concat ps) <= 32)%nat ->
  Forall (Forall (fun zv => snd zv <= 65535)) ps -> 64 <= f <= 126 ->
  spec_events ([27; 91] ++ print_params_z ps ++ [f]) = [ECsi (map (map snd) ps) [] false f].
Proof. exact csi_roundtrip_zeros. Qed.

Theorem c02_csi_roundtrip_model :
  forall ps f,
  ps <> [] -> Forall (fun g => g <> []) ps -> (length (concat ps) <= 32)%nat ->
  Forall (Forall (fun v => v <= 65535)) ps -> 64 <= f <= 126 ->
  events_model ([27; 91] ++ print_params ps ++ [f]) = Some [ECsi ps [] false f].
Proof. exact model_csi_roundtrip. Qed.

(* ---- non-vacuity ------------------------------------------------------------------ *)

(* ESC [ ? 1 : 2 ; 70000 m , a three-byte character, an OSC with two fields ended by
   BEL, a DCS cut short by CAN: model and spec agree and report what one expects *)
Theorem c02_example :
  events_model [27; 91; 63; 49; 58; 50; 59; 55; 48; 48; 48; 48; 109; 226; 130; 172;
                27; 93; 48; 59; 104; 105; 7; 27; 80; 49; 113; 65; 24; 66]
  = Some [ECsi [[1; 2]; [65535]] [63] false 109; EPrint 8364; EOsc [[48]; [104; 105]] true;
          EHook [[1]] [] false 113; EPut 65; EUnhook; EExecute 24; EPrint 66]
  /\ spec_events [27; 91; 63; 49; 58; 50; 59; 55; 48; 48; 48; 48; 109; 226; 130; 172;
                  27; 93; 48; 59; 104; 105; 7; 27; 80; 49; 113; 65; 24; 66]
  = [ECsi [[1; 2]; [65535]] [63] false 109; EPrint 8364; EOsc [[48]; [104; 105]] true;
     EHook [[1]] [] false 113; EPut 65; EUnhook; EExecute 24; EPrint 66].
Proof. vm_compute. split; reflexivity. Qed.

Theorem c02_example_roundtrip :
  print_params [[38; 2]; [65535]; [0]] = [51; 56; 58; 50; 59; 54; 53; 53; 51; 53; 59; 48].
Proof. vm_compute. reflexivity. Qed.

(* ---- the tie by translation --------------------------------------------------------- *)

(* Generated/ParserFn.v is written on every run by tools/gen_fn_parser.py from the Rust
   sources of Parser::{advance, process_utf8, perform_state_change, perform_action},
   Params::{is_full, clear, push, extend} and state_change; folded over any byte string it
   computes exactly what the hand model -- the subject of every theorem above -- computes.
   (Parser::osc_dispatch and definitions::unpack, unsafe code, are translated at value level: see below.) *)
Theorem c02_translated_advance_is_model :
  forall c p perf b, g_advance c p perf b = acc perf (advance c p b).
Proof. exact g_advance_eq. Qed.

Theorem c02_translated_parser_is_model :
  forall c bs, g_run c parser_new [] bs = run c parser_new bs.
Proof. exact translated_parser_is_model. Qed.

(* hence the translated code refines the specification *)
Theorem c02_translated_parser_refines_spec :
  forall bs, Forall (fun b => b < 256) bs ->
  option_map snd (g_run cfg_default parser_new [] bs) = Some (spec_events bs).
Proof.
  intros bs H. rewrite translated_parser_is_model.
  pose proof (parser_refines_spec bs H) as E. unfold events_model in E.
  destruct (run cfg_default parser_new bs) as [[? ?]|]; cbn in *; congruence.
Qed.

(* ---- the rest of the crate, translated as well (tools/gen_fn_parser.py; HACKING.d/parser.md) ---------------- *)

(* Parser::new() = Parser::default(), the derive expanded field by field from the struct items (Params, State's
   #[default] variant, the accumulator's Default): the hand model's initial state *)
Theorem c02_translated_new_is_model :
  forall c, g_parser_new c = parser_new.
Proof. exact g_parser_new_eq. Qed.

Theorem c02_translated_parser_from_new_is_model :
  forall c bs, g_run c (g_parser_new c) [] bs = run c parser_new bs.
Proof. exact translated_parser_from_new. Qed.

(* CharAccumulator::add: Utf8Parser::add with the translated utf8parse callbacks (codepoint / invalid_sequence)
   or AsciiParser::add, chosen by the `utf8` feature *)
Theorem c02_translated_char_add_is_model :
  forall c u b, g_char_add c u b = char_add c u b.
Proof. exact g_char_add_eq. Qed.

(* ParamsIter: draining the translated `next` (what a performer's `for group in params` sees) is the hand model's
   fuelled params_iter, from every iterator state; from Params::iter() / into_iter() it is params_groups *)
Theorem c02_translated_params_iter_is_model :
  forall c fuel it,
  iter_drain (g_params_iter_next c) (S fuel) it = params_iter fuel (pit_params it) (pit_index it).
Proof. exact drain_params_iter. Qed.

Theorem c02_translated_params_groups_is_model :
  forall c q, g_params_groups c q = params_groups q.
Proof. exact g_params_groups_eq. Qed.

(* Parser::osc_dispatch, the MaybeUninit slot array read at value level (an uninitialised slot read back = None) *)
Theorem c02_translated_osc_dispatch_is_model :
  forall c p perf b, g_osc_dispatch c p perf b = osc_dispatch_acc p perf b.
Proof. exact g_osc_dispatch_eq. Qed.

(* TryFrom<u8> for State / Action decode the discriminants of Generated/Table.v; unpack (transmute::<u8, _> read at
   value level as the same decoders) is the hand model's, which is try_from on the two nibbles *)
Theorem c02_translated_state_try_from :
  forall c raw, raw < 256 -> g_state_try_from c raw = opt_ok_or (state_of_disc raw) raw.
Proof. exact g_state_try_from_eq. Qed.

Theorem c02_translated_action_try_from :
  forall c raw, raw < 256 -> g_action_try_from c raw = opt_ok_or (action_of_disc raw) raw.
Proof. exact g_action_try_from_eq. Qed.

Theorem c02_translated_unpack_is_model :
  forall c delta, g_unpack c delta = unpack delta.
Proof. exact g_unpack_eq. Qed.

Theorem c02_translated_unpack_is_try_from :
  forall c delta, delta < 256 ->
  unpack delta =
  match g_state_try_from c (N.land delta 15), g_action_try_from c (N.shiftr delta 4) with
  | inl s, inl a => Some (s, a)
  | _, _ => None
  end.
Proof. exact unpack_is_try_from. Qed.

(* trait Perform: a callback that is not overridden does nothing *)
Theorem c02_translated_perform_defaults_noop :
  forall (T : Type) c (pf : T) evs, fold_left (g_perform_default_event T c) evs pf = pf.
Proof. exact g_perform_default_events. Qed.

(* <Params as Debug>::fmt prints the textual form the CSI round trip (section 4) is about, in brackets *)
Theorem c02_translated_params_debug :
  forall c q f,
  g_params_debug_fmt c q f = (G <- params_groups q ;; Some (f ++ [91] ++ print_params G ++ [93], inl tt)).
Proof. exact g_params_debug_fmt_eq. Qed.

(* ParamsIter::size_hint reports the number of VALUES left as lower and upper bound; the iterator yields GROUPS:
   for [1:2] the hint is (2, Some 2) and one item follows -- the lower bound of Iterator::size_hint is not one *)
Theorem c02_translated_size_hint :
  forall c it,
  g_params_iter_size_hint c it = (d <- csub (plen (pit_params it)) (pit_index it) ;; Some (d, Some d)).
Proof. exact g_params_iter_size_hint_eq. Qed.

Theorem c02_translated_size_hint_overcounts :
  let q := mkParams (2 :: 0 :: repeat 0 30) (1 :: 2 :: repeat 0 30) 0 2 in
  params_groups q = Some [[1; 2]] /\
  g_params_iter_size_hint cfg_default (g_params_iter cfg_default q) = Some (2, Some 2).
Proof. exact size_hint_overcounts. Qed.
(* ==== the third-party decoder `utf8parse` ====================================================
   Generated/Utf8parseFn.v is written on every run by tools/gen_fn_utf8parse.py from the registry
   source of the `utf8parse` version <repo>/Cargo.lock pins (the unpacked source is compared with the
   archive whose sha256 is the lock file's checksum, and with what `cargo metadata` says the harness
   crates build).  `State::advance`, `Parser::{new, perform_action, advance}` and the derived Default
   are the hand model Model/Utf8parse.v -- the decoder every theorem above goes through -- for EVERY
   state, accumulated code point and byte.  A `Receiver` is the list of calls it gets. *)
Theorem c02_translated_utf8parse_state_advance :
  forall s b, g_u8_state_advance s b = Some (u8_advance s b).
Proof. exact g_u8_state_advance_eq. Qed.

Theorem c02_translated_utf8parse_perform_action :
  forall p r b a, g_u8_perform_action p r b a =
    Some (set_u8point p (fst (u8_perform p b a)), r ++ u8_events (snd (u8_perform p b a))).
Proof. exact g_u8_perform_action_eq. Qed.

Theorem c02_translated_utf8parse_advance :
  forall p r b, g_u8_parser_advance p r b =
    Some (fst (u8_parser_advance p b), r ++ u8_events (snd (u8_parser_advance p b))).
Proof. exact g_u8_parser_advance_eq. Qed.

Theorem c02_translated_utf8parse_new :
  g_u8_parser_new = u8_new /\ g_u8_parser_default = u8_new.
Proof. exact (conj g_u8_parser_new_eq g_u8_parser_default_eq). Qed.

(* a whole byte string through the translated decoder *)
Theorem c02_translated_utf8parse_run :
  forall bs p r, g_u8_run p r bs = Some (fst (u8_model_run p bs), r ++ snd (u8_model_run p bs)).
Proof. exact translated_run_is_model. Qed.

(* anstyle-parse's own glue around the decoder, translated from crates/anstyle-parse/src/lib.rs:
   <Utf8Parser as CharAccumulator>::add with the two methods of VtUtf8Receiver, and
   <AsciiParser as CharAccumulator>::add (`unreachable!`), are the hand model's [char_add] *)
Theorem c02_translated_utf8parse_char_add_is_model :
  forall c u b,
    (if utf8_on c then g_pa_utf8_add u b
     else option_map (fun '(_, o) => (u, o)) (g_pa_ascii_add tt b)) = char_add c u b.
Proof. exact translated_char_add_is_model. Qed.
