(* Props/C02.v -- property theorems for C02 (the parser reports exactly the events
   of the VT500 state machine).  Only statements, each closed by [exact]. *)
From Coq Require Import NArith List Bool.
From AV Require Import Generated.Table Spec.Vt Model.Base Model.Parser Proofs.TableFacts.
Import ListNotations.
Local Open Scope N_scope.

(* the generated 16x256 table is, entry by entry, Williams' diagram with the four
   documented deviations (Spec/Vt.vt_trans) -- complete enumeration, no sample *)
Theorem c02_table_is_williams :
  forall s b, b < 256 -> trans_matches s b = true.
Proof. exact table_is_williams. Qed.

(* unpack never sees an invalid discriminant *)
Theorem c02_state_change_total :
  forall s b, b < 256 -> exists s' a, state_change s b = Some (s', a).
Proof. exact state_change_total. Qed.
