(* Props/C16.v -- property theorems for C16 (conversions to other styling crates
   preserve colours and effects).  Only statements, each closed by [exact].

   Reading guide.  [sstyle] (Spec/Sgr) is an anstyle::Style: three optional colours
   ([CAnsi i], i < 16, bright = i >= 8; [CIdx n]; [CRgb r g b]) and the effect bit
   set.  [ad_src_ok s]: the 16-colour values are < 16 and the effect set is one of
   the 4096.  [ad_to_<lib> s] (Model/Adapters, driven by the translated tables of
   Generated/Adapters) is the target value the adapter builds: colour constructors
   and attribute calls by NAME.  Spec/Targets gives those names their meaning, per
   library, from the library's documentation ([ad_slot_meaning], [ad_attrs_meaning],
   [ad_meaning]; every table entry is validated against the real library's
   rendering by the correspondence run) and defines what the property expects:
   [ad_project l s] keeps the hue always, the brightness where named colours have
   one (crossterm, owo-colors, yansi), indexed / RGB values exactly, the underline
   colour where there is one (crossterm) and exactly the effects the target has a
   constructor for ([ad_expressible l], spelled out in c16_expressible_effects). *)
From Coq Require Import NArith List Bool.
From AV Require Import Generated.Adapters Spec.Sgr Spec.Targets Model.Adapters Proofs.Adapters.
From AV Require Import Model.Base Generated.AdaptersFn Proofs.AdaptersGen Proofs.AdaptersGenSpec.
Import ListNotations.
Local Open Scope N_scope.

(* ---- the eight base hues are never altered --------------------------------- *)

Theorem c16_hue_preserved_ansi_term : forall s, ad_src_ok s ->
  ad_hue_kept AdAnsiTerm (s_fg s) (ad_t_fg (ad_to_ansi_term s)) /\
  ad_hue_kept AdAnsiTerm (s_bg s) (ad_t_bg (ad_to_ansi_term s)).
Proof. exact ad_hue_ansi_term. Qed.

Theorem c16_hue_preserved_crossterm : forall s, ad_src_ok s ->
  ad_hue_kept AdCrossterm (s_fg s) (ad_t_fg (ad_to_crossterm s)) /\
  ad_hue_kept AdCrossterm (s_bg s) (ad_t_bg (ad_to_crossterm s)) /\
  ad_hue_kept AdCrossterm (s_ul s) (ad_t_ul (ad_to_crossterm s)).
Proof. exact ad_hue_crossterm. Qed.

Theorem c16_hue_preserved_owo_colors : forall s, ad_src_ok s ->
  ad_hue_kept AdOwo (s_fg s) (ad_t_fg (ad_to_owo s)) /\
  ad_hue_kept AdOwo (s_bg s) (ad_t_bg (ad_to_owo s)).
Proof. exact ad_hue_owo. Qed.

Theorem c16_hue_preserved_termcolor : forall s, ad_src_ok s ->
  ad_hue_kept AdTermcolor (s_fg s) (ad_t_fg (ad_to_termcolor s)) /\
  ad_hue_kept AdTermcolor (s_bg s) (ad_t_bg (ad_to_termcolor s)).
Proof. exact ad_hue_termcolor. Qed.

Theorem c16_hue_preserved_yansi : forall s, ad_src_ok s ->
  ad_hue_kept AdYansi (s_fg s) (ad_t_fg (ad_to_yansi s)) /\
  ad_hue_kept AdYansi (s_bg s) (ad_t_bg (ad_to_yansi s)).
Proof. exact ad_hue_yansi. Qed.

(* ---- brightness is kept wherever the target can express it ----------------- *)

Theorem c16_brightness_preserved_crossterm : forall s, ad_src_ok s ->
  ad_brightness_kept AdCrossterm (s_fg s) (ad_t_fg (ad_to_crossterm s)) /\
  ad_brightness_kept AdCrossterm (s_bg s) (ad_t_bg (ad_to_crossterm s)) /\
  ad_brightness_kept AdCrossterm (s_ul s) (ad_t_ul (ad_to_crossterm s)).
Proof. exact ad_bright_crossterm. Qed.

Theorem c16_brightness_preserved_owo_colors : forall s, ad_src_ok s ->
  ad_brightness_kept AdOwo (s_fg s) (ad_t_fg (ad_to_owo s)) /\
  ad_brightness_kept AdOwo (s_bg s) (ad_t_bg (ad_to_owo s)).
Proof. exact ad_bright_owo. Qed.

Theorem c16_brightness_preserved_yansi : forall s, ad_src_ok s ->
  ad_brightness_kept AdYansi (s_fg s) (ad_t_fg (ad_to_yansi s)) /\
  ad_brightness_kept AdYansi (s_bg s) (ad_t_bg (ad_to_yansi s)).
Proof. exact ad_bright_yansi. Qed.

(* ansi_term's named colours have no brightness: a bright FOREGROUND additionally
   switches bold on (bold is on iff BOLD is set or the foreground is bright), every
   other effect is exactly the source's (as far as expressible), and both colours are
   shown with normal intensity -- background brightness is dropped *)
Theorem c16_ansi_term_bright_is_bold : forall s, ad_src_ok s ->
  exists m, ad_attrs_meaning AdAnsiTerm (ad_t_attrs (ad_to_ansi_term s)) = Some m /\
    N.testbit m BOLD = (N.testbit (s_eff s) BOLD || ad_is_bright (s_fg s)) /\
    N.ldiff m (bit BOLD) = N.land (N.ldiff (s_eff s) (bit BOLD)) (ad_expressible AdAnsiTerm) /\
    (forall i, s_fg s = Some (CAnsi i) ->
       ad_slot_meaning AdAnsiTerm (ad_t_fg (ad_to_ansi_term s)) = Some (Some (CAnsi (i mod 8)))) /\
    (forall i, s_bg s = Some (CAnsi i) ->
       ad_slot_meaning AdAnsiTerm (ad_t_bg (ad_to_ansi_term s)) = Some (Some (CAnsi (i mod 8)))).
Proof. exact ad_ansi_term_bright_is_bold. Qed.

(* ---- indexed and RGB colours keep their exact values (any n, any r g b) ----- *)

Theorem c16_indexed_rgb_exact_ansi_term : forall s,
  ad_exact_kept AdAnsiTerm (s_fg s) (ad_t_fg (ad_to_ansi_term s)) /\
  ad_exact_kept AdAnsiTerm (s_bg s) (ad_t_bg (ad_to_ansi_term s)).
Proof. exact ad_exact_ansi_term. Qed.

Theorem c16_indexed_rgb_exact_crossterm : forall s,
  ad_exact_kept AdCrossterm (s_fg s) (ad_t_fg (ad_to_crossterm s)) /\
  ad_exact_kept AdCrossterm (s_bg s) (ad_t_bg (ad_to_crossterm s)) /\
  ad_exact_kept AdCrossterm (s_ul s) (ad_t_ul (ad_to_crossterm s)).
Proof. exact ad_exact_crossterm. Qed.

Theorem c16_indexed_rgb_exact_owo_colors : forall s,
  ad_exact_kept AdOwo (s_fg s) (ad_t_fg (ad_to_owo s)) /\
  ad_exact_kept AdOwo (s_bg s) (ad_t_bg (ad_to_owo s)).
Proof. exact ad_exact_owo. Qed.

Theorem c16_indexed_rgb_exact_termcolor : forall s,
  ad_exact_kept AdTermcolor (s_fg s) (ad_t_fg (ad_to_termcolor s)) /\
  ad_exact_kept AdTermcolor (s_bg s) (ad_t_bg (ad_to_termcolor s)).
Proof. exact ad_exact_termcolor. Qed.

Theorem c16_indexed_rgb_exact_yansi : forall s,
  ad_exact_kept AdYansi (s_fg s) (ad_t_fg (ad_to_yansi s)) /\
  ad_exact_kept AdYansi (s_bg s) (ad_t_bg (ad_to_yansi s)).
Proof. exact ad_exact_yansi. Qed.

(* the constructors the adapters use for them are the libraries' indexed / RGB ones *)
Theorem c16_indexed_rgb_constructors :
  (ad_gen_ansi_term_fixed = ad_fixed_ctor AdAnsiTerm /\ ad_gen_ansi_term_rgb = ad_rgb_ctor AdAnsiTerm) /\
  (ad_gen_crossterm_fixed = ad_fixed_ctor AdCrossterm /\ ad_gen_crossterm_rgb = ad_rgb_ctor AdCrossterm) /\
  (ad_gen_owo_fixed = ad_fixed_ctor AdOwo /\ ad_gen_owo_rgb = ad_rgb_ctor AdOwo) /\
  (ad_gen_termcolor_fixed = ad_fixed_ctor AdTermcolor /\ ad_gen_termcolor_rgb = ad_rgb_ctor AdTermcolor) /\
  (ad_gen_yansi_fixed = ad_fixed_ctor AdYansi /\ ad_gen_yansi_rgb = ad_rgb_ctor AdYansi).
Proof. exact ad_indexed_rgb_ctors. Qed.

(* ---- the same effects, for every attribute the target can express ----------- *)
(* [ad_project_effects l s] = s_eff s restricted to [ad_expressible l] (for
   ansi_term: plus bold when the foreground is bright, see above) *)

Theorem c16_effects_preserved_ansi_term : forall s, ad_src_ok s ->
  ad_attrs_meaning AdAnsiTerm (ad_t_attrs (ad_to_ansi_term s)) = Some (ad_project_effects AdAnsiTerm s).
Proof. exact ad_effects_ansi_term. Qed.

Theorem c16_effects_preserved_crossterm : forall s, ad_src_ok s ->
  ad_attrs_meaning AdCrossterm (ad_t_attrs (ad_to_crossterm s)) = Some (ad_project_effects AdCrossterm s).
Proof. exact ad_effects_crossterm. Qed.

Theorem c16_effects_preserved_owo_colors : forall s, ad_src_ok s ->
  ad_attrs_meaning AdOwo (ad_t_attrs (ad_to_owo s)) = Some (ad_project_effects AdOwo s).
Proof. exact ad_effects_owo. Qed.

Theorem c16_effects_preserved_termcolor : forall s, ad_src_ok s ->
  ad_attrs_meaning AdTermcolor (ad_t_attrs (ad_to_termcolor s)) = Some (ad_project_effects AdTermcolor s).
Proof. exact ad_effects_termcolor. Qed.

Theorem c16_effects_preserved_yansi : forall s, ad_src_ok s ->
  ad_attrs_meaning AdYansi (ad_t_attrs (ad_to_yansi s)) = Some (ad_project_effects AdYansi s).
Proof. exact ad_effects_yansi. Qed.

(* which effects that is, as bit sets over BOLD=bit 0 .. STRIKETHROUGH=bit 11:
   3855 = all but the four extra underline kinds, 4095 = all twelve, 15 = bold,
   dimmed, italic, underline *)
Theorem c16_expressible_effects :
  ad_expressible AdAnsiTerm = 3855 /\ ad_expressible AdCrossterm = 4095 /\ ad_expressible AdOwo = 3855 /\
  ad_expressible AdTermcolor = 15 /\ ad_expressible AdYansi = 3855.
Proof. exact ad_expressible_values. Qed.

(* ---- the whole style: meaning (convert s) = project_target s ---------------- *)

Theorem c16_style_meaning : forall l s, ad_src_ok s ->
  ad_meaning l (ad_convert l s) = Some (ad_project l s).
Proof. exact ad_convert_meaning. Qed.

(* ---- syntect -> anstyle keeps the RGB colours and bold / italic / underline --- *)
(* a syntect colour is (r, g, b, alpha); FontStyle bits: BOLD = 1, UNDERLINE = 2,
   ITALIC = 4 (bit positions 0, 1, 2) *)
Theorem c16_syntect_keeps : forall r g b a r' g' b' a' font, font < 256 ->
  let s := ad_from_syntect (r, g, b, a) (r', g', b', a') font in
  s = ad_syntect_expected (r, g, b, a) (r', g', b', a') font /\
  s_fg s = Some (CRgb r g b) /\ s_bg s = Some (CRgb r' g' b') /\ s_ul s = None /\
  N.testbit (s_eff s) BOLD = N.testbit font 0 /\
  N.testbit (s_eff s) UNDERLINE = N.testbit font 1 /\
  N.testbit (s_eff s) ITALIC = N.testbit font 2 /\
  N.ldiff (s_eff s) (N.lor (bit BOLD) (N.lor (bit UNDERLINE) (bit ITALIC))) = 0.
Proof. exact ad_syntect_keeps. Qed.

(* ---- the translated code (tools/gen_fn_adapters.py -> Generated/AdaptersFn.v) ------------------
   [g_to_ansi_term], [g_to_crossterm], [g_to_owo_style], [g_to_termcolor_spec], [g_to_yansi_style]
   ([g_convert l] by library) and [g_syn_to_anstyle] are the Rust functions of the six conversion
   crates translated by tools/rs2v on every run: which effect switches which attribute on, in which
   order, under which condition, which colour goes to which slot.  [Some t] = the function returns
   t, [None] = it would panic.  The third-party builder methods they call are the vocabulary at the
   end of Model/Adapters.v (a target style = the colour constructors chosen and the attribute calls
   made, by name, in call order). *)

(* every translated adapter IS the hand model the theorems above are about *)
Theorem c16_translated_ansi_term_is_model : forall s, ad_src_ok s ->
  g_to_ansi_term s = Some (ad_to_ansi_term s).
Proof. exact g_to_ansi_term_eq. Qed.

Theorem c16_translated_crossterm_is_model : forall s, ad_src_ok s ->
  g_to_crossterm s = Some (ad_to_crossterm s).
Proof. exact g_to_crossterm_eq. Qed.

Theorem c16_translated_owo_colors_is_model : forall s, ad_src_ok s ->
  g_to_owo_style s = Some (ad_to_owo s).
Proof. exact g_to_owo_style_eq. Qed.

Theorem c16_translated_termcolor_is_model : forall s, ad_src_ok s ->
  g_to_termcolor_spec s = Some (ad_to_termcolor s).
Proof. exact g_to_termcolor_spec_eq. Qed.

Theorem c16_translated_yansi_is_model : forall s, ad_src_ok s ->
  g_to_yansi_style s = Some (ad_to_yansi s).
Proof. exact g_to_yansi_style_eq. Qed.

Theorem c16_translated_syntect_is_model : forall fg bg font,
  g_syn_to_anstyle (mkAdSyn fg bg font) = Some (ad_from_syntect fg bg font).
Proof. exact g_syn_to_anstyle_eq. Qed.

(* all entry points in one statement *)
Theorem c16_translated_adapters_are_model :
  (forall l s, ad_src_ok s -> g_convert l s = Some (ad_convert l s)) /\
  (forall fg bg font, g_syn_to_anstyle (mkAdSyn fg bg font) = Some (ad_from_syntect fg bg font)).
Proof. exact translated_adapters_are_model. Qed.

(* the colour functions as translated (16-way match, indexed, RGB), per crate *)
Theorem c16_translated_colours_are_model : forall c, ad_colour_ok (Some c) ->
  g_at_to_ansi_color (ad_color_of c) = Some (ad_at_colour c) /\
  g_ct_to_ansi_color (ad_color_of c) = Some (ad_conv_colour ad_gen_crossterm_colors c) /\
  g_to_owo_colors (ad_color_of c) = Some (ad_conv_colour ad_gen_owo_colors c) /\
  g_to_termcolor_color (ad_color_of c) = Some (ad_conv_colour ad_gen_termcolor_colors c) /\
  g_to_yansi_color (ad_color_of c) = Some (ad_conv_colour ad_gen_yansi_colors c).
Proof. exact translated_colours_are_model. Qed.

(* hence the property for the translated code: no panic, and the style built means the projection
   of the source style onto what the library can express *)
Theorem c16_translated_style_meaning : forall l s, ad_src_ok s ->
  (t <- g_convert l s ;; ad_meaning l t) = Some (ad_project l s).
Proof. exact translated_convert_meaning. Qed.

Theorem c16_translated_syntect_keeps : forall r g b a r' g' b' a' font, font < 256 ->
  g_syn_to_anstyle (mkAdSyn (r, g, b, a) (r', g', b', a') font) =
  Some (ad_syntect_expected (r, g, b, a) (r', g', b', a') font).
Proof. exact translated_syntect_expected. Qed.

(* ---- crossterm RENDERS the converted value as the tables say (tools/gen_fn_crossterm.py -> Generated/CrosstermFn.v) ----
   The rendering code of the third-party crate crossterm (0.28.1, the version Cargo.lock pins; read from the cargo
   registry copy that harness/h-adapters links) is TRANSLATED on every run: Display of StyledContent,
   PrintStyledContent / SetForegroundColor / SetBackgroundColor / SetUnderlineColor / SetAttributes / SetAttribute /
   ResetColor ::write_ansi, Display of Colored, Attribute::{sgr, bytes}, Attributes::{set, has, is_empty}.
   [g_ct_of_tstyle t] reads the adapter's abstract target style (constructors / attributes by NAME) as the crossterm
   value with those names (attributes through the translated `Attributes::set`); [g_crossterm_render v] is
   `v.apply("x").to_string()` after `force_color_output(true)` (what harness/h-adapters runs); [ad_render_ok want bytes]
   (Spec/Targets.v): Spec/Vt + Spec/Sgr show "x" in rendition `want`, colours compared modulo the identification of
   palette entries 0-15 with the 16 ANSI colours (crossterm prints its named colours as 38;5;n).  [ct_src_u8]: indexed
   and RGB values fit a u8. *)
From AV Require Import Model.Crossterm Generated.CrosstermFn Proofs.CrosstermFnGen.

(* for EVERY value of crossterm's ContentStyle (any colour variant, any attribute bit set) and every text: no panic,
   and the bytes are SGR sequences (background, foreground, underline colour, one per attribute that is set in
   declaration order), the text, and the reset sequences *)
Theorem c16_rendered_crossterm_bytes : forall v text,
  g_crossterm_render_str false v text = Some (ct_render_bytes v text).
Proof. exact g_crossterm_render_str_eq. Qed.

(* render (convert s) interprets to project(s): to_crossterm as translated, its result as a crossterm value, crossterm's
   rendering as translated, interpreted from the terminal's default state *)
Theorem c16_rendered_crossterm_is_projection : forall s, ad_src_ok s -> ct_src_u8 s ->
  exists bytes, g_crossterm_pipeline s = Some bytes /\
    ad_render_ok_but_underline (ad_project AdCrossterm s) bytes = true /\
    (ad_one_underline (s_eff s) = true -> ad_render_ok (ad_project AdCrossterm s) bytes = true).
Proof. exact crossterm_rendered_is_projection. Qed.

(* the same against the meaning table: the library renders the adapter's value as Spec/Targets.v says it means *)
Theorem c16_rendered_crossterm_is_meaning : forall s, ad_src_ok s -> ct_src_u8 s -> ad_one_underline (s_eff s) = true ->
  exists t m bytes, g_to_crossterm s = Some t /\ ad_meaning AdCrossterm t = Some m /\
    (v <- g_ct_of_tstyle t ;; g_crossterm_render v) = Some bytes /\ ad_render_ok m bytes = true.
Proof. exact crossterm_rendered_is_meaning. Qed.

(* the value-level form: what the adapter model builds, as a crossterm value, and its rendering *)
Theorem c16_rendered_crossterm_image : forall s, ad_src_ok s -> ct_src_u8 s ->
  exists v bytes,
    g_ct_of_tstyle (ad_to_crossterm s) = Some v /\ g_crossterm_render v = Some bytes /\
    ad_render_ok_but_underline (ad_project AdCrossterm s) bytes = true /\
    (ad_one_underline (s_eff s) = true -> ad_render_ok (ad_project AdCrossterm s) bytes = true).
Proof. exact crossterm_render_image. Qed.

(* the hypothesis "at most one underline kind" cannot be dropped: UNDERLINE + DOUBLE_UNDERLINE renders as ESC[4m ESC[4:2m,
   a terminal has one underline attribute and shows the double underline only *)
Theorem c16_rendered_crossterm_two_underlines_refuted :
  exists s bytes, ad_src_ok s /\ ct_src_u8 s /\ g_crossterm_pipeline s = Some bytes /\
    ad_render_ok (ad_project AdCrossterm s) bytes = false.
Proof. exact crossterm_rendered_two_underlines_refuted. Qed.

(* outside what the harness runs: with colours switched off (NO_COLOR / force_color_output(false)) a colour command
   still prints "ESC [ m", an SGR reset (red + bold: ESC[m ESC[1m x ESC[0m) *)
Theorem c16_rendered_crossterm_colours_disabled :
  g_crossterm_render_str true (mkCtStyle (Some CtRed) None None 4) [120] =
  Some [27; 91; 109; 27; 91; 49; 109; 120; 27; 91; 48; 109].
Proof. exact crossterm_colours_disabled_witness. Qed.
