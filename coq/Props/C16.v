(* Props/C16.v -- property theorems for C16 (conversions to other styling crates
   preserve colours and effects).  Only statements, each closed by [exact].

   Reading guide.  [sstyle] (Spec/Sgr) is an anstyle::Style: three optional colours
   ([CAnsi i], i < 16, bright = i >= 8; [CIdx n]; [CRgb r g b]) and the effect bit
   set.  [ad_src_ok s]: the 16-colour values are < 16 and the effect set is one of
   the 4096.  [ad_to_<lib> s] (Model/Adapters, driven by the translated tables of
   Generated/Adapters) is the target value the adapter builds: colour constructors
   and attribute calls by NAME.  Spec/Targets gives those names their meaning, per
   library, from the library's documentation ([ad_slot_meaning], [ad_attrs_meaning],
   [ad_meaning]; every table entry is validated against the real library's
   rendering by the correspondence run) and defines what the property expects:
   [ad_project l s] keeps the hue always, the brightness where named colours have
   one (crossterm, owo-colors, yansi), indexed / RGB values exactly, the underline
   colour where there is one (crossterm) and exactly the effects the target has a
   constructor for ([ad_expressible l], spelled out in c16_expressible_effects). *)
From Coq Require Import NArith List Bool.
From AV Require Import Generated.Adapters Spec.Sgr Spec.Targets Model.Adapters Proofs.Adapters.
From AV Require Import Model.Base Generated.AdaptersFn Proofs.AdaptersGen Proofs.AdaptersGenSpec.
Import ListNotations.
Local Open Scope N_scope.

(* ---- the eight base hues are never altered --------------------------------- *)

Theorem c16_hue_preserved_ansi_term : forall s, ad_src_ok s ->
  ad_hue_kept AdAnsiTerm (s_fg s) (ad_t_fg (ad_to_ansi_term s)) /\
  ad_hue_kept AdAnsiTerm (s_bg s) (ad_t_bg (ad_to_ansi_term s)).
Proof. exact ad_hue_ansi_term. Qed.

Theorem c16_hue_preserved_crossterm : forall s, ad_src_ok s ->
  ad_hue_kept AdCrossterm (s_fg s) (ad_t_fg (ad_to_crossterm s)) /\
  ad_hue_kept AdCrossterm (s_bg s) (ad_t_bg (ad_to_crossterm s)) /\
  ad_hue_kept AdCrossterm (s_ul s) (ad_t_ul (ad_to_crossterm s)).
Proof. exact ad_hue_crossterm. Qed.

Theorem c16_hue_preserved_owo_colors : forall s, ad_src_ok s ->
  ad_hue_kept AdOwo (s_fg s) (ad_t_fg (ad_to_owo s)) /\
  ad_hue_kept AdOwo (s_bg s) (ad_t_bg (ad_to_owo s)).
Proof. exact ad_hue_owo. Qed.

Theorem c16_hue_preserved_termcolor : forall s, ad_src_ok s ->
  ad_hue_kept AdTermcolor (s_fg s) (ad_t_fg (ad_to_termcolor s)) /\
  ad_hue_kept AdTermcolor (s_bg s) (ad_t_bg (ad_to_termcolor s)).
Proof. exact ad_hue_termcolor. Qed.

Theorem c16_hue_preserved_yansi : forall s, ad_src_ok s ->
  ad_hue_kept AdYansi (s_fg s) (ad_t_fg (ad_to_yansi s)) /\
  ad_hue_kept AdYansi (s_bg s) (ad_t_bg (ad_to_yansi s)).
Proof. exact ad_hue_yansi. Qed.

(* ---- brightness is kept wherever the target can express it ----------------- *)

Theorem c16_brightness_preserved_crossterm : forall s, ad_src_ok s ->
  ad_brightness_kept AdCrossterm (s_fg s) (ad_t_fg (ad_to_crossterm s)) /\
  ad_brightness_kept AdCrossterm (s_bg s) (ad_t_bg (ad_to_crossterm s)) /\
  ad_brightness_kept AdCrossterm (s_ul s) (ad_t_ul (ad_to_crossterm s)).
Proof. exact ad_bright_crossterm. Qed.

Theorem c16_brightness_preserved_owo_colors : forall s, ad_src_ok s ->
  ad_brightness_kept AdOwo (s_fg s) (ad_t_fg (ad_to_owo s)) /\
  ad_brightness_kept AdOwo (s_bg s) (ad_t_bg (ad_to_owo s)).
Proof. exact ad_bright_owo. Qed.

Theorem c16_brightness_preserved_yansi : forall s, ad_src_ok s ->
  ad_brightness_kept AdYansi (s_fg s) (ad_t_fg (ad_to_yansi s)) /\
  ad_brightness_kept AdYansi (s_bg s) (ad_t_bg (ad_to_yansi s)).
Proof. exact ad_bright_yansi. Qed.

(* ansi_term's named colours have no brightness: a bright FOREGROUND additionally
   switches bold on (bold is on iff BOLD is set or the foreground is bright), every
   other effect is exactly the source's (as far as expressible), and both colours are
   shown with normal intensity -- background brightness is dropped *)
Theorem c16_ansi_term_bright_is_bold : forall s, ad_src_ok s ->
  exists m, ad_attrs_meaning AdAnsiTerm (ad_t_attrs (ad_to_ansi_term s)) = Some m /\
    N.testbit m BOLD = (N.testbit (s_eff s) BOLD || ad_is_bright (s_fg s)) /\
    N.ldiff m (bit BOLD) = N.land (N.ldiff (s_eff s) (bit BOLD)) (ad_expressible AdAnsiTerm) /\
    (forall i, s_fg s = Some (CAnsi i) ->
       ad_slot_meaning AdAnsiTerm (ad_t_fg (ad_to_ansi_term s)) = Some (Some (CAnsi (i mod 8)))) /\
    (forall i, s_bg s = Some (CAnsi i) ->
       ad_slot_meaning AdAnsiTerm (ad_t_bg (ad_to_ansi_term s)) = Some (Some (CAnsi (i mod 8)))).
Proof. exact ad_ansi_term_bright_is_bold. Qed.

(* ---- indexed and RGB colours keep their exact values (any n, any r g b) ----- *)

Theorem c16_indexed_rgb_exact_ansi_term : forall s,
  ad_exact_kept AdAnsiTerm (s_fg s) (ad_t_fg (ad_to_ansi_term s)) /\
  ad_exact_kept AdAnsiTerm (s_bg s) (ad_t_bg (ad_to_ansi_term s)).
Proof. exact ad_exact_ansi_term. Qed.

Theorem c16_indexed_rgb_exact_crossterm : forall s,
  ad_exact_kept AdCrossterm (s_fg s) (ad_t_fg (ad_to_crossterm s)) /\
  ad_exact_kept AdCrossterm (s_bg s) (ad_t_bg (ad_to_crossterm s)) /\
  ad_exact_kept AdCrossterm (s_ul s) (ad_t_ul (ad_to_crossterm s)).
Proof. exact ad_exact_crossterm. Qed.

Theorem c16_indexed_rgb_exact_owo_colors : forall s,
  ad_exact_kept AdOwo (s_fg s) (ad_t_fg (ad_to_owo s)) /\
  ad_exact_kept AdOwo (s_bg s) (ad_t_bg (ad_to_owo s)).
Proof. exact ad_exact_owo. Qed.

Theorem c16_indexed_rgb_exact_termcolor : forall s,
  ad_exact_kept AdTermcolor (s_fg s) (ad_t_fg (ad_to_termcolor s)) /\
  ad_exact_kept AdTermcolor (s_bg s) (ad_t_bg (ad_to_termcolor s)).
Proof. exact ad_exact_termcolor. Qed.

Theorem c16_indexed_rgb_exact_yansi : forall s,
  ad_exact_kept AdYansi (s_fg s) (ad_t_fg (ad_to_yansi s)) /\
  ad_exact_kept AdYansi (s_bg s) (ad_t_bg (ad_to_yansi s)).
Proof. exact ad_exact_yansi. Qed.

(* the constructors the adapters use for them are the libraries' indexed / RGB ones *)
Theorem c16_indexed_rgb_constructors :
  (ad_gen_ansi_term_fixed = ad_fixed_ctor AdAnsiTerm /\ ad_gen_ansi_term_rgb = ad_rgb_ctor AdAnsiTerm) /\
  (ad_gen_crossterm_fixed = ad_fixed_ctor AdCrossterm /\ ad_gen_crossterm_rgb = ad_rgb_ctor AdCrossterm) /\
  (ad_gen_owo_fixed = ad_fixed_ctor AdOwo /\ ad_gen_owo_rgb = ad_rgb_ctor AdOwo) /\
  (ad_gen_termcolor_fixed = ad_fixed_ctor AdTermcolor /\ ad_gen_termcolor_rgb = ad_rgb_ctor AdTermcolor) /\
  (ad_gen_yansi_fixed = ad_fixed_ctor AdYansi /\ ad_gen_yansi_rgb = ad_rgb_ctor AdYansi).
Proof. exact ad_indexed_rgb_ctors. Qed.

(* ---- the same effects, for every attribute the target can express ----------- *)
(* [ad_project_effects l s] = s_eff s restricted to [ad_expressible l] (for
   ansi_term: plus bold when the foreground is bright, see above) *)

Theorem c16_effects_preserved_ansi_term : forall s, ad_src_ok s ->
  ad_attrs_meaning AdAnsiTerm (ad_t_attrs (ad_to_ansi_term s)) = Some (ad_project_effects AdAnsiTerm s).
Proof. exact ad_effects_ansi_term. Qed.

Theorem c16_effects_preserved_crossterm : forall s, ad_src_ok s ->
  ad_attrs_meaning AdCrossterm (ad_t_attrs (ad_to_crossterm s)) = Some (ad_project_effects AdCrossterm s).
Proof. exact ad_effects_crossterm. Qed.

Theorem c16_effects_preserved_owo_colors : forall s, ad_src_ok s ->
  ad_attrs_meaning AdOwo (ad_t_attrs (ad_to_owo s)) = Some (ad_project_effects AdOwo s).
Proof. exact ad_effects_owo. Qed.

Theorem c16_effects_preserved_termcolor : forall s, ad_src_ok s ->
  ad_attrs_meaning AdTermcolor (ad_t_attrs (ad_to_termcolor s)) = Some (ad_project_effects AdTermcolor s).
Proof. exact ad_effects_termcolor. Qed.

Theorem c16_effects_preserved_yansi : forall s, ad_src_ok s ->
  ad_attrs_meaning AdYansi (ad_t_attrs (ad_to_yansi s)) = Some (ad_project_effects AdYansi s).
Proof. exact ad_effects_yansi. Qed.

(* which effects that is, as bit sets over BOLD=bit 0 .. STRIKETHROUGH=bit 11:
   3855 = all but the four extra underline kinds, 4095 = all twelve, 15 = bold,
   dimmed, italic, underline *)
Theorem c16_expressible_effects :
  ad_expressible AdAnsiTerm = 3855 /\ ad_expressible AdCrossterm = 4095 /\ ad_expressible AdOwo = 3855 /\
  ad_expressible AdTermcolor = 15 /\ ad_expressible AdYansi = 3855.
Proof. exact ad_expressible_values. Qed.

(* ---- the whole style: meaning (convert s) = project_target s ---------------- *)

Theorem c16_style_meaning : forall l s, ad_src_ok s ->
  ad_meaning l (ad_convert l s) = Some (ad_project l s).
Proof. exact ad_convert_meaning. Qed.

(* ---- syntect -> anstyle keeps the RGB colours and bold / italic / underline --- *)
(* a syntect colour is (r, g, b, alpha); FontStyle bits: BOLD = 1, UNDERLINE = 2,
   ITALIC = 4 (bit positions 0, 1, 2) *)
Theorem c16_syntect_keeps : forall r g b a r' g' b' a' font, font < 256 ->
  let s := ad_from_syntect (r, g, b, a) (r', g', b', a') font in
  s = ad_syntect_expected (r, g, b, a) (r', g', b', a') font /\
  s_fg s = Some (CRgb r g b) /\ s_bg s = Some (CRgb r' g' b') /\ s_ul s = None /\
  N.testbit (s_eff s) BOLD = N.testbit font 0 /\
  N.testbit (s_eff s) UNDERLINE = N.testbit font 1 /\
  N.testbit (s_eff s) ITALIC = N.testbit font 2 /\
  N.ldiff (s_eff s) (N.lor (bit BOLD) (N.lor (bit UNDERLINE) (bit ITALIC))) = 0.
Proof. exact ad_syntect_keeps. Qed.

(* ---- the translated code (tools/gen_fn_adapters.py -> Generated/AdaptersFn.v) ------------------
   [g_to_ansi_term], [g_to_crossterm], [g_to_owo_style], [g_to_termcolor_spec], [g_to_yansi_style]
   ([g_convert l] by library) and [g_syn_to_anstyle] are the Rust functions of the six conversion
   crates translated by tools/rs2v on every run: which effect switches which attribute on, in which
   order, under which condition, which colour goes to which slot.  [Some t] = the function returns
   t, [None] = it would panic.  The third-party builder methods they call are the vocabulary at the
   end of Model/Adapters.v (a target style = the colour constructors chosen and the attribute calls
   made, by name, in call order). *)

(* every translated adapter IS the hand model the theorems above are about *)
Theorem c16_translated_ansi_term_is_model : forall s, ad_src_ok s ->
  g_to_ansi_term s = Some (ad_to_ansi_term s).
Proof. exact g_to_ansi_term_eq. Qed.

Theorem c16_translated_crossterm_is_model : forall s, ad_src_ok s ->
  g_to_crossterm s = Some (ad_to_crossterm s).
Proof. exact g_to_crossterm_eq. Qed.

Theorem c16_translated_owo_colors_is_model : forall s, ad_src_ok s ->
  g_to_owo_style s = Some (ad_to_owo s).
Proof. exact g_to_owo_style_eq. Qed.

Theorem c16_translated_termcolor_is_model : forall s, ad_src_ok s ->
  g_to_termcolor_spec s = Some (ad_to_termcolor s).
Proof. exact g_to_termcolor_spec_eq. Qed.

Theorem c16_translated_yansi_is_model : forall s, ad_src_ok s ->
  g_to_yansi_style s = Some (ad_to_yansi s).
Proof. exact g_to_yansi_style_eq. Qed.

Theorem c16_translated_syntect_is_model : forall fg bg font,
  g_syn_to_anstyle (mkAdSyn fg bg font) = Some (ad_from_syntect fg bg font).
Proof. exact g_syn_to_anstyle_eq. Qed.

(* all entry points in one statement *)
Theorem c16_translated_adapters_are_model :
  (forall l s, ad_src_ok s -> g_convert l s = Some (ad_convert l s)) /\
  (forall fg bg font, g_syn_to_anstyle (mkAdSyn fg bg font) = Some (ad_from_syntect fg bg font)).
Proof. exact translated_adapters_are_model. Qed.

(* the colour functions as translated (16-way match, indexed, RGB), per crate *)
Theorem c16_translated_colours_are_model : forall c, ad_colour_ok (Some c) ->
  g_at_to_ansi_color (ad_color_of c) = Some (ad_at_colour c) /\
  g_ct_to_ansi_color (ad_color_of c) = Some (ad_conv_colour ad_gen_crossterm_colors c) /\
  g_to_owo_colors (ad_color_of c) = Some (ad_conv_colour ad_gen_owo_colors c) /\
  g_to_termcolor_color (ad_color_of c) = Some (ad_conv_colour ad_gen_termcolor_colors c) /\
  g_to_yansi_color (ad_color_of c) = Some (ad_conv_colour ad_gen_yansi_colors c).
Proof. exact translated_colours_are_model. Qed.

(* hence the property for the translated code: no panic, and the style built means the projection
   of the source style onto what the library can express *)
Theorem c16_translated_style_meaning : forall l s, ad_src_ok s ->
  (t <- g_convert l s ;; ad_meaning l t) = Some (ad_project l s).
Proof. exact translated_convert_meaning. Qed.

Theorem c16_translated_syntect_keeps : forall r g b a r' g' b' a' font, font < 256 ->
  g_syn_to_anstyle (mkAdSyn (r, g, b, a) (r', g', b', a') font) =
  Some (ad_syntect_expected (r, g, b, a) (r', g', b', a') font).
Proof. exact translated_syntect_expected. Qed.

(* ---- the RENDERING by the target library, proved for yansi (tools/gen_fn_yansi.py -> Generated/YansiFn.v) ----
   [g_yansi_render o en st] is `yansi::enable(); "x".paint(st).to_string()` -- what the C16 harness runs -- with
   Style::fmt_prefix / fmt_suffix, Color::fmt, Attribute::fmt, Set / Iter, Painted's Display translated by tools/rs2v on
   every run from the source of the yansi version Cargo.lock pins ([Some bytes] = it returns, [None] = it panics; [en] =
   what the global switch held before, [o] = an oracle for the two Quirk::Wrap paths, which are not translated: every
   theorem holds for every [en] and [o]).  [ya_style] (Model/YansiRender.v) is yansi::Style field for field;
   [ya_style_ok]: the u8 payloads are bytes and the attribute set is one of the 512; [ya_plain]: no quirk, no condition.
   [ad_interp_x] (Spec/Targets.v) reads the bytes with the terminal model of C05 / C07 (Spec/Vt + Spec/Sgr) from the
   default rendition and answers the rendition of the "x". *)
From AV Require Import Model.YansiRender Generated.YansiFn Proofs.YansiFnGen Proofs.YansiFnAdapter.

(* the translated rendering is the hand rendering (no panic), for any text, as long as Quirk::Wrap is not set *)
Theorem c16_rendered_yansi_translation_is_hand_rendering : forall o en text st,
  ya_attrs st < 512 -> ya_has (ya_quirks st) YaWrap = false ->
  g_yansi_render_text o en text st = Some (ya_render_bytes text st).
Proof. exact g_yansi_render_text_eq. Qed.

(* for EVERY quirk-free yansi::Style: no panic, and the terminal shows the "x" in exactly the meaning of the value
   (named colour -> its ANSI colour, Primary -> default, Fixed n -> CIdx n, Rgb exactly; every attribute its effect) *)
Theorem c16_rendered_yansi_interprets_to_meaning : forall o en st, ya_style_ok st -> ya_plain st ->
  exists bytes, g_yansi_render o en st = Some bytes /\ ad_interp_x bytes = Some (ya_meaning st).
Proof. exact yansi_render_is_meaning. Qed.

(* the names Spec/Targets.v lists for yansi are the names yansi's source defines (builder methods of
   define_properties!, constructors of enum Color), with the same meaning *)
Theorem c16_rendered_yansi_names_agree :
  forallb (fun p => match ad_assoc (fst p) ad_yansi_attrs with Some k => k =? ya_attr_effect (snd p) | None => false end)
          g_ya_attr_builders = true /\
  forallb (fun p => match ad_assoc (fst p) g_ya_attr_builders with Some _ => true | None => false end) ad_yansi_attrs = true /\
  forallb (fun p => match ad_assoc (fst p) ad_yansi_colours with
                    | Some m => opt_colour_eqb m (ya_colour_meaning (snd p)) | None => false end) g_ya_color_ctors = true /\
  forallb (fun p => match ad_assoc (fst p) g_ya_color_ctors with Some _ => true | None => false end) ad_yansi_colours = true.
Proof. exact ya_names_agree. Qed.

(* the adapter's image: what to_yansi_style builds denotes a quirk-free Style whose meaning is the projection *)
Theorem c16_rendered_yansi_convert_value : forall s, ad_src_ok s -> ya_src_u8 s ->
  exists v, ya_of_tstyle (ad_to_yansi s) = Some v /\ ya_style_ok v /\ ya_plain v /\
            ya_meaning v = ad_project AdYansi s.
Proof. exact yansi_convert_value. Qed.

(* render (convert s) interprets to project(s), both halves translated from source: anstyle_yansi::to_yansi_style,
   then yansi's rendering *)
Theorem c16_rendered_yansi_convert_render : forall o en s, ad_src_ok s -> ya_src_u8 s ->
  (t <- g_to_yansi_style s ;; v <- ya_of_tstyle t ;; bs <- g_yansi_render o en v ;; ad_interp_x bs)
  = Some (ad_project AdYansi s).
Proof. exact translated_yansi_convert_render. Qed.

(* in the vocabulary of the differential check: the bytes are a correct rendering of project(s) *)
Theorem c16_rendered_yansi_render_ok : forall o en s, ad_src_ok s -> ya_src_u8 s ->
  exists v bs, ya_of_tstyle (ad_to_yansi s) = Some v /\ g_yansi_render o en v = Some bs /\
               ad_render_ok (ad_project AdYansi s) bs = true.
Proof. exact translated_yansi_render_total. Qed.

(* the restriction to quirk-free styles is needed (outside the adapter's image): red + Quirk::Bright shows bright red *)
Theorem c16_rendered_yansi_quirk_refuted :
  exists st, ya_style_ok st /\ ya_cond st = None /\ ya_quirks st <> 0 /\
    (bs <- g_yansi_render ya_no_oracle false st ;; ad_interp_x bs) = Some (mkStyle (Some (CAnsi 9)) None None 0) /\
    ya_meaning st = mkStyle (Some (CAnsi 1)) None None 0.
Proof. exact yansi_render_quirk_refuted. Qed.
(* ---- the RENDERING code of termcolor (tools/gen_fn_termcolor.py -> Generated/TermcolorFn.v) -----
   [g_tcr_render] is the harness's `tc::render` (termcolor::Ansi::new(Vec::new()), set_color,
   write_all(b"x"), reset, into_inner) over the library's `Ansi<W>::set_color` / `write_color` /
   `reset` and the `ColorSpec` setters, all translated by tools/rs2v on every run from the registry
   source of the termcolor version Cargo.lock pins (the one cargo links into the harness).  A
   [tc_spec] is a termcolor::ColorSpec (Model/Termcolor.v), [tcr_spec_ok]: its colour components
   are u8 and no colour is the hidden variant `__Nonexhaustive`.  [tcr_bytes sp] spells the bytes
   out, [tcr_shown sp] is the rendition ([tcr_colour]: a named colour is CAnsi hue, with
   `set_intense` the 256-palette entry 8 + hue; [tcr_eff]: bold, dimmed, italic, underline,
   strikethrough).  [tcr_spec_of t] is the ColorSpec an abstract target style denotes (names ->
   the translated `ColorSpec::new` and setters); [tcr_render_tstyle t] renders it.  [ad_interp_x]
   (Spec/Targets) is the rendition Spec/Vt + Spec/Sgr give the text, read from the terminal's
   default state.  [tcr_src_u8 s]: the indexed / RGB components of the anstyle style are u8. *)
From AV Require Import Spec.Render Model.Termcolor Generated.TermcolorFn Proofs.TermcolorFnGen.

(* every ColorSpec: the translated library code does not panic, writes [tcr_bytes sp], and a
   terminal shows the text in the rendition [tcr_shown sp] *)
Theorem c16_rendered_termcolor_every_spec : forall sp, tcr_spec_ok sp ->
  g_tcr_render sp = Some (tcr_bytes sp) /\ ad_interp_x (tcr_bytes sp) = Some (tcr_shown sp).
Proof. exact tcr_render_shown. Qed.

(* every target style the meaning tables of Spec/Targets give a meaning to is a ColorSpec (built
   by the translated constructor and setters) whose [tcr_shown] is exactly that meaning *)
Theorem c16_rendered_termcolor_table_values : forall t m, tcr_tstyle_ok t -> ad_meaning AdTermcolor t = Some m ->
  exists sp, tcr_spec_of t = Some sp /\ tcr_spec_ok sp /\ tcr_shown sp = m.
Proof. exact tcr_meaning_shown. Qed.

(* [tcr_spec_of] is the call sequence of to_termcolor_spec: the abstract value the translated
   adapter builds for ColorSpec::new(); set_fg; set_bg; set_bold(b1); set_dimmed(b2); set_italic(b3);
   set_underline(b4) denotes the ColorSpec the translated constructor and setters build in that order
   ([tcr_n_set_bold] .. are the names "set_bold" .. as byte lists) *)
Theorem c16_rendered_termcolor_value_is_call_sequence : forall cf cb f b b1 b2 b3 b4,
  tcr_ocolor_of cf = Some f -> tcr_ocolor_of cb = Some b ->
  tcr_spec_of (ad_t_flag (ad_t_flag (ad_t_flag (ad_t_flag (ad_t_set_bg (ad_t_set_fg ad_t_new cf) cb)
                 tcr_n_set_bold b1) tcr_n_set_dimmed b2) tcr_n_set_italic b3) tcr_n_set_underline b4) =
  Some (fst (g_tcr_set_underline (fst (g_tcr_set_italic (fst (g_tcr_set_dimmed (fst (g_tcr_set_bold
         (fst (g_tcr_set_bg (fst (g_tcr_set_fg g_tcr_spec_new f)) b)) b1)) b2)) b3)) b4)).
Proof. exact tcr_spec_of_call_sequence. Qed.

(* hence the library RENDERS such a value as the tables say (no normalisation needed: equal) *)
Theorem c16_rendered_termcolor_as_tables_say : forall t m, tcr_tstyle_ok t -> ad_meaning AdTermcolor t = Some m ->
  exists bytes, tcr_render_tstyle t = Some bytes /\ ad_interp_x bytes = Some m /\ ad_render_ok m bytes = true.
Proof. exact tcr_meaning_rendered. Qed.

(* render (convert s) is read as project(s): translated adapter, then translated library, then
   the terminal -- for every anstyle style with u8 components *)
Theorem c16_rendered_termcolor_convert : forall s, ad_src_ok s -> tcr_src_u8 s ->
  exists bytes, (t <- g_to_termcolor_spec s ;; tcr_render_tstyle t) = Some bytes /\
                ad_interp_x bytes = Some (ad_project AdTermcolor s) /\
                ad_render_ok (ad_project AdTermcolor s) bytes = true.
Proof. exact tcr_convert_rendered. Qed.

(* outside the adapter's image: with `set_intense` every named colour is shown as palette entry
   8 + hue (both slots at once), which the "intense off" table of Spec/Targets does not cover *)
Theorem c16_rendered_termcolor_intense : forall sp, tcr_spec_ok sp -> tcs_intense sp = true ->
  exists bytes, g_tcr_render sp = Some bytes /\
    ad_interp_x bytes = Some (mkStyle (option_map (tcr_colour true) (tcs_fg_color sp))
                                      (option_map (tcr_colour true) (tcs_bg_color sp)) None (tcr_eff sp)).
Proof. exact tcr_intense_shown. Qed.

Theorem c16_rendered_termcolor_intense_witness :
  let sp := fst (g_tcr_set_intense (fst (g_tcr_set_fg g_tcr_spec_new (Some TcRed))) true) in
  option_map (fun bs => option_map ad_norm_style (ad_interp_x bs)) (g_tcr_render sp)
  = Some (Some (mkStyle (Some (CAnsi 9)) None None 0)).
Proof. exact tcr_intense_witness. Qed.

(* the hidden variant `Color::__Nonexhaustive` makes write_color panic (unreachable!) *)
Theorem c16_rendered_termcolor_nonexhaustive_panics :
  g_tcr_render (fst (g_tcr_set_fg g_tcr_spec_new (Some TcNonexhaustive))) = None.
Proof. exact g_tcr_render_nonexhaustive_panics. Qed.
(* ---- the RENDERING code of ansi_term itself (tools/gen_fn_ansiterm.py -> Generated/AnsiTermFn.v) -------------
   The source of the library (the version Cargo.lock pins, from the cargo registry: style.rs, ansi.rs, display.rs)
   is translated on every run: the builder methods, `Style::paint`, the Display impls, `write_prefix` /
   `write_suffix`, the colour codes.  [atm_style] / [atm_colour] are the library's struct / enum as they are
   declared, [g_atm_render v] is `v.paint("x").to_string().into_bytes()` (what harness/h-adapters runs),
   [atm_abstract v] names the value the way Spec/Targets.v names values, [g_atc_to_ansi_term] is the adapter
   translated over the concrete types (its builder calls are the translated methods). *)
From AV Require Import Model.AnsiTerm Generated.AnsiTermFn Proofs.AnsiTermFnGen.

(* the translated rendering never panics and writes what the hand model says *)
Theorem c16_rendered_ansiterm_is_model : forall v, g_atm_render v = Some (atm_render v).
Proof. exact translated_ansiterm_render_is_model. Qed.

(* for EVERY value of the type ansi_term::Style: a terminal in its default state (Spec/Vt + Spec/Sgr) shows one
   character, 'x', in exactly the rendition the meaning tables of Spec/Targets.v assign to the value *)
Theorem c16_rendered_ansiterm_meaning : forall v, atm_wf v ->
  exists bs, g_atm_render v = Some bs /\ ad_interp_x bs = ad_meaning AdAnsiTerm (atm_abstract v) /\
             ad_meaning AdAnsiTerm (atm_abstract v) = Some (atm_meaning v).
Proof. exact translated_ansiterm_render_meaning. Qed.

(* the adapter over the library's own types: the value it builds *)
Theorem c16_rendered_ansiterm_adapter_is_model : forall s, ad_src_ok s ->
  g_atc_to_ansi_term s = Some (atm_of_src s).
Proof. exact translated_ansiterm_adapter_is_model. Qed.

(* that value, read through the meaning tables, means what the abstract model's value means (c16_style_meaning) *)
Theorem c16_rendered_ansiterm_value_meaning : forall s, ad_src_ok s ->
  ad_meaning AdAnsiTerm (atm_abstract (atm_of_src s)) = ad_meaning AdAnsiTerm (ad_to_ansi_term s).
Proof. exact ansiterm_concrete_means_abstract. Qed.

(* render (convert s) interprets to project(s): bold on iff BOLD or a bright foreground, hues kept, background
   brightness dropped, indexed / RGB exact -- no identification of palette entries needed for ansi_term *)
Theorem c16_rendered_ansiterm_converted : forall s, ad_src_ok s -> atm_src_ok s ->
  exists bs, (g_atc_render_converted s = Some bs) /\ (ad_interp_x bs = Some (ad_project AdAnsiTerm s)).
Proof. exact rendered_ansiterm_converted. Qed.
(* ---- owo-colors 4.0.0 RENDERS the converted value as the meaning tables say (DESIGN.md section 12) -------------
   The rendering path of the third-party crate (Style::fmt_prefix / fmt_suffix, <Styled<&str> as Display>::fmt, the
   DynColors / AnsiColors / XtermColors / Rgb fmt_raw_ansi_fg / _bg, StyleFlags, the builder methods the adapter calls) is
   TRANSLATED from the cargo registry source of the version Cargo.lock pins (tools/gen_fn_owo.py -> Generated/OwoFn.v; the
   crate's macro_rules tables are expanded by tools/rs2v/mexpand.py).  [g_owo_render v text] = format!("{}", v.style(text));
   [owo_render] (Model/Owo.v) is the hand model; [owo_value s] the owo_colors::Style the adapter builds for s;
   [owo_src_ok s] = ad_src_ok s with u8 colour components; [owo_defect s] = background, no foreground and an effect
   owo-colors can express (finding F16-1).  [ad_interp_x] is the rendition Spec/Vt + Spec/Sgr give the "x". *)
From AV Require Import Model.Owo Generated.OwoFn Proofs.OwoRender Proofs.OwoFnColours Proofs.OwoFnGen.

(* the translated crate renders every Style without a CSS colour as the hand model says: no panic *)
Theorem c16_rendered_owo_translated_is_model : forall v text, owo_style_ok v ->
  g_owo_render v text = Some (owo_render v text).
Proof. exact translated_owo_render_is_model. Qed.

(* the adapter model's target style, run through the translated constructors and builder methods, is the crate's value *)
Theorem c16_rendered_owo_translated_value : forall t, g_owo_of_tstyle t = owo_of_tstyle g_owo_ansi_names t.
Proof. exact translated_owo_value_is_model. Qed.

Theorem c16_rendered_owo_value_of_adapter : forall s, owo_src_ok s ->
  owo_of_tstyle g_owo_ansi_names (ad_to_owo s) = Some (owo_value s).
Proof. exact owo_value_of_adapter. Qed.

(* ANY Style value (no CSS colour, u8 components) outside the separator defect: the bytes mean what its fields name *)
Theorem c16_rendered_owo_any_value : forall v, owo_style_ok v -> owo_rgb_u8 (ow_fg v) -> owo_rgb_u8 (ow_bg v) -> owo_sep_ok v ->
  (bytes <- g_owo_render v [120] ;; ad_interp_x bytes)
  = Some (mkStyle (owo_slot_meaning (ow_fg v)) (owo_slot_meaning (ow_bg v)) None (owo_eff_meaning (ow_bold v) (ow_flags v))).
Proof. exact translated_owo_render_meaning. Qed.

(* render (convert s) interprets to project(s): translated adapter ; translated crate ; terminal.  TRUE outside the defect *)
Theorem c16_rendered_owo_meaning : forall s, owo_src_ok s -> owo_defect s = false ->
  (bytes <- g_owo_convert_render s ;; ad_interp_x bytes) = Some (ad_project AdOwo s).
Proof. exact translated_owo_rendered_meaning. Qed.

Theorem c16_rendered_owo_render_ok : forall s, owo_src_ok s -> owo_defect s = false ->
  ad_render_ok (ad_project AdOwo s) (owo_render (owo_value s) [120]) = true.
Proof. exact owo_render_interp_ok. Qed.

(* REFUTED in the defect class (F16-1): bg red + bold renders as ESC[411m x ESC[0m, which a terminal shows unstyled *)
Theorem c16_rendered_owo_refuted :
  owo_src_ok owo_witness /\
  g_owo_convert_render owo_witness = Some [27; 91; 52; 49; 49; 109; 120; 27; 91; 48; 109] /\
  (bytes <- g_owo_convert_render owo_witness ;; ad_interp_x bytes) = Some style_default /\
  (bytes <- g_owo_convert_render owo_witness ;; Some (ad_render_ok (ad_project AdOwo owo_witness) bytes)) = Some false.
Proof. exact translated_owo_rendered_refuted. Qed.

Theorem c16_rendered_owo_full_statement_false :
  ~ (forall s, owo_src_ok s -> ad_render_ok (ad_project AdOwo s) (owo_render (owo_value s) [120]) = true).
Proof. exact owo_render_full_statement_false. Qed.
(* ---- crossterm RENDERS the converted value as the tables say (tools/gen_fn_crossterm.py -> Generated/CrosstermFn.v) ----
   The rendering code of the third-party crate crossterm (0.28.1, the version Cargo.lock pins; read from the cargo
   registry copy that harness/h-adapters links) is TRANSLATED on every run: Display of StyledContent,
   PrintStyledContent / SetForegroundColor / SetBackgroundColor / SetUnderlineColor / SetAttributes / SetAttribute /
   ResetColor ::write_ansi, Display of Colored, Attribute::{sgr, bytes}, Attributes::{set, has, is_empty}.
   [g_ct_of_tstyle t] reads the adapter's abstract target style (constructors / attributes by NAME) as the crossterm
   value with those names (attributes through the translated `Attributes::set`); [g_crossterm_render v] is
   `v.apply("x").to_string()` after `force_color_output(true)` (what harness/h-adapters runs); [ad_render_ok want bytes]
   (Spec/Targets.v): Spec/Vt + Spec/Sgr show "x" in rendition `want`, colours compared modulo the identification of
   palette entries 0-15 with the 16 ANSI colours (crossterm prints its named colours as 38;5;n).  [ct_src_u8]: indexed
   and RGB values fit a u8. *)
From AV Require Import Model.Crossterm Generated.CrosstermFn Proofs.CrosstermFnGen.

(* for EVERY value of crossterm's ContentStyle (any colour variant, any attribute bit set) and every text: no panic,
   and the bytes are SGR sequences (background, foreground, underline colour, one per attribute that is set in
   declaration order), the text, and the reset sequences *)
Theorem c16_rendered_crossterm_bytes : forall v text,
  g_crossterm_render_str false v text = Some (ct_render_bytes v text).
Proof. exact g_crossterm_render_str_eq. Qed.

(* render (convert s) interprets to project(s): to_crossterm as translated, its result as a crossterm value, crossterm's
   rendering as translated, interpreted from the terminal's default state *)
Theorem c16_rendered_crossterm_is_projection : forall s, ad_src_ok s -> ct_src_u8 s ->
  exists bytes, g_crossterm_pipeline s = Some bytes /\
    ad_render_ok_but_underline (ad_project AdCrossterm s) bytes = true /\
    (ad_one_underline (s_eff s) = true -> ad_render_ok (ad_project AdCrossterm s) bytes = true).
Proof. exact crossterm_rendered_is_projection. Qed.

(* the same against the meaning table: the library renders the adapter's value as Spec/Targets.v says it means *)
Theorem c16_rendered_crossterm_is_meaning : forall s, ad_src_ok s -> ct_src_u8 s -> ad_one_underline (s_eff s) = true ->
  exists t m bytes, g_to_crossterm s = Some t /\ ad_meaning AdCrossterm t = Some m /\
    (v <- g_ct_of_tstyle t ;; g_crossterm_render v) = Some bytes /\ ad_render_ok m bytes = true.
Proof. exact crossterm_rendered_is_meaning. Qed.

(* the value-level form: what the adapter model builds, as a crossterm value, and its rendering *)
Theorem c16_rendered_crossterm_image : forall s, ad_src_ok s -> ct_src_u8 s ->
  exists v bytes,
    g_ct_of_tstyle (ad_to_crossterm s) = Some v /\ g_crossterm_render v = Some bytes /\
    ad_render_ok_but_underline (ad_project AdCrossterm s) bytes = true /\
    (ad_one_underline (s_eff s) = true -> ad_render_ok (ad_project AdCrossterm s) bytes = true).
Proof. exact crossterm_render_image. Qed.

(* the hypothesis "at most one underline kind" cannot be dropped: UNDERLINE + DOUBLE_UNDERLINE renders as ESC[4m ESC[4:2m,
   a terminal has one underline attribute and shows the double underline only *)
Theorem c16_rendered_crossterm_two_underlines_refuted :
  exists s bytes, ad_src_ok s /\ ct_src_u8 s /\ g_crossterm_pipeline s = Some bytes /\
    ad_render_ok (ad_project AdCrossterm s) bytes = false.
Proof. exact crossterm_rendered_two_underlines_refuted. Qed.

(* outside what the harness runs: with colours switched off (NO_COLOR / force_color_output(false)) a colour command
   still prints "ESC [ m", an SGR reset (red + bold: ESC[m ESC[1m x ESC[0m) *)
Theorem c16_rendered_crossterm_colours_disabled :
  g_crossterm_render_str true (mkCtStyle (Some CtRed) None None 4) [120] =
  Some [27; 91; 109; 27; 91; 49; 109; 120; 27; 91; 48; 109].
Proof. exact crossterm_colours_disabled_witness. Qed.
