(* Props/C09.v -- property theorems for C09 (colour auto-detection follows the
   documented precedence for every environment).  Only statements, each closed by
   [exact].

   [choice_model global e tty] is the hand model of anstream::auto::choice with
   ColorChoice::global() = [global], std::env::var_os = [e] and
   raw.is_terminal() = [tty]; the [ch_*] probes are the hand models of
   anstyle_query (non-Windows blocks), with variable names and literals translated
   from the sources (Generated/Choice.v).  [choice_spec], the variable names
   NO_COLOR .. CI, [flag_word], [choice_word], [flag_choice_spec] are the
   independent specification (Spec/Choice.v).  An environment [e] is ANY function
   from names to optional byte strings: nothing is bounded or sampled. *)
From Coq Require Import NArith List Bool String.
From AV Require Import Spec.Choice Generated.Choice Model.Choice Proofs.Choice.
Import ListNotations.
Local Open Scope N_scope.

(* the byte strings the specification is written with spell the published names:
   NO_COLOR = "NO_COLOR", V_dumb = "dumb", W_always = "always", ... *)
Theorem c09_spelling : spelling.
Proof. exact spelling_holds. Qed.

(* the decision function is the decision list of the statement *)
Theorem c09_choice_is_spec : forall global e tty,
  choice_model global e tty = choice_spec global e tty.
Proof. exact choice_is_spec. Qed.

(* the decision is never "Auto" (AutoStream::auto's debug assertion) *)
Theorem c09_choice_never_auto : forall global e tty, choice_model global e tty <> ChAuto.
Proof. exact choice_never_auto. Qed.

(* NO_COLOR (no-color.org): present and not the empty string, whatever the value *)
Theorem c09_probe_no_color : forall e,
  ch_no_color e = true <-> exists v, e NO_COLOR = Some v /\ v <> [].
Proof. exact probe_no_color. Qed.

(* CLICOLOR_FORCE: likewise *)
Theorem c09_probe_clicolor_force : forall e,
  ch_clicolor_force e = true <-> exists v, e CLICOLOR_FORCE = Some v /\ v <> [].
Proof. exact probe_clicolor_force. Qed.

(* CLICOLOR: no answer when unset, otherwise Some (value <> "0") *)
Theorem c09_probe_clicolor : forall e,
  (ch_clicolor e = None <-> e CLICOLOR = None) /\
  (forall b, ch_clicolor e = Some b <-> exists v, e CLICOLOR = Some v /\ (b = true <-> v <> V_0)).
Proof. exact probe_clicolor. Qed.

(* TERM: set and different from "dumb" (both TERM probes on this platform) *)
Theorem c09_probe_term : forall e,
  ch_term_supports_color e = true <-> exists v, e TERM = Some v /\ v <> V_dumb.
Proof. exact probe_term. Qed.

Theorem c09_probe_term_ansi : forall e,
  ch_term_supports_ansi_color e = true <-> exists v, e TERM = Some v /\ v <> V_dumb.
Proof. exact probe_term_ansi. Qed.

(* COLORTERM: exactly "truecolor" or "24bit" *)
Theorem c09_probe_truecolor : forall e,
  ch_truecolor e = true <-> e COLORTERM = Some (V_truecolor) \/ e COLORTERM = Some (V_24bit).
Proof. exact probe_truecolor. Qed.

(* CI: set, whatever the value (even empty) *)
Theorem c09_probe_is_ci : forall e, ch_is_ci e = true <-> exists v, e CI = Some v.
Proof. exact probe_is_ci. Qed.

(* the command-line flag maps one-to-one onto the global choice, name for name *)
Theorem c09_flag_injective :
  (forall f g, ch_as_choice f = ch_as_choice g -> f = g) /\
  (forall f, choice_word (ch_as_choice f) = flag_word f).
Proof. exact flag_injective_named. Qed.

Theorem c09_flag_is_spec : forall f, ch_as_choice f = flag_choice_spec f.
Proof. exact flag_is_spec. Qed.

(* `--color <w>` selects choice c iff w is c's name and c is one of the three flag values *)
Theorem c09_flag_word_choice : forall w c,
  ch_flag_choice w = Some c <-> choice_word c = w /\ c <> ChAlwaysAnsi.
Proof. exact flag_word_choice. Qed.

(* the global choice survives its trip through the atomic usize *)
Theorem c09_atomic_roundtrip : forall c, ch_to_choice (ch_from_choice c) = Some c.
Proof. exact atomic_roundtrip. Qed.

(* stream types whose is_terminal is the constant `false` (Vec<u8>, dyn Write, ...)
   get the decision of a non-terminal *)
Theorem c09_const_false_streams : forall ty fd_tty global e,
  In ty ch_streams_const_false -> ch_choice_on ty fd_tty global e = Some (choice_spec global e false).
Proof. exact const_false_streams_choice. Qed.
