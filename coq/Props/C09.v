(* Props/C09.v -- property theorems for C09 (colour auto-detection follows the
   documented precedence for every environment).  Only statements, each closed by
   [exact].

   [choice_model global e tty] is the hand model of anstream::auto::choice with
   ColorChoice::global() = [global], std::env::var_os = [e] and
   raw.is_terminal() = [tty]; the [ch_*] probes are the hand models of
   anstyle_query (non-Windows blocks), with variable names and literals translated
   from the sources (Generated/Choice.v).  [choice_spec], the variable names
   NO_COLOR .. CI, [flag_word], [choice_word], [flag_choice_spec] are the
   independent specification (Spec/Choice.v).  An environment [e] is ANY function
   from names to optional byte strings: nothing is bounded or sampled. *)
From Coq Require Import NArith List Bool String.
From AV Require Import Spec.Choice Generated.Choice Model.Base Model.Choice Proofs.Choice Generated.ChoiceFn Proofs.ChoiceGen.
From AV Require Import Spec.Io Model.Stream Model.Glue Generated.MacrosFn Proofs.MacrosGen Proofs.MacrosChoice.
Import ListNotations.
Local Open Scope N_scope.

(* the byte strings the specification is written with spell the published names:
   NO_COLOR = "NO_COLOR", V_dumb = "dumb", W_always = "always", ... *)
Theorem c09_spelling : spelling.
Proof. exact spelling_holds. Qed.

(* the decision function is the decision list of the statement *)
Theorem c09_choice_is_spec : forall global e tty,
  choice_model global e tty = choice_spec global e tty.
Proof. exact choice_is_spec. Qed.

(* the decision is never "Auto" (AutoStream::auto's debug assertion) *)
Theorem c09_choice_never_auto : forall global e tty, choice_model global e tty <> ChAuto.
Proof. exact choice_never_auto. Qed.

(* NO_COLOR (no-color.org): present and not the empty string, whatever the value *)
Theorem c09_probe_no_color : forall e,
  ch_no_color e = true <-> exists v, e NO_COLOR = Some v /\ v <> [].
Proof. exact probe_no_color. Qed.

(* CLICOLOR_FORCE: likewise *)
Theorem c09_probe_clicolor_force : forall e,
  ch_clicolor_force e = true <-> exists v, e CLICOLOR_FORCE = Some v /\ v <> [].
Proof. exact probe_clicolor_force. Qed.

(* CLICOLOR: no answer when unset, otherwise Some (value <> "0") *)
Theorem c09_probe_clicolor : forall e,
  (ch_clicolor e = None <-> e CLICOLOR = None) /\
  (forall b, ch_clicolor e = Some b <-> exists v, e CLICOLOR = Some v /\ (b = true <-> v <> V_0)).
Proof. exact probe_clicolor. Qed.

(* TERM: set and different from "dumb" (both TERM probes on this platform) *)
Theorem c09_probe_term : forall e,
  ch_term_supports_color e = true <-> exists v, e TERM = Some v /\ v <> V_dumb.
Proof. exact probe_term. Qed.

Theorem c09_probe_term_ansi : forall e,
  ch_term_supports_ansi_color e = true <-> exists v, e TERM = Some v /\ v <> V_dumb.
Proof. exact probe_term_ansi. Qed.

(* COLORTERM: exactly "truecolor" or "24bit" *)
Theorem c09_probe_truecolor : forall e,
  ch_truecolor e = true <-> e COLORTERM = Some (V_truecolor) \/ e COLORTERM = Some (V_24bit).
Proof. exact probe_truecolor. Qed.

(* CI: set, whatever the value (even empty) *)
Theorem c09_probe_is_ci : forall e, ch_is_ci e = true <-> exists v, e CI = Some v.
Proof. exact probe_is_ci. Qed.

(* the command-line flag maps one-to-one onto the global choice, name for name *)
Theorem c09_flag_injective :
  (forall f g, ch_as_choice f = ch_as_choice g -> f = g) /\
  (forall f, choice_word (ch_as_choice f) = flag_word f).
Proof. exact flag_injective_named. Qed.

Theorem c09_flag_is_spec : forall f, ch_as_choice f = flag_choice_spec f.
Proof. exact flag_is_spec. Qed.

(* `--color <w>` selects choice c iff w is c's name and c is one of the three flag values *)
Theorem c09_flag_word_choice : forall w c,
  ch_flag_choice w = Some c <-> choice_word c = w /\ c <> ChAlwaysAnsi.
Proof. exact flag_word_choice. Qed.

(* the global choice survives its trip through the atomic usize *)
Theorem c09_atomic_roundtrip : forall c, ch_to_choice (ch_from_choice c) = Some c.
Proof. exact atomic_roundtrip. Qed.

(* stream types whose is_terminal is the constant `false` (Vec<u8>, dyn Write, ...)
   get the decision of a non-terminal *)
Theorem c09_const_false_streams : forall ty fd_tty global e,
  In ty ch_streams_const_false -> ch_choice_on ty fd_tty global e = Some (choice_spec global e false).
Proof. exact const_false_streams_choice. Qed.

(* ---- the tie by translation --------------------------------------------------------- *)

(* Generated/ChoiceFn.v is written on every run by tools/gen_fn_choice.py (tools/rs2v) from the Rust
   sources of anstyle_query::{clicolor, clicolor_force, no_color, term_supports_color,
   term_supports_ansi_color, truecolor, is_ci, non_empty} (non-Windows configuration),
   colorchoice::{AtomicChoice::{from_choice, to_choice, new, get, set}, ColorChoice::{global,
   write_global}}, colorchoice_clap::Color::{as_choice, write_global}, anstream::auto::choice and AutoStream::choice.
   [e] is std::env::var_os, [user] the value of `static USER` (an AtomicUsize = a register),
   [raw] the answer of raw.is_terminal(); None = a Rust panic (the `expect` of AtomicChoice::get). *)

(* the translated probes compute what the hand models -- the subjects of c09_probe_* -- compute *)
Theorem c09_translated_probes_are_model : forall e,
  g_clicolor e = Some (ch_clicolor e) /\ g_clicolor_force e = ch_clicolor_force e /\ g_no_color e = ch_no_color e /\
  g_term_supports_color e = Some (ch_term_supports_color e) /\
  g_term_supports_ansi_color e = Some (ch_term_supports_ansi_color e) /\
  g_truecolor e = ch_truecolor e /\ g_is_ci e = ch_is_ci e.
Proof. exact translated_probes_are_model. Qed.

(* the translated if/else chain of anstream::auto::choice is [choice_model] of the global the static holds *)
Theorem c09_translated_choice_is_model : forall e user raw,
  g_choice e user raw =
  match ch_to_choice user with Some g => Some (choice_model g e raw) | None => None end.
Proof. exact translated_choice_is_model. Qed.

Theorem c09_translated_autostream_choice_is_model : forall e user raw,
  g_autostream_choice e user raw =
  match ch_to_choice user with Some g => Some (choice_model g e raw) | None => None end.
Proof. exact translated_autostream_choice_is_model. Qed.

(* the translated arms of from_choice / to_choice / as_choice are the generated tables *)
Theorem c09_translated_from_choice : forall c, g_from_choice c = Some (ch_from_choice c).
Proof. exact g_from_choice_eq. Qed.

Theorem c09_translated_to_choice : forall n, g_to_choice n = Some (ch_to_choice n).
Proof. exact g_to_choice_eq. Qed.

Theorem c09_translated_as_choice : forall f, g_as_choice f = Some (ch_as_choice f).
Proof. exact g_as_choice_eq. Qed.

(* `c.write_global(); AutoStream::choice(&raw)`, translated code only: whatever the static held before, the
   decision is the decision list of the property, for every environment; it never panics *)
Theorem c09_translated_write_then_choice_is_spec : forall c e user raw,
  (u <- g_write_global c user ;; g_autostream_choice e u raw) = Some (choice_spec c e raw).
Proof. exact translated_write_then_choice_is_spec. Qed.

(* `Color { color: f }.write_global(); ColorChoice::global()`, translated code only *)
Theorem c09_translated_flag_then_global : forall f user,
  (u <- g_color_write_global f user ;; g_global u) = Some (flag_choice_spec f).
Proof. exact translated_flag_then_global_is_spec. Qed.

(* before any write_global: `static USER = AtomicChoice::new()` read back by ColorChoice::global() *)
Theorem c09_translated_initial_global : (u <- g_user_initial ;; g_global u) = Some ch_global_initial.
Proof. exact translated_initial_global. Qed.

(* impl Default for ColorChoice: `Auto` *)
Theorem c09_translated_default_choice : g_choice_default = ch_choice_default.
Proof. exact g_choice_default_eq. Qed.

(* impl Default for AtomicChoice: the value of AtomicChoice::new(), never panics *)
Theorem c09_translated_default_atomic : g_atomic_default = Some ch_atomic_default.
Proof. exact g_atomic_default_eq. Qed.

(* the default atomic is the initial value of `static USER`; read back (AtomicChoice::get, ColorChoice::global on
   the never-written static) it holds the default choice *)
Theorem c09_translated_defaults_agree :
  g_atomic_default = g_user_initial /\
  (a <- g_atomic_default ;; g_atomic_get a) = Some g_choice_default /\
  (u <- g_user_initial ;; g_global u) = Some g_choice_default.
Proof. exact translated_default_atomic_holds_default_choice. Qed.

(* the print macros (crates/anstream/src/_macros.rs, translated arm by arm: Generated/MacrosFn.v; [mac_arm err nl] = print!,
   println!, eprint!, eprintln!) meet the decision: when the answers of the std handle the macro names ([cf_of_choice]: its
   `choice(&raw)` = the hand model of this property for ITS OWN terminal-ness -- tty_out for print! / println!, tty_err for
   eprint! / eprintln! --, i.e. the translated g_choice by c09_translated_choice_is_model), then outside tests the macro
   strips exactly when the decision list says Never, forwards unchanged otherwise, and the stream it writes to is that same
   handle (the other handle's terminal-ness plays no role).  This theorem makes C09 depend on the translations of the
   stream area (gen_deps: StreamFn, FmtFn, AutoFn, GlueFn, MacrosFn) *)
Theorem c09_translated_print_follows_choice :
  forall lossy fmt_nl (err nl : bool) cfv ch g e (tty_out tty_err wv : bool) (so se : writer) world args,
  let tty := if err then tty_err else tty_out in
  let d := choice_model g e tty in
  d = choice_spec g e tty /\ d <> ChAuto /\
  mac_arm lossy fmt_nl err nl false false cfv ch (cf_of_choice g e tty wv) so se world args =
  match auto_op wv (match d with ChNever => MStrip | _ => MPass end) sb_new (if err then se else so)
                (OWriteFmt (if nl then fmt_nl args else args)) with
  | Some (s1, w1, r) =>
      Some (world ++ MWriteFmt (as_of (match d with ChNever => MStrip | _ => MPass end) s1 w1)
                               (match r with RErr e => inr e | _ => inl tt end)
                     :: match r with RErr e => [MPanicIo (if err then mac_msg_stderr else mac_msg_stdout) e] | _ => [] end)
  | None => None
  end.
Proof. exact translated_print_follows_choice. Qed.

(* ---- the third-party crates is_terminal_polyfill 1.48.1 and is-terminal 0.4.13, translated from the cargo registry
   (tools/gen_fn_htmlescape.py, generator IsTerminalFn; Proofs/IsTerminalGen.v).  [pf_os] is the operating system as far
   as is_terminal consults it (the descriptor a handle holds, libc::isatty of a descriptor), [pf_tty os w] = "isatty of
   w's OWN descriptor answered non-zero". ---- *)
From AV Require Import Generated.StreamFn Generated.AutoFn Generated.GlueFn Generated.IsTerminalFn Proofs.IsTerminalGen.

(* every impl of the polyfill (File, Stdin, StdinLock, Stdout, StdoutLock, Stderr, StderrLock) asks the operating system
   about the handle it is called on: the impl for Stdout asks stdout, the impl for Stderr asks stderr, ... *)
Theorem c09_translated_polyfill_asks_self : forall f, In f g_pf_impls -> forall os w, f os w = pf_tty os w.
Proof. exact translated_polyfill_asks_self. Qed.

(* ... which is what `raw.is_terminal()` means in the stream area (tools/gen_fn_glue.py reads
   `is_terminal_polyfill::IsTerminal::is_terminal(x)` as [raw_is_terminal cf x]) whenever [cf] describes that stream *)
Theorem c09_translated_polyfill_is_raw_is_terminal :
  forall f, In f g_pf_impls -> forall os cf w, pf_os_agrees os cf w -> f os w = raw_is_terminal cf w.
Proof. exact translated_polyfill_is_raw_is_terminal. Qed.

(* anstream's five descriptor-backed `impl IsTerminal` (Generated/GlueFn.v) answer what the polyfill's impl for the SAME
   std type answers *)
Theorem c09_translated_polyfill_meets_glue : forall os cf w,
  pf_os_agrees os cf w ->
  g_is_terminal_stdout cf w = g_pf_is_terminal_stdout os w /\
  g_is_terminal_stdoutlock cf w = g_pf_is_terminal_stdoutlock os w /\
  g_is_terminal_stderr cf w = g_pf_is_terminal_stderr os w /\
  g_is_terminal_stderrlock cf w = g_pf_is_terminal_stderrlock os w /\
  g_is_terminal_file cf w = g_pf_is_terminal_file os w.
Proof. exact translated_glue_asks_polyfill. Qed.

(* the translated decision fed with the polyfill's answer for a handle is the decision list at isatty of THAT handle *)
Theorem c09_translated_polyfill_choice : forall f, In f g_pf_impls -> forall e user os w,
  g_choice e user (f os w) =
  match ch_to_choice user with Some g => Some (choice_model g e (pf_tty os w)) | None => None end.
Proof. exact translated_polyfill_choice. Qed.
