(* Props/C06.v -- property theorems for C06 (the strip stream keeps the Write
   contract under short writes and errors).  Only statements, each closed by [exact].

   Vocabulary (Proofs/Stream.v, Proofs/StreamIo.v):
     kept s bs / after s bs : the output / the final state of the byte-at-a-time
       strip machine [mrun] started in stream state [s] (see c06_kept_after_def);
     full_accept c : the inner call [c] took its whole buffer;
     benign c      : [c] is an accept or an `Interrupted` failure (what std's
       write_all absorbs);
     err_calls cs k: [cs] = benign calls followed by a LAST call answered `Fail k`,
       or accepting 0 bytes of a non-empty buffer with k = WriteZero. *)
From Coq Require Import NArith List Bool.
From AV Require Import Generated.Table Spec.Io Spec.Strip Model.Base Model.Utf8parse Model.Parser Model.Strip
  Model.Stream Proofs.TableFacts Proofs.StripMachine Proofs.StripSim Proofs.StreamIo Proofs.Stream
  Generated.FmtFn Proofs.FmtGen Generated.StreamFn Proofs.StreamGen.
Import ListNotations.
Local Open Scope N_scope.

(* [kept] and [after] are the components of the machine run *)
Theorem c06_kept_after_def :
  forall s bs, bytes_ok bs ->
  mrun (sb_state s) (sb_u s) bs = Some (sb_state (after s bs), sb_u (after s bs), kept s bs).
Proof. exact kept_after_def. Qed.

(* from a fresh stream the machine keeps exactly what the specification keeps *)
Theorem c06_kept_new_is_spec :
  forall bs, bytes_ok bs -> kept sb_new bs = spec_strip bs.
Proof. exact kept_new_is_spec. Qed.

(* 1. one call of write, for every stream state, buffer and inner-writer script:
   it never panics and never answers Ok(()); Ok n: n <= len, the inner writer got
   exactly the kept bytes of buf[..n], and the state is EXACTLY the machine state
   after buf[..n]; Err k: exactly one inner write was made in this call, it was
   answered `Fail k`, nothing was delivered and the state is unchanged *)
Theorem c06_write_refines :
  forall s buf w,
  bytes_ok buf -> Inv (sb_state s) (sb_u s) ->
  (exists s' w' r, ss_write s buf w = Some (s', w', r) /\ r <> ROk) /\
  (forall s' w' n, ss_write s buf w = Some (s', w', ROkN n) ->
     n <= N.of_nat (length buf) /\
     w_received w' = w_received w ++ kept s (firstn (N.to_nat n) buf) /\
     s' = after s (firstn (N.to_nat n) buf)) /\
  (forall s' w' k, ss_write s buf w = Some (s', w', RErr k) ->
     s' = s /\ w_received w' = w_received w /\
     exists piece rest, piece <> [] /\ w_script w = Fail k :: rest /\ w_script w' = rest /\
                        w_calls w' = w_calls w ++ [CWrite piece (inr k)]).
Proof. exact write_refines. Qed.

(* 2. the standard caller protocol (resubmit the tail, retry on Interrupted), any
   fuel, state, script: what was delivered is a prefix p of the kept bytes, all of
   them (and the machine's final state) when the protocol ends with Ok *)
Theorem c06_protocol_delivers :
  forall fuel s w buf s' w' r,
  bytes_ok buf -> Inv (sb_state s) (sb_u s) ->
  ss_drive fuel s w buf = Some (s', w', r) ->
  exists p q, kept s buf = p ++ q /\ w_received w' = w_received w ++ p /\
              (r = ROk -> q = [] /\ s' = after s buf) /\ (forall n, r <> ROkN n).
Proof. exact protocol_delivers. Qed.

(* the fuel [length script + length buf + 1] always suffices *)
Theorem c06_protocol_fuel_suffices :
  forall fuel s w buf,
  bytes_ok buf -> Inv (sb_state s) (sb_u s) ->
  (length (w_script w) + length buf < fuel)%nat ->
  exists x, ss_drive fuel s w buf = Some x.
Proof. exact protocol_fuel_suffices. Qed.

(* from a fresh stream, in terms of the specification: the protocol always
   terminates, the inner writer holds a prefix of spec_strip input (nothing lost,
   duplicated, reordered, nothing invisible leaked), all of it on Ok *)
Theorem c06_protocol_delivers_spec_strip :
  forall script buf, bytes_ok buf ->
  exists s' w' r, ss_drive_all script buf = Some (s', w', r) /\
    (exists q, spec_strip buf = w_received w' ++ q /\ (r = ROk -> q = [])) /\
    (forall n, r <> ROkN n).
Proof. exact protocol_delivers_spec_strip. Qed.

(* 3. write_all: never panics; Ok: all kept bytes delivered, state = machine state;
   Err k: a prefix delivered, and k is the inner writer's last answer (or WriteZero) *)
Theorem c06_write_all_refines :
  forall s buf w,
  bytes_ok buf -> Inv (sb_state s) (sb_u s) ->
  (exists s' w' r, ss_write_all s buf w = Some (s', w', r) /\ forall n, r <> ROkN n) /\
  (forall s' w', ss_write_all s buf w = Some (s', w', ROk) ->
     w_received w' = w_received w ++ kept s buf /\ s' = after s buf) /\
  (forall s' w' k, ss_write_all s buf w = Some (s', w', RErr k) ->
     (exists p q, kept s buf = p ++ q /\ w_received w' = w_received w ++ p) /\
     exists cs, w_calls w' = w_calls w ++ cs /\ err_calls cs k).
Proof. exact write_all_refines. Qed.

(* formatted writes, for every fragmentation of the formatted text *)
Theorem c06_write_fmt_refines :
  forall s frags w,
  bytes_ok (concat frags) -> Inv (sb_state s) (sb_u s) ->
  (exists s' w' r, ss_write_fmt s frags w = Some (s', w', r) /\ forall n, r <> ROkN n) /\
  (forall s' w', ss_write_fmt s frags w = Some (s', w', ROk) ->
     w_received w' = w_received w ++ kept s (concat frags) /\ s' = after s (concat frags)) /\
  (forall s' w' k, ss_write_fmt s frags w = Some (s', w', RErr k) ->
     (exists p q, kept s (concat frags) = p ++ q /\ w_received w' = w_received w ++ p) /\
     exists cs, w_calls w' = w_calls w ++ cs /\ err_calls cs k).
Proof. exact write_fmt_refines. Qed.

(* write_vectored is write of the first non-empty buffer (c06_write_refines applies) *)
Theorem c06_vectored_refines :
  forall s w bufs,
  ss_op s w (OWriteVectored bufs) = ss_write s (first_nonempty bufs) w /\
  ((first_nonempty bufs = [] /\ Forall (fun b => b = []) bufs) \/
   (exists pre rest, bufs = pre ++ first_nonempty bufs :: rest /\
                     Forall (fun b => b = []) pre /\ first_nonempty bufs <> [])).
Proof. exact vectored_refines. Qed.

(* an Err carries a kind the inner writer produced in its last call (or WriteZero on
   `Accept 0`); a write answering Ok(len) saw only full accepts; write_all / write_fmt
   answering Ok saw no failure except the Interrupted ones std's write_all retries *)
Theorem c06_error_kind_preserved :
  forall s w,
  Inv (sb_state s) (sb_u s) ->
  (forall buf s' w' k, bytes_ok buf -> ss_write s buf w = Some (s', w', RErr k) ->
     exists piece, w_calls w' = w_calls w ++ [CWrite piece (inr k)]) /\
  (forall buf s' w' k, bytes_ok buf -> ss_write_all s buf w = Some (s', w', RErr k) ->
     exists cs, w_calls w' = w_calls w ++ cs /\ err_calls cs k) /\
  (forall frags s' w' k, bytes_ok (concat frags) -> ss_write_fmt s frags w = Some (s', w', RErr k) ->
     exists cs, w_calls w' = w_calls w ++ cs /\ err_calls cs k) /\
  (forall buf s' w', bytes_ok buf -> ss_write s buf w = Some (s', w', ROkN (N.of_nat (length buf))) ->
     exists cs, w_calls w' = w_calls w ++ cs /\ Forall full_accept cs) /\
  (forall buf s' w', bytes_ok buf -> ss_write_all s buf w = Some (s', w', ROk) ->
     exists cs, w_calls w' = w_calls w ++ cs /\ Forall benign cs) /\
  (forall frags s' w', bytes_ok (concat frags) -> ss_write_fmt s frags w = Some (s', w', ROk) ->
     exists cs, w_calls w' = w_calls w ++ cs /\ Forall benign cs).
Proof. exact error_kind_preserved. Qed.

(* std's write_all on the inner writer itself (used by write_all / write_fmt): its
   fuel suffices, Ok = everything delivered, Err = a prefix delivered + error origin *)
Theorem c06_inner_write_all :
  forall w buf w1 r, w_write_all w buf = (w1, r) -> w_write_all_post w buf w1 r.
Proof. exact w_write_all_spec. Qed.

(* finite fact used by the simulation behind kept = spec_strip: the generated table is
   the by-range VT model (complete enumeration of states x 256 bytes) *)
Theorem c06_table_is_williams :
  forall s b, b < 256 -> trans_matches s b = true.
Proof. exact table_is_williams. Qed.

(* non-vacuity: "ab ESC[0m Z" against [Accept 2; Fail Interrupted]: the second piece
   fails after the first was delivered, write answers Ok(6), the protocol resubmits
   "Z" and ends with everything delivered exactly once *)
Theorem c06_example :
  (exists s' w', ss_write sb_new [97; 98; 27; 91; 48; 109; 90] (writer_of [Accept 2; Fail Interrupted])
                 = Some (s', w', ROkN 6) /\ w_received w' = [97; 98]) /\
  (exists s' w', ss_drive_all [Accept 2; Fail Interrupted] [97; 98; 27; 91; 48; 109; 90]
                 = Some (s', w', ROk) /\ w_received w' = [97; 98; 90]) /\
  (exists w', ss_write sb_new [97; 98; 27; 91; 48; 109; 90] (writer_of [Fail WouldBlock])
              = Some (sb_new, w', RErr WouldBlock) /\ w_received w' = []) /\
  spec_strip [97; 98; 27; 91; 48; 109; 90] = [97; 98; 90].
Proof. vm_compute. repeat split; repeat eexists. Qed.

(* ---- the Rust functions themselves -----------------------------------------------------
   Generated/StreamFn.v is the TRANSLATION (tools/rs2v, tools/gen_fn_stream.py) of the free
   functions offset_to / write / write_all / write_fmt of crates/anstream/src/strip.rs and of the
   `impl io::Write for StripStream` methods that delegate to them, regenerated from the
   working tree on every run.  The translated code computes exactly what the hand model -- the
   subject of every theorem above -- computes (conv_n / conv_u only reorder the result triple and
   rename io::Result to sres).  (`raw`, `strip_next` and sub-slices of the buffer are vocabulary: see
   tools/gen_fn_stream.py; write_vectored and fmt::Adapter are translated too, see the end of this file.) *)
Theorem c06_translated_offset_to_is_piece_offset :
  forall total p, g_offset_to total p = Some (p_off p).
Proof. exact g_offset_to_eq. Qed.

Theorem c06_translated_write_is_model :
  forall raw s buf, conv_n (g_write raw s buf) = ss_write s buf raw.
Proof. exact g_write_eq. Qed.

Theorem c06_translated_write_all_is_model :
  forall raw s buf, conv_u (g_write_all raw s buf) = ss_write_all s buf raw.
Proof. exact g_write_all_eq. Qed.

Theorem c06_translated_write_fmt_is_model :
  forall raw s frags, conv_u (g_write_fmt raw s frags) = ss_write_fmt s frags raw.
Proof. exact g_write_fmt_eq. Qed.

(* the Write methods of StripStream { raw, state }, any operation sequence *)
Theorem c06_translated_stream_is_model :
  forall b ops x,
  match g_ss_run x ops with Some (x1, rs) => Some (ss_state x1, ss_raw x1, rs) | None => None end
  = run_ops b MStrip (ss_state x) (ss_raw x) ops.
Proof. exact translated_stream_is_model. Qed.

(* write_vectored, TRANSLATED (`bufs.iter().find(|b| !b.is_empty()).map(|b| &**b).unwrap_or(&[][..])`, then `self.write`):
   the translated `write` on the hand model's first_nonempty (c06_write_vectored_is_write_of_first_nonempty) *)
Theorem c06_translated_write_vectored_is_first_nonempty :
  forall x bufs, g_ss_write_vectored x bufs = g_ss_write x (first_nonempty bufs).
Proof. exact g_ss_write_vectored_first. Qed.

(* crates/anstream/src/fmt.rs, TRANSLATED (Generated/FmtFn.v: Adapter::new, Adapter::write_fmt, fmt::Write::write_str;
   `core::fmt::write` = one write_str per fragment, stopping at the first error: Model/Stream.v core_fmt_write):
   `Adapter::new(closure).write_fmt(args)` calls the closure once per fragment, in order, each time on the state the
   previous call left; the first io::Error stops it and is the answer (the error slot), otherwise Ok(()); the captured
   variables end as the hand model fmt_adapter_write_fmt leaves them.  For EVERY closure [f] and captured state [st] *)
Theorem c06_translated_adapter_is_model :
  forall (S : Type) (f : list N -> S -> option (S * (unit + ekind))) st frags,
  match g_adapter_write_fmt S (g_adapter_new S (f, st)) frags with
  | Some (ad, r) => Some (snd (fa_writer S ad), r)
  | None => None
  end = fmt_adapter_write_fmt f st frags.
Proof. exact g_adapter_write_fmt_eq. Qed.
