(* Props/C20.v -- property theorems for C20 (parser feature configurations differ
   only by their documented limits).  Only statements, each closed by [exact];
   one closed example by [vm_compute].

   Vocabulary (Model/Parser.v is the C02 model, unchanged):
     cfg = {osc_cap : option N; utf8_on : bool};  feature `core` => osc_cap =
     Some MAX_OSC_RAW (ArrayVec + `is_full` early return in OscPut), feature
     `utf8` => utf8_on; [None] as a result = the Rust code would panic.
     pc_cfgs          the four feature sets {default, core, core+utf8, none}
                      resolved through Cargo.toml's feature table (translated)
     pc_seven_bit bs  every byte < 128
     pc_osc_fit cap bs  running the default configuration over bs, no byte is
                      handed to OscPut while osc_raw already holds cap bytes
     pc_trunc cap u p bs  bs with every byte deleted that the heap configuration,
                      started in p, would hand to OscPut while osc_raw already
                      holds cap bytes (';' included); on the payload bytes of one
                      OSC string this is pc_cut (c20_truncation_shape)
     pc_core p        p with osc_raw / osc_params / osc_num_params blanked
     pc_sync p q      pc_core p = pc_core q, and inside an OSC string also the
                      live OSC bookkeeping agrees (entries of osc_params at or
                      above osc_num_params are dead: rewritten before read) *)
From Coq Require Import NArith List Bool.
From AV Require Import Generated.Table Generated.ParseCfg Spec.Vt Model.Base Model.Parser
  Model.ParseCfg Proofs.ParseCfg Model.Utf8parse Generated.ParserFn Proofs.ParserGen.
From AV Require Import Model.Utf8parse Model.Imp Generated.Utf8parseFn Proofs.Utf8parseGen.
Import ListNotations.
Local Open Scope N_scope.

(* 7-bit input, every configured buffer fits: any two configurations run
   identically -- same events, same final parser, same panics (in particular the
   no-utf8 build never reaches `unreachable!`) *)
Theorem c20_cfg_equiv :
  forall c1 c2 bs,
    pc_seven_bit bs -> pc_cfg_fits c1 bs -> pc_cfg_fits c2 bs ->
    run c1 parser_new bs = run c2 parser_new bs.
Proof. exact pc_cfg_equiv. Qed.

(* the same for the four feature sets of the property and MAX_OSC_RAW *)
Theorem c20_four_builds_equiv :
  forall c1 c2 bs,
    In c1 pc_cfgs -> In c2 pc_cfgs -> pc_seven_bit bs -> pc_osc_fit pc_max_osc_raw bs ->
    pc_events c1 bs = pc_events c2 bs.
Proof. exact pc_four_builds_equiv. Qed.

Theorem c20_four_builds_are :
  pc_cfgs = [mkCfg None true; mkCfg (Some pc_max_osc_raw) false;
             mkCfg (Some pc_max_osc_raw) true; mkCfg None false].
Proof. exact pc_cfgs_are. Qed.

(* fixed buffer, every input, every prefix: osc_raw never holds more than cap
   bytes *)
Theorem c20_osc_never_overflows :
  forall cap u bs1 bs2 p' e,
    run (mkCfg (Some cap) u) parser_new (bs1 ++ bs2) = Some (p', e) ->
    exists p1 e1, run (mkCfg (Some cap) u) parser_new bs1 = Some (p1, e1) /\
                  N.of_nat (length (osc_raw p1)) <= cap /\
                  N.of_nat (length (osc_raw p')) <= cap.
Proof. exact pc_osc_never_overflows. Qed.

(* ... and a byte is pushed only while there is room (ArrayVec::push cannot panic) *)
Theorem c20_push_has_room :
  forall cap u p b p' e,
    N.of_nat (length (osc_raw p)) <= cap ->
    perform_action (mkCfg (Some cap) u) p AOscPut b = Some (p', e) ->
    length (osc_raw p') = S (length (osc_raw p)) -> N.of_nat (length (osc_raw p)) < cap.
Proof. exact pc_push_has_room. Qed.

(* fixed buffer, every input, from every parser state: the run IS the heap
   configuration's run on the truncated input -- same events (so the OSC fields
   reported are the heap configuration's fields of the truncated payload), same
   final parser, same panics *)
Theorem c20_osc_truncated :
  forall cap u bs p,
    run (mkCfg (Some cap) u) p bs = run (mkCfg None u) p (pc_trunc cap u p bs).
Proof. exact pc_run_trunc. Qed.

(* what is deleted from one OSC payload: with [room] free bytes, everything from
   the first byte (';' included) that arrives when room non-';' bytes have been
   stored; so no later field boundary is recorded *)
Theorem c20_truncation_shape :
  forall cap u body p p' e,
    pstate p = OscString -> Forall (fun b => 32 <= b < 256) body ->
    N.of_nat (length (osc_raw p)) <= cap ->
    run (mkCfg None u) p body = Some (p', e) ->
    pc_trunc cap u p body = pc_cut (N.to_nat (cap - N.of_nat (length (osc_raw p)))) body.
Proof. exact pc_trunc_payload. Qed.

(* an input that fits is not truncated *)
Theorem c20_fit_not_truncated :
  forall cap u bs p, pc_fitb cap u p bs = true -> pc_trunc cap u p bs = bs.
Proof. exact pc_fit_trunc_id. Qed.

(* parsing of what follows is unaffected: after ANY input bs1 that leaves the
   parser outside an OSC string (e.g. just after the terminator of an oversize
   OSC), fixed-buffer and heap parser agree on pstate and all bookkeeping except
   the dead OSC fields, emit identical events on every continuation bs2 whose
   own payloads fit, and end equal up to dead OSC data again *)
Theorem c20_after_osc_unaffected :
  forall cap u bs1 bs2 pf1 ef1 pd1 ed1 pf2 ef2 pd2 ed2,
    run (mkCfg (Some cap) u) parser_new bs1 = Some (pf1, ef1) ->
    run (mkCfg None u) parser_new bs1 = Some (pd1, ed1) ->
    pstate pd1 <> OscString ->
    pc_fitb cap u pd1 bs2 = true ->
    run (mkCfg (Some cap) u) pf1 bs2 = Some (pf2, ef2) ->
    run (mkCfg None u) pd1 bs2 = Some (pd2, ed2) ->
    pc_core pf1 = pc_core pd1 /\ ef2 = ed2 /\ pc_sync pf2 pd2.
Proof. exact pc_after_osc_unaffected. Qed.

(* at every point of every input, oversize payloads included, both parsers are in
   the same state with the same non-OSC bookkeeping *)
Theorem c20_state_always_agrees :
  forall cap u bs pf ef pd ed,
    run (mkCfg (Some cap) u) parser_new bs = Some (pf, ef) ->
    run (mkCfg None u) parser_new bs = Some (pd, ed) ->
    pstate pf = pstate pd /\ intermediates pf = intermediates pd /\
    intermediate_idx pf = intermediate_idx pd /\ pparams pf = pparams pd /\
    pparam pf = pparam pd /\ ignoring pf = ignoring pd /\ utf8_parser pf = utf8_parser pd.
Proof. exact pc_core_always. Qed.

(* without `utf8` the only additional panic is a byte C2..F4 arriving in Ground *)
Theorem c20_no_utf8_panics_only_on_high_bytes :
  forall cap bs p,
    pstate p <> Utf8 ->
    run (mkCfg cap false) p bs = None -> run (mkCfg cap true) p bs <> None ->
    exists pre b post q e,
      bs = pre ++ b :: post /\ run (mkCfg cap true) p pre = Some (q, e) /\
      pstate q = Ground /\ 194 <= b <= 244.
Proof. exact pc_no_utf8_panic. Qed.

(* ESC ] 0 ; A^1030 ; x BEL Z ESC [ 1 m : the `core` builds report the fields
   "0" and A^1023 (1024 stored bytes; the last 7 A, the ';' and the x are lost),
   the heap builds report "0", A^1030, "x"; what follows is parsed alike *)
Example c20_example_1030 :
  let input := [27; 93; 48; 59] ++ repeat 65 (N.to_nat 1030) ++ [59; 120; 7; 90; 27; 91; 49; 109] in
  let tail := [EPrint 90; ECsi [[1]] [] false 109] in
  pc_events (pc_cfg_of true true) input = Some (EOsc [[48]; repeat 65 (N.to_nat 1023)] true :: tail) /\
  pc_events (pc_cfg_of true false) input = Some (EOsc [[48]; repeat 65 (N.to_nat 1023)] true :: tail) /\
  pc_events (pc_cfg_of false true) input = Some (EOsc [[48]; repeat 65 (N.to_nat 1030); [120]] true :: tail) /\
  pc_events (pc_cfg_of false false) input = Some (EOsc [[48]; repeat 65 (N.to_nat 1030); [120]] true :: tail).
Proof. vm_compute. repeat split; reflexivity. Qed.

(* ---- the tie by translation, configuration-dependent parts (Generated/ParserFn.v, tools/gen_fn_parser.py) ----- *)

(* the translated code (`#[cfg(feature = "core")]` blocks as `if cfg_core c`, the accumulator chosen by `utf8`),
   started from the translated Parser::new(), is the model the theorems above run, in every configuration *)
Theorem c20_translated_parser_is_model :
  forall c bs, g_run c (g_parser_new c) [] bs = run c parser_new bs.
Proof. exact translated_parser_from_new. Qed.

(* Parser::new() does not depend on the features *)
Theorem c20_translated_new_cfg_independent :
  forall c1 c2, g_parser_new c1 = g_parser_new c2.
Proof. exact g_parser_new_cfg_independent. Qed.

(* DefaultCharAccumulator: without `utf8` it is AsciiParser, whose add is `unreachable!`; with `utf8` it is
   Utf8Parser: the utf8parse decoder, the callbacks storing the code point / U+FFFD *)
Theorem c20_translated_char_add_no_utf8 :
  forall c u b, utf8_on c = false -> g_char_add c u b = None.
Proof. exact g_char_add_no_utf8. Qed.

Theorem c20_translated_char_add_utf8 :
  forall c u b, utf8_on c = true ->
  g_char_add c u b =
  Some (fst (u8_parser_advance u b),
        match snd (u8_parser_advance u b) with U8None => None | U8Codepoint cp => Some cp | U8Invalid => Some 65533 end).
Proof. exact g_char_add_utf8. Qed.

(* Action::OscPut as translated: ArrayVec::is_full, the cfg(core) guard, and ArrayVec::push with ITS panic on a full
   buffer (the hand model has none); storing a payload byte never panics, in any configuration *)
Theorem c20_translated_osc_put_is_model :
  forall c p perf b, g_perform_action c p perf AOscPut b = acc perf (perform_action c p AOscPut b).
Proof. exact g_osc_put_eq. Qed.

Theorem c20_translated_osc_put_push_never_panics :
  forall c p perf b, b <> 59 -> g_perform_action c p perf AOscPut b <> None.
Proof. exact g_osc_put_byte_no_panic. Qed.
(* ==== the `utf8` feature, translated ==========================================================
   With `utf8` the character accumulator is `Utf8Parser` (the third-party decoder `utf8parse`, translated from
   the registry source of the version Cargo.lock pins: Generated/Utf8parseFn.v, tools/gen_fn_utf8parse.py),
   without it `AsciiParser`, whose `add` is `unreachable!`.  Both `CharAccumulator::add` impls, translated from
   crates/anstyle-parse/src/lib.rs, are the hand model's [char_add] under the configuration's [utf8_on]. *)
Theorem c20_translated_char_add_is_model :
  forall c u b,
    (if utf8_on c then g_pa_utf8_add u b
     else option_map (fun '(_, o) => (u, o)) (g_pa_ascii_add tt b)) = char_add c u b.
Proof. exact translated_char_add_is_model. Qed.

Theorem c20_translated_utf8parse_advance :
  forall p r b, g_u8_parser_advance p r b =
    Some (fst (u8_parser_advance p b), r ++ u8_events (snd (u8_parser_advance p b))).
Proof. exact g_u8_parser_advance_eq. Qed.

(* ==== the `core` feature's buffer, translated: arrayvec's `ArrayVec<T, CAP>` ======================
   With `core`, `osc_raw` is an `ArrayVec<u8, MAX_OSC_RAW>` of the third-party crate arrayvec.  The methods
   anstyle-parse calls on it (Default / new, clear, is_full, len, push, Deref for the indexing) and everything
   they reach inside the crate (trait ArrayVecImpl's default bodies try_push / push_unchecked / truncate /
   as_slice, set_len, as_ptr / as_mut_ptr, CapacityError::new, the macro assert_capacity_limit!) are
   translated from the registry source of the version Cargo.lock pins (Generated/ArrayVecFn.v,
   tools/gen_fn_arrayvec.py).  It is unsafe code over `[MaybeUninit<T>; CAP]` + `len`, read at value level
   (Model/ArrayVec.v, trusted: a slot is an option, a pointer into the buffer a slot index, undefined
   behaviour = None like a panic).  [av_rep cap v l]: the vector v holds the list l -- slots [0, len) are
   initialised and are l, len <= CAP = length of the buffer, CAP fits LenUint.  On represented vectors the
   translated methods behave as the list model (the avl_ functions) that the parser's translation uses, preserve the
   representation, and reach None only where the list model panics (push on a full vector). *)
From AV Require Import Model.ArrayVec Generated.ArrayVecFn Proofs.ArrayVecGen.

Theorem c20_translated_arrayvec_new :
  forall (T : Type) cap, g_av_new T cap = option_map (fun _ => av_empty T cap) (@avl_new T cap).
Proof. exact g_av_new_eq. Qed.

Theorem c20_translated_arrayvec_new_is_empty :
  forall (T : Type) cap v, g_av_new T cap = Some v -> av_rep cap v [] /\ @avl_new T cap = Some [].
Proof. exact g_av_new_rep. Qed.

Theorem c20_translated_arrayvec_new_panics_iff_cap_exceeds_u32 :
  forall (T : Type) cap, g_av_new T cap = None <-> av_len_uint_max < cap.
Proof. exact g_av_new_panics. Qed.

Theorem c20_translated_arrayvec_default_is_new :
  forall (T : Type) cap, g_av_default T cap = g_av_new T cap.
Proof. exact g_av_default_eq. Qed.

Theorem c20_translated_arrayvec_default_max_osc_raw :
  exists v0, g_av_default N pc_max_osc_raw = Some v0 /\ av_rep pc_max_osc_raw v0 ([] : list N).
Proof. exact translated_arrayvec_default_max_osc_raw. Qed.

Theorem c20_translated_arrayvec_len :
  forall (T : Type) cap v l, av_rep cap v l -> g_av_len T v = avl_len l.
Proof. exact g_av_len_eq. Qed.

Theorem c20_translated_arrayvec_is_full :
  forall (T : Type) cap v l, av_rep cap v l -> g_av_is_full T cap v = avl_is_full cap l.
Proof. exact g_av_is_full_eq. Qed.

Theorem c20_translated_arrayvec_is_empty :
  forall (T : Type) cap v l, av_rep cap v l -> g_av_is_empty T v = avl_is_empty l.
Proof. exact g_av_is_empty_eq. Qed.

Theorem c20_translated_arrayvec_remaining_capacity :
  forall (T : Type) cap v l, av_rep cap v l ->
    g_av_remaining_capacity T cap v = avl_remaining cap l /\ avl_remaining cap l = Some (cap - len l).
Proof. exact g_av_remaining_capacity_eq. Qed.

(* as_slice / Deref: `slice::from_raw_parts(self.as_ptr(), len)` reads initialised slots only *)
Theorem c20_translated_arrayvec_as_slice :
  forall (T : Type) cap v l, av_rep cap v l -> g_av_as_slice T v = Some l.
Proof. exact g_av_as_slice_eq. Qed.

Theorem c20_translated_arrayvec_deref :
  forall (T : Type) cap v l, av_rep cap v l -> g_av_deref T v = Some l.
Proof. exact g_av_deref_eq. Qed.

(* try_push: Ok and the element appended while there is room, else Err(CapacityError { element }) and no change *)
Theorem c20_translated_arrayvec_try_push :
  forall (T : Type) cap v l x, av_rep cap v l ->
    try_push_sim T cap (g_av_try_push T cap v x) (avl_try_push cap l x).
Proof. exact g_av_try_push_eq. Qed.

(* push = try_push(..).unwrap(): appends, PANICS on a full vector -- and only then *)
Theorem c20_translated_arrayvec_push :
  forall (T : Type) cap v l x, av_rep cap v l -> osim T cap (g_av_push T cap v x) (avl_push cap l x).
Proof. exact g_av_push_eq. Qed.

Theorem c20_translated_arrayvec_push_panics_iff_full :
  forall (T : Type) cap v l x, av_rep cap v l -> (g_av_push T cap v x = None <-> avl_is_full cap l = true).
Proof. exact g_av_push_panics_iff_full. Qed.

(* push_unchecked: `ptr::write` to slot len stays inside the buffer exactly when there is room (else the
   debug assertion fails before the write) *)
Theorem c20_translated_arrayvec_push_unchecked :
  forall (T : Type) cap v l x, av_rep cap v l -> osim T cap (g_av_push_unchecked T cap v x) (avl_push cap l x).
Proof. exact g_av_push_unchecked_eq. Qed.

Theorem c20_translated_arrayvec_set_len :
  forall (T : Type) cap v n, cap <= av_len_uint_max -> n <= cap -> g_avi_set_len T cap v n = Some (set_av_len v n).
Proof. exact g_avi_set_len_eq. Qed.

(* truncate / clear / Drop: `drop_in_place` of the slots [new_len, len) -- all initialised -- never fails *)
Theorem c20_translated_arrayvec_truncate :
  forall (T : Type) cap v l n, av_rep cap v l ->
    exists v', g_av_truncate T cap v n = Some v' /\ av_rep cap v' (avl_truncate l n).
Proof. exact g_av_truncate_eq. Qed.

Theorem c20_translated_arrayvec_clear :
  forall (T : Type) cap v l, av_rep cap v l ->
    exists v', g_av_clear T cap v = Some v' /\ av_rep cap v' (avl_clear l).
Proof. exact g_av_clear_eq. Qed.

Theorem c20_translated_arrayvec_drop :
  forall (T : Type) cap v l, av_rep cap v l -> exists v', g_av_drop T cap v = Some v' /\ av_rep cap v' [].
Proof. exact g_av_drop_eq. Qed.

(* any script of push / try_push / clear / truncate, from any represented vector *)
Theorem c20_translated_arrayvec_run :
  forall (T : Type) cap os v l, av_rep cap v l -> osim T cap (g_av_run T cap v os) (avl_run cap l os).
Proof. exact g_av_run_eq. Qed.

(* ENTRY POINT: from `ArrayVec::new()`, any script: same panics as the list model, and then the same answers *)
Theorem c20_translated_arrayvec_is_model :
  forall (T : Type) cap os v0,
    g_av_new T cap = Some v0 ->
    match g_av_run T cap v0 os, avl_run cap [] os with
    | Some v, Some l =>
        g_av_len T v = avl_len l /\ g_av_is_full T cap v = avl_is_full cap l /\ g_av_is_empty T v = avl_is_empty l /\
        g_av_as_slice T v = Some l /\ g_av_deref T v = Some l /\ len l <= cap
    | None, None => True
    | _, _ => False
    end.
Proof. exact translated_arrayvec_is_model. Qed.

(* the list operations the parser's translation (Generated/ParserFn.v) writes for `osc_raw` under `core` --
   raw_full, len, slice, the guarded `++ [b]`, [] -- are what the translated ArrayVec<u8, cap> does *)
Theorem c20_translated_arrayvec_is_parser_buffer :
  forall c cap (v : avec N) (raw : list N),
    osc_cap c = Some cap -> av_rep cap v raw ->
    g_av_is_full N cap v = raw_full c raw /\
    g_av_len N v = len raw /\
    (forall a b, r <- g_av_deref N v ;; slice r a b = slice raw a b) /\
    (forall b, osim N cap (g_av_push N cap v b) (if cfg_core c && raw_full c raw then None else Some (raw ++ [b]))) /\
    (exists v', g_av_clear N cap v = Some v' /\ av_rep cap v' []).
Proof. exact translated_arrayvec_is_parser_buffer. Qed.
