(* Props/C08.v -- property theorems for C08 (AutoStream modes: Never strips,
   AlwaysAnsi / Always forward unchanged).  Only statements, each closed by [exact].

   Vocabulary (Proofs/StreamAuto.v): ss_run = StripStream driven directly (the
   fold of ss_op); pass_run = the inner writer driven directly (the fold of
   pass_op); pass_data b o = the bytes operation o hands over (write_vectored:
   every buffer when the inner writer has real vectored writes, b = true, else
   the first non-empty one); pass_res = the answer when nothing fails;
   strip_data / strip_res = the same for the strip arm.  In the model the inner
   writer is threaded through run_ops, so "taking the inner writer back" is the
   writer component of the result. *)
From Coq Require Import NArith List Bool.
From AV Require Import Generated.Table Spec.Io Spec.Strip Model.Base Model.Utf8parse Model.Parser Model.Strip
  Model.Stream Proofs.TableFacts Proofs.StripMachine Proofs.StripSim Proofs.StreamIo Proofs.Stream
  Proofs.StreamAuto Generated.StreamFn Proofs.StreamGen Generated.AutoFn Proofs.AutoGen
  Model.Glue Generated.GlueFn Proofs.GlueGen Generated.MacrosFn Proofs.MacrosGen.
Import ListNotations.
Local Open Scope N_scope.

(* Never: any operation sequence, any script: same results, same inner writer
   (script, received bytes, call history), same stream state as StripStream *)
Theorem c08_never_is_strip :
  forall b d s w ops, run_ops b (auto_mode CNever d) s w ops = ss_run s w ops.
Proof. exact never_is_strip. Qed.

(* AlwaysAnsi and Always: the operations applied to the inner writer itself; with
   an accept-all writer every call succeeds and the bytes arrive unchanged *)
Theorem c08_always_ansi_is_identity :
  forall b d c s w ops,
  c = CAlwaysAnsi \/ c = CAlways ->
  run_ops b (auto_mode c d) s w ops = Some (s, fst (pass_run b w ops), snd (pass_run b w ops)) /\
  (w_script w = [] ->
   snd (pass_run b w ops) = map (pass_res b) ops /\
   w_received (fst (pass_run b w ops)) = w_received w ++ concat (map (pass_data b) ops)).
Proof. exact always_ansi_is_identity. Qed.

Theorem c08_always_eq_always_ansi :
  forall b d s w ops,
  run_ops b (auto_mode CAlways d) s w ops = run_ops b (auto_mode CAlwaysAnsi d) s w ops.
Proof. exact always_eq_always_ansi. Qed.

Theorem c08_current_choice :
  forall d,
  current_choice (auto_mode CNever d) = CNever /\
  current_choice (auto_mode CAlwaysAnsi d) = CAlwaysAnsi /\
  current_choice (auto_mode CAlways d) = CAlwaysAnsi /\
  current_choice (auto_mode CAuto d) = match d with CNever => CNever | _ => CAlwaysAnsi end.
Proof. exact current_choice_spec. Qed.

(* the reported choice is the arm in force *)
Theorem c08_reported_mode_in_force :
  forall b m s w ops,
  (current_choice m = CNever -> run_ops b m s w ops = ss_run s w ops) /\
  (current_choice m = CAlwaysAnsi ->
   run_ops b m s w ops = Some (s, fst (pass_run b w ops), snd (pass_run b w ops))).
Proof. exact reported_mode_in_force. Qed.

(* Never, fresh stream, accept-all inner writer, ANY interleaving of write,
   write_all, write_vectored, write_fmt and flush: every call succeeds and the
   inner writer has received exactly spec_strip of all the data (C03's fold law) *)
Theorem c08_never_delivers_spec_strip :
  forall b d w ops,
  w_script w = [] -> bytes_ok (concat (map strip_data ops)) ->
  exists s' w',
    run_ops b (auto_mode CNever d) sb_new w ops = Some (s', w', map strip_res ops) /\
    w_received w' = w_received w ++ spec_strip (concat (map strip_data ops)).
Proof. exact never_delivers_spec_strip. Qed.

(* finite fact used by the simulation behind kept = spec_strip: the generated table is
   the by-range VT model (complete enumeration of states x 256 bytes) *)
Theorem c08_table_is_williams :
  forall s b, b < 256 -> trans_matches s b = true.
Proof. exact table_is_williams. Qed.

(* non-vacuity: the same three operations under Never and under AlwaysAnsi *)
Theorem c08_example :
  (exists s' w' rs,
     run_ops false (auto_mode CNever CAuto) sb_new (writer_of [])
       [OWrite [97; 27; 91]; OWriteAll [49; 109; 98]; OWriteFmt [[27; 91; 109]; [99]]] = Some (s', w', rs) /\
     w_received w' = [97; 98; 99] /\ rs = [ROkN 3; ROk; ROk]) /\
  (exists s' w' rs,
     run_ops false (auto_mode CAlwaysAnsi CAuto) sb_new (writer_of [])
       [OWrite [97; 27; 91]; OWriteAll [49; 109; 98]; OWriteFmt [[27; 91; 109]; [99]]] = Some (s', w', rs) /\
     w_received w' = [97; 27; 91; 49; 109; 98; 27; 91; 109; 99] /\ rs = [ROkN 3; ROk; ROk]).
Proof. vm_compute. repeat split; repeat eexists. Qed.

(* the Strip arm is the Rust code itself: the functions of crates/anstream/src/strip.rs TRANSLATED
   (Generated/StreamFn.v, tools/gen_fn_stream.py; regenerated on every run) and driven by any
   operation sequence answer what the model of AutoStream built with Never answers *)
Theorem c08_translated_never_is_model :
  forall b d ops x,
  match g_ss_run x ops with Some (x1, rs) => Some (ss_state x1, ss_raw x1, rs) | None => None end
  = run_ops b (auto_mode CNever d) (ss_state x) (ss_raw x) ops.
Proof. exact translated_never_is_model. Qed.

(* AutoStream itself is the Rust code: the constructors, accessors and the five Write methods of
   crates/anstream/src/auto.rs (and StripStream::{new, into_inner, is_terminal, lock}) TRANSLATED for a
   non-Windows target with the default features (Generated/AutoFn.v, tools/gen_fn_auto.py; regenerated
   on every run).  [as_of m s w] is the Rust value of the model's (arm, strip state, inner writer);
   [cf] is what the raw stream answers: ac_decided = `choice(&raw)` (C09), ac_tty = is_terminal(),
   ac_wv_all = real vectored writes. *)

(* AutoStream::new(raw, c) builds the arm auto_mode names, over a fresh strip state; it panics exactly
   when c = Auto and `choice(&raw)` answers Auto (the debug_assert_ne! of `auto`) *)
Theorem c08_translated_new_is_model :
  forall cf raw c,
  g_as_new cf raw c =
  (if andb (cchoice_eqb c CAuto) (cchoice_eqb (ac_decided cf) CAuto) then None
   else Some (as_of (auto_mode c (ac_decided cf)) sb_new raw)).
Proof. exact g_as_new_eq. Qed.

(* one call of any of the five Write methods *)
Theorem c08_translated_op_is_model :
  forall cf m s w o,
  g_as_op cf (as_of m s w) o =
  match auto_op (ac_wv_all cf) m s w o with Some (s1, w1, r) => Some (as_of m s1 w1, r) | None => None end.
Proof. exact g_as_op_eq. Qed.

(* any operation sequence *)
Theorem c08_translated_run_is_model :
  forall cf m ops s w,
  g_as_run cf (as_of m s w) ops =
  match run_ops (ac_wv_all cf) m s w ops with Some (s1, w1, rs) => Some (as_of m s1 w1, rs) | None => None end.
Proof. exact g_as_run_eq. Qed.

(* new(raw, c); any sequence of write / write_all / write_vectored / write_fmt / flush; current_choice();
   into_inner(): the per-call results, the reported mode and the inner writer taken back are the model's *)
Theorem c08_translated_autostream_is_model :
  forall cf raw c ops,
  ac_decided cf <> CAuto ->
  g_as_session cf raw c ops =
  match run_ops (ac_wv_all cf) (auto_mode c (ac_decided cf)) sb_new raw ops with
  | Some (_, w1, rs) => Some (rs, current_choice (auto_mode c (ac_decided cf)), w1)
  | None => None
  end.
Proof. exact translated_autostream_is_model. Qed.

(* current_choice(), into_inner(), is_terminal(), lock() on any stream value *)
Theorem c08_translated_accessors :
  forall cf m s w,
  g_as_current_choice cf (as_of m s w) = Some (current_choice m) /\
  g_as_into_inner cf (as_of m s w) = Some w /\
  g_as_is_terminal cf (as_of m s w) = Some (ac_tty cf) /\
  g_as_lock_stdout cf (as_of m s w) = Some (as_of m s w) /\
  g_as_lock_stderr cf (as_of m s w) = Some (as_of m s w).
Proof. exact translated_accessors. Qed.

(* ---- the glue around AutoStream, translated too (Generated/GlueFn.v, tools/gen_fn_glue.py) -------------- *)

(* `anstream::stdout()` / `anstream::stderr()` (lib.rs) are `AutoStream::auto` -- translated, c08_translated_new_is_model --
   of the process's stdout handle / stderr handle, each of its own *)
Theorem c08_translated_stdout_is_auto : forall cf so se, g_stdout cf so se = g_as_auto cf so.
Proof. exact translated_stdout_is_auto. Qed.
Theorem c08_translated_stderr_is_auto : forall cf so se, g_stderr cf so se = g_as_auto cf se.
Proof. exact translated_stderr_is_auto. Qed.

(* what `raw.is_terminal()` answers (the [raw_is_terminal cf] of the translation above) is, for the five streams backed by a
   descriptor (Stdout, StdoutLock, Stderr, StderrLock, File), the polyfill asked about THAT stream; the in-memory and dyn
   streams (dyn Write, + Send, + Send + Sync, Vec<u8>, Buffer) are never a terminal; `&T`, `&mut T`, `Box<T>` forward *)
Theorem c08_translated_is_terminal_fd : forall f, In f g_is_terminal_fd_impls -> forall cf w, f cf w = raw_is_terminal cf w.
Proof. exact translated_is_terminal_fd. Qed.
Theorem c08_translated_is_terminal_mem : forall f, In f g_is_terminal_mem_impls -> forall cf w, f cf w = false.
Proof. exact translated_is_terminal_mem. Qed.
Theorem c08_translated_is_terminal_forward : forall cf tit w,
  g_is_terminal_ref cf tit w = tit w /\ g_is_terminal_refmut cf tit w = tit w /\ g_is_terminal_box cf tit w = tit w.
Proof. exact translated_is_terminal_forward. Qed.

(* the deprecated in-memory raw stream `anstream::Buffer` behaves like the scripted writer of Spec/Io.v whose script is
   exhausted (an accept-all Vec writer): same io::Result, same bytes; after any writes it holds their concatenation *)
Theorem c08_translated_buffer_write : forall b w buf,
  buf_rel b w ->
  let '(b', r) := g_buffer_write b buf in
  let '(w', r') := w_write w buf in
  r = r' /\ buf_rel b' w'.
Proof. exact buffer_write_simulates_writer. Qed.
Theorem c08_translated_buffer_flush : forall b w,
  buf_rel b w -> let '(b', r) := g_buffer_flush b in r = inl tt /\ buf_rel b' (w_flush w).
Proof. exact buffer_flush_simulates_writer. Qed.
Theorem c08_translated_buffer_contents : forall bufs,
  g_buffer_as_bytes (fst (g_buffer_writes g_buffer_new bufs)) = concat bufs.
Proof. exact buffer_new_as_bytes. Qed.

(* `AutoStream::wincon` in this configuration (no legacy console): the raw stream comes back, no stream is built *)
Theorem c08_translated_wincon_unavailable : forall cf raw, g_as_wincon cf raw = inr raw.
Proof. exact g_as_wincon_eq. Qed.

(* ---- the print macros (crates/anstream/src/_macros.rs), translated arm by arm by tools/gen_fn_macros.py's macro_rules
   reader (Generated/MacrosFn.v).  [mac_arm err nl] is the translated main arm of print! (false, false), println!
   (false, true), eprint! (true, false), eprintln! (true, true); `world` the list of events the call adds to
   (Model/Glue.v mevent); ct / ft = `cfg!(test)` / the feature "test"; lossy = String::from_utf8_lossy, fmt_nl =
   `format_args_nl!` (both arbitrary); ch = what `choice(&raw)` answers per raw stream, cf the answers of the std handle,
   cfv those of the in-memory Vec.  The hand model [mac_model]: outside tests a FRESH stream over the macro's own std
   handle in the mode that handle's answers decide (Never: strip, else pass through), ONE write_fmt, a panic on an error;
   under test the fragments stripped / forwarded in a Vec per the choice of the macro's own handle, then std's macro *)
Theorem c08_translated_macros_are_model :
  forall lossy fmt_nl (err nl ct ft : bool) cfv (ch : writer -> cchoice) cf (so se : writer) world args,
  ac_decided cf <> CAuto -> ch (if err then se else so) <> CAuto ->
  mac_arm lossy fmt_nl err nl ct ft cfv ch cf so se world args = mac_model lossy fmt_nl (ct || ft) cfv ch cf err nl so se args world.
Proof. exact translated_macros_are_model. Qed.

(* outside tests: the stream that is WRITTEN TO is the handle the macro names, in the mode that handle's own answers
   decide, through exactly one write_fmt of the hand model (Never = the strip arm of C08, else pass-through) *)
Theorem c08_translated_print_writes_own_stream :
  forall lossy fmt_nl cfv ch cf so se world args,
  ac_decided cf <> CAuto ->
  forall err nl : bool,
  mac_arm lossy fmt_nl err nl false false cfv ch cf so se world args =
  match auto_op (ac_wv_all cf) (mac_mode (ac_decided cf)) sb_new (if err then se else so)
                (OWriteFmt (if nl then fmt_nl args else args)) with
  | Some (s1, w1, r) =>
      Some (world ++ MWriteFmt (as_of (mac_mode (ac_decided cf)) s1 w1) (match r with RErr e => inr e | _ => inl tt end)
                     :: match r with RErr e => [MPanicIo (if err then mac_msg_stderr else mac_msg_stdout) e] | _ => [] end)
  | None => None
  end.
Proof. exact translated_print_writes_own_stream. Qed.

(* println!() / eprintln!() are print!("\n") / eprint!("\n") *)
Theorem c08_translated_empty_println_is_print :
  forall lossy fmt_nl ct ft cfv ch cf so se world,
  g_println_arm0 lossy fmt_nl ct ft cfv ch cf so se world = g_print_arm0 lossy fmt_nl ct ft cfv ch cf so se world [[10]] /\
  g_eprintln_arm0 lossy fmt_nl ct ft cfv ch cf so se world = g_eprint_arm0 lossy fmt_nl ct ft cfv ch cf so se world [[10]].
Proof. exact translated_empty_println_is_print. Qed.

(* to_adapted_string (what the macros use under test, and panic! always): a fresh stream over an empty Vec in the mode
   the TARGET stream's choice names, one write_fmt, the Vec's content through from_utf8_lossy *)
Theorem c08_translated_to_adapted_string :
  forall lossy cfv (ch : writer -> cchoice) frags target,
  ch target <> CAuto ->
  g_to_adapted_string lossy cfv ch frags target = mac_adapted lossy (ac_wv_all cfv) (ch target) frags.
Proof. exact g_to_adapted_string_eq. Qed.

(* panic!(..) adapts its message for STDERR (never stdout), in every configuration; panic!() is std's *)
Theorem c08_translated_panic_asks_stderr :
  forall lossy fmt_nl (ct ft : bool) cfv (ch : writer -> cchoice) cf (so se : writer) world args,
  ch se <> CAuto ->
  g_panic_arm1 lossy fmt_nl ct ft cfv ch cf so se world args =
  match mac_adapted lossy (ac_wv_all cfv) (ch se) args with Some t => Some (world ++ [MPanic t]) | None => None end.
Proof. exact translated_panic_is_model. Qed.
Theorem c08_translated_panic_empty :
  forall lossy fmt_nl (ct ft : bool) cfv (ch : writer -> cchoice) cf (so se : writer) world,
  g_panic_arm0 lossy fmt_nl ct ft cfv ch cf so se world = world ++ [MPanicExplicit].
Proof. exact translated_panic_empty. Qed.
