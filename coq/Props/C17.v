(* Props/C17.v -- property theorems for C17 (ANSI fallback for coloured writes
   frames the data and reports true progress).  Only statements, each closed by
   [exact].

   Vocabulary: [wa_write_colored fg bg data w] is the hand model of
   anstyle_wincon::ansi::write_colored over an inner writer [w] of Spec/Io (a
   script of responses, one per inner `write`); [fg bg : option ansi_color] range
   over {None, 16 colours}; [wa_idx] numbers a colour 0..15; [sa_frame] / [sa_sgr]
   are the framing formula and the SGR codes of Spec/AnsiFrame (independent of the
   code); [wa_fg_bytes] / [wa_bg_bytes] / [wa_reset_bytes] are the implementation's
   own strings (translated tables), [] when the colour is absent / no colour is
   given. *)
From Coq Require Import NArith List Bool.
From AV Require Import Generated.Style Generated.WinconAnsi
  Spec.Utf8 Spec.Vt Spec.Strip Spec.Sgr Spec.Io Spec.AnsiFrame
  Model.WinconAnsi Proofs.IoFacts Proofs.VtCompose Proofs.WinconAnsi Generated.WinconAnsiFn Proofs.WinconAnsiGen.
Import ListNotations.
Local Open Scope N_scope.

(* Ok(k): the writer received, after what it had, exactly fg? ++ bg? ++ the first k
   bytes of the data ++ reset?; k <= |data|; and k is what the one inner
   write(data) answered (it is in the call history between the calls for the
   codes and the calls for the reset) *)
Theorem c17_output_framing :
  forall fg bg data w w' k,
  wa_write_colored fg bg data w = (w', inl k) ->
  k <= N.of_nat (length data) /\
  w_received w' = w_received w ++ sa_frame (wa_idx fg) (wa_idx bg) (firstn (N.to_nat k) data) /\
  w_received w' = w_received w ++ wa_fg_bytes fg ++ wa_bg_bytes bg ++ firstn (N.to_nat k) data ++ wa_reset_bytes fg bg /\
  exists before after, w_calls w' = w_calls w ++ before ++ [CWrite data (inl k)] ++ after.
Proof. exact output_framing. Qed.

(* each code is present iff its colour is given, the reset iff any colour is *)
Theorem c17_code_presence :
  forall fg bg,
  (wa_fg_bytes fg = [] <-> fg = None) /\
  (wa_bg_bytes bg = [] <-> bg = None) /\
  (wa_reset_bytes fg bg = [] <-> (fg = None /\ bg = None)).
Proof. exact code_presence. Qed.

(* the implementation's 33 strings are the SGR codes: CSI 30+i / 90+i-8 m,
   CSI 40+i / 100+i-8 m, CSI 0 m *)
Theorem c17_codes_are_sgr :
  (forall c, ansi_fg_str c = sa_sgr (sa_fg_code (ansi_disc c))) /\
  (forall c, ansi_bg_str c = sa_sgr (sa_bg_code (ansi_disc c))) /\
  wa_reset_str = sa_sgr 0.
Proof. exact codes_are_sgr. Qed.

(* neither colour given: the only inner call is write(data) and the result is its
   result (writer state, history and answer all coincide) *)
Theorem c17_no_code_when_default :
  forall data w, wa_write_colored None None data w = w_write w data.
Proof. exact no_code_when_default. Qed.

(* Err(k): one of the (at most four) inner operations that the colours enable
   failed -- the LAST call the inner writer saw answered Err(k), or (inside a
   write_all of a code) accepted nothing of a non-empty buffer and k = WriteZero --
   nothing is attempted after it, and what was received is everything of the
   earlier operations plus the accepted part of the failing one
   (wa_failed_at, Proofs/WinconAnsi.v) *)
Theorem c17_error_kind :
  forall fg bg data w w' k,
  wa_write_colored fg bg data w = (w', inr k) ->
  exists op, wa_failed_at op fg bg data w w' k.
Proof. exact error_kind. Qed.

(* interpretation, any writer: when the accepted part of the data is parsed from
   Ground back to Ground (not inside a multi-byte character) and contains no SGR
   sequence of its own, a terminal that interprets the output shows exactly the
   characters of that part's own interpretation, every one in the requested
   colours (and nothing else set), and is in the default rendition afterwards *)
Theorem c17_interp :
  forall fg bg data w' script k,
  wa_write_colored fg bg data (writer_of script) = (w', inl k) ->
  let shown := firstn (N.to_nat k) data in
  (vs (fst (vt_run vt_init shown)) = VGround /\ uni (fst (vt_run vt_init shown)) = None) ->
  forallb not_sgr (spec_events shown) = true ->
  interp style_default (spec_events (w_received w')) =
  (map (fun sc => (mkStyle (option_map (fun c => CAnsi (ansi_disc c)) fg)
                           (option_map (fun c => CAnsi (ansi_disc c)) bg) None 0, snd sc))
       (fst (interp style_default (spec_events shown))),
   style_default).
Proof. exact interp_output. Qed.

(* interpretation, accept-all writer: the call answers Ok(|data|) and the above
   holds for the whole data *)
Theorem c17_interp_accept_all :
  forall fg bg data,
  (vs (fst (vt_run vt_init data)) = VGround /\ uni (fst (vt_run vt_init data)) = None) ->
  forallb not_sgr (spec_events data) = true ->
  exists w', wa_write_colored fg bg data (writer_of []) = (w', inl (N.of_nat (length data))) /\
  interp style_default (spec_events (w_received w')) =
  (map (fun sc => (mkStyle (option_map (fun c => CAnsi (ansi_disc c)) fg)
                           (option_map (fun c => CAnsi (ansi_disc c)) bg) None 0, snd sc))
       (fst (interp style_default (spec_events data))),
   style_default).
Proof. exact interp_accept_all. Qed.

(* stripping the output gives what stripping the accepted data gives -- with no
   hypothesis on the data (the reset begins with ESC, which leaves every state) --
   and gives back the accepted data itself when that is plain text (printable
   ASCII, TAB, LF, FF, CR) *)
Theorem c17_strip :
  forall fg bg data script w' k,
  wa_write_colored fg bg data (writer_of script) = (w', inl k) ->
  spec_strip (w_received w') = spec_strip (firstn (N.to_nat k) data) /\
  (forallb sa_text_byte (firstn (N.to_nat k) data) = true ->
   spec_strip (w_received w') = firstn (N.to_nat k) data).
Proof. exact strip_output. Qed.

(* the hand model computes the specification's coloured write (Spec/AnsiFrame) *)
Theorem c17_model_is_spec :
  forall fg bg data w,
  wa_write_colored fg bg data w = sa_write_colored (wa_idx fg) (wa_idx bg) data w.
Proof. exact model_is_spec. Qed.

(* every non-Windows `impl WinconStream for T` of stream.rs ends in
   ansi::write_colored (translated list of impls) *)
Theorem c17_impls_delegate : wa_unix_impls_all_ansi = true.
Proof. exact unix_impls_all_ansi. Qed.

(* non-vacuity: red on bright blue, "hi\n", a writer that is interrupted once,
   takes the foreground code in two pieces and only 2 of the 3 data bytes *)
Theorem c17_example :
  let '(w', r) := wa_write_colored (Some Red) (Some BrightBlue) [104; 105; 10]
                    (writer_of [Fail Interrupted; Accept 2; Accept 9; Accept 6; Accept 2]) in
  r = inl 2 /\
  w_received w' = [27; 91; 51; 49; 109] ++ [27; 91; 49; 48; 52; 109] ++ [104; 105] ++ [27; 91; 48; 109] /\
  length (w_calls w') = 6%nat.
Proof. exact example_run. Qed.

(* ---- the tie by translation --------------------------------------------------------- *)

(* Generated/WinconAnsiFn.v is written on every run by tools/gen_fn_wincon_ansi.py (tools/rs2v) from the
   Rust source of anstyle_wincon::ansi::write_colored; over any inner writer (script, bytes received so
   far, call history), any colours and any data it leaves the writer and answers the io::Result the hand
   model -- the subject of every theorem above -- computes *)
Theorem c17_translated_write_colored_is_model : forall w fg bg data,
  g_write_colored w fg bg data = wa_write_colored fg bg data w.
Proof. exact translated_write_colored_is_model. Qed.

(* hence the translated code computes the specification's coloured write (Spec/AnsiFrame) *)
Theorem c17_translated_write_colored_is_spec : forall w fg bg data,
  g_write_colored w fg bg data = sa_write_colored (wa_idx fg) (wa_idx bg) data w.
Proof. exact translated_write_colored_is_spec. Qed.

(* the per-type `impl WinconStream for <T>` of crates/anstyle-wincon/src/stream.rs (non-Windows configuration) are
   TRANSLATED too: each of the nine concrete impls (dyn Write, + Send, + Send + Sync, File, Vec<u8>, StdoutLock,
   StderrLock, Stdout and Stderr -- the last two through `self.lock()` and the translated impl of the lock type) hands
   `self` and the arguments, in order, to the translated `ansi::write_colored` once and answers what it answers *)
Theorem c17_translated_impls_are_write_colored : forall f, In f g_wc_impls ->
  forall w fg bg data, f w fg bg data = wa_write_colored fg bg data w.
Proof. exact translated_impls_are_write_colored. Qed.

Theorem c17_translated_impls_are_spec : forall f, In f g_wc_impls ->
  forall w fg bg data, f w fg bg data = sa_write_colored (wa_idx fg) (wa_idx bg) data w.
Proof. exact translated_impls_are_spec. Qed.

(* the two generic impls (`&mut T`, `Box<T>`) forward to the pointee's impl, whatever it is *)
Theorem c17_translated_generic_impls_forward : forall twc w fg bg data,
  g_wc_refmut twc w fg bg data = twc w fg bg data /\ g_wc_box twc w fg bg data = twc w fg bg data.
Proof. exact translated_generic_impls_forward. Qed.
