(* Props/C05.v -- property theorems for C05 (rendered styles are pure SGR and
   round-trip through SGR interpretation).  Only statements, each closed by [exact].

   Vocabulary.
   Model (Model/Render.v over Generated/Style.v, Generated/Render.v): [style] is the
   record of Model/Style.v (three optional colours, an effect set);
   [rn_render_style s] = `s.render().to_string()` (= Style::fmt_to), [rn_write_to s] =
   the buffers `s.write_to(w)` hands to write_all, [rn_render_reset s], [rn_display
   alternate flags s] = `format!("{:<flags>}", s)`; [None] = the code panics.
   Specification (Spec/Vt.v, Spec/Strip.v, Spec/Sgr.v, Spec/Render.v): [spec_events] =
   the VT parser, [spec_strip], [event_style] / [sgr_apply] = SGR as a conforming
   terminal applies it, [rn_interp_style es t] = [fold_left event_style es t];
   [rn_sstyle s] = the style value as a rendition of Spec/Sgr; [rn_groups_of t] = one
   sequence per set effect in bit order (CURLY_UNDERLINE is [[4;3]]), then
   foreground, background, underline colour ([[38];[5];[n]] is ONE sequence);
   [rn_sgr g] = [ECsi g [] false 109]; [rn_norm] maps a 16-colour UNDERLINE colour to
   the same index of the 256-colour palette and is the identity otherwise.
   "Every style value" is [rn_wf (rn_sstyle s)]: effect set below 2^12, palette
   index below 16, every u8 component below 256.  Nothing below is proved by
   enumerating styles; finite tables (12 METADATA escapes, 16 fg / bg strings) are
   checked entry by entry inside the kernel. *)
From Coq Require Import NArith List Bool.
From AV Require Import Generated.Style Generated.Render Spec.Vt Spec.Strip Spec.Sgr Spec.Algebra Spec.Render
  Spec.Io Model.Base Model.Style Model.Render Proofs.Render Generated.StyleFn Generated.RenderFn Proofs.RenderGen.
Import ListNotations.
Local Open Scope N_scope.

(* ---- DisplayBuffer ---------------------------------------------------------- *)

(* write_code stores the decimal digits of its argument (with its always-printed
   tens digit: 5 is "05", which denotes the same number), between 1 and 3 of them *)
Theorem c05_write_code_decimal :
  forall n, n < 256 ->
  exists ds, rn_write_code rn_buf_new n = Some ds /\ forallb rn_is_digit ds = true /\
             rn_dec_value ds = n /\ (1 <= length ds <= 3)%nat.
Proof. exact write_code_decimal. Qed.

(* every colour in every slot: the buffer is built without an out-of-bounds store
   (the model never answers None) and holds at most DISPLAY_BUFFER_CAPACITY bytes *)
Theorem c05_buffer_bound :
  forall c, rn_color_wf c ->
  (exists p, rn_color_fg_buffer c = Some p /\ N.of_nat (length p) <= rn_display_buffer_capacity) /\
  (exists p, rn_color_bg_buffer c = Some p /\ N.of_nat (length p) <= rn_display_buffer_capacity) /\
  (exists p, rn_color_ul_buffer c = Some p /\ N.of_nat (length p) <= rn_display_buffer_capacity).
Proof. exact buffer_bound. Qed.

(* ... and the capacity is reached *)
Theorem c05_buffer_bound_tight :
  option_map (@length N) (rn_color_ul_buffer (CoRgb 255 255 255)) = Some (N.to_nat rn_display_buffer_capacity).
Proof. exact buffer_bound_tight. Qed.

(* ---- the VT specification reads printed parameters back ----------------------- *)

(* "ESC [ digits (;|:) digits ... m" -- at least one parameter, values below 65536
   printed in decimal (leading zeros, empty strings allowed), at most 32 values --
   read from the ground state is ONE CSI dispatch carrying exactly the printed
   values, and leaves the parser in the ground state *)
Theorem c05_csi_roundtrip :
  forall gs s, rn_csi_ok gs = true -> vs s = VGround /\ uni s = None ->
  exists s', vt_run s (rn_csi gs 109) = (s', [rn_sgr (rn_param_values gs)]) /\ (vs s' = VGround /\ uni s' = None).
Proof. exact rn_csi_roundtrip. Qed.

(* ---- rendering --------------------------------------------------------------- *)

(* what a style renders is SGR control sequences and nothing else: the VT parser
   reports exactly one CSI-m per set effect, then fg, bg, underline colour *)
Theorem c05_render_is_sgr_only :
  forall s, rn_wf (rn_sstyle s) ->
  exists bs, rn_render_style s = Some bs /\ spec_events bs = map rn_sgr (rn_groups_of (rn_sstyle s)).
Proof. exact render_is_sgr_only. Qed.

Theorem c05_strip_nothing :
  forall s, rn_wf (rn_sstyle s) ->
  exists bs, rn_render_style s = Some bs /\ spec_strip bs = [].
Proof. exact strip_nothing. Qed.

(* interpreting the rendered bytes from the terminal's default state gives the
   style back (a terminal has one underline attribute, hence the hypothesis) *)
Theorem c05_render_roundtrip :
  forall s, rn_wf (rn_sstyle s) -> rn_at_most_one_underline_kind (rn_sstyle s) ->
  exists bs, rn_render_style s = Some bs /\
             rn_interp_style (spec_events bs) style_default = rn_norm (rn_sstyle s).
Proof. exact render_roundtrip. Qed.

(* without the hypothesis: of several underline kinds the last one in bit order stays *)
Theorem c05_render_roundtrip_general :
  forall s, rn_wf (rn_sstyle s) ->
  exists bs, rn_render_style s = Some bs /\
             rn_interp_style (spec_events bs) style_default = rn_norm_general (rn_sstyle s).
Proof. exact render_roundtrip_general. Qed.

Theorem c05_one_underline_kind_is_kept :
  forall e, (length (rn_underline_kinds e) <= 1)%nat -> rn_last_kind_wins e = e.
Proof. exact last_kind_wins_id. Qed.

(* the same at the level of the specification alone: the sequences that express a
   rendition, applied by the SGR rules, give that rendition *)
Theorem c05_groups_roundtrip :
  forall t, rn_wf t -> rn_at_most_one_underline_kind t ->
  rn_interp_style (map rn_sgr (rn_groups_of t)) style_default = rn_norm t.
Proof. exact groups_roundtrip. Qed.

(* [rn_interp_style] is the rendition Spec/Sgr.interp ends in *)
Theorem c05_interp_is_fold :
  forall es s, snd (interp s es) = rn_interp_style es s.
Proof. exact rn_interp_snd. Qed.

(* ---- reset ------------------------------------------------------------------- *)

(* the reset form is empty exactly for the plain style, is RESET otherwise; RESET
   takes a terminal from any state to the default state and strips to nothing *)
Theorem c05_reset_semantics :
  forall s,
  (rn_render_reset s = [] <-> s = st_new) /\
  (s = st_new <-> st_is_plain s = true) /\
  (s <> st_new -> rn_render_reset s = rn_reset_str) /\
  (forall t, rn_interp_style (spec_events rn_reset_str) t = style_default) /\
  spec_strip rn_reset_str = [].
Proof. exact reset_semantics. Qed.

(* a style followed by its reset form leaves the terminal in the default state *)
Theorem c05_render_then_reset :
  forall s, rn_wf (rn_sstyle s) ->
  exists bs, rn_render_style s = Some bs /\
             rn_interp_style (spec_events (bs ++ rn_render_reset s)) style_default = style_default.
Proof. exact render_then_reset. Qed.

(* ---- the three ways to get the bytes -------------------------------------------- *)

(* io::Write path = Display path (for every style value, panics included) *)
Theorem c05_paths_agree :
  forall s, option_map (@concat N) (rn_write_to s) = rn_render_style s.
Proof. exact paths_agree. Qed.

Theorem c05_paths_agree_reset :
  forall s, concat (rn_write_reset_to s) = rn_render_reset s.
Proof. exact paths_agree_reset. Qed.

(* width, fill, alignment and precision do not matter: no padding, no truncation *)
Theorem c05_flags_irrelevant :
  forall flags alternate s, rn_display alternate flags s = rn_display alternate rn_no_flags s.
Proof. exact flags_irrelevant. Qed.

(* `{}` is render, `{:#}` is render_reset *)
Theorem c05_display_forms :
  forall flags s,
  rn_display false flags s = rn_render_style s /\ rn_display true flags s = Some (rn_render_reset s).
Proof. exact display_forms. Qed.

(* `style.render()` ignores the flags and `#` *)
Theorem c05_flags_irrelevant_render :
  forall flags alternate s, rn_display_render alternate flags s = rn_render_style s.
Proof. exact flags_irrelevant_render. Qed.

(* render_reset(), Effects::render, Color::render_fg / render_bg, AnsiColor::render_fg /
   render_bg, Reset *)
Theorem c05_flags_irrelevant_others :
  forall flags alternate,
  (forall s, rn_display_reset_of alternate flags s = Some (rn_render_reset s)) /\
  (forall e, rn_display_effects alternate flags e = rn_display_effects false rn_no_flags e) /\
  (forall c, rn_display_color_fg alternate flags c = rn_color_fg_buffer c) /\
  (forall c, rn_display_color_bg alternate flags c = rn_color_bg_buffer c) /\
  (forall a, rn_display_ansi_fg alternate flags a = Some (ansi_fg_str a)) /\
  (forall a, rn_display_ansi_bg alternate flags a = Some (ansi_bg_str a)) /\
  rn_display_reset alternate flags = Some rn_reset_str.
Proof. exact flags_irrelevant_others. Qed.

(* non-vacuity: bold + curly underline, bright red on index 5, underline colour
   rgb(1,2,30): "ESC[1m ESC[4:3m ESC[91m ESC[48;5;05m ESC[58;2;01;02;30m" *)
Theorem c05_example :
  let s := Model.Style.mkStyle (Some (CoAnsi BrightRed)) (Some (CoAnsi256 5)) (Some (CoRgb 1 2 30)) 33 in
  rn_render_style s =
    Some [27; 91; 49; 109;  27; 91; 52; 58; 51; 109;  27; 91; 57; 49; 109;
          27; 91; 52; 56; 59; 53; 59; 48; 53; 109;
          27; 91; 53; 56; 59; 50; 59; 48; 49; 59; 48; 50; 59; 51; 48; 109] /\
  option_map rn_final_style (rn_render_style s) = Some (rn_sstyle s) /\
  option_map spec_strip (rn_render_style s) = Some [] /\
  rn_display true (mkRnFlags (Some 8) 42 (Some 2) (Some 2)) s = Some [27; 91; 48; 109].
Proof. vm_compute. repeat split. Qed.

(* ---- the tie by translation --------------------------------------------------------- *)

(* Generated/RenderFn.v is written on every run by tools/gen_fn_render.py (tools/rs2v) from the
   Rust sources of DisplayBuffer::{write_str, write_code, as_str} and the
   as_{fg,bg,underline}_buffer functions of AnsiColor / Ansi256Color / RgbColor and
   Color::{render_fg, render_bg, render_underline} ([gr_color_*_buffer]), over the Rust
   data layout (a 19-byte array and a length, [rn_dbuf]).  [dbuf_rel d b]: the hand model's
   byte list [b] is buffer[0..len] of [d]; [orel]: both sides panic, or both succeed with
   related states. *)
Theorem c05_translated_write_str_is_model :
  forall d b part, dbuf_rel d b -> orel (gr_write_str d part) (rn_buf_write_str b part).
Proof. exact translated_write_str. Qed.

Theorem c05_translated_write_code_is_model :
  forall d b code, dbuf_rel d b -> orel (gr_write_code d code) (rn_write_code b code).
Proof. exact translated_write_code. Qed.

Theorem c05_translated_as_str_is_model :
  forall d b, dbuf_rel d b -> gr_as_str d = Some b.
Proof. exact gr_as_str_eq. Qed.

(* every colour, every slot: what the translated builder chain shows (as_str of its result) is
   what the hand model -- the subject of every theorem above -- computes, a panic included *)
Theorem c05_translated_buffers_are_model :
  forall c,
    gr_shown (gr_color_fg_buffer c) = rn_color_fg_buffer c /\
    gr_shown (gr_color_bg_buffer c) = rn_color_bg_buffer c /\
    gr_shown (gr_color_ul_buffer c) = rn_color_ul_buffer c.
Proof. exact translated_buffers_are_model. Qed.

(* ---- the tie by translation, core::fmt and io::Write side -------------------------------------------
   Generated/RenderFn.v also holds (translated on every run from color.rs, effect.rs, style.rs, reset.rs):
   impl Display for DisplayBuffer / NullFormatter / EffectsDisplay / Reset / StyleDisplay / Style,
   Style::{fmt_to, render, render_reset, write_to, write_reset_to}, Effects::write_to, DisplayBuffer::write_to,
   Color::write_{fg,bg,underline}_to, the render_fg / render_bg of the three colour types, Reset::render, the From
   impls of color.rs and `on` / `on_default`.  A Formatter is [rn_fmtr]: the hand model's [rn_fmt] over a sink that
   answers every write_str from a script ([mkRnFmtr f []]: a sink that never fails, a String); a translated `fmt`
   answers the new formatter and the fmt::Result ([ok_fmt]: the hand model's formatter and Ok(())).
   [gr_format alternate flags fmt] = `format!("{:<flags>}", x)` for the translated Display impl [fmt] of x
   (an Err makes format! panic).  `&mut dyn io::Write` is the scripted writer of Spec/Io.v;
   [wr_bufs write w bufs] = the fragments handed to the sink in order, the first error stops ([write] is
   Formatter::write_str or io::Write::write_all). *)

(* Style::fmt_to (the central rendering function) *)
Theorem c05_translated_fmt_to_is_model :
  forall s f, gr_style_fmt_to s (mkRnFmtr f []) = ok_fmt (rn_style_fmt_to s f).
Proof. exact gr_style_fmt_to_eq. Qed.

(* ... on ANY formatter (a sink that fails at some write_str): the fragments are the buffers of the hand model's
   write_to -- their concatenation is what render() shows, c05_paths_agree --, each handed to write_str in
   order; the first fmt::Error is returned and nothing more is written *)
Theorem c05_translated_fmt_to_any_sink :
  forall s bufs f, rn_write_to s = Some bufs -> gr_style_fmt_to s f = Some (wr_bufs rn_fw_write_str f bufs).
Proof. exact translated_fmt_to_any_sink. Qed.

(* impl Display for Style, both branches of `f.alternate()` *)
Theorem c05_translated_style_fmt_is_model :
  forall s f, gr_style_fmt s (mkRnFmtr f []) = ok_fmt (rn_style_fmt s f).
Proof. exact gr_style_fmt_eq. Qed.

(* format!("{:<flags>}", style): the hand model's [rn_display], the subject of c05_flags_irrelevant / c05_display_forms *)
Theorem c05_translated_display_is_model :
  forall alternate flags s, gr_format alternate flags (gr_style_fmt s) = rn_display alternate flags s.
Proof. exact translated_display_is_model. Qed.

(* format!("{:<flags>}", style.render()): StyleDisplay::fmt on what Style::render returns *)
Theorem c05_translated_render_is_model :
  forall alternate flags s,
  gr_format alternate flags (gr_style_display_fmt (gr_style_render s)) = rn_display_render alternate flags s.
Proof. exact translated_render_is_model. Qed.

(* style.render().to_string() is [rn_render_style], the subject of the round-trip theorems above *)
Theorem c05_translated_render_style_is_model :
  forall s, gr_render_style s = rn_render_style s.
Proof. exact translated_render_style_is_model. Qed.

(* style.render_reset(): the text of the NullFormatter, and its Display *)
Theorem c05_translated_render_reset_is_model :
  forall s, gr_style_render_reset s = rn_render_reset s.
Proof. exact gr_style_render_reset_eq. Qed.

Theorem c05_translated_render_reset_display_is_model :
  forall alternate flags s,
  gr_format alternate flags (fun f => Some (gr_null_fmt (gr_style_render_reset s) f)) = rn_display_reset_of alternate flags s.
Proof. exact translated_render_reset_is_model. Qed.

(* Effects::render, Color::render_fg / render_bg, AnsiColor::render_fg / render_bg, Reset *)
Theorem c05_translated_displays_are_model :
  forall alternate flags,
  (forall e, gr_format alternate flags (gr_effects_fmt (g_eff_render e)) = rn_display_effects alternate flags e) /\
  (forall c, gr_format alternate flags (fun f => d <- gr_color_render_fg (rn_color_view_of c) ;; gr_dbuf_fmt d f)
             = rn_display_color_fg alternate flags c) /\
  (forall c, gr_format alternate flags (fun f => d <- gr_color_render_bg (rn_color_view_of c) ;; gr_dbuf_fmt d f)
             = rn_display_color_bg alternate flags c) /\
  (forall a, gr_format alternate flags (fun f => nf <- gr_ansi_render_fg a ;; Some (gr_null_fmt nf f))
             = rn_display_ansi_fg alternate flags a) /\
  (forall a, gr_format alternate flags (fun f => nf <- gr_ansi_render_bg a ;; Some (gr_null_fmt nf f))
             = rn_display_ansi_bg alternate flags a) /\
  gr_format alternate flags (fun f => Some (gr_reset_fmt (gr_reset_render tt) f)) = rn_display_reset alternate flags.
Proof. exact translated_displays_are_model. Qed.

(* Ansi256Color / RgbColor::render_fg / render_bg *)
Theorem c05_translated_color_renders_are_buffers :
  (forall n, gr_shown (gr_a256_render_fg n) = rn_ansi256_fg_buffer n) /\
  (forall n, gr_shown (gr_a256_render_bg n) = rn_ansi256_bg_buffer n) /\
  (forall r g b, gr_shown (gr_rgb_render_fg (r, g, b)) = rn_rgb_fg_buffer r g b) /\
  (forall r g b, gr_shown (gr_rgb_render_bg (r, g, b)) = rn_rgb_bg_buffer r g b).
Proof. exact translated_color_renders_are_buffers. Qed.

(* hence the round trip holds of the translated code: what `style.render().to_string()` gives is SGR sequences
   only, and a terminal that interprets them ends in the style *)
Theorem c05_translated_render_roundtrip :
  forall s, rn_wf (rn_sstyle s) -> rn_at_most_one_underline_kind (rn_sstyle s) ->
  exists bs, gr_render_style s = Some bs /\
             spec_events bs = map rn_sgr (rn_groups_of (rn_sstyle s)) /\
             rn_interp_style (spec_events bs) style_default = rn_norm (rn_sstyle s).
Proof. exact translated_render_roundtrip. Qed.

Theorem c05_translated_display_forms :
  forall flags s,
  gr_format false flags (gr_style_fmt s) = gr_render_style s /\
  gr_format true flags (gr_style_fmt s) = Some (gr_style_render_reset s).
Proof. exact translated_display_forms. Qed.

(* Style::write_to on ANY writer (short writes, Interrupted, errors): the hand model's buffers, in order, each
   with write_all; the first error is returned and nothing more is written *)
Theorem c05_translated_write_to_is_model :
  forall s bufs w, rn_write_to s = Some bufs -> gr_style_write_to s w = Some (wr_bufs w_write_all w bufs).
Proof. exact translated_write_to_is_model. Qed.

(* on a writer that never fails: equal to the hand model, a panic included *)
Theorem c05_translated_write_to_accept_all :
  forall s w, w_script w = [] -> gr_style_write_to s w = option_map (wr_bufs w_write_all w) (rn_write_to s).
Proof. exact translated_write_to_accept_all. Qed.

(* ... and such a writer has then received the bytes `render()` shows *)
Theorem c05_translated_write_to_bytes :
  forall s bs, rn_render_style s = Some bs ->
  exists w, gr_style_write_to s (writer_of []) = Some (w, inl tt) /\ w_received w = bs.
Proof. exact translated_write_to_bytes. Qed.

Theorem c05_translated_write_reset_to_is_model :
  forall s w, gr_style_write_reset_to s w = Some (wr_bufs w_write_all w (rn_write_reset_to s)).
Proof. exact translated_write_reset_to_is_model. Qed.

(* the From impls of color.rs and `on` / `on_default` (values of Style: Model/Style.v) *)
Theorem c05_translated_color_from_is_model :
  (forall a, rn_color_of_view (gr_color_from_ansi a) = CoAnsi a) /\
  (forall n, rn_color_of_view (gr_color_from_a256 n) = CoAnsi256 n) /\
  (forall r g b, rn_color_of_view (gr_color_from_rgb (r, g, b)) = CoRgb r g b) /\
  (forall n, rn_color_of_view (gr_color_from_u8 n) = CoAnsi256 n) /\
  (forall r g b, rn_color_of_view (gr_color_from_tuple (r, g, b)) = CoRgb r g b) /\
  (forall n, gr_a256_from_u8 n = n) /\
  (forall r g b, gr_rgb_from_tuple (r, g, b) = (r, g, b)).
Proof. exact translated_color_from_is_model. Qed.

Theorem c05_translated_on_is_model :
  (forall c b, gr_color_on (rn_color_view_of c) (rn_color_view_of b) = st_on c b) /\
  (forall a b, gr_ansi_on a (rn_color_view_of b) = st_on (CoAnsi a) b) /\
  (forall n b, gr_a256_on n (rn_color_view_of b) = st_on (CoAnsi256 n) b) /\
  (forall r g bl b, gr_rgb_on (r, g, bl) (rn_color_view_of b) = st_on (CoRgb r g bl) b) /\
  (forall c, gr_color_on_default (rn_color_view_of c) = st_on_default c) /\
  (forall a, gr_ansi_on_default a = st_on_default (CoAnsi a)) /\
  (forall n, gr_a256_on_default n = st_on_default (CoAnsi256 n)) /\
  (forall r g bl, gr_rgb_on_default (r, g, bl) = st_on_default (CoRgb r g bl)).
Proof. exact translated_on_is_model. Qed.
