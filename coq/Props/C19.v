(* Props/C19.v -- property theorems for C19 (the output of one print call is never
   interleaved with another thread's; the process-wide colour choice is an atomic
   register).  Only statements, each closed by [exact].

   PARTIAL: the theorems carry the logical core -- every modelled operation takes
   the stream's lock once around all its inner writes, hence no schedule can
   interleave two operations; the choice cell run in linearisation order is a legal
   register history and its decoding cannot fail.  That std's stdout/stderr lock
   excludes other threads (the enabling condition of [lk_step]'s Acquire), that
   SeqCst accesses are linearisable (a run of the cell IS a list of operations) and
   that the pipe keeps the order of writes are assumptions, named in the evidence. *)
From Coq Require Import NArith List Bool.
From AV Require Import Generated.Table Generated.Locking Spec.Atomicity
  Model.Base Model.Utf8parse Model.Parser Model.Strip Model.Locking Proofs.Locking
  Spec.Io Model.Stream Generated.StreamFn Proofs.StreamGen Generated.AutoFn Proofs.AutoGen
  Model.Glue Generated.GlueFn Proofs.GlueGen Generated.MacrosFn Proofs.MacrosGen.
Import ListNotations.

(* every modelled call (write, write_vectored, flush, write_all, write_fmt with any
   fragments; pass-through and stripping stream, any stream state): Acquire, then
   inner calls on the guard only, then Release *)
Theorem c19_ops_lock_once :
  forall s op tr s',
  lk_op_trace s op = Some (tr, s') ->
  exists ins, tr = LkAcquire :: map LkInner ins ++ [LkRelease].
Proof. exact ops_lock_once. Qed.

(* hence its lock profile is the one the specification states: taken once, given back once *)
Theorem c19_ops_profile :
  forall s op tr s',
  lk_op_trace s op = Some (tr, s') -> lk_profile tr = at_call_profile.
Proof. exact ops_profile. Qed.

(* for EVERY finite set of thread programs made of lock-once operations, EVERY
   schedule and EVERY length of execution: the calls that reached the inner writer
   are whole operations one after the other, in the order the lock was taken, each
   thread's in program order, plus the emitted part of at most one operation that
   is still under way *)
Theorem c19_no_interleaving_abstract :
  forall (progs : list (list (list lk_inner))) sched final,
  lk_exec (lk_init (map lk_thread_events progs)) sched final ->
  at_atomic_output progs (lk_acqs final) (lk_out final).
Proof. exact no_interleaving_abstract. Qed.

(* the same for programs written with the modelled methods of AutoStream /
   StripStream (each thread has its own stream value, in either mode, whose strip
   state is carried from call to call); a finished run is serial *)
Theorem c19_no_interleaving :
  forall (threads : list (lk_stream * list lk_op)) (trs : list (list (list lk_event))),
  Forall2 (fun th tr => lk_prog_ops (fst th) (snd th) = Some tr) threads trs ->
  forall sched final,
  lk_exec (lk_init (map (@concat lk_event) trs)) sched final ->
  at_atomic_output (map (map lk_inner_of) trs) (lk_acqs final) (lk_out final) /\
  (lk_finished final -> at_serial (map (map lk_inner_of) trs) (lk_acqs final) (lk_out final)).
Proof. exact no_interleaving. Qed.

(* on the byte stream: the bytes of every single call sit contiguously in the output *)
Theorem c19_print_bytes_contiguous :
  forall (threads : list (lk_stream * list lk_op)) (trs : list (list (list lk_event))),
  Forall2 (fun th tr => lk_prog_ops (fst th) (snd th) = Some tr) threads trs ->
  forall sched final,
  lk_exec (lk_init (map (@concat lk_event) trs)) sched final -> lk_finished final ->
  forall t tr, In tr (nth t trs []) ->
  exists pre post,
    at_bytes lk_inner_bytes (lk_out final) = pre ++ at_op_bytes lk_inner_bytes (lk_inner_of tr) ++ post.
Proof. exact print_bytes_contiguous. Qed.

(* the colour choice: for every sequence of global() / write_global() operations in
   linearisation order no read panics, the run is a legal register history starting
   from the initial choice, so every read returns the initial value or a written
   one, and the last write once no write follows *)
Theorem c19_register :
  forall ops : list lk_reg_op,
  exists h,
    lk_reg_run lk_reg_init ops = Some h /\
    length h = length ops /\
    reg_legal lk_choice_init h /\
    reg_reads_written lk_choice_init h /\
    reg_reads_last lk_choice_init h.
Proof. exact register. Qed.

(* the values a read can see are exactly the values handed to write_global *)
Theorem c19_register_writes_are_sets :
  forall ops cell h, lk_reg_run cell ops = Some h -> reg_writes h = lk_sets ops.
Proof. exact register_writes_are_sets. Qed.

(* "the last write": the register's value is the last value written, the initial
   one when nothing was written *)
Theorem c19_register_value_is_last_write :
  forall (V : Type) (h : list (reg_ev V)) init,
  reg_value init h = match reg_last_write h with Some w => w | None => init end.
Proof. exact reg_value_last_write. Qed.

(* AtomicChoice's encoding round-trips, so the `expect` in get never fires *)
Theorem c19_choice_roundtrip :
  forall c, lk_to_choice (lk_from_choice c) = Some c.
Proof. exact choice_roundtrip. Qed.

(* non-vacuity: two threads (one stripping, one pass-through), a schedule in which
   thread 1 takes the stream first *)
Theorem c19_example_premises :
  Forall2 (fun th tr => lk_prog_ops (fst th) (snd th) = Some tr) ex_threads ex_trs.
Proof. exact ex_premises. Qed.

Theorem c19_example_locked_run :
  exists final,
    lk_exec (lk_init (map (@concat lk_event) ex_trs)) [1; 1; 1; 1; 0; 0; 0; 0]%nat final /\
    lk_finished final /\
    lk_acqs final = [1; 0]%nat /\
    lk_out final = [(1%nat, LkWA [120%N]); (1%nat, LkWA [121%N]); (0%nat, LkWA [97%N]); (0%nat, LkWA [98%N])].
Proof. exact ex_locked_run. Qed.

(* and WITHOUT the lock (the same inner calls, Acquire / Release removed) the
   machine does produce an interleaved output that is not serial: the lock
   discipline is what the theorem rests on *)
Theorem c19_example_unlocked_interleaves :
  exists final,
    lk_exec (lk_init ex_unlocked) [0; 1; 0; 1]%nat final /\
    lk_finished final /\
    lk_out final = [(0%nat, LkWA [97%N]); (1%nat, LkWA [120%N]); (0%nat, LkWA [98%N]); (1%nat, LkWA [121%N])] /\
    forall acqs, ~ at_serial (map (map lk_inner_of) ex_trs) acqs (lk_out final).
Proof. exact ex_unlocked_interleaves. Qed.

(* the lock discipline read off the Rust code itself: the five Write methods of AutoStream and of
   StripStream TRANSLATED a second time (Generated/AutoFn.v `gl_*`, tools/gen_fn_auto.py; regenerated on
   every run) over a raw stream that logs its lock events -- `as_locked_write()` logs an Acquire and
   hands out the guard, the guard's destructor at the end of its temporary scope logs a Release, both
   with the length of the inner writer's call history at that moment.  For every method, either arm,
   any stream state, any script of the inner writer: the answer is that of the translation without
   the log (the one C08's hand model is proved equal to) and the log grows by [lock_once]: ONE
   Acquire at the length of the history before the call, ONE Release at its length after the call --
   every inner call of the operation lies between them, none outside.
   [las_with log a] = the stream value a whose raw stream carries the log. *)
Theorem c19_translated_ops_lock_once :
  forall cf log a o,
  gl_as_op cf (las_with log a) o =
  match g_as_op cf a o with
  | Some (a1, r) => Some (las_with (lock_once log (as_writer a) (as_writer a1)) a1, r)
  | None => None
  end.
Proof. exact translated_ops_lock_once. Qed.

(* the same, read through the hand model of the stream (Model/Stream.v auto_op) *)
Theorem c19_translated_ops_lock_once_model :
  forall cf log m s w o,
  gl_as_op cf (las_with log (as_of m s w)) o =
  match auto_op (ac_wv_all cf) m s w o with
  | Some (s1, w1, r) => Some (las_with (lock_once log w w1) (as_of m s1 w1), r)
  | None => None
  end.
Proof. exact translated_ops_lock_once_model. Qed.

(* StripStream driven directly (anstream::StripStream is public): the five translated methods (write_vectored takes no
   lock itself and delegates once to `self.write`) *)
Theorem c19_translated_strip_lock_once :
  forall x,
  (forall buf, gl_ss_write x buf =
     match g_ss_write (lss_erase x) buf with Some (x1, r) => Some (lss_locked x x1, r) | None => None end) /\
  (forall buf, gl_ss_write_all x buf =
     match g_ss_write_all (lss_erase x) buf with Some (x1, r) => Some (lss_locked x x1, r) | None => None end) /\
  (forall frags, gl_ss_write_fmt x frags =
     match g_ss_write_fmt (lss_erase x) frags with Some (x1, r) => Some (lss_locked x x1, r) | None => None end) /\
  (forall bufs, gl_ss_write_vectored x bufs =
     match g_ss_write_vectored (lss_erase x) bufs with Some (x1, r) => Some (lss_locked x x1, r) | None => None end) /\
  gl_ss_flush x = (lss_locked x (fst (g_ss_flush (lss_erase x))), snd (g_ss_flush (lss_erase x))).
Proof. exact translated_strip_lock_once. Qed.

(* ---- `as_locked_write` itself, translated (crates/anstream/src/stream.rs, Generated/GlueFn.v) ------------- *)

(* for Stdout / Stderr it is `self.lock()`: one Acquire at the current length of the inner call history, the guard views
   the SAME stream -- the reading `x.as_locked_write()` has in the translation above (lr_acquire, lr_w) *)
Theorem c19_translated_as_locked_write_std : forall x,
  g_as_locked_write_stdout x = (lr_acquire x, lr_w x) /\ g_as_locked_write_stderr x = (lr_acquire x, lr_w x).
Proof. exact translated_as_locked_write_std. Qed.

(* an already locked handle and the streams without a lock hand out themselves, no lock event; `&mut T` / `Box<T>` forward *)
Theorem c19_translated_as_locked_write_self : forall f, In f g_as_locked_write_self_impls -> forall x, f x = (x, x).
Proof. exact translated_as_locked_write_self. Qed.
Theorem c19_translated_as_locked_write_forward : forall G (talw : lraw -> lraw * G) x,
  g_as_locked_write_refmut G talw x = talw x /\ g_as_locked_write_box G talw x = talw x.
Proof. exact translated_as_locked_write_forward. Qed.

(* the Acquire of `as_locked_write` and the Release of the guard's destructor bracket the inner calls: lock_once *)
Theorem c19_translated_stdout_lock_once : forall x w',
  let '(x1, g) := g_as_locked_write_stdout x in
  g = lr_w x /\ lr_log (lr_release (set_lr_w x1 w')) = lock_once (lr_log x) (lr_w x) w'.
Proof. exact translated_stdout_lock_once. Qed.

(* the print macros (crates/anstream/src/_macros.rs, translated arm by arm: Generated/MacrosFn.v).  Outside tests ONE call
   of print! / println! / eprint! / eprintln! ([mac_arm err nl]) is ONE Write-method call -- write_fmt -- on a stream it
   has just made over its own std handle and that nobody else holds (first conjunct: the call's whole effect is that
   operation, and a panic when it fails); that operation, translated over the raw stream that logs its lock events, takes
   the lock exactly once around all its inner writes (second conjunct: the log grows by lock_once).  Hence one lock
   acquisition per macro call, and a call's bytes are contiguous in the output (c19_print_bytes_contiguous) *)
Theorem c19_translated_macro_lock_once :
  forall lossy fmt_nl (err nl : bool) cfv ch cf (so se : writer) world args log a,
  g_as_auto cf (if err then se else so) = Some a ->
  mac_arm lossy fmt_nl err nl false false cfv ch cf so se world args =
  match g_as_op cf a (OWriteFmt (if nl then fmt_nl args else args)) with
  | Some (a1, r) =>
      Some (world ++ MWriteFmt a1 (match r with RErr e => inr e | _ => inl tt end)
                     :: match r with RErr e => [MPanicIo (if err then mac_msg_stderr else mac_msg_stdout) e] | _ => [] end)
  | None => None
  end /\
  gl_as_op cf (las_with log a) (OWriteFmt (if nl then fmt_nl args else args)) =
  match g_as_op cf a (OWriteFmt (if nl then fmt_nl args else args)) with
  | Some (a1, r) => Some (las_with (lock_once log (as_writer a) (as_writer a1)) a1, r)
  | None => None
  end.
Proof. exact translated_macro_lock_once. Qed.
