(* Model/Utf8parse.v -- transcription of the `utf8parse` 0.2 dependency
   (src/lib.rs, src/types.rs): table-driven UTF-8 decoder.  Third-party code,
   tied by the correspondence runs (every parser / strip case goes through it). *)
From Coq Require Import NArith List Bool.
Import ListNotations.
Local Open Scope N_scope.

Inductive u8state : Set :=
  | U8Ground | U8Tail3 | U8Tail2 | U8Tail1 | U8_3_2_e0 | U8_3_2_ed | U8_4_3_f0 | U8_4_3_f4.

Inductive u8action : Set :=
  | InvalidSequence | EmitByte | SetByte1 | SetByte2 | SetByte2Top | SetByte3 | SetByte3Top | SetByte4.

Definition rng (lo hi b : N) : bool := (lo <=? b) && (b <=? hi).

Definition u8_advance (s : u8state) (b : N) : u8state * u8action :=
  match s with
  | U8Ground =>
      if rng 0 127 b then (U8Ground, EmitByte)
      else if rng 194 223 b then (U8Tail1, SetByte2Top)
      else if b =? 224 then (U8_3_2_e0, SetByte3Top)
      else if rng 225 236 b then (U8Tail2, SetByte3Top)
      else if b =? 237 then (U8_3_2_ed, SetByte3Top)
      else if rng 238 239 b then (U8Tail2, SetByte3Top)
      else if b =? 240 then (U8_4_3_f0, SetByte4)
      else if rng 241 243 b then (U8Tail3, SetByte4)
      else if b =? 244 then (U8_4_3_f4, SetByte4)
      else (U8Ground, InvalidSequence)
  | U8_3_2_e0 => if rng 160 191 b then (U8Tail1, SetByte2) else (U8Ground, InvalidSequence)
  | U8_3_2_ed => if rng 128 159 b then (U8Tail1, SetByte2) else (U8Ground, InvalidSequence)
  | U8_4_3_f0 => if rng 144 191 b then (U8Tail2, SetByte3) else (U8Ground, InvalidSequence)
  | U8_4_3_f4 => if rng 128 143 b then (U8Tail2, SetByte3) else (U8Ground, InvalidSequence)
  | U8Tail3 => if rng 128 191 b then (U8Tail2, SetByte3) else (U8Ground, InvalidSequence)
  | U8Tail2 => if rng 128 191 b then (U8Tail1, SetByte2) else (U8Ground, InvalidSequence)
  | U8Tail1 => if rng 128 191 b then (U8Ground, SetByte1) else (U8Ground, InvalidSequence)
  end.

Record u8parser : Set := mkU8 { u8point : N; u8st : u8state }.
Definition u8_new : u8parser := mkU8 0 U8Ground.

(* what the receiver is told *)
Inductive u8out : Set := U8None | U8Codepoint (c : N) | U8Invalid.

Definition CONTINUATION_MASK : N := 63.

Definition u8_parser_advance (p : u8parser) (b : N) : u8parser * u8out :=
  let '(st, a) := u8_advance (u8st p) b in
  match a with
  | InvalidSequence => (mkU8 0 st, U8Invalid)
  | EmitByte => (mkU8 (u8point p) st, U8Codepoint b)
  | SetByte1 =>
      let point := N.lor (u8point p) (N.land b CONTINUATION_MASK) in
      (mkU8 0 st, U8Codepoint point)
  | SetByte2 => (mkU8 (N.lor (u8point p) (N.shiftl (N.land b CONTINUATION_MASK) 6)) st, U8None)
  | SetByte2Top => (mkU8 (N.lor (u8point p) (N.shiftl (N.land b 31) 6)) st, U8None)
  | SetByte3 => (mkU8 (N.lor (u8point p) (N.shiftl (N.land b CONTINUATION_MASK) 12)) st, U8None)
  | SetByte3Top => (mkU8 (N.lor (u8point p) (N.shiftl (N.land b 15) 12)) st, U8None)
  | SetByte4 => (mkU8 (N.lor (u8point p) (N.shiftl (N.land b 7) 18)) st, U8None)
  end.

(* ---- vocabulary of the function translator (tools/gen_fn_utf8parse.py); definitions only ---- *)

(* per-field setters of `struct Parser { point: u32, state: State }` *)
Definition set_u8point (p : u8parser) (v : N) : u8parser := mkU8 v (u8st p).
Definition set_u8st (p : u8parser) (s : u8state) : u8parser := mkU8 (u8point p) s.

(* declaration order = the explicit discriminants of `enum State` / `enum Action` (checked by the plug-in) *)
Definition u8state_disc (s : u8state) : N :=
  match s with
  | U8Ground => 0 | U8Tail3 => 1 | U8Tail2 => 2 | U8Tail1 => 3
  | U8_3_2_e0 => 4 | U8_3_2_ed => 5 | U8_4_3_f0 => 6 | U8_4_3_f4 => 7
  end.
Definition u8action_disc (a : u8action) : N :=
  match a with
  | InvalidSequence => 0 | EmitByte => 1 | SetByte1 => 2 | SetByte2 => 3
  | SetByte2Top => 4 | SetByte3 => 5 | SetByte3Top => 6 | SetByte4 => 7
  end.
Definition u8state_eqb (a b : u8state) : bool := u8state_disc a =? u8state_disc b.
Definition u8action_eqb (a b : u8action) : bool := u8action_disc a =? u8action_disc b.
Definition all_u8states : list u8state :=
  [U8Ground; U8Tail3; U8Tail2; U8Tail1; U8_3_2_e0; U8_3_2_ed; U8_4_3_f0; U8_4_3_f4].
Definition all_u8actions : list u8action :=
  [InvalidSequence; EmitByte; SetByte1; SetByte2; SetByte2Top; SetByte3; SetByte3Top; SetByte4].

(* `a << i` at width w: a debug build panics when i >= w; bits shifted out are lost *)
Definition u8_cshl (w a i : N) : option N := if i <? w then Some (N.shiftl a i mod 2 ^ w) else None.

(* a `Receiver` is observed through the calls it gets, in order: `codepoint(c)` = U8Codepoint c,
   `invalid_sequence()` = U8Invalid.  [u8_events o] is the call list of one `advance` that answered o,
   [u8_deliver] runs a receiver (its two methods as functions on its state) over a call list. *)
Definition u8_events (o : u8out) : list u8out :=
  match o with U8None => [] | _ => [o] end.
Definition u8_deliver {R : Type} (cp : R -> N -> R) (inv : R -> R) (evs : list u8out) (r : R) : R :=
  fold_left (fun r ev => match ev with U8None => r | U8Codepoint c => cp r c | U8Invalid => inv r end) evs r.

(* anstyle-parse: `struct Utf8Parser { utf8_parser: utf8parse::Parser }` is the decoder itself,
   `struct VtUtf8Receiver<'a>(&'a mut Option<char>)` the option it borrows *)
Definition u8acc_inner (u : u8parser) : u8parser := u.
Definition set_u8acc_inner (_ v : u8parser) : u8parser := v.
Definition u8rcv_slot (r : option N) : option N := r.
Definition set_u8rcv_slot (_ v : option N) : option N := v.

(* a Unicode scalar value: what `char::from_u32_unchecked` requires of its argument *)
Definition u8_is_scalar (c : N) : bool := (c <? 55296) || ((57343 <? c) && (c <? 1114112)).
