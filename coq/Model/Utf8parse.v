(* Model/Utf8parse.v -- transcription of the `utf8parse` 0.2 dependency
   (src/lib.rs, src/types.rs): table-driven UTF-8 decoder.  Third-party code,
   tied by the correspondence runs (every parser / strip case goes through it). *)
From Coq Require Import NArith List Bool.
Import ListNotations.
Local Open Scope N_scope.

Inductive u8state : Set :=
  | U8Ground | U8Tail3 | U8Tail2 | U8Tail1 | U8_3_2_e0 | U8_3_2_ed | U8_4_3_f0 | U8_4_3_f4.

Inductive u8action : Set :=
  | InvalidSequence | EmitByte | SetByte1 | SetByte2 | SetByte2Top | SetByte3 | SetByte3Top | SetByte4.

Definition rng (lo hi b : N) : bool := (lo <=? b) && (b <=? hi).

Definition u8_advance (s : u8state) (b : N) : u8state * u8action :=
  match s with
  | U8Ground =>
      if rng 0 127 b then (U8Ground, EmitByte)
      else if rng 194 223 b then (U8Tail1, SetByte2Top)
      else if b =? 224 then (U8_3_2_e0, SetByte3Top)
      else if rng 225 236 b then (U8Tail2, SetByte3Top)
      else if b =? 237 then (U8_3_2_ed, SetByte3Top)
      else if rng 238 239 b then (U8Tail2, SetByte3Top)
      else if b =? 240 then (U8_4_3_f0, SetByte4)
      else if rng 241 243 b then (U8Tail3, SetByte4)
      else if b =? 244 then (U8_4_3_f4, SetByte4)
      else (U8Ground, InvalidSequence)
  | U8_3_2_e0 => if rng 160 191 b then (U8Tail1, SetByte2) else (U8Ground, InvalidSequence)
  | U8_3_2_ed => if rng 128 159 b then (U8Tail1, SetByte2) else (U8Ground, InvalidSequence)
  | U8_4_3_f0 => if rng 144 191 b then (U8Tail2, SetByte3) else (U8Ground, InvalidSequence)
  | U8_4_3_f4 => if rng 128 143 b then (U8Tail2, SetByte3) else (U8Ground, InvalidSequence)
  | U8Tail3 => if rng 128 191 b then (U8Tail2, SetByte3) else (U8Ground, InvalidSequence)
  | U8Tail2 => if rng 128 191 b then (U8Tail1, SetByte2) else (U8Ground, InvalidSequence)
  | U8Tail1 => if rng 128 191 b then (U8Ground, SetByte1) else (U8Ground, InvalidSequence)
  end.

Record u8parser : Set := mkU8 { u8point : N; u8st : u8state }.
Definition u8_new : u8parser := mkU8 0 U8Ground.

(* what the receiver is told *)
Inductive u8out : Set := U8None | U8Codepoint (c : N) | U8Invalid.

Definition CONTINUATION_MASK : N := 63.

Definition u8_parser_advance (p : u8parser) (b : N) : u8parser * u8out :=
  let '(st, a) := u8_advance (u8st p) b in
  match a with
  | InvalidSequence => (mkU8 0 st, U8Invalid)
  | EmitByte => (mkU8 (u8point p) st, U8Codepoint b)
  | SetByte1 =>
      let point := N.lor (u8point p) (N.land b CONTINUATION_MASK) in
      (mkU8 0 st, U8Codepoint point)
  | SetByte2 => (mkU8 (N.lor (u8point p) (N.shiftl (N.land b CONTINUATION_MASK) 6)) st, U8None)
  | SetByte2Top => (mkU8 (N.lor (u8point p) (N.shiftl (N.land b 31) 6)) st, U8None)
  | SetByte3 => (mkU8 (N.lor (u8point p) (N.shiftl (N.land b CONTINUATION_MASK) 12)) st, U8None)
  | SetByte3Top => (mkU8 (N.lor (u8point p) (N.shiftl (N.land b 15) 12)) st, U8None)
  | SetByte4 => (mkU8 (N.lor (u8point p) (N.shiftl (N.land b 7) 18)) st, U8None)
  end.
