(* Model/WinconStream.v -- hand model of crates/anstream/src/wincon.rs (the
   legacy-console stream, as repaired): write / write_all / write_vectored /
   write_fmt / flush over the styled-run extractor of Model/Wincon.v and a
   scripted console writer.  Definitions only. *)
From Coq Require Import NArith List Bool.
From AV Require Import Generated.Table Spec.Utf8 Spec.Vt Spec.Sgr Spec.Io
  Model.Base Model.Utf8parse Model.Parser Model.Strip Model.Wincon Model.Stream.
Import ListNotations.
Local Open Scope N_scope.

(* what the console writer saw: write_colored(fg, bg, data) -> Ok n / Err k *)
Record ccall : Set := mkCC { cc_fg : option N; cc_bg : option N; cc_data : list N; cc_res : N + ekind }.

Record console : Set := mkCon { con_script : list resp; con_calls : list ccall; con_flushes : N }.
Definition console_of (script : list resp) : console := mkCon script [] 0.

Definition con_write_colored (c : console) (fg bg : option N) (data : list N) : console * (N + ekind) :=
  let len := N.of_nat (length data) in
  match con_script c with
  | [] => (mkCon [] (con_calls c ++ [mkCC fg bg data (inl len)]) (con_flushes c), inl len)
  | Accept n :: rest =>
      let k := N.min n len in
      (mkCon rest (con_calls c ++ [mkCC fg bg data (inl k)]) (con_flushes c), inl k)
  | Fail e :: rest => (mkCon rest (con_calls c ++ [mkCC fg bg data (inr e)]) (con_flushes c), inr e)
  end.

(* fn cap_wincon_color *)
Definition cap_wincon_color (c : colour) : option N :=
  match c with
  | CAnsi a => Some a
  | CIdx i => if i <? 16 then Some i else None       (* Ansi256Color::into_ansi *)
  | CRgb _ _ _ => None
  end.
Definition cap_opt (c : option colour) : option N := match c with Some x => cap_wincon_color x | None => None end.

(* String::as_bytes *)
Definition str_bytes (cps : list N) : list N := flat_map utf8_encode cps.

(* the `while !buf.is_empty()` loop of write_all for one run *)
Fixpoint wc_run_loop (fuel : nat) (c : console) (fg bg : option N) (buf : list N) : console * (unit + ekind) :=
  match buf with
  | [] => (c, inl tt)
  | _ =>
      match fuel with
      | O => (c, inr Other)
      | S f =>
          let '(c1, r) := con_write_colored c fg bg buf in
          match r with
          | inl 0 => (c1, inr WriteZero)
          | inl n => wc_run_loop f c1 fg bg (skipn (N.to_nat n) buf)
          | inr Interrupted => wc_run_loop f c1 fg bg buf
          | inr e => (c1, inr e)
          end
      end
  end.

Record wstream : Set := mkWS { ws_parser : parser; ws_capture : capture }.
Definition ws_new : wstream := mkWS parser_new capture_default.

(* fn write_all: `for (style, printable) in state.extract_next(buf)` (lazy) *)
Fixpoint wc_write_all_loop (fuel : nat) (bs : list N) (p : parser) (cap : capture) (c : console)
  : option (wstream * console * sres) :=
  match fuel with
  | O => None
  | S f =>
      '(item, bs1, p1, cap1) <- wincon_next bs p cap ;;
      match item with
      | None => Some (mkWS p1 cap1, c, ROk)
      | Some (style, txt) =>
          let data := str_bytes txt in
          let '(c1, r) := wc_run_loop (S (length (con_script c) + length data)) c (cap_opt (s_fg style)) (cap_opt (s_bg style)) data in
          match r with
          | inl _ => wc_write_all_loop f bs1 p1 cap1 c1
          | inr e => Some (mkWS p1 cap1, c1, RErr e)
          end
      end
  end.

Definition wc_write_all (s : wstream) (buf : list N) (c : console) : option (wstream * console * sres) :=
  let cap0 := mkCap (c_style (ws_capture s)) (c_printable (ws_capture s)) None in   (* extract_next: capture.reset() *)
  wc_write_all_loop (S (S (length buf))) buf (ws_parser s) cap0 c.

(* fn write (as repaired): write_all(..)?; Ok(buf.len()) *)
Definition wc_write (s : wstream) (buf : list N) (c : console) : option (wstream * console * sres) :=
  '(s1, c1, r) <- wc_write_all s buf c ;;
  match r with
  | RErr e => Some (s1, c1, RErr e)
  | _ => Some (s1, c1, ROkN (N.of_nat (length buf)))
  end.

Fixpoint wc_write_fmt (s : wstream) (frags : list (list N)) (c : console) : option (wstream * console * sres) :=
  match frags with
  | [] => Some (s, c, ROk)
  | fr :: rest =>
      '(s1, c1, r) <- wc_write_all s fr c ;;
      match r with
      | RErr e => Some (s1, c1, RErr e)
      | _ => wc_write_fmt s1 rest c1
      end
  end.

Definition wc_op (s : wstream) (c : console) (o : sop) : option (wstream * console * sres) :=
  match o with
  | OWrite buf => wc_write s buf c
  | OWriteAll buf => wc_write_all s buf c
  | OWriteVectored bufs => wc_write s (first_nonempty bufs) c
  | OWriteFmt frags => wc_write_fmt s frags c
  | OFlush => Some (s, mkCon (con_script c) (con_calls c) (con_flushes c + 1), ROk)
  end.

Fixpoint wc_run_ops (s : wstream) (c : console) (ops : list sop) : option (wstream * console * list sres) :=
  match ops with
  | [] => Some (s, c, [])
  | o :: rest =>
      '(s1, c1, r) <- wc_op s c o ;;
      '(s2, c2, rs) <- wc_run_ops s1 c1 rest ;;
      Some (s2, c2, r :: rs)
  end.

(* ---- vocabulary of the function translator (tools/gen_fn_stream.py, Generated/WinconStreamFn.v) ----
   Small adapters only: no existing definition changes meaning. *)
Definition ekind_eqb (a b : ekind) : bool :=
  match a, b with
  | Interrupted, Interrupted | WouldBlock, WouldBlock | Other, Other | WriteZero, WriteZero => true
  | _, _ => false
  end.

(* WinconBytesIter as a cursor (the remaining bytes); the `&mut WinconBytes` it holds is threaded
   through every `next`; creating it is extract_next's capture.reset() *)
Definition wci_enter (s : wstream) : wstream :=
  mkWS (ws_parser s) (mkCap (c_style (ws_capture s)) (c_printable (ws_capture s)) None).
Definition wci_new (buf : list N) : list N := buf.
Definition wci_next (it : list N) (s : wstream) : option (option (sstyle * list N) * list N * wstream) :=
  '(item, bs1, p1, cap1) <- wincon_next it (ws_parser s) (ws_capture s) ;;
  Some (item, bs1, mkWS p1 cap1).

(* Ansi256Color::into_ansi (crates/anstyle) *)
Definition idx_into_ansi (i : N) : option N := if i <? 16 then Some i else None.

(* calls on the console (`raw: &mut dyn anstyle_wincon::WinconStream`) *)
Definition wc_raw_flush (c : console) : console * (unit + ekind) :=
  (mkCon (con_script c) (con_calls c) (con_flushes c + 1), inl tt).

(* the struct WinconStream { raw, state } *)
Record wcstream : Set := mkWCS { wcs_raw : console; wcs_state : wstream }.
Definition set_wcs_raw (x : wcstream) (c : console) : wcstream := mkWCS c (wcs_state x).
Definition set_wcs_state (x : wcstream) (s : wstream) : wcstream := mkWCS (wcs_raw x) s.

(* ---- vocabulary, second part: the constructors / accessors of WinconStream (tools/gen_fn_stream.py) ----
   what the raw console stream answers besides taking coloured writes, as for the strip stream ([acfg], Model/Stream.v):
   `raw.is_terminal()`; Stdout::lock / Stderr::lock: the guard writes to the same console *)
Definition con_is_terminal (cf : acfg) (c : console) : bool := ac_tty cf.
Definition con_lock (c : console) : console := c.
