(* Model/WinconAnsi.v -- hand model of crates/anstyle-wincon/src/ansi.rs
   `write_colored` over the inner writers of Spec/Io (C17).  Definitions only.

     pub fn write_colored<S: std::io::Write + ?Sized>(stream, fg, bg, data) -> io::Result<usize> {
         let non_default = fg.is_some() || bg.is_some();
         if non_default {
             if let Some(fg) = fg { write!(stream, "{}", fg.render_fg())?; }
             if let Some(bg) = bg { write!(stream, "{}", bg.render_bg())?; }
         }
         let written = stream.write(data)?;
         if non_default { write!(stream, "{}", anstyle::Reset.render())?; }
         Ok(written)
     }

   `write!(stream, "{}", x)` is std's `Write::write_fmt`: every formatted fragment
   goes to `write_all` (retry on Interrupted, WriteZero on Ok(0)), the first io
   error is saved and returned.  `render_fg()` / `render_bg()` / `Reset.render()`
   display as ONE fragment (one `f.write_str` of the whole escape string; shape
   checked by tools/gen_wincon_ansi.py), so each `write!` is one `w_write_all` of
   the generated string.  The data goes through ONE plain `write`.  Colours are
   the generated enum `ansi_color` (16 constructors), so `option ansi_color` is
   exactly {None, 16 colours}. *)
From Coq Require Import NArith List Bool.
From AV Require Import Generated.Style Generated.WinconAnsi Spec.Io.
Import ListNotations.
Local Open Scope N_scope.

Definition wa_is_some {A} (o : option A) : bool := match o with Some _ => true | None => false end.

(* `if let Some(c) = o { write!(stream, "{}", render c)?; }` *)
Definition wa_write_opt (render : ansi_color -> list N) (o : option ansi_color) (w : writer)
  : writer * (unit + ekind) :=
  match o with
  | Some c => w_write_all w (render c)
  | None => (w, inl tt)
  end.

Definition wa_write_colored (fg bg : option ansi_color) (data : list N) (w : writer)
  : writer * (N + ekind) :=
  let non_default := wa_is_some fg || wa_is_some bg in
  (* if non_default { fg?; bg?; } *)
  let '(w1, r1) := if non_default then wa_write_opt ansi_fg_str fg w else (w, inl tt) in
  match r1 with
  | inr e => (w1, inr e)
  | inl _ =>
      let '(w2, r2) := if non_default then wa_write_opt ansi_bg_str bg w1 else (w1, inl tt) in
      match r2 with
      | inr e => (w2, inr e)
      | inl _ =>
          (* let written = stream.write(data)?; *)
          let '(w3, r3) := w_write w2 data in
          match r3 with
          | inr e => (w3, inr e)
          | inl written =>
              if non_default then
                let '(w4, r4) := w_write_all w3 wa_reset_str in
                match r4 with
                | inr e => (w4, inr e)
                | inl _ => (w4, inl written)
                end
              else (w3, inl written)
          end
      end
  end.

(* the WinconStream impls of stream.rs (Generated.WinconAnsi.wa_impls): which of
   them, on a non-Windows build, end in ansi::write_colored.  A dereferencing impl
   (&mut T, Box<T>) forwards to the impl of T; a locking impl (Stdout, Stderr)
   forwards to the impl of its lock type "<T>Lock<'_>". *)
Fixpoint wa_bytes_eqb (a b : list N) : bool :=
  match a, b with
  | [], [] => true
  | x :: a', y :: b' => (x =? y) && wa_bytes_eqb a' b'
  | _, _ => false
  end.

Definition wa_on_unix (c : wa_cfg) : bool := match c with WaWin => false | _ => true end.

Definition wa_lock_suffix : list N := [76; 111; 99; 107; 60; 39; 95; 62].   (* "Lock<'_>" *)

Definition wa_impl_is_ansi (i : list N * wa_cfg * wa_body) : bool :=
  let '(ty, cfg, body) := i in
  match body with
  | WaAnsi => true
  | WaDeref => true
  | WaLock =>
      existsb (fun j => let '(ty', cfg', body') := j in
                        wa_on_unix cfg' && wa_bytes_eqb ty' (ty ++ wa_lock_suffix)
                        && match body' with WaAnsi => true | _ => false end) wa_impls
  | WaWindows => false
  end.

Definition wa_unix_impls_all_ansi : bool :=
  forallb wa_impl_is_ansi (filter (fun i => wa_on_unix (snd (fst i))) wa_impls).

(* ---- vocabulary of the function translator (tools/gen_fn_wincon_ansi.py -> Generated/WinconAnsiFn.v) ----
   Adapters; definitions only. *)

(* what `render_fg()` / `render_bg()` / `Reset.render()` return, as far as `write!(stream, "{}", x)` looks at
   it: the ONE fragment its Display impl hands to the formatter (shape-checked by tools/gen_wincon_ansi.py) *)
Definition wa_display := list N.
Definition wa_render_fg (c : ansi_color) : wa_display := ansi_fg_str c.
Definition wa_render_bg (c : ansi_color) : wa_display := ansi_bg_str c.
Definition wa_reset_render (r : unit) : wa_display := wa_reset_str.

(* stream.write(data) *)
Definition wa_raw_write (w : writer) (buf : list N) : writer * (N + ekind) := w_write w buf.
(* write!(stream, "{}", x): std's Write::write_fmt sends the fragment to write_all *)
Definition wa_raw_write_fmt1 (w : writer) (d : wa_display) : writer * (unit + ekind) := w_write_all w d.
