(* Model/Git.v -- hand model of crates/anstyle-git/src/lib.rs `parse` and
   `parse_color` (as repaired: the '#' digits must be ASCII hex digits before they
   are sliced).  The input is the list of code points of the &str; words are lists
   of code points; `parse_color` works on the UTF-8 bytes of the (lower-cased)
   word, so that `len()` is a byte length and `&hex[a..b]` is a byte slice that
   panics off a char boundary.  The keyword and colour-name arms come from
   Generated/Git.v.  Definitions only.

   Result conventions: outer [None] = panic.  parse_color: [Some None] = Err(()),
   [Some (Some c)] = Ok(c) with c : Option<Color>. *)
From Coq Require Import NArith List Bool.
From AV Require Import Generated.Git Spec.StyleRec Model.Base Model.Text.
Import ListNotations.
Local Open Scope N_scope.

Definition parse_color (w : list N) : option (option (option tcolor)) :=
  match assoc w git_color_names with
  | Some None => Some (Some None)                                   (* "normal" | "-1" => None *)
  | Some (Some i) => Some (Some (Some (TAnsi i)))                   (* AnsiColor::X.into() *)
  | None =>
      let number :=
        match parse_u8 (str_bytes w) with                           (* word.parse::<u8>() *)
        | Some n => Some (Some (Some (TAnsi256 n)))                 (* Color::from(n) *)
        | None => Some None
        end in
      match w with
      | c :: hex =>
          if c =? git_hex_prefix then                               (* word.strip_prefix('#') *)
            let hb := str_bytes hex in
            let l := N.of_nat (length hb) in                        (* hex.len() *)
            if negb (existsb (N.eqb l) git_hex_lens) then Some None (* l != 3 && l != 6 *)
            else if negb (forallb is_ascii_hexdigit hb) then Some None
            else
              let l3 := l / 3 in
              rs <- str_slice hb 0 l3 ;;
              gs <- str_slice hb l3 (2 * l3) ;;
              bs <- str_slice hb (2 * l3) (3 * l3) ;;
              match u8_from_str_radix git_hex_radix rs,
                    u8_from_str_radix git_hex_radix gs,
                    u8_from_str_radix git_hex_radix bs with
              | Some r, Some g, Some b => Some (Some (Some (TRgb r g b)))   (* Color::from((r, g, b)) *)
              | _, _, _ => Some None
              end
          else number
      | [] => number
      end
  end.

(* `for word in s.split_whitespace()` with the state (style.fg, style.bg,
   num_colors, effects); `style |= effects; Ok(style)` at the end *)
Fixpoint git_loop (ws : list (list N)) (fg bg : option tcolor) (ncol : N) (eff : N) : option git_result :=
  match ws with
  | [] => Some (GOk (mkTStyle fg bg None eff))
  | word :: rest =>
      let lw := to_lowercase word in
      match assoc lw git_keywords with
      | Some (true, bit) => git_loop rest fg bg ncol (eff_insert eff bit)
      | Some (false, bit) => git_loop rest fg bg ncol (eff_remove eff bit)
      | None =>
          pc <- parse_color lw ;;
          match pc with
          | Some color =>
              if ncol =? 0 then git_loop rest color bg (ncol + 1) eff
              else if ncol =? 1 then git_loop rest fg color (ncol + 1) eff
              else Some (GExtraColor word)
          | None => Some (GUnknownWord word)
          end
      end
  end.

Definition git_parse (s : list N) : option git_result :=
  git_loop (split_whitespace s) None None 0 0.

(* ---- vocabulary of the function translator (tools/gen_fn_text.py) ------------
   anstyle_git::Error with both of its fields (the result type [git_result] of the
   specification keeps the word only).  Definitions only. *)
Inductive git_error : Set :=
  | GEExtraColor (style word : list N)
  | GEUnknownWord (style word : list N).

Definition git_result_of (r : result tstyle git_error) : git_result :=
  match r with
  | Ok st => GOk st
  | Err (GEExtraColor _ w) => GExtraColor w
  | Err (GEUnknownWord _ w) => GUnknownWord w
  end.

(* the `style` field of an error *)
Definition git_error_style (r : result tstyle git_error) : option (list N) :=
  match r with
  | Ok _ => None
  | Err (GEExtraColor s _) | Err (GEUnknownWord s _) => Some s
  end.

(* ---- impl std::fmt::Display for Error -----------------------------------------------
   The message as code points (the literal pieces are ASCII).  [git_fmt_write] is the vocabulary's
   `Formatter::write_str` on a formatter over an infallible sink: the text written so far, extended. *)
From Coq Require Import Strings.String Strings.Ascii.

Definition git_fmt_write (f s : list N) : list N := f ++ s.

Definition git_lit (s : string) : list N := map N_of_ascii (list_ascii_of_string s).

(* "Error parsing style \"{style}\": extra color \"{word}\""  /  "Error parsing style \"{style}\": unknown word: \"{word}\"" *)
Definition git_error_message (e : git_error) : list N :=
  match e with
  | GEExtraColor style word =>
      git_lit "Error parsing style """ ++ style ++ git_lit """: extra color """ ++ word ++ git_lit """"
  | GEUnknownWord style word =>
      git_lit "Error parsing style """ ++ style ++ git_lit """: unknown word: """ ++ word ++ git_lit """"
  end.

(* e.to_string() *)
Definition git_error_to_string (e : git_error) : list N := git_error_message e.
