(* Model/Text.v -- Rust std operations used by the two text parsers
   (anstyle-ls, anstyle-git), as std defines them.  Strings are either lists of
   code points (`chars()`) or lists of UTF-8 bytes (`bytes()`); an operation
   that can panic returns [None] in the outer option.  Definitions only. *)
From Coq Require Import NArith List Bool.
From AV Require Import Spec.StyleRec Model.Base.
Import ListNotations.
Local Open Scope N_scope.

Fixpoint list_eqb (a b : list N) : bool :=
  match a, b with
  | [], [] => true
  | x :: a', y :: b' => (x =? y) && list_eqb a' b'
  | _, _ => false
  end.

Fixpoint assoc {V} (k : list N) (tbl : list (list N * V)) : option V :=
  match tbl with
  | [] => None
  | (k', v) :: rest => if list_eqb k k' then Some v else assoc k rest
  end.

(* Iterator::collect::<Option<_>>() *)
Fixpoint collect_option {A} (l : list (option A)) : option (list A) :=
  match l with
  | [] => Some []
  | None :: _ => None
  | Some x :: t => match collect_option t with Some t' => Some (x :: t') | None => None end
  end.

(* str::split(pred): always at least one piece *)
Fixpoint split_pred (p : N -> bool) (s : list N) : list (list N) :=
  match s with
  | [] => [[]]
  | c :: rest =>
      if p c then [] :: split_pred p rest
      else match split_pred p rest with
           | [] => [[c]]
           | f :: fs => (c :: f) :: fs
           end
  end.

(* str::split(char) *)
Definition split_on (sep : N) (s : list N) : list (list N) := split_pred (N.eqb sep) s.

(* ---- integer parsing: <u8>::from_str_radix / str::parse::<u8> ------------ *)

(* char::to_digit(radix) on a byte read as a Latin-1 char, radix <= 36 *)
Definition to_digit (radix c : N) : option N :=
  let d := if (48 <=? c) && (c <=? 57) then Some (c - 48)
           else if (97 <=? c) && (c <=? 122) then Some (c - 97 + 10)
           else if (65 <=? c) && (c <=? 90) then Some (c - 65 + 10)
           else None in
  match d with
  | Some v => if v <? radix then Some v else None
  | None => None
  end.

(* the digit loop: InvalidDigit / PosOverflow are [None] (an Err, not a panic) *)
Fixpoint digits_u8 (radix : N) (ds : list N) (acc : N) : option N :=
  match ds with
  | [] => Some acc
  | c :: rest =>
      match to_digit radix c with
      | None => None
      | Some d => if acc * radix + d <=? 255 then digits_u8 radix rest (acc * radix + d) else None
      end
  end.

(* Empty -> Err; a lone sign -> Err; a leading '+' is skipped; '-' is not a sign
   for an unsigned type *)
Definition u8_from_str_radix (radix : N) (s : list N) : option N :=
  match s with
  | [] => None
  | c :: rest =>
      match rest with
      | [] => if (c =? 43) || (c =? 45) then None else digits_u8 radix s 0
      | _ => if c =? 43 then digits_u8 radix rest 0 else digits_u8 radix s 0
      end
  end.

Definition parse_u8 (s : list N) : option N := u8_from_str_radix 10 s.

(* ---- UTF-8 --------------------------------------------------------------- *)

Definition utf8_encode (c : N) : list N :=
  if c <? 128 then [c]
  else if c <? 2048 then [192 + c / 64; 128 + c mod 64]
  else if c <? 65536 then [224 + c / 4096; 128 + (c / 64) mod 64; 128 + c mod 64]
  else [240 + c / 262144; 128 + (c / 4096) mod 64; 128 + (c / 64) mod 64; 128 + c mod 64].

Definition str_bytes (w : list N) : list N := flat_map utf8_encode w.

(* str::is_char_boundary *)
Definition is_char_boundary (b : list N) (i : N) : bool :=
  if i =? 0 then true
  else match nth_error b (N.to_nat i) with
       | None => i =? N.of_nat (length b)
       | Some x => negb ((128 <=? x) && (x <? 192))
       end.

(* &s[lo..hi] on the bytes of a str: panics unless lo <= hi <= len and both are
   char boundaries *)
Definition str_slice (b : list N) (lo hi : N) : option (list N) :=
  if (lo <=? hi) && is_char_boundary b lo && is_char_boundary b hi then slice b lo hi else None.

(* u8::is_ascii_hexdigit *)
Definition is_ascii_hexdigit (b : N) : bool :=
  ((48 <=? b) && (b <=? 57)) || ((65 <=? b) && (b <=? 70)) || ((97 <=? b) && (b <=? 102)).

(* ---- char classes ---------------------------------------------------------- *)

(* char::is_whitespace: the Unicode White_Space property, as a literal list *)
Definition white_space : list N :=
  [9; 10; 11; 12; 13; 32; 133; 160; 5760;
   8192; 8193; 8194; 8195; 8196; 8197; 8198; 8199; 8200; 8201; 8202;
   8232; 8233; 8239; 8287; 12288].

Definition is_whitespace (c : N) : bool := existsb (N.eqb c) white_space.

Definition is_nil {A} (l : list A) : bool := match l with [] => true | _ => false end.

(* str::split_whitespace = split(char::is_whitespace).filter(|s| !s.is_empty()) *)
Definition split_whitespace (s : list N) : list (list N) :=
  filter (fun w => negb (is_nil w)) (split_pred is_whitespace s).

(* str::to_lowercase, per code point.  ASSUMPTION (DESIGN C11): lowercasing is
   the identity off ASCII.  Real Unicode lowercasing maps non-ASCII characters
   to non-ASCII strings with exactly two exceptions over all of `char`
   (U+212A KELVIN SIGN -> 'k', U+0130 -> 'i' U+0307); since every keyword and
   colour word is ASCII, a word holding any other non-ASCII character is
   rejected either way.  The correspondence generators exclude the two. *)
Definition to_lowercase_cp (c : N) : N := if (65 <=? c) && (c <=? 90) then c + 32 else c.
Definition to_lowercase (w : list N) : list N := map to_lowercase_cp w.

(* ---- vocabulary of the function translator (tools/gen_fn_text.py) ------------
   Adapters between the Rust API the two `parse` functions call and the
   definitions above; Generated/TextFn.v is written in these terms.
   Definitions only. *)

(* core::result::Result *)
Inductive result (T E : Type) : Type := Ok (t : T) | Err (e : E).
Arguments Ok {T E} t.
Arguments Err {T E} e.

(* Result::ok *)
Definition res_ok {T E} (r : result T E) : option T := match r with Ok t => Some t | Err _ => None end.
(* Result::map_err *)
Definition res_map_err {T E F} (f : E -> F) (r : result T E) : result T F :=
  match r with Ok t => Ok t | Err e => Err (f e) end.
(* the std parsers above answer Err as [None]; the error value is not modelled *)
Definition res_of_opt {T} (o : option T) : result T unit := match o with Some t => Ok t | None => Err tt end.

(* VecDeque::pop_front: (the deque afterwards, the popped element) *)
Definition pop_front {A} (l : list A) : list A * option A :=
  match l with [] => ([], None) | x :: t => (t, Some x) end.

(* a &str given by its code points: len() and slicing work on its UTF-8 bytes;
   a slice is kept as bytes (only from_str_radix reads it) *)
Definition str_len (w : list N) : N := N.of_nat (length (str_bytes w)).
Definition str_slice_cp (w : list N) (lo hi : N) : option (list N) := str_slice (str_bytes w) lo hi.
(* str::split_at(mid) = (&s[..mid], &s[mid..]): panics when mid is past the end or off a char boundary, like
   slicing; [str_split_at] on the bytes (a piece of a sliced / split str), [str_split_at_cp] on the code points *)
Definition str_split_at (b : list N) (mid : N) : option (list N * list N) :=
  match str_slice b 0 mid, str_slice b mid (N.of_nat (length b)) with
  | Some l, Some r => Some (l, r)
  | _, _ => None
  end.
Definition str_split_at_cp (w : list N) (mid : N) : option (list N * list N) := str_split_at (str_bytes w) mid.
(* str::strip_prefix(char) *)
Definition str_strip_prefix (w : list N) (c : N) : option (list N) :=
  match w with
  | x :: t => if x =? c then Some t else None
  | [] => None
  end.

(* anstyle::Effects as its bit set: Effects::new(), the constant with bit i,
   `|`, insert, remove *)
Definition fx_new : N := 0.
Definition fx_bit (i : N) : N := 2 ^ i.
Definition fx_bitor (a b : N) : N := N.lor a b.
Definition fx_insert (a b : N) : N := N.lor a b.
Definition fx_remove (a b : N) : N := N.ldiff a b.

(* impl BitOrAssign<Effects> for Style *)
Definition style_or_effects (s : tstyle) (e : N) : tstyle := set_effects s (N.lor (t_eff s) e).
